import TinsModel.Wire.Icmp.ThCodec
/-
  C04, codec half for ICMPv6: **every** typed option setter of `Tins::ICMPv6` against its typed getter.

  For each typed option `x` this file has
    * `Icmp6.encX`      the octets the setter hands to `add_option` (named; `apply_x_enc` shows by `rfl` that it is what
                        `Icmp6.apply` — the model the harness is compared with on every run — builds),
    * `ReprX`           an explicit decidable predicate: the arguments the wire format can express,
    * `x_codec_inverse` `ReprX v → decX (encX v) = .val (the dump of v)` for ALL such `v` (lists of any length, any octets),
    * `x_wire`          the option the setter builds is `Opt.Aligned`, so `icmp6_opts_reparse_partial` carries the same data
                        through `write_serialization` and `parse_options` (`typed_through_wire` below),
    * an `example`.
  The five codecs proved earlier (`mtu_codec`, `advert_codec`, `hw_codec`, `codeLen_codec`, `rsa_codec`) stay in
  ThCodec.lean; `icmp6_typed_codecs_inverse` at the end collects all 24.
-/
namespace Tins.Wire.Icmp
open Tins Tins.Wire

/-! ### positional lemmas: reading a member at a fixed offset of an appended buffer -/

theorem byteAt_append_left (a r : Bytes) (i : Nat) (h : i < a.length) : byteAt (a ++ r) i = byteAt a i := by
  simp [byteAt, List.getD_eq_getElem?_getD, List.getElem?_append_left h]

theorem byteAt_append_right (a r : Bytes) (i : Nat) (h : a.length ≤ i) : byteAt (a ++ r) i = byteAt r (i - a.length) := by
  simp [byteAt, List.getD_eq_getElem?_getD, List.getElem?_append_right h]

theorem drop_append_right (a r : Bytes) (i : Nat) (h : a.length ≤ i) : (a ++ r).drop i = r.drop (i - a.length) := by
  obtain ⟨j, rfl⟩ : ∃ j, i = a.length + j := ⟨i - a.length, by omega⟩
  rw [List.drop_append]; simp

theorem slice_append_right (a r : Bytes) (i n : Nat) (h : a.length ≤ i) : slice (a ++ r) i n = slice r (i - a.length) n := by
  unfold slice; rw [drop_append_right _ _ _ h]

theorem slice_append_left (a r : Bytes) (i n : Nat) (h : i + n ≤ a.length) : slice (a ++ r) i n = slice a i n := by
  unfold slice
  rw [List.drop_append_of_le_length (by omega), List.take_append_of_le_length (by simp; omega)]

theorem be16At_append_right (a r : Bytes) (i : Nat) (h : a.length ≤ i) : be16At (a ++ r) i = be16At r (i - a.length) := by
  unfold be16At; rw [slice_append_right _ _ _ _ h]

theorem be32At_append_right (a r : Bytes) (i : Nat) (h : a.length ≤ i) : be32At (a ++ r) i = be32At r (i - a.length) := by
  unfold be32At; rw [slice_append_right _ _ _ _ h]

@[simp] theorem u8_length (v : Nat) : (Icmp6.u8 v).length = 1 := rfl
@[simp] theorem be16_length (v : Nat) : (Icmp6.be16 v).length = 2 := by simp [Icmp6.be16]
@[simp] theorem be32_length (v : Nat) : (Icmp6.be32 v).length = 4 := by simp [Icmp6.be32]

theorem byteAt_u8_0 (v : Nat) (r : Bytes) : byteAt (Icmp6.u8 v ++ r) 0 = v % 256 := by
  simp [byteAt, Icmp6.u8, UInt8.toNat_ofNat']

theorem byteAt_u8_0' (v : Nat) : byteAt (Icmp6.u8 v) 0 = v % 256 := by
  simp [byteAt, Icmp6.u8, UInt8.toNat_ofNat']

theorem be32At_0 (v : Nat) (r : Bytes) : be32At (Icmp6.be32 v ++ r) 0 = v % 4294967296 := by
  have := be32At_app [] v r 0 rfl
  simpa using this

theorem be32At_0' (v : Nat) : be32At (Icmp6.be32 v) 0 = v % 4294967296 := by
  have := be32At_0 v []
  simpa using this

theorem be16At_0' (v : Nat) : be16At (Icmp6.be16 v) 0 = v % 65536 := by
  have := be16At_app0 v []
  simpa using this

/-- `chunks` undoes `flatten` on blocks of equal size (`while (stream) v.push_back(stream.read<T>())`) -/
theorem chunks_flatten (k : Nat) (l : List Bytes) (h : ∀ x ∈ l, x.length = k) (tail : Bytes) :
    Icmp6.chunks k l.length (l.flatten ++ tail) = l := by
  induction l with
  | nil => rfl
  | cons x xs ih =>
    have hx := h x List.mem_cons_self
    have hxs := fun y hy => h y (List.mem_cons_of_mem _ hy)
    simp only [List.length_cons, Icmp6.chunks, List.flatten_cons, List.append_assoc]
    rw [take_append_len _ _ _ hx, drop_append_len _ _ _ hx, ih hxs]

theorem flatten_length_eq (k : Nat) (l : List Bytes) (h : ∀ x ∈ l, x.length = k) : l.flatten.length = k * l.length := by
  induction l with
  | nil => rfl
  | cons x xs ih =>
    have hx := h x List.mem_cons_self
    have hxs := fun y hy => h y (List.mem_cons_of_mem _ hy)
    simp only [List.flatten_cons, List.length_append, List.length_cons, ih hxs, hx, Nat.mul_succ]
    omega

namespace Icmp6

/-! ### the named encoders (what each typed setter hands to `add_option`) -/

def encPrefixInfo (pl a l valid pref : Nat) (pfx : Bytes) : Bytes :=
  u8 pl ++ u8 ((l % 2) * 128 + (a % 2) * 64) ++ be32 valid ++ be32 pref ++ zeros 4 ++ pfx
def encMtu (a b : Nat) : Bytes := be16 a ++ be32 b
def encShortcut (l r1 r2 : Nat) : Bytes := u8 l ++ u8 r1 ++ be32 r2
def encAdvert (r i : Nat) : Bytes := be16 r ++ be32 i
def encHaInfo (a b c : Nat) : Bytes := be16 a ++ be16 b ++ be16 c
def encAddrList (r : Bytes) (l : List Bytes) : Bytes := r ++ l.flatten
def encRsa (h s : Bytes) : Bytes := zeros 2 ++ h ++ s ++ zeros (optPadding (2 + 2 + 16 + s.length))
def encTimestamp (r : Bytes) (t : Nat) : Bytes := r ++ OutCursor.beBytes 8 t
def encIpPrefix (c l : Nat) (a : Bytes) : Bytes := u8 c ++ u8 l ++ zeros 4 ++ a
def encLladdr (c : Nat) (a : Bytes) : Bytes := u8 c ++ a ++ zeros (optPadding (2 + (1 + a.length)))
def encNaack (c s : Nat) : Bytes := u8 c ++ u8 s ++ zeros 4
def encMap (d pr r valid : Nat) (a : Bytes) : Bytes := u8 ((d % 16) * 16 + pr % 16) ++ u8 ((r % 2) * 128) ++ be32 valid ++ a
def encRouteInfo (pl pr lt : Nat) (pfx : Bytes) : Bytes :=
  u8 pl ++ u8 ((pr % 4) * 8) ++ be32 lt ++ pfx ++ zeros (optPadding pfx.length)
def encRecDns (lt : Nat) (l : List Bytes) : Bytes := zeros 2 ++ be32 lt ++ l.flatten
def encHandoverReq (atv : Nat) (k : Bytes) : Bytes :=
  u8 (optPadding (k.length + 4)) ++ u8 ((atv % 16) * 16) ++ k ++ zeros (optPadding (k.length + 4))
def encHandoverReply (lt atv : Nat) (k : Bytes) : Bytes :=
  u8 (optPadding (k.length + 4 + 2)) ++ u8 ((atv % 16) * 16) ++ be16 lt ++ k ++ zeros (optPadding (k.length + 4 + 2))
def encCodeLen (c : Nat) (h : Bytes) : Bytes := u8 c ++ u8 h.length ++ h ++ zeros (optPadding (h.length + 2 + 2))
def encDnsSearch (lt : Nat) (ds : List Bytes) : Bytes :=
  (zeros 2 ++ be32 lt ++ encDomains ds) ++ zeros (optPadding ((zeros 2 ++ be32 lt ++ encDomains ds).length + 2))

end Icmp6

/-! ### the encoders are the ones `Icmp6.apply` runs (the model that is compared with the real setters on every run) -/

theorem apply_prefix_info_enc (p : Icmp6) (pl a l valid pref pfx : String) :
    p.applyOpts1 ["prefix_info", pl, a, l, valid, pref, pfx] = some (do
      let pl ← natArg pl; let a ← natArg a; let l ← natArg l; let valid ← natArg valid; let pref ← natArg pref
      let pfx ← hexArgN pfx 16
      p.addTyped 3 (Icmp6.encPrefixInfo pl a l valid pref pfx)) := rfl

theorem apply_shortcut_limit_enc (p : Icmp6) (l r1 r2 : String) :
    p.applyOpts1 ["shortcut_limit", l, r1, r2] = some (do
      let l ← natArg l; let r1 ← natArg r1; let r2 ← natArg r2
      p.addTyped 6 (Icmp6.encShortcut l r1 r2)) := rfl

theorem apply_addr_list_enc (p : Icmp6) (r l : String) :
    p.applyOpts1 ["source_addr_list", r, l] = some (do
      let r ← hexArgN r 6; let l ← Icmp6.addrListArg l; p.addTyped 9 (Icmp6.encAddrList r l)) ∧
    p.applyOpts1 ["target_addr_list", r, l] = some (do
      let r ← hexArgN r 6; let l ← Icmp6.addrListArg l; p.addTyped 10 (Icmp6.encAddrList r l)) := ⟨rfl, rfl⟩

theorem apply_timestamp_enc (p : Icmp6) (r t : String) :
    p.applyOpts1 ["timestamp", r, t] = some (do
      let r ← hexArgN r 6; let t ← natArg t; p.addTyped 13 (Icmp6.encTimestamp r t)) := rfl

theorem apply_ip_prefix_enc (p : Icmp6) (c l a : String) :
    p.applyOpts1 ["ip_prefix", c, l, a] = some (do
      let c ← natArg c; let l ← natArg l; let a ← hexArgN a 16; p.addTyped 17 (Icmp6.encIpPrefix c l a)) := rfl

theorem apply_link_layer_addr_enc (p : Icmp6) (c a : String) :
    p.applyOpts2 ["link_layer_addr", c, a] = some (do
      let c ← natArg c; let a ← hexArg a; p.addTyped 19 (Icmp6.encLladdr c a)) := rfl

theorem apply_naack_enc (p : Icmp6) (c s : String) :
    p.applyOpts2 ["naack", c, s] = some (do let c ← natArg c; let s ← natArg s; p.addTyped 20 (Icmp6.encNaack c s)) := rfl

theorem apply_map_enc (p : Icmp6) (d pr r valid a : String) :
    p.applyOpts2 ["map", d, pr, r, valid, a] = some (do
      let d ← natArg d; let pr ← natArg pr; let r ← natArg r; let valid ← natArg valid; let a ← hexArgN a 16
      p.addTyped 23 (Icmp6.encMap d pr r valid a)) := rfl

theorem apply_route_info_enc (p : Icmp6) (pl pr lt pfx : String) :
    p.applyOpts2 ["route_info", pl, pr, lt, pfx] = some (do
      let pl ← natArg pl; let pr ← natArg pr; let lt ← natArg lt; let pfx ← hexArg pfx
      p.addTyped 24 (Icmp6.encRouteInfo pl pr lt pfx)) := rfl

theorem apply_recursive_dns_servers_enc (p : Icmp6) (lt l : String) :
    p.applyOpts2 ["recursive_dns_servers", lt, l] = some (do
      let lt ← natArg lt; let l ← Icmp6.addrListArg l; p.addTyped 25 (Icmp6.encRecDns lt l)) := rfl

theorem apply_handover_key_request_enc (p : Icmp6) (atv k : String) :
    p.applyOpts2 ["handover_key_request", atv, k] = some (do
      let atv ← natArg atv; let k ← hexArg k; p.addTyped 27 (Icmp6.encHandoverReq atv k)) := rfl

theorem apply_handover_key_reply_enc (p : Icmp6) (lt atv k : String) :
    p.applyOpts2 ["handover_key_reply", lt, atv, k] = some (do
      let lt ← natArg lt; let atv ← natArg atv; let k ← hexArg k; p.addTyped 28 (Icmp6.encHandoverReply lt atv k)) := rfl

theorem apply_dns_search_list_enc (p : Icmp6) (lt ds : String) :
    p.applyOpts2 ["dns_search_list", lt, ds] = some (do
      let lt ← natArg lt; let ds ← Icmp6.hexListArg ds; p.addTyped 31 (Icmp6.encDnsSearch lt ds)) := rfl

/-! ### codec inverses, fixed-shape options -/

theorem byteAt_skip (a r : Bytes) (n i : Nat) (h : a.length = n) : byteAt (a ++ r) (i + n) = byteAt r i := by
  subst h; rw [byteAt_append_right _ _ _ (by omega)]; simp
theorem be16At_skip (a r : Bytes) (n i : Nat) (h : a.length = n) : be16At (a ++ r) (i + n) = be16At r i := by
  subst h; rw [be16At_append_right _ _ _ (by omega)]; simp
theorem be32At_skip (a r : Bytes) (n i : Nat) (h : a.length = n) : be32At (a ++ r) (i + n) = be32At r i := by
  subst h; rw [be32At_append_right _ _ _ (by omega)]; simp
theorem drop_skip (a r : Bytes) (n i : Nat) (h : a.length = n) : (a ++ r).drop (i + n) = r.drop i := by
  subst h; rw [drop_append_right _ _ _ (by omega)]; simp

/-- walk to the member at a fixed offset of a right-nested `a ++ (b ++ (c ++ …))` of fixed-size members -/
macro "seek" : tactic => `(tactic|
  simp only [byteAt_skip _ _ 1 _ (u8_length _), byteAt_skip _ _ 2 _ (be16_length _), byteAt_skip _ _ 4 _ (be32_length _),
    be16At_skip _ _ 1 _ (u8_length _), be16At_skip _ _ 2 _ (be16_length _), be16At_skip _ _ 4 _ (be32_length _),
    be32At_skip _ _ 1 _ (u8_length _), be32At_skip _ _ 2 _ (be16_length _), be32At_skip _ _ 4 _ (be32_length _),
    drop_skip _ _ 1 _ (u8_length _), drop_skip _ _ 2 _ (be16_length _), drop_skip _ _ 4 _ (be32_length _),
    byteAt_skip _ _ 2 _ (zeros_length 2), byteAt_skip _ _ 4 _ (zeros_length 4),
    be32At_skip _ _ 2 _ (zeros_length 2), drop_skip _ _ 2 _ (zeros_length 2), drop_skip _ _ 4 _ (zeros_length 4),
    List.drop_zero])

/-- **shortcut_limit** -/
theorem shortcut_limit_codec_inverse (l r1 r2 : Nat) (h1 : l < 256) (h2 : r1 < 256) (h3 : r2 < 4294967296) :
    Icmp6.decShortcut (Icmp6.encShortcut l r1 r2) = .val s!"{l}.{r1}.{r2}" := by
  have hl : (Icmp6.encShortcut l r1 r2).length = 6 := by simp [Icmp6.encShortcut]
  have e : Icmp6.encShortcut l r1 r2 = Icmp6.u8 l ++ (Icmp6.u8 r1 ++ Icmp6.be32 r2) := by simp [Icmp6.encShortcut]
  have b0 : byteAt (Icmp6.encShortcut l r1 r2) 0 = l := by rw [e, byteAt_u8_0]; omega
  have b1 : byteAt (Icmp6.encShortcut l r1 r2) 1 = r1 := by rw [e]; seek; rw [byteAt_u8_0]; omega
  have w : be32At (Icmp6.encShortcut l r1 r2) 2 = r2 := by rw [e]; seek; rw [be32At_0']; omega
  simp only [Icmp6.decShortcut, hl, bne_self_eq_false, Bool.false_eq_true, if_false, b0, b1, w]

example : Icmp6.decShortcut (Icmp6.encShortcut 255 0 4294967295) = .val "255.0.4294967295" := by decide

/-- **prefix_info**: the six members the setter writes come back; `reserved2` is not written by the setter (always 0) -/
structure ReprPrefixInfo (pl a l valid pref : Nat) (pfx : Bytes) : Prop where
  pl : pl < 256
  a : a < 2
  l : l < 2
  valid : valid < 4294967296
  pref : pref < 4294967296
  pfx : pfx.length = 16

theorem prefix_info_codec_inverse (pl a l valid pref : Nat) (pfx : Bytes) (h : ReprPrefixInfo pl a l valid pref pfx) :
    Icmp6.decPrefixInfo (Icmp6.encPrefixInfo pl a l valid pref pfx) =
      .val s!"{pl}.{a}.{l}.{valid}.{pref}.{(0 : Nat)}.{hexStr pfx}" := by
  obtain ⟨h1, h2, h3, h4, h5, h6⟩ := h
  have hl : (Icmp6.encPrefixInfo pl a l valid pref pfx).length = 30 := by simp [Icmp6.encPrefixInfo, zeros_length, h6]
  have e : Icmp6.encPrefixInfo pl a l valid pref pfx =
      Icmp6.u8 pl ++ (Icmp6.u8 ((l % 2) * 128 + (a % 2) * 64) ++ (Icmp6.be32 valid ++ (Icmp6.be32 pref ++ (Icmp6.zeros 4 ++ pfx)))) := by
    simp [Icmp6.encPrefixInfo]
  have b0 : byteAt (Icmp6.encPrefixInfo pl a l valid pref pfx) 0 = pl := by rw [e, byteAt_u8_0]; omega
  have b1 : byteAt (Icmp6.encPrefixInfo pl a l valid pref pfx) 1 = (l % 2) * 128 + (a % 2) * 64 := by
    rw [e]; seek; rw [byteAt_u8_0]; omega
  have w1 : be32At (Icmp6.encPrefixInfo pl a l valid pref pfx) 2 = valid := by rw [e]; seek; rw [be32At_0]; omega
  have w2 : be32At (Icmp6.encPrefixInfo pl a l valid pref pfx) 6 = pref := by rw [e]; seek; rw [be32At_0]; omega
  have w3 : be32At (Icmp6.encPrefixInfo pl a l valid pref pfx) 10 = 0 := by
    rw [e]; seek; simp [be32At, slice, Icmp6.zeros, Cursor.beNat]
  have d : (Icmp6.encPrefixInfo pl a l valid pref pfx).drop 14 = pfx := by rw [e]; seek
  have q1 : ((l % 2) * 128 + (a % 2) * 64) / 64 % 2 = a := by omega
  have q2 : ((l % 2) * 128 + (a % 2) * 64) / 128 % 2 = l := by omega
  simp only [Icmp6.decPrefixInfo, hl, bne_self_eq_false, Bool.false_eq_true, if_false, b0, b1, w1, w2, w3, d, q1, q2]

example : ReprPrefixInfo 64 1 1 4294967295 0 (List.replicate 16 9) := ⟨by decide, by decide, by decide, by decide, by decide, rfl⟩

/-- **new_home_agent_info**: exactly three 16-bit values (the setter throws `malformed_option` for any other count) -/
theorem new_home_agent_info_codec_inverse (a b c : Nat) (ha : a < 65536) (hb : b < 65536) (hc : c < 65536) :
    Icmp6.decU16List (Icmp6.encHaInfo a b c) = .val s!"{a},{b},{c}" := by
  have hl : (Icmp6.encHaInfo a b c).length = 6 := by simp [Icmp6.encHaInfo]
  have e : Icmp6.encHaInfo a b c = [Icmp6.be16 a, Icmp6.be16 b, Icmp6.be16 c].flatten := by simp [Icmp6.encHaInfo]
  have hc3 : Icmp6.chunks 2 3 (Icmp6.encHaInfo a b c) = [Icmp6.be16 a, Icmp6.be16 b, Icmp6.be16 c] := by
    have := chunks_flatten 2 [Icmp6.be16 a, Icmp6.be16 b, Icmp6.be16 c] (by simp) []
    rw [e]; simpa using this
  have v (x : Nat) (hx : x < 65536) : Cursor.beNat (Icmp6.be16 x) = x := by
    rw [Icmp6.be16, beNat_beBytes]; omega
  simp only [Icmp6.decU16List, hl, Nat.reduceMod, bne_self_eq_false, Bool.false_eq_true, if_false, Nat.reduceDiv, hc3,
    List.map_cons, List.map_nil, v a ha, v b hb, v c hc]
  rfl

/-- **timestamp**: 6 reserved octets + 64-bit big-endian value -/
theorem timestamp_codec_inverse (r : Bytes) (t : Nat) (hr : r.length = 6) (ht : t < 18446744073709551616) :
    Icmp6.decTimestamp (Icmp6.encTimestamp r t) = .val s!"{hexStr r}.{t}" := by
  have hl : (Icmp6.encTimestamp r t).length = 6 + 8 := by simp [Icmp6.encTimestamp, hr]
  have h1 : (Icmp6.encTimestamp r t).take 6 = r := take_append_len _ _ _ hr
  have h2 : (Icmp6.encTimestamp r t).drop 6 = OutCursor.beBytes 8 t := drop_append_len _ _ _ hr
  have h3 : Cursor.beNat (OutCursor.beBytes 8 t) = t := by rw [beNat_beBytes]; omega
  simp only [Icmp6.decTimestamp, hl, bne_self_eq_false, Bool.false_eq_true, if_false, h1, h2, h3]

/-- **ip_prefix** -/
theorem ip_prefix_codec_inverse (c l : Nat) (a : Bytes) (hc : c < 256) (hl' : l < 256) (ha : a.length = 16) :
    Icmp6.decIpPrefix (Icmp6.encIpPrefix c l a) = .val s!"{c}.{l}.{hexStr a}" := by
  have hl : (Icmp6.encIpPrefix c l a).length = 2 + 4 + 16 := by simp [Icmp6.encIpPrefix, zeros_length, ha]
  have e : Icmp6.encIpPrefix c l a = Icmp6.u8 c ++ (Icmp6.u8 l ++ (Icmp6.zeros 4 ++ a)) := by simp [Icmp6.encIpPrefix]
  have b0 : byteAt (Icmp6.encIpPrefix c l a) 0 = c := by rw [e, byteAt_u8_0]; omega
  have b1 : byteAt (Icmp6.encIpPrefix c l a) 1 = l := by rw [e]; seek; rw [byteAt_u8_0]; omega
  have d : (Icmp6.encIpPrefix c l a).drop 6 = a := by rw [e]; seek
  simp only [Icmp6.decIpPrefix, hl, bne_self_eq_false, Bool.false_eq_true, if_false, b0, b1, d]

/-- **naack**: code and status (the 4 reserved octets are written as zeros and not returned) -/
theorem naack_codec_inverse (c s : Nat) (hc : c < 256) (hs : s < 256) :
    Icmp6.decNaack (Icmp6.encNaack c s) = .val s!"{c}.{s}" := by
  have hl : (Icmp6.encNaack c s).length = 6 := by simp [Icmp6.encNaack, zeros_length]
  have e : Icmp6.encNaack c s = Icmp6.u8 c ++ (Icmp6.u8 s ++ Icmp6.zeros 4) := by simp [Icmp6.encNaack]
  have b0 : byteAt (Icmp6.encNaack c s) 0 = c := by rw [e, byteAt_u8_0]; omega
  have b1 : byteAt (Icmp6.encNaack c s) 1 = s := by rw [e]; seek; rw [byteAt_u8_0]; omega
  simp only [Icmp6.decNaack, hl, bne_self_eq_false, Bool.false_eq_true, if_false, b0, b1]

/-- **map** (RFC 5380 MAP option): dist / pref nibbles, the R bit, lifetime, address -/
theorem map_codec_inverse (d pr r valid : Nat) (a : Bytes) (hd : d < 16) (hp : pr < 16) (hr : r < 2)
    (hv : valid < 4294967296) (ha : a.length = 16) :
    Icmp6.decMap (Icmp6.encMap d pr r valid a) = .val s!"{d}.{pr}.{r}.{valid}.{hexStr a}" := by
  have hl : (Icmp6.encMap d pr r valid a).length = 2 + 4 + 16 := by simp [Icmp6.encMap, ha]
  have e : Icmp6.encMap d pr r valid a =
      Icmp6.u8 ((d % 16) * 16 + pr % 16) ++ (Icmp6.u8 ((r % 2) * 128) ++ (Icmp6.be32 valid ++ a)) := by simp [Icmp6.encMap]
  have b0 : byteAt (Icmp6.encMap d pr r valid a) 0 = (d % 16) * 16 + pr % 16 := by rw [e, byteAt_u8_0]; omega
  have b1 : byteAt (Icmp6.encMap d pr r valid a) 1 = (r % 2) * 128 := by rw [e]; seek; rw [byteAt_u8_0]; omega
  have w : be32At (Icmp6.encMap d pr r valid a) 2 = valid := by rw [e]; seek; rw [be32At_0]; omega
  have dd : (Icmp6.encMap d pr r valid a).drop 6 = a := by rw [e]; seek
  have q1 : ((d % 16) * 16 + pr % 16) / 16 % 16 = d := by omega
  have q2 : ((d % 16) * 16 + pr % 16) % 16 = pr := by omega
  have q3 : (r % 2) * 128 / 128 % 2 = r := by omega
  simp only [Icmp6.decMap, hl, bne_self_eq_false, Bool.false_eq_true, if_false, b0, b1, w, dd, q1, q2, q3]



/-! ### codec inverses, variable-length options -/

/-- **redirect_header / nonce**: the octets are passed through both ways -/
theorem bytes_codec_inverse (b : Bytes) : Icmp6.decBytes b = .val (hexStr b) := rfl

/-- what an address-list option can express: 6 reserved octets and 1 … 127 IPv6 addresses (the length octet counts units
    of 8 octets: 8 + 16·n ≤ 2040; the decoder asks for at least one address) -/
structure ReprAddrList (r : Bytes) (l : List Bytes) : Prop where
  r : r.length = 6
  each : ∀ x ∈ l, x.length = 16
  ne : l ≠ []
  len : l.length ≤ 127

/-- **source_addr_list / target_addr_list**: any list of 1 … 127 addresses -/
theorem addr_list_codec_inverse (r : Bytes) (l : List Bytes) (h : ReprAddrList r l) :
    Icmp6.decAddrList (Icmp6.encAddrList r l) = .val s!"{hexStr r}.{Icmp6.joinWithSep "," (l.map hexStr)}" := by
  obtain ⟨hr, he, hne, _⟩ := h
  have hf := flatten_length_eq 16 l he
  have hpos : 0 < l.length := List.length_pos_iff.mpr hne
  have hl : (Icmp6.encAddrList r l).length = 6 + 16 * l.length := by simp [Icmp6.encAddrList, hr, hf]
  have h1 : (Icmp6.encAddrList r l).take 6 = r := take_append_len _ _ _ hr
  have h2 : (Icmp6.encAddrList r l).drop 6 = l.flatten := drop_append_len _ _ _ hr
  have hc : Icmp6.chunks 16 l.length l.flatten = l := by simpa using chunks_flatten 16 l he []
  have c1 : ¬ (6 + 16 * l.length < 6 + 16 ∨ (6 + 16 * l.length - 6) % 16 ≠ 0) := by omega
  have c2 : (6 + 16 * l.length - 6) / 16 = l.length := by omega
  simp only [Icmp6.decAddrList, hl, h1, h2, c2, hc, Bool.or_eq_true, decide_eq_true_eq, bne_iff_ne, c1, if_false]

example : ReprAddrList (List.replicate 6 0) (List.replicate 127 (List.replicate 16 1)) :=
  ⟨rfl, by simp, by simp, by simp⟩

/-- the option an address-list setter builds is expressible on the wire -/
theorem addr_list_wire (c : Nat) (r : Bytes) (l : List Bytes) (h : ReprAddrList r l) :
    Opt.Aligned ⟨c, (Icmp6.encAddrList r l).length, Icmp6.encAddrList r l⟩ := by
  obtain ⟨hr, he, _, hn⟩ := h
  have hf := flatten_length_eq 16 l he
  simp only [Opt.Aligned, Icmp6.encAddrList, List.length_append, hr, hf]; omega

/-- what a recursive DNS server option can express: 1 … 127 addresses (`from_option` asks for at least one) -/
structure ReprRecDns (lt : Nat) (l : List Bytes) : Prop where
  lt : lt < 4294967296
  each : ∀ x ∈ l, x.length = 16
  ne : l ≠ []
  len : l.length ≤ 127

/-- **recursive_dns_servers** -/
theorem recursive_dns_servers_codec_inverse (lt : Nat) (l : List Bytes) (h : ReprRecDns lt l) :
    Icmp6.decRecDns (Icmp6.encRecDns lt l) = .val s!"{lt}.{Icmp6.joinWithSep "," (l.map hexStr)}" := by
  obtain ⟨hlt, he, hne, _⟩ := h
  have hf := flatten_length_eq 16 l he
  have hpos : 0 < l.length := List.length_pos_iff.mpr hne
  have e : Icmp6.encRecDns lt l = Icmp6.zeros 2 ++ (Icmp6.be32 lt ++ l.flatten) := by simp [Icmp6.encRecDns]
  have hl : (Icmp6.encRecDns lt l).length = 6 + 16 * l.length := by simp [e, zeros_length, hf]; omega
  have w : be32At (Icmp6.encRecDns lt l) 2 = lt := by rw [e]; seek; rw [be32At_0]; omega
  have h2 : (Icmp6.encRecDns lt l).drop 6 = l.flatten := by rw [e]; seek
  have hc : Icmp6.chunks 16 l.length l.flatten = l := by simpa using chunks_flatten 16 l he []
  have c1 : ¬ (6 + 16 * l.length < 2 + 4 + 16) := by omega
  have c0 : (6 + 16 * l.length - 6) % 16 = 0 := by omega
  have c2 : (6 + 16 * l.length - 6) / 16 = l.length := by omega
  simp only [Icmp6.decRecDns, hl, w, h2, c2, hc, c1, c0, if_false, bne_self_eq_false, Bool.false_eq_true]

theorem recursive_dns_servers_wire (lt : Nat) (l : List Bytes) (h : ReprRecDns lt l) :
    Opt.Aligned ⟨25, (Icmp6.encRecDns lt l).length, Icmp6.encRecDns lt l⟩ := by
  obtain ⟨_, he, _, hn⟩ := h
  have hf := flatten_length_eq 16 l he
  simp only [Opt.Aligned, Icmp6.encRecDns, List.length_append, zeros_length, be32_length, hf]; omega

/-- what a link-layer address option (RFC 5568) can express: the option carries no address length, so the address has to
    fill the option (3 + |address| a multiple of 8); a shorter one comes back followed by the alignment padding -/
structure ReprLladdr (c : Nat) (a : Bytes) : Prop where
  c : c < 256
  fill : (3 + a.length) % 8 = 0
  len : a.length ≤ 2037

/-- **link_layer_addr** -/
theorem link_layer_addr_codec_inverse (c : Nat) (a : Bytes) (h : ReprLladdr c a) :
    Icmp6.decLladdr (Icmp6.encLladdr c a) = .val s!"{c}.{hexStr a}" := by
  obtain ⟨hc, hf, _⟩ := h
  have hp : Icmp6.optPadding (2 + (1 + a.length)) = 0 := by
    unfold Icmp6.optPadding; rw [if_pos (by simp; omega)]
  have e : Icmp6.encLladdr c a = Icmp6.u8 c ++ a := by simp [Icmp6.encLladdr, hp, Icmp6.zeros]
  have hl : ¬ ((Icmp6.encLladdr c a).length < 2) := by simp [e]; omega
  have b0 : byteAt (Icmp6.encLladdr c a) 0 = c := by rw [e, byteAt_u8_0]; omega
  have d : (Icmp6.encLladdr c a).drop 1 = a := by rw [e]; seek
  simp only [Icmp6.decLladdr, hl, if_false, b0, d]

/-- in general the address comes back followed by the padding (what `rsa_codec` says for the signature) -/
theorem link_layer_addr_codec_padded (c : Nat) (a : Bytes) (hc : c < 256) (ha : 0 < a.length) :
    Icmp6.decLladdr (Icmp6.encLladdr c a) =
      .val s!"{c}.{hexStr (a ++ Icmp6.zeros (Icmp6.optPadding (2 + (1 + a.length))))}" := by
  have e : Icmp6.encLladdr c a = Icmp6.u8 c ++ (a ++ Icmp6.zeros (Icmp6.optPadding (2 + (1 + a.length)))) := by
    simp [Icmp6.encLladdr]
  have hl : ¬ ((Icmp6.encLladdr c a).length < 2) := by simp [e]; omega
  have b0 : byteAt (Icmp6.encLladdr c a) 0 = c := by rw [e, byteAt_u8_0]; omega
  have d : (Icmp6.encLladdr c a).drop 1 = a ++ Icmp6.zeros (Icmp6.optPadding (2 + (1 + a.length))) := by rw [e]; seek
  simp only [Icmp6.decLladdr, hl, if_false, b0, d]

theorem link_layer_addr_wire (c : Nat) (a : Bytes) (h : a.length ≤ 2030) :
    Opt.Aligned ⟨19, (Icmp6.encLladdr c a).length, Icmp6.encLladdr c a⟩ := by
  have hp8 := optPadding_le (2 + (1 + a.length))
  have hp := optPadding_aligned (2 + (1 + a.length))
  unfold Icmp6.encLladdr
  generalize Icmp6.optPadding (2 + (1 + a.length)) = pad at hp hp8 ⊢
  simp only [Opt.Aligned, List.length_append, u8_length, zeros_length]; omega

example : ReprLladdr 2 (List.replicate 13 7) := ⟨by decide, by decide, by decide⟩

/-- what a route information option (RFC 4191) can express: the prefix field is 0, 8 or 16 octets (any multiple of 8 here);
    a shorter prefix comes back zero-filled to the next multiple of 8 -/
structure ReprRouteInfo (pl pr lt : Nat) (pfx : Bytes) : Prop where
  pl : pl < 256
  pr : pr < 4
  lt : lt < 4294967296
  fill : pfx.length % 8 = 0
  len : pfx.length ≤ 2032

/-- **route_info** -/
theorem route_info_codec_inverse (pl pr lt : Nat) (pfx : Bytes) (h : ReprRouteInfo pl pr lt pfx) :
    Icmp6.decRouteInfo (Icmp6.encRouteInfo pl pr lt pfx) = .val s!"{pl}.{pr}.{lt}.{hexStr pfx}" := by
  obtain ⟨h1, h2, h3, hf, _⟩ := h
  have hp : Icmp6.optPadding pfx.length = 0 := by unfold Icmp6.optPadding; rw [if_pos (by simp; omega)]
  have e : Icmp6.encRouteInfo pl pr lt pfx = Icmp6.u8 pl ++ (Icmp6.u8 ((pr % 4) * 8) ++ (Icmp6.be32 lt ++ pfx)) := by
    simp [Icmp6.encRouteInfo, hp, Icmp6.zeros]
  have hl : ¬ ((Icmp6.encRouteInfo pl pr lt pfx).length < 2 + 4) := by simp [e]; omega
  have b0 : byteAt (Icmp6.encRouteInfo pl pr lt pfx) 0 = pl := by rw [e, byteAt_u8_0]; omega
  have b1 : byteAt (Icmp6.encRouteInfo pl pr lt pfx) 1 = (pr % 4) * 8 := by rw [e]; seek; rw [byteAt_u8_0]; omega
  have w : be32At (Icmp6.encRouteInfo pl pr lt pfx) 2 = lt := by rw [e]; seek; rw [be32At_0]; omega
  have d : (Icmp6.encRouteInfo pl pr lt pfx).drop 6 = pfx := by rw [e]; seek
  have q : (pr % 4) * 8 / 8 % 4 = pr := by omega
  simp only [Icmp6.decRouteInfo, hl, if_false, b0, b1, w, d, q]

theorem route_info_wire (pl pr lt : Nat) (pfx : Bytes) (h : pfx.length ≤ 2025) :
    Opt.Aligned ⟨24, (Icmp6.encRouteInfo pl pr lt pfx).length, Icmp6.encRouteInfo pl pr lt pfx⟩ := by
  have hp8 := optPadding_le pfx.length
  have hp := optPadding_aligned pfx.length
  unfold Icmp6.encRouteInfo
  generalize Icmp6.optPadding pfx.length = pad at hp hp8 ⊢
  simp only [Opt.Aligned, List.length_append, u8_length, be32_length, zeros_length]; omega

example : ReprRouteInfo 64 3 4294967295 (List.replicate 8 0x20) := ⟨by decide, by decide, by decide, by decide, by decide⟩



/-- **handover_key_request** (RFC 5269): pad-length octet, 4-bit AT, key, padding — ANY key (also the empty one: the
    padding keeps the data at the 6 octets `from_option` asks for); all 16 AT values since the `fix:` of the 2-bit mask -/
theorem handover_key_request_codec_inverse (atv : Nat) (k : Bytes) (ha : atv < 16) :
    Icmp6.decHandoverReq (Icmp6.encHandoverReq atv k) = .val s!"{atv}.{hexStr k}" := by
  have hp8 := optPadding_le (k.length + 4)
  have hp := optPadding_aligned (k.length + 4)
  unfold Icmp6.encHandoverReq
  generalize Icmp6.optPadding (k.length + 4) = pad at hp hp8 ⊢
  have e : Icmp6.u8 pad ++ Icmp6.u8 ((atv % 16) * 16) ++ k ++ Icmp6.zeros pad =
      Icmp6.u8 pad ++ (Icmp6.u8 ((atv % 16) * 16) ++ (k ++ Icmp6.zeros pad)) := by simp
  rw [e]
  have hl : (Icmp6.u8 pad ++ (Icmp6.u8 ((atv % 16) * 16) ++ (k ++ Icmp6.zeros pad))).length = 2 + k.length + pad := by
    simp [zeros_length]; omega
  have b0 : byteAt (Icmp6.u8 pad ++ (Icmp6.u8 ((atv % 16) * 16) ++ (k ++ Icmp6.zeros pad))) 0 = pad := by
    rw [byteAt_u8_0]; omega
  have b1 : byteAt (Icmp6.u8 pad ++ (Icmp6.u8 ((atv % 16) * 16) ++ (k ++ Icmp6.zeros pad))) 1 = (atv % 16) * 16 := by
    seek; rw [byteAt_u8_0]; omega
  have d : (Icmp6.u8 pad ++ (Icmp6.u8 ((atv % 16) * 16) ++ (k ++ Icmp6.zeros pad))).drop 2 = k ++ Icmp6.zeros pad := by seek
  have c1 : ¬ (2 + k.length + pad < 2 + 4) := by omega
  have c2 : ¬ (2 + k.length + pad - 2 < pad) := by omega
  have c3 : 2 + k.length + pad - 2 - pad = k.length := by omega
  have q : (atv % 16) * 16 / 16 % 16 = atv := by omega
  simp only [Icmp6.decHandoverReq, hl, b0, b1, d, c1, c2, c3, q, if_false, take_append_len _ _ _ rfl]

example : Icmp6.decHandoverReq (Icmp6.encHandoverReq 15 [1, 2, 3, 4, 5]) = .val "15.0102030405" := by decide
example : Icmp6.decHandoverReq (Icmp6.encHandoverReq 4 []) = .val "4.-" := by decide

theorem handover_key_request_wire (atv : Nat) (k : Bytes) (h : k.length ≤ 2030) :
    Opt.Aligned ⟨27, (Icmp6.encHandoverReq atv k).length, Icmp6.encHandoverReq atv k⟩ := by
  have hp8 := optPadding_le (k.length + 4)
  have hp := optPadding_aligned (k.length + 4)
  unfold Icmp6.encHandoverReq
  generalize Icmp6.optPadding (k.length + 4) = pad at hp hp8 ⊢
  simp only [Opt.Aligned, List.length_append, u8_length, zeros_length]; omega

/-- **handover_key_reply**: … + 16-bit lifetime -/
theorem handover_key_reply_codec_inverse (lt atv : Nat) (k : Bytes) (hlt : lt < 65536) (ha : atv < 16) :
    Icmp6.decHandoverReply (Icmp6.encHandoverReply lt atv k) = .val s!"{lt}.{atv}.{hexStr k}" := by
  have hp8 := optPadding_le (k.length + 4 + 2)
  have hp := optPadding_aligned (k.length + 4 + 2)
  unfold Icmp6.encHandoverReply
  generalize Icmp6.optPadding (k.length + 4 + 2) = pad at hp hp8 ⊢
  have e : Icmp6.u8 pad ++ Icmp6.u8 ((atv % 16) * 16) ++ Icmp6.be16 lt ++ k ++ Icmp6.zeros pad =
      Icmp6.u8 pad ++ (Icmp6.u8 ((atv % 16) * 16) ++ (Icmp6.be16 lt ++ (k ++ Icmp6.zeros pad))) := by simp
  rw [e]
  generalize hb : Icmp6.u8 pad ++ (Icmp6.u8 ((atv % 16) * 16) ++ (Icmp6.be16 lt ++ (k ++ Icmp6.zeros pad))) = b
  have hl : b.length = 4 + k.length + pad := by subst hb; simp [zeros_length]; omega
  have b0 : byteAt b 0 = pad := by subst hb; rw [byteAt_u8_0]; omega
  have b1 : byteAt b 1 = (atv % 16) * 16 := by subst hb; seek; rw [byteAt_u8_0]; omega
  have w : be16At b 2 = lt := by
    subst hb; seek
    have := be16At_app [] lt (k ++ Icmp6.zeros pad) 0 rfl
    simp only [List.nil_append] at this; rw [this]; omega
  have d : b.drop 4 = k ++ Icmp6.zeros pad := by subst hb; seek
  have c1 : ¬ (4 + k.length + pad < 2 + 4) := by omega
  have c2 : ¬ (4 + k.length + pad - 4 < pad) := by omega
  have c3 : 4 + k.length + pad - 4 - pad = k.length := by omega
  have q : (atv % 16) * 16 / 16 % 16 = atv := by omega
  simp only [Icmp6.decHandoverReply, hl, b0, b1, w, d, c1, c2, c3, q, if_false, take_append_len _ _ _ rfl]

example : Icmp6.decHandoverReply (Icmp6.encHandoverReply 65535 9 [1, 2]) = .val "65535.9.0102" := by decide

theorem handover_key_reply_wire (lt atv : Nat) (k : Bytes) (h : k.length ≤ 2028) :
    Opt.Aligned ⟨28, (Icmp6.encHandoverReply lt atv k).length, Icmp6.encHandoverReply lt atv k⟩ := by
  have hp8 := optPadding_le (k.length + 4 + 2)
  have hp := optPadding_aligned (k.length + 4 + 2)
  unfold Icmp6.encHandoverReply
  generalize Icmp6.optPadding (k.length + 4 + 2) = pad at hp hp8 ⊢
  simp only [Opt.Aligned, List.length_append, u8_length, be16_length, zeros_length]; omega



/-! ### DNS search list (RFC 6106 DNSSL): domain names as label sequences -/

/-- a domain name as the setter takes it: the labels joined by '.' -/
def joinDots : List Bytes → Bytes
  | [] => []
  | l :: ls => l ++ (ls.map (fun x => (46 : UInt8) :: x)).flatten

/-- the label encoding of one name (without the terminating zero octet) -/
def wireLabels (ls : List Bytes) : Bytes := (ls.map (fun l => UInt8.ofNat l.length :: l)).flatten

/-- a label the encoding can express: 1 … 255 octets (the length octet; 0 ends the name), no '.' (the setter splits there) -/
def GoodLabel (l : Bytes) : Prop := l ≠ [] ∧ l.length ≤ 255 ∧ ∀ c ∈ l, c ≠ 46

instance (l : Bytes) : Decidable (GoodLabel l) := by unfold GoodLabel; exact inferInstance

/-- a name the encoding can express: at least one label (an empty name is the terminator), all labels good — i.e. a
    non-empty string without empty labels (no leading / trailing / double dot) and no label longer than 255 -/
def GoodName (ls : List Bytes) : Prop := ls ≠ [] ∧ ∀ l ∈ ls, GoodLabel l

instance (ls : List Bytes) : Decidable (GoodName ls) := by unfold GoodName; exact inferInstance

theorem takeWhile_no46 (l x : Bytes) (h : ∀ c ∈ l, c ≠ 46) : (l ++ (46 : UInt8) :: x).takeWhile (· != 46) = l := by
  induction l with
  | nil => simp
  | cons a l ih =>
    have ha : a ≠ 46 := h a List.mem_cons_self
    simp only [List.cons_append, List.takeWhile_cons, bne_iff_ne, ne_eq, ha, not_false_eq_true, if_true]
    rw [ih (fun c hc => h c (List.mem_cons_of_mem _ hc))]

theorem takeWhile_all46 (l : Bytes) (h : ∀ c ∈ l, c ≠ 46) : l.takeWhile (· != 46) = l := by
  induction l with
  | nil => rfl
  | cons a l ih =>
    have ha : a ≠ 46 := h a List.mem_cons_self
    simp only [List.takeWhile_cons, bne_iff_ne, ne_eq, ha, not_false_eq_true, if_true]
    rw [ih (fun c hc => h c (List.mem_cons_of_mem _ hc))]

/-- the setter's `do { find('.') … } while` loop writes exactly the label encoding -/
theorem encLabels_joinDots (ls : List Bytes) (hne : ls ≠ []) (hg : ∀ l ∈ ls, GoodLabel l) (fuel : Nat) (hf : ls.length ≤ fuel) :
    Icmp6.encLabels fuel (joinDots ls) = wireLabels ls := by
  induction ls generalizing fuel with
  | nil => exact absurd rfl hne
  | cons l ls ih =>
    obtain ⟨f, rfl⟩ : ∃ f, fuel = f + 1 := ⟨fuel - 1, by simp at hf; omega⟩
    have hl := (hg l List.mem_cons_self).2.2
    cases ls with
    | nil =>
      simp only [joinDots, List.map_nil, List.flatten_nil, List.append_nil, Icmp6.encLabels, takeWhile_all46 l hl,
        List.drop_length, wireLabels, List.map_cons, List.flatten_cons]
      simp
    | cons l' ls' =>
      have hj : joinDots (l :: l' :: ls') = l ++ (46 : UInt8) :: joinDots (l' :: ls') := by
        simp [joinDots]
      have ih' := ih (by simp) (fun x hx => hg x (List.mem_cons_of_mem _ hx)) f (by simp at hf ⊢; omega)
      rw [hj]
      simp only [Icmp6.encLabels, takeWhile_no46 l _ hl, drop_append_len _ _ _ rfl, ih']
      simp [wireLabels]

/-- the decoder's accumulated name after reading the labels `ls` -/
def accJoin : Bytes → List Bytes → Bytes
  | acc, [] => acc
  | acc, l :: ls => accJoin ((if acc.isEmpty then acc else acc ++ [46]) ++ l) ls

theorem accJoin_nonempty (acc : Bytes) (ls : List Bytes) (h : acc ≠ []) :
    accJoin acc ls = acc ++ (ls.map (fun x => (46 : UInt8) :: x)).flatten := by
  induction ls generalizing acc with
  | nil => simp [accJoin]
  | cons l ls ih =>
    have he : acc.isEmpty = false := by cases acc <;> simp_all
    simp only [accJoin, he, Bool.false_eq_true, if_false]
    rw [ih _ (by simp [h])]
    simp

theorem accJoin_nil (ls : List Bytes) (hg : ∀ l ∈ ls, GoodLabel l) : accJoin [] ls = joinDots ls := by
  cases ls with
  | nil => rfl
  | cons l ls =>
    have hl := (hg l List.mem_cons_self).1
    simp only [accJoin, List.isEmpty_nil, if_true, List.nil_append]
    rw [accJoin_nonempty _ _ hl]; rfl

/-- the decoder's inner loop reads the labels of one name and stops at the terminating zero octet -/
theorem dnsLabels_wire (ls : List Bytes) (hg : ∀ l ∈ ls, GoodLabel l) (t : Bytes) (fuel : Nat) (hf : ls.length ≤ fuel) (acc : Bytes) :
    Icmp6.dnsLabels fuel acc (wireLabels ls ++ (0 : UInt8) :: t) = (accJoin acc ls, (0 : UInt8) :: t) := by
  induction ls generalizing fuel acc with
  | nil =>
    cases fuel with
    | zero => simp [wireLabels, Icmp6.dnsLabels, accJoin]
    | succ f => simp [wireLabels, Icmp6.dnsLabels, accJoin]
  | cons l ls ih =>
    have hf' : ls.length + 1 ≤ fuel := by simpa using hf
    obtain ⟨f, rfl⟩ : ∃ f, fuel = f + 1 := ⟨fuel - 1, by omega⟩
    obtain ⟨hne, h255, _⟩ := hg l List.mem_cons_self
    have hpos : 0 < l.length := List.length_pos_iff.mpr hne
    have hw : wireLabels (l :: ls) ++ (0 : UInt8) :: t = UInt8.ofNat l.length :: (l ++ (wireLabels ls ++ (0 : UInt8) :: t)) := by
      simp [wireLabels]
    have hn : (UInt8.ofNat l.length).toNat = l.length := ofNat_toNat_of_lt _ (by omega)
    rw [hw]
    simp only [Icmp6.dnsLabels, hn]
    have c : (l.length != 0 && decide (l.length < (UInt8.ofNat l.length :: (l ++ (wireLabels ls ++ (0 : UInt8) :: t))).length)) = true := by
      simp only [Bool.and_eq_true, bne_iff_ne, ne_eq, decide_eq_true_eq, List.length_cons, List.length_append]
      omega
    rw [if_pos c, take_append_len _ _ _ rfl, drop_append_len _ _ _ rfl]
    rw [ih (fun x hx => hg x (List.mem_cons_of_mem _ hx)) f (by omega)]
    rfl

theorem wireLabels_length_ge (ls : List Bytes) : ls.length ≤ (wireLabels ls).length := by
  induction ls with
  | nil => simp [wireLabels]
  | cons l ls ih => simp only [wireLabels, List.map_cons, List.flatten_cons, List.length_append, List.length_cons] at ih ⊢; omega

/-- the encoding of a list of names: each name's labels and its terminating zero octet -/
def wireNames (dss : List (List Bytes)) : Bytes := (dss.map (fun ls => wireLabels ls ++ [(0 : UInt8)])).flatten

/-- the decoder's outer loop returns the names, whatever zero padding follows (0 … 7 octets — also none: seeded/C04e) -/
theorem dnsDomains_wire (dss : List (List Bytes)) (hg : ∀ ls ∈ dss, GoodName ls) (pad : Nat) (fuel : Nat) (hf : dss.length ≤ fuel) :
    Icmp6.dnsDomains fuel (wireNames dss ++ Icmp6.zeros pad) = some (dss.map joinDots) := by
  induction dss generalizing fuel with
  | nil =>
    cases fuel with
    | zero => rfl
    | succ f =>
      cases pad with
      | zero => simp [wireNames, Icmp6.zeros, Icmp6.dnsDomains]
      | succ p => simp [wireNames, Icmp6.zeros, Icmp6.dnsDomains, List.replicate_succ]
  | cons ls dss ih =>
    obtain ⟨f, rfl⟩ : ∃ f, fuel = f + 1 := ⟨fuel - 1, by simp at hf; omega⟩
    obtain ⟨hne, hgl⟩ := hg ls List.mem_cons_self
    have hb : wireNames (ls :: dss) ++ Icmp6.zeros pad = wireLabels ls ++ (0 : UInt8) :: (wireNames dss ++ Icmp6.zeros pad) := by
      simp [wireNames]
    rw [hb]
    obtain ⟨l, ls0, rfl⟩ : ∃ l ls0, ls = l :: ls0 := by cases ls with
      | nil => exact absurd rfl hne
      | cons l ls0 => exact ⟨l, ls0, rfl⟩
    obtain ⟨hlne, h255, _⟩ := hgl l List.mem_cons_self
    have hpos : 0 < l.length := List.length_pos_iff.mpr hlne
    have hn : (UInt8.ofNat l.length).toNat = l.length := ofNat_toNat_of_lt _ (by omega)
    generalize hB : wireLabels (l :: ls0) ++ (0 : UInt8) :: (wireNames dss ++ Icmp6.zeros pad) = B
    have hcons : B = UInt8.ofNat l.length :: (l ++ (wireLabels ls0 ++ (0 : UInt8) :: (wireNames dss ++ Icmp6.zeros pad))) := by
      subst hB; simp [wireLabels]
    have hlab : Icmp6.dnsLabels B.length [] B = (joinDots (l :: ls0), (0 : UInt8) :: (wireNames dss ++ Icmp6.zeros pad)) := by
      have hlen : (l :: ls0).length ≤ B.length := by
        have := wireLabels_length_ge (l :: ls0)
        subst hB; simp only [List.length_append] at this ⊢; omega
      subst hB
      rw [dnsLabels_wire (l :: ls0) hgl _ _ hlen, accJoin_nil _ hgl]
    have h0 : (l.length == 0) = false := by simp; omega
    rw [hcons]
    simp only [Icmp6.dnsDomains, hn, h0, Bool.false_eq_true, if_false]
    rw [← hcons, hlab]
    simp only [UInt8.toNat_ofNat, bne_self_eq_false, Bool.false_eq_true, if_false]
    rw [ih (fun x hx => hg x (List.mem_cons_of_mem _ hx)) f (by simp at hf; omega)]
    rfl


theorem joinDots_length_ge (ls : List Bytes) : ls.length ≤ (joinDots ls).length + 1 := by
  cases ls with
  | nil => simp
  | cons l ls =>
    have h : ls.length ≤ ((ls.map (fun x => (46 : UInt8) :: x)).flatten).length := by
      induction ls with
      | nil => simp
      | cons a as ih => simp only [List.map_cons, List.flatten_cons, List.length_append, List.length_cons] at ih ⊢; omega
    simp only [joinDots, List.length_cons, List.length_append]; omega

/-- the setter's encoding of representable names is the label encoding -/
theorem encDomains_wire (dss : List (List Bytes)) (hg : ∀ ls ∈ dss, GoodName ls) :
    Icmp6.encDomains (dss.map joinDots) = wireNames dss := by
  induction dss with
  | nil => rfl
  | cons ls dss ih =>
    obtain ⟨hne, hgl⟩ := hg ls List.mem_cons_self
    have ih' := ih (fun x hx => hg x (List.mem_cons_of_mem _ hx))
    simp only [Icmp6.encDomains, wireNames, List.map_cons, List.flatten_cons] at ih' ⊢
    rw [encLabels_joinDots ls hne hgl _ (joinDots_length_ge ls), ih']

theorem wireNames_length_ge (dss : List (List Bytes)) : dss.length ≤ (wireNames dss).length := by
  induction dss with
  | nil => simp
  | cons a as ih => simp only [wireNames, List.map_cons, List.flatten_cons, List.length_append, List.length_cons] at ih ⊢; omega

/-- what a DNS search list option can express: a 32-bit lifetime and names that are non-empty sequences of labels of
    1 … 255 octets without '.', the whole option within 255 units of 8 octets.  (An empty name, an empty label — leading,
    trailing or double dot — or a longer label is encoded as, or around, a zero length octet, which ends the name / list.) -/
structure ReprDnsSearch (lt : Nat) (dss : List (List Bytes)) : Prop where
  lt : lt < 4294967296
  names : ∀ ls ∈ dss, GoodName ls
  len : (wireNames dss).length ≤ 2032

/-- **dns_search_list**: ANY list of representable names, whatever padding (0 … 7 octets) the encoding needs -/
theorem dns_search_list_codec_inverse (lt : Nat) (dss : List (List Bytes)) (h : ReprDnsSearch lt dss) :
    Icmp6.decDnsSearch (Icmp6.encDnsSearch lt (dss.map joinDots)) =
      .val s!"{lt}.{Icmp6.joinWithSep "," ((dss.map joinDots).map hexStr)}" := by
  obtain ⟨hlt, hg, _⟩ := h
  unfold Icmp6.encDnsSearch
  rw [encDomains_wire dss hg]
  generalize Icmp6.optPadding ((Icmp6.zeros 2 ++ Icmp6.be32 lt ++ wireNames dss).length + 2) = pad
  have e : Icmp6.zeros 2 ++ Icmp6.be32 lt ++ wireNames dss ++ Icmp6.zeros pad =
      Icmp6.zeros 2 ++ (Icmp6.be32 lt ++ (wireNames dss ++ Icmp6.zeros pad)) := by simp
  rw [e]
  generalize hb : Icmp6.zeros 2 ++ (Icmp6.be32 lt ++ (wireNames dss ++ Icmp6.zeros pad)) = b
  have hl : b.length = 6 + (wireNames dss).length + pad := by subst hb; simp [zeros_length]; omega
  have w : be32At b 2 = lt := by subst hb; seek; rw [be32At_0]; omega
  have d : b.drop 6 = wireNames dss ++ Icmp6.zeros pad := by subst hb; seek
  have hlen := wireNames_length_ge dss
  have c1 : ¬ (b.length < 2 + 4) := by omega
  simp only [Icmp6.decDnsSearch, c1, if_false, d, w]
  rw [dnsDomains_wire dss hg pad b.length (by omega)]

example : ReprDnsSearch 7 [[[97, 98, 99, 100, 101, 102]]] := ⟨by decide, by decide, by decide⟩
/-- the witness of seeded/C04e: one name of six characters needs no padding -/
example : Icmp6.decDnsSearch (Icmp6.encDnsSearch 7 [joinDots [[97, 98, 99, 100, 101, 102]]]) = .val "7.616263646566" := by decide

theorem dns_search_list_wire (lt : Nat) (dss : List (List Bytes)) (h : ReprDnsSearch lt dss) :
    Opt.Aligned ⟨31, (Icmp6.encDnsSearch lt (dss.map joinDots)).length, Icmp6.encDnsSearch lt (dss.map joinDots)⟩ := by
  obtain ⟨_, hg, hlen⟩ := h
  unfold Icmp6.encDnsSearch
  rw [encDomains_wire dss hg]
  have hp8 := optPadding_le ((Icmp6.zeros 2 ++ Icmp6.be32 lt ++ wireNames dss).length + 2)
  have hp := optPadding_aligned ((Icmp6.zeros 2 ++ Icmp6.be32 lt ++ wireNames dss).length + 2)
  generalize Icmp6.optPadding ((Icmp6.zeros 2 ++ Icmp6.be32 lt ++ wireNames dss).length + 2) = pad at hp hp8 ⊢
  simp only [Opt.Aligned, List.length_append, zeros_length, be32_length] at hp ⊢; omega

/-- outside `ReprDnsSearch` the codec is not inverse and the setter accepts the value all the same (unrepresentable
    accepted): an empty label is written as a zero length octet, which ends the name — `a..b`, `c` comes back as three names,
    after `a.` the rest of the list is lost, and an empty name ends the list at once -/
theorem dns_search_list_unrepresentable_accepted :
    Icmp6.decDnsSearch (Icmp6.encDnsSearch 0 [[97, 46, 46, 98], [99]]) = .val "0.61,62,63" ∧
    Icmp6.decDnsSearch (Icmp6.encDnsSearch 0 [[97, 46], [99]]) = .val "0.61" ∧
    Icmp6.decDnsSearch (Icmp6.encDnsSearch 0 [[], [99]]) = .val "0.-" := by decide



/-! ### the five codecs proved in ThCodec.lean, restated under explicit representability predicates -/

/-- **source_link_layer_addr / target_link_layer_addr** -/
theorem link_layer_hw_codec_inverse (b : Bytes) (h : b.length = 6) : Icmp6.decHw b = .val (hexStr b) := hw_codec b h

/-- **mtu** -/
theorem mtu_codec_inverse (a b : Nat) (ha : a < 65536) (hb : b < 4294967296) :
    Icmp6.decMtu (Icmp6.encMtu a b) = .val s!"{a}.{b}" := by
  have := mtu_codec a b
  rw [Nat.mod_eq_of_lt ha, Nat.mod_eq_of_lt hb] at this; exact this

/-- **new_advert_interval** -/
theorem new_advert_interval_codec_inverse (r i : Nat) (hr : r < 65536) (hi : i < 4294967296) :
    Icmp6.decAdvert (Icmp6.encAdvert r i) = .val s!"{r}.{i}" := by
  have := advert_codec r i
  rw [Nat.mod_eq_of_lt hr, Nat.mod_eq_of_lt hi] at this; exact this

/-- **handover_assist_info / mobile_node_identifier**: any value of up to 255 octets (8-bit length octet) -/
theorem code_len_codec_inverse (c : Nat) (v : Bytes) (hc : c < 256) (hv : v.length < 256) :
    Icmp6.decCodeLen (Icmp6.encCodeLen c v) = .val s!"{c}.{hexStr v}" := codeLen_codec c v hc hv

/-- what an RSA signature option (RFC 3971) can express: the option carries no signature length, so the signature has to
    fill the option (20 + |signature| a multiple of 8); a shorter one comes back followed by the padding (`rsa_codec`) -/
structure ReprRsa (h s : Bytes) : Prop where
  h : h.length = 16
  ne : 0 < s.length
  fill : (20 + s.length) % 8 = 0
  len : s.length ≤ 2020

/-- **rsa_signature** -/
theorem rsa_signature_codec_inverse (h s : Bytes) (hr : ReprRsa h s) :
    Icmp6.decRsa (Icmp6.encRsa h s) = .val s!"{hexStr h}.{hexStr s}" := by
  obtain ⟨hh, hs, hf, _⟩ := hr
  have hp : Icmp6.optPadding (2 + 2 + 16 + s.length) = 0 := by
    unfold Icmp6.optPadding; rw [if_pos (by simp; omega)]
  have := rsa_codec h s [] hh hs
  simpa [Icmp6.encRsa, hp, Icmp6.zeros] using this

example : ReprRsa (List.replicate 16 1) (List.replicate 4 2) := ⟨rfl, by decide, by decide, by decide⟩

/-- the option of a typed setter, once `Opt.Aligned`, goes through `write_serialization` and `parse_options` unchanged:
    the typed getter of the re-parsed packet sees the same octets as the getter of the packet that was built -/
theorem typed_through_wire (code : Nat) (data : Bytes) (hc : code < 256) (ha : Opt.Aligned ⟨code, data.length, data⟩) :
    Icmp6.parseOpts (Icmp6.optsBytes [⟨code, data.length, data⟩]).length
      ⟨Icmp6.optsBytes [⟨code, data.length, data⟩], (Icmp6.optsBytes [⟨code, data.length, data⟩]).length⟩ =
        .ok [⟨code, data.length, data⟩] := by
  apply icmp6_opts_reparse_partial
  intro o ho
  simp only [List.mem_singleton] at ho
  subst ho
  exact ⟨⟨hc, rfl, by have := ha.2; simp only at this ⊢; omega⟩, ha⟩

/-- **icmp6_typed_codecs_inverse** — all 24 typed ICMPv6 option getters decode what their setters encode, for every
    representable argument (family summary re-exported in `Props/C04.lean`) -/
theorem icmp6_typed_codecs_inverse :
    (∀ b : Bytes, b.length = 6 → Icmp6.decHw b = .val (hexStr b)) ∧
    (∀ pl a l valid pref pfx, ReprPrefixInfo pl a l valid pref pfx →
      Icmp6.decPrefixInfo (Icmp6.encPrefixInfo pl a l valid pref pfx) = .val s!"{pl}.{a}.{l}.{valid}.{pref}.{(0 : Nat)}.{hexStr pfx}") ∧
    (∀ b : Bytes, Icmp6.decBytes b = .val (hexStr b)) ∧
    (∀ a b, a < 65536 → b < 4294967296 → Icmp6.decMtu (Icmp6.encMtu a b) = .val s!"{a}.{b}") ∧
    (∀ l r1 r2, l < 256 → r1 < 256 → r2 < 4294967296 → Icmp6.decShortcut (Icmp6.encShortcut l r1 r2) = .val s!"{l}.{r1}.{r2}") ∧
    (∀ r i, r < 65536 → i < 4294967296 → Icmp6.decAdvert (Icmp6.encAdvert r i) = .val s!"{r}.{i}") ∧
    (∀ a b c, a < 65536 → b < 65536 → c < 65536 → Icmp6.decU16List (Icmp6.encHaInfo a b c) = .val s!"{a},{b},{c}") ∧
    (∀ r l, ReprAddrList r l →
      Icmp6.decAddrList (Icmp6.encAddrList r l) = .val s!"{hexStr r}.{Icmp6.joinWithSep "," (l.map hexStr)}") ∧
    (∀ h s, ReprRsa h s → Icmp6.decRsa (Icmp6.encRsa h s) = .val s!"{hexStr h}.{hexStr s}") ∧
    (∀ r t, r.length = 6 → t < 18446744073709551616 → Icmp6.decTimestamp (Icmp6.encTimestamp r t) = .val s!"{hexStr r}.{t}") ∧
    (∀ c l a, c < 256 → l < 256 → a.length = 16 → Icmp6.decIpPrefix (Icmp6.encIpPrefix c l a) = .val s!"{c}.{l}.{hexStr a}") ∧
    (∀ c a, ReprLladdr c a → Icmp6.decLladdr (Icmp6.encLladdr c a) = .val s!"{c}.{hexStr a}") ∧
    (∀ c s, c < 256 → s < 256 → Icmp6.decNaack (Icmp6.encNaack c s) = .val s!"{c}.{s}") ∧
    (∀ d pr r valid a, d < 16 → pr < 16 → r < 2 → valid < 4294967296 → a.length = 16 →
      Icmp6.decMap (Icmp6.encMap d pr r valid a) = .val s!"{d}.{pr}.{r}.{valid}.{hexStr a}") ∧
    (∀ pl pr lt pfx, ReprRouteInfo pl pr lt pfx →
      Icmp6.decRouteInfo (Icmp6.encRouteInfo pl pr lt pfx) = .val s!"{pl}.{pr}.{lt}.{hexStr pfx}") ∧
    (∀ lt l, ReprRecDns lt l → Icmp6.decRecDns (Icmp6.encRecDns lt l) = .val s!"{lt}.{Icmp6.joinWithSep "," (l.map hexStr)}") ∧
    (∀ atv k, atv < 16 → Icmp6.decHandoverReq (Icmp6.encHandoverReq atv k) = .val s!"{atv}.{hexStr k}") ∧
    (∀ lt atv k, lt < 65536 → atv < 16 → Icmp6.decHandoverReply (Icmp6.encHandoverReply lt atv k) = .val s!"{lt}.{atv}.{hexStr k}") ∧
    (∀ c v, c < 256 → v.length < 256 → Icmp6.decCodeLen (Icmp6.encCodeLen c v) = .val s!"{c}.{hexStr v}") ∧
    (∀ lt dss, ReprDnsSearch lt dss → Icmp6.decDnsSearch (Icmp6.encDnsSearch lt (dss.map joinDots)) =
      .val s!"{lt}.{Icmp6.joinWithSep "," ((dss.map joinDots).map hexStr)}") :=
  ⟨hw_codec, prefix_info_codec_inverse, bytes_codec_inverse, mtu_codec_inverse, shortcut_limit_codec_inverse,
   new_advert_interval_codec_inverse, new_home_agent_info_codec_inverse, addr_list_codec_inverse, rsa_signature_codec_inverse,
   timestamp_codec_inverse, ip_prefix_codec_inverse, link_layer_addr_codec_inverse, naack_codec_inverse, map_codec_inverse,
   route_info_codec_inverse, recursive_dns_servers_codec_inverse, handover_key_request_codec_inverse,
   handover_key_reply_codec_inverse, code_len_codec_inverse, dns_search_list_codec_inverse⟩

end Tins.Wire.Icmp
