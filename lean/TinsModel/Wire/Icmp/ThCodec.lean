import TinsModel.Wire.Icmp.ThOptsReparse
/-
  C04: setters against getters (last write wins, other members untouched) for the header unions of ICMP and ICMPv6, and
  the typed ICMPv6 option codecs: `decode (encode v) = v` for every representable `v`, together with the fact that the
  option a typed setter builds is expressible on the wire (so `icmp6_opts_reparse_partial` applies to it).
-/
namespace Tins.Wire.Icmp
open Tins Tins.Wire

/-! ### struct members: read back what was assigned -/

theorem slice_patch_same (h bs : Bytes) (off : Nat) (hb : off + bs.length ≤ h.length) :
    slice (patch h off bs) off bs.length = bs := by
  unfold slice patch
  have h1 : (h.take off).length = off := by simp only [List.length_take]; omega
  rw [List.append_assoc, List.drop_append_of_le_length (by omega)]
  rw [List.drop_eq_nil_of_le (by omega), List.nil_append]
  simp

theorem slice_patch_disjoint (h bs : Bytes) (off off2 n2 : Nat) (hb : off + bs.length ≤ h.length)
    (hd : off2 + n2 ≤ off ∨ off + bs.length ≤ off2) :
    slice (patch h off bs) off2 n2 = slice h off2 n2 := by
  have := window_patched h bs off off2 n2 hb (by omega)
  simpa [window, slice, patch] using this

theorem be16At_patch_same (h : Bytes) (off v : Nat) (hb : off + 2 ≤ h.length) :
    be16At (patch h off (OutCursor.beBytes 2 v)) off = v % 65536 := by
  unfold be16At
  have := slice_patch_same h (OutCursor.beBytes 2 v) off (by simpa using hb)
  rw [OutCursor.beBytes_length] at this
  rw [this, beNat_beBytes]

theorem be16At_patch_other (h bs : Bytes) (off off2 : Nat) (hb : off + bs.length ≤ h.length)
    (hd : off2 + 2 ≤ off ∨ off + bs.length ≤ off2) : be16At (patch h off bs) off2 = be16At h off2 := by
  unfold be16At; rw [slice_patch_disjoint h bs off off2 2 hb hd]

theorem byteAt_eq_slice (h : Bytes) (i : Nat) (hi : i < h.length) : byteAt h i = Cursor.beNat (slice h i 1) := by
  unfold byteAt slice
  rw [List.getD_eq_getElem?_getD, List.getElem?_eq_getElem hi]
  have : (h.drop i).take 1 = [h[i]] := by
    rw [List.drop_eq_getElem_cons hi, List.take_succ_cons, List.take_zero]
  rw [this]; simp [Cursor.beNat]

theorem byteAt_patch_same (h : Bytes) (off v : Nat) (hb : off + 1 ≤ h.length) :
    byteAt (patch h off [UInt8.ofNat v]) off = v % 256 := by
  have hl : (patch h off [UInt8.ofNat v]).length = h.length := patch_length _ _ _ (by simpa using hb)
  rw [byteAt_eq_slice _ _ (by omega)]
  have := slice_patch_same h [UInt8.ofNat v] off (by simpa using hb)
  simp only [List.length_cons, List.length_nil] at this
  rw [this]; simp [Cursor.beNat, UInt8.toNat_ofNat']

theorem byteAt_patch_other (h bs : Bytes) (off i : Nat) (hb : off + bs.length ≤ h.length) (hi : i < h.length)
    (hd : i + 1 ≤ off ∨ off + bs.length ≤ i) : byteAt (patch h off bs) i = byteAt h i := by
  have hl : (patch h off bs).length = h.length := patch_length _ _ _ hb
  rw [byteAt_eq_slice _ _ (by omega), byteAt_eq_slice _ _ hi, slice_patch_disjoint h bs off i 1 hb hd]

/-- **ICMP `id` / `sequence`**: the getter returns the last value set (as `uint16_t`), the other half of the union,
    the type, the code, the timestamps and the extensions are untouched -/
theorem icmp_id_set_get (p : Icmp4) (hi : p.Inv) (n : Nat) :
    be16At (p.setUn 0 (OutCursor.beBytes 2 n)).un 0 = n % 65536 ∧
    be16At (p.setUn 0 (OutCursor.beBytes 2 n)).un 2 = be16At p.un 2 := by
  simp only [Icmp4.setUn]
  exact ⟨be16At_patch_same _ _ _ (by simp [hi.un]), be16At_patch_other _ _ _ _ (by simp [hi.un]) (by right; simp)⟩

theorem icmp_sequence_set_get (p : Icmp4) (hi : p.Inv) (n : Nat) :
    be16At (p.setUn 2 (OutCursor.beBytes 2 n)).un 2 = n % 65536 ∧
    be16At (p.setUn 2 (OutCursor.beBytes 2 n)).un 0 = be16At p.un 0 := by
  simp only [Icmp4.setUn]
  exact ⟨be16At_patch_same _ _ _ (by simp [hi.un]), be16At_patch_other _ _ _ _ (by simp [hi.un]) (by left; omega)⟩

/-- **ICMP `pointer` / `use_length_field`** touch one byte each of the RFC 4884 view of the union -/
theorem icmp_pointer_set_get (p : Icmp4) (hi : p.Inv) (n : Nat) :
    byteAt (p.setUn 0 [UInt8.ofNat n]).un 0 = n % 256 ∧ byteAt (p.setUn 0 [UInt8.ofNat n]).un 1 = byteAt p.un 1 ∧
    be16At (p.setUn 0 [UInt8.ofNat n]).un 2 = be16At p.un 2 := by
  simp only [Icmp4.setUn]
  exact ⟨byteAt_patch_same _ _ _ (by rw [hi.un]; omega), byteAt_patch_other _ _ _ _ (by simp [hi.un]) (by rw [hi.un]; omega)
    (by right; simp), be16At_patch_other _ _ _ _ (by simp [hi.un]) (by right; simp)⟩

/-- **ICMP timestamps** are kept in network byte order: `original_timestamp(x)` then `original_timestamp()` is `x` -/
theorem icmp_timestamp_set_get (n : Nat) : Cursor.beNat (OutCursor.beBytes 4 n) = n % 4294967296 := beNat_beBytes 4 n

/-- **ICMPv6 `identifier` / `sequence` / `router_lifetime`** -/
theorem icmp6_identifier_set_get (p : Icmp6) (hi : p.Inv) (n : Nat) :
    be16At (p.setUn 0 (Icmp6.be16 n)).un 0 = n % 65536 ∧ be16At (p.setUn 0 (Icmp6.be16 n)).un 2 = be16At p.un 2 := by
  simp only [Icmp6.setUn, Icmp6.be16]
  exact ⟨be16At_patch_same _ _ _ (by simp [hi.un]), be16At_patch_other _ _ _ _ (by simp [hi.un]) (by right; simp)⟩

theorem icmp6_sequence_set_get (p : Icmp6) (hi : p.Inv) (n : Nat) :
    be16At (p.setUn 2 (Icmp6.be16 n)).un 2 = n % 65536 ∧ be16At (p.setUn 2 (Icmp6.be16 n)).un 0 = be16At p.un 0 := by
  simp only [Icmp6.setUn, Icmp6.be16]
  exact ⟨be16At_patch_same _ _ _ (by simp [hi.un]), be16At_patch_other _ _ _ _ (by simp [hi.un]) (by left; omega)⟩

/-- a bit-field assignment: the field reads back the value (mod its width), the other bits of the byte are kept;
    instances for the bit-fields of `icmp6_header` and `multicast_listener_query_message_fields` -/
theorem setBits_get_5_1 (old v : Nat) (ho : old < 256) :
    let new := old - (old / 32 % 2) * 32 + (v % 2) * 32
    new < 256 ∧ new / 32 % 2 = v % 2 ∧ new % 32 = old % 32 ∧ new / 64 = old / 64 := by
  intro new; omega

theorem setBits_get_6_1 (old v : Nat) (ho : old < 256) :
    let new := old - (old / 64 % 2) * 64 + (v % 2) * 64
    new < 256 ∧ new / 64 % 2 = v % 2 ∧ new % 64 = old % 64 ∧ new / 128 = old / 128 := by
  intro new; omega

theorem setBits_get_7_1 (old v : Nat) (ho : old < 256) :
    let new := old - (old / 128 % 2) * 128 + (v % 2) * 128
    new < 256 ∧ new / 128 % 2 = v % 2 ∧ new % 128 = old % 128 := by
  intro new; omega

theorem setBits_get_3_2 (old v : Nat) (ho : old < 256) :
    let new := old - (old / 8 % 4) * 8 + (v % 4) * 8
    new < 256 ∧ new / 8 % 4 = v % 4 ∧ new % 8 = old % 8 ∧ new / 32 = old / 32 := by
  intro new; omega

theorem setBits_get_4_1 (old v : Nat) (ho : old < 256) :
    let new := old - (old / 16 % 2) * 16 + (v % 2) * 16
    new < 256 ∧ new / 16 % 2 = v % 2 ∧ new % 16 = old % 16 ∧ new / 32 = old / 32 := by
  intro new; omega

theorem setBits_get_5_3 (old v : Nat) (ho : old < 256) :
    let new := old - (old / 32 % 8) * 32 + (v % 8) * 32
    new < 256 ∧ new / 32 % 8 = v % 8 ∧ new % 32 = old % 32 := by
  intro new; omega

/-- **ICMPv6 `override` (bit 5 of the first union byte)**: the getter returns the bit just set, the `solicited` and
    `router` bits and the reserved bits are kept -/
theorem icmp6_override_set_get (p : Icmp6) (hi : p.Inv) (v : Nat) :
    byteAt (p.setBits 0 5 1 v).un 0 / 32 % 2 = v % 2 ∧ byteAt (p.setBits 0 5 1 v).un 0 / 64 = byteAt p.un 0 / 64 ∧
    byteAt (p.setBits 0 5 1 v).un 0 % 32 = byteAt p.un 0 % 32 := by
  have hlt := byteAt_lt p.un 0
  have hb := setBits_get_5_1 (byteAt p.un 0) v hlt
  simp only [Icmp6.setBits, Icmp6.setUn]
  rw [byteAt_patch_same _ _ _ (by simp [hi.un])]
  simp only [Nat.reducePow] at hb ⊢
  omega

/-! ### typed ICMPv6 option codecs -/

theorem optPadding_le (n : Nat) : Icmp6.optPadding n ≤ 7 := by
  unfold Icmp6.optPadding
  split
  · omega
  · rename_i h; simp only [beq_iff_eq] at h; omega


theorem be16At_app0 (v : Nat) (r : Bytes) : be16At (Icmp6.be16 v ++ r) 0 = v % 65536 := by
  simp only [be16At, slice, List.drop_zero, Icmp6.be16]
  rw [take_append_len _ _ _ (by simp), beNat_beBytes]

theorem be32At_app (a : Bytes) (v : Nat) (r : Bytes) (n : Nat) (ha : a.length = n) :
    be32At (a ++ (Icmp6.be32 v ++ r)) n = v % 4294967296 := by
  simp only [be32At, slice, Icmp6.be32]
  rw [drop_append_len _ _ _ ha, take_append_len _ _ _ (by simp), beNat_beBytes]

theorem be16At_app (a : Bytes) (v : Nat) (r : Bytes) (n : Nat) (ha : a.length = n) :
    be16At (a ++ (Icmp6.be16 v ++ r)) n = v % 65536 := by
  simp only [be16At, slice, Icmp6.be16]
  rw [drop_append_len _ _ _ ha, take_append_len _ _ _ (by simp), beNat_beBytes]

/-- **MTU option** (`std::pair<uint16_t, uint32_t>`): decode ∘ encode = id on the representable values -/
theorem mtu_codec (a b : Nat) : Icmp6.decMtu (Icmp6.be16 a ++ Icmp6.be32 b) = .val s!"{a % 65536}.{b % 4294967296}" := by
  have hl : (Icmp6.be16 a ++ Icmp6.be32 b).length = 6 := by simp [Icmp6.be16, Icmp6.be32]
  have h1 := be16At_app0 a (Icmp6.be32 b)
  have h2 : be32At (Icmp6.be16 a ++ Icmp6.be32 b) 2 = b % 4294967296 := by
    have := be32At_app (Icmp6.be16 a) b [] 2 (by simp [Icmp6.be16])
    simpa using this
  simp only [Icmp6.decMtu, hl, bne_self_eq_false, Bool.false_eq_true, if_false, h1, h2]

/-- **advertisement interval option**: reserved 16 bits + 32-bit interval -/
theorem advert_codec (r i : Nat) : Icmp6.decAdvert (Icmp6.be16 r ++ Icmp6.be32 i) = .val s!"{r % 65536}.{i % 4294967296}" := by
  have hl : (Icmp6.be16 r ++ Icmp6.be32 i).length = 6 := by simp [Icmp6.be16, Icmp6.be32]
  have h1 := be16At_app0 r (Icmp6.be32 i)
  have h2 : be32At (Icmp6.be16 r ++ Icmp6.be32 i) 2 = i % 4294967296 := by
    have := be32At_app (Icmp6.be16 r) i [] 2 (by simp [Icmp6.be16])
    simpa using this
  simp only [Icmp6.decAdvert, hl, bne_self_eq_false, Bool.false_eq_true, if_false, h1, h2]

/-- **link-layer address options** (`HWAddress<6>`) -/
theorem hw_codec (b : Bytes) (h : b.length = 6) : Icmp6.decHw b = .val (hexStr b) := by
  simp [Icmp6.decHw, h]

/-- **handover assist info / mobile node identifier**: option code, length octet, value, zero padding to a multiple of
    8 — the decoder strips exactly the padding (values up to 255 bytes) -/
theorem codeLen_codec (c : Nat) (v : Bytes) (hc : c < 256) (hv : v.length < 256) :
    Icmp6.decCodeLen (Icmp6.u8 c ++ Icmp6.u8 v.length ++ v ++ Icmp6.zeros (Icmp6.optPadding (v.length + 2 + 2))) =
      .val s!"{c}.{hexStr v}" := by
  generalize Icmp6.zeros (Icmp6.optPadding (v.length + 2 + 2)) = pad
  have hshape : Icmp6.u8 c ++ Icmp6.u8 v.length ++ v ++ pad = UInt8.ofNat c :: UInt8.ofNat v.length :: (v ++ pad) := by
    simp [Icmp6.u8]
  rw [hshape]
  have hb0 : byteAt (UInt8.ofNat c :: UInt8.ofNat v.length :: (v ++ pad)) 0 = c := by
    simp [byteAt, ofNat_toNat_of_lt c hc]
  have hb1 : byteAt (UInt8.ofNat c :: UInt8.ofNat v.length :: (v ++ pad)) 1 = v.length := by
    simp [byteAt, ofNat_toNat_of_lt _ hv]
  unfold Icmp6.decCodeLen
  rw [hb0, hb1]
  have h1 : ¬ ((UInt8.ofNat c :: UInt8.ofNat v.length :: (v ++ pad)).length < 2) := by simp
  have h2 : ¬ ((UInt8.ofNat c :: UInt8.ofNat v.length :: (v ++ pad)).length - 2 < v.length) := by simp
  simp only [h1, h2, if_false, List.drop_succ_cons, List.drop_zero]
  rw [take_append_len _ _ _ rfl]

/-- the option the length-prefixed setters build is expressible on the wire -/
theorem codeLen_aligned (c : Nat) (v : Bytes) (hv : v.length < 256) :
    Opt.Aligned ⟨29, (Icmp6.u8 c ++ Icmp6.u8 v.length ++ v ++ Icmp6.zeros (Icmp6.optPadding (v.length + 2 + 2))).length,
      Icmp6.u8 c ++ Icmp6.u8 v.length ++ v ++ Icmp6.zeros (Icmp6.optPadding (v.length + 2 + 2))⟩ := by
  have hp8 := optPadding_le (v.length + 2 + 2)
  have hp := optPadding_aligned (v.length + 2 + 2)
  generalize Icmp6.optPadding (v.length + 2 + 2) = pad at hp hp8 ⊢
  simp only [Opt.Aligned, Icmp6.u8, Icmp6.zeros, List.length_append, List.length_cons, List.length_nil, List.length_replicate]
  omega

/-- **RSA signature option after the fix**: reserved 2 + key hash 16 + signature + padding completes the whole option
    (type and length octets included) to a multiple of 8 -/
theorem rsa_aligned (h s : Bytes) (hh : h.length = 16) (hs : s.length ≤ 2000) :
    Opt.Aligned ⟨12, (Icmp6.zeros 2 ++ h ++ s ++ Icmp6.zeros (Icmp6.optPadding (2 + 2 + 16 + s.length))).length,
      Icmp6.zeros 2 ++ h ++ s ++ Icmp6.zeros (Icmp6.optPadding (2 + 2 + 16 + s.length))⟩ := by
  have hp8 := optPadding_le (2 + 2 + 16 + s.length)
  have hp := optPadding_aligned (2 + 2 + 16 + s.length)
  generalize Icmp6.optPadding (2 + 2 + 16 + s.length) = pad at hp hp8 ⊢
  simp only [Opt.Aligned, Icmp6.zeros, List.length_append, List.length_replicate, hh]
  omega

/-- the decoder returns key hash and signature; the signature comes back followed by the alignment padding (libtins
    cannot tell them apart: the option carries no signature length) -/
theorem rsa_codec (h s pad : Bytes) (hh : h.length = 16) (hs : 0 < s.length) :
    Icmp6.decRsa (Icmp6.zeros 2 ++ h ++ s ++ pad) = .val s!"{hexStr h}.{hexStr (s ++ pad)}" := by
  have hl : ¬ ((Icmp6.zeros 2 ++ h ++ s ++ pad).length < 2 + 16 + 1) := by
    simp only [Icmp6.zeros, List.length_append, List.length_replicate, hh]; omega
  have h1 : slice (Icmp6.zeros 2 ++ h ++ s ++ pad) 2 16 = h := by
    simp only [slice, List.append_assoc]
    rw [drop_append_len _ _ _ (by simp [Icmp6.zeros]), take_append_len _ _ _ hh]
  have h2 : (Icmp6.zeros 2 ++ h ++ s ++ pad).drop 18 = s ++ pad := by
    have : (Icmp6.zeros 2 ++ h).length = 18 := by simp [Icmp6.zeros, hh]
    rw [List.append_assoc (Icmp6.zeros 2 ++ h), drop_append_len _ _ _ this]
  simp only [Icmp6.decRsa, hl, if_false, h1, h2]

end Tins.Wire.Icmp
