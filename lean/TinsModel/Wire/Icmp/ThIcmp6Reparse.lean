import TinsModel.Wire.Icmp.ThIcmpReparse
import TinsModel.Wire.Icmp.ThIcmp6Api
/-
  C03 for ICMPv6: parsing what `write_serialization` wrote — addresses, router advertisement fields, MLDv2 report
  records (with their source lists and auxiliary data), MLD query fields and sources, the option list.
-/
namespace Tins.Wire.Icmp
open Tins Tins.Wire

/-- what the wire format of an MLDv2 address record can express -/
def McastRec.OK (r : McastRec) : Prop :=
  r.type < 256 ∧ r.sources.length < 65536 ∧ r.aux.length % 4 = 0 ∧ r.aux.length / 4 < 256

theorem readAddrs_flatten (l : List Bytes) (h16 : ∀ s ∈ l, s.length = 16) (m : Bytes) (k : Nat) (hk : 16 * l.length ≤ k) :
    readAddrs l.length ⟨l.flatten ++ m, k⟩ = .ok (l, ⟨m, k - 16 * l.length⟩) := by
  induction l generalizing k with
  | nil => simp [readAddrs]
  | cons a as ih =>
    simp only [List.length_cons] at hk ⊢
    unfold readAddrs
    have ha := h16 a List.mem_cons_self
    simp only [List.flatten_cons, List.append_assoc]
    rw [read_app a _ _ 16 ha (by omega)]
    simp only [Out.bind_ok]
    rw [ih (fun s hs => h16 s (List.mem_cons_of_mem _ hs)) (k - 16) (by omega)]
    simp only [Out.bind_ok, pure]
    congr 3; omega

theorem mcastrec_parse_bytes (r : McastRec) (hw : r.WF) (hok : r.OK) (m : Bytes) (k : Nat) (hk : r.size ≤ k) :
    McastRec.parse ⟨r.bytes ++ m, k⟩ = .ok r := by
  obtain ⟨ht, hs, ha4, ha⟩ := hok
  have hf := flatten_length_16 _ hw.srcs
  simp only [McastRec.size] at hk
  have hshape : r.bytes ++ m = UInt8.ofNat r.type :: UInt8.ofNat (r.aux.length / 4) ::
      (OutCursor.beBytes 2 r.sources.length ++ (r.addr ++ (r.sources.flatten ++ (r.aux ++ m)))) := by
    simp [McastRec.bytes, List.append_assoc]
  unfold McastRec.parse
  rw [hshape, readU8_cons _ _ _ (by omega)]
  simp only [Out.bind_ok]
  rw [readU8_cons _ _ _ (by omega)]
  simp only [Out.bind_ok]
  rw [readBE_app _ _ _ 2 (by simp) (by omega)]
  simp only [Out.bind_ok]
  rw [read_app r.addr _ _ 16 hw.addr (by omega)]
  simp only [Out.bind_ok]
  rw [beNat_beBytes, Nat.mod_eq_of_lt (by omega : r.sources.length < 256 ^ 2)]
  rw [readAddrs_flatten r.sources hw.srcs _ _ (by omega)]
  simp only [Out.bind_ok]
  rw [ofNat_toNat_of_lt _ ha]
  have h4 : r.aux.length / 4 * 4 = r.aux.length := by omega
  rw [h4]
  have hcr : (⟨r.aux ++ m, k - 1 - 1 - 2 - 16 - 16 * r.sources.length⟩ : Cursor).canRead r.aux.length = true := by
    simp [Cursor.canRead]; omega
  simp only [hcr, Bool.not_true, Bool.false_eq_true, if_false]
  rw [peek_app _ r.aux _ _ _ rfl]
  simp only [Out.bind_ok, pure, ofNat_toNat_of_lt _ ht]

theorem parseRecords_bytes (rs : List McastRec) (hw : ∀ r ∈ rs, r.WF) (hok : ∀ r ∈ rs, r.OK) (m : Bytes) (k : Nat)
    (hk : (rs.map McastRec.size).sum ≤ k) :
    Icmp6.parseRecords rs.length ⟨Icmp6.recordsBytes rs ++ m, k⟩ = .ok (rs, ⟨m, k - (rs.map McastRec.size).sum⟩) := by
  induction rs generalizing k with
  | nil => simp [Icmp6.parseRecords, Icmp6.recordsBytes]
  | cons r rs ih =>
    have hwr := hw r List.mem_cons_self
    have hl := mcastrec_bytes_length r hwr
    simp only [List.map_cons, List.sum_cons, List.length_cons] at hk ⊢
    unfold Icmp6.parseRecords
    have hshape : Icmp6.recordsBytes (r :: rs) ++ m = r.bytes ++ (Icmp6.recordsBytes rs ++ m) := by
      simp [Icmp6.recordsBytes, List.append_assoc]
    rw [hshape, mcastrec_parse_bytes r hwr (hok r List.mem_cons_self) _ _ (by omega)]
    simp only [Out.bind_ok]
    rw [skip_app r.bytes _ _ r.size hl (by omega)]
    simp only [Out.bind_ok]
    rw [ih (fun x hx => hw x (List.mem_cons_of_mem _ hx)) (fun x hx => hok x (List.mem_cons_of_mem _ hx)) (k - r.size) (by omega)]
    simp only [Out.bind_ok, pure]
    congr 3; omega

theorem readIf_bytes (on : Bool) (a m : Bytes) (k n : Nat) (ha : a.length = n) (hk : (if on then n else 0) ≤ k) :
    readIf on n ⟨(if on then a else []) ++ m, k⟩ =
      .ok (if on then a else List.replicate n 0, ⟨m, k - (if on then n else 0)⟩) := by
  unfold readIf
  cases on with
  | true => simp only [if_true] at hk ⊢; exact read_app a m k n ha hk
  | false => simp [pure]

/-- what the parser reconstructs of the type-dependent body -/
def Icmp6.bodyOnWire (p : Icmp6) : Icmp6.Body :=
  { target := if Icmp6.hasTarget p.type then p.target else List.replicate 16 0,
    dest := if Icmp6.hasDest p.type then p.dest else List.replicate 16 0,
    reach := if p.type == 134 then p.reach else Icmp6.zeros 4,
    retrans := if p.type == 134 then p.retrans else Icmp6.zeros 4,
    records := if p.type == 143 then p.records else [],
    mcast := if p.type == 130 then p.mcast else Icmp6.zeros 16,
    useMldv2 := if p.type == 130 then p.useMldv2 else true,
    mlqm := if p.type == 130 && p.useMldv2 then p.mlqm else Icmp6.zeros 2,
    sources := if p.type == 130 && p.useMldv2 then p.sources else [] }

/-- what the wire format can express of the type-dependent body; `follows` = more bytes come after it -/
def Icmp6.BodyWire (p : Icmp6) (un : Bytes) (follows : Bool) : Prop :=
  (p.type = 143 → be16At un 2 = p.records.length ∧ ∀ r ∈ p.records, r.OK) ∧
  (p.type = 130 → p.sources.length < 65536 ∧ (p.useMldv2 = false → follows = false))

theorem icmp6_readBody_bytes (p : Icmp6) (hi : p.Inv) (un rest : Bytes) (k : Nat)
    (hk : (if Icmp6.hasTarget p.type then 16 else 0) + (if Icmp6.hasDest p.type then 16 else 0) + p.extra + rest.length = k)
    (hbw : p.BodyWire un (!rest.isEmpty)) :
    Icmp6.readBody p.type un ⟨(if Icmp6.hasTarget p.type then p.target else []) ++
        ((if Icmp6.hasDest p.type then p.dest else []) ++ (p.bodyBytes ++ rest)), k⟩ =
      .ok (p.bodyOnWire, ⟨rest, rest.length⟩) := by
  have hbl := bodyBytes_length p hi
  unfold Icmp6.readBody
  rw [readIf_bytes _ p.target _ _ 16 hi.target (by omega)]
  simp only [Out.bind_ok]
  rw [readIf_bytes _ p.dest _ _ 16 hi.dest (by omega)]
  simp only [Out.bind_ok]
  have hk2 : k - (if Icmp6.hasTarget p.type = true then 16 else 0) - (if Icmp6.hasDest p.type = true then 16 else 0) =
      p.extra + rest.length := by omega
  rw [hk2]
  unfold Icmp6.bodyBytes Icmp6.extra at *
  unfold Icmp6.bodyOnWire
  by_cases h134 : (p.type == 134) = true
  · have h143 : (p.type == 143) = false := by simp only [beq_iff_eq] at h134; simp [h134]
    have h130 : (p.type == 130) = false := by simp only [beq_iff_eq] at h134; simp [h134]
    simp only [h134, h143, h130, if_true, Bool.false_eq_true, if_false, Bool.false_and] at hbl ⊢
    rw [List.append_assoc, read_app p.reach _ _ 4 hi.reach (by omega)]
    simp only [Out.bind_ok]
    rw [read_app p.retrans _ _ 4 hi.retrans (by omega)]
    simp only [Out.bind_ok, pure]
    congr 3
    omega
  · simp only [h134, Bool.false_eq_true, if_false] at hbl ⊢
    by_cases h143 : (p.type == 143) = true
    · have h130 : (p.type == 130) = false := by simp only [beq_iff_eq] at h143; simp [h143]
      have ht : p.type = 143 := by simpa using h143
      obtain ⟨hcnt, hrok⟩ := hbw.1 ht
      simp only [h143, h130, if_true, Bool.false_eq_true, if_false, Bool.false_and] at hbl ⊢
      rw [hcnt, parseRecords_bytes p.records hi.records hrok rest _ (by omega)]
      simp only [Out.bind_ok, pure]
      congr 3
      omega
    · simp only [h143, Bool.false_eq_true, if_false] at hbl ⊢
      by_cases h130 : (p.type == 130) = true
      · have ht : p.type = 130 := by simpa using h130
        obtain ⟨hsl, hv1⟩ := hbw.2 ht
        have hf := flatten_length_16 _ hi.sources
        simp only [h130, if_true, Bool.true_and] at hbl ⊢
        by_cases hv : p.useMldv2 = true
        · simp only [hv, if_true] at hbl ⊢
          rw [List.append_assoc, read_app p.mcast _ _ 16 hi.mcast (by omega)]
          simp only [Out.bind_ok]
          have htb : (⟨p.mlqm ++ OutCursor.beBytes 2 p.sources.length ++ p.sources.flatten ++ rest,
              16 + (2 + 2 + 16 * p.sources.length) + rest.length - 16⟩ : Cursor).toBool = true := by
            simp [Cursor.toBool]; omega
          simp only [htb, if_true]
          rw [List.append_assoc, List.append_assoc, read_app p.mlqm _ _ 2 hi.mlqm (by omega)]
          simp only [Out.bind_ok]
          rw [readBE_app _ _ _ 2 (by simp) (by omega)]
          simp only [Out.bind_ok]
          rw [beNat_beBytes, Nat.mod_eq_of_lt (by omega : p.sources.length < 256 ^ 2)]
          rw [readAddrs_flatten p.sources hi.sources rest _ (by omega)]
          simp only [Out.bind_ok, pure]
          congr 3
          omega
        · have hvf : p.useMldv2 = false := by simpa using hv
          have hre := hv1 hvf
          have hrest : rest = [] := by
            cases rest with
            | nil => rfl
            | cons x xs => simp at hre
          subst hrest
          simp only [hvf, Bool.false_eq_true, if_false, List.append_nil] at hbl ⊢
          have hrd := read_app p.mcast [] (16 + 0 + ([] : Bytes).length) 16 hi.mcast (by omega)
          rw [List.append_nil] at hrd
          rw [hrd]
          simp only [Out.bind_ok]
          have htb : (⟨[], 16 + 0 + ([] : Bytes).length - 16⟩ : Cursor).toBool = false := by simp [Cursor.toBool]
          simp only [htb, Bool.false_eq_true, if_false, pure]
          congr 3
      · simp only [h130, Bool.false_eq_true, if_false, Bool.false_and, List.nil_append, pure] at hbl ⊢
        congr 3
        omega


/-- the object the parser builds from the wire image of `p` -/
def Icmp6.onWire (p : Icmp6) (ck : Nat) (un : Bytes) (ext : ExtS) : Icmp6 :=
  let b := p.bodyOnWire
  ⟨p.type, p.code, ck, un, b.target, b.dest, b.mcast, p.opts, Icmp6.sizeAfter 0 p.opts, b.reach, b.retrans, b.records,
    b.mlqm, b.sources, ext, b.useMldv2⟩

def Icmp6.Small (p : Icmp6) : Prop := p.type < 256 ∧ p.code < 256

/-- what the wire format can express of the option list: only the neighbour discovery types carry options, the options
    run to the end of the message, each is expressible -/
def Icmp6.OptsWire (p : Icmp6) (rest : Bytes) : Prop :=
  (Icmp6.hasOptions p.type = true → rest = [] ∧ ∀ o ∈ p.opts, o.Api ∧ o.Aligned) ∧
  (Icmp6.hasOptions p.type = false → p.opts = [])

/-- the header image: everything `writeHead` emits, with two checksum bytes in place -/
def Icmp6.image (p : Icmp6) (k0 k1 : UInt8) (un : Bytes) : Bytes :=
  [UInt8.ofNat p.type, UInt8.ofNat p.code, k0, k1] ++ un ++ (if Icmp6.hasTarget p.type then p.target else []) ++
    (if Icmp6.hasDest p.type then p.dest else []) ++ p.bodyBytes ++ Icmp6.optsBytes p.opts

/-- the parsing constructor on a buffer that starts with the image of `p`'s header -/
theorem icmp6_parseHead_image (p : Icmp6) (hi : p.Inv) (hsm : p.Small) (k0 k1 : UInt8) (un rest : Bytes) (hun : un.length = 4)
    (hbw : p.BodyWire un (!(Icmp6.optsBytes p.opts ++ rest).isEmpty)) (how : p.OptsWire rest) :
    Icmp6.parseHead (p.image k0 k1 un ++ rest) =
      (tryParseExtIf (Icmp6.extAllowed p.type)
          (if Icmp6.hasOptions p.type then (⟨[], 0⟩ : Cursor) else ⟨rest, rest.length⟩) (byteAt un 0 * 8)) >>= fun x =>
        pure (p.onWire (Cursor.beNat [k0, k1]) un x.1, x.2) := by
  obtain ⟨ht, hc⟩ := hsm
  have hbl := bodyBytes_length p hi
  have hol := optsBytes_length p.opts
  have htl : (if Icmp6.hasTarget p.type = true then p.target else []).length = (if Icmp6.hasTarget p.type then 16 else 0) := by
    split <;> simp [hi.target]
  have hdl : (if Icmp6.hasDest p.type = true then p.dest else []).length = (if Icmp6.hasDest p.type then 16 else 0) := by
    split <;> simp [hi.dest]
  unfold Icmp6.parseHead
  have hshape : p.image k0 k1 un ++ rest =
      UInt8.ofNat p.type :: UInt8.ofNat p.code :: ([k0, k1] ++ (un ++ ((if Icmp6.hasTarget p.type then p.target else []) ++
        ((if Icmp6.hasDest p.type then p.dest else []) ++ (p.bodyBytes ++ (Icmp6.optsBytes p.opts ++ rest)))))) := by
    simp [Icmp6.image, List.append_assoc]
  have hlen : (p.image k0 k1 un ++ rest).length = 8 + (if Icmp6.hasTarget p.type then 16 else 0) +
      (if Icmp6.hasDest p.type then 16 else 0) + p.extra + Icmp6.wireSum p.opts + rest.length := by
    simp only [Icmp6.image, List.length_append, List.length_cons, List.length_nil, hun, htl, hdl, hbl, hol]
  simp only [Cursor.ofBytes, hlen]
  rw [hshape, readU8_cons _ _ _ (by omega)]
  simp only [Out.bind_ok]
  rw [readU8_cons _ _ _ (by omega)]
  simp only [Out.bind_ok]
  rw [readBE_app [k0, k1] _ _ 2 rfl (by omega)]
  simp only [Out.bind_ok]
  rw [read_app un _ _ 4 hun (by omega)]
  simp only [Out.bind_ok, ofNat_toNat_of_lt _ ht, ofNat_toNat_of_lt _ hc]
  rw [icmp6_readBody_bytes p hi un (Icmp6.optsBytes p.opts ++ rest) _
    (by simp only [List.length_append, hol]; omega) hbw]
  simp only [Out.bind_ok]
  -- the options
  have hopts : Icmp6.parseOptsIf (Icmp6.hasOptions p.type)
      ⟨Icmp6.optsBytes p.opts ++ rest, (Icmp6.optsBytes p.opts ++ rest).length⟩ =
      .ok (p.opts, if Icmp6.hasOptions p.type then (⟨[], 0⟩ : Cursor) else ⟨rest, rest.length⟩) := by
    unfold Icmp6.parseOptsIf
    by_cases ho : Icmp6.hasOptions p.type = true
    · obtain ⟨hr, hall⟩ := how.1 ho
      subst hr
      simp only [ho, if_true, List.append_nil]
      have := parseOpts_optsBytes p.opts hall [] _ (Nat.le_refl _)
      rw [List.append_nil] at this
      rw [this]
      simp only [Out.bind_ok, pure]
    · have hof : Icmp6.hasOptions p.type = false := by simpa using ho
      have hnil := how.2 hof
      simp only [hof, Bool.false_eq_true, if_false, hnil, Icmp6.optsBytes, List.map_nil, List.flatten_nil,
        List.nil_append, pure]
  rw [hopts]
  simp only [Out.bind_ok]
  rfl


theorem icmp6_headBytes_image (p : Icmp6) (inner : Option Nat) : p.headBytes inner = p.image 0 0 (p.unBytes inner) := rfl

theorem setCk_image (p : Icmp6) (un rest : Bytes) (ck : Nat) :
    ∃ k0 k1, setCk (p.image 0 0 un ++ rest) ck = p.image k0 k1 un ++ rest := by
  refine ⟨UInt8.ofNat (ck % 256), UInt8.ofNat (ck / 256 % 256), ?_⟩
  simp only [setCk, Icmp6.image, le16, List.append_assoc, List.cons_append, List.nil_append, List.take, List.drop]

/-- **closed form of `write_serialization` without extensions**: the header image (with the pseudo-header checksum when
    the parent is IPv6, a zero checksum otherwise) followed by what was in the region -/
theorem icmp6_write_plain_image (cx : Ctx) (p : Icmp6) (hi : p.Inv) (hs : p.Ser) (he : p.hasExt = false) (region : Bytes)
    (hr : p.hdr ≤ region.length) :
    ∃ k0 k1, p.write cx region = .ok (p.image k0 k1 (p.unBytes (Icmp4.innerOf cx.innerSize)) ++ region.drop p.hdr) := by
  have hhl := icmp6_headBytes_length p hi hs (Icmp4.innerOf cx.innerSize)
  have h8 : 8 ≤ p.hdr := by rw [icmp6_hdr_eq p hi hs]; omega
  unfold Icmp6.write
  dsimp only
  rw [icmp6_writeHead_eq p hi hs _ region hr]
  simp only [Out.bind_ok]
  unfold Icmp6.writeTail
  dsimp only
  rw [emit_ofRegion_buffer, hhl]
  simp only [he, Bool.false_eq_true, if_false, Out.pure_eq, Out.bind_ok]
  cases Icmp6.pseudoOf cx (p.hdr + cx.innerSize + p.trl cx.innerSize) with
  | none => exact ⟨0, 0, by rw [icmp6_headBytes_image]⟩
  | some ps =>
    simp only
    rw [poke_eq _ _ _ _ (by simp only [le16_length, List.length_append, hhl, List.length_drop]; omega)]
    rw [icmp6_headBytes_image]
    rcases setCk_image p (p.unBytes (Icmp4.innerOf cx.innerSize)) (region.drop p.hdr)
      (not16 (fold16 ((ps + sumRange (p.image 0 0 (p.unBytes (Icmp4.innerOf cx.innerSize)) ++ region.drop p.hdr)) % 4294967296)) % 65536)
      with ⟨k0, k1, hk⟩
    exact ⟨k0, k1, by rw [← hk]; rfl⟩

/-- **C03 / ICMPv6 without an extension structure**: every object the wire format can express (`BodyWire`, `OptsWire`;
    for the RFC 4884 types: no ghost structure) is re-parsed from its serialization with the same header fields,
    addresses, router advertisement fields, MLD records / sources and options -/
theorem icmp6_reparse_plain (cx : Ctx) (p : Icmp6) (hi : p.Inv) (hs : p.Ser) (hsm : p.Small) (he : p.hasExt = false)
    (region : Bytes) (hr : p.hdr ≤ region.length)
    (hbw : p.BodyWire (p.unBytes (Icmp4.innerOf cx.innerSize)) (!(Icmp6.optsBytes p.opts ++ region.drop p.hdr).isEmpty))
    (how : p.OptsWire (region.drop p.hdr))
    (hg : Icmp6.extAllowed p.type = true →
      ghostFree (byteAt (p.unBytes (Icmp4.innerOf cx.innerSize)) 0 * 8) (region.drop p.hdr)) :
    ∃ out ck, p.write cx region = .ok out ∧
      Icmp6.parse out = .ok (p.onWire ck (p.unBytes (Icmp4.innerOf cx.innerSize)) ExtS.default,
        if Icmp6.hasOptions p.type then .none else if region.length > p.hdr then .raw (region.drop p.hdr) else .none) := by
  rcases icmp6_write_plain_image cx p hi hs he region hr with ⟨k0, k1, hw⟩
  refine ⟨_, Cursor.beNat [k0, k1], hw, ?_⟩
  unfold Icmp6.parse
  rw [icmp6_parseHead_image p hi hsm k0 k1 _ _ (unBytes_length p hi _) hbw how]
  by_cases ho : Icmp6.hasOptions p.type = true
  · -- options: the loop consumed everything; the option types are not RFC 4884 types
    have hna : Icmp6.extAllowed p.type = false := by
      simp only [Icmp6.hasOptions, Icmp6.extAllowed, Bool.or_eq_true, beq_iff_eq] at ho ⊢
      rcases ho with (((h | h) | h) | h) | h <;> simp [h]
    simp only [ho, if_true, tryParseExtIf, hna, Bool.false_eq_true, if_false, pure, Out.bind_ok]
    rw [finishRaw_ok _ _ _ (by simp [Cursor.Inv])]
    simp [Cursor.toBool]
  · have hof : Icmp6.hasOptions p.type = false := by simpa using ho
    simp only [hof, Bool.false_eq_true, if_false]
    have hext : tryParseExtIf (Icmp6.extAllowed p.type) ⟨region.drop p.hdr, (region.drop p.hdr).length⟩
        (byteAt (p.unBytes (Icmp4.innerOf cx.innerSize)) 0 * 8) = .ok (ExtS.default, ⟨region.drop p.hdr, (region.drop p.hdr).length⟩) := by
      unfold tryParseExtIf
      by_cases ha : Icmp6.extAllowed p.type = true
      · simp only [ha, if_true]; exact tryParseExt_none _ _ _ (hg ha)
      · simp only [ha, Bool.false_eq_true, if_false, pure]
    rw [hext]
    simp only [pure, Out.bind_ok]
    rw [finishRaw_ok _ _ _ (by simp [Cursor.Inv])]
    simp only [Cursor.toBool, List.length_drop]
    congr 2
    by_cases hgt : region.length > p.hdr
    · have : decide (region.length - p.hdr > 0) = true := by simp; omega
      simp [this, hgt]
      exact List.take_of_length_le (by simp)
    · have : decide (region.length - p.hdr > 0) = false := by simp; omega
      simp [this, hgt]

theorem byteAt_unBytes (p : Icmp6) (hi : p.Inv) (inner : Option Nat) : byteAt (p.unBytes inner) 0 = p.lengthFor inner % 256 := by
  have h1 : (patch p.un 0 [UInt8.ofNat (p.lengthFor inner)]).length = 4 := by
    rw [patch_length _ _ _ (by simp [hi.un])]; exact hi.un
  unfold Icmp6.unBytes
  split
  · rw [byteAt_patch_other _ _ _ _ (by simp [h1]) (by omega) (by left; omega)]
    exact byteAt_patch_same _ _ _ (by simp [hi.un])
  · exact byteAt_patch_same _ _ _ (by simp [hi.un])

/-- quotes whose size is a multiple of 8 and fits the 8-bit length field (in 64-bit words) are ghost-free -/
theorem icmp6_quote_ghostFree (p : Icmp6) (he : p.hasExt = false) (ha : Icmp6.extAllowed p.type = true) (payload : Bytes)
    (h8 : payload.length % 8 = 0) (hmax : payload.length ≤ 2040) :
    ghostFree (p.lengthFor (Icmp4.innerOf payload.length) % 256 * 8) payload := by
  apply ghostFree_of_exact
  have hlen : Icmp6.length p < 256 := byteAt_lt _ _
  generalize payload.length = n at *
  unfold Icmp6.lengthFor Icmp4.innerOf extLocate
  simp only [ha, if_true, he]
  by_cases hn0 : n = 0
  · subst hn0
    simp only [beq_self_eq_true, if_true, paddedInner]
    split
    · simp
    · rename_i h
      simp only [Bool.or_eq_true, bne_iff_ne, ne_eq, decide_eq_true_eq, not_or, Decidable.not_not] at h
      simp [h.1]
  · have hb : (n == 0) = false := by simp [hn0]
    simp only [hb, Bool.false_eq_true, if_false, paddedInner]
    have hp : (n % 8 != 0) = false := by simp [h8]
    simp only [hp, Bool.false_eq_true, if_false, Bool.and_false]
    by_cases hc : (Icmp6.length p != 0 || decide (n > 128)) = true
    · simp only [hc, if_true]
      have hv : n / 8 % 256 % 256 * 8 = n := by omega
      rw [hv]
      by_cases h128 : n ≥ 128
      · left; simp [h128]
      · right
        have h1 : ¬ (128 ≤ n) := by omega
        simp [h128]
    · simp only [hc, Bool.false_eq_true, if_false]
      simp only [Bool.or_eq_true, bne_iff_ne, ne_eq, decide_eq_true_eq, not_or, Decidable.not_not, Nat.not_lt] at hc
      rw [hc.1]
      by_cases h128 : n = 128
      · left; subst h128; simp
      · right
        have h1 : ¬ (128 ≤ n) := by omega
        simp [h1]

/-- **C03 / ICMPv6 error message with an extension structure** (the shape the parser produces: a quote of at least 128
    bytes that is a multiple of 8 and fits the length field; no options) -/
theorem icmp6_reparse_ext (cx : Ctx) (p : Icmp6) (hi : p.Inv) (hs : p.Ser) (hsm : p.Small) (he : p.hasExt = true)
    (ha : Icmp6.extAllowed p.type = true) (hno : p.opts = []) (hok : ∀ e ∈ p.ext.exts, e.OK) (hps : p.ext.plainSize < 131072)
    (payload tail : Bytes) (hn : 128 ≤ payload.length) (h8 : payload.length % 8 = 0) (hmax : payload.length ≤ 2040)
    (hcx : cx.innerSize = payload.length) (htl : tail.length = p.ext.plainSize) :
    ∃ out ck, p.write cx (List.replicate p.hdr 0 ++ payload ++ tail) = .ok out ∧
      Icmp6.parse out = .ok (p.onWire ck (p.unBytes (some payload.length)) ⟨p.ext.vr % 65536, p.ext.wireCk, p.ext.exts⟩,
        .raw payload) := by
  have hne : p.ext.exts.isEmpty = false := by simpa [Icmp6.hasExt] using he
  have hinner : Icmp4.innerOf cx.innerSize = some payload.length := by
    unfold Icmp4.innerOf
    rw [hcx]
    have : (payload.length == 0) = false := by simp only [beq_eq_false_iff_ne, ne_eq]; omega
    simp only [this, Bool.false_eq_true, if_false]
  have hhl := icmp6_headBytes_length p hi hs (some payload.length)
  have h8h : 8 ≤ p.hdr := by rw [icmp6_hdr_eq p hi hs]; omega
  have hpad : paddedInner (some payload.length) 8 = payload.length := by
    simp only [paddedInner]
    have : (payload.length % 8 != 0) = false := by simp [h8]
    simp [this]
  have hzl : (List.replicate p.hdr (0 : UInt8)).length = p.hdr := by simp
  -- the types with extensions have no options, no addresses and no body
  have hty : p.type = 1 ∨ p.type = 3 := by simpa [Icmp6.extAllowed] using ha
  have hopt : Icmp6.hasOptions p.type = false := by rcases hty with h | h <;> simp [Icmp6.hasOptions, h]
  -- the written bytes
  have hwrite : ∃ k0 k1, p.write cx (List.replicate p.hdr 0 ++ payload ++ tail) =
      .ok (p.image k0 k1 (p.unBytes (some payload.length)) ++ (payload ++ p.ext.wireBytes)) := by
    unfold Icmp6.write
    dsimp only
    rw [hinner, icmp6_writeHead_eq p hi hs _ _ (by simp)]
    simp only [Out.bind_ok]
    unfold Icmp6.writeTail
    dsimp only
    rw [emit_ofRegion_buffer, hhl]
    have hdrop : (List.replicate p.hdr (0 : UInt8) ++ payload ++ tail).drop p.hdr = payload ++ tail := by
      rw [List.append_assoc]; exact drop_append_len _ _ _ hzl
    have hdone : (emit (OutCursor.ofRegion (List.replicate p.hdr 0 ++ payload ++ tail)) (p.headBytes (some payload.length))).done.length
        = (p.headBytes (some payload.length)).length := by simp [OutCursor.ofRegion]
    rw [hdrop, hdone]
    simp only [he, if_true]
    rw [← List.append_assoc, writeExtPart_exact _ p.ext payload.length 8 _ payload tail _ (by omega) rfl hn hpad htl (Nat.le_refl _)]
    simp only [Out.bind_ok]
    rw [icmp6_headBytes_image, List.append_assoc]
    cases Icmp6.pseudoOf cx (p.hdr + cx.innerSize + p.trl cx.innerSize) with
    | none => exact ⟨0, 0, rfl⟩
    | some ps =>
      simp only
      have hil : (p.image 0 0 (p.unBytes (some payload.length))).length = p.hdr := by rw [← icmp6_headBytes_image]; exact hhl
      rw [poke_eq _ _ _ _ (by simp only [le16_length, List.length_append, hil]; omega)]
      rcases setCk_image p (p.unBytes (some payload.length)) (payload ++ p.ext.wireBytes)
        (not16 (fold16 ((ps + sumRange (p.image 0 0 (p.unBytes (some payload.length)) ++ (payload ++ p.ext.wireBytes))) % 4294967296)) % 65536)
        with ⟨k0, k1, hk⟩
      exact ⟨k0, k1, by rw [← hk]; rfl⟩
  rcases hwrite with ⟨k0, k1, hw⟩
  refine ⟨_, Cursor.beNat [k0, k1], hw, ?_⟩
  unfold Icmp6.parse
  have hbw : p.BodyWire (p.unBytes (some payload.length)) (!(Icmp6.optsBytes p.opts ++ (payload ++ p.ext.wireBytes)).isEmpty) := by
    refine ⟨fun h => ?_, fun h => ?_⟩ <;> rcases hty with h' | h' <;> omega
  have how : p.OptsWire (payload ++ p.ext.wireBytes) := ⟨fun h => (by rw [hopt] at h; cases h), fun _ => hno⟩
  rw [icmp6_parseHead_image p hi hsm k0 k1 _ _ (unBytes_length p hi _) hbw how]
  simp only [hopt, Bool.false_eq_true, if_false, tryParseExtIf, ha, if_true]
  rw [byteAt_unBytes p hi]
  have hloc : extLocate (p.lengthFor (some payload.length) % 256 * 8) (payload.length + p.ext.plainSize) = some payload.length := by
    have hlen : Icmp6.length p < 256 := byteAt_lt _ _
    unfold Icmp6.lengthFor extLocate
    simp only [ha, if_true, hpad, he]
    by_cases hc : (Icmp6.length p != 0 || decide (payload.length > 128)) = true
    · simp only [hc, if_true]
      have hpos : decide (payload.length > 0) = true := by simp only [decide_eq_true_eq]; omega
      have hmx : (if payload.length > 128 then payload.length else 128) = payload.length := by split <;> omega
      simp only [hpos, Bool.and_true, if_true, hmx]
      have hv : payload.length / 8 % 256 % 256 * 8 = payload.length := by omega
      rw [hv]
      simp [hn]
    · simp only [hc, Bool.false_eq_true, if_false]
      simp only [Bool.or_eq_true, bne_iff_ne, ne_eq, decide_eq_true_eq, not_or, Decidable.not_not, Nat.not_lt] at hc
      rw [hc.1]
      have : payload.length = 128 := by omega
      simp [this]
  have hwl := exts_wireBytes_length p.ext
  have hcur : (⟨payload ++ p.ext.wireBytes, (payload ++ p.ext.wireBytes).length⟩ : Cursor) =
      ⟨payload ++ p.ext.wireBytes, payload.length + p.ext.plainSize⟩ := by simp [hwl]
  rw [hcur, tryParseExt_found payload p.ext _ _ hps hne hok hloc]
  simp only [pure, Out.bind_ok]
  rw [finishRaw_ok _ _ _ (by simp [Cursor.Inv])]
  have htb : (⟨payload ++ p.ext.wireBytes, payload.length⟩ : Cursor).toBool = true := by simp [Cursor.toBool]; omega
  simp only [htb, if_true, take_append_len _ _ _ rfl]

/-- non-vacuity of the expressibility predicates: a router advertisement with a source link-layer address option and an
    MTU option, and an MLDv2 report with one record -/
example : (Icmp6.OptsWire
    { Icmp6.create 134 with opts := [⟨1, 6, [2, 0, 0, 0, 0, 1]⟩, ⟨5, 6, [0, 0, 0, 0, 5, 220]⟩], optsSize := 16 } []) := by
  refine ⟨fun _ => ⟨rfl, by decide⟩, fun h => ?_⟩
  simp [Icmp6.hasOptions, Icmp6.create] at h

end Tins.Wire.Icmp
