import TinsModel.Wire.Icmp.Lemmas
/-
  C01 for the RFC 4884 helpers shared by ICMP and ICMPv6: `ICMPExtension`, `ICMPExtensionsStructure` (object loop),
  `validate_extensions` (raw `sum_range` over the candidate area), `try_parse_icmp_extensions` (unchecked `size(new_size)`).
-/
namespace Tins.Wire.Icmp
open Tins Tins.Wire

/-- `ICMPExtension(buffer, total_sz)`: the payload read is guarded by the length test -/
theorem extobj_parse_good (c : Cursor) (h : c.Inv) :
    GoodV (fun e => 4 + e.payload.length ≤ c.size ∧ e.cls < 256 ∧ e.typ < 256 ∧ e.size = Cursor.beNat (c.mem.take 2))
      (ExtObj.parse c) := by
  unfold ExtObj.parse
  refine bind_good (readBE_good c 2 h) (.inr rfl) ?_
  intro len c1 i1 _ ⟨s1, n1, hlen, _⟩
  refine bind_good (readU8_good c1 i1) (.inr rfl) ?_
  intro cls c2 i2 _ ⟨s2, n2, hcls, _⟩
  refine bind_good (readU8_good c2 i2) (.inr rfl) ?_
  intro typ c3 i3 _ ⟨s3, n3, htyp, _⟩
  dsimp only
  by_cases hl : (len < 4 || len - 4 > c3.size) = true
  · rw [if_pos hl]; exact .inr rfl
  · rw [if_neg hl]
    simp only [Bool.or_eq_true, decide_eq_true_eq, not_or, Nat.not_lt, Nat.not_lt] at hl
    refine bind_good (read_good c3 (len - 4) i3) (.inr rfl) ?_
    intro pl c4 _ _ ⟨hpl, _, _, _, _⟩
    refine .inl ⟨_, rfl, ?_, ?_, ?_, ?_⟩
    rotate_left 3
    · simp only [ExtObj.size, hpl, ← hlen]; omega
    · simp only; omega
    · have := beNat_lt (c1.mem.take 1)
      have hl1 : (c1.mem.take 1).length ≤ 1 := by simp only [List.length_take]; omega
      have : 256 ^ (c1.mem.take 1).length ≤ 256 ^ 1 := Nat.pow_le_pow_right (by omega) hl1
      simp only; omega
    · have := beNat_lt (c2.mem.take 1)
      have hl1 : (c2.mem.take 1).length ≤ 1 := by simp only [List.length_take]; omega
      have : 256 ^ (c2.mem.take 1).length ≤ 256 ^ 1 := Nat.pow_le_pow_right (by omega) hl1
      simp only; omega

/-- the object loop: every round consumes at least two bytes, so fuel `size` suffices -/
theorem parseObjs_good (fuel : Nat) (c : Cursor) (h : c.Inv) (hf : c.size ≤ fuel) :
    GoodV (fun es => (es.map ExtObj.size).sum ≤ c.size) (ExtS.parseObjs fuel c) := by
  induction fuel generalizing c with
  | zero =>
    unfold ExtS.parseObjs
    have : c.toBool = false := by simp only [Cursor.toBool]; simp; omega
    simp only [this, Bool.false_eq_true, if_false]
    exact .inl ⟨[], rfl, by simp⟩
  | succ fuel ih =>
    unfold ExtS.parseObjs
    by_cases hb : c.toBool
    · simp only [hb, Bool.not_true, Bool.false_eq_true, if_false]
      refine bind_goodV (extobj_parse_good c h) (.inr rfl) ?_
      intro e ⟨he4, _, _, hes⟩
      refine bind_good (readBE_good c 2 h) (.inr rfl) ?_
      intro size c1 i1 _ ⟨s1, n1, hsz, _⟩
      dsimp only
      rcases skip_good c1 (if size < 2 then size + 18446744073709551616 - 2 else size - 2) i1 with
        ⟨c2, e2, i2, s2, hn2, _⟩ | ⟨e2, _⟩
      · rw [e2, Out.bind_ok]
        refine bind_goodV (ih c2 i2 (by omega)) (.inr rfl) ?_
        intro rest hr
        refine .inl ⟨_, rfl, ?_⟩
        have hse : e.size = size := by rw [hes, hsz]
        have h4 : 4 ≤ e.size := by simp [ExtObj.size]
        have h2 : ¬ size < 2 := by omega
        simp only [h2, if_false] at s2 hn2
        simp only [List.map_cons, List.sum_cons]
        omega
      · rw [e2]; exact .inr rfl
    · simp only [hb, Bool.not_false, if_true]
      exact .inl ⟨[], rfl, by simp⟩

theorem exts_parse_good (c : Cursor) (h : c.Inv) : GoodV (fun s => 4 + (s.exts.map ExtObj.size).sum ≤ c.size) (ExtS.parse c) := by
  unfold ExtS.parse
  refine bind_good (readBE_good c 2 h) (.inr rfl) ?_
  intro vr c1 i1 _ ⟨s1, n1, _⟩
  refine bind_good (readBE_good c1 2 i1) (.inr rfl) ?_
  intro ck c2 i2 _ ⟨s2, n2, _⟩
  dsimp only
  refine bind_goodV (parseObjs_good c2.size c2 i2 (Nat.le_refl _)) (.inr rfl) ?_
  intro exts hsum
  exact .inl ⟨_, rfl, by simp only; omega⟩

/-- `validate_extensions` on an area that lies inside the buffer: the raw `sum_range` stays inside it; never throws -/
theorem validate_ok (mem : Bytes) (sz : Nat) (h : sz ≤ mem.length) : ∃ b, ExtS.validate mem sz = .ok b := by
  unfold ExtS.validate
  by_cases h4 : sz < 4
  · simp only [h4, if_true]; exact ⟨false, rfl⟩
  · simp only [h4, if_false]
    have i0 : (⟨mem, sz⟩ : Cursor).Inv := h
    rcases readLE_good ⟨mem, sz⟩ 2 i0 with ⟨w0, c1, e1, i1, _, s1, _, _, _⟩ | e1
    · rcases readLE_good c1 2 i1 with ⟨ck, c2, e2, _, _, _⟩ | e2
      · have hr : rdN "ICMPExtensionsStructure::validate_extensions sum_range" mem 4 (sz - 4) =
            .ok ((mem.drop 4).take (sz - 4)) := by
          unfold rdN
          have : 4 + (sz - 4) ≤ mem.length := by omega
          simp [this]
        simp only [e1, e2, hr, bind, Out.bind, pure]
        exact ⟨_, rfl⟩
      · exfalso
        have : Cursor.readLE c1 2 ≠ .throw .malformedPacket := by
          rcases Cursor.read_spec c1 2 i1 with ⟨bs, c', he, _⟩ | ⟨_, hlt⟩
          · simp [Cursor.readLE, he, bind, Out.bind]
          · simp only at s1; omega
        exact this e2
    · exfalso
      rcases Cursor.read_spec ⟨mem, sz⟩ 2 i0 with ⟨bs, c', he, _⟩ | ⟨_, hlt⟩
      · simp [Cursor.readLE, he, bind, Out.bind] at e1
      · simp only at hlt; omega

/-- **C01 / `try_parse_icmp_extensions`**: the raw pointer `stream.pointer() + payload_length` is only formed after
    `can_read`, so the candidate area lies inside the buffer, and the unchecked `stream.size(new_size)` only shrinks the
    stream -/
theorem tryParseExt_good (c : Cursor) (pl : Nat) (cur : ExtS) (h : c.Inv) :
    Good (fun s _ => 4 + (s.exts.map ExtObj.size).sum ≤ c.size ∨ s = cur) c (tryParseExt c pl cur) := by
  unfold tryParseExt
  by_cases hb : c.toBool
  · simp only [hb, Bool.not_true, Bool.false_eq_true, if_false]
    generalize hloc : (if (c.canRead pl && decide (pl ≥ 128)) = true then some pl
        else if c.canRead 128 = true then some 128 else none) = located
    cases located with
    | none => exact .inl ⟨cur, c, rfl, h, Nat.le_refl _, .inr rfl⟩
    | some off =>
      have hoff : off ≤ c.size := by
        split at hloc
        · rename_i hc
          simp only [Bool.and_eq_true, Cursor.canRead, decide_eq_true_eq] at hc
          injection hloc with hloc; omega
        · split at hloc
          · rename_i hc
            simp only [Cursor.canRead, decide_eq_true_eq] at hc
            injection hloc with hloc; omega
          · cases hloc
      have hmem : c.size - off ≤ (c.mem.drop off).length := by
        have : c.size ≤ c.mem.length := h
        simp only [List.length_drop]; omega
      rcases validate_ok (c.mem.drop off) (c.size - off) hmem with ⟨v, ev⟩
      simp only [ev, bind, Out.bind]
      cases v with
      | false => exact .inl ⟨cur, c, rfl, h, Nat.le_refl _, .inr rfl⟩
      | true =>
        simp only [if_true]
        have iext : (⟨c.mem.drop off, c.size - off⟩ : Cursor).Inv := hmem
        rcases exts_parse_good ⟨c.mem.drop off, c.size - off⟩ iext with ⟨s, es, hsum⟩ | es
        · simp only [es]
          by_cases he : s.exts.isEmpty
          · simp only [he, if_true]; exact .inl ⟨cur, c, rfl, h, Nat.le_refl _, .inr rfl⟩
          · simp only [he, Bool.false_eq_true, if_false]
            refine .inl ⟨s, _, rfl, ?_, ?_, .inl (by simp only at hsum; omega)⟩
            · have : c.size ≤ c.mem.length := h
              simp only [Cursor.Inv, Cursor.setSize]; omega
            · simp only [Cursor.setSize]; omega
        · simp only [es]; exact .inr rfl
  · simp only [hb, Bool.not_false, if_true]
    exact .inl ⟨cur, c, rfl, h, Nat.le_refl _, .inr rfl⟩

theorem tryParseExtIf_good (allowed : Bool) (c : Cursor) (pl : Nat) (h : c.Inv) :
    Good (fun s _ => 4 + (s.exts.map ExtObj.size).sum ≤ c.size ∨ s = ExtS.default) c (tryParseExtIf allowed c pl) := by
  unfold tryParseExtIf
  split
  · exact tryParseExt_good c pl _ h
  · exact .inl ⟨_, c, rfl, h, Nat.le_refl _, .inr rfl⟩

theorem readIf_good (on : Bool) (n : Nat) (c : Cursor) (h : c.Inv) :
    Good (fun x c' => x.length = n ∧ c'.size + (if on then n else 0) = c.size) c (readIf on n c) := by
  unfold readIf
  cases on with
  | true =>
    simp only [if_true]
    exact (read_good c n h).mono (Nat.le_refl _) (fun a c' _ _ q => ⟨q.1, by have := q.2.1; have := q.2.2.1; omega⟩)
  | false => exact .inl ⟨_, c, rfl, h, Nat.le_refl _, by simp, by simp⟩

end Tins.Wire.Icmp
