import TinsModel.Wire.Icmp.Ext
/- `Tins::ICMP` (src/icmp.cpp, include/tins/icmp.h): 8-byte header, timestamp / address-mask bodies, RFC 4884
   length field, padding and extension structure, checksum. -/
namespace Tins.Wire.Icmp
open Tins

def byteAt (bs : Bytes) (i : Nat) : Nat := (bs.getD i 0).toNat
def slice (h : Bytes) (off n : Nat) : Bytes := (h.drop off).take n
/-- assignment to a struct member: overwrite `bs.length` bytes at `off` -/
def patch (h : Bytes) (off : Nat) (bs : Bytes) : Bytes := h.take off ++ bs ++ h.drop (off + bs.length)
def be16At (h : Bytes) (off : Nat) : Nat := Cursor.beNat (slice h off 2)
def be32At (h : Bytes) (off : Nat) : Nat := Cursor.beNat (slice h off 4)

def natArg (s : String) : Out Nat :=
  match s.toNat? with
  | some n => .ok n
  | none => .throw .stdOther

def hexArg (s : String) : Out Bytes :=
  match parseHexStr s with
  | some b => .ok b
  | none => .throw .stdOther

def hexArgN (s : String) (n : Nat) : Out Bytes :=
  match parseHexStr s with
  | some b => if b.length == n then .ok b else .throw .stdOther
  | none => .throw .stdOther

/-- `mapM` in the `Out` monad, by structural recursion -/
def mapOut {α β} (f : α → Out β) : List α → Out (List β)
  | [] => .ok []
  | a :: as => do
    let b ← f a
    let bs ← mapOut f as
    pure (b :: bs)

structure Icmp4 where
  type : Nat
  code : Nat
  check : Nat        -- checksum(): big-endian value of header_.check
  un : Bytes         -- the 4-byte union `header_.un` as it sits in memory (= on the wire)
  orig : Bytes       -- orig_timestamp_or_address_mask_ (4 wire bytes)
  recv : Bytes       -- recv_timestamp_
  trans : Bytes      -- trans_timestamp_
  ext : ExtS         -- extensions_
deriving Repr, DecidableEq

namespace Icmp4

def isTimestamp (t : Nat) : Bool := t == 13 || t == 14
def isMask (t : Nat) : Bool := t == 17 || t == 18
/-- `are_extensions_allowed()`: DEST_UNREACHABLE, TIME_EXCEEDED, PARAM_PROBLEM -/
def extAllowed (t : Nat) : Bool := t == 3 || t == 11 || t == 12

/-- `length()` = `header_.un.rfc4884.length` -/
def length (p : Icmp4) : Nat := byteAt p.un 1

def hasExt (p : Icmp4) : Bool := !p.ext.exts.isEmpty

/-- the body that follows the 8-byte header, by type -/
def readBody (t : Nat) (c : Cursor) : Out ((Bytes × Bytes × Bytes) × Cursor) :=
  if isTimestamp t then do
    let (o, c) ← c.read 4
    let (r, c) ← c.read 4
    let (x, c) ← c.read 4
    pure ((o, r, x), c)
  else if isMask t then do
    let (o, c) ← c.read 4
    pure ((o, List.replicate 4 0, List.replicate 4 0), c)
  else pure ((List.replicate 4 0, List.replicate 4 0, List.replicate 4 0), c)

/-- `ICMP::ICMP(const uint8_t* buffer, uint32_t total_sz)` -/
def parseHead (b : Bytes) : Out (Icmp4 × Cursor) := do
  let c := Cursor.ofBytes b
  let (t, c) ← c.readU8
  let (code, c) ← c.readU8
  let (check, c) ← c.readBE 2
  let (un, c) ← c.read 4
  let ((orig, recv, trans), c) ← readBody t c
  -- try_parse_extensions(stream)
  let (ext, c) ← tryParseExtIf (extAllowed t) c (byteAt un 1 * 4)
  pure (⟨t, code, check, un, orig, recv, trans, ext⟩, c)

def parse (b : Bytes) : Out (Icmp4 × Inner) := do
  let (p, c) ← parseHead b
  finishRaw "ICMP::ICMP RawPDU" p c

def fields (p : Icmp4) : Fields :=
  [("type", toString p.type), ("code", toString p.code), ("~checksum", toString p.check)] ++
  (if extAllowed p.type then
     [("pointer", toString (byteAt p.un 0)), ("~length", toString p.length), ("mtu", toString (be16At p.un 2))]
   else [("id", toString (be16At p.un 0)), ("sequence", toString (be16At p.un 2)), ("gateway", hexStr p.un)]) ++
  (if isTimestamp p.type then
     [("original_timestamp", toString (Cursor.beNat p.orig)), ("receive_timestamp", toString (Cursor.beNat p.recv)),
      ("transmit_timestamp", toString (Cursor.beNat p.trans))]
   else if isMask p.type then [("address_mask", hexStr p.orig)] else []) ++
  p.ext.fields

/-- `ICMP::header_size()` -/
def hdr (p : Icmp4) : Nat := 8 + (if isTimestamp p.type then 12 else if isMask p.type then 4 else 0)

/-- the inner PDU as `trailer_size()` / `write_serialization` see it: its `size()`.  An inner PDU of size 0 is not
    distinguished from no inner PDU (the interface passes the inner chain's size only). -/
def innerOf (innerSize : Nat) : Option Nat := if innerSize == 0 then none else some innerSize

/-- `ICMP::trailer_size()` -/
def trl (p : Icmp4) (innerSize : Nat) : Nat := extTrailer p.ext (innerOf innerSize) 4

/-- `ICMP::ICMP(Flags flag)` -/
def create (t : Nat) : Icmp4 :=
  ⟨t % 256, 0, 0, List.replicate 4 0, List.replicate 4 0, List.replicate 4 0, List.replicate 4 0, ExtS.default⟩

/-- the value `write_serialization` stores into `header_.un.rfc4884.length` -/
def lengthFor (p : Icmp4) (inner : Option Nat) : Nat :=
  if extAllowed p.type then
    let lv := paddedInner inner 4
    if p.length != 0 || lv > 128 then
      let lv := if lv != 0 then (if p.hasExt then (if lv > 128 then lv else 128) else lv) else 0
      (lv / 4) % 256
    else p.length
  else p.length

/-- the RFC 4884 padding `memset` and `extensions_.serialize(...)` common to ICMP and ICMPv6; `extOff` = offset of
    `extensions_ptr` in the region before the inner PDU is skipped, `bufBase` = what is subtracted from `total_sz` -/
def writeExtPart (site : String) (s : ExtS) (inner : Option Nat) (align extOff bufBase : Nat) (r : Bytes) : Out Bytes := do
  let (r, extOff) ← match inner with
    | none => pure (r, extOff)
    | some sz =>
      let ips := paddedInner inner align
      if ips < 128 then do
        -- memset(extensions_ptr + inner_pdu_size, 0, 128 - inner_pdu_size);
        let r ← poke site r (extOff + ips) (List.replicate (128 - ips) 0)
        pure (r, extOff + 128)
      else do
        -- memset(extensions_ptr + inner_pdu_size, 0, inner_pdu_size - inner_pdu()->size());
        let r ← poke site r (extOff + ips) (List.replicate (ips - sz) 0)
        pure (r, extOff + ips)
  -- extensions_.serialize(extensions_ptr, total_sz - (extensions_ptr - base)): a `uint32_t` parameter, so a pointer
  -- past the end of the region wraps (total_sz itself is a uint32_t)
  let used := extOff - bufBase
  s.write r extOff (if used ≤ r.length then r.length - used else r.length + 4294967296 - used)

/-- `ICMP::write_serialization`, first half: everything written through the `OutputMemoryStream` -/
def writeHead (p : Icmp4) (inner : Option Nat) (region : Bytes) : Out OutCursor := do
  let un1 := patch p.un 1 [UInt8.ofNat (p.lengthFor inner)]
  let o ← (OutCursor.ofRegion region).write
    ([UInt8.ofNat p.type, UInt8.ofNat p.code, 0, 0] ++ un1)          -- header_.check = 0; stream.write(header_)
  if isTimestamp p.type then do
    let o ← o.write p.orig
    let o ← o.write p.recv
    o.write p.trans
  else if isMask p.type then o.write p.orig
  else pure o

/-- second half: RFC 4884 padding, extension structure and checksum through raw pointers -/
def writeTail (p : Icmp4) (inner : Option Nat) (o : OutCursor) : Out Bytes := do
  let r := o.buffer
  let r ← if p.hasExt then
      -- uint8_t* extensions_ptr = stream.pointer(); … total_sz - (extensions_ptr - buffer)
      writeExtPart "ICMP::write_serialization memset" p.ext inner 4 o.done.length 0 r
    else pure r
  -- header_.check = ~Utils::sum_range(buffer, buffer + total_sz); memcpy(buffer + 2, &header_.check, 2);
  poke "ICMP::write_serialization checksum" r 2 (le16 (not16 (sumRange r)))

/-- `ICMP::write_serialization` -/
def write (cx : Ctx) (p : Icmp4) (region : Bytes) : Out Bytes := do
  let inner := innerOf cx.innerSize
  let o ← p.writeHead inner region
  p.writeTail inner o

def setUn (p : Icmp4) (off : Nat) (bs : Bytes) : Icmp4 := { p with un := patch p.un off bs }

def addExt (p : Icmp4) (e : ExtObj) : Icmp4 := { p with ext := { p.ext with exts := p.ext.exts ++ [e] } }

/-- one extension object argument: class, type, payload -/
def extArg (c t h : String) : Out ExtObj := do
  let c ← natArg c; let t ← natArg t; let b ← hexArg h
  pure ⟨c % 256, t % 256, b⟩

def boolArg (s : String) : Out Bool :=
  if s == "1" then .ok true else if s == "0" then .ok false else .throw .stdOther

def apply (p : Icmp4) : List String → Out Icmp4
  | ["type", v] => do let n ← natArg v; pure { p with type := n % 256 }
  | ["code", v] => do let n ← natArg v; pure { p with code := n % 256 }
  | ["id", v] => do let n ← natArg v; pure (p.setUn 0 (OutCursor.beBytes 2 n))
  | ["sequence", v] => do let n ← natArg v; pure (p.setUn 2 (OutCursor.beBytes 2 n))
  | ["gateway", v] => do let b ← hexArgN v 4; pure (p.setUn 0 b)
  | ["mtu", v] => do let n ← natArg v; pure (p.setUn 2 (OutCursor.beBytes 2 n))
  | ["pointer", v] => do let n ← natArg v; pure (p.setUn 0 [UInt8.ofNat n])
  | ["original_timestamp", v] => do let n ← natArg v; pure { p with orig := OutCursor.beBytes 4 n }
  | ["receive_timestamp", v] => do let n ← natArg v; pure { p with recv := OutCursor.beBytes 4 n }
  | ["transmit_timestamp", v] => do let n ← natArg v; pure { p with trans := OutCursor.beBytes 4 n }
  | ["address_mask", v] => do let b ← hexArgN v 4; pure { p with orig := b }
  | ["use_length_field", v] => do let b ← boolArg v; pure (p.setUn 1 [if b then 1 else 0])
  | ["set_echo_request", i, s] => do
    let i ← natArg i; let s ← natArg s
    pure (({ p with type := 8 }.setUn 0 (OutCursor.beBytes 2 i)).setUn 2 (OutCursor.beBytes 2 s))
  | ["set_echo_reply", i, s] => do
    let i ← natArg i; let s ← natArg s
    pure (({ p with type := 0 }.setUn 0 (OutCursor.beBytes 2 i)).setUn 2 (OutCursor.beBytes 2 s))
  | ["set_info_request", i, s] => do
    let i ← natArg i; let s ← natArg s
    pure (({ p with type := 15, code := 0 }.setUn 0 (OutCursor.beBytes 2 i)).setUn 2 (OutCursor.beBytes 2 s))
  | ["set_info_reply", i, s] => do
    let i ← natArg i; let s ← natArg s
    pure (({ p with type := 16, code := 0 }.setUn 0 (OutCursor.beBytes 2 i)).setUn 2 (OutCursor.beBytes 2 s))
  | ["set_dest_unreachable"] => pure { p with type := 3 }
  | ["set_time_exceeded", v] => do let b ← boolArg v; pure { p with type := 11, code := if b then 0 else 1 }
  | ["set_param_problem", sp, bad] => do
    let sp ← boolArg sp; let bad ← natArg bad
    if sp then pure ({ p with type := 12, code := 0 }.setUn 0 [UInt8.ofNat bad])
    else pure { p with type := 12, code := 1 }
  | ["set_source_quench"] => pure { p with type := 4 }
  | ["set_redirect", c, a] => do
    let c ← natArg c; let a ← hexArgN a 4
    pure ({ p with type := 5, code := c % 256 }.setUn 0 a)
  | ["add_extension", c, t, h] => do let e ← extArg c t h; pure (p.addExt e)
  | ["ext_version", v] => do let n ← natArg v; pure { p with ext := { p.ext with vr := p.ext.vr % 4096 + (n % 16) * 4096 } }
  | ["ext_reserved", v] => do let n ← natArg v; pure { p with ext := { p.ext with vr := p.ext.vr / 4096 % 16 * 4096 + n % 4096 } }
  | _ => .throw .stdOther

def make : List String → Out Icmp4
  | [] => .ok (create 8)
  | [t] => do let n ← natArg t; pure (create n)
  | _ => .throw .stdOther

end Icmp4
end Tins.Wire.Icmp
