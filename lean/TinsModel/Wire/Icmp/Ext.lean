import TinsModel.Wire.Iface
import TinsModel.Wire.Checksum
/-
  `Tins::ICMPExtension`, `Tins::ICMPExtensionsStructure` (src/icmp_extension.cpp) and the RFC 4884 helpers
  `Internals::get_padded_icmp_inner_pdu_size`, `Internals::try_parse_icmp_extensions`
  (src/detail/icmp_extension_helpers.cpp), shared by ICMP and ICMPv6.
-/
namespace Tins.Wire.Icmp
open Tins

/-- `ICMPExtension`: class, type, payload -/
structure ExtObj where
  cls : Nat
  typ : Nat
  payload : Bytes
deriving Repr, DecidableEq

/-- `ICMPExtensionsStructure`: `version_and_reserved_` and `checksum_` as the big-endian value of their two wire bytes
    (the members hold the wire bytes), and the extension objects -/
structure ExtS where
  vr : Nat
  ck : Nat
  exts : List ExtObj
deriving Repr, DecidableEq

namespace ExtObj

/-- `ICMPExtension::size()` -/
def size (e : ExtObj) : Nat := 4 + e.payload.length

/-- `ICMPExtension::ICMPExtension(const uint8_t* buffer, uint32_t total_sz)` on a stream positioned at the object -/
def parse (c : Cursor) : Out ExtObj := do
  let (len, c) ← c.readBE 2
  let (cls, c) ← c.readU8
  let (typ, c) ← c.readU8
  -- if (length < BASE_HEADER_SIZE || length - BASE_HEADER_SIZE > stream.size()) throw malformed_packet();
  if len < 4 || len - 4 > c.size then .throw .malformedPacket else
  let (pl, _) ← c.read (len - 4)
  pure ⟨cls, typ, pl⟩

/-- what `ICMPExtension::serialize` writes: `write_be<uint16_t>(size())`, class, type, payload -/
def bytes (e : ExtObj) : Bytes :=
  OutCursor.beBytes 2 e.size ++ [UInt8.ofNat e.cls, UInt8.ofNat e.typ] ++ e.payload

/-- `ICMPExtension::serialize(buffer, buffer_size)` through its own `OutputMemoryStream` -/
def write (e : ExtObj) (o : OutCursor) : Out OutCursor := do
  let o ← o.writeBE 2 e.size
  let o ← o.write [UInt8.ofNat e.cls]
  let o ← o.write [UInt8.ofNat e.typ]
  o.write e.payload

end ExtObj

namespace ExtS

/-- `ICMPExtensionsStructure::ICMPExtensionsStructure()`: version 2 -/
def default : ExtS := ⟨8192, 0, []⟩

def version (s : ExtS) : Nat := s.vr / 4096 % 16
def reserved (s : ExtS) : Nat := s.vr % 4096

/-- `ICMPExtensionsStructure::size()` (`uint32_t` accumulator) -/
def size (s : ExtS) : Nat := s.exts.foldl (fun acc e => (acc + e.size) % 4294967296) 4

/-- the `while (stream)` loop of the parsing constructor; every round consumes at least four bytes -/
def parseObjs : Nat → Cursor → Out (List ExtObj)
  | 0, c => if c.toBool then .fault "ICMPExtensionsStructure: out of fuel" else .ok []
  | fuel + 1, c =>
    if !c.toBool then .ok [] else do
    -- extensions_.push_back(ICMPExtension(stream.pointer(), stream.size()));
    let e ← ExtObj.parse c
    let (size, c) ← c.readBE 2
    -- stream.skip(size - sizeof(uint16_t));   (size_t arithmetic)
    let c ← c.skip (if size < 2 then size + 18446744073709551616 - 2 else size - 2)
    let rest ← parseObjs fuel c
    pure (e :: rest)

/-- `ICMPExtensionsStructure::ICMPExtensionsStructure(const uint8_t* buffer, uint32_t total_sz)` -/
def parse (c : Cursor) : Out ExtS := do
  let (vr, c) ← c.readBE 2
  let (ck, c) ← c.readBE 2
  let exts ← parseObjs c.size c
  pure ⟨vr, ck, exts⟩

/-- `ICMPExtensionsStructure::validate_extensions(buffer, total_sz)` on the memory `mem` that exists from `buffer` on -/
def validate (mem : Bytes) (totalSz : Nat) : Out Bool := do
  if totalSz < 4 then pure false else
  let c : Cursor := ⟨mem, totalSz⟩
  let (w0, c) ← c.readLE 2                 -- uint32_t actual_checksum = input.read<uint16_t>();
  let (ck, _) ← c.readLE 2                 -- uint16_t checksum = input.read<uint16_t>();
  -- actual_checksum += Utils::sum_range(buffer + 4, buffer + total_sz);   (raw pointers)
  let body ← rdN "ICMPExtensionsStructure::validate_extensions sum_range" mem 4 (totalSz - 4)
  let actual := fold16 (w0 + sumRange body)   -- the carry of the addition is folded back (RFC 1071)
  pure (ck == not16 actual)

/-- the bytes `serialize` produces before the checksum is patched in -/
def bodyBytes (s : ExtS) : Bytes :=
  OutCursor.beBytes 2 s.vr ++ [0, 0] ++ (s.exts.map ExtObj.bytes).flatten

def writeObjs (o : OutCursor) : List ExtObj → Out OutCursor
  | [] => .ok o
  | e :: es => do
    -- iter->serialize(stream.pointer(), stream.size()); stream.skip(iter->size());
    let o' ← e.write ⟨[], o.rest, o.size⟩
    let o ← (⟨o.done, o'.done ++ o'.rest, o.size⟩ : OutCursor).skip e.size
    writeObjs o es

/-- `ICMPExtensionsStructure::serialize(buffer, buffer_size)` where `buffer = region + off`; returns the region -/
def write (s : ExtS) (region : Bytes) (off bufSize : Nat) : Out Bytes := do
  let o : OutCursor := ⟨region.take off, region.drop off, bufSize⟩
  let o ← o.writeBE 2 s.vr
  let o ← o.write [0, 0]
  let o ← writeObjs o s.exts
  let r := o.buffer
  -- uint16_t checksum = ~Utils::sum_range(original_ptr, original_ptr + size());
  let own ← rdN "ICMPExtensionsStructure::serialize sum_range" r off s.size
  poke "ICMPExtensionsStructure::serialize checksum" r (off + 2) (le16 (not16 (sumRange own)))

def extsStr (es : List ExtObj) : String :=
  if es.isEmpty then "-" else ",".intercalate (es.map (fun e => s!"{e.cls}:{e.typ}:{hexStr e.payload}"))

/-- the dump of the structure's getters -/
def fields (s : ExtS) : Fields :=
  [("ext_version", toString s.version), ("ext_reserved", toString s.reserved), ("exts", extsStr s.exts)]

end ExtS

/-- `Internals::get_padded_icmp_inner_pdu_size(inner_pdu, pad_alignment)`; `inner = none` when there is no inner PDU -/
def paddedInner (inner : Option Nat) (align : Nat) : Nat :=
  match inner with
  | none => 0
  | some sz =>
    let padding := sz % align
    if padding != 0 then sz - padding + align else sz

/-- `trailer_size()` of ICMP and ICMPv6 -/
def extTrailer (s : ExtS) (inner : Option Nat) (align : Nat) : Nat :=
  if s.exts.isEmpty then 0 else
  match inner with
  | none => s.size
  | some sz =>
    let adj := paddedInner inner align
    let upper := if adj > 128 then adj else 128
    s.size + (upper - sz)

/-- `Internals::try_parse_icmp_extensions(stream, payload_length, extensions)`: the (possibly replaced) extension
    structure and the (possibly shortened) stream -/
def tryParseExt (c : Cursor) (payloadLength : Nat) (cur : ExtS) : Out (ExtS × Cursor) := do
  if !c.toBool then pure (cur, c) else
  let located : Option Nat :=
    if c.canRead payloadLength && payloadLength >= 128 then some payloadLength
    else if c.canRead 128 then some 128
    else none
  match located with
  | none => pure (cur, c)
  | some off =>
    -- extensions_ptr = stream.pointer() + off; extensions_size = stream.size() - off;
    let extMem := c.mem.drop off
    let extSize := c.size - off
    let valid ← ExtS.validate extMem extSize
    if valid then do
      let s ← ExtS.parse ⟨extMem, extSize⟩
      -- a structure without objects stays part of the payload
      if s.exts.isEmpty then pure (cur, c) else pure (s, c.setSize (c.size - extSize))
    else pure (cur, c)

/-- `try_parse_extensions(stream)`: only for the types RFC 4884 extends -/
def tryParseExtIf (allowed : Bool) (c : Cursor) (payloadLength : Nat) : Out (ExtS × Cursor) :=
  if allowed then tryParseExt c payloadLength ExtS.default else pure (ExtS.default, c)

/-- a member that is only on the wire for some types: read `n` bytes, or keep the zero-initialised value -/
def readIf (on : Bool) (n : Nat) (c : Cursor) : Out (Bytes × Cursor) :=
  if on then c.read n else pure (List.replicate n 0, c)

/-- the end of the parsing constructors: `if (stream) inner_pdu(new RawPDU(stream.pointer(), stream.size()));` -/
def finishRaw {α} (site : String) (p : α) (c : Cursor) : Out (α × Inner) :=
  if c.toBool then do
    let rest ← Cursor.rest site c
    pure (p, .raw rest)
  else pure (p, .none)

end Tins.Wire.Icmp
