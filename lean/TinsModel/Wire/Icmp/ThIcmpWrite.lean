import TinsModel.Wire.Icmp.ThIcmp
import TinsModel.Wire.Icmp.ThExtWrite
/-
  C02 for ICMP: `header_size()` / `trailer_size()` are exactly what `write_serialization` writes in front of and behind
  the inner PDU, for every object satisfying the invariant (parsed or built through the API).
-/
namespace Tins.Wire.Icmp
open Tins Tins.Wire

/-- the `uint32_t` size of the extension structure does not wrap (a structure of 4 GiB cannot be serialized) -/
def Icmp4.Ser (p : Icmp4) : Prop := p.ext.plainSize < 4294967296

/-- the `LayerSem` the registry builds for an ICMP object in context `cx` -/
def icmp4Sem (cx : Ctx) (p : Icmp4) : LayerSem :=
  { name := "ICMP", hdr := p.hdr, trl := p.trl cx.innerSize, write := p.write cx }

/-- timestamps / address mask as written after the 8-byte header -/
def Icmp4.bodyBytes (p : Icmp4) : Bytes :=
  if Icmp4.isTimestamp p.type then p.orig ++ p.recv ++ p.trans else if Icmp4.isMask p.type then p.orig else []

/-- the `header_size()` bytes as written (checksum still zero) -/
def Icmp4.headBytes (p : Icmp4) (inner : Option Nat) : Bytes :=
  [UInt8.ofNat p.type, UInt8.ofNat p.code, 0, 0] ++ patch p.un 1 [UInt8.ofNat (p.lengthFor inner)] ++ p.bodyBytes

theorem icmp_headBytes_length (p : Icmp4) (hi : p.Inv) (inner : Option Nat) : (p.headBytes inner).length = p.hdr := by
  have hp : (patch p.un 1 [UInt8.ofNat (p.lengthFor inner)]).length = 4 := by
    rw [patch_length _ _ _ (by simp [hi.un])]; exact hi.un
  unfold Icmp4.headBytes Icmp4.bodyBytes Icmp4.hdr
  split
  · simp only [List.length_append, List.length_cons, List.length_nil, hp, hi.orig, hi.recv, hi.trans]
  · split
    · simp only [List.length_append, List.length_cons, List.length_nil, hp, hi.orig]
    · simp only [List.length_append, List.length_cons, List.length_nil, hp]

theorem window_prefix_replaced (hb region : Bytes) (a n : Nat) (h : hb.length ≤ a) :
    window (hb ++ region.drop hb.length) a n = window region a n := by
  unfold window
  rw [drop_prefix_replaced hb region a h]

/-- the stream half of `write_serialization` emits exactly the `header_size()` bytes -/
theorem icmp_writeHead_eq (p : Icmp4) (hi : p.Inv) (inner : Option Nat) (region : Bytes) (hr : p.hdr ≤ region.length) :
    p.writeHead inner region = .ok (emit (OutCursor.ofRegion region) (p.headBytes inner)) := by
  have hp : (patch p.un 1 [UInt8.ofNat (p.lengthFor inner)]).length = 4 := by
    rw [patch_length _ _ _ (by simp [hi.un])]; exact hi.un
  have hh8 : 8 ≤ p.hdr := by unfold Icmp4.hdr; omega
  unfold Icmp4.writeHead
  dsimp only
  rw [write_emit _ _ (by simp [OutCursor.ofRegion, hp]; omega) (by simp [OutCursor.ofRegion, hp]; omega)]
  simp only [Out.bind_ok]
  unfold Icmp4.headBytes Icmp4.bodyBytes
  by_cases ht : Icmp4.isTimestamp p.type
  · have hh : p.hdr = 20 := by simp [Icmp4.hdr, ht]
    simp only [ht, if_true]
    rw [write_emit _ p.orig (by simp [OutCursor.ofRegion, hp, hi.orig]; omega) (by simp [OutCursor.ofRegion, hp, hi.orig]; omega)]
    simp only [Out.bind_ok]
    rw [write_emit _ p.recv (by simp [OutCursor.ofRegion, hp, hi.orig, hi.recv]; omega)
      (by simp [OutCursor.ofRegion, hp, hi.orig, hi.recv]; omega)]
    simp only [Out.bind_ok]
    rw [write_emit _ p.trans (by simp [OutCursor.ofRegion, hp, hi.orig, hi.recv, hi.trans]; omega)
      (by simp [OutCursor.ofRegion, hp, hi.orig, hi.recv, hi.trans]; omega)]
    simp only [emit_emit, List.append_assoc]
  · simp only [ht, Bool.false_eq_true, if_false]
    by_cases hm : Icmp4.isMask p.type
    · have hh : p.hdr = 12 := by simp [Icmp4.hdr, ht, hm]
      simp only [hm, if_true]
      rw [write_emit _ p.orig (by simp [OutCursor.ofRegion, hp, hi.orig]; omega) (by simp [OutCursor.ofRegion, hp, hi.orig]; omega)]
      simp only [emit_emit, List.append_assoc]
    · simp only [hm, Bool.false_eq_true, if_false, Out.pure_eq, List.append_nil]

/-- **C02 / ICMP**: on the region `PDU::serialize` hands out, `write_serialization` succeeds, keeps the length and leaves
    the inner PDU's bytes untouched — for every type (timestamp and address mask bodies included) and every extension list -/
theorem icmp_writesOnlyAt (cx : Ctx) (p : Icmp4) (hi : p.Inv) (hs : p.Ser) : WritesOnlyAt (icmp4Sem cx p) cx.innerSize := by
  intro region hr
  simp only [icmp4Sem] at hr ⊢
  have hhl := icmp_headBytes_length p hi (Icmp4.innerOf cx.innerSize)
  have hgetD : (Icmp4.innerOf cx.innerSize).getD 0 = cx.innerSize := by
    unfold Icmp4.innerOf; split
    · rename_i h; simp only [beq_iff_eq] at h; simp [h]
    · rfl
  unfold Icmp4.write
  dsimp only
  rw [icmp_writeHead_eq p hi _ region (by omega)]
  simp only [Out.bind_ok]
  generalize p.headBytes (Icmp4.innerOf cx.innerSize) = hb at hhl
  unfold Icmp4.writeTail
  dsimp only
  have hbuf : (emit (OutCursor.ofRegion region) hb).buffer = hb ++ region.drop hb.length := emit_ofRegion_buffer region hb
  have hdone : (emit (OutCursor.ofRegion region) hb).done.length = p.hdr := by simp [OutCursor.ofRegion, hhl]
  have hrl : (hb ++ region.drop hb.length).length = region.length := length_prefix_replaced hb region (by omega)
  have h4 : 4 ≤ p.hdr := by unfold Icmp4.hdr; omega
  rw [hbuf, hdone]
  by_cases he : p.hasExt
  · simp only [he, if_true]
    have hne : p.ext.exts.isEmpty = false := by simpa [Icmp4.hasExt] using he
    rcases writeExtPart_window "ICMP::write_serialization memset" p.ext (Icmp4.innerOf cx.innerSize) 4 p.hdr 0
        (hb ++ region.drop hb.length) hs hne (.inl rfl) (Nat.zero_le _)
        (by rw [hrl, hr, hgetD]; simp only [Icmp4.trl]) with ⟨r1, e1, l1, w1⟩
    rw [e1]
    simp only [Out.bind_ok]
    rcases poke_window "ICMP::write_serialization checksum" r1 (le16 (not16 (sumRange r1))) 2 p.hdr cx.innerSize
        (by simp only [le16_length]; omega) (by left; simp only [le16_length]; omega) with ⟨out, e2, l2, w2⟩
    refine ⟨out, e2, by omega, ?_⟩
    rw [innerOf_eq_window, innerOf_eq_window]
    simp only
    have hn : out.length - (p.hdr + p.trl cx.innerSize) = cx.innerSize := by omega
    have hn' : region.length - (p.hdr + p.trl cx.innerSize) = cx.innerSize := by omega
    rw [hn, hn', w2, w1 p.hdr cx.innerSize (by rw [hgetD]; exact Nat.le_refl _), window_prefix_replaced hb region _ _ (by omega)]
  · simp only [he, Bool.false_eq_true, if_false, Out.pure_eq, Out.bind_ok]
    rcases poke_window "ICMP::write_serialization checksum" (hb ++ region.drop hb.length)
        (le16 (not16 (sumRange (hb ++ region.drop hb.length)))) 2 p.hdr cx.innerSize
        (by simp only [le16_length]; omega) (by left; simp only [le16_length]; omega) with ⟨out, e2, l2, w2⟩
    refine ⟨out, e2, by omega, ?_⟩
    rw [innerOf_eq_window, innerOf_eq_window]
    simp only
    have htr : p.trl cx.innerSize = 0 := by
      have : p.ext.exts.isEmpty = true := by simpa [Icmp4.hasExt] using he
      simp [Icmp4.trl, extTrailer, this]
    have hn : out.length - (p.hdr + p.trl cx.innerSize) = cx.innerSize := by omega
    have hn' : region.length - (p.hdr + p.trl cx.innerSize) = cx.innerSize := by omega
    rw [hn, hn', w2, window_prefix_replaced hb region _ _ (by omega)]

end Tins.Wire.Icmp
