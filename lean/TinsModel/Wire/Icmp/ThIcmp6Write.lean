import TinsModel.Wire.Icmp.ThIcmp6
import TinsModel.Wire.Icmp.ThIcmpWrite
/-
  C02 for ICMPv6: the cached `options_size_`, the record sizes and the MLD query sizes that `header_size()` adds up are
  exactly the bytes `write_serialization` emits in front of the inner PDU; the RFC 4884 trailer stays behind it.
-/
namespace Tins.Wire.Icmp
open Tins Tins.Wire

/-- none of the `uint32_t` size computations wraps (such a packet cannot be serialized: `size()` is a `uint32_t`) -/
def Icmp6.Ser (p : Icmp6) : Prop :=
  8 + Icmp6.wireSum p.opts + p.extra + (if Icmp6.hasTarget p.type then 16 else 0) + (if Icmp6.hasDest p.type then 16 else 0)
      < 4294967296 ∧ p.ext.plainSize < 4294967296

def icmp6Sem (cx : Ctx) (p : Icmp6) : LayerSem :=
  { name := "ICMPv6", hdr := p.hdr, trl := p.trl cx.innerSize, write := p.write cx }

theorem flatten_length_16 (l : List Bytes) (h : ∀ s ∈ l, s.length = 16) : l.flatten.length = 16 * l.length := by
  induction l with
  | nil => rfl
  | cons a as ih =>
    simp only [List.flatten_cons, List.length_append, List.length_cons]
    rw [h a List.mem_cons_self, ih (fun s hs => h s (List.mem_cons_of_mem _ hs))]
    omega

theorem writeAddrs_emit (l : List Bytes) (o : OutCursor) (h1 : l.flatten.length ≤ o.size) (h2 : l.flatten.length ≤ o.rest.length) :
    McastRec.writeAddrs o l = .ok (emit o l.flatten) := by
  induction l generalizing o with
  | nil => simp [McastRec.writeAddrs, emit_nil]
  | cons a as ih =>
    simp only [List.flatten_cons, List.length_append] at h1 h2
    unfold McastRec.writeAddrs
    rw [write_emit o a (by omega) (by omega)]
    simp only [Out.bind_ok]
    rw [ih (emit o a) (by simp only [emit_size]; omega) (by simp only [emit_rest, List.length_drop]; omega)]
    simp only [emit_emit, List.flatten_cons]

theorem mcastrec_bytes_length (r : McastRec) (hw : r.WF) : r.bytes.length = r.size := by
  simp only [McastRec.bytes, McastRec.size, List.length_append, List.length_cons, List.length_nil,
    OutCursor.beBytes_length, hw.addr, flatten_length_16 _ hw.srcs]
  omega

theorem mcastrec_write_emit (r : McastRec) (hw : r.WF) (o : OutCursor) (h1 : r.size ≤ o.size) (h2 : r.size ≤ o.rest.length) :
    r.write o = .ok (emit o r.bytes) := by
  have hf := flatten_length_16 _ hw.srcs
  have ha := hw.addr
  unfold McastRec.write
  simp only [McastRec.size] at h1 h2
  rw [write_emit o _ (by simp; omega) (by simp; omega)]
  simp only [Out.bind_ok]
  rw [write_emit _ [UInt8.ofNat (r.aux.length / 4)] (by simp; omega) (by simp; omega)]
  simp only [Out.bind_ok]
  rw [writeBE_emit _ 2 _ (by simp; omega) (by simp; omega)]
  simp only [Out.bind_ok]
  rw [write_emit _ r.addr (by simp [ha]; omega) (by simp [ha]; omega)]
  simp only [Out.bind_ok]
  rw [writeAddrs_emit r.sources _ (by simp [ha, hf]; omega) (by simp [ha, hf]; omega)]
  simp only [Out.bind_ok]
  rw [write_emit _ r.aux (by simp [ha, hf]; omega) (by simp [ha, hf]; omega)]
  simp only [emit_emit, McastRec.bytes, List.append_assoc, List.cons_append, List.nil_append]

def Icmp6.recordsBytes (rs : List McastRec) : Bytes := (rs.map McastRec.bytes).flatten

theorem recordsBytes_length (rs : List McastRec) (h : ∀ r ∈ rs, r.WF) :
    (Icmp6.recordsBytes rs).length = (rs.map McastRec.size).sum := by
  induction rs with
  | nil => rfl
  | cons r rs ih =>
    simp only [Icmp6.recordsBytes, List.map_cons, List.flatten_cons, List.length_append, List.sum_cons,
      mcastrec_bytes_length r (h r List.mem_cons_self)]
    have := ih (fun x hx => h x (List.mem_cons_of_mem _ hx))
    simp only [Icmp6.recordsBytes] at this
    rw [this]

theorem writeRecords_emit (rs : List McastRec) (h : ∀ r ∈ rs, r.WF) (o : OutCursor)
    (h1 : (rs.map McastRec.size).sum ≤ o.size) (h2 : (rs.map McastRec.size).sum ≤ o.rest.length) :
    Icmp6.writeRecords o rs = .ok (emit o (Icmp6.recordsBytes rs)) := by
  induction rs generalizing o with
  | nil => simp [Icmp6.writeRecords, Icmp6.recordsBytes, emit_nil]
  | cons r rs ih =>
    simp only [List.map_cons, List.sum_cons] at h1 h2
    have hw := h r List.mem_cons_self
    have hl := mcastrec_bytes_length r hw
    unfold Icmp6.writeRecords
    rw [mcastrec_write_emit r hw ⟨[], o.rest, o.size⟩ (by simp only; omega) (by simp only; omega)]
    simp only [Out.bind_ok, emit_done, emit_rest, List.nil_append]
    rw [skip_emit _ r.size (by simp only; omega) (by simp only [List.length_append, List.length_drop, hl]; omega)]
    simp only [Out.bind_ok]
    have hemit : emit ⟨o.done, r.bytes ++ List.drop r.bytes.length o.rest, o.size⟩
        (List.take r.size (r.bytes ++ List.drop r.bytes.length o.rest)) = emit o r.bytes := by
      have ht : List.take r.size (r.bytes ++ List.drop r.bytes.length o.rest) = r.bytes := take_append_len _ _ _ hl
      rw [ht]
      simp only [emit, OutCursor.mk.injEq, true_and, and_true]
      exact drop_append_len _ _ _ rfl
    rw [hemit]
    rw [ih (fun x hx => h x (List.mem_cons_of_mem _ hx)) (emit o r.bytes) (by simp only [emit_size, hl]; omega)
      (by simp only [emit_rest, List.length_drop, hl]; omega)]
    simp only [emit_emit, Icmp6.recordsBytes, List.map_cons, List.flatten_cons]

def Icmp6.optsBytes (os : List Opt) : Bytes := (os.map Icmp6.optBytes).flatten

theorem optBytes_length (o : Opt) : (Icmp6.optBytes o).length = Icmp6.optWire o := by
  simp [Icmp6.optBytes, Icmp6.optWire]

/-- **`options_size_` is exact**: the bytes the option loop of the writer emits are Σ (data size + 2) -/
theorem optsBytes_length (os : List Opt) : (Icmp6.optsBytes os).length = Icmp6.wireSum os := by
  induction os with
  | nil => rfl
  | cons o os ih =>
    simp only [Icmp6.optsBytes, List.map_cons, List.flatten_cons, List.length_append, optBytes_length, Icmp6.wireSum]
    simp only [Icmp6.optsBytes] at ih
    rw [ih]

theorem writeOpts_emit (os : List Opt) (o : OutCursor) (h1 : Icmp6.wireSum os ≤ o.size) (h2 : Icmp6.wireSum os ≤ o.rest.length) :
    Icmp6.writeOpts o os = .ok (emit o (Icmp6.optsBytes os)) := by
  induction os generalizing o with
  | nil => simp [Icmp6.writeOpts, Icmp6.optsBytes, emit_nil]
  | cons x xs ih =>
    simp only [Icmp6.wireSum, Icmp6.optWire] at h1 h2
    unfold Icmp6.writeOpts
    rw [write_emit o _ (by simp; omega) (by simp; omega)]
    simp only [Out.bind_ok]
    rw [write_emit _ [UInt8.ofNat ((x.lenField + 2) / 8)] (by simp; omega) (by simp; omega)]
    simp only [Out.bind_ok]
    rw [write_emit _ x.data (by simp; omega) (by simp; omega)]
    simp only [Out.bind_ok]
    rw [ih _ (by simp; omega) (by simp; omega)]
    simp only [emit_emit, Icmp6.optsBytes, List.map_cons, List.flatten_cons, Icmp6.optBytes,
      List.cons_append, List.nil_append]

/-- what `writeBody` emits -/
def Icmp6.bodyBytes (p : Icmp6) : Bytes :=
  if p.type == 134 then p.reach ++ p.retrans
  else if p.type == 143 then Icmp6.recordsBytes p.records
  else if p.type == 130 then
    p.mcast ++ (if p.useMldv2 then p.mlqm ++ OutCursor.beBytes 2 p.sources.length ++ p.sources.flatten else [])
  else []

theorem bodyBytes_length (p : Icmp6) (hi : p.Inv) : p.bodyBytes.length = p.extra := by
  unfold Icmp6.bodyBytes Icmp6.extra
  split
  · simp only [List.length_append, hi.reach, hi.retrans]
  · split
    · exact recordsBytes_length _ hi.records
    · split
      · split
        · simp only [List.length_append, hi.mcast, hi.mlqm, OutCursor.beBytes_length, flatten_length_16 _ hi.sources]
        · simp only [List.length_append, hi.mcast, List.length_nil]
      · rfl

theorem writeBody_emit (p : Icmp6) (hi : p.Inv) (o : OutCursor) (h1 : p.extra ≤ o.size) (h2 : p.extra ≤ o.rest.length) :
    p.writeBody o = .ok (emit o p.bodyBytes) := by
  have hl := bodyBytes_length p hi
  unfold Icmp6.writeBody
  unfold Icmp6.bodyBytes Icmp6.extra at *
  by_cases h134 : (p.type == 134) = true
  · simp only [h134, if_true] at hl h1 h2 ⊢
    have := hi.reach; have := hi.retrans
    rw [write_emit o p.reach (by omega) (by omega)]
    simp only [Out.bind_ok]
    rw [write_emit _ p.retrans (by simp; omega) (by simp; omega)]
    simp only [emit_emit]
  · simp only [h134, Bool.false_eq_true, if_false] at hl h1 h2 ⊢
    by_cases h143 : (p.type == 143) = true
    · simp only [h143, if_true] at hl h1 h2 ⊢
      exact writeRecords_emit _ hi.records o h1 h2
    · simp only [h143, Bool.false_eq_true, if_false] at hl h1 h2 ⊢
      by_cases h130 : (p.type == 130) = true
      · simp only [h130, if_true] at hl h1 h2 ⊢
        have hm := hi.mcast
        have hq := hi.mlqm
        have hf := flatten_length_16 _ hi.sources
        by_cases hv : p.useMldv2 = true
        · simp only [hv, if_true] at hl h1 h2 ⊢
          rw [write_emit o p.mcast (by omega) (by omega)]
          simp only [Out.bind_ok]
          rw [write_emit _ p.mlqm (by simp only [emit_size]; omega) (by simp only [emit_rest, List.length_drop]; omega)]
          simp only [Out.bind_ok]
          rw [writeBE_emit _ 2 _ (by simp only [emit_size]; omega) (by simp only [emit_rest, List.length_drop]; omega)]
          simp only [Out.bind_ok]
          rw [writeAddrs_emit _ _ (by simp only [emit_size, OutCursor.beBytes_length]; omega)
            (by simp only [emit_rest, List.length_drop, OutCursor.beBytes_length]; omega)]
          simp only [emit_emit, List.append_assoc]
        · simp only [hv, Bool.false_eq_true, if_false] at hl h1 h2 ⊢
          rw [write_emit o p.mcast (by omega) (by omega)]
          simp only [Out.bind_ok, Out.pure_eq, List.append_nil]
      · simp only [h130, Bool.false_eq_true, if_false, Out.pure_eq, emit_nil]

theorem writeIf_emit (on : Bool) (o : OutCursor) (bs : Bytes) (h1 : (if on then bs else []).length ≤ o.size)
    (h2 : (if on then bs else []).length ≤ o.rest.length) :
    Icmp6.writeIf on o bs = .ok (emit o (if on then bs else [])) := by
  unfold Icmp6.writeIf
  cases on with
  | true => simp only [if_true] at h1 h2 ⊢; exact write_emit o bs h1 h2
  | false => simp [emit_nil]

/-- the union as written: derived length octet, derived MLDv2 record count -/
def Icmp6.unBytes (p : Icmp6) (inner : Option Nat) : Bytes :=
  if p.type == 143 then patch (patch p.un 0 [UInt8.ofNat (p.lengthFor inner)]) 2 (OutCursor.beBytes 2 p.records.length)
  else patch p.un 0 [UInt8.ofNat (p.lengthFor inner)]

/-- the `header_size()` bytes as written (checksum still zero) -/
def Icmp6.headBytes (p : Icmp6) (inner : Option Nat) : Bytes :=
  [UInt8.ofNat p.type, UInt8.ofNat p.code, 0, 0] ++ p.unBytes inner ++ (if Icmp6.hasTarget p.type then p.target else []) ++
    (if Icmp6.hasDest p.type then p.dest else []) ++ p.bodyBytes ++ Icmp6.optsBytes p.opts

theorem unBytes_length (p : Icmp6) (hi : p.Inv) (inner : Option Nat) : (p.unBytes inner).length = 4 := by
  have h1 : (patch p.un 0 [UInt8.ofNat (p.lengthFor inner)]).length = 4 := by
    rw [patch_length _ _ _ (by simp [hi.un])]; exact hi.un
  unfold Icmp6.unBytes
  split
  · rw [patch_length _ _ _ (by simp [h1])]; exact h1
  · exact h1

theorem icmp6_hdr_eq (p : Icmp6) (hi : p.Inv) (hs : p.Ser) :
    p.hdr = 8 + Icmp6.wireSum p.opts + p.extra + (if Icmp6.hasTarget p.type then 16 else 0) + (if Icmp6.hasDest p.type then 16 else 0) := by
  have h1 := hs.1
  have hw : Icmp6.wireSum p.opts % 4294967296 = Icmp6.wireSum p.opts := Nat.mod_eq_of_lt (by omega)
  unfold Icmp6.hdr
  rw [hi.optsSize, hw]
  exact Nat.mod_eq_of_lt h1

theorem icmp6_headBytes_length (p : Icmp6) (hi : p.Inv) (hs : p.Ser) (inner : Option Nat) :
    (p.headBytes inner).length = p.hdr := by
  rw [icmp6_hdr_eq p hi hs]
  simp only [Icmp6.headBytes, List.length_append, List.length_cons, List.length_nil, unBytes_length p hi inner,
    bodyBytes_length p hi, optsBytes_length]
  have := hi.target; have := hi.dest
  split <;> split <;> (try simp only [List.length_nil]) <;> omega

/-- the stream half of `write_serialization` emits exactly the `header_size()` bytes -/
theorem icmp6_writeHead_eq (p : Icmp6) (hi : p.Inv) (hs : p.Ser) (inner : Option Nat) (region : Bytes)
    (hr : p.hdr ≤ region.length) :
    p.writeHead inner region = .ok (emit (OutCursor.ofRegion region) (p.headBytes inner)) := by
  have hh := icmp6_hdr_eq p hi hs
  have hu := unBytes_length p hi inner
  have hbl := bodyBytes_length p hi
  have hol := optsBytes_length p.opts
  have ht := hi.target
  have hd := hi.dest
  have hun : (if (p.type == 143) = true then
      patch (patch p.un 0 [UInt8.ofNat (p.lengthFor inner)]) 2 (OutCursor.beBytes 2 p.records.length)
      else patch p.un 0 [UInt8.ofNat (p.lengthFor inner)]) = p.unBytes inner := rfl
  unfold Icmp6.writeHead
  dsimp only
  rw [hun]
  have htl : (if Icmp6.hasTarget p.type = true then p.target else []).length = (if Icmp6.hasTarget p.type then 16 else 0) := by
    split <;> simp [ht]
  have hdl : (if Icmp6.hasDest p.type = true then p.dest else []).length = (if Icmp6.hasDest p.type then 16 else 0) := by
    split <;> simp [hd]
  rw [write_emit _ _ (by simp [OutCursor.ofRegion, hu]; omega) (by simp [OutCursor.ofRegion, hu]; omega)]
  simp only [Out.bind_ok]
  rw [writeIf_emit _ _ p.target
    (by simp only [emit_size, OutCursor.ofRegion, List.length_append, List.length_cons, List.length_nil, hu, htl]; omega)
    (by simp only [emit_rest, OutCursor.ofRegion, List.length_drop, List.length_append, List.length_cons, List.length_nil, hu, htl]; omega)]
  simp only [Out.bind_ok]
  rw [writeIf_emit _ _ p.dest
    (by simp only [emit_size, OutCursor.ofRegion, List.length_append, List.length_cons, List.length_nil, hu, htl, hdl]; omega)
    (by simp only [emit_rest, OutCursor.ofRegion, List.length_drop, List.length_append, List.length_cons, List.length_nil, hu, htl, hdl]; omega)]
  simp only [Out.bind_ok]
  rw [writeBody_emit p hi _
    (by simp only [emit_size, OutCursor.ofRegion, List.length_append, List.length_cons, List.length_nil, hu, htl, hdl]; omega)
    (by simp only [emit_rest, OutCursor.ofRegion, List.length_drop, List.length_append, List.length_cons, List.length_nil, hu, htl, hdl]; omega)]
  simp only [Out.bind_ok]
  rw [writeOpts_emit p.opts _
    (by simp only [emit_size, OutCursor.ofRegion, List.length_append, List.length_cons, List.length_nil, hu, htl, hdl, hbl]; omega)
    (by simp only [emit_rest, OutCursor.ofRegion, List.length_drop, List.length_append, List.length_cons, List.length_nil, hu, htl, hdl, hbl]; omega)]
  simp only [emit_emit, Icmp6.headBytes, List.append_assoc]

/-- **C02 / ICMPv6**: on the region `PDU::serialize` hands out, `write_serialization` succeeds, keeps the length and
    leaves the inner PDU's bytes untouched — for every option list, record list and extension list satisfying the
    invariant, with or without an IPv6 parent (pseudo-header checksum) -/
theorem icmp6_writesOnlyAt (cx : Ctx) (p : Icmp6) (hi : p.Inv) (hs : p.Ser) : WritesOnlyAt (icmp6Sem cx p) cx.innerSize := by
  intro region hr
  simp only [icmp6Sem] at hr ⊢
  have hhl := icmp6_headBytes_length p hi hs (Icmp4.innerOf cx.innerSize)
  have hgetD : (Icmp4.innerOf cx.innerSize).getD 0 = cx.innerSize := by
    unfold Icmp4.innerOf; split
    · rename_i h; simp only [beq_iff_eq] at h; simp [h]
    · rfl
  have h8 : 8 ≤ p.hdr := by rw [icmp6_hdr_eq p hi hs]; omega
  unfold Icmp6.write
  dsimp only
  rw [icmp6_writeHead_eq p hi hs _ region (by omega)]
  simp only [Out.bind_ok]
  generalize p.headBytes (Icmp4.innerOf cx.innerSize) = hb at hhl
  unfold Icmp6.writeTail
  dsimp only
  have hbuf : (emit (OutCursor.ofRegion region) hb).buffer = hb ++ region.drop hb.length := emit_ofRegion_buffer region hb
  have hdone : (emit (OutCursor.ofRegion region) hb).done.length = p.hdr := by simp [OutCursor.ofRegion, hhl]
  have hrl : (hb ++ region.drop hb.length).length = region.length := length_prefix_replaced hb region (by omega)
  rw [hbuf, hdone]
  -- the checksum store, whatever the parent is
  have hfin : ∀ r1 : Bytes, r1.length = region.length → window r1 p.hdr cx.innerSize = window region p.hdr cx.innerSize →
      ∃ out, (match Icmp6.pseudoOf cx (p.hdr + cx.innerSize + p.trl cx.innerSize) with
        | none => pure r1
        | some ps => poke "ICMPv6::write_serialization checksum" r1 2
            (le16 (not16 (fold16 ((ps + sumRange r1) % 4294967296)) % 65536))) = Out.ok out ∧
        out.length = region.length ∧ innerOf { name := "ICMPv6", hdr := p.hdr, trl := p.trl cx.innerSize, write := p.write cx } out =
          innerOf { name := "ICMPv6", hdr := p.hdr, trl := p.trl cx.innerSize, write := p.write cx } region := by
    intro r1 l1 w1
    have hn' : region.length - (p.hdr + p.trl cx.innerSize) = cx.innerSize := by omega
    cases Icmp6.pseudoOf cx (p.hdr + cx.innerSize + p.trl cx.innerSize) with
    | none =>
      refine ⟨r1, rfl, l1, ?_⟩
      rw [innerOf_eq_window, innerOf_eq_window]
      simp only
      rw [l1, hn', w1]
    | some ps =>
      rcases poke_window "ICMPv6::write_serialization checksum" r1
          (le16 (not16 (fold16 ((ps + sumRange r1) % 4294967296)) % 65536)) 2 p.hdr cx.innerSize
          (by simp only [le16_length]; omega) (by left; simp only [le16_length]; omega) with ⟨out, e2, l2, w2⟩
      refine ⟨out, e2, by omega, ?_⟩
      rw [innerOf_eq_window, innerOf_eq_window]
      simp only
      have hn : out.length - (p.hdr + p.trl cx.innerSize) = cx.innerSize := by omega
      rw [hn, hn', w2, w1]
  by_cases he : p.hasExt
  · simp only [he, if_true]
    have hne : p.ext.exts.isEmpty = false := by simpa [Icmp6.hasExt] using he
    rcases writeExtPart_window "ICMPv6::write_serialization memset" p.ext (Icmp4.innerOf cx.innerSize) 8 p.hdr p.hdr
        (hb ++ region.drop hb.length) hs.2 hne (.inr rfl) (Nat.le_refl _)
        (by rw [hrl, hr, hgetD]; simp only [Icmp6.trl]) with ⟨r1, e1, l1, w1⟩
    rw [e1]
    simp only [Out.bind_ok]
    exact hfin r1 (by omega) (by
      rw [w1 p.hdr cx.innerSize (by rw [hgetD]; exact Nat.le_refl _), window_prefix_replaced hb region _ _ (by omega)])
  · simp only [he, Bool.false_eq_true, if_false, Out.pure_eq, Out.bind_ok]
    exact hfin _ hrl (window_prefix_replaced hb region _ _ (by omega))

end Tins.Wire.Icmp
