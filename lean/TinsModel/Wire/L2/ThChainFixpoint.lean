import TinsModel.Wire.L2.ThChainReparse
/-
  Whole-packet C03, second half (work in progress header; rewritten at the end)
-/
namespace Tins.Wire.L2
open Tins Tins.Wire

/-! ### closed form of `PDU::serialize` -/

/-- the header bytes `write_serialization` of `x` stores in context `cx` -/
def hb (cx : Ctx) : Obj → Bytes
  | .eth e => ({ e with ptype := Eth.tagFor cx e } : Eth).headerBytes
  | .dot3 d => ({ d with len := cx.innerSize % 65536 } : Dot3).headerBytes
  | .llc l => (Llc.written cx l).headerBytes
  | .snap s => ({ s with ethType := Snap.tagFor cx s } : Snap).headerBytes
  | .dot1q q => ({ q with ptype := Dot1Q.tagFor cx q } : Dot1Q).headerBytes
  | .mpls m => (Mpls.written cx m).headerBytes
  | .pppoe p => (PPPoE.written cx p (p.hdr + cx.innerSize)).headerBytes ++ p.tags.flatMap PPPoE.tagBytes
  | .sll s => ({ s with protocol := Sll.tagFor cx s } : Sll).headerBytes
  | .loopback l => OutCursor.leBytes 4 (Loopback.familyFor cx l)
  | _ => []

theorem hb_length (cx : Ctx) (x : Obj) (hi : ObjInv x) (hs : Serializable x) : (hb cx x).length = hdr x := by
  cases x with
  | eth e => exact eth_headerBytes_length _ ⟨hi.dst, hi.src, eth_tagFor_lt cx e hi⟩
  | dot3 d => exact dot3_headerBytes_length _ ⟨hi.dst, hi.src, Nat.mod_lt _ (by decide)⟩
  | llc l =>
    have hh : (Llc.written cx l).hdr = l.hdr := by unfold Llc.written; split <;> rfl
    simp only [hb, hdr]; rw [llc_headerBytes_length _ (llc_written_inv cx l hi), hh]
  | snap s => exact snap_headerBytes_length _
  | dot1q q => exact dot1q_headerBytes_length _
  | mpls m => exact mpls_headerBytes_length _
  | pppoe p =>
    simp only [hb, hdr, List.length_append, pppoe_headerBytes_length, pppoe_flat_length, PPPoE.hdr, hi.size]
  | sll s => exact sll_headerBytes_length _ hi.address
  | loopback l => simp [hb, hdr]
  | ppi p => exact absurd hs id
  | pktap p => exact absurd hs id

/-- header-only layers: `writeAtStart` on the exact region -/
theorem writeAtStart_exact (region h : Bytes) (n m : Nat) (hl : h.length = n) (hr : region.length = n + m + 0) :
    writeAtStart region h = .ok (h ++ (region.drop n).take m ++ List.replicate 0 0) := by
  rcases writeAtStart_ok region h n hl (by omega) with ⟨hw, _, _, _⟩
  rw [hw, take_drop_full region n m (by omega)]
  simp

/-- **closed form of `write_serialization`** for every serializable class of the family, on the region `PDU::serialize`
    hands it: the derived header, the inner bytes as they were, `trailer_size()` zero bytes -/
theorem l2_write_eq (cx : Ctx) (x : Obj) (hi : ObjInv x) (hs : Serializable x) (region : Bytes)
    (hl : region.length = hdr x + cx.innerSize + trl x cx.innerSize) :
    write cx x region = .ok (hb cx x ++ (region.drop (hdr x)).take cx.innerSize ++ List.replicate (trl x cx.innerSize) 0) := by
  cases x with
  | eth e => exact eth_write_eq cx e hi region hl
  | dot1q q => exact dot1q_write_eq cx q region hl
  | dot3 d => exact writeAtStart_exact region _ 14 _ (hb_length cx (.dot3 d) hi hs) hl
  | snap s => exact writeAtStart_exact region _ 8 _ (hb_length cx (.snap s) hi hs) hl
  | sll s => exact writeAtStart_exact region _ 16 _ (hb_length cx (.sll s) hi hs) hl
  | loopback l => exact writeAtStart_exact region _ 4 _ (hb_length cx (.loopback l) hi hs) hl
  | mpls m =>
    have := writeAtStart_exact region _ 4 _ (hb_length cx (.mpls m) hi hs) hl
    simp only [write, mpls_write_eq]; exact this
  | llc l =>
    simp only [hdr, trl, Nat.add_zero] at hl
    simp only [write, hdr, trl, hb]
    rw [llc_write_eq cx l hi region (by omega), take_drop_full region l.hdr _ hl]
    simp
  | pppoe p =>
    simp only [hdr, trl, Nat.add_zero] at hl
    simp only [write, hdr, trl, hb]
    rw [pppoe_write_eq cx p hi region (by omega), take_drop_full region p.hdr _ hl, hl]
    simp
  | ppi p => exact absurd hs id
  | pktap p => exact absurd hs id

/-- the bytes `PDU::serialize()` produces for a stack below the ancestors `ps` -/
def wire (ps : List LayerInfo) : List AnyObj → Bytes
  | [] => []
  | .l2 x :: os => hb (cxOf ps os) x ++ wire (liOf x os :: ps) os ++ List.replicate (trl x (cxOf ps os).innerSize) 0
  | .raw p :: _ => p
  | _ :: _ => []

/-- stacks the closed form applies to: family layers (invariant, serializable) over an optional final RawPDU -/
def Good : List AnyObj → Prop
  | [] => True
  | .raw _ :: r => r = []
  | .l2 x :: r => ObjInv x ∧ Serializable x ∧ Good r
  | _ :: _ => False

theorem splice_inner (region io : Bytes) (h n t : Nat) (hl : region.length = h + n + t) (hio : io.length = n) :
    ((splice region h io).drop h).take n = io := by
  unfold splice
  rw [List.append_assoc, drop_append_len _ _ h (by simp only [List.length_take]; omega), take_append_len _ _ n hio]

/-- **closed form of `PDU::serialize`** (any depth): on a region of `size()` bytes the registry's chain writes `wire` -/
theorem serializeInto_wire (os : List AnyObj) : ∀ (ps : List LayerInfo) (region : Bytes), Good os →
    region.length = Wire.sizeOf (semsAux ps os (infos os)) →
    serializeInto (semsAux ps os (infos os)) region = .ok (wire ps os) ∧ (wire ps os).length = region.length := by
  induction os with
  | nil =>
    intro ps region _ hlen
    have : region = [] := List.eq_nil_of_length_eq_zero hlen
    subst this
    exact ⟨rfl, rfl⟩
  | cons a r ih =>
    intro ps region hg hlen
    cases a with
    | raw p =>
      have hr : r = [] := hg
      subst hr
      have hsz : Wire.sizeOf (semsAux ps [.raw p] (infos [.raw p])) = p.length := by
        simp [semsAux, infos, Wire.sizeOf, AnyObj.hdr, AnyObj.trl]
      rw [hsz] at hlen
      exact ⟨serializeInto_raw ps p region hlen, hlen.symm⟩
    | l2 x =>
      obtain ⟨hi, hs, hg'⟩ := hg
      rw [semsAux_l2] at hlen ⊢
      simp only [Wire.sizeOf, sizeOf_semsAux, semOf_hdr, semOf_trl] at hlen
      have hil : (innerOf (semOf ps x r) region).length = ((infos r).map (fun l => l.hdr + l.trl)).sum := by
        simp only [innerOf, semOf_hdr, semOf_trl, List.length_take, List.length_drop]; omega
      rcases ih (liOf x r :: ps) (innerOf (semOf ps x r) region) hg' (by rw [hil, sizeOf_semsAux]) with ⟨hio, hiol⟩
      rw [hil] at hiol
      have hsl : (splice region (hdr x) (wire (liOf x r :: ps) r)).length = region.length :=
        splice_length _ _ _ (by omega)
      have hw := l2_write_eq (cxOf ps r) x hi hs (splice region (hdr x) (wire (liOf x r :: ps) r))
        (by rw [hsl, cxOf_innerSize]; omega)
      rw [splice_inner region _ (hdr x) _ (trl x (cxOf ps r).innerSize) (by rw [cxOf_innerSize]; omega)
        (by rw [cxOf_innerSize]; exact hiol)] at hw
      have hio' : serializeInto (semsAux (liOf x r :: ps) r (infos r))
          ((region.drop (semOf ps x r).hdr).take (region.length - ((semOf ps x r).hdr + (semOf ps x r).trl))) =
          .ok (wire (liOf x r :: ps) r) := hio
      constructor
      · simp only [serializeInto, hio', bind, Out.bind]
        exact hw
      · simp only [wire, List.length_append, List.length_replicate, hb_length _ x hi hs, hiol, cxOf_innerSize]
        omega
    | ip _ => exact hg.elim
    | ip6 _ => exact hg.elim
    | icmp _ => exact hg.elim
    | tr _ => exact hg.elim
    | app _ => exact hg.elim
    | wifi _ => exact hg.elim

theorem serializeObjs_wire (os : List AnyObj) (hg : Good os) : serializeObjs os = .ok (wire [] os) :=
  (serializeInto_wire os [] _ hg (by simp [sems])).1

/-! ### the derived header fields are stable: serializing the re-parsed layer in a similar context stores the same header -/

/-- what a `write_serialization` above reads from an inner layer's dump: its class and the EtherType it stands for
    (which includes PPPoE's session / discovery distinction) -/
def key (i : LayerInfo) : String × Nat := (i.cls, etherTagOf i)

/-- two contexts a `write_serialization` of the family cannot tell apart (sizes aside) -/
structure CtxSim (cx cx' : Ctx) : Prop where
  parents : cx'.parents.isEmpty = cx.parents.isEmpty
  inners : cx'.inners.map key = cx.inners.map key

theorem CtxSim.head {cx cx' : Ctx} (h : CtxSim cx cx') : cx'.inners.head?.map key = cx.inners.head?.map key := by
  have := congrArg List.head? h.inners
  simpa [List.head?_map] using this

theorem CtxSim.innerCls {cx cx' : Ctx} (h : CtxSim cx cx') : cx'.innerCls = cx.innerCls := by
  have := congrArg (Option.map Prod.fst) h.head
  simpa [Ctx.innerCls, key, Option.map_map, Function.comp_def] using this

theorem CtxSim.isEmpty {cx cx' : Ctx} (h : CtxSim cx cx') : cx'.inners.isEmpty = cx.inners.isEmpty := by
  have := congrArg List.length h.inners
  simp only [List.length_map] at this
  cases h1 : cx'.inners <;> cases h2 : cx.inners <;> simp [h1, h2] at this ⊢

theorem headTag_sim {cx cx' : Ctx} (h : CtxSim cx cx') (d s : Nat) : headTag cx' d s = headTag cx d s := by
  have hh := h.head
  unfold headTag
  cases h1 : cx'.inners.head? with
  | none =>
    cases h2 : cx.inners.head? with
    | none => rfl
    | some j => rw [h1, h2] at hh; cases hh
  | some i =>
    cases h2 : cx.inners.head? with
    | none => rw [h1, h2] at hh; cases hh
    | some j =>
      rw [h1, h2] at hh
      have : etherTagOf i = etherTagOf j := by
        have := congrArg (Option.map Prod.snd) hh
        simpa [key] using this
      simp only [this]

/-- EthernetII's tag choice, as a function of the inner layers' keys -/
def ethFlag : List LayerInfo → Nat
  | [] => 0
  | i :: rest =>
    if Tags.pduTypeOf i.cls == "DOT1Q" && (rest.head?.map (fun j => Tags.pduTypeOf j.cls == "DOT1Q")) == some true then 34984
    else etherTagOf i

theorem eth_tagFor_eq (cx : Ctx) (e : Eth) :
    Eth.tagFor cx e = if cx.inners.isEmpty then 0 else (if ethFlag cx.inners != 0 then ethFlag cx.inners else e.ptype) := by
  unfold Eth.tagFor
  cases hc : cx.inners with
  | nil => rfl
  | cons i rest =>
    simp only [List.isEmpty_cons, Bool.false_eq_true, if_false, ethFlag, etherTagOf]
    by_cases hp : (Tags.pduTypeOf i.cls == "PPPOE") = true
    · have hq : (Tags.pduTypeOf i.cls == "DOT1Q") = false := by
        have : Tags.pduTypeOf i.cls = "PPPOE" := by simpa using hp
        rw [this]; decide
      simp [hp, hq]
    · have hp' : (Tags.pduTypeOf i.cls == "PPPOE") = false := by simpa using hp
      by_cases hq : (Tags.pduTypeOf i.cls == "DOT1Q") = true
      · cases rest with
        | nil => simp [hp', hq]
        | cons j u =>
          by_cases hj : (Tags.pduTypeOf j.cls == "DOT1Q") = true
          · simp [hp', hq, hj]
          · have hj' : (Tags.pduTypeOf j.cls == "DOT1Q") = false := by simpa using hj
            simp [hp', hq, hj']
      · have hq' : (Tags.pduTypeOf i.cls == "DOT1Q") = false := by simpa using hq
        simp [hp', hq']

theorem ethFlag_sim (l l' : List LayerInfo) (h : l'.map key = l.map key) : ethFlag l' = ethFlag l := by
  cases l' with
  | nil => cases l with
    | nil => rfl
    | cons j t => cases h
  | cons i r => cases l with
    | nil => cases h
    | cons j t =>
      simp only [List.map_cons, List.cons.injEq, key, Prod.mk.injEq] at h
      obtain ⟨⟨hc, ht⟩, hr⟩ := h
      have hh : (r.head?.map (fun j => Tags.pduTypeOf j.cls == "DOT1Q")) = (t.head?.map (fun j => Tags.pduTypeOf j.cls == "DOT1Q")) := by
        cases r with
        | nil => cases t with
          | nil => rfl
          | cons b u => cases hr
        | cons a v => cases t with
          | nil => cases hr
          | cons b u =>
            simp only [List.map_cons, List.cons.injEq, key, Prod.mk.injEq] at hr
            simp [hr.1.1]
      simp only [ethFlag, hc, ht, hh]

theorem eth_tagFor_sim {cx cx' : Ctx} (h : CtxSim cx cx') (e : Eth) :
    Eth.tagFor cx' { e with ptype := Eth.tagFor cx e } = Eth.tagFor cx e := by
  rw [eth_tagFor_eq cx', eth_tagFor_eq cx, h.isEmpty, ethFlag_sim _ _ h.inners]
  split
  · rfl
  · split <;> rfl

theorem headTag_idem0 {cx cx' : Ctx} (h : CtxSim cx cx') (s : Nat) :
    headTag cx' 0 (headTag cx 0 s) = headTag cx 0 s := by
  rw [headTag_sim h]
  unfold headTag
  cases cx.inners.head? with
  | none => rfl
  | some i => dsimp only; split <;> simp_all

theorem headTag_idemS {cx cx' : Ctx} (h : CtxSim cx cx') (s : Nat) :
    headTag cx' (headTag cx s s) (headTag cx s s) = headTag cx s s := by
  rw [headTag_sim h]
  unfold headTag
  cases cx.inners.head? with
  | none => rfl
  | some i => dsimp only; split <;> simp_all

theorem llc_normal_headerBytes (l : Llc) : l.normal.headerBytes = l.headerBytes := by
  unfold Llc.normal
  cases ht : l.typ <;> simp [Llc.headerBytes, Llc.controlBytes, ht]

/-- **the derived header is a fixed point**: in a context with the same ancestors-or-not, the same inner classes / tags
    and (where a length is stored) the same inner size, the re-parsed layer `wr cx x` writes the header `x` wrote -/
theorem hb_wr (cx cx' : Ctx) (x : Obj) (h : CtxSim cx cx') (hi : ObjInv x)
    (hsz : (∀ d, x = .dot3 d → cx'.innerSize = cx.innerSize) ∧ (∀ p, x = .pppoe p → cx'.innerSize = cx.innerSize))
    (hstp : ∀ l, x = .llc l → cx.innerCls ≠ some "STP") : hb cx' (wr cx x) = hb cx x := by
  cases x with
  | eth e => simp only [hb, wr, eth_tagFor_sim h]
  | dot3 d => simp only [hb, wr, hsz.1 d rfl]
  | llc l =>
    have h1 := hstp l rfl
    simp only [hb, wr]
    rw [llc_written_id cx' _ (by rw [h.innerCls]; exact h1), llc_written_id cx _ h1, llc_normal_headerBytes]
  | snap s =>
    simp only [hb, wr, snap_tagFor_eq]
    rw [headTag_idemS h]
  | dot1q q =>
    simp only [hb, wr, dot1q_tagFor_eq]
    rw [headTag_idem0 h]
    rfl
  | mpls m =>
    simp only [hb, wr]
    congr 1
    unfold Mpls.written
    rw [h.parents, h.innerCls]
    split
    · simp only [Mpls.mk.injEq, true_and, and_true]; omega
    · rfl
  | pppoe p =>
    simp only [hb, wr, PPPoE.written, PPPoE.lengthFor, PPPoE.hdr, hsz.2 p rfl, h.isEmpty]
  | sll s =>
    simp only [hb, wr, sll_tagFor_eq]
    rw [headTag_idemS h]
  | loopback l =>
    simp only [hb, wr]
    congr 1
    by_cases h1 : cx.innerCls = some "IP"
    · simp [Loopback.familyFor, h.innerCls, h1]
    · by_cases h2 : cx.innerCls = some "IPv6"
      · simp [Loopback.familyFor, h.innerCls, h2]
      · by_cases h3 : cx.innerCls = some "LLC"
        · simp [Loopback.familyFor, h.innerCls, h3]
        · rw [loopback_family_kept cx' _ (by rw [h.innerCls]; exact ⟨h1, h2, h3⟩)]
  | ppi p => rfl
  | pktap p => rfl

end Tins.Wire.L2
