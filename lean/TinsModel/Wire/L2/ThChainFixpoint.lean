import TinsModel.Wire.L2.ThChainReparse
/-
  **Whole-packet C03 for the L2 family, second half** — "serializing the re-parsed packet reproduces the bytes whenever the
  innermost payload is non-empty", for stacks of any depth.

  Method: (1) `serializeInto_wire`: a closed form of `PDU::serialize` over the registry's chain — `wire ps os` = derived
  header (`hb`) ++ inner chain ++ zero trailer, layer by layer (`l2_write_eq` is the per-class closed form of
  `write_serialization`); (2) `chain_reparse_aux` (ThChainReparse.lean) gives the re-parsed stack explicitly as `re ps os k`;
  (3) `hb_wr`: the header a re-parsed layer writes is the header the original wrote — the derived tags / lengths are a
  fixed point as long as the context shows the same classes and EtherTypes below (`CtxSim`, `infos_re_key`) and, where a
  length is stored (Dot3, PPPoE), the same inner size; (4) `wire_re`: hence `wire (re os) = wire os ++ padding that reached
  the payload`, where the trailers of the re-parsed stack vanish exactly when the padding was absorbed by the payload.

  Statements: `l2_chain_reserialize_fixpoint` (full statement, a `Prop`), `l2_chain_reserialize_fixpoint_fails` (witness:
  a Dot1Q padding on behalf of `append_padding_` above a PPPoE session — KF-C04-L2-4, object state that is not on the
  wire), `l2_chain_reserialize_fixpoint_partial` (proved for every `Stackable` stack outside that region, `PadKept`),
  `padKept_of_noAppend` (every stack whose Dot1Q layers do not pad — every parsed stack — is outside it).
-/
namespace Tins.Wire.L2
open Tins Tins.Wire

/-! ### closed form of `PDU::serialize` -/

/-- the header bytes `write_serialization` of `x` stores in context `cx` -/
def hb (cx : Ctx) : Obj → Bytes
  | .eth e => ({ e with ptype := Eth.tagFor cx e } : Eth).headerBytes
  | .dot3 d => ({ d with len := cx.innerSize % 65536 } : Dot3).headerBytes
  | .llc l => (Llc.written cx l).headerBytes
  | .snap s => ({ s with ethType := Snap.tagFor cx s } : Snap).headerBytes
  | .dot1q q => ({ q with ptype := Dot1Q.tagFor cx q } : Dot1Q).headerBytes
  | .mpls m => (Mpls.written cx m).headerBytes
  | .pppoe p => (PPPoE.written cx p (p.hdr + cx.innerSize)).headerBytes ++ p.tags.flatMap PPPoE.tagBytes
  | .sll s => ({ s with protocol := Sll.tagFor cx s } : Sll).headerBytes
  | .loopback l => OutCursor.leBytes 4 (Loopback.familyFor cx l)
  | _ => []

theorem hb_length (cx : Ctx) (x : Obj) (hi : ObjInv x) (hs : Serializable x) : (hb cx x).length = hdr x := by
  cases x with
  | eth e => exact eth_headerBytes_length _ ⟨hi.dst, hi.src, eth_tagFor_lt cx e hi⟩
  | dot3 d => exact dot3_headerBytes_length _ ⟨hi.dst, hi.src, Nat.mod_lt _ (by decide)⟩
  | llc l =>
    have hh : (Llc.written cx l).hdr = l.hdr := by unfold Llc.written; split <;> rfl
    simp only [hb, hdr]; rw [llc_headerBytes_length _ (llc_written_inv cx l hi), hh]
  | snap s => exact snap_headerBytes_length _
  | dot1q q => exact dot1q_headerBytes_length _
  | mpls m => exact mpls_headerBytes_length _
  | pppoe p =>
    simp only [hb, hdr, List.length_append, pppoe_headerBytes_length, pppoe_flat_length, PPPoE.hdr, hi.size]
  | sll s => exact sll_headerBytes_length _ hi.address
  | loopback l => simp [hb, hdr]
  | ppi p => exact absurd hs id
  | pktap p => exact absurd hs id

/-- header-only layers: `writeAtStart` on the exact region -/
theorem writeAtStart_exact (region h : Bytes) (n m : Nat) (hl : h.length = n) (hr : region.length = n + m + 0) :
    writeAtStart region h = .ok (h ++ (region.drop n).take m ++ List.replicate 0 0) := by
  rcases writeAtStart_ok region h n hl (by omega) with ⟨hw, _, _, _⟩
  rw [hw, take_drop_full region n m (by omega)]
  simp

/-- **closed form of `write_serialization`** for every serializable class of the family, on the region `PDU::serialize`
    hands it: the derived header, the inner bytes as they were, `trailer_size()` zero bytes -/
theorem l2_write_eq (cx : Ctx) (x : Obj) (hi : ObjInv x) (hs : Serializable x) (region : Bytes)
    (hl : region.length = hdr x + cx.innerSize + trl x cx.innerSize) :
    write cx x region = .ok (hb cx x ++ (region.drop (hdr x)).take cx.innerSize ++ List.replicate (trl x cx.innerSize) 0) := by
  cases x with
  | eth e => exact eth_write_eq cx e hi region hl
  | dot1q q => exact dot1q_write_eq cx q region hl
  | dot3 d => exact writeAtStart_exact region _ 14 _ (hb_length cx (.dot3 d) hi hs) hl
  | snap s => exact writeAtStart_exact region _ 8 _ (hb_length cx (.snap s) hi hs) hl
  | sll s => exact writeAtStart_exact region _ 16 _ (hb_length cx (.sll s) hi hs) hl
  | loopback l => exact writeAtStart_exact region _ 4 _ (hb_length cx (.loopback l) hi hs) hl
  | mpls m =>
    have := writeAtStart_exact region _ 4 _ (hb_length cx (.mpls m) hi hs) hl
    simp only [write, mpls_write_eq]; exact this
  | llc l =>
    simp only [hdr, trl, Nat.add_zero] at hl
    simp only [write, hdr, trl, hb]
    rw [llc_write_eq cx l hi region (by omega), take_drop_full region l.hdr _ hl]
    simp
  | pppoe p =>
    simp only [hdr, trl, Nat.add_zero] at hl
    simp only [write, hdr, trl, hb]
    rw [pppoe_write_eq cx p hi region (by omega), take_drop_full region p.hdr _ hl, hl]
    simp
  | ppi p => exact absurd hs id
  | pktap p => exact absurd hs id

/-- the bytes `PDU::serialize()` produces for a stack below the ancestors `ps` -/
def wire (ps : List LayerInfo) : List AnyObj → Bytes
  | [] => []
  | .l2 x :: os => hb (cxOf ps os) x ++ wire (liOf x os :: ps) os ++ List.replicate (trl x (cxOf ps os).innerSize) 0
  | .raw p :: _ => p
  | _ :: _ => []

/-- stacks the closed form applies to: family layers (invariant, serializable) over an optional final RawPDU -/
def Good : List AnyObj → Prop
  | [] => True
  | .raw _ :: r => r = []
  | .l2 x :: r => ObjInv x ∧ Serializable x ∧ Good r
  | _ :: _ => False

theorem splice_inner (region io : Bytes) (h n t : Nat) (hl : region.length = h + n + t) (hio : io.length = n) :
    ((splice region h io).drop h).take n = io := by
  unfold splice
  rw [List.append_assoc, drop_append_len _ _ h (by simp only [List.length_take]; omega), take_append_len _ _ n hio]

/-- **closed form of `PDU::serialize`** (any depth): on a region of `size()` bytes the registry's chain writes `wire` -/
theorem serializeInto_wire (os : List AnyObj) : ∀ (ps : List LayerInfo) (region : Bytes), Good os →
    region.length = Wire.sizeOf (semsAux ps os (infos os)) →
    serializeInto (semsAux ps os (infos os)) region = .ok (wire ps os) ∧ (wire ps os).length = region.length := by
  induction os with
  | nil =>
    intro ps region _ hlen
    have : region = [] := List.eq_nil_of_length_eq_zero hlen
    subst this
    exact ⟨rfl, rfl⟩
  | cons a r ih =>
    intro ps region hg hlen
    cases a with
    | raw p =>
      have hr : r = [] := hg
      subst hr
      have hsz : Wire.sizeOf (semsAux ps [.raw p] (infos [.raw p])) = p.length := by
        simp [semsAux, infos, Wire.sizeOf, AnyObj.hdr, AnyObj.trl]
      rw [hsz] at hlen
      exact ⟨serializeInto_raw ps p region hlen, hlen.symm⟩
    | l2 x =>
      obtain ⟨hi, hs, hg'⟩ := hg
      rw [semsAux_l2] at hlen ⊢
      simp only [Wire.sizeOf, sizeOf_semsAux, semOf_hdr, semOf_trl] at hlen
      have hil : (innerOf (semOf ps x r) region).length = ((infos r).map (fun l => l.hdr + l.trl)).sum := by
        simp only [innerOf, semOf_hdr, semOf_trl, List.length_take, List.length_drop]; omega
      rcases ih (liOf x r :: ps) (innerOf (semOf ps x r) region) hg' (by rw [hil, sizeOf_semsAux]) with ⟨hio, hiol⟩
      rw [hil] at hiol
      have hsl : (splice region (hdr x) (wire (liOf x r :: ps) r)).length = region.length :=
        splice_length _ _ _ (by omega)
      have hw := l2_write_eq (cxOf ps r) x hi hs (splice region (hdr x) (wire (liOf x r :: ps) r))
        (by rw [hsl, cxOf_innerSize]; omega)
      rw [splice_inner region _ (hdr x) _ (trl x (cxOf ps r).innerSize) (by rw [cxOf_innerSize]; omega)
        (by rw [cxOf_innerSize]; exact hiol)] at hw
      have hio' : serializeInto (semsAux (liOf x r :: ps) r (infos r))
          ((region.drop (semOf ps x r).hdr).take (region.length - ((semOf ps x r).hdr + (semOf ps x r).trl))) =
          .ok (wire (liOf x r :: ps) r) := hio
      constructor
      · simp only [serializeInto, hio', bind, Out.bind]
        exact hw
      · simp only [wire, List.length_append, List.length_replicate, hb_length _ x hi hs, hiol, cxOf_innerSize]
        omega
    | ip _ => exact hg.elim
    | ip6 _ => exact hg.elim
    | icmp _ => exact hg.elim
    | tr _ => exact hg.elim
    | app _ => exact hg.elim
    | wifi _ => exact hg.elim

theorem serializeObjs_wire (os : List AnyObj) (hg : Good os) : serializeObjs os = .ok (wire [] os) :=
  (serializeInto_wire os [] _ hg (by simp [sems])).1

/-! ### the derived header fields are stable: serializing the re-parsed layer in a similar context stores the same header -/

/-- what a `write_serialization` above reads from an inner layer's dump: its class and the EtherType it stands for
    (which includes PPPoE's session / discovery distinction) -/
def key (i : LayerInfo) : String × Nat := (i.cls, etherTagOf i)

/-- two contexts a `write_serialization` of the family cannot tell apart (sizes aside) -/
structure CtxSim (cx cx' : Ctx) : Prop where
  parents : cx'.parents.isEmpty = cx.parents.isEmpty
  inners : cx'.inners.map key = cx.inners.map key

theorem CtxSim.head {cx cx' : Ctx} (h : CtxSim cx cx') : cx'.inners.head?.map key = cx.inners.head?.map key := by
  have := congrArg List.head? h.inners
  simpa [List.head?_map] using this

theorem CtxSim.innerCls {cx cx' : Ctx} (h : CtxSim cx cx') : cx'.innerCls = cx.innerCls := by
  have := congrArg (Option.map Prod.fst) h.head
  simpa [Ctx.innerCls, key, Option.map_map, Function.comp_def] using this

theorem CtxSim.isEmpty {cx cx' : Ctx} (h : CtxSim cx cx') : cx'.inners.isEmpty = cx.inners.isEmpty := by
  have := congrArg List.length h.inners
  simp only [List.length_map] at this
  cases h1 : cx'.inners <;> cases h2 : cx.inners <;> simp [h1, h2] at this ⊢

theorem headTag_sim {cx cx' : Ctx} (h : CtxSim cx cx') (d s : Nat) : headTag cx' d s = headTag cx d s := by
  have hh := h.head
  unfold headTag
  cases h1 : cx'.inners.head? with
  | none =>
    cases h2 : cx.inners.head? with
    | none => rfl
    | some j => rw [h1, h2] at hh; cases hh
  | some i =>
    cases h2 : cx.inners.head? with
    | none => rw [h1, h2] at hh; cases hh
    | some j =>
      rw [h1, h2] at hh
      have : etherTagOf i = etherTagOf j := by
        have := congrArg (Option.map Prod.snd) hh
        simpa [key] using this
      simp only [this]

/-- EthernetII's tag choice, as a function of the inner layers' keys -/
def ethFlag : List LayerInfo → Nat
  | [] => 0
  | i :: rest =>
    if Tags.pduTypeOf i.cls == "DOT1Q" && (rest.head?.map (fun j => Tags.pduTypeOf j.cls == "DOT1Q")) == some true then 34984
    else etherTagOf i

theorem eth_tagFor_eq (cx : Ctx) (e : Eth) :
    Eth.tagFor cx e = if cx.inners.isEmpty then 0 else (if ethFlag cx.inners != 0 then ethFlag cx.inners else e.ptype) := by
  unfold Eth.tagFor
  cases hc : cx.inners with
  | nil => rfl
  | cons i rest =>
    simp only [List.isEmpty_cons, Bool.false_eq_true, if_false, ethFlag, etherTagOf]
    by_cases hp : (Tags.pduTypeOf i.cls == "PPPOE") = true
    · have hq : (Tags.pduTypeOf i.cls == "DOT1Q") = false := by
        have : Tags.pduTypeOf i.cls = "PPPOE" := by simpa using hp
        rw [this]; decide
      simp [hp, hq]
    · have hp' : (Tags.pduTypeOf i.cls == "PPPOE") = false := by simpa using hp
      by_cases hq : (Tags.pduTypeOf i.cls == "DOT1Q") = true
      · cases rest with
        | nil => simp [hp', hq]
        | cons j u =>
          by_cases hj : (Tags.pduTypeOf j.cls == "DOT1Q") = true
          · simp [hp', hq, hj]
          · have hj' : (Tags.pduTypeOf j.cls == "DOT1Q") = false := by simpa using hj
            simp [hp', hq, hj']
      · have hq' : (Tags.pduTypeOf i.cls == "DOT1Q") = false := by simpa using hq
        simp [hp', hq']

theorem ethFlag_sim (l l' : List LayerInfo) (h : l'.map key = l.map key) : ethFlag l' = ethFlag l := by
  cases l' with
  | nil => cases l with
    | nil => rfl
    | cons j t => cases h
  | cons i r => cases l with
    | nil => cases h
    | cons j t =>
      simp only [List.map_cons, List.cons.injEq, key, Prod.mk.injEq] at h
      obtain ⟨⟨hc, ht⟩, hr⟩ := h
      have hh : (r.head?.map (fun j => Tags.pduTypeOf j.cls == "DOT1Q")) = (t.head?.map (fun j => Tags.pduTypeOf j.cls == "DOT1Q")) := by
        cases r with
        | nil => cases t with
          | nil => rfl
          | cons b u => cases hr
        | cons a v => cases t with
          | nil => cases hr
          | cons b u =>
            simp only [List.map_cons, List.cons.injEq, key, Prod.mk.injEq] at hr
            simp [hr.1.1]
      simp only [ethFlag, hc, ht, hh]

theorem eth_tagFor_sim {cx cx' : Ctx} (h : CtxSim cx cx') (e : Eth) :
    Eth.tagFor cx' { e with ptype := Eth.tagFor cx e } = Eth.tagFor cx e := by
  rw [eth_tagFor_eq cx', eth_tagFor_eq cx, h.isEmpty, ethFlag_sim _ _ h.inners]
  split
  · rfl
  · split <;> rfl

theorem headTag_idem0 {cx cx' : Ctx} (h : CtxSim cx cx') (s : Nat) :
    headTag cx' 0 (headTag cx 0 s) = headTag cx 0 s := by
  rw [headTag_sim h]
  unfold headTag
  cases cx.inners.head? with
  | none => rfl
  | some i => dsimp only; split <;> simp_all

theorem headTag_idemS {cx cx' : Ctx} (h : CtxSim cx cx') (s : Nat) :
    headTag cx' (headTag cx s s) (headTag cx s s) = headTag cx s s := by
  rw [headTag_sim h]
  unfold headTag
  cases cx.inners.head? with
  | none => rfl
  | some i => dsimp only; split <;> simp_all

theorem llc_normal_headerBytes (l : Llc) : l.normal.headerBytes = l.headerBytes := by
  unfold Llc.normal
  cases ht : l.typ <;> simp [Llc.headerBytes, Llc.controlBytes, ht]

/-- **the derived header is a fixed point**: in a context with the same ancestors-or-not, the same inner classes / tags
    and (where a length is stored) the same inner size, the re-parsed layer `wr cx x` writes the header `x` wrote -/
theorem hb_wr (cx cx' : Ctx) (x : Obj) (h : CtxSim cx cx') (hi : ObjInv x)
    (hsz : (∀ d, x = .dot3 d → cx'.innerSize = cx.innerSize) ∧ (∀ p, x = .pppoe p → cx'.innerSize = cx.innerSize))
    (hstp : ∀ l, x = .llc l → cx.innerCls ≠ some "STP") : hb cx' (wr cx x) = hb cx x := by
  cases x with
  | eth e => simp only [hb, wr, eth_tagFor_sim h]
  | dot3 d => simp only [hb, wr, hsz.1 d rfl]
  | llc l =>
    have h1 := hstp l rfl
    simp only [hb, wr]
    rw [llc_written_id cx' _ (by rw [h.innerCls]; exact h1), llc_written_id cx _ h1, llc_normal_headerBytes]
  | snap s =>
    simp only [hb, wr, snap_tagFor_eq]
    rw [headTag_idemS h]
  | dot1q q =>
    simp only [hb, wr, dot1q_tagFor_eq]
    rw [headTag_idem0 h]
    rfl
  | mpls m =>
    simp only [hb, wr]
    congr 1
    unfold Mpls.written
    rw [h.parents, h.innerCls]
    split
    · simp only [Mpls.mk.injEq, true_and, and_true]; omega
    · rfl
  | pppoe p =>
    simp only [hb, wr, PPPoE.written, PPPoE.lengthFor, PPPoE.hdr, hsz.2 p rfl, h.isEmpty]
  | sll s =>
    simp only [hb, wr, sll_tagFor_eq]
    rw [headTag_idemS h]
  | loopback l =>
    simp only [hb, wr]
    congr 1
    by_cases h1 : cx.innerCls = some "IP"
    · simp [Loopback.familyFor, h.innerCls, h1]
    · by_cases h2 : cx.innerCls = some "IPv6"
      · simp [Loopback.familyFor, h.innerCls, h2]
      · by_cases h3 : cx.innerCls = some "LLC"
        · simp [Loopback.familyFor, h.innerCls, h3]
        · rw [loopback_family_kept cx' _ (by rw [h.innerCls]; exact ⟨h1, h2, h3⟩)]
  | ppi p => rfl
  | pktap p => rfl

/-! ### serializing the re-parsed stack -/

theorem wr_cls (cx : Ctx) (y : Obj) : (info (wr cx y)).1 = (info y).1 := by cases y <;> rfl

theorem wr_hdr (cx : Ctx) (y : Obj) : hdr (wr cx y) = hdr y := by
  cases y <;> try rfl
  case llc l => simp only [wr, hdr, Llc.normal, Llc.hdr]; split <;> rfl

theorem etherTagOf_wr (cx : Ctx) (y : Obj) (h t h' t' : Nat) :
    etherTagOf ⟨(info (wr cx y)).1, (info (wr cx y)).2, h', t'⟩ = etherTagOf ⟨(info y).1, (info y).2, h, t⟩ := by
  cases y <;> rfl

/-- the re-parsed stack shows the layers above it the same classes and the same EtherTypes -/
theorem infos_re_key (os : List AnyObj) : ∀ (ps : List LayerInfo) (k : Nat), Stackable os →
    (infos (re ps os k)).map key = (infos os).map key := by
  induction os with
  | nil => intro ps k _; rfl
  | cons a r ih =>
    intro ps k hs
    cases a with
    | raw p =>
      have hr : r = [] := hs
      subst hr
      simp [re, infos, key, AnyObj.info, etherTagOf_raw]
    | l2 x =>
      simp only [re, infos, List.map_cons, List.cons.injEq, key, Prod.mk.injEq]
      refine ⟨⟨wr_cls _ x, ?_⟩, ih _ _ hs.2.2⟩
      exact etherTagOf_wr _ x _ _ _ _
    | ip _ => exact hs.elim
    | ip6 _ => exact hs.elim
    | icmp _ => exact hs.elim
    | tr _ => exact hs.elim
    | app _ => exact hs.elim
    | wifi _ => exact hs.elim

def hasPppoe : List AnyObj → Bool
  | [] => false
  | .l2 x :: r => isPppoe x || hasPppoe r
  | _ :: r => hasPppoe r

/-- how many of `k` padding bytes behind a stack end up in its payload: all, unless a PPPoE payload length cuts them off -/
def pk (os : List AnyObj) (k : Nat) : Nat := if hasPppoe os then 0 else k

/-- excluded from the fixed-point theorem (KF-C04-L2-4): a Dot1Q that pads (`append_padding_`, object state that is not on
    the wire and that the parser clears) above a PPPoE layer, whose payload length cuts the padding off — the re-parsed
    packet neither carries the padding in its payload nor re-creates it.  Never the case for a parsed stack. -/
def PadKept : List AnyObj → Prop
  | [] => True
  | .l2 (.dot1q q) :: r => (q.appendPadding = true → hasPppoe r = false) ∧ PadKept r
  | _ :: r => PadKept r

theorem padKept_tail (a : AnyObj) (r : List AnyObj) (h : PadKept (a :: r)) : PadKept r := by
  cases a with
  | l2 x => cases x <;> first | exact h.2 | exact h
  | _ => exact h

/-- `Σ (header + trailer)` of a stack -/
def sizeSum (os : List AnyObj) : Nat := ((infos os).map (fun l => l.hdr + l.trl)).sum

theorem sizeSum_l2 (x : Obj) (r : List AnyObj) : sizeSum (.l2 x :: r) = hdr x + trl x (sizeSum r) + sizeSum r := by
  simp [sizeSum, infos, AnyObj.hdr, AnyObj.trl]

theorem splitRaw_l2_cons (x : Obj) (a : AnyObj) (r : List AnyObj) : (splitRaw (.l2 x :: a :: r)).2 = (splitRaw (a :: r)).2 := by
  rw [splitRaw_cons_cons]

theorem pk_zero (os : List AnyObj) : pk os 0 = 0 := by unfold pk; split <;> rfl

/-- once the padding is part of the payload the re-parsed layer needs no trailer -/
theorem trl_wr_absorb (cx : Ctx) (x : Obj) (n k : Nat) : trl (wr cx x) (n + (trl x n + k)) = 0 := by
  cases x <;> try rfl
  case eth e => simp only [wr, trl, Eth.trl]; omega

/-- with the same inner size the re-parsed layer has the trailer of the original one, unless that was a Dot1Q padding
    on behalf of `append_padding_` -/
theorem trl_wr_same (cx : Ctx) (x : Obj) (n : Nat) (h : ∀ q, x = .dot1q q → q.appendPadding = false) :
    trl (wr cx x) n = trl x n := by
  cases x with
  | dot1q q => simp [wr, trl, Dot1Q.trl, h q rfl]
  | _ => rfl

theorem re_l2 (ps : List LayerInfo) (x : Obj) (os : List AnyObj) (k : Nat) :
    re ps (.l2 x :: os) k =
      .l2 (wr (cxOf ps os) x) :: re (liOf x os :: ps) os (padTo x (trl x (sizeSum os) + k)) := rfl

theorem wire_l2 (ps : List LayerInfo) (x : Obj) (os : List AnyObj) :
    wire ps (.l2 x :: os) = hb (cxOf ps os) x ++ wire (liOf x os :: ps) os ++ List.replicate (trl x (sizeSum os)) 0 := rfl

theorem cxOf_innerSize_sum (ps : List LayerInfo) (os : List AnyObj) : (cxOf ps os).innerSize = sizeSum os := rfl

/-- one layer of `wire_re`, given the result for the stack below -/
theorem wire_re_step (ps ps' : List LayerInfo) (x : Obj) (R R' : List AnyObj) (k n : Nat)
    (hinv : ObjInv x) (hnn : sizeSum R = n) (hkx : k = 0 ∨ EtherTier x)
    (hstp : ∀ l, x = .llc l → (cxOf ps R).innerCls ≠ some "STP")
    (hpad : ∀ q, x = .dot1q q → q.appendPadding = true → hasPppoe R = false)
    (hsim : CtxSim (cxOf ps R) (cxOf ps' R'))
    (hw : wire (liOf (wr (cxOf ps R) x) R' :: ps') R' =
      wire (liOf x R :: ps) R ++ List.replicate (pk R (padTo x (trl x n + k))) 0)
    (hsz : sizeSum R' = n + pk R (padTo x (trl x n + k))) :
    wire ps' (.l2 (wr (cxOf ps R) x) :: R') = wire ps (.l2 x :: R) ++ List.replicate (pk (.l2 x :: R) k) 0 ∧
    sizeSum (.l2 (wr (cxOf ps R) x) :: R') = sizeSum (.l2 x :: R) + pk (.l2 x :: R) k := by
  rw [wire_l2, wire_l2, sizeSum_l2, sizeSum_l2, hnn, hsz, hw, wr_hdr]
  by_cases hxp : isPppoe x = true
  · -- PPPoE: the padding is cut off
    have hkk : padTo x (trl x n + k) = 0 := by simp [padTo, hxp]
    rw [hkk, pk_zero] at hsz ⊢
    have hpk0 : pk (.l2 x :: R) k = 0 := by simp [pk, hasPppoe, hxp]
    have hhb := hb_wr (cxOf ps R) (cxOf ps' R') x hsim hinv
      ⟨fun d _ => by rw [cxOf_innerSize_sum, cxOf_innerSize_sum, hsz, hnn]; rfl,
       fun p _ => by rw [cxOf_innerSize_sum, cxOf_innerSize_sum, hsz, hnn]; rfl⟩ hstp
    have htr : trl (wr (cxOf ps R) x) n = trl x n := by
      cases x <;> first | rfl | (simp [isPppoe] at hxp)
    rw [hhb, hpk0, Nat.add_zero, htr]
    exact ⟨by simp, rfl⟩
  · have hxp' : isPppoe x = false := by simpa using hxp
    have hkk : padTo x (trl x n + k) = trl x n + k := by simp [padTo, hxp']
    rw [hkk] at hsz ⊢
    by_cases hpp : hasPppoe R = true
    · -- a PPPoE below cuts the padding off: same sizes, same trailer
      have hpkR : pk R (trl x n + k) = 0 := by simp [pk, hpp]
      rw [hpkR] at hsz ⊢
      have hpk0 : pk (.l2 x :: R) k = 0 := by simp [pk, hasPppoe, hpp]
      have hhb := hb_wr (cxOf ps R) (cxOf ps' R') x hsim hinv
        ⟨fun d _ => by rw [cxOf_innerSize_sum, cxOf_innerSize_sum, hsz, hnn]; rfl,
         fun p _ => by rw [cxOf_innerSize_sum, cxOf_innerSize_sum, hsz, hnn]; rfl⟩ hstp
      have htr : trl (wr (cxOf ps R) x) n = trl x n := by
        apply trl_wr_same
        intro q hq
        cases hqa : q.appendPadding with
        | false => rfl
        | true => have := hpad q hq hqa; rw [hpp] at this; cases this
      rw [hhb, hpk0, Nat.add_zero, htr]
      exact ⟨by simp, rfl⟩
    · -- the padding is absorbed by the payload: no trailer any more
      have hpp' : hasPppoe R = false := by simpa using hpp
      have hpkR : pk R (trl x n + k) = trl x n + k := by simp [pk, hpp']
      rw [hpkR] at hsz ⊢
      have hpk0 : pk (.l2 x :: R) k = k := by simp [pk, hasPppoe, hpp', hxp']
      have hk0 : ¬ EtherTier x → k = 0 := fun hne => by rcases hkx with h | h; exact h; exact absurd h hne
      have hhb := hb_wr (cxOf ps R) (cxOf ps' R') x hsim hinv
        ⟨fun d hd => by
           subst hd
           have h0 : k = 0 := hk0 (by simp [EtherTier])
           subst h0
           rw [cxOf_innerSize_sum, cxOf_innerSize_sum, hsz, hnn]; rfl,
         fun p hp' => by subst hp'; simp [isPppoe] at hxp'⟩ hstp
      have htr := trl_wr_absorb (cxOf ps R) x n k
      rw [hhb, hpk0, htr]
      refine ⟨by simp [List.replicate_append_replicate], by omega⟩

/-- **the closed forms agree**: the serialization of the re-parsed stack is the serialization of the original one followed
    by the padding that reached the payload (and the sizes agree) -/
theorem wire_re (os : List AnyObj) : ∀ (ps ps' : List LayerInfo) (k : Nat),
    Stackable os → PadKept os → (splitRaw os).2 ≠ [] → ps'.isEmpty = ps.isEmpty →
    (∀ x r, os = .l2 x :: r → k = 0 ∨ EtherTier x) →
    wire ps' (re ps os k) = wire ps os ++ List.replicate (pk os k) 0 ∧ sizeSum (re ps os k) = sizeSum os + pk os k := by
  induction os with
  | nil => intro ps ps' k _ _ hp; exact absurd rfl hp
  | cons a r ih =>
    intro ps ps' k hs hpk hp hps hk
    cases a with
    | raw p =>
      have hr : r = [] := hs
      subst hr
      simp [re, wire, pk, hasPppoe, sizeSum, infos, AnyObj.hdr, AnyObj.trl]
    | l2 x =>
      obtain ⟨hinv, hlink, hs'⟩ := hs
      have hr : r ≠ [] := by intro e; subst e; exact hp rfl
      obtain ⟨a2, r2, rfl⟩ : ∃ a2 r2, r = a2 :: r2 := by
        cases r with
        | nil => exact absurd rfl hr
        | cons a2 r2 => exact ⟨a2, r2, rfl⟩
      rw [splitRaw_l2_cons] at hp
      have hkx : k = 0 ∨ EtherTier x := hk x _ rfl
      have hk'' : ∀ y r3, a2 :: r2 = .l2 y :: r3 →
          padTo x (trl x (sizeSum (a2 :: r2)) + k) = 0 ∨ EtherTier y := by
        intro y r3 he
        have hl : Link x (.l2 y r3) := by rw [he] at hlink; exact hlink
        have hnp : isPppoe x = false := by cases x <;> first | rfl | (simp [Link] at hl)
        have := link_pad [liOf x []] x y r3 (sizeSum (a2 :: r2)) k hl
          (by rcases hkx with h | h; exact .inl h; exact .inr ⟨by simp, h⟩)
        simpa [padTo, hnp] using this
      rw [re_l2]
      rcases ih (liOf x (a2 :: r2) :: ps) (liOf (wr (cxOf ps (a2 :: r2)) x)
          (re (liOf x (a2 :: r2) :: ps) (a2 :: r2) (padTo x (trl x (sizeSum (a2 :: r2)) + k))) :: ps')
        (padTo x (trl x (sizeSum (a2 :: r2)) + k)) hs' (padKept_tail _ _ hpk) hp rfl hk'' with ⟨hw, hsz⟩
      have hstp : ∀ l, x = .llc l → (cxOf ps (a2 :: r2)).innerCls ≠ some "STP" := by
        intro l hl
        subst hl
        cases hnx : next (a2 :: r2) with
        | none => have := next_none hnx; cases this
        | raw p => have := next_raw hnx; rw [this, cxOf_innerCls_raw]; decide
        | l2 y r3 => rw [hnx] at hlink; simp [Link] at hlink
        | bad => rw [hnx] at hlink; simp [Link] at hlink
      exact wire_re_step ps ps' x (a2 :: r2) _ k _ hinv rfl hkx hstp
        (fun q hq => by subst hq; exact hpk.1) ⟨hps, infos_re_key _ _ _ hs'⟩ hw hsz
    | ip _ => exact hs.elim
    | ip6 _ => exact hs.elim
    | icmp _ => exact hs.elim
    | tr _ => exact hs.elim
    | app _ => exact hs.elim
    | wifi _ => exact hs.elim

/-! ### the re-parsed stack is again a stack `PDU::serialize` is total on -/

theorem link_serializable (x : Obj) (n : Next) (h : Link x n) : Serializable x := by
  cases x <;> first | trivial | (cases n <;> simp [Link] at h)

theorem stackable_good (os : List AnyObj) (h : Stackable os) : Good os := by
  induction os with
  | nil => trivial
  | cons a r ih =>
    cases a with
    | raw p => exact h
    | l2 x => exact ⟨h.1, link_serializable x _ h.2.1, ih h.2.2⟩
    | ip _ => exact h.elim
    | ip6 _ => exact h.elim
    | icmp _ => exact h.elim
    | tr _ => exact h.elim
    | app _ => exact h.elim
    | wifi _ => exact h.elim

theorem llc_normal_inv (l : Llc) (h : l.Inv) : l.normal.Inv := by
  unfold Llc.normal
  split
  · exact ⟨h.dsap, h.ssap, h.c0, Nat.zero_lt_succ _, h.ctl, h.bits, h.info⟩
  · exact h

/-- the re-parsed layer satisfies the invariant again -/
theorem wr_inv (ps : List LayerInfo) (x : Obj) (os : List AnyObj) (hi : ObjInv x) (hl : Link x (next os)) :
    ObjInv (wr (cxOf ps os) x) ∧ Serializable (wr (cxOf ps os) x) := by
  cases x with
  | eth e => exact ⟨⟨hi.dst, hi.src, eth_tagFor_lt _ e hi⟩, trivial⟩
  | dot3 d => exact ⟨⟨hi.dst, hi.src, Nat.mod_lt _ (by decide)⟩, trivial⟩
  | llc l => exact ⟨llc_normal_inv l hi, trivial⟩
  | snap s => exact ⟨⟨hi.dsap, hi.ssap, hi.control, hi.org, snap_tagFor_lt _ s hi⟩, trivial⟩
  | dot1q q => exact ⟨⟨hi.priority, hi.cfi, hi.id, dot1q_tagFor_lt _ q hi⟩, trivial⟩
  | mpls m => exact ⟨mpls_written_wf _ m hi, trivial⟩
  | sll s => exact ⟨⟨hi.packetType, hi.lladdrType, hi.lladdrLen, hi.address, sll_tagFor_lt _ s hi⟩, trivial⟩
  | loopback l => exact ⟨loopback_familyFor_lt _ l hi, trivial⟩
  | pppoe p =>
    refine ⟨⟨hi.version, hi.type, hi.code, hi.sessionId, ?_, hi.size, hi.tags⟩, trivial⟩
    show (if p.code = 0 then (cxOf ps os).innerSize else p.tagsSize) < 65536
    cases hn : next os with
    | none =>
      have := next_none hn; subst this
      rw [hn] at hl
      have h2 : (p.code = 0 → p.tags = []) ∧ p.tagsSize < 65536 := by simpa [Link] using hl
      split
      · rw [cxOf_innerSize_nil]; decide
      · exact h2.2
    | raw b =>
      have := next_raw hn; subst this
      rw [hn] at hl
      have h3 : p.code = 0 ∧ p.tags = [] ∧ b.length < 65536 := by simpa [Link] using hl
      rw [if_pos h3.1, cxOf_innerSize_raw]; exact h3.2.2
    | l2 y r => rw [hn] at hl; simp [Link] at hl
    | bad => rw [hn] at hl; simp [Link] at hl
  | ppi p => cases hn : next os <;> rw [hn] at hl <;> simp [Link] at hl
  | pktap p => cases hn : next os <;> rw [hn] at hl <;> simp [Link] at hl

theorem re_good (os : List AnyObj) : ∀ (ps : List LayerInfo) (k : Nat), Stackable os → Good (re ps os k) := by
  induction os with
  | nil => intro _ _ _; trivial
  | cons a r ih =>
    intro ps k h
    cases a with
    | raw p => rfl
    | l2 x =>
      have := wr_inv ps x r h.1 h.2.1
      exact ⟨this.1, this.2, ih _ _ h.2.2⟩
    | ip _ => exact h.elim
    | ip6 _ => exact h.elim
    | icmp _ => exact h.elim
    | tr _ => exact h.elim
    | app _ => exact h.elim
    | wifi _ => exact h.elim

/-! ### the theorem -/

/-- **C03 / L2, whole packets, second half — full statement**: serializing the re-parsed packet reproduces the bytes
    whenever the innermost payload is non-empty -/
def l2_chain_reserialize_fixpoint : Prop :=
  ∀ (o : AnyObj) (os : List AnyObj) (out : Bytes) (os' : List AnyObj), Stackable (o :: os) →
    (splitRaw (o :: os)).2 ≠ [] → serializeObjs (o :: os) = .ok out →
    parseChain (out.length + 2) o.info.1 out = .ok os' → serializeObjs os' = .ok out

/-- **… proved part** (`PadKept`: no Dot1Q that pads on behalf of `append_padding_` above a PPPoE layer — object state that
    is not on the wire, KF-C04-L2-4; every parsed stack satisfies it, see `padKept_of_noAppend`): for every representable
    stack of any depth with a non-empty innermost payload, the second serialization equals the first -/
theorem l2_chain_reserialize_fixpoint_partial (o : AnyObj) (os : List AnyObj) (out : Bytes) (os' : List AnyObj)
    (hs : Stackable (o :: os)) (hk : PadKept (o :: os)) (hp : (splitRaw (o :: os)).2 ≠ [])
    (hser : serializeObjs (o :: os) = .ok out) (hpar : parseChain (out.length + 2) o.info.1 out = .ok os') :
    serializeObjs os' = .ok out := by
  have hout : out = wire [] (o :: os) := by
    have := (serializeObjs_wire _ (stackable_good _ hs)).symm.trans hser
    injection this with this
    exact this.symm
  have hre : os' = re [] (o :: os) 0 := by
    cases o with
    | raw p =>
      have hr : os = [] := hs
      subst hr
      have hw : wire [] [AnyObj.raw p] = p := rfl
      rw [hw] at hout
      subst hout
      have : parseChain (out.length + 2) "RawPDU" out = .ok [.raw out] := by
        simp [parseChain, modelled, parseOne]
      have := this.symm.trans hpar
      injection this with this
      rw [← this]
      simp [re]
    | l2 x =>
      rcases chain_reparse_aux os x [] (List.replicate (Wire.sizeOf (sems (.l2 x :: os))) 0) 0 hs (by simp [sems])
        (.inl rfl) with ⟨out', hser', hl, hpar'⟩
      have : out' = out := by
        have := hser'.symm.trans hser
        injection this
      subst this
      rcases hpar' (out'.length + 2) (by omega) with ⟨os'', hp', _, hre⟩
      rw [List.replicate_zero, List.append_nil] at hp'
      have := hp'.symm.trans hpar
      injection this with this
      rw [← this]
      exact hre hp
    | ip _ => exact hs.elim
    | ip6 _ => exact hs.elim
    | icmp _ => exact hs.elim
    | tr _ => exact hs.elim
    | app _ => exact hs.elim
    | wifi _ => exact hs.elim
  rw [hre, serializeObjs_wire _ (re_good _ [] 0 hs), hout,
    (wire_re (o :: os) [] [] 0 hs hk hp rfl (fun _ _ _ => .inl rfl)).1, pk_zero]
  simp

/-- stacks without a padding Dot1Q — in particular every stack that came out of a parser (`Dot1Q.parse` clears
    `append_padding_`) — are not affected by the exclusion -/
def NoAppend : List AnyObj → Prop
  | [] => True
  | .l2 (.dot1q q) :: r => q.appendPadding = false ∧ NoAppend r
  | _ :: r => NoAppend r

theorem padKept_of_noAppend (os : List AnyObj) (h : NoAppend os) : PadKept os := by
  induction os with
  | nil => trivial
  | cons a r ih =>
    cases a with
    | l2 x =>
      cases x with
      | dot1q q => exact ⟨fun ht => absurd (h.1.symm.trans ht) (by decide), ih h.2⟩
      | _ => exact ih h
    | _ => exact ih h

/-! ### the excluded region is real (refutation witness), and the proved part is not vacuous -/

/-- witness: `Dot1Q(5, append_pad = true) / PPPoE session / RawPDU(01 02 03)`.  The first serialization is padded to 50
    bytes; the PPPoE payload length cuts the padding off on re-parsing and the re-parsed Dot1Q does not pad
    (`append_padding_` is not on the wire), so the second serialization has 13 bytes. -/
def padLostWitness : List AnyObj :=
  [.l2 (.dot1q (Dot1Q.create 5 true)), .l2 (.pppoe ⟨1, 1, 0, 0x1234, 0, [], 0⟩), .raw [1, 2, 3]]
def padLostBytes : Bytes := [0x00,0x05,0x88,0x64, 0x11,0,0x12,0x34,0,3, 1,2,3] ++ List.replicate 37 0
def padLostRe : List AnyObj :=
  [.l2 (.dot1q ⟨0, 0, 5, 0x8864, false⟩), .l2 (.pppoe ⟨1, 1, 0, 0x1234, 3, [], 0⟩), .raw [1, 2, 3]]

theorem padLostWitness_stackable : Stackable padLostWitness :=
  ⟨dot1q_create_wf 5 true, trivial,
   ⟨by decide, by decide, by decide, by decide, by decide, rfl, fun t ht => nomatch ht⟩, ⟨rfl, rfl, by decide⟩, rfl⟩

theorem l2_chain_reserialize_fixpoint_fails : ¬ l2_chain_reserialize_fixpoint := by
  intro h
  have h1 := h (.l2 (.dot1q (Dot1Q.create 5 true))) [.l2 (.pppoe ⟨1, 1, 0, 0x1234, 0, [], 0⟩), .raw [1, 2, 3]]
    padLostBytes padLostRe padLostWitness_stackable (by decide) rfl rfl
  have h2 : serializeObjs padLostRe = .ok [0x00,0x05,0x88,0x64, 0x11,0,0x12,0x34,0,3, 1,2,3] := rfl
  rw [h2] at h1
  injection h1 with h1
  exact absurd (congrArg List.length h1) (by decide)

/-- … and it is exactly what `PadKept` excludes -/
example : ¬ PadKept padLostWitness := fun h => absurd (h.1 rfl) (by decide)

section Examples

/-- the stacks of `ThChainReparse.lean`: the second serialization equals the first (padding absorbed by the payload:
    QinQ with a padding Dot1Q, MPLS below EthernetII; padding cut off and re-created: PPPoE below EthernetII) -/
example : serializeObjs exQinQ_re = .ok exQinQ_bytes :=
  l2_chain_reserialize_fixpoint_partial _ _ _ _ exQinQ_stackable ⟨fun _ => rfl, fun _ => rfl, trivial⟩ (by decide) rfl rfl
example : serializeObjs exQinQ_re = .ok exQinQ_bytes := rfl
example : serializeObjs exMpls_re = .ok exMpls_bytes :=
  l2_chain_reserialize_fixpoint_partial _ _ _ _ exMpls_stackable trivial (by decide) rfl rfl
example : serializeObjs exPppoe_re = .ok exPppoe_bytes :=
  l2_chain_reserialize_fixpoint_partial _ _ _ _ exPppoe_stackable trivial (by decide) rfl rfl
example : serializeObjs exDot3_re = .ok [1,2,3,4,5,6, 7,8,9,10,11,12, 0,6, 0xaa,0xaa,3, 1,2,3] :=
  l2_chain_reserialize_fixpoint_partial _ _ _ _ exDot3_stackable trivial (by decide) rfl rfl

/-- the closed form of `PDU::serialize` on a concrete stack -/
example : wire [] exPppoe = exPppoe_bytes := rfl

end Examples

end Tins.Wire.L2
