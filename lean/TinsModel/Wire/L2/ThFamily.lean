import TinsModel.Wire.L2.ThEth
import TinsModel.Wire.L2.ThDot3
import TinsModel.Wire.L2.ThLlcReparse
import TinsModel.Wire.L2.ThSnap
import TinsModel.Wire.L2.ThDot1Q
import TinsModel.Wire.L2.ThMpls
import TinsModel.Wire.L2.ThPPPoEReparse
import TinsModel.Wire.L2.ThSll
import TinsModel.Wire.L2.ThLoopback
import TinsModel.Wire.L2.ThCapture
/-
  Family-level theorems of L2 for the four wire properties, over the interface the registry uses
  (`L2.parse`, `L2.hdr`, `L2.trl`, `L2.write`, `L2.mk`, `L2.apply`).  The per-class theorems are in `Th<Class>.lean`:
    C01  <cls>_parse_safe, <cls>_parse_consumes           (every class, incl. PPI / PKTAP)
    C02  <cls>_writesOnly / _writesOnlyAt                  (every serializable class; LLC / PPPoE for every option list)
    C03  <cls>_reparse                                     (every serializable class)
    C04  setters vs getters, typed codecs, invariants preserved by every API call
-/
namespace Tins.Wire.L2
open Tins Tins.Wire

/-- the invariant of a family object: what parsing establishes and every API call preserves -/
def ObjInv : Obj → Prop
  | .eth e => e.WF
  | .dot3 d => d.WF
  | .llc l => l.Inv
  | .snap s => s.WF
  | .dot1q q => q.WF
  | .mpls m => m.WF
  | .pppoe p => p.Inv
  | .sll s => s.WF
  | .loopback l => l.WF
  | .ppi _ => True
  | .pktap _ => True

/-- everything except the two capture pseudo-headers -/
def Serializable : Obj → Prop
  | .ppi _ => False
  | .pktap _ => False
  | _ => True

/-- the `LayerSem` the registry builds for a family object in context `cx` -/
def l2Sem (cx : Ctx) (o : Obj) : LayerSem :=
  { name := (info o).1, hdr := hdr o, trl := trl o cx.innerSize, write := write cx o }

private theorem ps_map {α β} {x : Out α} (f : α → β) (h : ParseSafe x) : ParseSafe (x >>= fun a => pure (f a)) :=
  ParseSafe.bind h (fun a _ => .ok _)

/-- **C01 / L2**: every parsing constructor of the family, on every byte string, returns a packet or throws
    `malformed_packet`; it never touches a byte outside the buffer -/
theorem l2_parse_safe (cls : String) (b : Bytes) (h : cls ∈ classes) : ParseSafe (parse cls b) := by
  simp only [classes, List.mem_cons, List.mem_nil_iff, or_false] at h
  rcases h with h | h | h | h | h | h | h | h | h | h | h <;> subst h <;> simp only [parse] <;>
    first
    | exact ParseSafe.bind (eth_parse_safe b) (fun a _ => .ok _)
    | exact ParseSafe.bind (dot3_parse_safe b) (fun a _ => .ok _)
    | exact ParseSafe.bind (llc_parse_safe b) (fun a _ => .ok _)
    | exact ParseSafe.bind (snap_parse_safe b) (fun a _ => .ok _)
    | exact ParseSafe.bind (dot1q_parse_safe b) (fun a _ => .ok _)
    | exact ParseSafe.bind (mpls_parse_safe b) (fun a _ => .ok _)
    | exact ParseSafe.bind (pppoe_parse_safe b) (fun a _ => .ok _)
    | exact ParseSafe.bind (sll_parse_safe b) (fun a _ => .ok _)
    | exact ParseSafe.bind (loopback_parse_safe b) (fun a _ => .ok _)
    | exact ParseSafe.bind (ppi_parse_safe b) (fun a _ => .ok _)
    | exact ParseSafe.bind (pktap_parse_safe b) (fun a _ => .ok _)

private theorem map_ok {α β} {x : Out α} {f : α → β} {r : β} (h : (x >>= fun a => pure (f a)) = .ok r) :
    ∃ a, x = .ok a ∧ f a = r := by
  cases x with
  | ok a => exact ⟨a, rfl, by simpa [bind, Out.bind, pure] using h⟩
  | throw e => cases h
  | fault s => cases h

/-- **C01 / L2, termination of the nested constructors**: a parsing constructor of the family hands strictly fewer bytes
    to the next constructor -/
theorem l2_parse_consumes (cls : String) (b : Bytes) (o : Obj) (name : String) (pb : Bytes) (fb : Bool)
    (hc : cls ∈ classes) (h : parse cls b = .ok (o, .cls name pb fb)) : pb.length < b.length := by
  simp only [classes, List.mem_cons, List.mem_nil_iff, or_false] at hc
  rcases hc with hc | hc | hc | hc | hc | hc | hc | hc | hc | hc | hc <;> subst hc <;> simp only [parse] at h <;>
    rcases map_ok h with ⟨⟨x, i⟩, hx, hr⟩ <;> injection hr with _ hi <;> subst hi
  · exact eth_parse_consumes b x name pb fb hx
  · exact dot3_parse_consumes b x name pb fb hx
  · exact llc_parse_consumes b x name pb fb hx
  · exact snap_parse_consumes b x name pb fb hx
  · exact dot1q_parse_consumes b x name pb fb hx
  · exact mpls_parse_consumes b x name pb fb hx
  · exact absurd hx (pppoe_parse_no_cls b x name pb fb)
  · exact sll_parse_consumes b x name pb fb hx
  · exact loopback_parse_consumes b x name pb fb hx
  · exact ppi_parse_consumes b x name pb fb hx
  · exact pktap_parse_consumes b x name pb fb hx

/-- parsing establishes the invariant -/
theorem l2_parse_inv (cls : String) (b : Bytes) (o : Obj) (i : Inner) (hc : cls ∈ classes)
    (h : parse cls b = .ok (o, i)) : ObjInv o := by
  simp only [classes, List.mem_cons, List.mem_nil_iff, or_false] at hc
  rcases hc with hc | hc | hc | hc | hc | hc | hc | hc | hc | hc | hc <;> subst hc <;> simp only [parse] at h <;>
    rcases map_ok h with ⟨⟨x, j⟩, hx, hr⟩ <;> injection hr with ho _ <;> subst ho
  · exact eth_parse_wf b x j hx
  · exact dot3_parse_wf b x j hx
  · exact llc_parse_inv b x j hx
  · exact snap_parse_wf b x j hx
  · exact dot1q_parse_wf b x j hx
  · exact mpls_parse_wf b x j hx
  · exact (pppoe_parse_inv b x j hx).1
  · exact sll_parse_wf b x j hx
  · exact loopback_parse_wf b x j hx
  · trivial
  · trivial

/-- **C02 / L2**: for every serializable family object satisfying the invariant, in every context,
    `write_serialization` succeeds on the region `PDU::serialize` hands out, keeps its length and leaves the inner
    layers' bytes untouched (header-only layers: on every region that is large enough) -/
theorem l2_writesOnlyAt (cx : Ctx) (o : Obj) (hi : ObjInv o) (hs : Serializable o) : WritesOnlyAt (l2Sem cx o) cx.innerSize := by
  cases o with
  | eth e => exact eth_writesOnlyAt cx e hi
  | dot3 d => exact writesOnlyAt_of_writesOnly (dot3_writesOnly cx d hi) _
  | llc l => exact writesOnlyAt_of_writesOnly (llc_writesOnly cx l hi) _
  | snap s => exact writesOnlyAt_of_writesOnly (snap_writesOnly cx s) _
  | dot1q q => exact dot1q_writesOnlyAt cx q
  | mpls m => exact writesOnlyAt_of_writesOnly (mpls_writesOnly cx m) _
  | pppoe p => exact writesOnlyAt_of_writesOnly (pppoe_writesOnly cx p hi) _
  | sll s => exact writesOnlyAt_of_writesOnly (sll_writesOnly cx s hi) _
  | loopback l => exact writesOnlyAt_of_writesOnly (loopback_writesOnly cx l) _
  | ppi p => exact absurd hs id
  | pktap p => exact absurd hs id

theorem parseMac_length (v : String) (m : Bytes) (h : parseMac v = some m) : m.length = 6 := by
  simp only [parseMac] at h
  split at h
  · split at h
    · rename_i hb; injection h with h; subst h; simpa using hb
    · cases h
  · cases h

theorem eth_apply_wf (e e' : Eth) (op : List String) (h : e.WF) (ha : ethApply e op = .ok e') : e'.WF := by
  unfold ethApply at ha
  split at ha
  · split at ha
    · rename_i m hm; injection ha with ha; subst ha; exact ⟨parseMac_length _ _ hm, h.src, h.ptype⟩
    · cases ha
  · split at ha
    · rename_i m hm; injection ha with ha; subst ha; exact ⟨h.dst, parseMac_length _ _ hm, h.ptype⟩
    · cases ha
  · split at ha
    · injection ha with ha; subst ha; exact ⟨h.dst, h.src, Nat.mod_lt _ (by decide)⟩
    · cases ha
  · cases ha

/-- the public constructors establish the invariant -/
theorem l2_mk_inv (cls : String) (args : List String) (o : Obj) (h : mk cls args = .ok o) : ObjInv o := by
  unfold mk at h
  split at h
  · injection h with h; subst h; exact ⟨by simp, by simp, by decide⟩
  · split at h
    · rename_i d s hd hs; injection h with h; subst h
      exact ⟨parseMac_length _ _ hd, parseMac_length _ _ hs, by simp⟩
    · cases h
  · injection h with h; subst h; exact dot3_create_wf _ _ (by simp) (by simp)
  · split at h
    · rename_i d s hd hs; injection h with h; subst h
      exact dot3_create_wf _ _ (parseMac_length _ _ hd) (parseMac_length _ _ hs)
    · cases h
  · injection h with h; subst h; exact llc_create_inv 0 0
  · split at h
    · injection h with h; subst h; exact llc_create_inv _ _
    · cases h
  · injection h with h; subst h; exact snap_create_wf
  · injection h with h; subst h; exact dot1q_create_wf 0 true
  · split at h
    · injection h with h; subst h; exact dot1q_create_wf _ _
    · cases h
  · injection h with h; subst h; exact mpls_create_wf
  · injection h with h; subst h; exact pppoe_create_inv
  · injection h with h; subst h; exact sll_create_wf
  · injection h with h; subst h; exact (by simp [Loopback.WF, Loopback.create] : Loopback.create.WF)
  · split at h
    · cases hp : Pktap.parse _ with
      | ok r =>
        rw [hp] at h
        simp only [bind, Out.bind] at h
        split at h
        · simp only [pure] at h; injection h with h; subst h; trivial
        · cases h
      | throw e => rw [hp] at h; cases h
      | fault s => rw [hp] at h; cases h
    · cases h
  · cases h

/-- **C04 / L2**: every API call keeps the invariant — with `l2_mk_inv` and `l2_parse_inv`: every object reachable by
    parsing or by any finite sequence of constructor / setter / add-tag / add-XID calls satisfies it, so `l2_writesOnlyAt`
    applies to all of them -/
theorem l2_apply_inv (o o' : Obj) (op : List String) (hi : ObjInv o) (h : apply o op = .ok o') : ObjInv o' := by
  cases o with
  | eth e =>
    simp only [apply] at h
    rcases map_ok h with ⟨x, hx, hr⟩; subst hr; exact eth_apply_wf e x op hi hx
  | dot3 d =>
    simp only [apply] at h
    rcases map_ok h with ⟨x, hx, hr⟩; subst hr; exact dot3_apply_wf d x op hi hx
  | llc l =>
    simp only [apply] at h
    rcases map_ok h with ⟨x, hx, hr⟩; subst hr; exact llc_apply_inv l x op hi hx
  | snap s =>
    simp only [apply] at h
    rcases map_ok h with ⟨x, hx, hr⟩; subst hr; exact snap_apply_wf s x op hi hx
  | dot1q q =>
    simp only [apply] at h
    rcases map_ok h with ⟨x, hx, hr⟩; subst hr; exact dot1q_apply_wf q x op hi hx
  | mpls m =>
    simp only [apply] at h
    rcases map_ok h with ⟨x, hx, hr⟩; subst hr; exact mpls_apply_wf m x op hi hx
  | pppoe p =>
    simp only [apply] at h
    rcases map_ok h with ⟨x, hx, hr⟩; subst hr; exact pppoe_apply_inv p x op hi hx
  | sll s =>
    simp only [apply] at h
    rcases map_ok h with ⟨x, hx, hr⟩; subst hr; exact sll_apply_wf s x op hi hx
  | loopback l =>
    simp only [apply] at h
    rcases map_ok h with ⟨x, hx, hr⟩; subst hr; exact loopback_apply_wf l x op hx
  | ppi p => simp [apply] at h
  | pktap p => simp [apply] at h

/-! ### next-protocol tags survive the round trip (C03 lift through the dispatch; decided over the generated tables) -/

/-- every EtherType libtins derives from a payload class is one the parsers dispatch on: a derived tag is never re-parsed
    as an opaque RawPDU -/
theorem derived_ether_tag_dispatches :
    ∀ p ∈ Gen.Tags.pduTypeToEther, (Tags.classOfEther p.2).isSome = true := by decide

/-- for the family's own classes the dispatch leads back to the class the tag was derived from -/
theorem l2_ether_tag_roundtrip (cls : String) (h : cls ∈ ["Dot1Q", "MPLS", "PPPoE"]) (f : Fields) (hd tr : Nat) :
    Tags.classOfEther (etherTagOf ⟨cls, f, hd, tr⟩) = some cls := by
  simp only [List.mem_cons, List.mem_nil_iff, or_false] at h
  rcases h with h | h | h <;> subst h
  · have hp : Tags.pduTypeOf "Dot1Q" = "DOT1Q" := by decide
    have hn : ("DOT1Q" == "PPPOE") = false := by decide
    simp only [etherTagOf, hp, hn, Bool.false_eq_true, if_false]
    decide
  · have hp : Tags.pduTypeOf "MPLS" = "MPLS" := by decide
    have hn : ("MPLS" == "PPPOE") = false := by decide
    simp only [etherTagOf, hp, hn, Bool.false_eq_true, if_false]
    decide
  · have hp : Tags.pduTypeOf "PPPoE" = "PPPOE" := by decide
    simp only [etherTagOf, hp, beq_self_eq_true, if_true]
    split <;> decide

/-- EthernetII's own choice of tag (PPPoE by stage, 802.1ad for stacked VLAN tags) also leads back to the class -/
theorem eth_tag_roundtrip :
    Tags.classOfEther 34916 = some "PPPoE" ∧ Tags.classOfEther 34915 = some "PPPoE" ∧
    Tags.classOfEther 34984 = some "Dot1Q" ∧ Tags.classOfEther (Tags.etherOfPduType (Tags.pduTypeOf "Dot1Q")) = some "Dot1Q" ∧
    Tags.classOfEther (Tags.etherOfPduType (Tags.pduTypeOf "MPLS")) = some "MPLS" := by decide

end Tins.Wire.L2
