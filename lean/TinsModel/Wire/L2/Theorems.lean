import TinsModel.Wire.L2.ThFamily
import TinsModel.Wire.L2.ThChain
import TinsModel.Wire.L2.ThChainParse
/-
  Per-layer and family-level theorems of the L2 family for the four wire properties.  Index:

  Lemmas.lean        closed forms of the stream operations, `ParseSafe`, exact-size chain theorems (`ChainOK`,
                     `serialize_ok_at`, `serializeInto_frame_at`) — EthernetII / Dot1Q meet the per-layer obligation only
                     on the regions `PDU::serialize` hands out, because they skip over `inner_pdu()->size()` bytes
  Th<Class>.lean     <cls>_parse_eq (closed form), _parse_safe, _parse_consumes (C01); _writesOnly / _writesOnlyAt (C02);
                     _reparse, _reparse_view, _tag_kept (C03); _apply_wf / _apply_inv, setters vs getters, codecs (C04)
  ThLlcReparse.lean  the known finding KF-C04-L2-1: `llc_api_reparse` (full statement), `llc_api_reparse_fails`
                     (witness), `llc_api_reparse_partial` / `llc_api_reparse_holds_without_infos` (proved part)
  ThFamily.lean      l2_parse_safe, l2_parse_consumes, l2_parse_inv, l2_mk_inv, l2_apply_inv, l2_writesOnlyAt
  ThChain.lean       l2_chain_serialize_total, l2_chain_frame over the registry's `sems`
  ThChainView.lean   `ViewEq` = the C03 comparison of two stacks (Lean counterpart of `Driver.WireSpec.sameView`)
  ThChainStep.lean   `Stackable` (what the protocols can express), <cls>_step / l2_step: the one-layer step of whole-packet C03
  ThChainReparse.lean  l2_chain_reparse: whole-packet C03 (re-parse preserves the view) for stacks of any depth, examples
  ThChainFixpoint.lean serializeInto_wire (closed form of PDU::serialize), l2_chain_reserialize_fixpoint_partial /
                     _fails: whole-packet C03, second half (the second serialization reproduces the bytes)
  ThChainParse.lean  parse_stackable (what the parsing constructors accept is `Stackable`), l2_c03 (property C03 as stated)
-/
