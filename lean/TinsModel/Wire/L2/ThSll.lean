import TinsModel.Wire.L2.Lemmas
/- SLL: C01 parse safety, C02 write region, C03 reparse, C04 setters -/
namespace Tins.Wire.L2
open Tins Tins.Wire

namespace Sll

structure WF (s : Sll) : Prop where
  packetType : s.packetType < 65536
  lladdrType : s.lladdrType < 65536
  lladdrLen : s.lladdrLen < 65536
  address : s.address.length = 8
  protocol : s.protocol < 65536

def view (s : Sll) : Nat × Nat × Nat × Bytes := (s.packetType, s.lladdrType, s.lladdrLen, s.address)

def ofHeader (h : Bytes) : Sll :=
  ⟨Cursor.beNat (h.take 2), Cursor.beNat ((h.drop 2).take 2), Cursor.beNat ((h.drop 4).take 2),
   (h.drop 6).take 8, Cursor.beNat (h.drop 14)⟩

end Sll

theorem sll_parse_eq (b : Bytes) :
    Sll.parse b =
      if b.length < 16 then .throw .malformedPacket
      else .ok (Sll.ofHeader (b.take 16),
                if b.length > 16 then etherInner (Sll.ofHeader (b.take 16)).protocol (b.drop 16) else .none) := by
  simp only [Sll.parse, read_ofBytes]
  by_cases h : b.length < 16
  · simp [h, bind, Out.bind]
  · by_cases h2 : b.length > 16
    · have : b.length - 16 > 0 := by omega
      simp only [h, h2, this, if_false, if_true, bind, Out.bind, toBool_mk, rest_after_read, decide_true, Sll.ofHeader, etherInner]
      split <;> simp [*, pure]
    · have : ¬ b.length - 16 > 0 := by omega
      simp [h, h2, this, bind, Out.bind, toBool_mk, pure, Sll.ofHeader]

/-- **C01 / SLL** -/
theorem sll_parse_safe (b : Bytes) : ParseSafe (Sll.parse b) := by
  rw [sll_parse_eq]; split
  · exact .malformed
  · exact .ok _

theorem sll_parse_consumes (b : Bytes) (s : Sll) (name : String) (pb : Bytes) (fb : Bool)
    (h : Sll.parse b = .ok (s, .cls name pb fb)) : pb.length < b.length := by
  rw [sll_parse_eq] at h
  split at h
  · cases h
  · split at h
    · injection h with h; injection h with _ h
      have := etherInner_cls_len _ _ _ _ _ h
      subst this; simp only [List.length_drop]; omega
    · injection h with h; injection h with _ h; cases h

theorem sll_ofHeader_wf (h : Bytes) (hl : h.length = 16) : (Sll.ofHeader h).WF := by
  refine ⟨?_, ?_, ?_, ?_, ?_⟩
  · have := beNat_lt (h.take 2); simp only [List.length_take, hl] at this; exact this
  · have := beNat_lt ((h.drop 2).take 2); simp only [List.length_take, List.length_drop, hl] at this; exact this
  · have := beNat_lt ((h.drop 4).take 2); simp only [List.length_take, List.length_drop, hl] at this; exact this
  · simp only [Sll.ofHeader, List.length_take, List.length_drop, hl]; rfl
  · have := beNat_lt (h.drop 14); simp only [List.length_drop, hl] at this; exact this

theorem sll_parse_wf (b : Bytes) (s : Sll) (i : Inner) (h : Sll.parse b = .ok (s, i)) : s.WF := by
  rw [sll_parse_eq] at h
  split at h
  · cases h
  · injection h with h; injection h with hs _
    subst hs
    exact sll_ofHeader_wf _ (by simp only [List.length_take]; omega)

theorem sll_create_wf : Sll.create.WF := ⟨by decide, by decide, by decide, by decide, by decide⟩

theorem sll_headerBytes_length (s : Sll) (h : s.address.length = 8) : s.headerBytes.length = 16 := by
  simp [Sll.headerBytes, h]

theorem sll_ofHeader_headerBytes (s : Sll) (h : s.WF) : Sll.ofHeader s.headerBytes = s := by
  cases s with
  | mk pt lt ll addr proto =>
    have h1 := h.packetType; have h2 := h.lladdrType; have h3 := h.lladdrLen; have h4 := h.address; have h5 := h.protocol
    simp only at h1 h2 h3 h4 h5
    simp only [Sll.ofHeader, Sll.headerBytes, List.append_assoc, Sll.mk.injEq]
    refine ⟨?_, ?_, ?_, ?_, ?_⟩
    · rw [take_append_len _ _ 2 (by simp), beNat_beBytes]; exact Nat.mod_eq_of_lt (by omega)
    · rw [drop_append_len _ _ 2 (by simp), take_append_len _ _ 2 (by simp), beNat_beBytes]; exact Nat.mod_eq_of_lt (by omega)
    · rw [← List.append_assoc, drop_append_len _ _ 4 (by simp), take_append_len _ _ 2 (by simp), beNat_beBytes]
      exact Nat.mod_eq_of_lt (by omega)
    · rw [← List.append_assoc, ← List.append_assoc, drop_append_len _ _ 6 (by simp), take_append_len _ _ 8 h4]
    · rw [← List.append_assoc, ← List.append_assoc, ← List.append_assoc, drop_append_len _ _ 14 (by simp [h4]), beNat_beBytes]
      exact Nat.mod_eq_of_lt (by omega)

def sllSem (cx : Ctx) (s : Sll) : LayerSem := { name := "SLL", hdr := 16, trl := 0, write := s.write cx }

/-- **C02 / SLL** -/
theorem sll_writesOnly (cx : Ctx) (s : Sll) (h : s.WF) : WritesOnly (sllSem cx s) :=
  writesOnly_of_writeAtStart _ 16 _ ({ s with protocol := Sll.tagFor cx s } : Sll).headerBytes
    (sll_headerBytes_length _ h.address) (fun _ => rfl)

theorem sll_tagFor_lt (cx : Ctx) (s : Sll) (h : s.WF) : Sll.tagFor cx s < 65536 := by
  unfold Sll.tagFor
  split
  · exact h.protocol
  · dsimp only
    split
    · exact etherTagOf_lt _
    · exact h.protocol

/-- **C03 / SLL** -/
theorem sll_reparse (cx : Ctx) (s : Sll) (h : s.WF) (region : Bytes) (hr : 16 ≤ region.length) :
    ∃ out, s.write cx region = .ok out ∧ out.length = region.length ∧
      Sll.parse out = .ok ({ s with protocol := Sll.tagFor cx s },
        if region.length > 16 then etherInner (Sll.tagFor cx s) (region.drop 16) else .none) := by
  have hwf1 : ({ s with protocol := Sll.tagFor cx s } : Sll).WF :=
    ⟨h.packetType, h.lladdrType, h.lladdrLen, h.address, sll_tagFor_lt cx s h⟩
  rcases writeAtStart_ok region _ 16 (sll_headerBytes_length { s with protocol := Sll.tagFor cx s } h.address) hr with
    ⟨hw, hlen, ht, hd⟩
  refine ⟨_, hw, hlen, ?_⟩
  rw [sll_parse_eq, hlen, ht, hd, sll_ofHeader_headerBytes _ hwf1]
  have h1 : ¬ region.length < 16 := by omega
  simp only [h1, if_false]

/-- the protocol is left alone when the payload class has no EtherType (fix of the unconditional overwrite) -/
theorem sll_tag_kept (cx : Ctx) (s : Sll)
    (hu : ∀ i, cx.inners.head? = some i → etherTagOf i = 0) : Sll.tagFor cx s = s.protocol := by
  unfold Sll.tagFor
  split
  · rfl
  · rename_i i hc
    simp [hu i hc]

theorem sll_reparse_view (cx : Ctx) (s : Sll) (h : s.WF) (region : Bytes) (hr : 16 ≤ region.length) :
    ∃ out s' i, s.write cx region = .ok out ∧ Sll.parse out = .ok (s', i) ∧ s'.view = s.view ∧
      ((∀ i, cx.inners.head? = some i → etherTagOf i = 0) → s' = s) := by
  rcases sll_reparse cx s h region hr with ⟨out, hw, _, hp⟩
  refine ⟨out, _, _, hw, hp, rfl, fun hu => ?_⟩
  rw [sll_tag_kept cx s hu]

theorem parseHexN_length (n : Nat) (v : String) (a : Bytes) (h : parseHexN n v = some a) : a.length = n := by
  simp only [parseHexN] at h
  split at h
  · split at h
    · rename_i hb; injection h with h; subst h; simpa using hb
    · cases h
  · cases h

/-- **C04 / SLL** -/
theorem sll_apply_wf (s s' : Sll) (op : List String) (h : s.WF) (ha : s.apply op = .ok s') : s'.WF := by
  unfold Sll.apply at ha
  split at ha
  · split at ha
    · injection ha with ha; subst ha; exact ⟨Nat.mod_lt _ (by decide), h.lladdrType, h.lladdrLen, h.address, h.protocol⟩
    · cases ha
  · split at ha
    · injection ha with ha; subst ha; exact ⟨h.packetType, Nat.mod_lt _ (by decide), h.lladdrLen, h.address, h.protocol⟩
    · cases ha
  · split at ha
    · injection ha with ha; subst ha; exact ⟨h.packetType, h.lladdrType, Nat.mod_lt _ (by decide), h.address, h.protocol⟩
    · cases ha
  · split at ha
    · rename_i a hq; injection ha with ha; subst ha
      exact ⟨h.packetType, h.lladdrType, h.lladdrLen, parseHexN_length 8 _ _ hq, h.protocol⟩
    · cases ha
  · split at ha
    · injection ha with ha; subst ha; exact ⟨h.packetType, h.lladdrType, h.lladdrLen, h.address, Nat.mod_lt _ (by decide)⟩
    · cases ha
  · cases ha

example : ∃ s i, Sll.parse ([0, 4, 0, 1, 0, 6, 1, 2, 3, 4, 5, 6, 0, 0, 0x12, 0x34] ++ [7]) = .ok (s, i) ∧
    s.packetType = 4 ∧ s.protocol = 0x1234 ∧ i = .raw [7] := ⟨_, _, rfl, rfl, rfl, rfl⟩

end Tins.Wire.L2
