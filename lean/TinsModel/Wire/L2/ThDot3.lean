import TinsModel.Wire.L2.Lemmas
/- Dot3: C01 parse safety, C02 write region, C03 reparse, C04 setters -/
namespace Tins.Wire.L2
open Tins Tins.Wire

namespace Dot3

/-- well-formedness of the typed state (what the C++ member types guarantee) -/
structure WF (d : Dot3) : Prop where
  dst : d.dst.length = 6
  src : d.src.length = 6
  len : d.len < 65536

/-- the non-derived getters -/
def view (d : Dot3) : Bytes × Bytes := (d.dst, d.src)

end Dot3

/-- closed form of the parsing constructor -/
theorem dot3_parse_eq (b : Bytes) :
    Dot3.parse b =
      if b.length < 14 then .throw .malformedPacket
      else .ok (⟨(b.take 14).take 6, ((b.take 14).drop 6).take 6, Cursor.beNat ((b.take 14).drop 12)⟩,
                if b.length > 14 then .cls "LLC" (b.drop 14) false else .none) := by
  simp only [Dot3.parse, read_ofBytes]
  by_cases h : b.length < 14
  · simp [h, bind, Out.bind]
  · by_cases h2 : b.length > 14
    · have : b.length - 14 > 0 := by omega
      simp [h, h2, this, bind, Out.bind, toBool_mk, rest_after_read, pure]
    · have : ¬ b.length - 14 > 0 := by omega
      simp [h, h2, this, bind, Out.bind, toBool_mk, pure]

/-- **C01 / Dot3** -/
theorem dot3_parse_safe (b : Bytes) : ParseSafe (Dot3.parse b) := by
  rw [dot3_parse_eq]; split
  · exact .malformed
  · exact .ok _

/-- the inner constructor gets strictly fewer bytes (termination of the nested constructors) -/
theorem dot3_parse_consumes (b : Bytes) (d : Dot3) (name : String) (pb : Bytes) (fb : Bool)
    (h : Dot3.parse b = .ok (d, .cls name pb fb)) : pb.length < b.length := by
  rw [dot3_parse_eq] at h
  split at h
  · cases h
  · split at h
    · injection h with h; injection h with _ h; injection h with _ hp _
      subst hp; simp only [List.length_drop]; omega
    · injection h with h; injection h with _ h; cases h

theorem dot3_parse_wf (b : Bytes) (d : Dot3) (i : Inner) (h : Dot3.parse b = .ok (d, i)) : d.WF := by
  rw [dot3_parse_eq] at h
  split at h
  · cases h
  · rename_i hl
    injection h with h; injection h with hd _
    subst hd
    refine ⟨?_, ?_, ?_⟩
    · simp only [List.length_take]; omega
    · simp only [List.length_take, List.length_drop]; omega
    · have := beNat_lt ((b.take 14).drop 12)
      simp only [List.length_take, List.length_drop] at this
      have h2 : min 14 b.length - 12 = 2 := by omega
      rw [h2] at this; exact this

theorem dot3_create_wf (dst src : Bytes) (hd : dst.length = 6) (hs : src.length = 6) : (Dot3.create dst src).WF :=
  ⟨hd, hs, by simp [Dot3.create]⟩

def dot3Sem (cx : Ctx) (d : Dot3) : LayerSem := { name := "Dot3", hdr := 14, trl := 0, write := d.write cx }

theorem dot3_headerBytes_length (d : Dot3) (h : d.WF) : d.headerBytes.length = 14 := by
  simp [Dot3.headerBytes, h.dst, h.src]

/-- **C02 / Dot3**: on every region of at least 14 bytes `write_serialization` succeeds, keeps the length and touches
    only the 14 header bytes -/
theorem dot3_writesOnly (cx : Ctx) (d : Dot3) (h : d.WF) : WritesOnly (dot3Sem cx d) := by
  apply writesOnly_of_header_only _ rfl
  intro region hr
  simp only [dot3Sem] at hr
  have hl : ({ d with len := cx.innerSize % 65536 } : Dot3).headerBytes.length = 14 :=
    dot3_headerBytes_length _ ⟨h.dst, h.src, Nat.mod_lt _ (by decide)⟩
  have hw := writeAtStart_eq region _ (by rw [hl]; exact hr)
  refine ⟨_, by simpa [dot3Sem, Dot3.write] using hw, ?_, ?_⟩
  · exact length_prefix_replaced _ _ (by rw [hl]; exact hr)
  · simp only [dot3Sem]
    exact drop_prefix_replaced _ _ 14 (by rw [hl]; exact Nat.le_refl 14)

/-- **C03 / Dot3**: what `write_serialization` puts in front of the inner bytes parses back to the same addresses, the
    length field libtins derived, and the inner bytes untouched, handed to the LLC constructor -/
theorem dot3_reparse (cx : Ctx) (d : Dot3) (h : d.WF) (region : Bytes) (hr : 14 ≤ region.length) :
    ∃ out, d.write cx region = .ok out ∧ out.length = region.length ∧
      Dot3.parse out = .ok ({ d with len := cx.innerSize % 65536 },
                            if region.length > 14 then .cls "LLC" (region.drop 14) false else .none) := by
  have hwf1 : ({ d with len := cx.innerSize % 65536 } : Dot3).WF := ⟨h.dst, h.src, Nat.mod_lt _ (by decide)⟩
  have hl := dot3_headerBytes_length _ hwf1
  have hw := writeAtStart_eq region _ (by rw [hl]; exact hr)
  have hlen := length_prefix_replaced ({ d with len := cx.innerSize % 65536 } : Dot3).headerBytes region (by rw [hl]; exact hr)
  refine ⟨_, by simpa [Dot3.write] using hw, hlen, ?_⟩
  rw [dot3_parse_eq, hlen, hl]
  have h1 : ¬ region.length < 14 := by omega
  simp only [h1, if_false]
  have ht : (({ d with len := cx.innerSize % 65536 } : Dot3).headerBytes ++ region.drop 14).take 14 =
      ({ d with len := cx.innerSize % 65536 } : Dot3).headerBytes := take_append_len _ _ 14 hl
  have hd : (({ d with len := cx.innerSize % 65536 } : Dot3).headerBytes ++ region.drop 14).drop 14 = region.drop 14 :=
    drop_append_len _ _ 14 hl
  rw [ht, hd]
  have e1 : (({ d with len := cx.innerSize % 65536 } : Dot3).headerBytes).take 6 = d.dst := by
    simp only [Dot3.headerBytes, List.append_assoc]; exact take_append_len _ _ 6 h.dst
  have e2 : ((({ d with len := cx.innerSize % 65536 } : Dot3).headerBytes).drop 6).take 6 = d.src := by
    simp only [Dot3.headerBytes, List.append_assoc]
    rw [drop_append_len _ _ 6 h.dst]; exact take_append_len _ _ 6 h.src
  have e3 : (({ d with len := cx.innerSize % 65536 } : Dot3).headerBytes).drop 12 = OutCursor.beBytes 2 (cx.innerSize % 65536) := by
    simp only [Dot3.headerBytes]
    exact drop_append_len _ _ 12 (by simp [h.dst, h.src])
  rw [e1, e2, e3, beNat_beBytes]
  have : cx.innerSize % 65536 % 256 ^ 2 = cx.innerSize % 65536 := Nat.mod_eq_of_lt (by have := Nat.mod_lt cx.innerSize (show 65536 > 0 by decide); omega)
  rw [this]

/-- the view (addresses) survives; the length field is the one libtins derives -/
theorem dot3_reparse_view (cx : Ctx) (d : Dot3) (h : d.WF) (region : Bytes) (hr : 14 ≤ region.length) :
    ∃ out d' i, d.write cx region = .ok out ∧ Dot3.parse out = .ok (d', i) ∧ d'.view = d.view := by
  rcases dot3_reparse cx d h region hr with ⟨out, hw, _, hp⟩
  exact ⟨out, _, _, hw, hp, rfl⟩

/-- **C04 / Dot3**: setters store exactly the value (truncated to the field width), other fields unchanged -/
theorem dot3_apply_wf (d d' : Dot3) (op : List String) (h : d.WF) (ha : d.apply op = .ok d') : d'.WF := by
  unfold Dot3.apply at ha
  split at ha
  · split at ha
    · rename_i m hm; injection ha with ha; subst ha
      refine ⟨?_, h.src, h.len⟩
      simp only [parseMac] at hm; split at hm
      · split at hm
        · rename_i hb; injection hm with hm; subst hm; simpa using hb
        · cases hm
      · cases hm
    · cases ha
  · split at ha
    · rename_i m hm; injection ha with ha; subst ha
      refine ⟨h.dst, ?_, h.len⟩
      simp only [parseMac] at hm; split at hm
      · split at hm
        · rename_i hb; injection hm with hm; subst hm; simpa using hb
        · cases hm
      · cases hm
    · cases ha
  · split at ha
    · injection ha with ha; subst ha; exact ⟨h.dst, h.src, Nat.mod_lt _ (by decide)⟩
    · cases ha
  · cases ha

example : ∃ d i, Dot3.parse [1,2,3,4,5,6, 7,8,9,10,11,12, 0,3, 0xaa,0xaa,3] = .ok (d, i) ∧ d.len = 3 ∧ d.WF :=
  ⟨_, _, rfl, rfl, ⟨rfl, rfl, by decide⟩⟩
example : Dot3.parse [1,2,3] = .throw .malformedPacket := rfl

end Tins.Wire.L2
