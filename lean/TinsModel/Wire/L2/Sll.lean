import TinsModel.Wire.L2.Util
/- `Tins::SLL` (src/sll.cpp): Linux cooked capture header, 16 bytes -/
namespace Tins.Wire.L2

structure Sll where
  packetType : Nat
  lladdrType : Nat
  lladdrLen : Nat
  address : Bytes     -- 8 bytes
  protocol : Nat
deriving Repr, DecidableEq

namespace Sll

/-- `SLL::SLL(const uint8_t*, uint32_t)` -/
def parse (b : Bytes) : Out (Sll × Inner) := do
  let c := Cursor.ofBytes b
  let (h, c) ← c.read 16                                  -- stream.read(header_)
  let s : Sll := ⟨Cursor.beNat (h.take 2), Cursor.beNat ((h.drop 2).take 2), Cursor.beNat ((h.drop 4).take 2),
                  (h.drop 6).take 8, Cursor.beNat (h.drop 14)⟩
  if c.toBool then
    let rest ← Cursor.rest "SLL::SLL inner" c
    match Tags.classOfEther s.protocol with
    | some cls => pure (s, .cls cls rest false)
    | none => pure (s, .raw rest)
  else pure (s, .none)

def fields (s : Sll) : Fields :=
  [("packet_type", toString s.packetType), ("lladdr_type", toString s.lladdrType), ("lladdr_len", toString s.lladdrLen),
   ("address", hexStr s.address), ("^protocol", toString s.protocol)]

def headerBytes (s : Sll) : Bytes :=
  OutCursor.beBytes 2 s.packetType ++ OutCursor.beBytes 2 s.lladdrType ++ OutCursor.beBytes 2 s.lladdrLen ++ s.address ++
  OutCursor.beBytes 2 s.protocol

def tagFor (cx : Ctx) (s : Sll) : Nat :=
  match cx.inners.head? with
  | none => s.protocol
  | some i =>
    let flag := etherTagOf i
    if flag != 0 then flag else s.protocol

/-- `SLL::write_serialization` -/
def write (cx : Ctx) (s : Sll) (region : Bytes) : Out Bytes :=
  writeAtStart region ({ s with protocol := tagFor cx s }).headerBytes

/-- `SLL::SLL()` -/
def create : Sll := ⟨0, 0, 0, List.replicate 8 0, 0⟩

def apply (s : Sll) : List String → Out Sll
  | ["packet_type", v] => match natArg v with | some n => .ok { s with packetType := n % 65536 } | none => .throw .stdOther
  | ["lladdr_type", v] => match natArg v with | some n => .ok { s with lladdrType := n % 65536 } | none => .throw .stdOther
  | ["lladdr_len", v] => match natArg v with | some n => .ok { s with lladdrLen := n % 65536 } | none => .throw .stdOther
  | ["address", v] => match parseHexN 8 v with | some a => .ok { s with address := a } | none => .throw .stdOther
  | ["protocol", v] => match natArg v with | some n => .ok { s with protocol := n % 65536 } | none => .throw .stdOther
  | _ => .throw .stdOther

end Sll
end Tins.Wire.L2
