import TinsModel.Wire.L2.ThPPPoE
/-
  PPPoE: the TLV round trip of the tag encoding, C03/C04 reparse of discovery and session packets, the tag container
  as a last-write / first-match list, and the typed codecs (vendor-specific tag).
-/
namespace Tins.Wire.L2
open Tins Tins.Wire

theorem pppoe_foldl_addTag (ts : List PppoeTag) (p : PPPoE) :
    (ts.foldl PPPoE.addTag p) = { p with tags := p.tags ++ ts, tagsSize := p.tagsSize + PPPoE.tagsLen ts } := by
  induction ts generalizing p with
  | nil => simp [PPPoE.tagsLen]
  | cons t ts ih =>
    simp only [List.foldl_cons, ih, PPPoE.addTag, List.append_assoc, List.singleton_append, PPPoE.mk.injEq, true_and]
    simp [PPPoE.tagsLen]; omega

/-- **TLV round trip**: the parser's tag loop run over the writer's encoding of any list of well-formed tags gives the
    list back, in order, whatever follows the list (induction over the list) -/
theorem pppoe_parseTags_roundtrip (ts : List PppoeTag) (hts : ∀ t ∈ ts, PPPoE.TagOK t) (junk : Bytes) (fuel : Nat)
    (hf : PPPoE.tagsLen ts < fuel) (p : PPPoE) :
    PPPoE.parseTags fuel ⟨ts.flatMap PPPoE.tagBytes ++ junk, PPPoE.tagsLen ts⟩ p = .ok (ts.foldl PPPoE.addTag p) := by
  induction ts generalizing fuel p with
  | nil =>
    cases fuel with
    | zero => omega
    | succ f => simp [PPPoE.parseTags, Cursor.toBool, PPPoE.tagsLen]
  | cons t ts ih =>
    cases fuel with
    | zero => omega
    | succ f =>
      have hl : PPPoE.tagsLen (t :: ts) = t.data.length + 4 + PPPoE.tagsLen ts := by simp [PPPoE.tagsLen]
      have ht := hts t List.mem_cons_self
      have hmem : (t :: ts).flatMap PPPoE.tagBytes ++ junk =
          OutCursor.leBytes 2 t.code ++ (OutCursor.beBytes 2 t.lenField ++ (t.data ++ (ts.flatMap PPPoE.tagBytes ++ junk))) := by
        simp [List.flatMap_cons, PPPoE.tagBytes, List.append_assoc]
      rw [hmem, hl]
      unfold PPPoE.parseTags
      have hb : (⟨OutCursor.leBytes 2 t.code ++ (OutCursor.beBytes 2 t.lenField ++ (t.data ++ (ts.flatMap PPPoE.tagBytes ++ junk))),
          t.data.length + 4 + PPPoE.tagsLen ts⟩ : Cursor).toBool = true := by simp [Cursor.toBool]; omega
      have r1 := read_prefix' (OutCursor.leBytes 2 t.code)
        (OutCursor.beBytes 2 t.lenField ++ (t.data ++ (ts.flatMap PPPoE.tagBytes ++ junk))) (t.data.length + 4 + PPPoE.tagsLen ts) 2
        (by simp) (by omega)
      have r2 := read_prefix' (OutCursor.beBytes 2 t.lenField) (t.data ++ (ts.flatMap PPPoE.tagBytes ++ junk))
        (t.data.length + 4 + PPPoE.tagsLen ts - 2) 2 (by simp) (by omega)
      have e1 : Cursor.leNat (OutCursor.leBytes 2 t.code) = t.code := by
        rw [leNat_leBytes]; exact Nat.mod_eq_of_lt (by have := ht.code; omega)
      have e2 : Cursor.beNat (OutCursor.beBytes 2 t.lenField) = t.data.length := by
        rw [beNat_beBytes, ht.len]; exact Nat.mod_eq_of_lt (by have := ht.size; omega)
      have hcr : (⟨t.data ++ (ts.flatMap PPPoE.tagBytes ++ junk), t.data.length + 4 + PPPoE.tagsLen ts - 2 - 2⟩ : Cursor).canRead
          t.data.length = true := by simp [Cursor.canRead]; omega
      have hpk : Cursor.peek "PPPoE::PPPoE tag(opt_type, opt_len, stream.pointer())"
          ⟨t.data ++ (ts.flatMap PPPoE.tagBytes ++ junk), t.data.length + 4 + PPPoE.tagsLen ts - 2 - 2⟩ 0 t.data.length = .ok t.data := by
        simp [Cursor.peek, rdN]
      have hsk : (⟨t.data ++ (ts.flatMap PPPoE.tagBytes ++ junk), t.data.length + 4 + PPPoE.tagsLen ts - 2 - 2⟩ : Cursor).skip
          t.data.length = .ok ⟨ts.flatMap PPPoE.tagBytes ++ junk, PPPoE.tagsLen ts⟩ := by
        have : ¬ t.data.length > t.data.length + 4 + PPPoE.tagsLen ts - 2 - 2 := by omega
        simp only [Cursor.skip, this, if_false, List.drop_left, Out.ok.injEq, Cursor.mk.injEq, true_and]
        omega
      have ih' := ih (fun x hx => hts x (List.mem_cons_of_mem _ hx)) f (by omega) (p.addTag ⟨t.code, t.data.length, t.data⟩)
      have htt : (⟨t.code, t.data.length, t.data⟩ : PppoeTag) = t := by
        cases t with
        | mk c l d => simp only [PppoeTag.mk.injEq, true_and, and_true]; exact ht.len.symm
      rw [htt] at ih'
      simp only [hb, Bool.not_true, Bool.false_eq_true, if_false, Cursor.readLE, Cursor.readBE, r1, r2, Out.bind_ok, Out.pure_eq,
        e1, e2, hcr, hpk, hsk, ih', htt, List.foldl_cons]

/-- decoding the 6 header bytes of a well-formed object gives its header fields back (no tags yet) -/
theorem pppoe_ofHeader_headerBytes (p : PPPoE) (h : p.Inv) (rest : Bytes) :
    PPPoE.ofHeader ((p.headerBytes ++ rest).take 6) = { p with tags := [], tagsSize := 0 } := by
  rw [take_append_len _ _ 6 (pppoe_headerBytes_length p)]
  cases p with
  | mk v ty c sid pl tags ts =>
    have h1 := h.version; have h2 := h.type; have h3 := h.code; have h4 := h.sessionId; have h5 := h.payloadLength
    simp only at h1 h2 h3 h4 h5
    have e0 : (UInt8.ofNat (ty + v * 16)).toNat = ty + v * 16 := ofNat_toNat_lt _ (by omega)
    have e1 : (UInt8.ofNat c).toNat = c := ofNat_toNat_lt _ h3
    simp only [PPPoE.ofHeader, PPPoE.headerBytes, List.cons_append, List.nil_append, byteAt_cons_zero, byteAt_cons_succ,
      List.drop_succ_cons, List.drop_zero, e0, e1, PPPoE.mk.injEq, and_true]
    refine ⟨by omega, by omega, trivial, ?_, ?_⟩
    · rw [take_append_len _ _ 2 (by simp), beNat_beBytes]; exact Nat.mod_eq_of_lt (by omega)
    · rw [drop_append_len _ _ 2 (by simp), beNat_beBytes]; exact Nat.mod_eq_of_lt (by omega)

/-- the parsing constructor on a 6-byte header `hb` followed by `rest` -/
theorem pppoe_parse_hdr (hb rest : Bytes) (hl : hb.length = 6) :
    PPPoE.parse (hb ++ rest) =
      (let p := PPPoE.ofHeader hb
       let readSize := if rest.length < p.payloadLength then rest.length else p.payloadLength
       let c : Cursor := ⟨rest, readSize⟩
       if p.code == 0 then
         (if c.toBool then (Cursor.rest "PPPoE::PPPoE RawPDU" c >>= fun r => pure (p, .raw r)) else pure (p, .none))
       else (PPPoE.parseTags (c.size + 1) c p >>= fun p' => pure (p', .none))) := by
  rw [pppoe_parse_unfold]
  have h6 : ¬ (hb ++ rest).length < 6 := by simp [hl]
  have hsub : (hb ++ rest).length - 6 = rest.length := by simp [hl]
  simp only [h6, if_false, take_append_len _ _ 6 hl, drop_append_len _ _ 6 hl, hsub]

theorem pppoe_ofHeader_headerBytes_exact (p : PPPoE) (h : p.Inv) : PPPoE.ofHeader p.headerBytes = { p with tags := [], tagsSize := 0 } := by
  have := pppoe_ofHeader_headerBytes p h []
  rwa [List.append_nil, List.take_of_length_le (by rw [pppoe_headerBytes_length]; exact Nat.le_refl 6)] at this

/-- **C03/C04 / PPPoE discovery**: a discovery packet (code ≠ 0, nothing inside, tag list within the 16-bit length field)
    is re-parsed with exactly the same tags in the same order, whatever padding follows the frame -/
theorem pppoe_reparse_discovery (cx : Ctx) (p : PPPoE) (h : p.Inv) (hcode : p.code ≠ 0) (hsz : p.tagsSize < 65536)
    (hin : cx.inners = []) (region : Bytes) (hr : region.length = p.hdr) (junk : Bytes) :
    ∃ out, p.write cx region = .ok out ∧ out.length = region.length ∧
      PPPoE.parse (out ++ junk) = .ok ({ p with payloadLength := p.tagsSize }, .none) := by
  have hw := pppoe_write_eq cx p h region (by omega)
  have hlf : PPPoE.lengthFor cx p region.length = p.tagsSize := by
    unfold PPPoE.lengthFor
    simp only [hin, List.isEmpty_nil, Bool.not_true, Bool.or_false, hr, PPPoE.hdr]
    split
    · rw [show 6 + p.tagsSize - 6 = p.tagsSize by omega]; exact Nat.mod_eq_of_lt hsz
    · rename_i hz; simp only [decide_eq_true_eq, Nat.not_lt, Nat.le_zero_eq] at hz; omega
  have hwr : PPPoE.written cx p region.length = { p with payloadLength := p.tagsSize } := by simp [PPPoE.written, hlf]
  rw [hwr] at hw
  clear hwr hlf
  cases p with
  | mk v ty c sid pl tags ts =>
    have hsize : ts = PPPoE.tagsLen tags := h.size
    subst hsize
    simp only at hcode hsz hw ⊢
    have hinv1 : (⟨v, ty, c, sid, PPPoE.tagsLen tags, tags, PPPoE.tagsLen tags⟩ : PPPoE).Inv :=
      ⟨h.version, h.type, h.code, h.sessionId, hsz, rfl, h.tags⟩
    have hfl := pppoe_flat_length tags
    simp only [PPPoE.hdr] at hr hw
    have hdn : region.drop (6 + PPPoE.tagsLen tags) = [] := List.drop_eq_nil_of_le (by omega)
    rw [hdn, List.append_nil] at hw
    refine ⟨_, hw, ?_, ?_⟩
    · simp only [List.length_append, pppoe_headerBytes_length, hfl]; omega
    · rw [List.append_assoc, pppoe_parse_hdr _ _ (pppoe_headerBytes_length _), pppoe_ofHeader_headerBytes_exact _ hinv1]
      have hc0 : ((c == 0) = false) := by simpa using hcode
      have hrs : ¬ (tags.flatMap PPPoE.tagBytes ++ junk).length < PPPoE.tagsLen tags := by
        simp only [List.length_append, hfl]; omega
      simp only [hc0, Bool.false_eq_true, if_false, hrs]
      rw [pppoe_parseTags_roundtrip tags h.tags _ _ (by omega), pppoe_foldl_addTag]
      simp

/-- **C03/C04 / PPPoE session**: a session packet (code 0, no tags) gets its payload length from what follows the header
    (DESIGN §7 #20) and re-parses to the same header with exactly the inner bytes as payload, whatever padding follows
    the frame -/
theorem pppoe_reparse_session (cx : Ctx) (p : PPPoE) (h : p.Inv) (hcode : p.code = 0) (hnt : p.tags = [])
    (hn : cx.innerSize < 65536) (region : Bytes) (hr : region.length = 6 + cx.innerSize) (junk : Bytes) :
    ∃ out, p.write cx region = .ok out ∧ out.length = region.length ∧
      PPPoE.parse (out ++ junk) = .ok ({ p with payloadLength := cx.innerSize },
        if cx.innerSize > 0 then .raw (region.drop 6) else .none) := by
  have hts : p.tagsSize = 0 := by rw [h.size, hnt]; rfl
  have hhdr : p.hdr = 6 := by simp [PPPoE.hdr, hts]
  have hw := pppoe_write_eq cx p h region (by omega)
  have hlf : PPPoE.lengthFor cx p region.length = cx.innerSize := by
    unfold PPPoE.lengthFor
    simp only [hts, Nat.lt_irrefl, decide_false, Bool.false_or, hr]
    by_cases he : cx.inners.isEmpty = true
    · simp [he, ctx_innerSize_of_isEmpty cx he]
    · simp only [he, Bool.not_false, if_true]
      rw [show 6 + cx.innerSize - 6 = cx.innerSize by omega]; exact Nat.mod_eq_of_lt hn
  have hwr : PPPoE.written cx p region.length = { p with payloadLength := cx.innerSize } := by simp [PPPoE.written, hlf]
  rw [hwr, hhdr] at hw
  clear hwr hlf hhdr
  cases p with
  | mk v ty c sid pl tags ts =>
    simp only at hcode hnt hts hw ⊢
    subst hcode; subst hnt; subst hts
    have hinv1 : (⟨v, ty, 0, sid, cx.innerSize, [], 0⟩ : PPPoE).Inv :=
      ⟨h.version, h.type, h.code, h.sessionId, hn, rfl, h.tags⟩
    simp only [List.flatMap_nil, List.append_nil] at hw
    refine ⟨_, hw, ?_, ?_⟩
    · simp only [List.length_append, List.length_drop, pppoe_headerBytes_length]; omega
    · rw [List.append_assoc, pppoe_parse_hdr _ _ (pppoe_headerBytes_length _), pppoe_ofHeader_headerBytes_exact _ hinv1]
      have hdl : (region.drop 6).length = cx.innerSize := by simp only [List.length_drop]; omega
      have hrs : ¬ (region.drop 6 ++ junk).length < cx.innerSize := by
        simp only [List.length_append, hdl]; omega
      simp only [beq_self_eq_true, if_true, hrs, if_false, toBool_mk]
      by_cases hpos : cx.innerSize > 0
      · simp only [hpos, decide_true, if_true]
        rw [rest_mk _ _ _ (by simp only [List.length_append, hdl]; omega), take_append_len _ _ _ hdl]
        simp
      · simp [hpos]

/-! ### C04: the tag container and the typed codecs -/

/-- `search_tag` after `add_tag`: first match wins — an earlier tag of that type shadows the new one -/
theorem pppoe_searchTag_addTag (p : PPPoE) (t : PppoeTag) (code : Nat) :
    (p.addTag t).searchTag code = (p.searchTag code).or (if t.code == code then some t else none) := by
  simp only [PPPoE.searchTag, PPPoE.addTag, List.find?_append, List.find?_cons, List.find?_nil]
  cases h : (t.code == code) <;> simp

/-- a tag type that is not present is found right after it has been added, with exactly the bytes given -/
theorem pppoe_typed_roundtrip (p : PPPoE) (code : Nat) (d : Bytes) (hd : d.length ≤ 65535)
    (hnew : p.searchTag code = none) :
    ∃ t, PPPoE.mkTag code d = .ok t ∧ (p.addTag t).searchTag code = some t ∧ t.data = d ∧ t.lenField = d.length := by
  have : ¬ d.length > 65535 := by omega
  refine ⟨⟨code, d.length, d⟩, by simp [PPPoE.mkTag, this], ?_, rfl, rfl⟩
  rw [pppoe_searchTag_addTag, hnew]; simp

/-- more than 65535 bytes cannot be put into one tag: rejected with `option_payload_too_large` -/
theorem pppoe_mkTag_too_large (code : Nat) (d : Bytes) (hd : d.length > 65535) :
    PPPoE.mkTag code d = .throw .optionPayloadTooLarge := by simp [PPPoE.mkTag, hd]

/-- **codec inverse, vendor-specific tag**: `vendor_spec_type::from_option` undoes `PPPoE::vendor_specific(v)` for every
    32-bit vendor id and every data block -/
theorem pppoe_vendor_codec (vendorId : Nat) (d : Bytes) (hv : vendorId < 4294967296) :
    PPPoE.decodeVendor (PPPoE.encodeVendor vendorId d) = .ok (vendorId, d) := by
  have h4 : (OutCursor.beBytes 4 vendorId).length = 4 := by simp
  have hnl : ¬ (OutCursor.beBytes 4 vendorId ++ d).length < 4 := by simp
  simp only [PPPoE.decodeVendor, PPPoE.encodeVendor, hnl, if_false, take_append_len _ _ 4 h4, drop_append_len _ _ 4 h4,
    beNat_beBytes]
  have : vendorId % 256 ^ 4 = vendorId := Nat.mod_eq_of_lt (by omega)
  rw [this]

/-- fewer than 4 bytes: `malformed_option`, never a read outside the tag -/
theorem pppoe_vendor_short (t : PppoeTag) (h : t.data.length < 4) : PPPoE.decodeVendor t = .throw .malformedOption := by
  simp [PPPoE.decodeVendor, h]

/-- the ten RFC 2516 tag numbers are pairwise different in host order (the `RELAY_SESSION_ID` fix) -/
theorem pppoe_tag_codes_distinct :
    [PPPoE.END_OF_LIST, PPPoE.SERVICE_NAME, PPPoE.AC_NAME, PPPoE.HOST_UNIQ, PPPoE.AC_COOKIE, PPPoE.VENDOR_SPECIFIC,
     PPPoE.RELAY_SESSION_ID, PPPoE.SERVICE_NAME_ERROR, PPPoE.AC_SYSTEM_ERROR, PPPoE.GENERIC_ERROR].Nodup := by decide

/-- every API call keeps the invariant, so `header_size()` equals the bytes written after any add history -/
theorem pppoe_addTyped_inv (p p' : PPPoE) (code : Nat) (v : String) (h : p.Inv) (hc : code < 65536)
    (ha : p.addTyped code v = .ok p') : p'.Inv := by
  unfold PPPoE.addTyped at ha
  split at ha
  · rename_i d _
    unfold PPPoE.mkTag at ha
    split at ha
    · cases ha
    · rename_i hle
      simp only [bind, Out.bind, pure] at ha
      injection ha with ha; subst ha
      exact PPPoE.addTag_inv p _ h ⟨rfl, hc, by simp only; omega⟩
  · cases ha

theorem pppoe_code_lt :
    PPPoE.END_OF_LIST < 65536 ∧ PPPoE.SERVICE_NAME < 65536 ∧ PPPoE.AC_NAME < 65536 ∧ PPPoE.HOST_UNIQ < 65536 ∧
    PPPoE.AC_COOKIE < 65536 ∧ PPPoE.VENDOR_SPECIFIC < 65536 ∧ PPPoE.RELAY_SESSION_ID < 65536 ∧
    PPPoE.SERVICE_NAME_ERROR < 65536 ∧ PPPoE.AC_SYSTEM_ERROR < 65536 ∧ PPPoE.GENERIC_ERROR < 65536 := by decide

theorem pppoe_apply_inv (p p' : PPPoE) (op : List String) (h : p.Inv) (ha : p.apply op = .ok p') : p'.Inv := by
  rcases pppoe_code_lt with ⟨c0, c1, c2, c3, c4, c5, c6, c7, c8, c9⟩
  unfold PPPoE.apply at ha
  split at ha
  · split at ha
    · injection ha with ha; subst ha; exact ⟨Nat.mod_lt _ (by decide), h.type, h.code, h.sessionId, h.payloadLength, h.size, h.tags⟩
    · cases ha
  · split at ha
    · injection ha with ha; subst ha; exact ⟨h.version, Nat.mod_lt _ (by decide), h.code, h.sessionId, h.payloadLength, h.size, h.tags⟩
    · cases ha
  · split at ha
    · injection ha with ha; subst ha; exact ⟨h.version, h.type, Nat.mod_lt _ (by decide), h.sessionId, h.payloadLength, h.size, h.tags⟩
    · cases ha
  · split at ha
    · injection ha with ha; subst ha; exact ⟨h.version, h.type, h.code, Nat.mod_lt _ (by decide), h.payloadLength, h.size, h.tags⟩
    · cases ha
  · split at ha
    · injection ha with ha; subst ha; exact ⟨h.version, h.type, h.code, h.sessionId, Nat.mod_lt _ (by decide), h.size, h.tags⟩
    · cases ha
  · split at ha
    · exact pppoe_addTyped_inv p p' _ _ h (Nat.mod_lt _ (by decide)) ha
    · cases ha
  · split at ha
    · exact pppoe_addTyped_inv p p' _ _ h (Nat.mod_lt _ (by decide)) ha
    · cases ha
  · injection ha with ha; subst ha; exact PPPoE.addTag_inv p _ h ⟨rfl, c0, by simp⟩
  · exact pppoe_addTyped_inv p p' _ _ h c1 ha
  · exact pppoe_addTyped_inv p p' _ _ h c2 ha
  · exact pppoe_addTyped_inv p p' _ _ h c3 ha
  · exact pppoe_addTyped_inv p p' _ _ h c4 ha
  · exact pppoe_addTyped_inv p p' _ _ h c6 ha
  · exact pppoe_addTyped_inv p p' _ _ h c7 ha
  · exact pppoe_addTyped_inv p p' _ _ h c8 ha
  · exact pppoe_addTyped_inv p p' _ _ h c9 ha
  · split at ha
    · rename_i i d _ _
      split at ha
      · cases ha
      · rename_i hle
        injection ha with ha; subst ha
        refine PPPoE.addTag_inv p _ h ⟨?_, c5, ?_⟩
        · simp only [PPPoE.encodeVendor, List.length_append, OutCursor.beBytes_length]
          exact Nat.mod_eq_of_lt (by omega)
        · simp only [PPPoE.encodeVendor, List.length_append, OutCursor.beBytes_length]; omega
    · cases ha
  · cases ha

example : PPPoE.parse [0x11, 0x09, 0, 0, 0, 8, 1, 1, 0, 0, 1, 3, 0, 0] =
    .ok (⟨1, 1, 9, 0, 8, [⟨257, 0, []⟩, ⟨769, 0, []⟩], 8⟩, .none) := rfl
example : PPPoE.RELAY_SESSION_ID = 0x1001 ∧ PPPoE.SERVICE_NAME = 0x0101 := ⟨rfl, rfl⟩

end Tins.Wire.L2
