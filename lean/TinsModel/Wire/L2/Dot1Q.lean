import TinsModel.Wire.L2.Util
/-
  `Tins::Dot1Q` (src/dot1q.cpp), little-endian bit-field layout:
  byte0 = priority(3)<<5 | cfi(1)<<4 | idH(4), byte1 = idL, bytes 2..3 = payload type (big-endian).
-/
namespace Tins.Wire.L2

structure Dot1Q where
  priority : Nat     -- 3 bits
  cfi : Nat          -- 1 bit
  id : Nat           -- 12 bits: idL | idH << 8
  ptype : Nat        -- payload_type(), host order
  appendPadding : Bool
deriving Repr, DecidableEq

namespace Dot1Q

/-- `Dot1Q::Dot1Q(const uint8_t*, uint32_t)` (`append_padding_` is value-initialised to false) -/
def parse (b : Bytes) : Out (Dot1Q × Inner) := do
  let c := Cursor.ofBytes b
  let (h, c) ← c.read 4                                   -- stream.read(header_)
  let b0 := byteAt h 0
  let q : Dot1Q := ⟨b0 / 32, b0 / 16 % 2, byteAt h 1 + b0 % 16 * 256, Cursor.beNat (h.drop 2), false⟩
  if c.toBool then
    let rest ← Cursor.rest "Dot1Q::Dot1Q inner" c
    match Tags.classOfEther q.ptype with
    | some cls => pure (q, .cls cls rest false)
    | none => pure (q, .raw rest)
  else pure (q, .none)

def fields (q : Dot1Q) : Fields :=
  [("priority", toString q.priority), ("cfi", toString q.cfi), ("id", toString q.id),
   ("^payload_type", toString q.ptype), ("~append_padding", toString (b2n q.appendPadding))]

def headerBytes (q : Dot1Q) : Bytes :=
  [UInt8.ofNat (q.priority * 32 + q.cfi * 16 + q.id / 256), UInt8.ofNat (q.id % 256)] ++ OutCursor.beBytes 2 q.ptype

/-- `Dot1Q::trailer_size()`: pad `header + inner` to 50 bytes when `append_padding_` is set -/
def trl (q : Dot1Q) (innerSize : Nat) : Nat :=
  if q.appendPadding then (if 4 + innerSize > 50 then 0 else 50 - (4 + innerSize)) else 0

def tagFor (cx : Ctx) (q : Dot1Q) : Nat :=
  match cx.inners.head? with
  | none => 0                                         -- payload_type(0)
  | some i =>
    let flag := etherTagOf i
    if flag != 0 then flag else q.ptype

/-- `Dot1Q::write_serialization` -/
def write (cx : Ctx) (q : Dot1Q) (region : Bytes) : Out Bytes := do
  let q1 := { q with ptype := tagFor cx q }
  let o ← (OutCursor.ofRegion region).write q1.headerBytes
  let o ← if cx.inners.isEmpty then pure o else o.skip cx.innerSize   -- if (inner_pdu()) stream.skip(inner_pdu()->size())
  let o ← o.fill (trl q cx.innerSize) 0
  pure o.buffer

/-- `Dot1Q::Dot1Q(small_uint<12> tag_id = 0, bool append_pad = true)` -/
def create (id : Nat) (pad : Bool) : Dot1Q := ⟨0, 0, id % 4096, 0, pad⟩

def apply (q : Dot1Q) : List String → Out Dot1Q
  | ["priority", v] => match natArg v with | some n => .ok { q with priority := n % 8 } | none => .throw .stdOther
  | ["cfi", v] => match natArg v with | some n => .ok { q with cfi := n % 2 } | none => .throw .stdOther
  | ["id", v] => match natArg v with | some n => .ok { q with id := n % 4096 } | none => .throw .stdOther
  | ["payload_type", v] => match natArg v with | some n => .ok { q with ptype := n % 65536 } | none => .throw .stdOther
  | ["append_padding", v] => match boolArg v with | some b => .ok { q with appendPadding := b } | none => .throw .stdOther
  | _ => .throw .stdOther

end Dot1Q
end Tins.Wire.L2
