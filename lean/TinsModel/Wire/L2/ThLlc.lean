import TinsModel.Wire.L2.Lemmas
/-
  LLC: C01 parse safety, C02 write region (information fields included: size function = bytes written), C03 reparse,
  C04 setters/getters on the packed control field, and the known finding about XID information fields.
-/
namespace Tins.Wire.L2
open Tins Tins.Wire

namespace Llc

def ctlLenOf : LlcFormat → Nat
  | .unnumbered => 1
  | _ => 2

/-- the type bits of the first control octet agree with the stored format -/
def bitsOK : LlcFormat → Nat → Prop
  | .information, c0 => c0 % 2 = 0
  | .supervisory, c0 => c0 % 4 = 1
  | .unnumbered, c0 => c0 % 4 = 3

instance (t : LlcFormat) (c : Nat) : Decidable (bitsOK t c) := by
  cases t <;> simp only [bitsOK] <;> infer_instance

/-- invariant of every LLC object reachable by parsing or through the API -/
structure Inv (l : Llc) : Prop where
  dsap : l.dsap < 256
  ssap : l.ssap < 256
  c0 : l.c0 < 256
  c1 : l.c1 < 256
  ctl : l.ctlLen = ctlLenOf l.typ
  bits : bitsOK l.typ l.c0
  info : l.infoLen = (l.infos.map List.length).sum

/-- what the parsing constructor builds on the bytes after the control field -/
def innerFor (dsap ssap : Nat) (rest : Bytes) : Inner :=
  if rest.length > 0 then
    (if dsap == 0x42 && ssap == 0x42 then .cls "STP" rest false else .raw rest)
  else .none

/-- all getters -/
def view (l : Llc) : Nat × Nat × LlcFormat × Nat × Nat × Nat × Nat × Nat :=
  (l.dsap, l.ssap, l.typ, l.sendSeq, l.recvSeq, l.pollFinal, l.supervisoryFunction, l.modifierFunction)

/-- the second control octet does not exist in unnumbered frames: the parser leaves it unset -/
def normal (l : Llc) : Llc :=
  match l.typ with
  | .unnumbered => { l with c1 := 0 }
  | _ => l

theorem normal_view (l : Llc) : l.normal.view = l.view := by
  unfold normal view sendSeq recvSeq pollFinal supervisoryFunction modifierFunction
  cases ht : l.typ <;> simp [ht]

end Llc

theorem llc_parse_eq (b : Bytes) :
    Llc.parse b =
      if b.length < 3 then .throw .malformedPacket
      else if byteAt b 2 % 4 == 3 then
        .ok (⟨byteAt b 0, byteAt b 1, .unnumbered, 1, byteAt b 2, 0, 0, []⟩, Llc.innerFor (byteAt b 0) (byteAt b 1) (b.drop 3))
      else if b.length < 4 then .throw .malformedPacket
      else .ok (⟨byteAt b 0, byteAt b 1, if byteAt b 2 % 2 == 1 then .supervisory else .information, 2, byteAt b 2,
                 byteAt b 3, 0, []⟩, Llc.innerFor (byteAt b 0) (byteAt b 1) (b.drop 4)) := by
  simp only [Llc.parse, read_ofBytes]
  by_cases h2 : b.length < 2
  · have : b.length < 3 := by omega
    simp [h2, this, bind, Out.bind]
  · simp only [h2, if_false, bind, Out.bind, toBool_mk]
    by_cases h3 : b.length < 3
    · have : ¬ b.length - 2 > 0 := by omega
      simp [h3, this]
    · have h3' : b.length - 2 > 0 := by omega
      have hd : 0 < (b.drop 2).length := by simp only [List.length_drop]; omega
      simp only [h3, h3', decide_true, Bool.not_true, Bool.false_eq_true, if_false, peek_first _ _ _ hd,
        byteAt_take_one, byteAt_drop, byteAt_take b 2 0 (by omega), byteAt_take b 2 1 (by omega), Nat.add_zero]
      by_cases hu : (byteAt b 2 % 4 == 3) = true
      · have r := read_mk_drop b 2 1
        have hr : ¬ b.length - 2 < 1 := by omega
        simp only [hu, if_true, r, hr, if_false, toBool_mk, byteAt_take_one, byteAt_drop, Nat.add_zero,
          show 2 + 1 = 3 from rfl, rest_after_read, Llc.innerFor, List.length_drop, Out.pure_eq]
        by_cases hz : b.length - 3 > 0
        · simp only [hz, decide_true, if_true]
          split <;> simp [*]
        · simp [hz]
      · have r := read_mk_drop b 2 2
        simp only [hu, Bool.false_eq_true, if_false, r]
        by_cases h4 : b.length < 4
        · have : b.length - 2 < 2 := by omega
          simp [h4, this]
        · have hr : ¬ b.length - 2 < 2 := by omega
          have e0 : byteAt ((b.drop 2).take 2) 0 = byteAt b 2 := by rw [byteAt_take _ 2 0 (by omega), byteAt_drop]
          have e1 : byteAt ((b.drop 2).take 2) 1 = byteAt b 3 := by rw [byteAt_take _ 2 1 (by omega), byteAt_drop]
          simp only [h4, hr, if_false, toBool_mk, e0, e1, show 2 + 2 = 4 from rfl, rest_after_read, Llc.innerFor,
            List.length_drop, Out.pure_eq]
          by_cases hz : b.length - 4 > 0
          · simp only [hz, decide_true, if_true]
            split <;> simp [*]
          · simp [hz]

/-- **C01 / LLC**: the raw `*stream.pointer()` is guarded by the `if (!stream)` in front of it -/
theorem llc_parse_safe (b : Bytes) : ParseSafe (Llc.parse b) := by
  rw [llc_parse_eq]
  split
  · exact .malformed
  · split
    · exact .ok _
    · split
      · exact .malformed
      · exact .ok _

theorem llc_innerFor_cls (d s : Nat) (rest : Bytes) (name : String) (pb : Bytes) (fb : Bool)
    (h : Llc.innerFor d s rest = .cls name pb fb) : pb = rest := by
  unfold Llc.innerFor at h
  split at h
  · split at h
    · injection h with _ h _; exact h.symm
    · cases h
  · cases h

theorem llc_parse_consumes (b : Bytes) (l : Llc) (name : String) (pb : Bytes) (fb : Bool)
    (h : Llc.parse b = .ok (l, .cls name pb fb)) : pb.length < b.length := by
  rw [llc_parse_eq] at h
  split at h
  · cases h
  · split at h
    · injection h with h; injection h with _ h
      have := llc_innerFor_cls _ _ _ _ _ _ h
      subst this; simp only [List.length_drop]; omega
    · split at h
      · cases h
      · injection h with h; injection h with _ h
        have := llc_innerFor_cls _ _ _ _ _ _ h
        subst this; simp only [List.length_drop]; omega

/-- the parser establishes the invariant -/
theorem llc_parse_inv (b : Bytes) (l : Llc) (i : Inner) (h : Llc.parse b = .ok (l, i)) : l.Inv := by
  rw [llc_parse_eq] at h
  split at h
  · cases h
  · split at h
    · rename_i hu
      injection h with h; injection h with hl _; subst hl
      refine ⟨byteAt_lt _ _, byteAt_lt _ _, byteAt_lt _ _, by simp, rfl, ?_, rfl⟩
      simpa [Llc.bitsOK] using hu
    · rename_i hu
      split at h
      · cases h
      · injection h with h; injection h with hl _; subst hl
        have h2 := byteAt_lt b 2
        by_cases hs : (byteAt b 2 % 2 == 1) = true
        · refine ⟨byteAt_lt _ _, byteAt_lt _ _, byteAt_lt _ _, byteAt_lt _ _, ?_, ?_, rfl⟩
          · simp [hs, Llc.ctlLenOf]
          · simp only [hs, if_true, Llc.bitsOK]
            have : byteAt b 2 % 2 = 1 := by simpa using hs
            have hu' : ¬ byteAt b 2 % 4 = 3 := by simpa using hu
            omega
        · refine ⟨byteAt_lt _ _, byteAt_lt _ _, byteAt_lt _ _, byteAt_lt _ _, ?_, ?_, rfl⟩
          · simp [hs, Llc.ctlLenOf]
          · simp only [hs, Llc.bitsOK]
            have : ¬ byteAt b 2 % 2 = 1 := by simpa using hs
            simp only [Bool.false_eq_true, if_false]
            omega

theorem llc_create_inv (d s : Nat) : (Llc.create d s).Inv :=
  ⟨Nat.mod_lt _ (by decide), Nat.mod_lt _ (by decide), by simp [Llc.create], by simp [Llc.create], rfl, rfl, rfl⟩

/-! ### C02: the size function equals the bytes written -/

theorem llc_controlBytes_length (l : Llc) : l.controlBytes.length = Llc.ctlLenOf l.typ := by
  unfold Llc.controlBytes Llc.ctlLenOf; cases l.typ <;> rfl

/-- the `for` loop over the information fields writes their concatenation (any number of fields, induction) -/
theorem llc_writeInfos_ok (fs : List Bytes) (o : OutCursor) (hi : o.Inv) (hs : (fs.map List.length).sum ≤ o.size) :
    Llc.writeInfos o fs = .ok ⟨o.done ++ fs.flatten, o.rest.drop (fs.map List.length).sum, o.size - (fs.map List.length).sum⟩ := by
  induction fs generalizing o with
  | nil => simp [Llc.writeInfos]
  | cons f fs ih =>
    simp only [List.map_cons, List.sum_cons] at hs
    rcases owrite_ok o f hi (by omega) with ⟨hw, hi'⟩
    have := ih _ hi' (by simp only; omega)
    simp only [Llc.writeInfos, hw, bind, Out.bind, this, List.map_cons, List.sum_cons, List.flatten_cons, List.append_assoc,
      List.drop_drop, OutCursor.mk.injEq, Out.ok.injEq, true_and]
    omega

/-- the header bytes of an LLC object in context (an STP payload forces both SAPs to 0x42) -/
def Llc.written (cx : Ctx) (l : Llc) : Llc :=
  if cx.innerCls == some "STP" then { l with dsap := 0x42, ssap := 0x42 } else l

def Llc.headerBytes (l : Llc) : Bytes := [UInt8.ofNat l.dsap, UInt8.ofNat l.ssap] ++ l.controlBytes ++ l.infos.flatten

theorem llc_written_inv (cx : Ctx) (l : Llc) (h : l.Inv) : (Llc.written cx l).Inv := by
  unfold Llc.written; split
  · exact ⟨by simp, by simp, h.c0, h.c1, h.ctl, h.bits, h.info⟩
  · exact h

theorem llc_headerBytes_length (l : Llc) (h : l.Inv) : l.headerBytes.length = l.hdr := by
  simp only [Llc.headerBytes, List.length_append, List.length_cons, List.length_nil, llc_controlBytes_length,
    List.length_flatten, Llc.hdr, h.ctl, h.info]

/-- the three stream writes of `write_serialization` on an object `w` -/
theorem llc_write_core (w : Llc) (hi : w.Inv) (region : Bytes) (hr : w.hdr ≤ region.length) :
    ((OutCursor.ofRegion region).write [UInt8.ofNat w.dsap, UInt8.ofNat w.ssap] >>= fun o =>
      o.write w.controlBytes >>= fun o => Llc.writeInfos o w.infos >>= fun o => pure o.buffer) =
      .ok (w.headerBytes ++ region.drop w.hdr) := by
  have hc := llc_controlBytes_length w
  have hinf := hi.info
  have hctl := hi.ctl
  simp only [Llc.hdr, hinf, hctl] at hr
  have o0 : (OutCursor.ofRegion region).Inv := by simp [OutCursor.ofRegion, OutCursor.Inv]
  rcases owrite_ok (OutCursor.ofRegion region) [UInt8.ofNat w.dsap, UInt8.ofNat w.ssap] o0
    (by simp [OutCursor.ofRegion]; omega) with ⟨w1, i1⟩
  rcases owrite_ok _ w.controlBytes i1 (by simp [OutCursor.ofRegion, hc]; omega) with ⟨w2, i2⟩
  have w3 := llc_writeInfos_ok w.infos _ i2 (by simp [OutCursor.ofRegion, hc]; omega)
  rw [w1, Out.bind_ok, w2, Out.bind_ok, w3, Out.bind_ok]
  simp only [Out.pure_eq, OutCursor.buffer, Llc.headerBytes, OutCursor.ofRegion, List.nil_append,
    List.drop_drop, List.length_cons, List.length_nil, hc, List.append_assoc, Llc.hdr, hinf, hctl]

/-- closed form of `LLC::write_serialization`: the first `header_size()` bytes are replaced by the header bytes -/
theorem llc_write_eq (cx : Ctx) (l : Llc) (h : l.Inv) (region : Bytes) (hr : l.hdr ≤ region.length) :
    l.write cx region = .ok ((Llc.written cx l).headerBytes ++ region.drop l.hdr) := by
  have hh : (Llc.written cx l).hdr = l.hdr := by unfold Llc.written; split <;> rfl
  have key := llc_write_core (Llc.written cx l) (llc_written_inv cx l h) region (by rw [hh]; exact hr)
  rw [hh] at key
  rw [← key]
  unfold Llc.write Llc.written
  rfl

def llcSem (cx : Ctx) (l : Llc) : LayerSem := { name := "LLC", hdr := l.hdr, trl := 0, write := l.write cx }

/-- **C02 / LLC**: for every object satisfying the invariant (any number of information fields) `write_serialization`
    succeeds on every region of at least `header_size()` bytes and rewrites exactly the first `header_size()` bytes -/
theorem llc_writesOnly (cx : Ctx) (l : Llc) (h : l.Inv) : WritesOnly (llcSem cx l) := by
  apply writesOnly_of_header_only _ rfl
  intro region hr
  simp only [llcSem] at hr
  have hlen := llc_headerBytes_length _ (llc_written_inv cx l h)
  have hh : (Llc.written cx l).hdr = l.hdr := by unfold Llc.written; split <;> rfl
  refine ⟨_, llc_write_eq cx l h region hr, ?_, ?_⟩
  · simp only [List.length_append, List.length_drop, hlen, hh]; omega
  · simp only [llcSem]
    rw [drop_append_len _ _ l.hdr (by rw [hlen, hh])]

end Tins.Wire.L2
