import TinsModel.Wire.L2.EthernetII
import TinsModel.Wire.L2.Dot3
import TinsModel.Wire.L2.Llc
import TinsModel.Wire.L2.Snap
import TinsModel.Wire.L2.Dot1Q
import TinsModel.Wire.L2.Mpls
import TinsModel.Wire.L2.PPPoE
import TinsModel.Wire.L2.Sll
import TinsModel.Wire.L2.Loopback
import TinsModel.Wire.L2.Ppi
import TinsModel.Wire.L2.Pktap
/-
  Family interface of `L2`: EthernetII, Dot3, LLC, SNAP, Dot1Q, MPLS, PPPoE, SLL, Loopback and the two capture
  pseudo-headers PPI and PKTAP (parsing only: they are documented as not serializable).
-/
namespace Tins.Wire.L2

inductive Obj
  | eth (e : Eth)
  | dot3 (d : Dot3)
  | llc (l : Llc)
  | snap (s : Snap)
  | dot1q (q : Dot1Q)
  | mpls (m : Mpls)
  | pppoe (p : PPPoE)
  | sll (s : Sll)
  | loopback (l : Loopback)
  | ppi (p : Ppi)
  | pktap (p : Pktap)
deriving Repr

def classes : List String :=
  ["EthernetII", "Dot3", "LLC", "SNAP", "Dot1Q", "MPLS", "PPPoE", "SLL", "Loopback", "PPI", "PKTAP"]

def parse (cls : String) (b : Bytes) : Out (Obj × Inner) :=
  if cls == "EthernetII" then (Eth.parse b) >>= fun (e, i) => pure (.eth e, i)
  else if cls == "Dot3" then (Dot3.parse b) >>= fun (e, i) => pure (.dot3 e, i)
  else if cls == "LLC" then (Llc.parse b) >>= fun (e, i) => pure (.llc e, i)
  else if cls == "SNAP" then (Snap.parse b) >>= fun (e, i) => pure (.snap e, i)
  else if cls == "Dot1Q" then (Dot1Q.parse b) >>= fun (e, i) => pure (.dot1q e, i)
  else if cls == "MPLS" then (Mpls.parse b) >>= fun (e, i) => pure (.mpls e, i)
  else if cls == "PPPoE" then (PPPoE.parse b) >>= fun (e, i) => pure (.pppoe e, i)
  else if cls == "SLL" then (Sll.parse b) >>= fun (e, i) => pure (.sll e, i)
  else if cls == "Loopback" then (Loopback.parse b) >>= fun (e, i) => pure (.loopback e, i)
  else if cls == "PPI" then (Ppi.parse b) >>= fun (e, i) => pure (.ppi e, i)
  else if cls == "PKTAP" then (Pktap.parse b) >>= fun (e, i) => pure (.pktap e, i)
  else .throw .stdOther

def info : Obj → String × Fields
  | .eth e => ("EthernetII", e.fields)
  | .dot3 d => ("Dot3", d.fields)
  | .llc l => ("LLC", l.fields)
  | .snap s => ("SNAP", s.fields)
  | .dot1q q => ("Dot1Q", q.fields)
  | .mpls m => ("MPLS", m.fields)
  | .pppoe p => ("PPPoE", p.fields)
  | .sll s => ("SLL", s.fields)
  | .loopback l => ("Loopback", l.fields)
  | .ppi p => ("PPI", p.fields)
  | .pktap p => ("PKTAP", p.fields)

def hdr : Obj → Nat
  | .eth _ => 14
  | .dot3 _ => 14
  | .llc l => l.hdr
  | .snap _ => 8
  | .dot1q _ => 4
  | .mpls _ => 4
  | .pppoe p => p.hdr
  | .sll _ => 16
  | .loopback _ => 4
  | .ppi p => p.hdr
  | .pktap _ => Pktap.headerLen

def trl : Obj → Nat → Nat
  | .eth _, innerSize => Eth.trl innerSize
  | .dot1q q, innerSize => q.trl innerSize
  | _, _ => 0

def write (cx : Ctx) : Obj → Bytes → Out Bytes
  | .eth e, region => e.write cx region
  | .dot3 d, region => d.write cx region
  | .llc l, region => l.write cx region
  | .snap s, region => s.write cx region
  | .dot1q q, region => q.write cx region
  | .mpls m, region => m.write cx region
  | .pppoe p, region => p.write cx region
  | .sll s, region => s.write cx region
  | .loopback l, region => l.write cx region
  | .ppi p, region => p.write cx region
  | .pktap p, region => p.write cx region

/-- public constructors (`push <Class> [args]`); PKTAP / PPI have no API constructor with content: `push PKTAP <hex>`
    and `push PPI <hex>` run the parsing constructor (used to exercise PKTAP, which the central harness cannot `parse`) -/
def mk (cls : String) (args : List String) : Out Obj :=
  match cls, args with
  | "EthernetII", [] => .ok (.eth ⟨List.replicate 6 0, List.replicate 6 0, 0⟩)
  | "EthernetII", [d, s] => match parseMac d, parseMac s with
    | some d, some s => .ok (.eth ⟨d, s, 0⟩)
    | _, _ => .throw .stdOther
  | "Dot3", [] => .ok (.dot3 (Dot3.create (List.replicate 6 0) (List.replicate 6 0)))
  | "Dot3", [d, s] => match parseMac d, parseMac s with
    | some d, some s => .ok (.dot3 (Dot3.create d s))
    | _, _ => .throw .stdOther
  | "LLC", [] => .ok (.llc (Llc.create 0 0))
  | "LLC", [d, s] => match natArg d, natArg s with
    | some d, some s => .ok (.llc (Llc.create d s))
    | _, _ => .throw .stdOther
  | "SNAP", [] => .ok (.snap Snap.create)
  | "Dot1Q", [] => .ok (.dot1q (Dot1Q.create 0 true))
  | "Dot1Q", [i, p] => match natArg i, boolArg p with
    | some i, some p => .ok (.dot1q (Dot1Q.create i p))
    | _, _ => .throw .stdOther
  | "MPLS", [] => .ok (.mpls Mpls.create)
  | "PPPoE", [] => .ok (.pppoe PPPoE.create)
  | "SLL", [] => .ok (.sll Sll.create)
  | "Loopback", [] => .ok (.loopback Loopback.create)
  | "PKTAP", [h] => match parseHexStr h with
    | some b => (Pktap.parse b) >>= fun (p, i) =>
      match i with
      | .none => pure (.pktap p)
      | _ => .throw .stdOther          -- an inner chain cannot be expressed by a single `push`
    | none => .throw .stdOther
  | _, _ => .throw .stdOther

/-- the setters of EthernetII -/
def ethApply (e : Eth) : List String → Out Eth
  | ["dst_addr", v] => match parseMac v with | some m => .ok { e with dst := m } | none => .throw .stdOther
  | ["src_addr", v] => match parseMac v with | some m => .ok { e with src := m } | none => .throw .stdOther
  | ["payload_type", v] => match natArg v with | some n => .ok { e with ptype := n % 65536 } | none => .throw .stdOther
  | _ => .throw .stdOther

def apply : Obj → List String → Out Obj
  | .eth e, op => (ethApply e op) >>= fun x => pure (.eth x)
  | .dot3 d, op => (d.apply op) >>= fun x => pure (.dot3 x)
  | .llc l, op => (l.apply op) >>= fun x => pure (.llc x)
  | .snap s, op => (s.apply op) >>= fun x => pure (.snap x)
  | .dot1q q, op => (q.apply op) >>= fun x => pure (.dot1q x)
  | .mpls m, op => (m.apply op) >>= fun x => pure (.mpls x)
  | .pppoe p, op => (p.apply op) >>= fun x => pure (.pppoe x)
  | .sll s, op => (s.apply op) >>= fun x => pure (.sll x)
  | .loopback l, op => (l.apply op) >>= fun x => pure (.loopback x)
  | _, _ => .throw .stdOther

end Tins.Wire.L2
