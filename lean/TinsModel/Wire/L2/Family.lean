import TinsModel.Wire.L2.EthernetII
/-
  Family interface of `L2` (EthernetII, Dot3, LLC, SNAP, Dot1Q, MPLS, PPPoE, SLL, Loopback, PPI, PKTAP).
  Modelled so far: EthernetII.
-/
namespace Tins.Wire.L2

inductive Obj
  | eth (e : Eth)
deriving Repr

def classes : List String := ["EthernetII"]

def parse (cls : String) (b : Bytes) : Out (Obj × Inner) :=
  if cls == "EthernetII" then (Eth.parse b) >>= fun (e, i) => pure (.eth e, i)
  else .throw .stdOther

def info : Obj → String × Fields
  | .eth e => ("EthernetII", e.fields)

def hdr : Obj → Nat
  | .eth _ => 14

def trl : Obj → Nat → Nat
  | .eth _, innerSize => Eth.trl innerSize

def write (cx : Ctx) : Obj → Bytes → Out Bytes
  | .eth e, region => e.write cx region

def parseMac (s : String) : Option Bytes :=
  match parseHexStr s with
  | some b => if b.length == 6 then some b else none
  | none => none

def mk (cls : String) (args : List String) : Out Obj :=
  match cls, args with
  | "EthernetII", [] => .ok (.eth ⟨List.replicate 6 0, List.replicate 6 0, 0⟩)
  | "EthernetII", [d, s] => match parseMac d, parseMac s with
    | some d, some s => .ok (.eth ⟨d, s, 0⟩)
    | _, _ => .throw .stdOther
  | _, _ => .throw .stdOther

def apply : Obj → List String → Out Obj
  | .eth e, ["dst_addr", v] => match parseMac v with | some m => .ok (.eth { e with dst := m }) | none => .throw .stdOther
  | .eth e, ["src_addr", v] => match parseMac v with | some m => .ok (.eth { e with src := m }) | none => .throw .stdOther
  | .eth e, ["payload_type", v] => match v.toNat? with | some n => .ok (.eth { e with ptype := n % 65536 }) | none => .throw .stdOther
  | _, _ => .throw .stdOther

end Tins.Wire.L2
