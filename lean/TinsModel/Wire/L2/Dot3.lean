import TinsModel.Wire.L2.Util
/- `Tins::Dot3` (src/dot3.cpp): IEEE 802.3 header, always followed by LLC -/
namespace Tins.Wire.L2

structure Dot3 where
  dst : Bytes      -- 6 bytes
  src : Bytes      -- 6 bytes
  len : Nat        -- length(), host order
deriving Repr, DecidableEq

namespace Dot3

/-- `Dot3::Dot3(const uint8_t*, uint32_t)` -/
def parse (b : Bytes) : Out (Dot3 × Inner) := do
  let c := Cursor.ofBytes b
  let (h, c) ← c.read 14                                  -- stream.read(header_)
  let d : Dot3 := ⟨h.take 6, (h.drop 6).take 6, Cursor.beNat (h.drop 12)⟩
  if c.toBool then
    let rest ← Cursor.rest "Dot3::Dot3 inner" c
    pure (d, .cls "LLC" rest false)                         -- new Tins::LLC(stream.pointer(), stream.size())
  else pure (d, .none)

def fields (d : Dot3) : Fields :=
  [("dst_addr", hexStr d.dst), ("src_addr", hexStr d.src), ("~length", toString d.len)]

def headerBytes (d : Dot3) : Bytes := d.dst ++ d.src ++ OutCursor.beBytes 2 d.len

/-- `Dot3::write_serialization`: `length = size() - sizeof(header_)` as `uint16_t` -/
def write (cx : Ctx) (d : Dot3) (region : Bytes) : Out Bytes :=
  let d1 := { d with len := cx.innerSize % 65536 }
  writeAtStart region d1.headerBytes

def create (dst src : Bytes) : Dot3 := ⟨dst, src, 0⟩

def apply (d : Dot3) : List String → Out Dot3
  | ["dst_addr", v] => match parseMac v with | some m => .ok { d with dst := m } | none => .throw .stdOther
  | ["src_addr", v] => match parseMac v with | some m => .ok { d with src := m } | none => .throw .stdOther
  | ["length", v] => match natArg v with | some n => .ok { d with len := n % 65536 } | none => .throw .stdOther
  | _ => .throw .stdOther

end Dot3
end Tins.Wire.L2
