import TinsModel.Wire.L2.Lemmas
/- Dot1Q: C01 parse safety, C02 write region incl. the pad-to-50 trailer, C03 reparse, C04 setters -/
namespace Tins.Wire.L2
open Tins Tins.Wire

namespace Dot1Q

structure WF (q : Dot1Q) : Prop where
  priority : q.priority < 8
  cfi : q.cfi < 2
  id : q.id < 4096
  ptype : q.ptype < 65536

def ofHeader (h : Bytes) : Dot1Q :=
  ⟨byteAt h 0 / 32, byteAt h 0 / 16 % 2, byteAt h 1 + byteAt h 0 % 16 * 256, Cursor.beNat (h.drop 2), false⟩

/-- the wire-visible getters other than the next-protocol tag -/
def view (q : Dot1Q) : Nat × Nat × Nat := (q.priority, q.cfi, q.id)

end Dot1Q

theorem dot1q_parse_eq (b : Bytes) :
    Dot1Q.parse b =
      if b.length < 4 then .throw .malformedPacket
      else .ok (Dot1Q.ofHeader (b.take 4),
                if b.length > 4 then etherInner (Dot1Q.ofHeader (b.take 4)).ptype (b.drop 4) else .none) := by
  simp only [Dot1Q.parse, read_ofBytes]
  by_cases h : b.length < 4
  · simp [h, bind, Out.bind]
  · by_cases h2 : b.length > 4
    · have : b.length - 4 > 0 := by omega
      simp only [h, h2, this, if_false, if_true, bind, Out.bind, toBool_mk, rest_after_read, decide_true, Dot1Q.ofHeader, etherInner]
      split <;> simp [*, pure]
    · have : ¬ b.length - 4 > 0 := by omega
      simp [h, h2, this, bind, Out.bind, toBool_mk, pure, Dot1Q.ofHeader]

/-- **C01 / Dot1Q** -/
theorem dot1q_parse_safe (b : Bytes) : ParseSafe (Dot1Q.parse b) := by
  rw [dot1q_parse_eq]; split
  · exact .malformed
  · exact .ok _

theorem dot1q_parse_consumes (b : Bytes) (q : Dot1Q) (name : String) (pb : Bytes) (fb : Bool)
    (h : Dot1Q.parse b = .ok (q, .cls name pb fb)) : pb.length < b.length := by
  rw [dot1q_parse_eq] at h
  split at h
  · cases h
  · split at h
    · injection h with h; injection h with _ h
      have := etherInner_cls_len _ _ _ _ _ h
      subst this; simp only [List.length_drop]; omega
    · injection h with h; injection h with _ h; cases h

theorem dot1q_ofHeader_wf (h : Bytes) (hl : h.length = 4) : (Dot1Q.ofHeader h).WF := by
  have h0 := byteAt_lt h 0
  have h1 := byteAt_lt h 1
  refine ⟨?_, ?_, ?_, ?_⟩
  · simp only [Dot1Q.ofHeader]; omega
  · simp only [Dot1Q.ofHeader]; omega
  · simp only [Dot1Q.ofHeader]; omega
  · have := beNat_lt (h.drop 2); simp only [List.length_drop, hl] at this; exact this

theorem dot1q_parse_wf (b : Bytes) (q : Dot1Q) (i : Inner) (h : Dot1Q.parse b = .ok (q, i)) : q.WF := by
  rw [dot1q_parse_eq] at h
  split at h
  · cases h
  · injection h with h; injection h with hs _
    subst hs
    exact dot1q_ofHeader_wf _ (by simp only [List.length_take]; omega)

theorem dot1q_create_wf (id : Nat) (pad : Bool) : (Dot1Q.create id pad).WF :=
  ⟨by simp [Dot1Q.create], by simp [Dot1Q.create], Nat.mod_lt _ (by decide), by simp [Dot1Q.create]⟩

theorem dot1q_headerBytes_length (q : Dot1Q) : q.headerBytes.length = 4 := by simp [Dot1Q.headerBytes]

/-- decoding the header bytes gives every wire field back (`append_padding_` is not on the wire: the parser clears it) -/
theorem dot1q_ofHeader_headerBytes (q : Dot1Q) (h : q.WF) : Dot1Q.ofHeader q.headerBytes = { q with appendPadding := false } := by
  cases q with
  | mk pr cfi id pt pad =>
    have h1 := h.priority; have h2 := h.cfi; have h3 := h.id; have h4 := h.ptype
    simp only at h1 h2 h3 h4
    have e0 : (UInt8.ofNat (pr * 32 + cfi * 16 + id / 256)).toNat = pr * 32 + cfi * 16 + id / 256 :=
      ofNat_toNat_lt _ (by omega)
    have e1 : (UInt8.ofNat (id % 256)).toNat = id % 256 := ofNat_toNat_lt _ (by omega)
    simp only [Dot1Q.ofHeader, Dot1Q.headerBytes, List.cons_append, List.nil_append, byteAt_cons_zero, byteAt_cons_succ,
      List.drop_succ_cons, List.drop_zero, Dot1Q.mk.injEq, e0, e1, and_true]
    refine ⟨by omega, by omega, by omega, ?_⟩
    rw [beNat_beBytes]; exact Nat.mod_eq_of_lt (by omega)

theorem dot1q_tagFor_lt (cx : Ctx) (q : Dot1Q) (h : q.WF) : Dot1Q.tagFor cx q < 65536 := by
  unfold Dot1Q.tagFor
  split
  · decide
  · dsimp only
    split
    · exact etherTagOf_lt _
    · exact h.ptype

def dot1qSem (cx : Ctx) (q : Dot1Q) : LayerSem :=
  { name := "Dot1Q", hdr := 4, trl := q.trl cx.innerSize, write := q.write cx }

/-- closed form of `write_serialization` on a region of exactly header + inner + trailer bytes: the header, the inner
    bytes as they were, `trailer_size()` zero bytes -/
theorem dot1q_write_eq (cx : Ctx) (q : Dot1Q) (region : Bytes) (hl : region.length = 4 + cx.innerSize + q.trl cx.innerSize) :
    q.write cx region = .ok (({ q with ptype := Dot1Q.tagFor cx q } : Dot1Q).headerBytes ++
      (region.drop 4).take cx.innerSize ++ List.replicate (q.trl cx.innerSize) 0) := by
  have hb := dot1q_headerBytes_length { q with ptype := Dot1Q.tagFor cx q }
  have key := write_skip_fill region ({ q with ptype := Dot1Q.tagFor cx q } : Dot1Q).headerBytes cx.innerSize (q.trl cx.innerSize)
    (by rw [hb]; exact hl)
  rw [hb] at key
  rw [← key]
  unfold Dot1Q.write
  by_cases he : cx.inners.isEmpty = true
  · have h0 := ctx_innerSize_of_isEmpty cx he
    simp only [he, if_true, h0]
    -- `skip(0)` is the identity
    have hs : ∀ o : OutCursor, o.skip 0 = .ok o := by
      intro o; simp [OutCursor.skip]
    simp [bind, Out.bind, hs, pure]
  · simp only [he]
    rfl

/-- **C02 / Dot1Q** (incl. the trailer): on the region `PDU::serialize` hands out, `write_serialization` succeeds, keeps the
    length and leaves the inner bytes untouched -/
theorem dot1q_writesOnlyAt (cx : Ctx) (q : Dot1Q) : WritesOnlyAt (dot1qSem cx q) cx.innerSize := by
  intro region hr
  simp only [dot1qSem] at hr
  have hb := dot1q_headerBytes_length { q with ptype := Dot1Q.tagFor cx q }
  refine ⟨_, dot1q_write_eq cx q region hr, ?_, ?_⟩
  · simp only [List.length_append, List.length_take, List.length_drop, List.length_replicate, hb]; omega
  · simp only [innerOf, dot1qSem]
    have hlen : (({ q with ptype := Dot1Q.tagFor cx q } : Dot1Q).headerBytes ++ (region.drop 4).take cx.innerSize ++
        List.replicate (q.trl cx.innerSize) 0).length = region.length := by
      simp only [List.length_append, List.length_take, List.length_drop, List.length_replicate, hb]; omega
    rw [hlen, List.append_assoc, drop_append_len _ _ 4 hb]
    have hk : region.length - (4 + q.trl cx.innerSize) = ((region.drop 4).take cx.innerSize).length := by
      simp only [List.length_take, List.length_drop]; omega
    rw [hk, List.take_left' rfl, ← hk]
    congr 1
    omega

/-- **C03 / Dot1Q**: the header parses back to the same priority / CFI / id and the tag `write_serialization` chose; the
    inner bytes followed by the zero padding go to the constructor that tag selects -/
theorem dot1q_reparse (cx : Ctx) (q : Dot1Q) (h : q.WF) (region : Bytes)
    (hl : region.length = 4 + cx.innerSize + q.trl cx.innerSize) :
    ∃ out, q.write cx region = .ok out ∧ out.length = region.length ∧
      Dot1Q.parse out = .ok ({ q with ptype := Dot1Q.tagFor cx q, appendPadding := false },
        if region.length > 4 then
          etherInner (Dot1Q.tagFor cx q) ((region.drop 4).take cx.innerSize ++ List.replicate (q.trl cx.innerSize) 0)
        else .none) := by
  have hb := dot1q_headerBytes_length { q with ptype := Dot1Q.tagFor cx q }
  have hwf1 : ({ q with ptype := Dot1Q.tagFor cx q } : Dot1Q).WF := ⟨h.priority, h.cfi, h.id, dot1q_tagFor_lt cx q h⟩
  have hlen : (({ q with ptype := Dot1Q.tagFor cx q } : Dot1Q).headerBytes ++ (region.drop 4).take cx.innerSize ++
      List.replicate (q.trl cx.innerSize) 0).length = region.length := by
    simp only [List.length_append, List.length_take, List.length_drop, List.length_replicate, hb]; omega
  refine ⟨_, dot1q_write_eq cx q region hl, hlen, ?_⟩
  rw [dot1q_parse_eq, hlen, List.append_assoc, take_append_len _ _ 4 hb, drop_append_len _ _ 4 hb,
    dot1q_ofHeader_headerBytes _ hwf1]
  have h1 : ¬ region.length < 4 := by omega
  simp only [h1, if_false]

/-- the tag is kept when the payload class has no EtherType -/
theorem dot1q_tag_kept (cx : Ctx) (q : Dot1Q) (i : LayerInfo) (hc : cx.inners.head? = some i)
    (hu : etherTagOf i = 0) : Dot1Q.tagFor cx q = q.ptype := by
  unfold Dot1Q.tagFor
  rw [hc]; simp [hu]

theorem dot1q_reparse_view (cx : Ctx) (q : Dot1Q) (h : q.WF) (region : Bytes)
    (hl : region.length = 4 + cx.innerSize + q.trl cx.innerSize) :
    ∃ out q' i, q.write cx region = .ok out ∧ Dot1Q.parse out = .ok (q', i) ∧ q'.view = q.view := by
  rcases dot1q_reparse cx q h region hl with ⟨out, hw, _, hp⟩
  exact ⟨out, _, _, hw, hp, rfl⟩

/-! ### known finding KF-C04-L2-4: `append_padding_` is object state that is not on the wire -/

/-- full statement: re-parsing what a Dot1Q wrote gives the same object back (up to the derived tag), so that serializing
    the re-parsed packet pads exactly like the original did -/
def dot1q_reparse_identity : Prop := ∀ q : Dot1Q, q.WF → Dot1Q.ofHeader q.headerBytes = q

/-- witness: `Dot1Q(5, true)` comes back with padding switched off; its second serialization is 36 bytes shorter when
    the payload does not absorb the padding (e.g. a PPPoE session payload, which is cut at `payload_length`) -/
theorem dot1q_reparse_identity_fails : ¬ dot1q_reparse_identity := by
  intro h
  have := h (Dot1Q.create 5 true) (dot1q_create_wf 5 true)
  have h2 : (Dot1Q.ofHeader (Dot1Q.create 5 true).headerBytes).appendPadding = false := rfl
  rw [this] at h2
  cases h2

/-- proved part: everything that is on the wire comes back; objects that do not pad come back identically -/
theorem dot1q_reparse_identity_partial (q : Dot1Q) (h : q.WF) (hp : q.appendPadding = false) :
    Dot1Q.ofHeader q.headerBytes = q := by
  rw [dot1q_ofHeader_headerBytes q h]
  cases q; simp only at hp; subst hp; rfl

/-- the trailer pads `header + inner` to exactly 50 bytes, or is empty -/
theorem dot1q_trl_spec (q : Dot1Q) (n : Nat) :
    q.trl n = if q.appendPadding then 50 - (4 + n) else 0 := by
  unfold Dot1Q.trl
  split
  · split <;> omega
  · rfl

/-- **C04 / Dot1Q** -/
theorem dot1q_apply_wf (q q' : Dot1Q) (op : List String) (h : q.WF) (ha : q.apply op = .ok q') : q'.WF := by
  unfold Dot1Q.apply at ha
  split at ha
  · split at ha
    · injection ha with ha; subst ha; exact ⟨Nat.mod_lt _ (by decide), h.cfi, h.id, h.ptype⟩
    · cases ha
  · split at ha
    · injection ha with ha; subst ha; exact ⟨h.priority, Nat.mod_lt _ (by decide), h.id, h.ptype⟩
    · cases ha
  · split at ha
    · injection ha with ha; subst ha; exact ⟨h.priority, h.cfi, Nat.mod_lt _ (by decide), h.ptype⟩
    · cases ha
  · split at ha
    · injection ha with ha; subst ha; exact ⟨h.priority, h.cfi, h.id, Nat.mod_lt _ (by decide)⟩
    · cases ha
  · split at ha
    · injection ha with ha; subst ha; exact ⟨h.priority, h.cfi, h.id, h.ptype⟩
    · cases ha
  · cases ha

example : ∃ q i, Dot1Q.parse [0xb2, 0x34, 0x12, 0x34, 9] = .ok (q, i) ∧ q.priority = 5 ∧ q.cfi = 1 ∧ q.id = 0x234 ∧
    i = .raw [9] := ⟨_, _, rfl, rfl, rfl, rfl, rfl⟩
example : (Dot1Q.create 7 true).trl 10 = 36 := rfl

end Tins.Wire.L2
