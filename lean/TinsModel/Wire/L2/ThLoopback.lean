import TinsModel.Wire.L2.Lemmas
/- Loopback: C01 parse safety, C02 write region, C03 reparse, C04 setter -/
namespace Tins.Wire.L2
open Tins Tins.Wire

namespace Loopback

def WF (l : Loopback) : Prop := l.family < 4294967296

/-- the `switch (family_)` of the parsing constructor -/
def innerFor (f : Nat) (rest : Bytes) : Inner :=
  if f == PF_INET then .cls "IP" rest false
  else if f == PF_INET6 then .cls "IPv6" rest false
  else if f == PF_LLC then .cls "LLC" rest false
  else .raw rest

end Loopback

theorem loopback_parse_eq (b : Bytes) :
    Loopback.parse b =
      if b.length < 4 then .throw .malformedPacket
      else .ok (⟨Cursor.leNat (b.take 4)⟩, Loopback.innerFor (Cursor.leNat (b.take 4)) (b.drop 4)) := by
  simp only [Loopback.parse, readLE_ofBytes]
  by_cases h : b.length < 4
  · simp [h, bind, Out.bind]
  · have h0 : (b.length != 0) = true := by
      simp only [bne_iff_ne, ne_eq]; omega
    simp only [h, if_false, bind, Out.bind, h0, if_true, rest_after_read, Loopback.innerFor]
    split
    · rfl
    · split
      · rfl
      · split <;> rfl

/-- **C01 / Loopback** -/
theorem loopback_parse_safe (b : Bytes) : ParseSafe (Loopback.parse b) := by
  rw [loopback_parse_eq]; split
  · exact .malformed
  · exact .ok _

theorem loopback_parse_consumes (b : Bytes) (l : Loopback) (name : String) (pb : Bytes) (fb : Bool)
    (h : Loopback.parse b = .ok (l, .cls name pb fb)) : pb.length < b.length := by
  rw [loopback_parse_eq] at h
  split at h
  · cases h
  · injection h with h; injection h with _ h
    have : pb = b.drop 4 := by
      unfold Loopback.innerFor at h
      split at h
      · injection h with _ h _; exact h.symm
      · split at h
        · injection h with _ h _; exact h.symm
        · split at h
          · injection h with _ h _; exact h.symm
          · cases h
    subst this; simp only [List.length_drop]; omega

theorem loopback_parse_wf (b : Bytes) (l : Loopback) (i : Inner) (h : Loopback.parse b = .ok (l, i)) : l.WF := by
  rw [loopback_parse_eq] at h
  split at h
  · cases h
  · injection h with h; injection h with hl _
    subst hl
    have := leNat_lt (b.take 4)
    simp only [List.length_take] at this
    have h4 : min 4 b.length = 4 := by omega
    rw [h4] at this; exact this

theorem loopback_familyFor_lt (cx : Ctx) (l : Loopback) (h : l.WF) : Loopback.familyFor cx l < 4294967296 := by
  unfold Loopback.familyFor
  split
  · decide
  · decide
  · decide
  · exact h

def loopbackSem (cx : Ctx) (l : Loopback) : LayerSem := { name := "Loopback", hdr := 4, trl := 0, write := l.write cx }

/-- **C02 / Loopback** -/
theorem loopback_writesOnly (cx : Ctx) (l : Loopback) : WritesOnly (loopbackSem cx l) :=
  writesOnly_of_writeAtStart _ 4 _ (OutCursor.leBytes 4 (Loopback.familyFor cx l)) (by simp) (fun _ => rfl)

/-- **C03 / Loopback**: the family word libtins derives from the inner class (or the stored one) is read back, and selects
    the constructor for the inner bytes -/
theorem loopback_reparse (cx : Ctx) (l : Loopback) (h : l.WF) (region : Bytes) (hr : 4 ≤ region.length) :
    ∃ out, l.write cx region = .ok out ∧ out.length = region.length ∧
      Loopback.parse out = .ok (⟨Loopback.familyFor cx l⟩, Loopback.innerFor (Loopback.familyFor cx l) (region.drop 4)) := by
  rcases writeAtStart_ok region (OutCursor.leBytes 4 (Loopback.familyFor cx l)) 4 (by simp) hr with ⟨hw, hlen, ht, hd⟩
  refine ⟨_, hw, hlen, ?_⟩
  rw [loopback_parse_eq, hlen, ht, hd, leNat_leBytes]
  have h1 : ¬ region.length < 4 := by omega
  have h2 : Loopback.familyFor cx l % 256 ^ 4 = Loopback.familyFor cx l :=
    Nat.mod_eq_of_lt (by have := loopback_familyFor_lt cx l h; omega)
  simp only [h1, if_false, h2]

/-- the stored family survives when the inner class is none of IP / IPv6 / LLC -/
theorem loopback_family_kept (cx : Ctx) (l : Loopback)
    (hu : cx.innerCls ≠ some "IP" ∧ cx.innerCls ≠ some "IPv6" ∧ cx.innerCls ≠ some "LLC") :
    Loopback.familyFor cx l = l.family := by
  unfold Loopback.familyFor
  split
  · exact absurd ‹_› hu.1
  · exact absurd ‹_› hu.2.1
  · exact absurd ‹_› hu.2.2
  · rfl

/-- **C04 / Loopback** -/
theorem loopback_apply_wf (l l' : Loopback) (op : List String) (ha : l.apply op = .ok l') : l'.WF := by
  unfold Loopback.apply at ha
  split at ha
  · split at ha
    · injection ha with ha; subst ha; exact Nat.mod_lt _ (by decide)
    · cases ha
  · cases ha

example : Loopback.parse [2, 0, 0, 0] = .ok (⟨2⟩, .cls "IP" [] false) := rfl
example : Loopback.parse [2, 0, 0] = .throw .malformedPacket := rfl

end Tins.Wire.L2
