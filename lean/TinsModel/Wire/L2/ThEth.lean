import TinsModel.Wire.L2.Lemmas
/- EthernetII: C01 parse safety, C02 write region incl. the pad-to-60 trailer, C03 reparse, C04 setters -/
namespace Tins.Wire.L2
open Tins Tins.Wire

namespace Eth

structure WF (e : Eth) : Prop where
  dst : e.dst.length = 6
  src : e.src.length = 6
  ptype : e.ptype < 65536

def ofHeader (h : Bytes) : Eth := ⟨h.take 6, (h.drop 6).take 6, Cursor.beNat ((h.drop 12).take 2)⟩

def view (e : Eth) : Bytes × Bytes := (e.dst, e.src)

end Eth

theorem eth_parse_eq (b : Bytes) :
    Eth.parse b =
      if b.length < 14 then .throw .malformedPacket
      else .ok (Eth.ofHeader b, if b.length > 14 then etherInner (Eth.ofHeader b).ptype (b.drop 14) else .none) := by
  simp only [Eth.parse, read_ofBytes]
  by_cases h6 : b.length < 6
  · have : b.length < 14 := by omega
    simp [h6, this, bind, Out.bind]
  · simp only [h6, if_false, bind, Out.bind]
    have r1 := read_mk_drop b 6 6
    by_cases h12 : b.length - 6 < 6
    · have : b.length < 14 := by omega
      simp [r1, h12, this]
    · simp only [r1, h12, if_false]
      have r2 := readBE_mk_drop b 12 2
      by_cases h14 : b.length - 12 < 2
      · have : b.length < 14 := by omega
        simp [r2, h14, this]
      · have hn : ¬ b.length < 14 := by omega
        simp only [show 6 + 6 = 12 from rfl, r2, h14, if_false, hn, show 12 + 2 = 14 from rfl, toBool_mk]
        by_cases h2 : b.length > 14
        · have : b.length - 14 > 0 := by omega
          simp only [this, decide_true, if_true, rest_after_read, h2, Eth.ofHeader, etherInner]
          split <;> simp [*, pure]
        · have : ¬ b.length - 14 > 0 := by omega
          simp [this, h2, pure, Eth.ofHeader]

/-- **C01 / EthernetII** -/
theorem eth_parse_safe (b : Bytes) : ParseSafe (Eth.parse b) := by
  rw [eth_parse_eq]; split
  · exact .malformed
  · exact .ok _

theorem eth_parse_consumes (b : Bytes) (e : Eth) (name : String) (pb : Bytes) (fb : Bool)
    (h : Eth.parse b = .ok (e, .cls name pb fb)) : pb.length < b.length := by
  rw [eth_parse_eq] at h
  split at h
  · cases h
  · split at h
    · injection h with h; injection h with _ h
      have := etherInner_cls_len _ _ _ _ _ h
      subst this; simp only [List.length_drop]; omega
    · injection h with h; injection h with _ h; cases h

theorem eth_parse_wf (b : Bytes) (e : Eth) (i : Inner) (h : Eth.parse b = .ok (e, i)) : e.WF := by
  rw [eth_parse_eq] at h
  split at h
  · cases h
  · injection h with h; injection h with hs _
    subst hs
    refine ⟨?_, ?_, ?_⟩
    · simp only [Eth.ofHeader, List.length_take]; omega
    · simp only [Eth.ofHeader, List.length_take, List.length_drop]; omega
    · have := beNat_lt ((b.drop 12).take 2)
      simp only [List.length_take, List.length_drop] at this
      have h2 : min 2 (b.length - 12) = 2 := by omega
      rw [h2] at this; exact this

theorem eth_headerBytes_length (e : Eth) (h : e.WF) : e.headerBytes.length = 14 := by
  simp [Eth.headerBytes, h.dst, h.src]

theorem eth_ofHeader_headerBytes (e : Eth) (h : e.WF) (rest : Bytes) : Eth.ofHeader (e.headerBytes ++ rest) = e := by
  cases e with
  | mk dst src pt =>
    have h1 := h.dst; have h2 := h.src; have h3 := h.ptype
    simp only at h1 h2 h3
    simp only [Eth.ofHeader, Eth.headerBytes, List.append_assoc, Eth.mk.injEq]
    refine ⟨take_append_len _ _ 6 h1, ?_, ?_⟩
    · rw [drop_append_len _ _ 6 h1]; exact take_append_len _ _ 6 h2
    · rw [← List.append_assoc, drop_append_len _ _ 12 (by simp [h1, h2]), take_append_len _ _ 2 (by simp), beNat_beBytes]
      exact Nat.mod_eq_of_lt (by omega)

theorem ite_lt {c : Prop} [Decidable c] {a b n : Nat} (ha : a < n) (hb : b < n) : (if c then a else b) < n := by
  split <;> assumption

theorem eth_tagFor_lt (cx : Ctx) (e : Eth) (h : e.WF) : Eth.tagFor cx e < 65536 := by
  unfold Eth.tagFor
  split
  · decide
  · dsimp only
    have hp := h.ptype
    repeat' (first | apply ite_lt | exact etherOfPduType_lt _ | exact hp | decide | split)

def ethSem (cx : Ctx) (e : Eth) : LayerSem :=
  { name := "EthernetII", hdr := 14, trl := Eth.trl cx.innerSize, write := e.write cx }

/-- closed form of `write_serialization` on a region of exactly header + inner + trailer bytes -/
theorem eth_write_eq (cx : Ctx) (e : Eth) (h : e.WF) (region : Bytes)
    (hl : region.length = 14 + cx.innerSize + Eth.trl cx.innerSize) :
    e.write cx region = .ok (({ e with ptype := Eth.tagFor cx e } : Eth).headerBytes ++
      (region.drop 14).take cx.innerSize ++ List.replicate (Eth.trl cx.innerSize) 0) := by
  have hb := eth_headerBytes_length { e with ptype := Eth.tagFor cx e } ⟨h.dst, h.src, eth_tagFor_lt cx e h⟩
  unfold Eth.write
  by_cases ht : Eth.trl cx.innerSize = 0
  · -- no padding: only the header is written
    have key := write_only region ({ e with ptype := Eth.tagFor cx e } : Eth).headerBytes (by rw [hb]; omega)
    simp only [ht, bne_self_eq_false, Bool.false_eq_true, if_false]
    rw [hb] at key
    simp only [bind, Out.bind, pure] at key ⊢
    rw [key]
    simp only [List.replicate_zero, List.append_nil]
    congr 2
    apply (List.take_of_length_le _).symm
    simp only [List.length_drop]; omega
  · have key := write_skip_fill region ({ e with ptype := Eth.tagFor cx e } : Eth).headerBytes cx.innerSize
      (Eth.trl cx.innerSize) (by rw [hb]; exact hl)
    rw [hb] at key
    have hne : (Eth.trl cx.innerSize != 0) = true := by simp [ht]
    simp only [hne, if_true]
    exact key

/-- **C02 / EthernetII** (incl. the 60-byte minimum-frame trailer) -/
theorem eth_writesOnlyAt (cx : Ctx) (e : Eth) (h : e.WF) : WritesOnlyAt (ethSem cx e) cx.innerSize := by
  intro region hr
  simp only [ethSem] at hr
  have hb := eth_headerBytes_length { e with ptype := Eth.tagFor cx e } ⟨h.dst, h.src, eth_tagFor_lt cx e h⟩
  have hlen : (({ e with ptype := Eth.tagFor cx e } : Eth).headerBytes ++ (region.drop 14).take cx.innerSize ++
      List.replicate (Eth.trl cx.innerSize) 0).length = region.length := by
    simp only [List.length_append, List.length_take, List.length_drop, List.length_replicate, hb]; omega
  refine ⟨_, eth_write_eq cx e h region hr, hlen, ?_⟩
  simp only [innerOf, ethSem]
  rw [hlen, List.append_assoc, drop_append_len _ _ 14 hb]
  have hk : region.length - (14 + Eth.trl cx.innerSize) = ((region.drop 14).take cx.innerSize).length := by
    simp only [List.length_take, List.length_drop]; omega
  rw [hk, List.take_left' rfl, ← hk]
  congr 1
  omega

/-- the frame is padded to exactly 60 bytes, never beyond -/
theorem eth_trl_spec (n : Nat) : 14 + n + Eth.trl n = max 60 (14 + n) := by
  unfold Eth.trl; omega

/-- **C03 / EthernetII**: addresses are read back unchanged, the EtherType is the one `write_serialization` chose, and the
    inner bytes followed by the zero padding go to the constructor it selects -/
theorem eth_reparse (cx : Ctx) (e : Eth) (h : e.WF) (region : Bytes)
    (hl : region.length = 14 + cx.innerSize + Eth.trl cx.innerSize) :
    ∃ out, e.write cx region = .ok out ∧ out.length = region.length ∧
      Eth.parse out = .ok ({ e with ptype := Eth.tagFor cx e },
        etherInner (Eth.tagFor cx e) ((region.drop 14).take cx.innerSize ++ List.replicate (Eth.trl cx.innerSize) 0)) := by
  have hwf1 : ({ e with ptype := Eth.tagFor cx e } : Eth).WF := ⟨h.dst, h.src, eth_tagFor_lt cx e h⟩
  have hb := eth_headerBytes_length _ hwf1
  have hlen : (({ e with ptype := Eth.tagFor cx e } : Eth).headerBytes ++ (region.drop 14).take cx.innerSize ++
      List.replicate (Eth.trl cx.innerSize) 0).length = region.length := by
    simp only [List.length_append, List.length_take, List.length_drop, List.length_replicate, hb]; omega
  refine ⟨_, eth_write_eq cx e h region hl, hlen, ?_⟩
  rw [eth_parse_eq, hlen, List.append_assoc, eth_ofHeader_headerBytes _ hwf1, drop_append_len _ _ 14 hb]
  have h1 : ¬ region.length < 14 := by omega
  have h2 : region.length > 14 := by
    have := eth_trl_spec cx.innerSize; omega
  simp only [h1, if_false, h2, if_true]

theorem eth_reparse_view (cx : Ctx) (e : Eth) (h : e.WF) (region : Bytes)
    (hl : region.length = 14 + cx.innerSize + Eth.trl cx.innerSize) :
    ∃ out e' i, e.write cx region = .ok out ∧ Eth.parse out = .ok (e', i) ∧ e'.view = e.view := by
  rcases eth_reparse cx e h region hl with ⟨out, hw, _, hp⟩
  exact ⟨out, _, _, hw, hp, rfl⟩

/-- the EtherType is kept when the payload class has none -/
theorem eth_tag_kept (cx : Ctx) (e : Eth) (i : LayerInfo) (rest : List LayerInfo) (hc : cx.inners = i :: rest)
    (hp : Tags.pduTypeOf i.cls ≠ "PPPOE") (hq : Tags.pduTypeOf i.cls ≠ "DOT1Q")
    (hu : Tags.etherOfPduType (Tags.pduTypeOf i.cls) = 0) : Eth.tagFor cx e = e.ptype := by
  unfold Eth.tagFor
  rw [hc]
  simp [hp, hq, hu]

example : ∃ e i, Eth.parse ([1,2,3,4,5,6, 7,8,9,10,11,12, 0x12,0x34] ++ [9]) = .ok (e, i) ∧ e.ptype = 0x1234 ∧ i = .raw [9] :=
  ⟨_, _, rfl, rfl, rfl⟩
example : Eth.trl 10 = 36 ∧ Eth.trl 46 = 0 ∧ Eth.trl 1500 = 0 := ⟨rfl, rfl, rfl⟩

end Tins.Wire.L2
