import TinsModel.Wire.L2.Lemmas
/-
  The two capture pseudo-headers PPI and PKTAP (documented as not serializable: parsing only).
  C01: the parsing constructors are safe for every byte string — the raw accesses (`is_dot3`'s `ptr[12]`, the FCS cut
  of `parse_80211`, the `size(n)` shrink) are covered by their guards — and hand strictly shorter buffers on.
-/
namespace Tins.Wire.L2
open Tins Tins.Wire

theorem isDot3_safe (c : Cursor) (h : c.Inv) : ∃ d, Ppi.isDot3 c = .ok d := by
  unfold Ppi.isDot3
  split
  · rename_i hs
    rcases Cursor.peek_noFault "Internals::is_dot3 ptr[12]" c 12 1 h (by omega) with ⟨bs, he, _⟩
    exact ⟨decide (byteAt bs 0 < 8), by simp [he, bind, Out.bind, pure]⟩
  · exact ⟨false, rfl⟩

/-- the dispatch behind the PPI header: safe on every stream satisfying the invariant; whatever it hands to the next
    constructor is a prefix of what is left -/
theorem ppi_dispatch_spec (p : Ppi) (c : Cursor) (h : c.Inv) :
    (∃ i, Ppi.dispatch p c = .ok (p, i) ∧ ∀ name pb fb, i = .cls name pb fb → pb.length ≤ c.size)
    ∨ Ppi.dispatch p c = .throw .malformedPacket := by
  have hrest : ∀ (site : String) (c' : Cursor), c'.Inv → c'.size ≤ c.size →
      ∃ r, Cursor.rest site c' = .ok r ∧ r.length ≤ c.size := by
    intro site c' hi hs
    refine ⟨c'.mem.take c'.size, rest_mk site c'.mem c'.size hi, ?_⟩
    simp only [List.length_take]; omega
  unfold Ppi.dispatch
  split
  · split
    · -- 802.11: optional FCS cut
      simp only []
      split
      · right; rfl
      · rename_i hg
        left
        by_cases hf : (decide (p.data.length ≥ 13) && byteAt p.data 12 % 2 == 1) = true
        · have h4 : ¬ c.size < 4 := by
            intro hc; apply hg; simp [hf, hc]
          have hi : (c.setSize (c.size - 4)).Inv := by
            simp only [Cursor.Inv, Cursor.setSize] at *; omega
          rcases hrest "PPI::parse_80211" (c.setSize (c.size - 4)) hi (by simp [Cursor.setSize]) with ⟨r, er, hl⟩
          refine ⟨.cls "Dot11*" r false, by simp only [hf, if_true, er, bind, Out.bind, pure], ?_⟩
          intro name pb fb hi'; injection hi' with _ hpb _; subst hpb; exact hl
        · rcases hrest "PPI::parse_80211" c h (Nat.le_refl _) with ⟨r, er, hl⟩
          refine ⟨.cls "Dot11*" r false, by simp only [hf, Bool.false_eq_true, if_false, er, bind, Out.bind, pure], ?_⟩
          intro name pb fb hi'; injection hi' with _ hpb _; subst hpb; exact hl
    · split
      · left
        rcases isDot3_safe c h with ⟨d, ed⟩
        rcases hrest "PPI::PPI inner" c h (Nat.le_refl _) with ⟨r, er, hl⟩
        refine ⟨.cls (if d then "Dot3" else "EthernetII") r false, by simp only [ed, er, bind, Out.bind, pure], ?_⟩
        intro name pb fb hi'; injection hi' with _ hpb _; subst hpb; exact hl
      · split
        · left
          rcases hrest "PPI::PPI inner" c h (Nat.le_refl _) with ⟨r, er, hl⟩
          refine ⟨.cls "RadioTap" r false, by simp only [er, bind, Out.bind, pure], ?_⟩
          intro name pb fb hi'; injection hi' with _ hpb _; subst hpb; exact hl
        · split
          · left
            rcases hrest "PPI::PPI inner" c h (Nat.le_refl _) with ⟨r, er, hl⟩
            refine ⟨.cls "Loopback" r false, by simp only [er, bind, Out.bind, pure], ?_⟩
            intro name pb fb hi'; injection hi' with _ hpb _; subst hpb; exact hl
          · split
            · left
              rcases hrest "PPI::PPI inner" c h (Nat.le_refl _) with ⟨r, er, hl⟩
              refine ⟨.cls "SLL" r false, by simp only [er, bind, Out.bind, pure], ?_⟩
              intro name pb fb hi'; injection hi' with _ hpb _; subst hpb; exact hl
            · left; exact ⟨.none, rfl, by intro _ _ _ hi'; cases hi'⟩
  · left; exact ⟨.none, rfl, by intro _ _ _ hi'; cases hi'⟩

/-- shape of the PPI parsing constructor: header, length checks, option bytes, dispatch on what is left -/
theorem ppi_parse_unfold (b : Bytes) :
    Ppi.parse b =
      if b.length < 8 then .throw .malformedPacket
      else
        let length := Cursor.leNat (((b.take 8).drop 2).take 2)
        if length > b.length || length < 8 then .throw .malformedPacket
        else Ppi.dispatch ⟨byteAt (b.take 8) 0, byteAt (b.take 8) 1, length, Cursor.leNat ((b.take 8).drop 4),
                           (b.drop 8).take (length - 8)⟩ ⟨b.drop length, b.length - length⟩ := by
  simp only [Ppi.parse, read_ofBytes]
  by_cases h : b.length < 8
  · simp [h, bind, Out.bind]
  · simp only [h, if_false, bind, Out.bind]
    generalize hlen : Cursor.leNat (((b.take 8).drop 2).take 2) = length
    by_cases hc : (decide (length > b.length) || decide (length < 8)) = true
    · simp [hc]
    · simp only [hc, Bool.false_eq_true, if_false]
      have hle : length ≤ b.length ∧ 8 ≤ length := by
        simp only [Bool.or_eq_true, decide_eq_true_eq, not_or, Nat.not_lt] at hc
        omega
      by_cases ho : length - 8 > 0
      · have r := read_mk_drop b 8 (length - 8)
        have hnl : ¬ b.length - 8 < length - 8 := by omega
        have e1 : 8 + (length - 8) = length := by omega
        simp only [ho, if_true, r, hnl, if_false, e1]
      · have e0 : length = 8 := by omega
        subst e0
        simp [pure]

/-- **C01 / PPI** -/
theorem ppi_parse_safe (b : Bytes) : ParseSafe (Ppi.parse b) := by
  rw [ppi_parse_unfold]
  split
  · exact .malformed
  · simp only
    split
    · exact .malformed
    · rename_i hc
      have hle : Cursor.leNat (((b.take 8).drop 2).take 2) ≤ b.length := by
        simp only [Bool.or_eq_true, decide_eq_true_eq, not_or, Nat.not_lt] at hc
        omega
      have hi : (⟨b.drop (Cursor.leNat (((b.take 8).drop 2).take 2)), b.length - Cursor.leNat (((b.take 8).drop 2).take 2)⟩ : Cursor).Inv := by
        simp [Cursor.Inv]
      rcases ppi_dispatch_spec _ _ hi with ⟨i, e, _⟩ | e
      · rw [e]; exact .ok _
      · rw [e]; exact .malformed

theorem ppi_parse_consumes (b : Bytes) (p : Ppi) (name : String) (pb : Bytes) (fb : Bool)
    (h : Ppi.parse b = .ok (p, .cls name pb fb)) : pb.length < b.length := by
  rw [ppi_parse_unfold] at h
  split at h
  · cases h
  · simp only at h
    split at h
    · cases h
    · rename_i h8 hc
      have hle : Cursor.leNat (((b.take 8).drop 2).take 2) ≤ b.length ∧ 8 ≤ Cursor.leNat (((b.take 8).drop 2).take 2) := by
        simp only [Bool.or_eq_true, decide_eq_true_eq, not_or, Nat.not_lt] at hc
        omega
      have hi : (⟨b.drop (Cursor.leNat (((b.take 8).drop 2).take 2)), b.length - Cursor.leNat (((b.take 8).drop 2).take 2)⟩ : Cursor).Inv := by
        simp [Cursor.Inv]
      rcases ppi_dispatch_spec _ _ hi with ⟨i, e, hb⟩ | e
      · rw [e] at h
        injection h with h; injection h with _ hi2
        have := hb name pb fb hi2
        simp only at this
        omega
      · rw [e] at h; cases h

/-! ### PKTAP -/

theorem pktap_ofDlt_bytes (dlt : Nat) (rest : Bytes) (name : String) (pb : Bytes) (fb : Bool)
    (h : Pktap.ofDlt dlt rest = .cls name pb fb) : pb = rest := by
  unfold Pktap.ofDlt at h
  repeat' split at h
  all_goals first | (injection h with _ h _; exact h.symm) | cases h

/-- shape of the PKTAP parsing constructor: header, length checks, skip of the extra header bytes, dispatch -/
theorem pktap_parse_unfold (b : Bytes) :
    Pktap.parse b =
      if b.length < 108 then .throw .malformedPacket
      else
        let length := Cursor.leNat ((b.take 108).take 4)
        if length > b.length || length < 108 then .throw .malformedPacket
        else Pktap.tail ⟨length, Cursor.leNat (((b.take 108).drop 4).take 4), Cursor.leNat (((b.take 108).drop 8).take 4)⟩
               ⟨b.drop length, b.length - length⟩ := by
  simp only [Pktap.parse, read_ofBytes]
  by_cases h : b.length < 108
  · simp [h, bind, Out.bind]
  · simp only [h, if_false, bind, Out.bind]
    generalize hlen : Cursor.leNat ((b.take 108).take 4) = length
    by_cases hc : (decide (length > b.length) || decide (length < 108)) = true
    · rw [if_pos hc, if_pos hc]
    · rw [if_neg hc, if_neg hc]
      have hle : length ≤ b.length ∧ 108 ≤ length := by
        simp only [Bool.or_eq_true, decide_eq_true_eq, not_or, Nat.not_lt] at hc
        omega
      have hsk : (⟨b.drop 108, b.length - 108⟩ : Cursor).skip (length - 108) = .ok ⟨b.drop length, b.length - length⟩ := by
        have : ¬ length - 108 > b.length - 108 := by omega
        simp only [Cursor.skip, this, if_false, List.drop_drop, Out.ok.injEq, Cursor.mk.injEq]
        constructor
        · congr 1; omega
        · omega
      simp only [hsk]

theorem pktap_tail_spec (p : Pktap) (c : Cursor) (h : c.Inv) :
    ∃ i, Pktap.tail p c = .ok (p, i) ∧ ∀ name pb fb, i = .cls name pb fb → pb.length ≤ c.size := by
  unfold Pktap.tail
  split
  · refine ⟨Pktap.ofDlt p.dlt (c.mem.take c.size), by simp only [rest_mk _ c.mem c.size h, bind, Out.bind, pure], ?_⟩
    intro name pb fb hi
    have := pktap_ofDlt_bytes _ _ _ _ _ hi
    subst this
    simp only [List.length_take]; omega
  · exact ⟨.none, rfl, by intro _ _ _ hi; cases hi⟩

/-- **C01 / PKTAP** -/
theorem pktap_parse_safe (b : Bytes) : ParseSafe (Pktap.parse b) := by
  rw [pktap_parse_unfold]
  split
  · exact .malformed
  · simp only
    split
    · exact .malformed
    · have hi : (⟨b.drop (Cursor.leNat ((b.take 108).take 4)), b.length - Cursor.leNat ((b.take 108).take 4)⟩ : Cursor).Inv := by
        simp [Cursor.Inv]
      rcases pktap_tail_spec _ _ hi with ⟨i, e, _⟩
      rw [e]; exact .ok _

theorem pktap_parse_consumes (b : Bytes) (p : Pktap) (name : String) (pb : Bytes) (fb : Bool)
    (h : Pktap.parse b = .ok (p, .cls name pb fb)) : pb.length < b.length := by
  rw [pktap_parse_unfold] at h
  split at h
  · cases h
  · simp only at h
    split at h
    · cases h
    · rename_i h108 hc
      have hle : 108 ≤ Cursor.leNat ((b.take 108).take 4) ∧ Cursor.leNat ((b.take 108).take 4) ≤ b.length := by
        simp only [Bool.or_eq_true, decide_eq_true_eq, not_or, Nat.not_lt] at hc
        omega
      have hi : (⟨b.drop (Cursor.leNat ((b.take 108).take 4)), b.length - Cursor.leNat ((b.take 108).take 4)⟩ : Cursor).Inv := by
        simp [Cursor.Inv]
      rcases pktap_tail_spec _ _ hi with ⟨i, e, hb⟩
      rw [e] at h
      injection h with h; injection h with _ hi2
      have := hb name pb fb hi2
      simp only at this
      omega

/-- both pseudo-headers refuse to be serialized, as documented -/
theorem capture_not_serializable (cx : Ctx) (p : Ppi) (q : Pktap) (region : Bytes) :
    p.write cx region = .throw .pduNotSerializable ∧ q.write cx region = .throw .pduNotSerializable := ⟨rfl, rfl⟩

example : ∃ p, Ppi.parse [0, 0, 8, 0, 113, 0, 0, 0] = .ok (p, .none) ∧ p.dlt = 113 := ⟨_, rfl, rfl⟩
example : Ppi.parse [0, 0, 9, 0, 1, 0, 0, 0] = .throw .malformedPacket := rfl

end Tins.Wire.L2
