import TinsModel.Wire.L2.ThChainStep
/-
  **Whole-packet C03 for the L2 family, first half** — "parsing the serialization of a packet succeeds and yields the same
  stack of layers with the same field values and payload bytes; only fields libtins derives may differ".

  The per-class theorems `<cls>_reparse` (one layer written into its region and parsed back) are lifted through
  `Wire.serializeObjs` (= `PDU::serialize` over the registry's chain) and `Wire.parseChain` (= the nested parsing
  constructors) for stacks of **any depth**, by induction over the stack (`chain_reparse_aux`).

  Covered: every stack of EthernetII, Dot1Q, SNAP, SLL, Dot3, LLC, Loopback, MPLS, PPPoE layers over an optional final
  RawPDU that satisfies `Stackable` (ThChainStep.lean) — every layer satisfies its invariant (`ObjInv`: what parsing
  establishes and every API call keeps) and is linked to its successor the way the protocols can express it (`Link`):
    * EthernetII / Dot1Q / SNAP / SLL are followed by Dot1Q, MPLS or PPPoE (the classes of the family an EtherType names:
      the writer derives the tag, `Tags.classOfEther` maps it back — `eth_tagFor_dispatch`, `headTag_tier`), or by a
      RawPDU under a stored EtherType libtins does not dispatch on, or by nothing;
    * Dot3 by LLC or nothing; Loopback by LLC, or by a RawPDU / nothing under a family the parser does not dispatch on;
    * LLC (no XID information fields: KF-C04-L2-1) by a RawPDU (not under DSAP = SSAP = 0x42, which names STP) or nothing;
    * MPLS by MPLS (bottom-of-stack clear), by a RawPDU (bit set, first nibble neither 4 nor 6) or nothing;
    * PPPoE session (code 0, no tags) by a RawPDU of < 65536 bytes or nothing; PPPoE discovery (tags < 65536 bytes) by nothing.
  **Minimum-frame padding is in play and accounted for exactly as `WireSpec.sameView` does**: the EthernetII pad-to-60 and
  Dot1Q pad-to-50 trailers show up in the re-parsed packet as at most `padOf os` = Σ `trailer_size()` zero bytes at the
  end of the innermost payload — all of them, or none when a PPPoE payload length cuts them off (`StepInner`, `padTo`);
  with `padOf os = 0` the payload comes back byte for byte (`l2_chain_reparse_nopad`).
  Not covered: chains that leave the family (IP, IPv6, ARP, EAPOL, STP below an L2 layer — the other families' per-class
  theorems are lifted by their owners), PPI / PKTAP (not serializable).

  Main statements:  `l2_chain_reparse`, `l2_chain_reparse_view`, `l2_chain_reparse_nopad`; for stacks with a non-empty
  payload `chain_reparse_aux` also gives the re-parsed stack explicitly (`re`: every layer as `wr` = `write_serialization`
  left it on the wire), which the second half (ThChainFixpoint.lean) builds on.
-/
namespace Tins.Wire.L2
open Tins Tins.Wire

/-! ### unfolding one level of the nested parsing constructors -/

theorem l2_modelled (x : Obj) : modelled (info x).1 = true := by
  cases x <;> (simp only [info]; decide)

theorem parseChain_leaf (fuel : Nat) (cls : String) (b : Bytes) (o : AnyObj) (inner : Inner) (q : Bytes)
    (hm : modelled cls = true) (hp : parseOne cls b = .ok (o, inner)) (ht : TailInner inner q) :
    ∃ t', parseChain (fuel + 1) cls b = .ok (o :: t') ∧ IsTail t' q := by
  rcases ht with ⟨rfl, rfl⟩ | rfl
  · exact ⟨[], by simp [parseChain, hm, hp], .inl ⟨rfl, rfl⟩⟩
  · exact ⟨[.raw q], by simp [parseChain, hm, hp], .inr rfl⟩

theorem parseChain_cls (fuel : Nat) (cls : String) (b : Bytes) (o : AnyObj) (name : String) (pb : Bytes) (fb : Bool)
    (ls : List AnyObj) (hm : modelled cls = true) (hp : parseOne cls b = .ok (o, .cls name pb fb))
    (hrec : parseChain fuel name pb = .ok ls) : parseChain (fuel + 1) cls b = .ok (o :: ls) := by
  simp [parseChain, hm, hp, hrec]

theorem hdr_pos (x : Obj) (n : Next) (h : Link x n) : 0 < hdr x := by
  cases x <;> first
    | (simp only [hdr, Llc.hdr, PPPoE.hdr, Pktap.headerLen]; omega)
    | (cases n <;> simp [Link] at h)

theorem padOf_cons (x : Obj) (os : List AnyObj) :
    padOf (.l2 x :: os) = trl x ((infos os).map (fun l => l.hdr + l.trl)).sum + padOf os := by
  simp [padOf, infos, AnyObj.trl]

/-- padding is only ever handed to Dot1Q / MPLS / PPPoE: what follows a layer with a trailer, or a layer that itself
    has padding behind it -/
theorem link_pad (ps : List LayerInfo) (x y : Obj) (r : List AnyObj) (n k : Nat) (hlink : Link x (.l2 y r))
    (hk : k = 0 ∨ (ps ≠ [] ∧ EtherTier x)) : trl x n + k = 0 ∨ EtherTier y := by
  have hk0 : ¬ EtherTier x → k = 0 := fun hn => by rcases hk with h | h; exact h; exact absurd h.2 hn
  cases x with
  | eth e => right; exact hlink
  | dot1q q => right; exact hlink
  | snap s => right; exact hlink
  | sll s => right; exact hlink
  | dot3 d => left; rw [hk0 (by simp [EtherTier])]; rfl
  | loopback l => left; rw [hk0 (by simp [EtherTier])]; rfl
  | mpls m => cases y <;> simp [Link] at hlink; right; trivial
  | llc l => simp [Link] at hlink
  | pppoe p => simp [Link] at hlink
  | ppi p => simp [Link] at hlink
  | pktap p => simp [Link] at hlink

/-- `PDU::serialize` of a final RawPDU: its payload -/
theorem serializeInto_raw (ps : List LayerInfo) (p region : Bytes) (h : region.length = p.length) :
    serializeInto (semsAux ps [.raw p] (infos [.raw p])) region = .ok p := by
  have hd : List.drop p.length region = [] := List.drop_eq_nil_of_le (by omega)
  have ht : List.take p.length region = region := List.take_of_length_le (by omega)
  simp [semsAux, infos, serializeInto, AnyObj.write, AnyObj.hdr, AnyObj.trl, AnyObj.info, splice, bind, Out.bind, hd, ht,
    writeAtStart_eq region p (by omega)]

/-- the registry's `LayerInfo` / `LayerSem` of a family object above the stack `os` -/
def liOf (x : Obj) (os : List AnyObj) : LayerInfo :=
  ⟨(info x).1, (info x).2, hdr x, trl x ((infos os).map (fun l => l.hdr + l.trl)).sum⟩
def semOf (ps : List LayerInfo) (x : Obj) (os : List AnyObj) : LayerSem :=
  { name := (info x).1, hdr := hdr x, trl := trl x ((infos os).map (fun l => l.hdr + l.trl)).sum,
    write := write (cxOf ps os) x }

theorem semsAux_l2 (ps : List LayerInfo) (x : Obj) (os : List AnyObj) :
    semsAux ps (.l2 x :: os) (infos (.l2 x :: os)) = semOf ps x os :: semsAux (liOf x os :: ps) os (infos os) := rfl

@[simp] theorem semOf_hdr (ps : List LayerInfo) (x : Obj) (os : List AnyObj) : (semOf ps x os).hdr = hdr x := rfl
@[simp] theorem semOf_trl (ps : List LayerInfo) (x : Obj) (os : List AnyObj) :
    (semOf ps x os).trl = trl x ((infos os).map (fun l => l.hdr + l.trl)).sum := rfl

theorem cxOf_innerSize (ps : List LayerInfo) (os : List AnyObj) :
    (cxOf ps os).innerSize = ((infos os).map (fun l => l.hdr + l.trl)).sum := rfl

/-- one level of `PDU::serialize` + one level of the parsing constructors, given the output `io` of the inner chain -/
theorem chain_step (x : Obj) (os : List AnyObj) (ps : List LayerInfo) (region : Bytes) (k : Nat)
    (hinv : ObjInv x) (hlink : Link x (next os))
    (hlen : region.length = Wire.sizeOf (semsAux ps (.l2 x :: os) (infos (.l2 x :: os))))
    (hk : k = 0 ∨ (ps ≠ [] ∧ EtherTier x)) (io : Bytes)
    (hio : serializeInto (semsAux (liOf x os :: ps) os (infos os)) (innerOf (semOf ps x os) region) = .ok io)
    (hiol : io.length = (cxOf ps os).innerSize)
    (hnil : os = [] → io = []) (hraw : ∀ p, os = [.raw p] → io = p) (hpos : ∀ y r, os = .l2 y :: r → 0 < io.length) :
    ∃ out x' inner, serializeInto (semsAux ps (.l2 x :: os) (infos (.l2 x :: os))) region = .ok out ∧
      out.length = region.length ∧
      parseOne (info x).1 (out ++ List.replicate k 0) = .ok (.l2 x', inner) ∧
      layerView false (.l2 x') = layerView false (.l2 x) ∧ x' = wr (cxOf ps os) x ∧
      StepInner x x' os io (trl x (cxOf ps os).innerSize + k) inner := by
  rw [semsAux_l2] at hlen ⊢
  simp only [Wire.sizeOf, sizeOf_semsAux, semOf_hdr, semOf_trl] at hlen
  rw [cxOf_innerSize] at hiol
  have hsl : (splice region (hdr x) io).length = region.length := splice_length _ _ _ (by omega)
  have hin : innerOf (semOf ps x os) (splice region (semOf ps x os).hdr io) = io :=
    innerOf_splice (semOf ps x os) region io (by simp only [semOf_hdr, semOf_trl]; omega)
      (by simp only [semOf_hdr, semOf_trl]; omega)
  have hin' : ((splice region (hdr x) io).drop (hdr x)).take (cxOf ps os).innerSize = io := by
    have h2 := hin
    simp only [innerOf, semOf_hdr, semOf_trl, hsl] at h2
    rw [cxOf_innerSize]
    have e : region.length - (hdr x + trl x ((infos os).map (fun l => l.hdr + l.trl)).sum) =
        ((infos os).map (fun l => l.hdr + l.trl)).sum := by omega
    rw [e] at h2
    exact h2
  rcases l2_step ps x os hinv hlink k hk (splice region (hdr x) io) io (by rw [hsl, cxOf_innerSize]; omega) hin'
    (by rw [cxOf_innerSize]; exact hiol) hnil hraw hpos with ⟨out, x', inner, hw, hl, hp, hv, he, hs⟩
  refine ⟨out, x', inner, ?_, by omega, hp, hv, he, hs⟩
  have hio' : serializeInto (semsAux (liOf x os :: ps) os (infos os))
      ((region.drop (semOf ps x os).hdr).take (region.length - ((semOf ps x os).hdr + (semOf ps x os).trl))) = .ok io := hio
  simp only [serializeInto, hio', bind, Out.bind]
  exact hw

theorem splitRaw_l2_ne (y : Obj) (r : List AnyObj) : (splitRaw (.l2 y :: r)).1 ≠ [] := by
  cases r with
  | nil => simp [splitRaw]
  | cons a t => rw [splitRaw_cons_cons]; simp

/-- the stack the re-parse yields for a stack that ends in a non-empty RawPDU: every layer as `write_serialization` left
    it on the wire (`wr`), and the `k` padding bytes behind the stack appended to the payload unless a PPPoE payload
    length cut them off -/
def re (ps : List LayerInfo) : List AnyObj → Nat → List AnyObj
  | [], _ => []
  | .l2 x :: os, k => .l2 (wr (cxOf ps os) x) :: re (liOf x os :: ps) os (padTo x (trl x (cxOf ps os).innerSize + k))
  | .raw p :: _, k => [.raw (p ++ List.replicate k 0)]
  | o :: os, _ => o :: os

theorem splitRaw_cons_l2 (x y : Obj) (r : List AnyObj) : (splitRaw (.l2 x :: .l2 y :: r)).2 = (splitRaw (.l2 y :: r)).2 := by
  rw [splitRaw_cons_cons]

theorem isTail_nonempty {t : List AnyObj} {q : Bytes} (h : IsTail t q) (hq : q ≠ []) : t = [.raw q] := by
  rcases h with ⟨_, h⟩ | h
  · exact absurd h hq
  · exact h

/-- **whole-packet C03, generalised for the induction**: any sub-stack (`x :: os`, with the ancestors `ps` above it),
    serialized into a region of its size, followed by `k` zero bytes of the ancestors' padding -/
theorem chain_reparse_aux (os : List AnyObj) : ∀ (x : Obj) (ps : List LayerInfo) (region : Bytes) (k : Nat),
    Stackable (.l2 x :: os) →
    region.length = Wire.sizeOf (semsAux ps (.l2 x :: os) (infos (.l2 x :: os))) →
    (k = 0 ∨ (ps ≠ [] ∧ EtherTier x)) →
    ∃ out, serializeInto (semsAux ps (.l2 x :: os) (infos (.l2 x :: os))) region = .ok out ∧ out.length = region.length ∧
      ∀ fuel, out.length + k < fuel →
        ∃ os', parseChain fuel (info x).1 (out ++ List.replicate k 0) = .ok os' ∧
          ViewEq (k + padOf (.l2 x :: os)) (.l2 x :: os) os' ∧
          ((splitRaw (.l2 x :: os)).2 ≠ [] → os' = re ps (.l2 x :: os) k) := by
  induction os with
  | nil =>
    intro x ps region k hst hlen hk
    obtain ⟨hinv, hlink, _⟩ := hst
    have hlen0 := hlen
    rw [semsAux_l2] at hlen0
    simp only [Wire.sizeOf, semOf_hdr, semOf_trl, semsAux, infos, List.map_nil, List.sum_nil] at hlen0
    have hil : (innerOf (semOf ps x []) region).length = 0 := by
      simp only [innerOf, semOf_hdr, semOf_trl, infos, List.map_nil, List.sum_nil, List.length_take, List.length_drop]; omega
    have hi0 : innerOf (semOf ps x []) region = [] := List.eq_nil_of_length_eq_zero hil
    rcases chain_step x [] ps region k hinv hlink hlen hk [] (by rw [hi0]; rfl) rfl (fun _ => rfl)
      (fun p h => by cases h) (fun y r h => by cases h) with ⟨out, x', inner, hser, hl, hp, hv, _, hs⟩
    refine ⟨out, hser, hl, ?_⟩
    intro fuel hf
    obtain ⟨f, rfl⟩ : ∃ f, fuel = f + 1 := ⟨fuel - 1, by omega⟩
    unfold StepInner at hs
    have hn : next ([] : List AnyObj) = .none := rfl
    rw [hn] at hs
    have hj := padTo_le x (trl x (cxOf ps []).innerSize + k)
    rcases parseChain_leaf f _ _ _ _ _ (l2_modelled x) hp hs with ⟨t', hpc, htl⟩
    refine ⟨_, hpc, ?_, fun h => absurd rfl h⟩
    apply viewEq_leaf _ x x' [] t' [] _ (by rw [padOf_cons]; simp only [infos, List.map_nil, List.sum_nil, cxOf_innerSize] at hj ⊢; omega)
      (.inl ⟨rfl, rfl⟩) htl hv.symm
  | cons a r ih =>
    intro x ps region k hst hlen hk
    obtain ⟨hinv, hlink, hst'⟩ := hst
    have hlen0 := hlen
    rw [semsAux_l2] at hlen0
    simp only [Wire.sizeOf, sizeOf_semsAux, semOf_hdr, semOf_trl] at hlen0
    have hil : (innerOf (semOf ps x (a :: r)) region).length = ((infos (a :: r)).map (fun l => l.hdr + l.trl)).sum := by
      simp only [innerOf, semOf_hdr, semOf_trl, List.length_take, List.length_drop]; omega
    cases a with
    | raw p =>
      have hr : r = [] := hst'
      subst hr
      have hsz := cxOf_innerSize_raw ps p
      rw [cxOf_innerSize] at hsz
      rcases chain_step x [.raw p] ps region k hinv hlink hlen hk p
        (serializeInto_raw _ p _ (by rw [hil, hsz])) (by rw [cxOf_innerSize, hsz]) (fun h => by cases h)
        (fun q h => by cases h; rfl) (fun y r h => by cases h) with
        ⟨out, x', inner, hser, hl, hp, hv, hx', hs⟩
      refine ⟨out, hser, hl, ?_⟩
      intro fuel hf
      obtain ⟨f, rfl⟩ : ∃ f, fuel = f + 1 := ⟨fuel - 1, by omega⟩
      unfold StepInner at hs
      have hn : next [AnyObj.raw p] = .raw p := rfl
      rw [hn] at hs
      obtain ⟨hvt, ht⟩ := hs
      have hj := padTo_le x (trl x (cxOf ps [.raw p]).innerSize + k)
      rcases parseChain_leaf f _ _ _ _ _ (l2_modelled x) hp ht with ⟨t', hpc, htl⟩
      refine ⟨_, hpc, ?_, ?_⟩
      · apply viewEq_leaf _ x x' [.raw p] t' p _
          (by rw [padOf_cons]; simp only [cxOf_innerSize] at hj ⊢; omega) (.inr rfl) htl hvt.symm
      · intro hne
        have hp0 : p ≠ [] := hne
        rw [isTail_nonempty htl (by simp [hp0]), hx']
        rfl
    | l2 y =>
      have hn : next (AnyObj.l2 y :: r) = .l2 y r := rfl
      rw [hn] at hlink
      have hk' := link_pad ps x y r ((infos (.l2 y :: r)).map (fun l => l.hdr + l.trl)).sum k hlink hk
      rcases ih y (liOf x (.l2 y :: r) :: ps) (innerOf (semOf ps x (.l2 y :: r)) region)
        (trl x ((infos (.l2 y :: r)).map (fun l => l.hdr + l.trl)).sum + k) hst' (by rw [hil, sizeOf_semsAux])
        (by rcases hk' with h | h; exact .inl h; exact .inr ⟨by simp, h⟩) with ⟨io, hio, hiol, hpar⟩
      have hnp : isPppoe x = false := by
        cases x <;> first | rfl | (simp [Link] at hlink)
      have hypos : 0 < hdr y := hdr_pos y _ hst'.2.1
      have hiopos : 0 < io.length := by
        rw [hiol, hil]
        simp only [infos, List.map_cons, List.sum_cons, AnyObj.hdr]
        omega
      rcases chain_step x (.l2 y :: r) ps region k hinv (by rw [hn]; exact hlink) hlen hk io hio
        (by rw [hiol, hil]; rfl) (fun h => by cases h) (fun q h => by cases h) (fun _ _ _ => hiopos) with
        ⟨out, x', inner, hser, hl, hp, hv, hx', hs⟩
      refine ⟨out, hser, hl, ?_⟩
      intro fuel hf
      obtain ⟨f, rfl⟩ : ∃ f, fuel = f + 1 := ⟨fuel - 1, by omega⟩
      unfold StepInner at hs
      rw [hn] at hs
      obtain ⟨hinner, _⟩ := hs
      subst hinner
      have hxpos : 0 < hdr x := hdr_pos x _ hlink
      rcases hpar f (by rw [cxOf_innerSize] at *; omega) with ⟨os'', hrec, hview, hre⟩
      refine ⟨_, parseChain_cls f _ _ _ _ _ _ _ (l2_modelled x) hp hrec, ?_, ?_⟩
      · apply viewEq_cons _ (.l2 x) (.l2 x') _ _ (splitRaw_l2_ne y r) hv.symm
        exact viewEq_pad_mono hview (by rw [padOf_cons x]; omega)
      · intro hne
        rw [splitRaw_cons_l2] at hne
        rw [hre hne, hx']
        simp only [re, padTo, hnp, Bool.false_eq_true, if_false, cxOf_innerSize]
    | ip _ => exact hst'.elim
    | ip6 _ => exact hst'.elim
    | icmp _ => exact hst'.elim
    | tr _ => exact hst'.elim
    | app _ => exact hst'.elim
    | wifi _ => exact hst'.elim

/-- **C03 / L2, whole packets (`l2_chain_reparse`)**: for every stack `o :: os` of L2 layers over an optional RawPDU that
    the protocols can express (`Stackable`), if `PDU::serialize()` returns `out` then the parsing constructor of the
    outermost class accepts `out` (with the drivers' fuel `|out| + 2`) and yields a stack `os'` with the same view:
    the same classes in the same order, the same `Fields.view` per layer (`^` tags compared for the layer directly above a
    non-empty unrecognised payload), the same payload bytes followed by at most `padOf (o :: os)` = Σ `trailer_size()`
    zero bytes of minimum-frame padding. -/
theorem l2_chain_reparse (o : AnyObj) (os : List AnyObj) (hs : Stackable (o :: os)) (out : Bytes)
    (hser : serializeObjs (o :: os) = .ok out) :
    ∃ os', parseChain (out.length + 2) o.info.1 out = .ok os' ∧ ViewEq (padOf (o :: os)) (o :: os) os' := by
  cases o with
  | raw p =>
    have hr : os = [] := hs
    subst hr
    have hser' : serializeInto (semsAux [] [.raw p] (infos [.raw p])) (List.replicate p.length 0) = .ok out := by
      have : Wire.sizeOf (semsAux [] [.raw p] (infos [.raw p])) = p.length := by
        simp [semsAux, infos, Wire.sizeOf, AnyObj.hdr, AnyObj.trl]
      rw [← this]; exact hser
    rw [serializeInto_raw [] p _ (by simp)] at hser'
    injection hser' with hser'
    subst hser'
    refine ⟨[.raw p], by simp [parseChain, modelled, parseOne, AnyObj.info], ?_⟩
    have : padOf [AnyObj.raw p] = 0 := by simp [padOf, infos, AnyObj.trl]
    rw [this]
    exact viewEq_raw p
  | l2 x =>
    rcases chain_reparse_aux os x [] (List.replicate (Wire.sizeOf (sems (.l2 x :: os))) 0) 0 hs (by simp [sems])
      (.inl rfl) with ⟨out', hser', hl, hpar⟩
    have : out' = out := by
      have := hser'.symm.trans hser
      injection this
    subst this
    rcases hpar (out'.length + 2) (by omega) with ⟨os', hp, hv, _⟩
    rw [List.replicate_zero, List.append_nil] at hp
    rw [Nat.zero_add] at hv
    exact ⟨os', hp, hv⟩
  | ip _ => exact hs.elim
  | ip6 _ => exact hs.elim
  | icmp _ => exact hs.elim
  | tr _ => exact hs.elim
  | app _ => exact hs.elim
  | wifi _ => exact hs.elim

/-- the same as a statement about the result of the re-parse (the parsing constructors are functions) -/
theorem l2_chain_reparse_view (o : AnyObj) (os : List AnyObj) (hs : Stackable (o :: os)) (out : Bytes)
    (hser : serializeObjs (o :: os) = .ok out) (os' : List AnyObj)
    (hp : parseChain (out.length + 2) o.info.1 out = .ok os') : ViewEq (padOf (o :: os)) (o :: os) os' := by
  rcases l2_chain_reparse o os hs out hser with ⟨os'', hp', hv⟩
  have := hp'.symm.trans hp
  injection this with this
  subst this
  exact hv

/-- without minimum-frame padding in play the payload comes back byte for byte -/
theorem l2_chain_reparse_nopad (o : AnyObj) (os : List AnyObj) (hs : Stackable (o :: os)) (hpad : padOf (o :: os) = 0)
    (out : Bytes) (hser : serializeObjs (o :: os) = .ok out) :
    ∃ os', parseChain (out.length + 2) o.info.1 out = .ok os' ∧ ViewEq 0 (o :: os) os' ∧
      (splitRaw os').2 = (splitRaw (o :: os)).2 := by
  rcases l2_chain_reparse o os hs out hser with ⟨os', hp, hv⟩
  rw [hpad] at hv
  refine ⟨os', hp, hv, ?_⟩
  rcases hv.2 with ⟨j, hj, he⟩
  have : j = 0 := by omega
  subst this
  simpa using he

/-! ### non-vacuity: concrete stacks, their serialization, the re-parse, and the theorem applied to them -/

section Examples

/-- EthernetII / Dot1Q (padding on) / Dot1Q / RawPDU: 802.1ad tag derived for the outer VLAN tag, 39 bytes of padding in
    the outer Dot1Q's trailer, which the re-parse appends to the payload; `append_padding` (not on the wire) is cleared -/
def exQinQ : List AnyObj :=
  [.l2 (.eth ⟨[1,2,3,4,5,6], [7,8,9,10,11,12], 0x1234⟩), .l2 (.dot1q ⟨5, 1, 0x234, 0, true⟩),
   .l2 (.dot1q ⟨0, 0, 7, 0x9999, false⟩), .raw [0xaa, 0xbb, 0xcc]]
def exQinQ_bytes : Bytes :=
  [1,2,3,4,5,6, 7,8,9,10,11,12, 0x88,0xa8, 0xb2,0x34,0x81,0x00, 0x00,0x07,0x99,0x99, 0xaa,0xbb,0xcc] ++ List.replicate 39 0
def exQinQ_re : List AnyObj :=
  [.l2 (.eth ⟨[1,2,3,4,5,6], [7,8,9,10,11,12], 0x88a8⟩), .l2 (.dot1q ⟨5, 1, 0x234, 0x8100, false⟩),
   .l2 (.dot1q ⟨0, 0, 7, 0x9999, false⟩), .raw ([0xaa, 0xbb, 0xcc] ++ List.replicate 39 0)]

theorem exQinQ_stackable : Stackable exQinQ :=
  ⟨⟨rfl, rfl, by decide⟩, trivial, ⟨by decide, by decide, by decide, by decide⟩, trivial,
   ⟨by decide, by decide, by decide, by decide⟩, (by decide : Tags.classOfEther 0x9999 = none), rfl⟩
example : serializeObjs exQinQ = .ok exQinQ_bytes := rfl
example : padOf exQinQ = 39 := rfl
example : parseChain (exQinQ_bytes.length + 2) "EthernetII" exQinQ_bytes = .ok exQinQ_re := rfl
example : ViewEq 39 exQinQ exQinQ_re := l2_chain_reparse_view _ _ exQinQ_stackable exQinQ_bytes rfl _ rfl

/-- Dot3 / LLC (unnumbered UI) / RawPDU: the 802.3 length is derived, no padding, payload identical -/
def exDot3 : List AnyObj :=
  [.l2 (.dot3 ⟨[1,2,3,4,5,6], [7,8,9,10,11,12], 0⟩), .l2 (.llc ⟨0xaa, 0xaa, .unnumbered, 1, 3, 0, 0, []⟩), .raw [1, 2, 3]]
def exDot3_re : List AnyObj :=
  [.l2 (.dot3 ⟨[1,2,3,4,5,6], [7,8,9,10,11,12], 6⟩), .l2 (.llc ⟨0xaa, 0xaa, .unnumbered, 1, 3, 0, 0, []⟩), .raw [1, 2, 3]]
theorem exDot3_stackable : Stackable exDot3 :=
  ⟨⟨rfl, rfl, by decide⟩, trivial, ⟨by decide, by decide, by decide, by decide, rfl, by decide, rfl⟩,
   ⟨rfl, by decide⟩, rfl⟩
example : serializeObjs exDot3 = .ok [1,2,3,4,5,6, 7,8,9,10,11,12, 0,6, 0xaa,0xaa,3, 1,2,3] := rfl
example : parseChain 22 "Dot3" [1,2,3,4,5,6, 7,8,9,10,11,12, 0,6, 0xaa,0xaa,3, 1,2,3] = .ok exDot3_re := rfl
example : ViewEq 0 exDot3 exDot3_re := l2_chain_reparse_view _ _ exDot3_stackable _ rfl _ rfl

/-- Loopback / LLC: the family word is derived from the inner class (PF_LLC = 26) -/
def exLoop : List AnyObj := [.l2 (.loopback ⟨0⟩), .l2 (.llc ⟨0x42, 0x42, .information, 2, 4, 7, 0, []⟩)]
theorem exLoop_stackable : Stackable exLoop :=
  ⟨(by decide : (0 : Nat) < 4294967296), trivial, ⟨by decide, by decide, by decide, by decide, rfl, by decide, rfl⟩, rfl, trivial⟩
example : serializeObjs exLoop = .ok [26,0,0,0, 0x42,0x42,4,7] := rfl
example : parseChain 10 "Loopback" [26,0,0,0, 0x42,0x42,4,7] =
    .ok [.l2 (.loopback ⟨26⟩), .l2 (.llc ⟨0x42, 0x42, .information, 2, 4, 7, 0, []⟩)] := rfl
example : ∃ os', parseChain 10 "Loopback" [26,0,0,0, 0x42,0x42,4,7] = .ok os' ∧ ViewEq 0 exLoop os' :=
  l2_chain_reparse _ _ exLoop_stackable _ rfl

/-- a Loopback header alone (family the parser does not dispatch on): re-parsed with an empty RawPDU, which counts as
    no payload -/
theorem exLoop1_stackable : Stackable [.l2 (.loopback ⟨7⟩)] :=
  ⟨(by decide : (7 : Nat) < 4294967296), ⟨by decide, by decide, by decide⟩, trivial⟩
example : parseChain 6 "Loopback" [7,0,0,0] = .ok [.l2 (.loopback ⟨7⟩), .raw []] := rfl
example : ViewEq 0 [.l2 (.loopback ⟨7⟩)] [.l2 (.loopback ⟨7⟩), .raw []] :=
  l2_chain_reparse_view _ _ exLoop1_stackable [7,0,0,0] rfl _ rfl

/-- SLL / Dot1Q / RawPDU: the cooked header's protocol is derived (0x8100), the VLAN tag's type is kept (unknown payload) -/
def exSll : List AnyObj :=
  [.l2 (.sll ⟨0, 1, 6, [1,2,3,4,5,6,0,0], 0⟩), .l2 (.dot1q ⟨1, 0, 9, 0x1111, false⟩), .raw [9]]
theorem exSll_stackable : Stackable exSll :=
  ⟨⟨by decide, by decide, by decide, rfl, by decide⟩, trivial, ⟨by decide, by decide, by decide, by decide⟩,
   (by decide : Tags.classOfEther 0x1111 = none), rfl⟩
example : serializeObjs exSll = .ok [0,0, 0,1, 0,6, 1,2,3,4,5,6,0,0, 0x81,0x00, 0x20,0x09,0x11,0x11, 9] := rfl
example : parseChain 23 "SLL" [0,0, 0,1, 0,6, 1,2,3,4,5,6,0,0, 0x81,0x00, 0x20,0x09,0x11,0x11, 9] =
    .ok [.l2 (.sll ⟨0, 1, 6, [1,2,3,4,5,6,0,0], 0x8100⟩), .l2 (.dot1q ⟨1, 0, 9, 0x1111, false⟩), .raw [9]] := rfl
example : ∃ os', parseChain 23 "SLL" [0,0, 0,1, 0,6, 1,2,3,4,5,6,0,0, 0x81,0x00, 0x20,0x09,0x11,0x11, 9] = .ok os' ∧
    ViewEq 0 exSll os' := l2_chain_reparse _ _ exSll_stackable _ rfl

/-- SNAP / MPLS (single label, nothing behind it) -/
def exSnap : List AnyObj := [.l2 (.snap ⟨0xaa, 0xaa, 3, 0, 0⟩), .l2 (.mpls ⟨1, 0x21, 64⟩)]
theorem exSnap_stackable : Stackable exSnap :=
  ⟨⟨by decide, by decide, by decide, by decide, by decide⟩, trivial, ⟨by decide, by decide, by decide⟩, trivial, trivial⟩
example : serializeObjs exSnap = .ok [0xaa,0xaa,3, 0,0,0, 0x88,0x47, 0,1,0x21,64] := rfl
example : ∃ os', parseChain 14 "SNAP" [0xaa,0xaa,3, 0,0,0, 0x88,0x47, 0,1,0x21,64] = .ok os' ∧ ViewEq 0 exSnap os' :=
  l2_chain_reparse _ _ exSnap_stackable _ rfl

/-- EthernetII / MPLS / MPLS / RawPDU: a label stack (bottom-of-stack bit on the last label), padded to 60 bytes; the
    36 padding bytes are appended to the payload by the re-parse -/
def exMpls : List AnyObj :=
  [.l2 (.eth ⟨[1,2,3,4,5,6], [7,8,9,10,11,12], 0⟩), .l2 (.mpls ⟨1, 0x20, 64⟩), .l2 (.mpls ⟨2, 0x31, 63⟩), .raw [1, 2]]
def exMpls_bytes : Bytes :=
  [1,2,3,4,5,6, 7,8,9,10,11,12, 0x88,0x47, 0,1,0x20,64, 0,2,0x31,63, 1,2] ++ List.replicate 36 0
def exMpls_re : List AnyObj :=
  [.l2 (.eth ⟨[1,2,3,4,5,6], [7,8,9,10,11,12], 0x8847⟩), .l2 (.mpls ⟨1, 0x20, 64⟩), .l2 (.mpls ⟨2, 0x31, 63⟩),
   .raw ([1, 2] ++ List.replicate 36 0)]
theorem exMpls_stackable : Stackable exMpls :=
  ⟨⟨rfl, rfl, by decide⟩, trivial, ⟨by decide, by decide, by decide⟩, (rfl : (0x20 : Nat) % 2 = 0),
   ⟨by decide, by decide, by decide⟩, ⟨rfl, by decide, by decide⟩, rfl⟩
example : serializeObjs exMpls = .ok exMpls_bytes := rfl
example : padOf exMpls = 36 := rfl
example : parseChain (exMpls_bytes.length + 2) "EthernetII" exMpls_bytes = .ok exMpls_re := rfl
example : ViewEq 36 exMpls exMpls_re := l2_chain_reparse_view _ _ exMpls_stackable exMpls_bytes rfl _ rfl

/-- EthernetII / PPPoE session / RawPDU: EtherType 0x8864 and the PPPoE payload length are derived; the 37 bytes of
    Ethernet padding are cut off by that length, the payload comes back unchanged -/
def exPppoe : List AnyObj :=
  [.l2 (.eth ⟨[1,2,3,4,5,6], [7,8,9,10,11,12], 0⟩), .l2 (.pppoe ⟨1, 1, 0, 0x1234, 0, [], 0⟩), .raw [1, 2, 3]]
def exPppoe_bytes : Bytes :=
  [1,2,3,4,5,6, 7,8,9,10,11,12, 0x88,0x64, 0x11,0,0x12,0x34,0,3, 1,2,3] ++ List.replicate 37 0
def exPppoe_re : List AnyObj :=
  [.l2 (.eth ⟨[1,2,3,4,5,6], [7,8,9,10,11,12], 0x8864⟩), .l2 (.pppoe ⟨1, 1, 0, 0x1234, 3, [], 0⟩), .raw [1, 2, 3]]
theorem exPppoe_stackable : Stackable exPppoe :=
  ⟨⟨rfl, rfl, by decide⟩, trivial,
   ⟨by decide, by decide, by decide, by decide, by decide, rfl, fun t ht => by cases ht⟩, ⟨rfl, rfl, by decide⟩, rfl⟩
example : serializeObjs exPppoe = .ok exPppoe_bytes := rfl
example : parseChain (exPppoe_bytes.length + 2) "EthernetII" exPppoe_bytes = .ok exPppoe_re := rfl
example : ViewEq 37 exPppoe exPppoe_re := l2_chain_reparse_view _ _ exPppoe_stackable exPppoe_bytes rfl _ rfl

/-- EthernetII / PPPoE discovery with a Service-Name tag: EtherType 0x8863, tag list read back in order, padding ignored -/
def exPppoeD : List AnyObj :=
  [.l2 (.eth ⟨[1,2,3,4,5,6], [7,8,9,10,11,12], 0⟩), .l2 (.pppoe ⟨1, 1, 9, 0, 0, [⟨PPPoE.SERVICE_NAME, 2, [0x61, 0x62]⟩], 6⟩)]
def exPppoeD_bytes : Bytes :=
  [1,2,3,4,5,6, 7,8,9,10,11,12, 0x88,0x63, 0x11,9,0,0,0,6, 1,1,0,2,0x61,0x62] ++ List.replicate 34 0
theorem exPppoeD_stackable : Stackable exPppoeD :=
  ⟨⟨rfl, rfl, by decide⟩, trivial,
   ⟨by decide, by decide, by decide, by decide, by decide, rfl,
    fun t ht => by
      simp only [List.mem_singleton] at ht
      subst ht
      exact ⟨rfl, by decide, by decide⟩⟩,
   ⟨fun h => absurd h (by decide), by decide⟩, trivial⟩
example : serializeObjs exPppoeD = .ok exPppoeD_bytes := rfl
example : parseChain (exPppoeD_bytes.length + 2) "EthernetII" exPppoeD_bytes =
    .ok [.l2 (.eth ⟨[1,2,3,4,5,6], [7,8,9,10,11,12], 0x8863⟩),
         .l2 (.pppoe ⟨1, 1, 9, 0, 6, [⟨PPPoE.SERVICE_NAME, 2, [0x61, 0x62]⟩], 6⟩)] := rfl
example : ∃ os', parseChain (exPppoeD_bytes.length + 2) "EthernetII" exPppoeD_bytes = .ok os' ∧ ViewEq 34 exPppoeD os' :=
  l2_chain_reparse _ _ exPppoeD_stackable _ rfl

/-- the hypotheses matter: an EtherType that names IP above an opaque payload is not a packet a parser can give back
    (`Stackable` fails, and indeed the re-parse hands the payload to the IP constructor, which rejects it) -/
example : ¬ Stackable [.l2 (.eth ⟨[1,2,3,4,5,6], [7,8,9,10,11,12], 0x0800⟩), .raw [1, 2, 3]] := by
  intro h
  have h2 : Tags.classOfEther 0x0800 = none := h.2.1
  revert h2
  decide

end Examples

end Tins.Wire.L2
