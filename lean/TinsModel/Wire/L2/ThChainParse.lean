import TinsModel.Wire.L2.ThChainFixpoint
/-
  **Whole-packet C03 for the L2 family, the premise** — "if libtins accepts a byte string …".

  `Stackable` (ThChainStep.lean) describes the stacks the protocols can express.  This file shows that it is not an
  assumption about parsed packets: whatever the nested parsing constructors (`Wire.parseChain`) build — as long as the chain
  stays inside the family's serializable classes and RawPDU — is `Stackable`, and none of its Dot1Q layers pads
  (`parse_stackable`).  Per class, `<cls>_parse_link` reads the link to the next layer off the constructor's own decision
  about its inner PDU (`LinkInner`): e.g. EthernetII hands the rest to RawPDU exactly when `Tags.classOfEther` has no entry
  for the stored EtherType, an MPLS label hands it to MPLS exactly when its bottom-of-stack bit is clear, the LLC parser
  never creates XID information fields, the PPPoE parser reads tags only when the code is non-zero.

  `l2_c03` puts the three parts together and is property C03 as stated, for every accepted byte string whose layers are
  serializable classes of the family over an optional RawPDU: serialize is total, the re-parse succeeds with the same view
  (`ViewEq`, padding accounted for), and — payload non-empty — the second serialization reproduces the bytes (no exclusion
  left: `PadKept` holds for every parsed stack).
-/
namespace Tins.Wire.L2
open Tins Tins.Wire

/-- what a parsing constructor's decision about its inner PDU says about the link to the layer that follows -/
def LinkInner (x : Obj) : Inner → Prop
  | .none => Link x .none
  | .raw pb => Link x (.raw pb)
  | .cls name _ fb => fb = false ∧ name ≠ "RawPDU" ∧ ∀ y r, (info y).1 = name → Link x (.l2 y r)

theorem classOfEther_mem (t : Nat) (c : String) (h : Tags.classOfEther t = some c) :
    c ∈ ["IP", "IPv6", "ARP", "PPPoE", "EAPOL", "Dot1Q", "MPLS"] := by
  unfold Tags.classOfEther Tags.assocNat at h
  cases hf : List.find? (fun x => x.1 == t) Gen.Tags.etherToClass with
  | none => rw [hf] at h; cases h
  | some p =>
    rw [hf] at h
    simp only [Option.map_some, Option.some.injEq] at h
    have hm := List.mem_of_find?_eq_some hf
    have hall : ∀ q ∈ Gen.Tags.etherToClass, q.2 ∈ ["IP", "IPv6", "ARP", "PPPoE", "EAPOL", "Dot1Q", "MPLS"] := by decide
    rw [← h]; exact hall p hm

theorem tier_of_cls (y : Obj) (h : (info y).1 ∈ ["IP", "IPv6", "ARP", "PPPoE", "EAPOL", "Dot1Q", "MPLS"]) : EtherTier y := by
  cases y <;> first | trivial | (simp only [info] at h; exact absurd h (by decide))

theorem etherInner_link (t : Nat) (rest : Bytes) (x : Obj) (hl : ∀ n, Link x n = etherLink t n) :
    LinkInner x (etherInner t rest) := by
  unfold etherInner
  cases hc : Tags.classOfEther t with
  | none => simp only [LinkInner, hl, etherLink, hc]
  | some c =>
    have hm := classOfEther_mem t c hc
    refine ⟨rfl, ?_, ?_⟩
    · intro e; subst e; revert hm; decide
    · intro y r hy
      rw [hl]
      exact tier_of_cls y (by rw [hy]; exact hm)

theorem eth_parse_link (b : Bytes) (e : Eth) (i : Inner) (h : Eth.parse b = .ok (e, i)) : LinkInner (.eth e) i := by
  rw [eth_parse_eq] at h
  split at h
  · cases h
  · injection h with h; injection h with he hi
    subst he; subst hi
    split
    · exact etherInner_link _ _ _ (fun n => rfl)
    · trivial

theorem dot1q_parse_link (b : Bytes) (q : Dot1Q) (i : Inner) (h : Dot1Q.parse b = .ok (q, i)) :
    LinkInner (.dot1q q) i ∧ q.appendPadding = false := by
  rw [dot1q_parse_eq] at h
  split at h
  · cases h
  · injection h with h; injection h with he hi
    subst he; subst hi
    refine ⟨?_, rfl⟩
    split
    · exact etherInner_link _ _ _ (fun n => rfl)
    · trivial

theorem snap_parse_link (b : Bytes) (s : Snap) (i : Inner) (h : Snap.parse b = .ok (s, i)) : LinkInner (.snap s) i := by
  rw [snap_parse_eq] at h
  split at h
  · cases h
  · injection h with h; injection h with he hi
    subst he; subst hi
    split
    · exact etherInner_link _ _ _ (fun n => rfl)
    · trivial

theorem sll_parse_link (b : Bytes) (s : Sll) (i : Inner) (h : Sll.parse b = .ok (s, i)) : LinkInner (.sll s) i := by
  rw [sll_parse_eq] at h
  split at h
  · cases h
  · injection h with h; injection h with he hi
    subst he; subst hi
    split
    · exact etherInner_link _ _ _ (fun n => rfl)
    · trivial

/-- no class of the family is called `c`, for the names of other families' classes -/
theorem no_l2_named (c : String) (hc : c ∉ classes) (y : Obj) (h : (info y).1 = c) : False := by
  apply hc
  rw [← h]
  cases y <;> (simp only [info]; decide)

theorem dot3_parse_link (b : Bytes) (d : Dot3) (i : Inner) (h : Dot3.parse b = .ok (d, i)) : LinkInner (.dot3 d) i := by
  rw [dot3_parse_eq] at h
  split at h
  · cases h
  · injection h with h; injection h with he hi
    subst he; subst hi
    split
    · refine ⟨rfl, by decide, ?_⟩
      intro y r hy
      cases y <;> first | trivial | (simp only [info] at hy; exact absurd hy (by decide))
    · trivial

theorem llc_innerFor_link (l : Llc) (hinf : l.infos = []) (rest : Bytes) :
    LinkInner (.llc l) (Llc.innerFor l.dsap l.ssap rest) := by
  unfold Llc.innerFor
  split
  · split
    · exact ⟨rfl, by decide, fun y r hy => (no_l2_named "STP" (by decide) y hy).elim⟩
    · rename_i hne
      refine ⟨hinf, ?_⟩
      intro h2
      apply hne
      simp [h2.1, h2.2]
  · exact hinf

theorem llc_parse_link (b : Bytes) (l : Llc) (i : Inner) (h : Llc.parse b = .ok (l, i)) : LinkInner (.llc l) i := by
  have hinf := llc_parse_infos_nil b l i h
  rw [llc_parse_eq] at h
  split at h
  · cases h
  · split at h
    · injection h with h; injection h with he hi
      subst he; subst hi
      exact llc_innerFor_link _ rfl _
    · split at h
      · cases h
      · injection h with h; injection h with he hi
        subst he; subst hi
        exact llc_innerFor_link _ rfl _

theorem loopback_parse_link (b : Bytes) (l : Loopback) (i : Inner) (h : Loopback.parse b = .ok (l, i)) :
    LinkInner (.loopback l) i := by
  rw [loopback_parse_eq] at h
  split at h
  · cases h
  · injection h with h; injection h with he hi
    subst he; subst hi
    unfold Loopback.innerFor
    split
    · exact ⟨rfl, by decide, fun y r hy => (no_l2_named "IP" (by decide) y hy).elim⟩
    · split
      · exact ⟨rfl, by decide, fun y r hy => (no_l2_named "IPv6" (by decide) y hy).elim⟩
      · split
        · refine ⟨rfl, by decide, ?_⟩
          intro y r hy
          cases y <;> first | trivial | (simp only [info] at hy; exact absurd hy (by decide))
        · rename_i h1 h2 h3
          show LoopRaw _
          exact ⟨by simpa using h1, by simpa using h2, by simpa using h3⟩

theorem mpls_parse_link (b : Bytes) (m : Mpls) (i : Inner) (h : Mpls.parse b = .ok (m, i)) : LinkInner (.mpls m) i := by
  rw [mpls_parse_eq] at h
  split at h
  · cases h
  · injection h with h; injection h with he hi
    subst he; subst hi
    split
    · unfold Mpls.innerFor
      split
      · rename_i hb
        split
        · exact ⟨rfl, by decide, fun y r hy => (no_l2_named "IP" (by decide) y hy).elim⟩
        · split
          · exact ⟨rfl, by decide, fun y r hy => (no_l2_named "IPv6" (by decide) y hy).elim⟩
          · rename_i h4 h6
            show _ ∧ _ ∧ _
            exact ⟨by simpa using hb, by simpa using h4, by simpa using h6⟩
      · rename_i hb
        refine ⟨rfl, by decide, ?_⟩
        intro y r hy
        cases y <;> first | (simp only [info] at hy; exact absurd hy (by decide)) | skip
        show Mpls.bottomOfStack _ = 0
        have : ¬ Mpls.bottomOfStack (Mpls.ofHeader (b.take 4)) = 1 := by simpa using hb
        simp only [Mpls.bottomOfStack] at this ⊢
        omega
    · trivial

theorem pppoe_parse_link (b : Bytes) (p : PPPoE) (i : Inner) (h : PPPoE.parse b = .ok (p, i)) : LinkInner (.pppoe p) i := by
  have hinv := pppoe_parse_inv b p i h
  rw [pppoe_parse_unfold] at h
  split at h
  · cases h
  · rename_i h6
    simp only at h
    have hpi := pppoe_ofHeader_inv (b.take 6) (by simp only [List.length_take]; omega)
    generalize hrs : (if b.length - 6 < (PPPoE.ofHeader (b.take 6)).payloadLength then b.length - 6
      else (PPPoE.ofHeader (b.take 6)).payloadLength) = rs at h
    have hle : rs ≤ b.length - 6 := by rw [← hrs]; split <;> omega
    have hle2 : rs ≤ (PPPoE.ofHeader (b.take 6)).payloadLength := by rw [← hrs]; split <;> omega
    have hpl := hpi.payloadLength
    have hci : (⟨b.drop 6, rs⟩ : Cursor).Inv := by simp only [Cursor.Inv, List.length_drop]; exact hle
    split at h
    · rename_i hc
      have hc0 : (PPPoE.ofHeader (b.take 6)).code = 0 := by simpa using hc
      split at h
      · rw [rest_mk _ _ _ (by simp only [List.length_drop]; exact hle)] at h
        simp only [bind, Out.bind, pure] at h
        injection h with h; injection h with hp hi; subst hp; subst hi
        show _ ∧ _ ∧ _
        refine ⟨hc0, rfl, ?_⟩
        simp only [List.length_take, List.length_drop]; omega
      · simp only [pure] at h
        injection h with h; injection h with hp hi; subst hp; subst hi
        show _ ∧ _
        exact ⟨fun _ => rfl, by simp [PPPoE.ofHeader]⟩
    · rename_i hc
      have hc0 : (PPPoE.ofHeader (b.take 6)).code ≠ 0 := by simpa using hc
      rcases pppoe_parseTags_spec (rs + 1) ⟨b.drop 6, rs⟩ _ hci (by simp) hpi with ⟨p', ep, ip, hsame, hs⟩ | ep
      · simp only [ep, bind, Out.bind, pure] at h
        injection h with h; injection h with hp hi; subst hp; subst hi
        show _ ∧ _
        refine ⟨fun h0 => absurd (hsame.2.2.1 ▸ h0) hc0, hinv.2⟩
      · simp only [ep, bind, Out.bind] at h; cases h

private theorem map_ok' {α β} {x : Out α} {f : α → β} {r : β} (h : (x >>= fun a => pure (f a)) = .ok r) :
    ∃ a, x = .ok a ∧ f a = r := by
  cases x with
  | ok a => exact ⟨a, rfl, by simpa [bind, Out.bind, pure] using h⟩
  | throw e => cases h
  | fault s => cases h

/-- a Dot1Q that does not pad on behalf of `append_padding_` / any other object -/
def NoAppendObj : Obj → Prop
  | .dot1q q => q.appendPadding = false
  | _ => True

/-- **every parsing constructor of the family establishes the link** to whatever it builds on the rest of the buffer -/
theorem l2_parse_link (cls : String) (b : Bytes) (x : Obj) (i : Inner) (hc : cls ∈ classes)
    (h : parse cls b = .ok (x, i)) (hs : Serializable x) : LinkInner x i ∧ (info x).1 = cls ∧ NoAppendObj x := by
  simp only [classes, List.mem_cons, List.mem_nil_iff, or_false] at hc
  rcases hc with hc | hc | hc | hc | hc | hc | hc | hc | hc | hc | hc <;> subst hc <;> simp only [parse] at h <;>
    rcases map_ok' h with ⟨⟨y, j⟩, hy, hr⟩ <;> injection hr with hx hi <;> subst hx <;> subst hi
  · exact ⟨eth_parse_link b y j hy, rfl, trivial⟩
  · exact ⟨dot3_parse_link b y j hy, rfl, trivial⟩
  · exact ⟨llc_parse_link b y j hy, rfl, trivial⟩
  · exact ⟨snap_parse_link b y j hy, rfl, trivial⟩
  · exact ⟨(dot1q_parse_link b y j hy).1, rfl, (dot1q_parse_link b y j hy).2⟩
  · exact ⟨mpls_parse_link b y j hy, rfl, trivial⟩
  · exact ⟨pppoe_parse_link b y j hy, rfl, trivial⟩
  · exact ⟨sll_parse_link b y j hy, rfl, trivial⟩
  · exact ⟨loopback_parse_link b y j hy, rfl, trivial⟩
  · exact hs.elim
  · exact hs.elim

private theorem wrap_ne_l2 {α} (X : Out (α × Inner)) (f : α → AnyObj) (hf : ∀ a x, f a ≠ .l2 x) (x : Obj) (i : Inner) :
    (X >>= fun (o, j) => pure (f o, j)) ≠ .ok (.l2 x, i) := by
  intro h
  cases X with
  | ok a =>
    simp only [bind, Out.bind, pure] at h
    injection h with h
    injection h with h1 _
    exact hf _ _ h1
  | throw e => cases h
  | fault s => cases h

/-- the registry builds a family object only through the family's parsing constructors … -/
theorem parseOne_l2_inv (cls : String) (b : Bytes) (x : Obj) (i : Inner) (h : parseOne cls b = .ok (.l2 x, i)) :
    cls ∈ classes ∧ parse cls b = .ok (x, i) := by
  unfold parseOne at h
  split at h
  · cases h
  · split at h
    · rename_i hm
      refine ⟨by simpa using hm, ?_⟩
      cases hp : parse cls b with
      | ok a =>
        rw [hp] at h
        simp only [bind, Out.bind, pure] at h
        injection h with h
        injection h with h1 h2
        injection h1 with h1
        subst h1; subst h2
        rfl
      | throw e => rw [hp] at h; cases h
      | fault s => rw [hp] at h; cases h
    · exfalso
      split at h
      · exact wrap_ne_l2 _ AnyObj.ip (fun _ _ hh => by cases hh) x i h
      · split at h
        · exact wrap_ne_l2 _ AnyObj.ip6 (fun _ _ hh => by cases hh) x i h
        · split at h
          · exact wrap_ne_l2 _ AnyObj.icmp (fun _ _ hh => by cases hh) x i h
          · split at h
            · exact wrap_ne_l2 _ AnyObj.tr (fun _ _ hh => by cases hh) x i h
            · split at h
              · exact wrap_ne_l2 _ AnyObj.app (fun _ _ hh => by cases hh) x i h
              · split at h
                · exact wrap_ne_l2 _ AnyObj.wifi (fun _ _ hh => by cases hh) x i h
                · cases h

/-- … and a RawPDU only at the entry point `RawPDU` -/
theorem parseOne_raw_inv (cls : String) (b : Bytes) (p : Bytes) (i : Inner) (h : parseOne cls b = .ok (.raw p, i)) :
    cls = "RawPDU" ∧ i = .none := by
  unfold parseOne at h
  split at h
  · rename_i hc
    injection h with h; injection h with _ h2; exact ⟨by simpa using hc, h2.symm⟩
  · exfalso
    have wrap : ∀ {α} (X : Out (α × Inner)) (f : α → AnyObj), (∀ a q, f a ≠ .raw q) →
        (X >>= fun (o, j) => pure (f o, j)) ≠ .ok (.raw p, i) := by
      intro α X f hf hh
      cases X with
      | ok a =>
        simp only [bind, Out.bind, pure] at hh
        injection hh with hh
        injection hh with h1 _
        exact hf _ _ h1
      | throw e => cases hh
      | fault s => cases hh
    split at h
    · exact wrap _ AnyObj.l2 (fun _ _ hh => by cases hh) h
    · split at h
      · exact wrap _ AnyObj.ip (fun _ _ hh => by cases hh) h
      · split at h
        · exact wrap _ AnyObj.ip6 (fun _ _ hh => by cases hh) h
        · split at h
          · exact wrap _ AnyObj.icmp (fun _ _ hh => by cases hh) h
          · split at h
            · exact wrap _ AnyObj.tr (fun _ _ hh => by cases hh) h
            · split at h
              · exact wrap _ AnyObj.app (fun _ _ hh => by cases hh) h
              · split at h
                · exact wrap _ AnyObj.wifi (fun _ _ hh => by cases hh) h
                · cases h

/-- layers of the family that can be serialized, and RawPDU -/
def L2Ser : AnyObj → Prop
  | .raw _ => True
  | .l2 x => Serializable x
  | _ => False

/-- the first layer of a parsed chain is of the class whose constructor was called -/
def HeadOf (cls : String) : AnyObj → Prop
  | .raw _ => cls = "RawPDU"
  | .l2 y => (info y).1 = cls
  | _ => True

theorem noAppend_cons (x : Obj) (r : List AnyObj) (hx : NoAppendObj x) (hr : NoAppend r) : NoAppend (.l2 x :: r) := by
  cases x <;> first | exact hr | exact ⟨hx, hr⟩

/-- **what libtins accepts is representable**: a chain the nested parsing constructors build — as far as it consists of
    serializable layers of the family and RawPDU — is `Stackable`, and none of its Dot1Q layers pads -/
theorem parse_stackable : ∀ (fuel : Nat) (cls : String) (b : Bytes) (os : List AnyObj),
    parseChain fuel cls b = .ok os → (∀ o ∈ os, L2Ser o) →
    Stackable os ∧ NoAppend os ∧ ∃ h t, os = h :: t ∧ HeadOf cls h := by
  intro fuel
  induction fuel with
  | zero => intro cls b os h; simp [parseChain] at h
  | succ f ih =>
    intro cls b os h hall
    unfold parseChain at h
    by_cases hm : modelled cls = true
    · simp only [hm, Bool.not_true, Bool.false_eq_true, if_false] at h
      cases hp : parseOne cls b with
      | throw e => rw [hp] at h; cases h
      | fault s => rw [hp] at h; cases h
      | ok r =>
        obtain ⟨o, inner⟩ := r
        rw [hp] at h
        simp only at h
        -- the first layer
        have hfirst : ∀ rest, os = o :: rest →
            (∃ x, o = .l2 x ∧ ObjInv x ∧ LinkInner x inner ∧ (info x).1 = cls ∧ NoAppendObj x) ∨
            (∃ p, o = .raw p ∧ cls = "RawPDU" ∧ inner = .none) := by
          intro rest hos
          have ho : L2Ser o := hall o (by rw [hos]; exact List.mem_cons_self)
          cases o with
          | raw p => exact .inr ⟨p, rfl, parseOne_raw_inv cls b p inner hp⟩
          | l2 x =>
            have h1 := parseOne_l2_inv cls b x inner hp
            have h2 := l2_parse_link cls b x inner h1.1 h1.2 ho
            exact .inl ⟨x, rfl, l2_parse_inv cls b x inner h1.1 h1.2, h2.1, h2.2.1, h2.2.2⟩
          | ip _ => exact ho.elim
          | ip6 _ => exact ho.elim
          | icmp _ => exact ho.elim
          | tr _ => exact ho.elim
          | app _ => exact ho.elim
          | wifi _ => exact ho.elim
        cases inner with
        | none =>
          injection h with h
          subst h
          rcases hfirst [] rfl with ⟨x, rfl, hinv, hl, hc, hna⟩ | ⟨p, rfl, hc, _⟩
          · exact ⟨⟨hinv, hl, trivial⟩, noAppend_cons x [] hna trivial, _, _, rfl, hc⟩
          · exact ⟨rfl, trivial, _, _, rfl, hc⟩
        | raw pb =>
          injection h with h
          subst h
          rcases hfirst [.raw pb] rfl with ⟨x, rfl, hinv, hl, hc, hna⟩ | ⟨p, rfl, _, hi⟩
          · exact ⟨⟨hinv, hl, rfl⟩, noAppend_cons x _ hna trivial, _, _, rfl, hc⟩
          · cases hi
        | cls name pb fb =>
          simp only at h
          cases hrec : parseChain f name pb with
          | ok ls =>
            rw [hrec] at h
            injection h with h
            subst h
            rcases hfirst ls rfl with ⟨x, rfl, hinv, hl, hc, hna⟩ | ⟨p, rfl, _, hi⟩
            · rcases ih name pb ls hrec (fun o ho => hall o (List.mem_cons_of_mem _ ho)) with ⟨hst, hno, hd, t, rfl, hhd⟩
              obtain ⟨_, hnr, hlk⟩ := hl
              have hdS : L2Ser hd := hall hd (List.mem_cons_of_mem _ List.mem_cons_self)
              refine ⟨⟨hinv, ?_, hst⟩, noAppend_cons x _ hna hno, _, _, rfl, hc⟩
              cases hd with
              | raw p => exact absurd hhd hnr
              | l2 y => exact hlk y t hhd
              | ip _ => exact hdS.elim
              | ip6 _ => exact hdS.elim
              | icmp _ => exact hdS.elim
              | tr _ => exact hdS.elim
              | app _ => exact hdS.elim
              | wifi _ => exact hdS.elim
            · cases hi
          | unmodelled c => rw [hrec] at h; cases h
          | fault s => rw [hrec] at h; cases h
          | throw e =>
            rw [hrec] at h
            simp only at h
            split at h
            · injection h with h
              subst h
              rcases hfirst [.raw pb] rfl with ⟨x, rfl, hinv, hl, hc, hna⟩ | ⟨p, rfl, _, hi⟩
              · rename_i hfb
                rw [hl.1] at hfb
                simp at hfb
              · cases hi
            · cases h
    · have : modelled cls = false := by simpa using hm
      simp [this] at h

/-- **Property C03 for the L2 family, as stated**: if libtins accepts a byte string `b` (entry class `cls`) and the parsed
    packet `os` consists of serializable layers of the family over an optional RawPDU, then `serialize()` succeeds, parsing
    the serialization succeeds and yields the same stack of layers with the same field values and payload bytes — only the
    fields libtins derives (lengths, next-protocol tags above a recognised payload) and at most `padOf os` bytes of
    minimum-frame padding behind the payload may differ — and, when the innermost payload is non-empty, serializing the
    re-parsed packet reproduces the bytes. -/
theorem l2_c03 (cls : String) (b : Bytes) (os : List AnyObj)
    (hparse : parseChain (b.length + 2) cls b = .ok os) (hall : ∀ o ∈ os, L2Ser o) :
    ∃ out, serializeObjs os = .ok out ∧
      ∃ os', parseChain (out.length + 2) cls out = .ok os' ∧ ViewEq (padOf os) os os' ∧
        ((splitRaw os).2 ≠ [] → serializeObjs os' = .ok out) := by
  rcases parse_stackable _ cls b os hparse hall with ⟨hst, hno, h, t, rfl, hhd⟩
  have hcls : h.info.1 = cls := by
    cases h with
    | raw p => exact hhd.symm
    | l2 y => exact hhd
    | ip _ => exact (hall _ List.mem_cons_self).elim
    | ip6 _ => exact (hall _ List.mem_cons_self).elim
    | icmp _ => exact (hall _ List.mem_cons_self).elim
    | tr _ => exact (hall _ List.mem_cons_self).elim
    | app _ => exact (hall _ List.mem_cons_self).elim
    | wifi _ => exact (hall _ List.mem_cons_self).elim
  have hser := serializeObjs_wire _ (stackable_good _ hst)
  rcases l2_chain_reparse h t hst _ hser with ⟨os', hp, hv⟩
  rw [hcls] at hp
  refine ⟨_, hser, os', hp, hv, fun hne => ?_⟩
  exact l2_chain_reserialize_fixpoint_partial h t _ os' hst (padKept_of_noAppend _ hno) hne hser (by rw [hcls]; exact hp)

/-- non-vacuity: a frame `EthernetII / Dot1Q / RawPDU` of 22 bytes (shorter than the minimum frame) is accepted, its
    re-serialization carries 38 bytes of padding, and the theorem applies to it -/
def exFrame : Bytes := [1,2,3,4,5,6, 7,8,9,10,11,12, 0x81,0x00, 0x20,0x09,0x11,0x11, 0xde,0xad,0xbe,0xef]
def exFrame_os : List AnyObj :=
  [.l2 (.eth ⟨[1,2,3,4,5,6], [7,8,9,10,11,12], 0x8100⟩), .l2 (.dot1q ⟨1, 0, 9, 0x1111, false⟩), .raw [0xde, 0xad, 0xbe, 0xef]]
example : parseChain (exFrame.length + 2) "EthernetII" exFrame = .ok exFrame_os := rfl
example : padOf exFrame_os = 38 := rfl
example : ∃ out, serializeObjs exFrame_os = .ok out ∧
    ∃ os', parseChain (out.length + 2) "EthernetII" out = .ok os' ∧ ViewEq (padOf exFrame_os) exFrame_os os' ∧
      ((splitRaw exFrame_os).2 ≠ [] → serializeObjs os' = .ok out) :=
  l2_c03 "EthernetII" exFrame exFrame_os rfl
    (fun o ho => by
      simp only [exFrame_os, List.mem_cons, List.mem_nil_iff, or_false] at ho
      rcases ho with rfl | rfl | rfl <;> trivial)

end Tins.Wire.L2
