import TinsModel.Wire.L2.Util
/- `Tins::SNAP` (src/snap.cpp): dsap, ssap, control (1 byte), org_code (3 bytes, big-endian), eth_type (2, big-endian) -/
namespace Tins.Wire.L2

structure Snap where
  dsap : Nat
  ssap : Nat
  control : Nat
  org : Nat          -- org_code(), 24 bits
  ethType : Nat      -- eth_type(), host order
deriving Repr, DecidableEq

namespace Snap

/-- `SNAP::SNAP(const uint8_t*, uint32_t)` -/
def parse (b : Bytes) : Out (Snap × Inner) := do
  let c := Cursor.ofBytes b
  let (h, c) ← c.read 8                                   -- stream.read(snap_)
  let s : Snap := ⟨byteAt h 0, byteAt h 1, byteAt h 2, Cursor.beNat ((h.drop 3).take 3), Cursor.beNat (h.drop 6)⟩
  if c.toBool then
    let rest ← Cursor.rest "SNAP::SNAP inner" c
    -- Internals::pdu_from_flag((Constants::Ethernet::e)eth_type(), …): no try/catch
    match Tags.classOfEther s.ethType with
    | some cls => pure (s, .cls cls rest false)
    | none => pure (s, .raw rest)
  else pure (s, .none)

def fields (s : Snap) : Fields :=
  [("dsap", toString s.dsap), ("ssap", toString s.ssap), ("control", toString s.control),
   ("org_code", toString s.org), ("^eth_type", toString s.ethType)]

def headerBytes (s : Snap) : Bytes :=
  [UInt8.ofNat s.dsap, UInt8.ofNat s.ssap, UInt8.ofNat s.control] ++ OutCursor.beBytes 3 s.org ++ OutCursor.beBytes 2 s.ethType

/-- the EtherType `write_serialization` stores: the inner PDU's when it has one, the stored value otherwise -/
def tagFor (cx : Ctx) (s : Snap) : Nat :=
  match cx.inners.head? with
  | none => s.ethType
  | some i =>
    let flag := etherTagOf i
    if flag != 0 then flag else s.ethType

/-- `SNAP::write_serialization` -/
def write (cx : Ctx) (s : Snap) (region : Bytes) : Out Bytes :=
  writeAtStart region ({ s with ethType := tagFor cx s }).headerBytes

/-- `SNAP::SNAP()` -/
def create : Snap := ⟨0xaa, 0xaa, 3, 0, 0⟩

def apply (s : Snap) : List String → Out Snap
  | ["control", v] => match natArg v with | some n => .ok { s with control := n % 256 } | none => .throw .stdOther
  | ["org_code", v] => match natArg v with | some n => .ok { s with org := n % 16777216 } | none => .throw .stdOther
  | ["eth_type", v] => match natArg v with | some n => .ok { s with ethType := n % 65536 } | none => .throw .stdOther
  | _ => .throw .stdOther

end Snap
end Tins.Wire.L2
