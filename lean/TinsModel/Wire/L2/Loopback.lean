import TinsModel.Wire.L2.Util
/- `Tins::Loopback` (src/loopback.cpp): 4-byte protocol family in host (little-endian) order; Linux PF_* values -/
namespace Tins.Wire.L2

def PF_INET : Nat := 2
def PF_INET6 : Nat := 10
def PF_LLC : Nat := 26

structure Loopback where
  family : Nat
deriving Repr, DecidableEq

namespace Loopback

/-- `Loopback::Loopback(const uint8_t*, uint32_t)`: after a successful 4-byte read `total_sz` is non-zero, so an
    inner PDU is always constructed — on the empty rest when the buffer holds exactly the family word -/
def parse (b : Bytes) : Out (Loopback × Inner) := do
  let c := Cursor.ofBytes b
  let (f, c) ← c.readLE 4                                  -- family_ = stream.read<uint32_t>()
  let l : Loopback := ⟨f⟩
  if b.length != 0 then                                     -- if (total_sz)
    let rest ← Cursor.rest "Loopback::Loopback inner" c
    if f == PF_INET then pure (l, .cls "IP" rest false)
    else if f == PF_INET6 then pure (l, .cls "IPv6" rest false)
    else if f == PF_LLC then pure (l, .cls "LLC" rest false)
    else pure (l, .raw rest)
  else pure (l, .none)

def fields (l : Loopback) : Fields := [("^family", toString l.family)]

def familyFor (cx : Ctx) (l : Loopback) : Nat :=
  match cx.innerCls with
  | some "IP" => PF_INET
  | some "IPv6" => PF_INET6
  | some "LLC" => PF_LLC
  | _ => l.family

/-- `Loopback::write_serialization` -/
def write (cx : Ctx) (l : Loopback) (region : Bytes) : Out Bytes :=
  writeAtStart region (OutCursor.leBytes 4 (familyFor cx l))

def create : Loopback := ⟨0⟩

def apply (l : Loopback) : List String → Out Loopback
  | ["family", v] => match natArg v with | some n => .ok { l with family := n % 4294967296 } | none => .throw .stdOther
  | _ => .throw .stdOther

end Loopback
end Tins.Wire.L2
