import TinsModel.Wire.L2.Util
/-
  `Tins::LLC` (src/llc.cpp, include/tins/llc.h), little-endian bit-field layout.
  The control field union is kept as its two raw bytes `c0`, `c1`:
    information  : c0 = type_bit(1) | send_seq_num(7)<<1            c1 = poll_final(1) | recv_seq_num(7)<<1
    supervisory  : c0 = type_bit(2) | supervisory_func(2)<<2 | unused(4)<<4,  c1 as above
    unnumbered   : c0 = type_bits(2) | mod_func1(2)<<2 | poll_final(1)<<4 | mod_func2(3)<<5
-/
namespace Tins.Wire.L2

/-- `LLC::Format` -/
inductive LlcFormat
  | information | supervisory | unnumbered
deriving Repr, DecidableEq

def LlcFormat.toNat : LlcFormat → Nat
  | .information => 0 | .supervisory => 1 | .unnumbered => 3

structure Llc where
  dsap : Nat
  ssap : Nat
  typ : LlcFormat
  ctlLen : Nat          -- control_field_length_
  c0 : Nat
  c1 : Nat
  infoLen : Nat         -- information_field_length_
  infos : List Bytes    -- information_fields_
deriving Repr, DecidableEq

namespace Llc

/-- `LLC::type(Format)`: stores the format, the control field length and the type bits -/
def setType (l : Llc) : LlcFormat → Llc
  | .information => { l with typ := .information, ctlLen := 2, c0 := l.c0 / 2 * 2 }              -- info.type_bit = 0
  | .supervisory => { l with typ := .supervisory, ctlLen := 2, c0 := l.c0 / 4 * 4 + 1 }          -- super.type_bit = 1
  | .unnumbered => { l with typ := .unnumbered, ctlLen := 1, c0 := l.c0 / 4 * 4 + 3 }            -- unnumbered.type_bits = 3

/-- `LLC::LLC(const uint8_t*, uint32_t)` -/
def parse (b : Bytes) : Out (Llc × Inner) := do
  let c := Cursor.ofBytes b
  let (h, c) ← c.read 2                                    -- stream.read(header_)
  if !c.toBool then .throw .malformedPacket else
  let l0 : Llc := ⟨byteAt h 0, byteAt h 1, .information, 2, 0, 0, 0, []⟩
  let p ← c.peek "LLC::LLC *stream.pointer()" 0 1         -- *stream.pointer()
  let first := byteAt p 0
  let (l, c) ←
    if first % 4 == 3 then do
      let (cf, c) ← c.read 1                               -- stream.read(control_field.unnumbered)
      pure ({ l0 with typ := .unnumbered, ctlLen := 1, c0 := byteAt cf 0 }, c)
    else do
      -- the lowest bit alone tells information (0) from supervisory (1) frames
      let t : LlcFormat := if first % 2 == 1 then .supervisory else .information
      let (cf, c) ← c.read 2                               -- stream.read(control_field.info)
      pure ({ l0 with typ := t, ctlLen := 2, c0 := byteAt cf 0, c1 := byteAt cf 1 }, c)
  if c.toBool then
    let rest ← Cursor.rest "LLC::LLC inner" c
    if l.dsap == 0x42 && l.ssap == 0x42 then pure (l, .cls "STP" rest false)
    else pure (l, .raw rest)
  else pure (l, .none)

def sendSeq (l : Llc) : Nat := if l.typ == .information then l.c0 / 2 else 0
def recvSeq (l : Llc) : Nat :=
  match l.typ with
  | .information | .supervisory => l.c1 / 2
  | .unnumbered => 0
def pollFinal (l : Llc) : Nat :=
  match l.typ with
  | .unnumbered => l.c0 / 16 % 2
  | _ => l.c1 % 2
def supervisoryFunction (l : Llc) : Nat := if l.typ == .supervisory then l.c0 / 4 % 4 else 0
/-- `(mod_func1 << 3) + mod_func2` -/
def modifierFunction (l : Llc) : Nat := if l.typ == .unnumbered then (l.c0 / 4 % 4) * 8 + l.c0 / 32 else 0

def fields (l : Llc) : Fields :=
  [("dsap", toString l.dsap), ("ssap", toString l.ssap), ("group", toString (l.dsap % 2)),
   ("response", toString (l.ssap % 2)), ("type", toString l.typ.toNat),
   ("send_seq_number", toString l.sendSeq), ("receive_seq_number", toString l.recvSeq),
   ("poll_final", toString l.pollFinal), ("supervisory_function", toString l.supervisoryFunction),
   ("modifier_function", toString l.modifierFunction)]

/-- `LLC::header_size()` -/
def hdr (l : Llc) : Nat := 2 + l.ctlLen + l.infoLen

def controlBytes (l : Llc) : Bytes :=
  match l.typ with
  | .unnumbered => [UInt8.ofNat l.c0]
  | .information | .supervisory => [UInt8.ofNat l.c0, UInt8.ofNat l.c1]

/-- `stream.write(it->begin(), it->end())` for every information field -/
def writeInfos (o : OutCursor) : List Bytes → Out OutCursor
  | [] => .ok o
  | f :: fs => do
    let o ← o.write f
    writeInfos o fs

/-- `LLC::write_serialization` -/
def write (cx : Ctx) (l : Llc) (region : Bytes) : Out Bytes := do
  let l1 := if cx.innerCls == some "STP" then { l with dsap := 0x42, ssap := 0x42 } else l
  let o ← (OutCursor.ofRegion region).write [UInt8.ofNat l1.dsap, UInt8.ofNat l1.ssap]
  let o ← o.write l1.controlBytes
  let o ← writeInfos o l1.infos
  pure o.buffer

/-- `LLC::LLC()` / `LLC::LLC(dsap, ssap)` -/
def create (dsap ssap : Nat) : Llc := ⟨dsap % 256, ssap % 256, .information, 2, 0, 0, 0, []⟩

def formatOfNat : Nat → Option LlcFormat
  | 0 => some .information | 1 => some .supervisory | 3 => some .unnumbered | _ => none

/-- `LLC::group(bool)` / `LLC::response(bool)`: lowest bit of the DSAP / SSAP -/
def setGroup (l : Llc) (b : Bool) : Llc := { l with dsap := l.dsap / 2 * 2 + b2n b }
def setResponse (l : Llc) (b : Bool) : Llc := { l with ssap := l.ssap / 2 * 2 + b2n b }
/-- `LLC::send_seq_number(uint8_t)`: information frames only -/
def setSendSeq (l : Llc) (n : Nat) : Llc :=
  if l.typ == .information then { l with c0 := l.c0 % 2 + n % 128 * 2 } else l
/-- `LLC::receive_seq_number(uint8_t)`: information and supervisory frames -/
def setRecvSeq (l : Llc) (n : Nat) : Llc :=
  match l.typ with
  | .unnumbered => l
  | _ => { l with c1 := l.c1 % 2 + n % 128 * 2 }
/-- `LLC::poll_final(bool)` -/
def setPollFinal (l : Llc) (b : Bool) : Llc :=
  match l.typ with
  | .unnumbered => { l with c0 := l.c0 % 16 + b2n b * 16 + l.c0 / 32 * 32 }
  | _ => { l with c1 := l.c1 / 2 * 2 + b2n b }
/-- `LLC::supervisory_function(SupervisoryFunctions)`: supervisory frames only -/
def setSupervisory (l : Llc) (n : Nat) : Llc :=
  if l.typ == .supervisory then { l with c0 := l.c0 % 4 + n % 4 * 4 + l.c0 / 16 * 16 } else l
/-- `LLC::modifier_function(ModifierFunctions)`: `mod_func1 = f >> 3`, `mod_func2 = f & 7`; unnumbered frames only -/
def setModifier (l : Llc) (n : Nat) : Llc :=
  if l.typ == .unnumbered then
    { l with c0 := l.c0 % 4 + (n % 32 / 8) * 4 + l.c0 / 16 % 2 * 16 + n % 8 * 32 } else l
/-- `LLC::add_xid_information(xid_id, llc_type_class, receive_window)` -/
def addXid (l : Llc) (a b c : Nat) : Llc :=
  { l with infoLen := l.infoLen + 3, infos := l.infos ++ [[UInt8.ofNat a, UInt8.ofNat b, UInt8.ofNat c]] }
/-- `LLC::clear_information_fields()` -/
def clearInfos (l : Llc) : Llc := { l with infoLen := 0, infos := [] }

def apply (l : Llc) : List String → Out Llc
  | ["dsap", v] => match natArg v with | some n => .ok { l with dsap := n % 256 } | none => .throw .stdOther
  | ["ssap", v] => match natArg v with | some n => .ok { l with ssap := n % 256 } | none => .throw .stdOther
  | ["group", v] => match boolArg v with | some b => .ok (l.setGroup b) | none => .throw .stdOther
  | ["response", v] => match boolArg v with | some b => .ok (l.setResponse b) | none => .throw .stdOther
  | ["type", v] => match (natArg v).bind formatOfNat with | some t => .ok (l.setType t) | none => .throw .stdOther
  | ["send_seq_number", v] => match natArg v with | some n => .ok (l.setSendSeq n) | none => .throw .stdOther
  | ["receive_seq_number", v] => match natArg v with | some n => .ok (l.setRecvSeq n) | none => .throw .stdOther
  | ["poll_final", v] => match boolArg v with | some b => .ok (l.setPollFinal b) | none => .throw .stdOther
  | ["supervisory_function", v] => match natArg v with | some n => .ok (l.setSupervisory n) | none => .throw .stdOther
  | ["modifier_function", v] => match natArg v with | some n => .ok (l.setModifier n) | none => .throw .stdOther
  | ["add_xid_information", a, b, c] => match natArg a, natArg b, natArg c with
    | some a, some b, some c => .ok (l.addXid a b c)
    | _, _, _ => .throw .stdOther
  | ["clear_information_fields"] => .ok l.clearInfos
  | _ => .throw .stdOther

end Llc
end Tins.Wire.L2
