import TinsModel.Wire.L2.Family
import TinsModel.Basic.CursorLemmas
import TinsModel.Basic.CodecLemmas
import TinsModel.Wire.ChainLemmas
import TinsModel.Wire.IfaceLemmas
/-
  Helper lemmas of the L2 family: closed forms of the stream operations on a fresh stream, list slicing facts,
  the outcome predicate `ParseSafe`, and a generalisation of the chain theorems of `Wire/ChainLemmas.lean` in which
  the per-layer obligation is only demanded on regions of exactly the size `PDU::serialize` hands out
  (`WritesOnlyAt`): EthernetII and Dot1Q skip over `inner_pdu()->size()` bytes before writing their padding, so they
  meet the obligation on those regions only.
-/
namespace Tins.Wire.L2
open Tins Tins.Wire

/-- outcome classes of a parsing constructor: a packet, or `malformed_packet` — never a fault, never another exception -/
def ParseSafe {α} (r : Out α) : Prop := (∃ a, r = .ok a) ∨ r = .throw .malformedPacket

theorem ParseSafe.ok {α} (a : α) : ParseSafe (Out.ok a) := .inl ⟨a, rfl⟩
theorem ParseSafe.malformed {α} : ParseSafe (Out.throw .malformedPacket : Out α) := .inr rfl

theorem ParseSafe.bind {α β} {x : Out α} {f : α → Out β} (hx : ParseSafe x)
    (hf : ∀ a, x = .ok a → ParseSafe (f a)) : ParseSafe (x >>= f) := by
  rcases hx with ⟨a, rfl⟩ | rfl
  · exact hf a rfl
  · exact .inr rfl

theorem ParseSafe.not_fault {α} {r : Out α} (h : ParseSafe r) : r.isFault = false := by
  rcases h with ⟨a, rfl⟩ | rfl <;> rfl

/-- closed form of `read(n)` on a fresh stream over `b` -/
theorem read_ofBytes (b : Bytes) (n : Nat) :
    (Cursor.ofBytes b).read n =
      if b.length < n then .throw .malformedPacket else .ok (b.take n, ⟨b.drop n, b.length - n⟩) := by
  unfold Cursor.read Cursor.canRead Cursor.ofBytes
  by_cases h : b.length < n
  · have : ¬ n ≤ b.length := by omega
    simp [h, this]
  · have : n ≤ b.length := by omega
    simp [h, this]

/-- `read(n)` on a stream that has already consumed the first `k` bytes of `b` -/
theorem read_mk_drop (b : Bytes) (k n : Nat) :
    (⟨b.drop k, b.length - k⟩ : Cursor).read n =
      if b.length - k < n then .throw .malformedPacket
      else .ok ((b.drop k).take n, ⟨b.drop (k + n), b.length - (k + n)⟩) := by
  unfold Cursor.read Cursor.canRead
  by_cases h : b.length - k < n
  · have : ¬ n ≤ b.length - k := by omega
    simp [h, this]
  · have h1 : n ≤ b.length - k := by omega
    have h2 : ¬ (b.drop k).length < n := by simp only [List.length_drop]; omega
    simp only [h1, decide_true, Bool.not_true, h2, h, if_false, Bool.false_eq_true, List.drop_drop]
    congr 3
    omega

theorem readBE_mk_drop (b : Bytes) (k n : Nat) :
    (⟨b.drop k, b.length - k⟩ : Cursor).readBE n =
      if b.length - k < n then .throw .malformedPacket
      else .ok (Cursor.beNat ((b.drop k).take n), ⟨b.drop (k + n), b.length - (k + n)⟩) := by
  unfold Cursor.readBE
  rw [read_mk_drop]
  by_cases h : b.length - k < n <;> simp [h, bind, Out.bind]

theorem readLE_ofBytes (b : Bytes) (n : Nat) :
    (Cursor.ofBytes b).readLE n =
      if b.length < n then .throw .malformedPacket else .ok (Cursor.leNat (b.take n), ⟨b.drop n, b.length - n⟩) := by
  unfold Cursor.readLE
  rw [read_ofBytes]
  by_cases h : b.length < n <;> simp [h, bind, Out.bind]

/-- outcome of `read_be<T>` / `read<T>` on a stream satisfying the invariant -/
theorem readBE_spec (c : Cursor) (n : Nat) (h : c.Inv) :
    (∃ v c', c.readBE n = .ok (v, c') ∧ c'.Inv ∧ c'.size = c.size - n ∧ n ≤ c.size ∧ c'.mem = c.mem.drop n
        ∧ v = Cursor.beNat (c.mem.take n))
    ∨ (c.readBE n = .throw .malformedPacket ∧ c.size < n) := by
  rcases Cursor.read_spec c n h with ⟨bs, c', he, hi, _, hs, hn, hb, hm⟩ | ⟨he, hlt⟩
  · left; exact ⟨Cursor.beNat bs, c', by simp [Cursor.readBE, he, bind, Out.bind], hi, hs, hn, hm, by rw [hb]⟩
  · right; exact ⟨by simp [Cursor.readBE, he, bind, Out.bind], hlt⟩

theorem readLE_spec (c : Cursor) (n : Nat) (h : c.Inv) :
    (∃ v c', c.readLE n = .ok (v, c') ∧ c'.Inv ∧ c'.size = c.size - n ∧ n ≤ c.size ∧ c'.mem = c.mem.drop n
        ∧ v = Cursor.leNat (c.mem.take n))
    ∨ (c.readLE n = .throw .malformedPacket ∧ c.size < n) := by
  rcases Cursor.read_spec c n h with ⟨bs, c', he, hi, _, hs, hn, hb, hm⟩ | ⟨he, hlt⟩
  · left; exact ⟨Cursor.leNat bs, c', by simp [Cursor.readLE, he, bind, Out.bind], hi, hs, hn, hm, by rw [hb]⟩
  · right; exact ⟨by simp [Cursor.readLE, he, bind, Out.bind], hlt⟩

/-- reading a known prefix off a stream -/
theorem read_prefix (a m : Bytes) (k : Nat) (h : a.length ≤ k) :
    (⟨a ++ m, k⟩ : Cursor).read a.length = .ok (a, ⟨m, k - a.length⟩) := by
  simp [Cursor.read, Cursor.canRead, h]

theorem read_prefix' (a m : Bytes) (k n : Nat) (hn : a.length = n) (h : n ≤ k) :
    (⟨a ++ m, k⟩ : Cursor).read n = .ok (a, ⟨m, k - n⟩) := by
  subst hn; exact read_prefix a m k h

theorem toBool_mk (m : Bytes) (k : Nat) : (⟨m, k⟩ : Cursor).toBool = decide (k > 0) := rfl

theorem take_all_drop (b : Bytes) (n : Nat) : (b.drop n).take (b.length - n) = b.drop n := by
  apply List.take_of_length_le
  simp

/-- `RawPDU(stream.pointer(), stream.size())` right after reading the first `n` bytes -/
theorem rest_after_read (site : String) (b : Bytes) (n : Nat) :
    Cursor.rest site ⟨b.drop n, b.length - n⟩ = .ok (b.drop n) := by
  simp [Cursor.rest, rdN, take_all_drop]

theorem rest_mk (site : String) (m : Bytes) (k : Nat) (h : k ≤ m.length) : Cursor.rest site ⟨m, k⟩ = .ok (m.take k) := by
  simp [Cursor.rest, rdN, h]

/-- `*stream.pointer()` on a stream with at least one byte left -/
theorem peek_first (site : String) (m : Bytes) (k : Nat) (h : 0 < m.length) :
    Cursor.peek site ⟨m, k⟩ 0 1 = .ok (m.take 1) := by
  have : 0 + 1 ≤ m.length := by omega
  simp [Cursor.peek, rdN, this]

theorem byteAt_take_one (m : Bytes) : byteAt (m.take 1) 0 = byteAt m 0 := by
  cases m <;> rfl

theorem byteAt_take (b : Bytes) (n i : Nat) (h : i < n) : byteAt (b.take n) i = byteAt b i := by
  simp [byteAt, List.getD_eq_getElem?_getD, h]

theorem byteAt_drop (b : Bytes) (k i : Nat) : byteAt (b.drop k) i = byteAt b (k + i) := by
  simp [byteAt, List.getD_eq_getElem?_getD, List.getElem?_drop]

/-- a stream write that fits: the closed form of the new stream state -/
theorem owrite_ok (o : OutCursor) (bs : Bytes) (hi : o.Inv) (hs : bs.length ≤ o.size) :
    o.write bs = .ok ⟨o.done ++ bs, o.rest.drop bs.length, o.size - bs.length⟩ ∧
      (⟨o.done ++ bs, o.rest.drop bs.length, o.size - bs.length⟩ : OutCursor).Inv := by
  have h1 : ¬ o.size < bs.length := by omega
  have h2 : ¬ o.rest.length < bs.length := by simp only [OutCursor.Inv] at hi; omega
  refine ⟨by simp [OutCursor.write, h1, h2], ?_⟩
  simp only [OutCursor.Inv, List.length_drop] at *; omega

theorem byteAt_lt (bs : Bytes) (i : Nat) : byteAt bs i < 256 := by
  unfold byteAt; exact UInt8.toNat_lt _

theorem beNat_foldl_lt (bs : Bytes) (acc k : Nat) (h : acc < 256 ^ k) :
    bs.foldl (fun a b => a * 256 + b.toNat) acc < 256 ^ (k + bs.length) := by
  induction bs generalizing acc k with
  | nil => simpa using h
  | cons b bs ih =>
    simp only [List.foldl_cons, List.length_cons]
    have hb := UInt8.toNat_lt b
    have := ih (acc * 256 + b.toNat) (k + 1) (by rw [Nat.pow_succ]; omega)
    rw [show k + (bs.length + 1) = k + 1 + bs.length by omega]
    exact this

theorem beNat_lt (bs : Bytes) : Cursor.beNat bs < 256 ^ bs.length := by
  have := beNat_foldl_lt bs 0 0 (by simp)
  simpa [Cursor.beNat] using this

theorem leNat_lt (bs : Bytes) : Cursor.leNat bs < 256 ^ bs.length := by
  induction bs with
  | nil => simp [Cursor.leNat]
  | cons b bs ih =>
    simp only [Cursor.leNat, List.foldr_cons, List.length_cons, Nat.pow_succ] at *
    have := UInt8.toNat_lt b
    omega

/-- slices of a concatenation with known lengths -/
theorem take_append_len {α} (a r : List α) (n : Nat) (h : a.length = n) : (a ++ r).take n = a := by
  subst h; exact List.take_left' rfl
theorem drop_append_len {α} (a r : List α) (n : Nat) (h : a.length = n) : (a ++ r).drop n = r := by
  subst h; exact List.drop_left' rfl

theorem byteAt_cons_zero (x : UInt8) (xs : Bytes) : byteAt (x :: xs) 0 = x.toNat := rfl
theorem byteAt_cons_succ (x : UInt8) (xs : Bytes) (i : Nat) : byteAt (x :: xs) (i + 1) = byteAt xs i := rfl
theorem ofNat_toNat_lt (v : Nat) (h : v < 256) : (UInt8.ofNat v).toNat = v := by
  simp [UInt8.toNat_ofNat', Nat.mod_eq_of_lt h]

/-- the dispatch of `Internals::pdu_from_flag(Constants::Ethernet::e, ptr, size)` as the L2 parsers use it -/
def etherInner (t : Nat) (rest : Bytes) : Inner :=
  match Tags.classOfEther t with
  | some cls => .cls cls rest false
  | none => .raw rest

theorem etherInner_cls_len (t : Nat) (rest : Bytes) (name : String) (pb : Bytes) (fb : Bool)
    (h : etherInner t rest = .cls name pb fb) : pb = rest := by
  unfold etherInner at h
  split at h
  · injection h with _ h _; exact h.symm
  · cases h

/-- every entry of the generated `pdu_flag_to_ether_type` table is a 16-bit value -/
theorem etherOfPduType_lt (t : String) : Tags.etherOfPduType t < 65536 := by
  unfold Tags.etherOfPduType Tags.assocStr
  cases hf : List.find? (fun x => x.1 == t) Gen.Tags.pduTypeToEther with
  | none => simp
  | some p =>
    have hm := List.mem_of_find?_eq_some hf
    simp only [Option.map_some, Option.getD_some]
    have hall : ∀ q ∈ Gen.Tags.pduTypeToEther, q.2 < 65536 := by decide
    exact hall p hm

theorem etherTagOf_lt (i : LayerInfo) : etherTagOf i < 65536 := by
  unfold etherTagOf
  dsimp only
  split
  · split <;> decide
  · exact etherOfPduType_lt _

/-- a header-only layer: `write` replaces the first `n` bytes by `hb` (`hb.length = n`) -/
theorem writesOnly_of_writeAtStart (name : String) (n : Nat) (w : Bytes → Out Bytes) (hb : Bytes) (hl : hb.length = n)
    (hw : ∀ region, w region = writeAtStart region hb) :
    WritesOnly { name := name, hdr := n, trl := 0, write := w } := by
  apply writesOnly_of_header_only _ rfl
  intro region hr
  simp only at hr
  refine ⟨hb ++ region.drop hb.length, ?_, ?_, ?_⟩
  · simp only [hw]; exact writeAtStart_eq region hb (by omega)
  · exact length_prefix_replaced _ _ (by omega)
  · exact drop_prefix_replaced _ _ n (by omega)

/-- `writeAtStart` with a header of known length: the result and its slices -/
theorem writeAtStart_ok (region hb : Bytes) (n : Nat) (hl : hb.length = n) (hr : n ≤ region.length) :
    writeAtStart region hb = .ok (hb ++ region.drop n) ∧ (hb ++ region.drop n).length = region.length ∧
      (hb ++ region.drop n).take n = hb ∧ (hb ++ region.drop n).drop n = region.drop n := by
  subst hl
  refine ⟨writeAtStart_eq region hb hr, length_prefix_replaced _ _ hr, List.take_left' rfl, List.drop_left' rfl⟩

theorem ctx_innerSize_of_isEmpty (cx : Ctx) (h : cx.inners.isEmpty = true) : cx.innerSize = 0 := by
  cases hi : cx.inners with
  | nil => simp [Ctx.innerSize, hi]
  | cons a as => simp [hi] at h

/-- `stream.write(header); stream.skip(k); stream.fill(t, 0)` on a region of exactly header + k + t bytes -/
theorem write_skip_fill (region hb : Bytes) (k t : Nat) (hl : region.length = hb.length + k + t) :
    ((OutCursor.ofRegion region).write hb >>= fun o => o.skip k >>= fun o => o.fill t 0 >>= fun o => pure o.buffer) =
      .ok (hb ++ (region.drop hb.length).take k ++ List.replicate t 0) := by
  have h1 : ¬ region.length < hb.length := by omega
  have h2 : ¬ k > region.length - hb.length := by omega
  have h3 : ¬ region.length - hb.length - k < t := by omega
  have h4 : ¬ region.length - (hb.length + k) < t := by omega
  have h5 : List.drop (hb.length + k + t) region = [] := List.drop_eq_nil_of_le (by omega)
  simp [OutCursor.ofRegion, OutCursor.write, OutCursor.skip, OutCursor.fill, OutCursor.buffer, h1, h2, h3, h4, h5,
    bind, Out.bind, pure]

/-- `stream.write(header)` alone: the rest of the region is untouched -/
theorem write_only (region hb : Bytes) (hl : hb.length ≤ region.length) :
    ((OutCursor.ofRegion region).write hb >>= fun o => (pure o.buffer : Out Bytes)) = .ok (hb ++ region.drop hb.length) := by
  have h1 : ¬ region.length < hb.length := by omega
  simp [OutCursor.ofRegion, OutCursor.write, OutCursor.buffer, h1, bind, Out.bind, pure]

/-! ### chains whose layers are only asked to behave on regions of the exact size -/

/-- per-layer obligation of C02 on the regions `PDU::serialize` actually passes: header + `inner` bytes + trailer -/
def WritesOnlyAt (l : LayerSem) (inner : Nat) : Prop :=
  ∀ region : Bytes, region.length = l.hdr + inner + l.trl →
    ∃ out, l.write region = .ok out ∧ out.length = region.length ∧ innerOf l out = innerOf l region

theorem writesOnlyAt_of_writesOnly {l : LayerSem} (h : WritesOnly l) (n : Nat) : WritesOnlyAt l n :=
  fun region hr => h region (by omega)

/-- every layer meets its obligation for the size of the chain below it -/
def ChainOK : List LayerSem → Prop
  | [] => True
  | l :: ls => WritesOnlyAt l (sizeOf ls) ∧ ChainOK ls

theorem chainOK_of_writesOnly (ls : List LayerSem) (h : ∀ l ∈ ls, WritesOnly l) : ChainOK ls := by
  induction ls with
  | nil => trivial
  | cons l ls ih =>
    exact ⟨writesOnlyAt_of_writesOnly (h l List.mem_cons_self) _, ih (fun x hx => h x (List.mem_cons_of_mem _ hx))⟩

/-- **serialize is total and size-exact** under `ChainOK` (chains of any depth) -/
theorem serializeInto_ok_at (ls : List LayerSem) (hall : ChainOK ls) (region : Bytes)
    (hlen : region.length = sizeOf ls) :
    ∃ out, serializeInto ls region = .ok out ∧ out.length = region.length := by
  induction ls generalizing region with
  | nil => exact ⟨region, rfl, rfl⟩
  | cons l ls ih =>
    simp only [sizeOf] at hlen
    have hin : ((region.drop l.hdr).take (region.length - (l.hdr + l.trl))).length = sizeOf ls := by
      simp only [List.length_take, List.length_drop]; omega
    rcases ih hall.2 _ hin with ⟨io, hio, hiol⟩
    have hsl : (splice region l.hdr io).length = region.length := splice_length _ _ _ (by omega)
    rcases hall.1 (splice region l.hdr io) (by omega) with ⟨out, ho, hol, _⟩
    refine ⟨out, ?_, by omega⟩
    simp only [serializeInto, hio, bind, Out.bind] at *
    exact ho

theorem serialize_ok_at (ls : List LayerSem) (hall : ChainOK ls) :
    ∃ out, serialize ls = .ok out ∧ out.length = sizeOf ls := by
  rcases serializeInto_ok_at ls hall (List.replicate (sizeOf ls) 0) (by simp) with ⟨out, h, hl⟩
  exact ⟨out, h, by simpa using hl⟩

/-- **frame** under `ChainOK`: the inner chain's output reaches the outer layer's output unmodified -/
theorem serializeInto_frame_at (l : LayerSem) (ls : List LayerSem) (hall : ChainOK (l :: ls))
    (region : Bytes) (hlen : region.length = sizeOf (l :: ls)) :
    ∃ out io, serializeInto (l :: ls) region = .ok out ∧
      serializeInto ls (innerOf l region) = .ok io ∧ innerOf l out = io ∧ out.length = region.length := by
  simp only [sizeOf] at hlen
  have hin : (innerOf l region).length = sizeOf ls := by
    simp only [innerOf, List.length_take, List.length_drop]; omega
  rcases serializeInto_ok_at ls hall.2 _ hin with ⟨io, hio, hiol⟩
  have hsl : (splice region l.hdr io).length = region.length := splice_length _ _ _ (by omega)
  rcases hall.1 (splice region l.hdr io) (by omega) with ⟨out, ho, hol, hfr⟩
  refine ⟨out, io, ?_, hio, ?_, by omega⟩
  · have hio' : serializeInto ls ((region.drop l.hdr).take (region.length - (l.hdr + l.trl))) = .ok io := hio
    simp only [serializeInto, hio', bind, Out.bind]
    exact ho
  · rw [hfr]
    exact innerOf_splice l region io (by omega) (by omega)

end Tins.Wire.L2
