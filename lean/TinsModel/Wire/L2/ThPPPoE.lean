import TinsModel.Wire.L2.Lemmas
/-
  PPPoE: C01 parse safety (tag loop: induction over the fuel with the stream invariant; the fuel handed out by the
  constructor is never exhausted), C02 size function = bytes written for every tag list reachable by parsing or by
  the API (invariant `tagsSize = Σ (4 + data)`), C04 tag container and typed codecs.
-/
namespace Tins.Wire.L2
open Tins Tins.Wire

namespace PPPoE

/-- bytes the writer emits for a tag list -/
def tagsLen (ts : List PppoeTag) : Nat := (ts.map (fun t => t.data.length + 4)).sum

/-- what `PDUOption(opt, len, ptr)` / the iterator constructors guarantee for one tag -/
structure TagOK (t : PppoeTag) : Prop where
  len : t.lenField = t.data.length
  code : t.code < 65536
  size : t.data.length < 65536

/-- invariant of every PPPoE object reachable by parsing or through the API -/
structure Inv (p : PPPoE) : Prop where
  version : p.version < 16
  type : p.type < 16
  code : p.code < 256
  sessionId : p.sessionId < 65536
  payloadLength : p.payloadLength < 65536
  size : p.tagsSize = tagsLen p.tags
  tags : ∀ t ∈ p.tags, TagOK t

theorem tagsLen_append (a b : List PppoeTag) : tagsLen (a ++ b) = tagsLen a + tagsLen b := by
  simp [tagsLen, List.map_append, List.sum_append]

/-- `add_tag` keeps the cached size exact -/
theorem addTag_inv (p : PPPoE) (t : PppoeTag) (h : p.Inv) (ht : TagOK t) : (p.addTag t).Inv := by
  refine ⟨h.version, h.type, h.code, h.sessionId, h.payloadLength, ?_, ?_⟩
  · simp only [addTag, tagsLen_append, h.size]; simp [tagsLen]
  · intro x hx
    simp only [addTag, List.mem_append, List.mem_singleton] at hx
    rcases hx with hx | hx
    · exact h.tags x hx
    · subst hx; exact ht

/-- the header fields the tag loop does not touch -/
def sameHeader (p q : PPPoE) : Prop :=
  q.version = p.version ∧ q.type = p.type ∧ q.code = p.code ∧ q.sessionId = p.sessionId ∧ q.payloadLength = p.payloadLength

end PPPoE

/-- **the tag loop is safe for every stream state**: with the stream invariant and more fuel than bytes left, the loop
    returns a well-formed object or throws `malformed_packet`; it never faults (the raw copy out of `stream.pointer()` is
    covered by `can_read`) and never runs out of fuel (every round consumes at least 4 bytes) -/
theorem pppoe_parseTags_spec (fuel : Nat) (c : Cursor) (p : PPPoE) (hc : c.Inv) (hf : c.size < fuel) (hp : p.Inv) :
    (∃ p', PPPoE.parseTags fuel c p = .ok p' ∧ p'.Inv ∧ PPPoE.sameHeader p p' ∧ p'.tagsSize ≤ p.tagsSize + c.size)
    ∨ PPPoE.parseTags fuel c p = .throw .malformedPacket := by
  induction fuel generalizing c p with
  | zero => omega
  | succ fuel ih =>
    unfold PPPoE.parseTags
    by_cases hb : c.toBool = true
    · simp only [hb, Bool.not_true, Bool.false_eq_true, if_false]
      rcases readLE_spec c 2 hc with ⟨t, c1, e1, i1, s1, n1, m1, v1⟩ | ⟨e1, _⟩
      · rcases readBE_spec c1 2 i1 with ⟨len, c2, e2, i2, s2, n2, m2, v2⟩ | ⟨e2, _⟩
        · simp only [e1, e2, bind, Out.bind]
          by_cases hcr : c2.canRead len = true
          · have hle : len ≤ c2.size := by simpa [Cursor.canRead] using hcr
            simp only [hcr, Bool.not_true, Bool.false_eq_true, if_false]
            rcases Cursor.peek_noFault "PPPoE::PPPoE tag(opt_type, opt_len, stream.pointer())" c2 0 len i2 (by omega) with
              ⟨d, ed, hdl⟩
            rcases Cursor.skip_spec c2 len i2 with ⟨c3, e3, i3, s3, _⟩ | ⟨e3, hlt⟩
            · simp only [ed, e3]
              have hlen16 : len < 65536 := by
                have := beNat_lt (c1.mem.take 2)
                simp only [List.length_take] at this
                rw [v2]
                have h2 : min 2 c1.mem.length ≤ 2 := by omega
                calc Cursor.beNat (c1.mem.take 2) < 256 ^ min 2 c1.mem.length := this
                  _ ≤ 256 ^ 2 := Nat.pow_le_pow_right (by decide) h2
                  _ = 65536 := by decide
              have ht16 : t < 65536 := by
                have := leNat_lt (c.mem.take 2)
                simp only [List.length_take] at this
                rw [v1]
                have h2 : min 2 c.mem.length ≤ 2 := by omega
                calc Cursor.leNat (c.mem.take 2) < 256 ^ min 2 c.mem.length := this
                  _ ≤ 256 ^ 2 := Nat.pow_le_pow_right (by decide) h2
                  _ = 65536 := by decide
              have hinv' := PPPoE.addTag_inv p ⟨t, len, d⟩ hp ⟨by simp [hdl], ht16, by simp [hdl]; exact hlen16⟩
              rcases ih c3 (p.addTag ⟨t, len, d⟩) i3 (by omega) hinv' with ⟨p', ep, ip, sh, hs⟩ | ep
              · left
                refine ⟨p', ep, ip, ?_, ?_⟩
                · simpa [PPPoE.sameHeader, PPPoE.addTag] using sh
                · simp only [PPPoE.addTag, hdl] at hs
                  omega
              · right; exact ep
            · omega
          · right
            simp [hcr]
        · right; simp only [e1, e2, bind, Out.bind]
      · right; simp only [e1, bind, Out.bind]
    · left
      simp only [hb, Bool.not_false, if_true]
      exact ⟨p, rfl, hp, ⟨rfl, rfl, rfl, rfl, rfl⟩, by omega⟩

/-- the object the 6 header bytes decode to -/
def PPPoE.ofHeader (h : Bytes) : PPPoE :=
  ⟨byteAt h 0 / 16, byteAt h 0 % 16, byteAt h 1, Cursor.beNat ((h.drop 2).take 2), Cursor.beNat (h.drop 4), [], 0⟩

theorem pppoe_ofHeader_inv (h : Bytes) (hl : h.length = 6) : (PPPoE.ofHeader h).Inv := by
  have h0 := byteAt_lt h 0
  refine ⟨?_, ?_, byteAt_lt _ _, ?_, ?_, rfl, ?_⟩
  · simp only [PPPoE.ofHeader]; omega
  · simp only [PPPoE.ofHeader]; omega
  · have := beNat_lt ((h.drop 2).take 2); simp only [List.length_take, List.length_drop, hl] at this; exact this
  · have := beNat_lt (h.drop 4); simp only [List.length_drop, hl] at this; exact this
  · intro t ht; simp [PPPoE.ofHeader] at ht

/-- shape of the parsing constructor after the header has been read: the stream is cut to
    `min(stream.size(), payload_length())` — never enlarged, so the invariant survives the unchecked `size(n)` -/
theorem pppoe_parse_unfold (b : Bytes) :
    PPPoE.parse b =
      if b.length < 6 then .throw .malformedPacket
      else
        let p := PPPoE.ofHeader (b.take 6)
        let readSize := if b.length - 6 < p.payloadLength then b.length - 6 else p.payloadLength
        let c : Cursor := ⟨b.drop 6, readSize⟩
        if p.code == 0 then
          (if c.toBool then (Cursor.rest "PPPoE::PPPoE RawPDU" c >>= fun rest => pure (p, .raw rest)) else pure (p, .none))
        else (PPPoE.parseTags (c.size + 1) c p >>= fun p' => pure (p', .none)) := by
  simp only [PPPoE.parse, read_ofBytes]
  by_cases h : b.length < 6
  · simp [h, bind, Out.bind]
  · simp only [h, if_false, bind, Out.bind, Cursor.setSize, PPPoE.ofHeader]
    rfl

/-- **C01 / PPPoE** -/
theorem pppoe_parse_safe (b : Bytes) : ParseSafe (PPPoE.parse b) := by
  rw [pppoe_parse_unfold]
  split
  · exact .malformed
  · rename_i h6
    simp only
    generalize hrs : (if b.length - 6 < (PPPoE.ofHeader (b.take 6)).payloadLength then b.length - 6
      else (PPPoE.ofHeader (b.take 6)).payloadLength) = rs
    have hle : rs ≤ b.length - 6 := by rw [← hrs]; split <;> omega
    have hci : (⟨b.drop 6, rs⟩ : Cursor).Inv := by simp only [Cursor.Inv, List.length_drop]; exact hle
    split
    · split
      · rw [rest_mk _ _ _ (by simp only [List.length_drop]; exact hle)]
        exact .ok _
      · exact .ok _
    · have hpi := pppoe_ofHeader_inv (b.take 6) (by simp only [List.length_take]; omega)
      rcases pppoe_parseTags_spec (rs + 1) ⟨b.drop 6, rs⟩ _ hci (by simp) hpi with ⟨p', ep, _⟩ | ep
      · simp only [ep, bind, Out.bind]; exact .ok _
      · simp only [ep, bind, Out.bind]; exact .malformed

/-- PPPoE never hands bytes to another parsing constructor (its payload is a RawPDU) -/
theorem pppoe_parse_no_cls (b : Bytes) (p : PPPoE) (name : String) (pb : Bytes) (fb : Bool) :
    PPPoE.parse b ≠ .ok (p, .cls name pb fb) := by
  intro h
  rw [pppoe_parse_unfold] at h
  split at h
  · cases h
  · simp only at h
    generalize (if b.length - 6 < (PPPoE.ofHeader (b.take 6)).payloadLength then b.length - 6
      else (PPPoE.ofHeader (b.take 6)).payloadLength) = rs at h
    split at h
    · split at h
      · cases hr : Cursor.rest "PPPoE::PPPoE RawPDU" ⟨b.drop 6, rs⟩ <;> simp [hr, bind, Out.bind, pure] at h
      · simp [pure] at h
    · cases hr : PPPoE.parseTags ((⟨b.drop 6, rs⟩ : Cursor).size + 1) ⟨b.drop 6, rs⟩ (PPPoE.ofHeader (b.take 6)) <;>
        simp [hr, bind, Out.bind, pure] at h

/-- the parser establishes the invariant, and the tags fit the 16-bit length field -/
theorem pppoe_parse_inv (b : Bytes) (p : PPPoE) (i : Inner) (h : PPPoE.parse b = .ok (p, i)) : p.Inv ∧ p.tagsSize < 65536 := by
  rw [pppoe_parse_unfold] at h
  split at h
  · cases h
  · rename_i h6
    simp only at h
    have hpi := pppoe_ofHeader_inv (b.take 6) (by simp only [List.length_take]; omega)
    generalize hrs : (if b.length - 6 < (PPPoE.ofHeader (b.take 6)).payloadLength then b.length - 6
      else (PPPoE.ofHeader (b.take 6)).payloadLength) = rs at h
    have hle : rs ≤ b.length - 6 := by rw [← hrs]; split <;> omega
    have hle2 : rs ≤ (PPPoE.ofHeader (b.take 6)).payloadLength := by rw [← hrs]; split <;> omega
    have hpl := hpi.payloadLength
    have hci : (⟨b.drop 6, rs⟩ : Cursor).Inv := by simp only [Cursor.Inv, List.length_drop]; exact hle
    split at h
    · split at h
      · rw [rest_mk _ _ _ (by simp only [List.length_drop]; exact hle)] at h
        simp only [bind, Out.bind, pure] at h
        injection h with h; injection h with hp _; subst hp
        exact ⟨hpi, by simp [PPPoE.ofHeader]⟩
      · simp only [pure] at h
        injection h with h; injection h with hp _; subst hp
        exact ⟨hpi, by simp [PPPoE.ofHeader]⟩
    · rcases pppoe_parseTags_spec (rs + 1) ⟨b.drop 6, rs⟩ _ hci (by simp) hpi with ⟨p', ep, ip, _, hs⟩ | ep
      · simp only [ep, bind, Out.bind, pure] at h
        injection h with h; injection h with hp _; subst hp
        refine ⟨ip, ?_⟩
        have : (PPPoE.ofHeader (b.take 6)).tagsSize = 0 := rfl
        simp only [this] at hs
        omega
      · simp only [ep, bind, Out.bind] at h; cases h

theorem pppoe_create_inv : PPPoE.create.Inv :=
  ⟨by decide, by decide, by decide, by decide, by decide, rfl, by intro t ht; simp [PPPoE.create] at ht⟩

/-! ### C02: the size function equals the bytes written -/

theorem pppoe_tagBytes_length (t : PppoeTag) : (PPPoE.tagBytes t).length = t.data.length + 4 := by
  simp [PPPoE.tagBytes]; omega

theorem pppoe_flat_length (ts : List PppoeTag) : (ts.flatMap PPPoE.tagBytes).length = PPPoE.tagsLen ts := by
  induction ts with
  | nil => rfl
  | cons t ts ih => simp [List.flatMap_cons, pppoe_tagBytes_length, PPPoE.tagsLen, ih] at *

/-- the `for` loop over the tags writes their concatenated encodings (any number of tags, induction) -/
theorem pppoe_writeTags_ok (ts : List PppoeTag) (o : OutCursor) (hi : o.Inv) (hs : PPPoE.tagsLen ts ≤ o.size) :
    PPPoE.writeTags o ts =
      .ok ⟨o.done ++ ts.flatMap PPPoE.tagBytes, o.rest.drop (PPPoE.tagsLen ts), o.size - PPPoE.tagsLen ts⟩ := by
  induction ts generalizing o with
  | nil => simp [PPPoE.writeTags, PPPoE.tagsLen]
  | cons t ts ih =>
    have hl : PPPoE.tagsLen (t :: ts) = t.data.length + 4 + PPPoE.tagsLen ts := by simp [PPPoE.tagsLen]
    rw [hl] at hs
    rcases owrite_ok o (OutCursor.leBytes 2 t.code) hi (by simp; omega) with ⟨w1, i1⟩
    rcases owrite_ok _ (OutCursor.beBytes 2 t.lenField) i1 (by simp; omega) with ⟨w2, i2⟩
    rcases owrite_ok _ t.data i2 (by simp; omega) with ⟨w3, i3⟩
    have := ih _ i3 (by simp; omega)
    simp only [OutCursor.leBytes_length, OutCursor.beBytes_length] at w1 w2 w3 this
    rw [PPPoE.writeTags, w1, Out.bind_ok, w2, Out.bind_ok, w3, Out.bind_ok, this]
    simp only [List.flatMap_cons, PPPoE.tagBytes, hl, List.append_assoc, List.drop_drop, OutCursor.mk.injEq, Out.ok.injEq,
      true_and]
    constructor
    · congr 1; omega
    · omega

theorem pppoe_headerBytes_length (p : PPPoE) : p.headerBytes.length = 6 := by simp [PPPoE.headerBytes]

/-- the object whose header `write_serialization` stores -/
def PPPoE.written (cx : Ctx) (p : PPPoE) (total : Nat) : PPPoE := { p with payloadLength := PPPoE.lengthFor cx p total }

/-- closed form of `PPPoE::write_serialization` -/
theorem pppoe_write_eq (cx : Ctx) (p : PPPoE) (h : p.Inv) (region : Bytes) (hr : p.hdr ≤ region.length) :
    p.write cx region =
      .ok ((PPPoE.written cx p region.length).headerBytes ++ p.tags.flatMap PPPoE.tagBytes ++ region.drop p.hdr) := by
  have hsz := h.size
  simp only [PPPoE.hdr, hsz] at hr
  have o0 : (OutCursor.ofRegion region).Inv := by simp [OutCursor.ofRegion, OutCursor.Inv]
  have hb := pppoe_headerBytes_length (PPPoE.written cx p region.length)
  rcases owrite_ok (OutCursor.ofRegion region) (PPPoE.written cx p region.length).headerBytes o0 (by simp [OutCursor.ofRegion, hb]; omega) with
    ⟨w1, i1⟩
  have w2 := pppoe_writeTags_ok p.tags _ i1 (by simp [OutCursor.ofRegion, hb]; omega)
  have hdef : p.write cx region = ((OutCursor.ofRegion region).write (PPPoE.written cx p region.length).headerBytes >>= fun o =>
      PPPoE.writeTags o (PPPoE.written cx p region.length).tags >>= fun o => pure o.buffer) := rfl
  have ht : (PPPoE.written cx p region.length).tags = p.tags := rfl
  rw [hdef, w1, Out.bind_ok, ht, w2, Out.bind_ok]
  simp only [Out.pure_eq, OutCursor.buffer, OutCursor.ofRegion, List.nil_append, List.drop_drop, hb, PPPoE.hdr, hsz,
    List.append_assoc]

def pppoeSem (cx : Ctx) (p : PPPoE) : LayerSem := { name := "PPPoE", hdr := p.hdr, trl := 0, write := p.write cx }

/-- **C02 / PPPoE**: for every object satisfying the invariant (any tag list, any sizes — `tags_size_` no longer wraps)
    `write_serialization` succeeds on every region of at least `header_size()` bytes and rewrites exactly those bytes -/
theorem pppoe_writesOnly (cx : Ctx) (p : PPPoE) (h : p.Inv) : WritesOnly (pppoeSem cx p) := by
  apply writesOnly_of_header_only _ rfl
  intro region hr
  simp only [pppoeSem] at hr
  have hlen : ((PPPoE.written cx p region.length).headerBytes ++ p.tags.flatMap PPPoE.tagBytes).length = p.hdr := by
    simp only [List.length_append, pppoe_headerBytes_length, pppoe_flat_length, PPPoE.hdr, h.size]
  refine ⟨_, pppoe_write_eq cx p h region hr, ?_, ?_⟩
  · simp only [List.length_append, List.length_drop] at hlen ⊢; omega
  · simp only [pppoeSem]
    exact drop_append_len _ _ p.hdr hlen

end Tins.Wire.L2
