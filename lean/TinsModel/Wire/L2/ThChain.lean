import TinsModel.Wire.Registry
import TinsModel.Wire.L2.ThFamily
/-
  C02 for whole packets: the chain of `LayerSem`s the registry builds (`Wire.sems`) for any stack of L2 layers that ends
  in nothing or in a RawPDU serializes totally and size-exactly, and every layer leaves the layers below it untouched.
  This ties the per-class `WritesOnlyAt` theorems to `PDU::serialize` as modelled in `Wire/Chain.lean`.
-/
namespace Tins.Wire.L2
open Tins Tins.Wire

/-- layers this family can vouch for: its own serializable classes (with their invariant) and RawPDU -/
def GoodLayer : AnyObj → Prop
  | .raw _ => True
  | .l2 o => ObjInv o ∧ Serializable o
  | _ => False

theorem sizeOf_semsAux (os : List AnyObj) (parents : List LayerInfo) :
    Wire.sizeOf (semsAux parents os (infos os)) = ((infos os).map (fun l => l.hdr + l.trl)).sum := by
  induction os generalizing parents with
  | nil => rfl
  | cons o os ih =>
    simp only [infos, semsAux, Wire.sizeOf, List.map_cons, List.sum_cons, ih]

/-- every layer of the registry's chain meets its C02 obligation for the size of the chain below it -/
theorem semsAux_chainOK (os : List AnyObj) (h : ∀ o ∈ os, GoodLayer o) (parents : List LayerInfo) :
    ChainOK (semsAux parents os (infos os)) := by
  induction os generalizing parents with
  | nil => trivial
  | cons o os ih =>
    have hrest : ∀ x ∈ os, GoodLayer x := fun x hx => h x (List.mem_cons_of_mem _ hx)
    have ho := h o List.mem_cons_self
    simp only [infos, semsAux, ChainOK]
    refine ⟨?_, ih hrest _⟩
    rw [sizeOf_semsAux]
    cases o with
    | raw p =>
      exact writesOnlyAt_of_writesOnly (writesOnly_of_writeAtStart _ p.length _ p rfl (fun _ => rfl)) _
    | l2 x =>
      exact l2_writesOnlyAt { parents := parents, inners := infos os } x ho.1 ho.2
    | ip x => exact absurd ho id
    | ip6 x => exact absurd ho id
    | icmp x => exact absurd ho id
    | tr x => exact absurd ho id
    | app x => exact absurd ho id
    | wifi x => exact absurd ho id

/-- **C02 / L2, whole packets**: `PDU::serialize()` on any stack of L2 layers (each reachable by parsing or through the
    API, i.e. satisfying its invariant) over an optional RawPDU succeeds and returns exactly `size()` bytes -/
theorem l2_chain_serialize_total (os : List AnyObj) (h : ∀ o ∈ os, GoodLayer o) :
    ∃ out, serializeObjs os = .ok out ∧ out.length = Wire.sizeOf (sems os) :=
  serialize_ok_at (sems os) (semsAux_chainOK os h [])

/-- … and the bytes the layers below the outermost one produce reach the output unmodified (frame) -/
theorem l2_chain_frame (o : AnyObj) (os : List AnyObj) (h : ∀ x ∈ o :: os, GoodLayer x) (region : Bytes)
    (hlen : region.length = Wire.sizeOf (sems (o :: os))) :
    ∃ out io l ls, sems (o :: os) = l :: ls ∧ serializeInto (l :: ls) region = .ok out ∧
      serializeInto ls (innerOf l region) = .ok io ∧ innerOf l out = io := by
  have hc := semsAux_chainOK (o :: os) h []
  have hs : sems (o :: os) = semsAux [] (o :: os) (infos (o :: os)) := rfl
  simp only [infos, semsAux] at hs hc
  rw [hs] at hlen
  rcases serializeInto_frame_at _ _ hc region hlen with ⟨out, io, h1, h2, h3, _⟩
  exact ⟨out, io, _, _, hs, h1, h2, h3⟩

/-- non-vacuity: EthernetII / Dot1Q (padding on) / RawPDU(3 bytes) — 60 bytes, the payload survives at offset 18 -/
example : serializeObjs [.l2 (.eth ⟨[1,2,3,4,5,6], [7,8,9,10,11,12], 0⟩), .l2 (.dot1q (Dot1Q.create 5 true)), .raw [0xaa, 0xbb, 0xcc]]
    = .ok ([1,2,3,4,5,6, 7,8,9,10,11,12, 0x81,0x00, 0x00,0x05, 0x00,0x00, 0xaa,0xbb,0xcc] ++ List.replicate 43 0) := rfl

end Tins.Wire.L2
