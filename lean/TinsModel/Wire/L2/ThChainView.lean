import TinsModel.Wire.Registry
import TinsModel.Wire.L2.ThChain
/-
  Whole-packet C03, part 1: the *view* of a stack of layers and the comparison `ViewEq` the whole-packet theorem
  (`ThChainReparse.lean`) is stated with.  `ViewEq` is the Lean counterpart of `Driver.WireSpec.sameView` (the C03
  oracle evaluated on the implementation's output); clause by clause:

    WireSpec.sameView ls qs                                   ViewEq pad os os'
    ---------------------------------------------------------------------------------------------------------------
    pad := Σ trailer sizes of ls                              `pad` (the theorem instantiates it with `padOf os`)
    (pl, pr) := splitRaw ls ; (ql, qr) := splitRaw qs         `splitRaw os`, `splitRaw os'` (innermost RawPDU split off;
                                                              no RawPDU and an empty RawPDU both give payload `[]`)
    keepLastTag := pr != ""                                   `!(splitRaw os).2.isEmpty`
    strip pl == strip ql  (same classes in the same order,    `stripView keep pl = stripView keep ql`: per layer the class
      `~` fields dropped, `^` fields kept only for the last    name and `Fields.view` (drops `~`), `^` fields kept only for
      non-raw layer and only when `keepLastTag`)               the last non-raw layer and only when `keep`
    qr.startsWith pr, extra := rest of qr,                    `∃ j ≤ pad, qr = pr ++ replicate j 0`
      extra.length ≤ 2*pad (hex digits), extra all '0',
      pad > 0 || qr == pr
-/
namespace Tins.Wire.L2
open Tins Tins.Wire

/-- what C03 compares of one layer: its class and its getter dump without the derived (`~`) fields; next-protocol tags
    (`^`) only when `keepTag` -/
def layerView (keepTag : Bool) (o : AnyObj) : String × Fields :=
  (o.info.1, o.info.2.view.filter (fun f => keepTag || !f.1.startsWith "^"))

/-- split a stack into the layers above the innermost RawPDU and that RawPDU's payload (`[]` when there is none) -/
def splitRaw : List AnyObj → List AnyObj × Bytes
  | [] => ([], [])
  | [.raw p] => ([], p)
  | o :: os => (o :: (splitRaw os).1, (splitRaw os).2)

/-- per-layer views of the non-raw layers; the tag of the last one is compared iff `keepLast` -/
def stripView (keepLast : Bool) : List AnyObj → List (String × Fields)
  | [] => []
  | [o] => [layerView keepLast o]
  | o :: os => layerView false o :: stripView keepLast os

/-- `Σ trailer_size()` over the stack: the number of minimum-frame padding bytes `serialize()` appends -/
def padOf (os : List AnyObj) : Nat := ((infos os).map (·.trl)).sum

/-- **the C03 comparison** of a stack `os` with the stack `os'` parsed from its serialization: same classes in the same
    order, same `Fields.view` per layer (`^` tags only for the layer directly above a non-empty unrecognised payload), and
    the same payload bytes except that at most `pad` zero bytes of minimum-frame padding may have been appended to it;
    an empty payload counts as no payload -/
def ViewEq (pad : Nat) (os os' : List AnyObj) : Prop :=
  stripView (!(splitRaw os).2.isEmpty) (splitRaw os).1 = stripView (!(splitRaw os).2.isEmpty) (splitRaw os').1 ∧
  ∃ j, j ≤ pad ∧ (splitRaw os').2 = (splitRaw os).2 ++ List.replicate j 0

theorem splitRaw_cons_cons (o a : AnyObj) (t : List AnyObj) :
    splitRaw (o :: a :: t) = (o :: (splitRaw (a :: t)).1, (splitRaw (a :: t)).2) := by
  cases o <;> rfl

theorem splitRaw_cons_of_ne (o : AnyObj) (os : List AnyObj) (h : os ≠ []) :
    splitRaw (o :: os) = (o :: (splitRaw os).1, (splitRaw os).2) := by
  cases os with
  | nil => exact absurd rfl h
  | cons a t => exact splitRaw_cons_cons o a t

theorem splitRaw_l2_single (x : Obj) : splitRaw [.l2 x] = ([.l2 x], []) := rfl
theorem splitRaw_l2_raw (x : Obj) (p : Bytes) : splitRaw [.l2 x, .raw p] = ([.l2 x], p) := rfl

theorem stripView_cons_cons (k : Bool) (o a : AnyObj) (t : List AnyObj) :
    stripView k (o :: a :: t) = layerView false o :: stripView k (a :: t) := rfl

theorem stripView_length (k : Bool) (os : List AnyObj) : (stripView k os).length = os.length := by
  induction os with
  | nil => rfl
  | cons o t ih =>
    cases t with
    | nil => rfl
    | cons a t => rw [stripView_cons_cons, List.length_cons, ih]; rfl

theorem viewEq_pad_mono {pad pad' : Nat} {os os' : List AnyObj} (h : ViewEq pad os os') (hp : pad ≤ pad') :
    ViewEq pad' os os' := by
  rcases h with ⟨h1, j, hj, h2⟩
  exact ⟨h1, j, by omega, h2⟩

/-- one more layer on top of two stacks that compare equal (neither consists of a RawPDU only) -/
theorem viewEq_cons (pad : Nat) (x x' : AnyObj) (os os' : List AnyObj) (hne : (splitRaw os).1 ≠ [])
    (hv : layerView false x = layerView false x') (h : ViewEq pad os os') : ViewEq pad (x :: os) (x' :: os') := by
  rcases h with ⟨h1, j, hj, h2⟩
  have hos : os ≠ [] := by intro e; subst e; exact hne rfl
  have hne' : (splitRaw os').1 ≠ [] := by
    intro e
    have := congrArg List.length h1
    rw [stripView_length, stripView_length, e] at this
    exact hne (List.eq_nil_of_length_eq_zero this)
  have hos' : os' ≠ [] := by intro e; subst e; exact hne' rfl
  rw [ViewEq, splitRaw_cons_of_ne x os hos, splitRaw_cons_of_ne x' os' hos']
  refine ⟨?_, j, hj, h2⟩
  dsimp only
  cases ha : (splitRaw os).1 with
  | nil => exact absurd ha hne
  | cons a t =>
    cases hb : (splitRaw os').1 with
    | nil => exact absurd hb hne'
    | cons b u =>
      rw [stripView_cons_cons, stripView_cons_cons, hv, ← ha, ← hb, h1]

/-- the end of a stack: nothing, or a RawPDU with payload `p` -/
def IsTail (t : List AnyObj) (p : Bytes) : Prop := (t = [] ∧ p = []) ∨ t = [.raw p]

theorem splitRaw_tail (x : Obj) (t : List AnyObj) (p : Bytes) (h : IsTail t p) : splitRaw (.l2 x :: t) = ([.l2 x], p) := by
  rcases h with ⟨rfl, rfl⟩ | rfl <;> rfl

/-- the last protocol layer with what follows it: the view is kept when the layer's view is (tag included iff the
    payload is non-empty) and the payload only grew by at most `pad` zero bytes -/
theorem viewEq_leaf (pad : Nat) (x x' : Obj) (t t' : List AnyObj) (p : Bytes) (j : Nat) (hj : j ≤ pad)
    (ht : IsTail t p) (ht' : IsTail t' (p ++ List.replicate j 0))
    (hv : layerView (!p.isEmpty) (.l2 x) = layerView (!p.isEmpty) (.l2 x')) :
    ViewEq pad (.l2 x :: t) (.l2 x' :: t') := by
  rw [ViewEq, splitRaw_tail x t p ht, splitRaw_tail x' t' _ ht']
  exact ⟨by simp only [stripView, hv], j, hj, rfl⟩

theorem viewEq_raw (p : Bytes) : ViewEq 0 [.raw p] [.raw p] := ⟨rfl, 0, Nat.le_refl 0, by simp [splitRaw]⟩

end Tins.Wire.L2
