import TinsModel.Wire.L2.Util
/- `Tins::MPLS` (src/mpls.cpp): label_high (2 bytes, big-endian), label_low(4)|exp(3)|bottom(1), ttl -/
namespace Tins.Wire.L2

structure Mpls where
  labelHigh : Nat    -- be_to_host(header_.label_high), 16 bits
  b2 : Nat           -- header_.label_low_exp_and_bottom
  ttl : Nat
deriving Repr, DecidableEq

namespace Mpls

def label (m : Mpls) : Nat := m.labelHigh * 16 + m.b2 / 16
def experimental (m : Mpls) : Nat := m.b2 / 2 % 8
def bottomOfStack (m : Mpls) : Nat := m.b2 % 2

/-- `MPLS::MPLS(const uint8_t*, uint32_t)` -/
def parse (b : Bytes) : Out (Mpls × Inner) := do
  let c := Cursor.ofBytes b
  let (h, c) ← c.read 4                                   -- stream.read(header_)
  let m : Mpls := ⟨Cursor.beNat (h.take 2), byteAt h 2, byteAt h 3⟩
  if c.toBool then
    if m.bottomOfStack == 1 then
      let p ← c.peek "MPLS::MPLS *stream.pointer()" 0 1   -- (*stream.pointer() >> 4) & 0x0f
      let version := byteAt p 0 / 16
      let rest ← Cursor.rest "MPLS::MPLS inner" c
      if version == 4 then pure (m, .cls "IP" rest false)
      else if version == 6 then pure (m, .cls "IPv6" rest false)
      else pure (m, .raw rest)
    else
      let rest ← Cursor.rest "MPLS::MPLS inner" c
      pure (m, .cls "MPLS" rest false)
  else pure (m, .none)

def fields (m : Mpls) : Fields :=
  [("label", toString m.label), ("experimental", toString m.experimental),
   ("^bottom_of_stack", toString m.bottomOfStack), ("ttl", toString m.ttl)]

def headerBytes (m : Mpls) : Bytes := OutCursor.beBytes 2 m.labelHigh ++ [UInt8.ofNat m.b2, UInt8.ofNat m.ttl]

/-- `MPLS::write_serialization`: with a parent, the last label of the stack gets its bottom-of-stack bit set -/
def write (cx : Ctx) (m : Mpls) (region : Bytes) : Out Bytes :=
  let m1 := if !cx.parents.isEmpty && cx.innerCls != some "MPLS" then { m with b2 := m.b2 / 2 * 2 + 1 } else m
  writeAtStart region m1.headerBytes

/-- `MPLS::MPLS()` -/
def create : Mpls := ⟨0, 0, 0⟩

/-- `MPLS::label(small_uint<20>)` -/
def setLabel (m : Mpls) (n : Nat) : Mpls := { m with labelHigh := n % 1048576 / 16, b2 := m.b2 % 16 + n % 1048576 % 16 * 16 }
/-- `MPLS::experimental(small_uint<3>)`: `(b2 & 0xf1) | (value << 1)` -/
def setExperimental (m : Mpls) (n : Nat) : Mpls := { m with b2 := m.b2 / 16 * 16 + n % 8 * 2 + m.b2 % 2 }
/-- `MPLS::bottom_of_stack(small_uint<1>)`: `(b2 & 0xfe) | value` -/
def setBottom (m : Mpls) (n : Nat) : Mpls := { m with b2 := m.b2 / 2 * 2 + n % 2 }
/-- `MPLS::ttl(uint8_t)` -/
def setTtl (m : Mpls) (n : Nat) : Mpls := { m with ttl := n % 256 }

def apply (m : Mpls) : List String → Out Mpls
  | ["label", v] => match natArg v with | some n => .ok (m.setLabel n) | none => .throw .stdOther
  | ["experimental", v] => match natArg v with | some n => .ok (m.setExperimental n) | none => .throw .stdOther
  | ["bottom_of_stack", v] => match natArg v with | some n => .ok (m.setBottom n) | none => .throw .stdOther
  | ["ttl", v] => match natArg v with | some n => .ok (m.setTtl n) | none => .throw .stdOther
  | _ => .throw .stdOther

end Mpls
end Tins.Wire.L2
