import TinsModel.Wire.L2.Ppi
/-
  `Tins::PKTAP` (src/pktap.cpp): Apple's 108-byte `pktap_header` (host order), optional extra header bytes, then a
  frame of link type `dlt` when `next` is set.  Not serializable; the class has no getters.
-/
namespace Tins.Wire.L2

structure Pktap where
  length : Nat
  next : Nat
  dlt : Nat
deriving Repr, DecidableEq

namespace Pktap

/-- `sizeof(pktap_header)` -/
abbrev headerLen : Nat := 108

/-- `Internals::pdu_from_dlt_flag(int flag, …, rawpdu_on_no_match = true)` -/
def ofDlt (dlt : Nat) (rest : Bytes) : Inner :=
  if dlt == DLT_EN10MB then .cls "EthernetII" rest false
  else if dlt == DLT_IEEE802_11_RADIO then .cls "RadioTap" rest false
  else if dlt == DLT_IEEE802_11 then .cls "Dot11*" rest false
  else if dlt == DLT_NULL then .cls "Loopback" rest false
  else if dlt == DLT_LINUX_SLL then .cls "SLL" rest false
  else if dlt == DLT_PPI then .cls "PPI" rest false
  else .raw rest

/-- `if (header_.next && stream) inner_pdu(pdu_from_dlt_flag(header_.dlt, …))` -/
def tail (p : Pktap) (c : Cursor) : Out (Pktap × Inner) :=
  if p.next != 0 && c.toBool then
    (Cursor.rest "PKTAP::PKTAP inner" c) >>= fun rest => pure (p, ofDlt p.dlt rest)
  else pure (p, .none)

/-- `PKTAP::PKTAP(const uint8_t*, uint32_t)` -/
def parse (b : Bytes) : Out (Pktap × Inner) := do
  let c := Cursor.ofBytes b
  let (h, c) ← c.read 108                                   -- stream.read(header_), sizeof(pktap_header) = 108
  let length := Cursor.leNat (h.take 4)
  if length > b.length || length < 108 then .throw .malformedPacket else
  let c ← c.skip (length - 108)
  tail ⟨length, Cursor.leNat ((h.drop 4).take 4), Cursor.leNat ((h.drop 8).take 4)⟩ c

def fields (_p : Pktap) : Fields := []

/-- `PKTAP::write_serialization` -/
def write (_cx : Ctx) (_p : Pktap) (_region : Bytes) : Out Bytes := .throw .pduNotSerializable

end Pktap
end Tins.Wire.L2
