import TinsModel.Wire.L2.Lemmas
/- SNAP: C01 parse safety, C02 write region, C03 reparse, C04 setters -/
namespace Tins.Wire.L2
open Tins Tins.Wire

namespace Snap

structure WF (s : Snap) : Prop where
  dsap : s.dsap < 256
  ssap : s.ssap < 256
  control : s.control < 256
  org : s.org < 16777216
  ethType : s.ethType < 65536

/-- the getters that are not next-protocol tags -/
def view (s : Snap) : Nat × Nat × Nat × Nat := (s.dsap, s.ssap, s.control, s.org)

/-- the object the header bytes `h` (8 bytes) decode to -/
def ofHeader (h : Bytes) : Snap :=
  ⟨byteAt h 0, byteAt h 1, byteAt h 2, Cursor.beNat ((h.drop 3).take 3), Cursor.beNat (h.drop 6)⟩

end Snap

theorem snap_parse_eq (b : Bytes) :
    Snap.parse b =
      if b.length < 8 then .throw .malformedPacket
      else .ok (Snap.ofHeader (b.take 8),
                if b.length > 8 then etherInner (Snap.ofHeader (b.take 8)).ethType (b.drop 8) else .none) := by
  simp only [Snap.parse, read_ofBytes]
  by_cases h : b.length < 8
  · simp [h, bind, Out.bind]
  · by_cases h2 : b.length > 8
    · have : b.length - 8 > 0 := by omega
      simp only [h, h2, this, if_false, if_true, bind, Out.bind, toBool_mk, rest_after_read, decide_true, Snap.ofHeader, etherInner]
      split <;> simp [*, pure]
    · have : ¬ b.length - 8 > 0 := by omega
      simp [h, h2, this, bind, Out.bind, toBool_mk, pure, Snap.ofHeader]

/-- **C01 / SNAP** -/
theorem snap_parse_safe (b : Bytes) : ParseSafe (Snap.parse b) := by
  rw [snap_parse_eq]; split
  · exact .malformed
  · exact .ok _

theorem snap_parse_consumes (b : Bytes) (s : Snap) (name : String) (pb : Bytes) (fb : Bool)
    (h : Snap.parse b = .ok (s, .cls name pb fb)) : pb.length < b.length := by
  rw [snap_parse_eq] at h
  split at h
  · cases h
  · split at h
    · injection h with h; injection h with _ h
      have := etherInner_cls_len _ _ _ _ _ h
      subst this; simp only [List.length_drop]; omega
    · injection h with h; injection h with _ h; cases h

theorem snap_ofHeader_wf (h : Bytes) (hl : h.length = 8) : (Snap.ofHeader h).WF := by
  refine ⟨byteAt_lt _ _, byteAt_lt _ _, byteAt_lt _ _, ?_, ?_⟩
  · have := beNat_lt ((h.drop 3).take 3)
    simp only [List.length_take, List.length_drop, hl] at this
    exact this
  · have := beNat_lt (h.drop 6)
    simp only [List.length_drop, hl] at this
    exact this

theorem snap_parse_wf (b : Bytes) (s : Snap) (i : Inner) (h : Snap.parse b = .ok (s, i)) : s.WF := by
  rw [snap_parse_eq] at h
  split at h
  · cases h
  · injection h with h; injection h with hs _
    subst hs
    exact snap_ofHeader_wf _ (by simp only [List.length_take]; omega)

theorem snap_create_wf : Snap.create.WF := ⟨by decide, by decide, by decide, by decide, by decide⟩

theorem snap_headerBytes_length (s : Snap) : s.headerBytes.length = 8 := by simp [Snap.headerBytes]

/-- decoding the header bytes of a well-formed object gives the object back -/
theorem snap_ofHeader_headerBytes (s : Snap) (h : s.WF) : Snap.ofHeader s.headerBytes = s := by
  cases s with
  | mk dsap ssap control org ethType =>
    have hd := h.dsap; have hs := h.ssap; have hc := h.control; have ho := h.org; have he := h.ethType
    simp only at hd hs hc ho he
    simp only [Snap.ofHeader, Snap.headerBytes, List.cons_append, List.nil_append, byteAt_cons_zero, byteAt_cons_succ,
      List.drop_succ_cons, List.drop_zero, Snap.mk.injEq]
    refine ⟨ofNat_toNat_lt _ hd, ofNat_toNat_lt _ hs, ofNat_toNat_lt _ hc, ?_, ?_⟩
    · rw [take_append_len _ _ 3 (by simp), beNat_beBytes]; exact Nat.mod_eq_of_lt (by omega)
    · rw [drop_append_len _ _ 3 (by simp), beNat_beBytes]; exact Nat.mod_eq_of_lt (by omega)

def snapSem (cx : Ctx) (s : Snap) : LayerSem := { name := "SNAP", hdr := 8, trl := 0, write := s.write cx }

/-- **C02 / SNAP** -/
theorem snap_writesOnly (cx : Ctx) (s : Snap) : WritesOnly (snapSem cx s) :=
  writesOnly_of_writeAtStart _ 8 _ _ (snap_headerBytes_length _) (fun _ => rfl)

theorem snap_tagFor_lt (cx : Ctx) (s : Snap) (h : s.WF) : Snap.tagFor cx s < 65536 := by
  unfold Snap.tagFor
  split
  · exact h.ethType
  · dsimp only
    split
    · exact etherTagOf_lt _
    · exact h.ethType

/-- **C03 / SNAP**: the written header parses back to the same object with the tag `write_serialization` chose, and the
    inner bytes go to the constructor that tag selects -/
theorem snap_reparse (cx : Ctx) (s : Snap) (h : s.WF) (region : Bytes) (hr : 8 ≤ region.length) :
    ∃ out, s.write cx region = .ok out ∧ out.length = region.length ∧
      Snap.parse out = .ok ({ s with ethType := Snap.tagFor cx s },
        if region.length > 8 then etherInner (Snap.tagFor cx s) (region.drop 8) else .none) := by
  have hwf1 : ({ s with ethType := Snap.tagFor cx s } : Snap).WF :=
    ⟨h.dsap, h.ssap, h.control, h.org, snap_tagFor_lt cx s h⟩
  rcases writeAtStart_ok region _ 8 (snap_headerBytes_length { s with ethType := Snap.tagFor cx s }) hr with ⟨hw, hlen, ht, hd⟩
  refine ⟨_, hw, hlen, ?_⟩
  rw [snap_parse_eq, hlen, ht, hd, snap_ofHeader_headerBytes _ hwf1]
  have h1 : ¬ region.length < 8 := by omega
  simp only [h1, if_false]

/-- the tag is left alone when the payload class has no EtherType (fix of the unconditional overwrite) -/
theorem snap_tag_kept (cx : Ctx) (s : Snap)
    (hu : ∀ i, cx.inners.head? = some i → etherTagOf i = 0) : Snap.tagFor cx s = s.ethType := by
  unfold Snap.tagFor
  split
  · rfl
  · rename_i i hc
    simp [hu i hc]

theorem snap_reparse_view (cx : Ctx) (s : Snap) (h : s.WF) (region : Bytes) (hr : 8 ≤ region.length) :
    ∃ out s' i, s.write cx region = .ok out ∧ Snap.parse out = .ok (s', i) ∧ s'.view = s.view ∧
      ((∀ i, cx.inners.head? = some i → etherTagOf i = 0) → s' = s) := by
  rcases snap_reparse cx s h region hr with ⟨out, hw, _, hp⟩
  refine ⟨out, _, _, hw, hp, rfl, fun hu => ?_⟩
  rw [snap_tag_kept cx s hu]

/-- **C04 / SNAP**: every setter keeps the state well-formed -/
theorem snap_apply_wf (s s' : Snap) (op : List String) (h : s.WF) (ha : s.apply op = .ok s') : s'.WF := by
  unfold Snap.apply at ha
  split at ha
  · split at ha
    · injection ha with ha; subst ha; exact ⟨h.dsap, h.ssap, Nat.mod_lt _ (by decide), h.org, h.ethType⟩
    · cases ha
  · split at ha
    · injection ha with ha; subst ha; exact ⟨h.dsap, h.ssap, h.control, Nat.mod_lt _ (by decide), h.ethType⟩
    · cases ha
  · split at ha
    · injection ha with ha; subst ha; exact ⟨h.dsap, h.ssap, h.control, h.org, Nat.mod_lt _ (by decide)⟩
    · cases ha
  · cases ha

example : ∃ s i, Snap.parse [0xaa, 0xaa, 3, 0, 0, 0x0c, 0x12, 0x34, 9] = .ok (s, i) ∧ s.org = 12 ∧ s.ethType = 0x1234 ∧ i = .raw [9] :=
  ⟨_, _, rfl, rfl, rfl, rfl⟩

end Tins.Wire.L2
