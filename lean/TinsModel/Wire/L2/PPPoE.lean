import TinsModel.Wire.L2.Util
/-
  `Tins::PPPoE` (src/pppoe.cpp, include/tins/pppoe.h), little-endian host:
  byte0 = version(4)<<4 | type(4)  (RFC 2516: VER is the high nibble; fix KF-C15-5), code, session_id (big-endian), payload_length (big-endian), then tags
  `type (2 bytes, stored as read: host order) | length (big-endian) | data`.
-/
namespace Tins.Wire.L2

/-- `PDUOption<TagTypes, PPPoE>`: code as `stream.read<uint16_t>()` sees it, advertised length, stored bytes -/
structure PppoeTag where
  code : Nat
  lenField : Nat
  data : Bytes
deriving Repr, DecidableEq

structure PPPoE where
  version : Nat
  type : Nat
  code : Nat
  sessionId : Nat
  payloadLength : Nat
  tags : List PppoeTag
  tagsSize : Nat          -- tags_size_
deriving Repr, DecidableEq

namespace PPPoE

/-- host-order value (little-endian host) of a tag type whose RFC 2516 number is `rfc` -/
def wireCode (rfc : Nat) : Nat := rfc % 256 * 256 + rfc / 256 % 256

/-- RFC 2516 §A tag numbers as `TagTypes` holds them on a little-endian host -/
def END_OF_LIST : Nat := wireCode 0x0000
def SERVICE_NAME : Nat := wireCode 0x0101
def AC_NAME : Nat := wireCode 0x0102
def HOST_UNIQ : Nat := wireCode 0x0103
def AC_COOKIE : Nat := wireCode 0x0104
def VENDOR_SPECIFIC : Nat := wireCode 0x0105
def RELAY_SESSION_ID : Nat := wireCode 0x0110
def SERVICE_NAME_ERROR : Nat := wireCode 0x0201
def AC_SYSTEM_ERROR : Nat := wireCode 0x0202
def GENERIC_ERROR : Nat := wireCode 0x0203

/-- `PPPoE::add_tag`: `tags_size_ += data_size() + 2 * sizeof(uint16_t)` -/
def addTag (p : PPPoE) (t : PppoeTag) : PPPoE :=
  { p with tags := p.tags ++ [t], tagsSize := p.tagsSize + (t.data.length + 4) }

/-- the `while (stream)` loop of the parsing constructor; every round consumes at least 4 bytes, `fuel` bounds the
    number of rounds (see `parseTags_fuel_suffices`) -/
def parseTags : Nat → Cursor → PPPoE → Out PPPoE
  | 0, _, _ => .fault "PPPoE::PPPoE tag loop: out of fuel"
  | fuel + 1, c, p =>
    if !c.toBool then .ok p else do
      let (t, c) ← c.readLE 2                               -- stream.read<uint16_t>()
      let (len, c) ← c.readBE 2                             -- stream.read_be<uint16_t>()
      if !c.canRead len then .throw .malformedPacket else
      let d ← c.peek "PPPoE::PPPoE tag(opt_type, opt_len, stream.pointer())" 0 len
      let c ← c.skip len
      parseTags fuel c (p.addTag ⟨t, len, d⟩)

/-- `PPPoE::PPPoE(const uint8_t*, uint32_t)` -/
def parse (b : Bytes) : Out (PPPoE × Inner) := do
  let c := Cursor.ofBytes b
  let (h, c) ← c.read 6                                   -- stream.read(header_)
  let p : PPPoE := ⟨byteAt h 0 / 16, byteAt h 0 % 16, byteAt h 1, Cursor.beNat ((h.drop 2).take 2),
                    Cursor.beNat (h.drop 4), [], 0⟩
  let readSize := if c.size < p.payloadLength then c.size else p.payloadLength
  let c := c.setSize readSize                              -- stream.size(read_size)
  if p.code == 0 then
    if c.toBool then
      let rest ← Cursor.rest "PPPoE::PPPoE RawPDU" c
      pure (p, .raw rest)
    else pure (p, .none)
  else do
    let p ← parseTags (c.size + 1) c p
    pure (p, .none)

/-- `PPPoE::search_tag`: first tag with that type -/
def searchTag (p : PPPoE) (code : Nat) : Option PppoeTag := p.tags.find? (·.code == code)

/-- `search_and_convert<std::string / byte_array>`: "nf" = `option_not_found` -/
def typedGetter (p : PPPoE) (code : Nat) : String :=
  match p.searchTag code with
  | none => "nf"
  | some t => hexStr t.data

/-- `vendor_spec_type::from_option` -/
def decodeVendor (t : PppoeTag) : Out (Nat × Bytes) :=
  if t.data.length < 4 then .throw .malformedOption
  else .ok (Cursor.beNat (t.data.take 4), t.data.drop 4)

/-- `PPPoE::vendor_specific(const vendor_spec_type&)`: `be32(vendor_id) ++ data` -/
def encodeVendor (vendorId : Nat) (data : Bytes) : PppoeTag :=
  let d := OutCursor.beBytes 4 vendorId ++ data
  ⟨VENDOR_SPECIFIC, d.length % 65536, d⟩

def vendorGetter (p : PPPoE) : String :=
  match p.searchTag VENDOR_SPECIFIC with
  | none => "nf"
  | some t => match decodeVendor t with
    | .ok (v, d) => s!"{v}.{hexStr d}"
    | _ => "malformed_option"

def tagStr (t : PppoeTag) : String := s!"{t.code}:{t.lenField}:{hexStr t.data}"

def tagsStr (ts : List PppoeTag) : String := if ts.isEmpty then "-" else ",".intercalate (ts.map tagStr)

def fields (p : PPPoE) : Fields :=
  [("version", toString p.version), ("type", toString p.type), ("code", toString p.code),
   ("session_id", toString p.sessionId), ("~payload_length", toString p.payloadLength),
   ("tags", tagsStr p.tags),
   ("service_name", p.typedGetter SERVICE_NAME), ("ac_name", p.typedGetter AC_NAME),
   ("host_uniq", p.typedGetter HOST_UNIQ), ("ac_cookie", p.typedGetter AC_COOKIE),
   ("vendor_specific", p.vendorGetter), ("relay_session_id", p.typedGetter RELAY_SESSION_ID),
   ("service_name_error", p.typedGetter SERVICE_NAME_ERROR), ("ac_system_error", p.typedGetter AC_SYSTEM_ERROR),
   ("generic_error", p.typedGetter GENERIC_ERROR)]

/-- `PPPoE::header_size()` -/
def hdr (p : PPPoE) : Nat := 6 + p.tagsSize

def headerBytes (p : PPPoE) : Bytes :=
  [UInt8.ofNat (p.type + p.version * 16), UInt8.ofNat p.code] ++ OutCursor.beBytes 2 p.sessionId ++
  OutCursor.beBytes 2 p.payloadLength

def tagBytes (t : PppoeTag) : Bytes := OutCursor.leBytes 2 t.code ++ OutCursor.beBytes 2 t.lenField ++ t.data

/-- the `for` loop of `write_serialization`: three stream writes per tag -/
def writeTags (o : OutCursor) : List PppoeTag → Out OutCursor
  | [] => .ok o
  | t :: ts => do
    let o ← o.write (OutCursor.leBytes 2 t.code)            -- stream.write<uint16_t>(it->option())
    let o ← o.write (OutCursor.beBytes 2 t.lenField)        -- stream.write(host_to_be<uint16_t>(it->length_field()))
    let o ← o.write t.data                                   -- stream.write(it->data_ptr(), it->data_size())
    writeTags o ts

/-- the payload length `write_serialization` stores: everything behind the 6-byte header of the region it is given
    (`total_sz - sizeof(header_)`, as `uint16_t`) when there are tags or an inner PDU, else 0 -/
def lengthFor (cx : Ctx) (p : PPPoE) (total : Nat) : Nat :=
  if p.tagsSize > 0 || !cx.inners.isEmpty then (total - 6) % 65536 else 0

/-- `PPPoE::write_serialization` -/
def write (cx : Ctx) (p : PPPoE) (region : Bytes) : Out Bytes := do
  let p1 := { p with payloadLength := lengthFor cx p region.length }
  let o ← (OutCursor.ofRegion region).write p1.headerBytes
  let o ← writeTags o p1.tags
  pure o.buffer

/-- `PPPoE::PPPoE()` -/
def create : PPPoE := ⟨1, 1, 0, 0, 0, [], 0⟩

/-- a tag built from an iterator range: advertised length = number of bytes (as `uint16_t`);
    more than 65535 bytes: `option_payload_too_large` -/
def mkTag (code : Nat) (d : Bytes) : Out PppoeTag :=
  if d.length > 65535 then .throw .optionPayloadTooLarge else .ok ⟨code, d.length, d⟩

def addTyped (p : PPPoE) (code : Nat) (v : String) : Out PPPoE :=
  match parseHexStr v with
  | some d => do let t ← mkTag code d; pure (p.addTag t)
  | none => .throw .stdOther

def apply (p : PPPoE) : List String → Out PPPoE
  | ["version", v] => match natArg v with | some n => .ok { p with version := n % 16 } | none => .throw .stdOther
  | ["type", v] => match natArg v with | some n => .ok { p with type := n % 16 } | none => .throw .stdOther
  | ["code", v] => match natArg v with | some n => .ok { p with code := n % 256 } | none => .throw .stdOther
  | ["session_id", v] => match natArg v with | some n => .ok { p with sessionId := n % 65536 } | none => .throw .stdOther
  | ["payload_length", v] => match natArg v with | some n => .ok { p with payloadLength := n % 65536 } | none => .throw .stdOther
  | ["add_tag", c, v] => match natArg c with | some c => p.addTyped (c % 65536) v | none => .throw .stdOther
  | ["add_tag_copy", c, v] => match natArg c with | some c => p.addTyped (c % 65536) v | none => .throw .stdOther
  | ["end_of_list"] => .ok (p.addTag ⟨END_OF_LIST, 0, []⟩)
  | ["service_name", v] => p.addTyped SERVICE_NAME v
  | ["ac_name", v] => p.addTyped AC_NAME v
  | ["host_uniq", v] => p.addTyped HOST_UNIQ v
  | ["ac_cookie", v] => p.addTyped AC_COOKIE v
  | ["relay_session_id", v] => p.addTyped RELAY_SESSION_ID v
  | ["service_name_error", v] => p.addTyped SERVICE_NAME_ERROR v
  | ["ac_system_error", v] => p.addTyped AC_SYSTEM_ERROR v
  | ["generic_error", v] => p.addTyped GENERIC_ERROR v
  | ["vendor_specific", i, v] => match natArg i, parseHexStr v with
    | some i, some d =>
      if 4 + d.length > 65535 then .throw .optionPayloadTooLarge
      else .ok (p.addTag (encodeVendor (i % 4294967296) d))
    | _, _ => .throw .stdOther
  | _ => .throw .stdOther

end PPPoE
end Tins.Wire.L2
