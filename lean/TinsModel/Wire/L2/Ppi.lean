import TinsModel.Wire.L2.Util
/-
  `Tins::PPI` (src/ppi.cpp): version, flags, length (little-endian 16), dlt (little-endian 32), `length - 8` bytes of
  field data, then the captured frame of link type `dlt`.  Not serializable (`pdu_not_serializable`).
-/
namespace Tins.Wire.L2

def DLT_NULL : Nat := 0
def DLT_EN10MB : Nat := 1
def DLT_IEEE802_11 : Nat := 105
def DLT_LINUX_SLL : Nat := 113
def DLT_IEEE802_11_RADIO : Nat := 127
def DLT_PPI : Nat := 192

structure Ppi where
  version : Nat
  flags : Nat
  length : Nat
  dlt : Nat
  data : Bytes
deriving Repr, DecidableEq

namespace Ppi

/-- `Internals::is_dot3(ptr, sz)`: `sz >= 13 && ptr[12] < 8` -/
def isDot3 (c : Cursor) : Out Bool :=
  if c.size ≥ 13 then do
    let p ← c.peek "Internals::is_dot3 ptr[12]" 12 1
    pure (byteAt p 0 < 8)
  else pure false

/-- the `switch (dlt())` of the parsing constructor on the stream behind the header (`if (stream) { … }`) -/
def dispatch (p : Ppi) (c : Cursor) : Out (Ppi × Inner) :=
  if c.toBool then
    if p.dlt == DLT_IEEE802_11 then
      -- parse_80211: drop the 4-byte FCS when the 802.11-Common field says "FCS at end"
      let fcs := p.data.length ≥ 13 && byteAt p.data 12 % 2 == 1
      if fcs && c.size < 4 then .throw .malformedPacket else
      let c := if fcs then c.setSize (c.size - 4) else c
      (Cursor.rest "PPI::parse_80211" c) >>= fun rest => pure (p, .cls "Dot11*" rest false)
    else if p.dlt == DLT_EN10MB then
      (isDot3 c) >>= fun d3 =>
      (Cursor.rest "PPI::PPI inner" c) >>= fun rest =>
      pure (p, .cls (if d3 then "Dot3" else "EthernetII") rest false)
    else if p.dlt == DLT_IEEE802_11_RADIO then
      (Cursor.rest "PPI::PPI inner" c) >>= fun rest => pure (p, .cls "RadioTap" rest false)
    else if p.dlt == DLT_NULL then
      (Cursor.rest "PPI::PPI inner" c) >>= fun rest => pure (p, .cls "Loopback" rest false)
    else if p.dlt == DLT_LINUX_SLL then
      (Cursor.rest "PPI::PPI inner" c) >>= fun rest => pure (p, .cls "SLL" rest false)
    else pure (p, .none)
  else pure (p, .none)

/-- `PPI::PPI(const uint8_t*, uint32_t)` -/
def parse (b : Bytes) : Out (Ppi × Inner) := do
  let c := Cursor.ofBytes b
  let (h, c) ← c.read 8                                   -- stream.read(header_)
  let length := Cursor.leNat ((h.drop 2).take 2)
  let dlt := Cursor.leNat (h.drop 4)
  if length > b.length || length < 8 then .throw .malformedPacket else
  let optionsLength := length - 8
  let (data, c) ← if optionsLength > 0 then c.read optionsLength else pure ([], c)   -- stream.read(data_, options_length)
  dispatch ⟨byteAt h 0, byteAt h 1, length, dlt, data⟩ c

def fields (p : Ppi) : Fields :=
  [("version", toString p.version), ("flags", toString p.flags), ("length", toString p.length), ("dlt", toString p.dlt)]

/-- `PPI::header_size()` -/
def hdr (p : Ppi) : Nat := 8 + p.data.length

/-- `PPI::write_serialization` -/
def write (_cx : Ctx) (_p : Ppi) (_region : Bytes) : Out Bytes := .throw .pduNotSerializable

end Ppi
end Tins.Wire.L2
