import TinsModel.Wire.Iface
import TinsModel.Wire.Tags
/- `Tins::EthernetII` (src/ethernetII.cpp) -/
namespace Tins.Wire.L2

structure Eth where
  dst : Bytes      -- 6 bytes
  src : Bytes      -- 6 bytes
  ptype : Nat      -- payload_type(), host order
deriving Repr, DecidableEq

namespace Eth

/-- `EthernetII::EthernetII(const uint8_t*, uint32_t)` -/
def parse (b : Bytes) : Out (Eth × Inner) := do
  let c := Cursor.ofBytes b
  let (dst, c) ← c.read 6
  let (src, c) ← c.read 6
  let (pt, c) ← c.readBE 2
  let e : Eth := ⟨dst, src, pt⟩
  if c.toBool then
    let rest ← Cursor.rest "EthernetII::EthernetII inner" c
    -- Internals::pdu_from_flag((Constants::Ethernet::e)payload_type(), ptr, size): no try/catch around it
    match Tags.classOfEther pt with
    | some cls => pure (e, .cls cls rest false)
    | none => pure (e, .raw rest)
  else pure (e, .none)

def fields (e : Eth) : Fields :=
  [("dst_addr", hexStr e.dst), ("src_addr", hexStr e.src), ("^payload_type", toString e.ptype)]

/-- `EthernetII::trailer_size()`: pad to 60 bytes (`int32_t padding = 60 - 14 - inner->size()`, floored at 0);
    with no inner PDU the padding is the full 46 = the value for an inner chain of size 0. -/
def trl (innerSize : Nat) : Nat := 46 - innerSize

def headerBytes (e : Eth) : Bytes := e.dst ++ e.src ++ OutCursor.beBytes 2 e.ptype

/-- the EtherType `write_serialization` stores (PPPoE session/discovery and QinQ tricks included) -/
def tagFor (cx : Ctx) (e : Eth) : Nat :=
  match cx.inners with
  | [] => 0                                          -- payload_type(Constants::Ethernet::UNKNOWN)
  | i :: rest =>
    let t := Tags.pduTypeOf i.cls
    let flag :=
      if t == "PPPOE" then (if i.fields.get "code" == some "0" then 34916 else 34915)
      else if t == "DOT1Q" then
        (match rest.head? with
         | some j => if Tags.pduTypeOf j.cls == "DOT1Q" then 34984 else Tags.etherOfPduType t
         | none => Tags.etherOfPduType t)
      else Tags.etherOfPduType t
    if flag != 0 then flag else e.ptype

/-- `EthernetII::write_serialization` -/
def write (cx : Ctx) (e : Eth) (region : Bytes) : Out Bytes := do
  let e1 := { e with ptype := tagFor cx e }
  let o ← (OutCursor.ofRegion region).write e1.headerBytes
  let trailer := trl cx.innerSize
  if trailer != 0 then
    let o ← o.skip cx.innerSize          -- `if (inner_pdu()) stream.skip(inner_pdu()->size())`
    let o ← o.fill trailer 0
    pure o.buffer
  else pure o.buffer

end Eth
end Tins.Wire.L2
