import TinsModel.Wire.L2.ThLlc
/- LLC: C03/C04 reparse, setters/getters, and the known finding about XID information fields -/
namespace Tins.Wire.L2
open Tins Tins.Wire

theorem llc_parse_u (d s c0 : Nat) (hd : d < 256) (hs : s < 256) (hc : c0 < 256) (rest : Bytes) (h : c0 % 4 = 3) :
    Llc.parse (UInt8.ofNat d :: UInt8.ofNat s :: UInt8.ofNat c0 :: rest) =
      .ok (⟨d, s, .unnumbered, 1, c0, 0, 0, []⟩, Llc.innerFor d s rest) := by
  rw [llc_parse_eq]
  simp only [byteAt_cons_zero, byteAt_cons_succ, ofNat_toNat_lt _ hd, ofNat_toNat_lt _ hs, ofNat_toNat_lt _ hc,
    List.length_cons, List.drop_succ_cons, List.drop_zero, h]
  have : ¬ rest.length + 1 + 1 + 1 < 3 := by omega
  simp [this]

theorem llc_parse_i (d s c0 c1 : Nat) (hd : d < 256) (hs : s < 256) (hc : c0 < 256) (hc1 : c1 < 256) (rest : Bytes)
    (h : c0 % 4 ≠ 3) :
    Llc.parse (UInt8.ofNat d :: UInt8.ofNat s :: UInt8.ofNat c0 :: UInt8.ofNat c1 :: rest) =
      .ok (⟨d, s, if c0 % 2 == 1 then .supervisory else .information, 2, c0, c1, 0, []⟩, Llc.innerFor d s rest) := by
  rw [llc_parse_eq]
  simp only [byteAt_cons_zero, byteAt_cons_succ, ofNat_toNat_lt _ hd, ofNat_toNat_lt _ hs, ofNat_toNat_lt _ hc,
    ofNat_toNat_lt _ hc1, List.length_cons, List.drop_succ_cons, List.drop_zero]
  have h3 : ¬ rest.length + 1 + 1 + 1 + 1 < 3 := by omega
  have h4 : ¬ rest.length + 1 + 1 + 1 + 1 < 4 := by omega
  simp [h3, h4, h]

/-- **C03 / LLC** (and C04 for objects without information fields): the written header parses back to the same SAPs,
    format and control octets, and exactly the bytes after the header are handed to the payload constructor.  This is
    where the parser fix matters: an information frame with an odd N(S) (`c0 % 4 = 2`) keeps its control field. -/
theorem llc_api_reparse_partial (cx : Ctx) (l : Llc) (h : l.Inv) (hno : l.infos = []) (region : Bytes)
    (hr : l.hdr ≤ region.length) :
    ∃ out, l.write cx region = .ok out ∧ out.length = region.length ∧
      Llc.parse out = .ok ((Llc.written cx l).normal,
        Llc.innerFor (Llc.written cx l).dsap (Llc.written cx l).ssap (region.drop l.hdr)) := by
  have hi1 := llc_written_inv cx l h
  have hlen := llc_headerBytes_length _ hi1
  have hh : (Llc.written cx l).hdr = l.hdr := by unfold Llc.written; split <;> rfl
  have hinf : (Llc.written cx l).infos = [] := by unfold Llc.written; split <;> exact hno
  refine ⟨_, llc_write_eq cx l h region hr, ?_, ?_⟩
  · simp only [List.length_append, List.length_drop, hlen, hh]; omega
  · generalize Llc.written cx l = w at hi1 hinf
    have hil : w.infoLen = 0 := by rw [hi1.info, hinf]; rfl
    have hd := hi1.dsap; have hs := hi1.ssap; have hc0 := hi1.c0; have hc1 := hi1.c1
    have hbits := hi1.bits; have hctl := hi1.ctl
    cases w with
    | mk dsap ssap typ ctlLen c0 c1 infoLen infos =>
      simp only at hinf hil hd hs hc0 hc1 hbits hctl
      subst hinf; subst hil; subst hctl
      cases typ with
      | unnumbered =>
        simp only [Llc.bitsOK] at hbits
        simp only [Llc.headerBytes, Llc.controlBytes, List.flatten_nil, List.append_nil, List.cons_append, List.nil_append]
        rw [llc_parse_u dsap ssap c0 hd hs hc0 _ hbits]
        simp [Llc.normal, Llc.ctlLenOf]
      | information =>
        simp only [Llc.bitsOK] at hbits
        simp only [Llc.headerBytes, Llc.controlBytes, List.flatten_nil, List.append_nil, List.cons_append, List.nil_append]
        rw [llc_parse_i dsap ssap c0 c1 hd hs hc0 hc1 _ (by omega)]
        have : ¬ c0 % 2 = 1 := by omega
        simp [Llc.normal, this, Llc.ctlLenOf]
      | supervisory =>
        simp only [Llc.bitsOK] at hbits
        simp only [Llc.headerBytes, Llc.controlBytes, List.flatten_nil, List.append_nil, List.cons_append, List.nil_append]
        rw [llc_parse_i dsap ssap c0 c1 hd hs hc0 hc1 _ (by omega)]
        have : c0 % 2 = 1 := by omega
        simp [Llc.normal, this, Llc.ctlLenOf]

/-- the parser never creates information fields -/
theorem llc_parse_infos_nil (b : Bytes) (l : Llc) (i : Inner) (h : Llc.parse b = .ok (l, i)) : l.infos = [] := by
  rw [llc_parse_eq] at h
  split at h
  · cases h
  · split at h
    · injection h with h; injection h with hl _; subst hl; rfl
    · split at h
      · cases h
      · injection h with h; injection h with hl _; subst hl; rfl

/-- **C03 / LLC** (full): every accepted LLC frame re-serializes to bytes that parse back to the same getters, with
    exactly the bytes after the header as payload -/
theorem llc_reparse (b : Bytes) (l : Llc) (i : Inner) (hp : Llc.parse b = .ok (l, i)) (cx : Ctx) (region : Bytes)
    (hr : l.hdr ≤ region.length) :
    ∃ out l' i', l.write cx region = .ok out ∧ Llc.parse out = .ok (l', i') ∧ l'.view = (Llc.written cx l).view ∧
      i' = Llc.innerFor (Llc.written cx l).dsap (Llc.written cx l).ssap (region.drop l.hdr) := by
  rcases llc_api_reparse_partial cx l (llc_parse_inv b l i hp) (llc_parse_infos_nil b l i hp) region hr with ⟨out, hw, _, hq⟩
  exact ⟨out, _, _, hw, hq, Llc.normal_view _, rfl⟩

/-- without an STP payload nothing of the object is rewritten on serialization -/
theorem llc_written_id (cx : Ctx) (l : Llc) (h : cx.innerCls ≠ some "STP") : Llc.written cx l = l := by
  unfold Llc.written
  have : (cx.innerCls == some "STP") = false := by simpa using h
  simp [this]

/-! ### the known finding: information fields are written but never parsed back (KF-C04-L2-1) -/

/-- bytes an `Inner` hands to the next constructor -/
def Inner.bytes : Inner → Bytes
  | .none => []
  | .raw b => b
  | .cls _ b _ => b

/-- **C04 / LLC, full statement**: for every API-reachable LLC the serialization parses back to an LLC with the same
    header size whose payload is exactly what followed the header. -/
def llc_api_reparse : Prop :=
  ∀ (cx : Ctx) (l : Llc) (region : Bytes), l.Inv → l.hdr ≤ region.length →
    ∃ out l' i', l.write cx region = .ok out ∧ Llc.parse out = .ok (l', i') ∧ l'.view = (Llc.written cx l).view ∧
      l'.hdr = l.hdr ∧ Inner.bytes i' = region.drop l.hdr

/-- the witness: `LLC(0xaa, 0xab)`, unnumbered XID, one XID information field, over a 6-byte region -/
def llcWitness : Llc := ((Llc.create 0xaa 0xab).setType .unnumbered |>.setModifier 0x1d).addXid 0x81 1 8

theorem llc_api_reparse_fails : ¬ llc_api_reparse := by
  intro hall
  have hinv : llcWitness.Inv := ⟨by decide, by decide, by decide, by decide, rfl, by decide, rfl⟩
  rcases hall ⟨[], []⟩ llcWitness (List.replicate 6 0) hinv (by decide) with ⟨out, l', i', hw, hp, _, hh, _⟩
  have hw' : llcWitness.write ⟨[], []⟩ (List.replicate 6 0) = .ok [0xaa, 0xab, 0xaf, 0x81, 1, 8] := rfl
  rw [hw'] at hw
  injection hw with hw; subst hw
  have hp' : Llc.parse [0xaa, 0xab, 0xaf, 0x81, 1, 8] =
      .ok (⟨0xaa, 0xab, .unnumbered, 1, 0xaf, 0, 0, []⟩, .raw [0x81, 1, 8]) := rfl
  rw [hp'] at hp
  injection hp with hp
  injection hp with hl _
  subst hl
  revert hh
  decide

/-- … and it holds for every object without information fields (the proved part) -/
theorem llc_api_reparse_holds_without_infos (cx : Ctx) (l : Llc) (region : Bytes) (h : l.Inv) (hno : l.infos = [])
    (hr : l.hdr ≤ region.length) :
    ∃ out l' i', l.write cx region = .ok out ∧ Llc.parse out = .ok (l', i') ∧ l'.view = (Llc.written cx l).view ∧
      l'.hdr = l.hdr ∧ Inner.bytes i' = region.drop l.hdr := by
  rcases llc_api_reparse_partial cx l h hno region hr with ⟨out, hw, _, hq⟩
  refine ⟨out, _, _, hw, hq, Llc.normal_view _, ?_, ?_⟩
  · have hh : (Llc.written cx l).hdr = l.hdr := by unfold Llc.written; split <;> rfl
    rw [← hh]
    unfold Llc.normal Llc.hdr; split <;> rfl
  · unfold Llc.innerFor
    split
    · split <;> rfl
    · rename_i hz
      have : (region.drop l.hdr) = [] := List.eq_nil_of_length_eq_zero (by omega)
      rw [this]; rfl

/-! ### C04: setters against getters on the packed control field -/

theorem llc_setType (l : Llc) (t : LlcFormat) (h : l.Inv) : (l.setType t).typ = t ∧ (l.setType t).Inv ∧
    (l.setType t).dsap = l.dsap ∧ (l.setType t).ssap = l.ssap := by
  have := h.c0
  cases t <;> refine ⟨rfl, ⟨h.dsap, h.ssap, ?_, h.c1, rfl, ?_, h.info⟩, rfl, rfl⟩ <;>
    simp only [Llc.setType, Llc.bitsOK] <;> omega

theorem llc_setSendSeq (l : Llc) (n : Nat) (h : l.Inv) (ht : l.typ = .information) :
    (l.setSendSeq n).sendSeq = n % 128 ∧ (l.setSendSeq n).recvSeq = l.recvSeq ∧
    (l.setSendSeq n).pollFinal = l.pollFinal ∧ (l.setSendSeq n).typ = l.typ ∧ (l.setSendSeq n).Inv := by
  have hb := h.bits; have hc := h.c0
  simp only [ht, Llc.bitsOK] at hb
  have e : l.setSendSeq n = { l with c0 := l.c0 % 2 + n % 128 * 2 } := by simp [Llc.setSendSeq, ht]
  rw [e]
  refine ⟨?_, ?_, ?_, rfl, ⟨h.dsap, h.ssap, ?_, h.c1, h.ctl, ?_, h.info⟩⟩
  · simp only [Llc.sendSeq, ht]; simp; omega
  · simp only [Llc.recvSeq, ht]
  · simp only [Llc.pollFinal, ht]
  · simp only; omega
  · simp only [ht, Llc.bitsOK]; omega

theorem llc_setRecvSeq (l : Llc) (n : Nat) (h : l.Inv) (ht : l.typ ≠ .unnumbered) :
    (l.setRecvSeq n).recvSeq = n % 128 ∧ (l.setRecvSeq n).pollFinal = l.pollFinal ∧
    (l.setRecvSeq n).sendSeq = l.sendSeq ∧ (l.setRecvSeq n).supervisoryFunction = l.supervisoryFunction ∧
    (l.setRecvSeq n).Inv := by
  have hc := h.c1
  cases hty : l.typ with
  | unnumbered => exact absurd hty ht
  | information =>
    have e : l.setRecvSeq n = { l with c1 := l.c1 % 2 + n % 128 * 2 } := by simp [Llc.setRecvSeq, hty]
    rw [e]
    refine ⟨?_, ?_, ?_, ?_, ⟨h.dsap, h.ssap, h.c0, ?_, h.ctl, h.bits, h.info⟩⟩
    · simp only [Llc.recvSeq, hty]; omega
    · simp only [Llc.pollFinal, hty]; omega
    · simp only [Llc.sendSeq, hty]
    · simp only [Llc.supervisoryFunction, hty]
    · simp only; omega
  | supervisory =>
    have e : l.setRecvSeq n = { l with c1 := l.c1 % 2 + n % 128 * 2 } := by simp [Llc.setRecvSeq, hty]
    rw [e]
    refine ⟨?_, ?_, ?_, ?_, ⟨h.dsap, h.ssap, h.c0, ?_, h.ctl, h.bits, h.info⟩⟩
    · simp only [Llc.recvSeq, hty]; omega
    · simp only [Llc.pollFinal, hty]; omega
    · simp only [Llc.sendSeq, hty]
    · simp only [Llc.supervisoryFunction, hty]
    · simp only; omega

theorem llc_setPollFinal (l : Llc) (b : Bool) (h : l.Inv) :
    (l.setPollFinal b).pollFinal = b2n b ∧ (l.setPollFinal b).sendSeq = l.sendSeq ∧ (l.setPollFinal b).recvSeq = l.recvSeq ∧
    (l.setPollFinal b).supervisoryFunction = l.supervisoryFunction ∧
    (l.setPollFinal b).modifierFunction = l.modifierFunction ∧ (l.setPollFinal b).typ = l.typ ∧ (l.setPollFinal b).Inv := by
  have hc0 := h.c0; have hc1 := h.c1; have hb := h.bits
  have hbb : b2n b < 2 := by cases b <;> decide
  cases hty : l.typ with
  | unnumbered =>
    simp only [hty, Llc.bitsOK] at hb
    have e : l.setPollFinal b = { l with c0 := l.c0 % 16 + b2n b * 16 + l.c0 / 32 * 32 } := by simp [Llc.setPollFinal, hty]
    rw [e]
    refine ⟨?_, ?_, ?_, ?_, ?_, hty, ⟨h.dsap, h.ssap, ?_, h.c1, h.ctl, ?_, h.info⟩⟩
    · simp only [Llc.pollFinal, hty]; omega
    · simp only [Llc.sendSeq, hty]; rfl
    · simp only [Llc.recvSeq, hty]
    · simp only [Llc.supervisoryFunction, hty]; rfl
    · simp only [Llc.modifierFunction, hty]; simp; omega
    · simp only; omega
    · simp only [hty, Llc.bitsOK]; omega
  | information =>
    have e : l.setPollFinal b = { l with c1 := l.c1 / 2 * 2 + b2n b } := by simp [Llc.setPollFinal, hty]
    rw [e]
    refine ⟨?_, ?_, ?_, ?_, ?_, hty, ⟨h.dsap, h.ssap, h.c0, ?_, h.ctl, h.bits, h.info⟩⟩
    · simp only [Llc.pollFinal, hty]; omega
    · simp only [Llc.sendSeq, hty]
    · simp only [Llc.recvSeq, hty]; omega
    · simp only [Llc.supervisoryFunction, hty]
    · simp only [Llc.modifierFunction, hty]
    · simp only; omega
  | supervisory =>
    have e : l.setPollFinal b = { l with c1 := l.c1 / 2 * 2 + b2n b } := by simp [Llc.setPollFinal, hty]
    rw [e]
    refine ⟨?_, ?_, ?_, ?_, ?_, hty, ⟨h.dsap, h.ssap, h.c0, ?_, h.ctl, h.bits, h.info⟩⟩
    · simp only [Llc.pollFinal, hty]; omega
    · simp only [Llc.sendSeq, hty]
    · simp only [Llc.recvSeq, hty]; omega
    · simp only [Llc.supervisoryFunction, hty]
    · simp only [Llc.modifierFunction, hty]
    · simp only; omega

theorem llc_setSupervisory (l : Llc) (n : Nat) (h : l.Inv) (ht : l.typ = .supervisory) :
    (l.setSupervisory n).supervisoryFunction = n % 4 ∧ (l.setSupervisory n).recvSeq = l.recvSeq ∧
    (l.setSupervisory n).pollFinal = l.pollFinal ∧ (l.setSupervisory n).typ = l.typ ∧ (l.setSupervisory n).Inv := by
  have hb := h.bits; have hc := h.c0
  simp only [ht, Llc.bitsOK] at hb
  have e : l.setSupervisory n = { l with c0 := l.c0 % 4 + n % 4 * 4 + l.c0 / 16 * 16 } := by simp [Llc.setSupervisory, ht]
  rw [e]
  refine ⟨?_, ?_, ?_, rfl, ⟨h.dsap, h.ssap, ?_, h.c1, h.ctl, ?_, h.info⟩⟩
  · simp only [Llc.supervisoryFunction, ht]; simp; omega
  · simp only [Llc.recvSeq, ht]
  · simp only [Llc.pollFinal, ht]
  · simp only; omega
  · simp only [ht, Llc.bitsOK]; omega

theorem pack_unnumbered (a b c d : Nat) (ha : a < 4) (hb : b < 4) (hc : c < 2) (hd : d < 8) :
    (a + b * 4 + c * 16 + d * 32) / 4 % 4 = b ∧ (a + b * 4 + c * 16 + d * 32) / 32 = d ∧
    (a + b * 4 + c * 16 + d * 32) / 16 % 2 = c ∧ (a + b * 4 + c * 16 + d * 32) % 4 = a ∧
    a + b * 4 + c * 16 + d * 32 < 256 := by omega

theorem llc_setModifier (l : Llc) (n : Nat) (h : l.Inv) (ht : l.typ = .unnumbered) :
    (l.setModifier n).modifierFunction = n % 32 ∧ (l.setModifier n).pollFinal = l.pollFinal ∧
    (l.setModifier n).typ = l.typ ∧ (l.setModifier n).Inv := by
  have hb := h.bits; have hc := h.c0
  simp only [ht, Llc.bitsOK] at hb
  have e : l.setModifier n = { l with c0 := l.c0 % 4 + (n % 32 / 8) * 4 + l.c0 / 16 % 2 * 16 + n % 8 * 32 } := by
    simp [Llc.setModifier, ht]
  rw [e]
  rcases pack_unnumbered (l.c0 % 4) (n % 32 / 8) (l.c0 / 16 % 2) (n % 8) (by omega) (by omega) (by omega) (by omega) with
    ⟨p1, p2, p3, p4, p5⟩
  refine ⟨?_, ?_, rfl, ⟨h.dsap, h.ssap, p5, h.c1, h.ctl, ?_, h.info⟩⟩
  · simp only [Llc.modifierFunction, ht, p1, p2]; simp; omega
  · simp only [Llc.pollFinal, ht, p3]
  · simp only [ht, Llc.bitsOK, p4]; omega

theorem llc_setSendSeq_inv (l : Llc) (n : Nat) (h : l.Inv) : (l.setSendSeq n).Inv := by
  by_cases ht : l.typ = .information
  · exact (llc_setSendSeq l n h ht).2.2.2.2
  · have : l.setSendSeq n = l := by simp [Llc.setSendSeq, ht]
    rw [this]; exact h

theorem llc_setRecvSeq_inv (l : Llc) (n : Nat) (h : l.Inv) : (l.setRecvSeq n).Inv := by
  by_cases ht : l.typ = .unnumbered
  · have : l.setRecvSeq n = l := by simp [Llc.setRecvSeq, ht]
    rw [this]; exact h
  · exact (llc_setRecvSeq l n h ht).2.2.2.2

theorem llc_setSupervisory_inv (l : Llc) (n : Nat) (h : l.Inv) : (l.setSupervisory n).Inv := by
  by_cases ht : l.typ = .supervisory
  · exact (llc_setSupervisory l n h ht).2.2.2.2
  · have : l.setSupervisory n = l := by simp [Llc.setSupervisory, ht]
    rw [this]; exact h

theorem llc_setModifier_inv (l : Llc) (n : Nat) (h : l.Inv) : (l.setModifier n).Inv := by
  by_cases ht : l.typ = .unnumbered
  · exact (llc_setModifier l n h ht).2.2.2
  · have : l.setModifier n = l := by simp [Llc.setModifier, ht]
    rw [this]; exact h

/-- `add_xid_information` keeps the cached length equal to the bytes the writer will emit (any history) -/
theorem llc_addXid_inv (l : Llc) (a b c : Nat) (h : l.Inv) : (l.addXid a b c).Inv ∧ (l.addXid a b c).hdr = l.hdr + 3 := by
  refine ⟨⟨h.dsap, h.ssap, h.c0, h.c1, h.ctl, h.bits, ?_⟩, ?_⟩
  · simp [Llc.addXid, h.info]
  · simp [Llc.addXid, Llc.hdr]; omega

theorem llc_clearInfos_inv (l : Llc) (h : l.Inv) : l.clearInfos.Inv :=
  ⟨h.dsap, h.ssap, h.c0, h.c1, h.ctl, h.bits, rfl⟩

/-- **C04 / LLC**: every API call keeps the invariant — so `header_size()` equals the bytes written after any history -/
theorem llc_apply_inv (l l' : Llc) (op : List String) (h : l.Inv) (ha : l.apply op = .ok l') : l'.Inv := by
  have hb2 : ∀ b : Bool, b2n b < 2 := by intro b; cases b <;> decide
  unfold Llc.apply at ha
  split at ha
  · split at ha
    · injection ha with ha; subst ha; exact ⟨Nat.mod_lt _ (by decide), h.ssap, h.c0, h.c1, h.ctl, h.bits, h.info⟩
    · cases ha
  · split at ha
    · injection ha with ha; subst ha; exact ⟨h.dsap, Nat.mod_lt _ (by decide), h.c0, h.c1, h.ctl, h.bits, h.info⟩
    · cases ha
  · split at ha
    · rename_i b _; injection ha with ha; subst ha
      exact ⟨by have := h.dsap; have := hb2 b; simp only [Llc.setGroup]; omega, h.ssap, h.c0, h.c1, h.ctl, h.bits, h.info⟩
    · cases ha
  · split at ha
    · rename_i b _; injection ha with ha; subst ha
      exact ⟨h.dsap, by have := h.ssap; have := hb2 b; simp only [Llc.setResponse]; omega, h.c0, h.c1, h.ctl, h.bits, h.info⟩
    · cases ha
  · split at ha
    · injection ha with ha; subst ha; exact (llc_setType l _ h).2.1
    · cases ha
  · split at ha
    · injection ha with ha; subst ha; exact llc_setSendSeq_inv l _ h
    · cases ha
  · split at ha
    · injection ha with ha; subst ha; exact llc_setRecvSeq_inv l _ h
    · cases ha
  · split at ha
    · injection ha with ha; subst ha; exact (llc_setPollFinal l _ h).2.2.2.2.2.2
    · cases ha
  · split at ha
    · injection ha with ha; subst ha; exact llc_setSupervisory_inv l _ h
    · cases ha
  · split at ha
    · injection ha with ha; subst ha; exact llc_setModifier_inv l _ h
    · cases ha
  · split at ha
    · injection ha with ha; subst ha; exact (llc_addXid_inv l _ _ _ h).1
    · cases ha
  · injection ha with ha; subst ha; exact llc_clearInfos_inv l h
  · cases ha

example : ∃ l i, Llc.parse [0xaa, 0xab, 0x02, 0x00] = .ok (l, i) ∧ l.typ = .information ∧ l.sendSeq = 1 := ⟨_, _, rfl, rfl, rfl⟩
example : llcWitness.hdr = 6 ∧ llcWitness.Inv := ⟨rfl, ⟨by decide, by decide, by decide, by decide, rfl, by decide, rfl⟩⟩

end Tins.Wire.L2
