import TinsModel.Wire.Iface
import TinsModel.Wire.Tags
/- argument decoding shared by the `mk` / `apply` functions of the L2 classes (line-protocol side only) -/
namespace Tins.Wire.L2

def parseMac (s : String) : Option Bytes :=
  match parseHexStr s with
  | some b => if b.length == 6 then some b else none
  | none => none

def parseHexN (n : Nat) (s : String) : Option Bytes :=
  match parseHexStr s with
  | some b => if b.length == n then some b else none
  | none => none

/-- decimal argument of a setter -/
def natArg (s : String) : Option Nat := s.toNat?

/-- `bool` argument ("0"/"1") -/
def boolArg (s : String) : Option Bool :=
  if s == "1" then some true else if s == "0" then some false else none

def b2n (b : Bool) : Nat := if b then 1 else 0

def byteAt (bs : Bytes) (i : Nat) : Nat := (bs.getD i 0).toNat

/-- `Internals::pdu_to_ether_type(const PDU&)`: the per-class table, except that PPPoE answers by its stage
    (code 0 = session 0x8864, otherwise discovery 0x8863); 0 = `Constants::Ethernet::UNKNOWN` -/
def etherTagOf (i : LayerInfo) : Nat :=
  let t := Tags.pduTypeOf i.cls
  if t == "PPPOE" then (if i.fields.get "code" == some "0" then 34916 else 34915)
  else Tags.etherOfPduType t

end Tins.Wire.L2
