import TinsModel.Wire.Iface
import TinsModel.Wire.Tags
/- argument decoding shared by the `mk` / `apply` functions of the L2 classes (line-protocol side only) -/
namespace Tins.Wire.L2

def parseMac (s : String) : Option Bytes :=
  match parseHexStr s with
  | some b => if b.length == 6 then some b else none
  | none => none

def parseHexN (n : Nat) (s : String) : Option Bytes :=
  match parseHexStr s with
  | some b => if b.length == n then some b else none
  | none => none

/-- decimal argument of a setter -/
def natArg (s : String) : Option Nat := s.toNat?

/-- `bool` argument ("0"/"1") -/
def boolArg (s : String) : Option Bool :=
  if s == "1" then some true else if s == "0" then some false else none

def b2n (b : Bool) : Nat := if b then 1 else 0

def byteAt (bs : Bytes) (i : Nat) : Nat := (bs.getD i 0).toNat

end Tins.Wire.L2
