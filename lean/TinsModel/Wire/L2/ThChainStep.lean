import TinsModel.Wire.L2.ThChainView
/-
  Whole-packet C03, part 2: what the protocols can express (`Stackable`) and the one-layer step of the whole-packet
  theorem — for every class of the family: writing the layer around the bytes `io` its inner chain produced and parsing
  the result (followed by `k` zero bytes of an outer layer's minimum-frame padding) gives the same layer back, with the
  tag libtins derives, and hands `io` (plus the padding) to the constructor of the class that follows in the stack, or
  to RawPDU / to nobody at the end of the stack (`l2_step`).
-/
namespace Tins.Wire.L2
open Tins Tins.Wire

/-- what follows a layer in a stack -/
inductive Next
  | none                                   -- the stack ends here
  | raw (p : Bytes)                        -- a final RawPDU
  | l2 (y : Obj) (r : List AnyObj)         -- another layer of the family
  | bad                                    -- anything else

def next : List AnyObj → Next
  | [] => .none
  | [.raw p] => .raw p
  | .l2 y :: r => .l2 y r
  | _ => .bad

theorem next_none {os : List AnyObj} (h : next os = .none) : os = [] := by
  unfold next at h; split at h <;> cases h <;> rfl
theorem next_raw {os : List AnyObj} {p : Bytes} (h : next os = .raw p) : os = [.raw p] := by
  unfold next at h; split at h <;> cases h <;> rfl
theorem next_l2 {os : List AnyObj} {y : Obj} {r : List AnyObj} (h : next os = .l2 y r) : os = .l2 y :: r := by
  unfold next at h; split at h <;> cases h <;> rfl

/-- classes an EtherType can name and that can carry minimum-frame padding behind them -/
def EtherTier : Obj → Prop
  | .dot1q _ => True
  | .mpls _ => True
  | .pppoe _ => True
  | _ => False

def etherLink (tag : Nat) : Next → Prop
  | .none => True
  | .raw _ => Tags.classOfEther tag = none
  | .l2 y _ => EtherTier y
  | .bad => False

/-- Loopback families the parser does not dispatch on -/
def LoopRaw (f : Nat) : Prop := f ≠ PF_INET ∧ f ≠ PF_INET6 ∧ f ≠ PF_LLC

def Link : Obj → Next → Prop
  | .eth e, n => etherLink e.ptype n
  | .dot1q q, n => etherLink q.ptype n
  | .snap s, n => etherLink s.ethType n
  | .sll s, n => etherLink s.protocol n
  | .dot3 _, .none => True
  | .dot3 _, .l2 (.llc _) _ => True
  | .llc l, .none => l.infos = []
  | .llc l, .raw _ => l.infos = [] ∧ ¬ (l.dsap = 0x42 ∧ l.ssap = 0x42)
  | .loopback l, .none => LoopRaw l.family
  | .loopback l, .raw _ => LoopRaw l.family
  | .loopback _, .l2 (.llc _) _ => True
  | .mpls _, .none => True
  | .mpls m, .raw p => m.bottomOfStack = 1 ∧ byteAt p 0 / 16 ≠ 4 ∧ byteAt p 0 / 16 ≠ 6
  | .mpls m, .l2 (.mpls _) _ => m.bottomOfStack = 0
  | .pppoe p, .none => (p.code = 0 → p.tags = []) ∧ p.tagsSize < 65536
  | .pppoe p, .raw b => p.code = 0 ∧ p.tags = [] ∧ b.length < 65536
  | _, _ => False

def Stackable : List AnyObj → Prop
  | [] => True
  | .raw _ :: r => r = []
  | .l2 x :: r => ObjInv x ∧ Link x (next r) ∧ Stackable r
  | _ :: _ => False


/-- the context `write_serialization` sees for a layer with ancestors `parents` above the stack `os` -/
def cxOf (parents : List LayerInfo) (os : List AnyObj) : Ctx := { parents := parents, inners := infos os }

/-- what a parsing constructor did with the bytes `q` at the end of a stack: no inner PDU when there are none, a RawPDU
    otherwise (Loopback: a RawPDU also on no bytes) -/
def TailInner (inner : Inner) (q : Bytes) : Prop := (inner = .none ∧ q = []) ∨ inner = .raw q

/-- the inner-PDU decision of the re-parse of layer `x` (re-parsed as `x'`) above the stack `os`, whose serialization is
    `io`, when `k'` zero bytes (padding) follow `io` in the buffer -/
def isPppoe : Obj → Bool
  | .pppoe _ => true
  | _ => false

/-- how many of the `k'` padding bytes behind layer `x`'s inner chain reach the end of the stack: PPPoE cuts them off
    (payload length), every other class passes them on -/
def padTo (x : Obj) (k' : Nat) : Nat := if isPppoe x then 0 else k'

theorem padTo_le (x : Obj) (k' : Nat) : padTo x k' ≤ k' := by
  unfold padTo; split <;> omega

def StepInner (x x' : Obj) (os : List AnyObj) (io : Bytes) (k' : Nat) (inner : Inner) : Prop :=
  match next os with
  | .none => TailInner inner (List.replicate (padTo x k') 0)
  | .raw p => layerView (!p.isEmpty) (.l2 x') = layerView (!p.isEmpty) (.l2 x) ∧
      TailInner inner (p ++ List.replicate (padTo x k') 0)
  | .l2 y _ => inner = .cls (info y).1 (io ++ List.replicate k' 0) false ∧ (k' = 0 ∨ EtherTier y)
  | .bad => False

/-- the object the re-parse of what `x` wrote in context `cx` gives back: `x` with the fields libtins derives (tags,
    lengths) as `write_serialization` computed them; state that is not on the wire is reset (`append_padding`, the
    second control octet of unnumbered LLC frames) -/
def wr (cx : Ctx) : Obj → Obj
  | .eth e => .eth { e with ptype := Eth.tagFor cx e }
  | .dot3 d => .dot3 { d with len := cx.innerSize % 65536 }
  | .llc l => .llc l.normal
  | .snap s => .snap { s with ethType := Snap.tagFor cx s }
  | .dot1q q => .dot1q { q with ptype := Dot1Q.tagFor cx q, appendPadding := false }
  | .mpls m => .mpls (Mpls.written cx m)
  | .pppoe p => .pppoe { p with payloadLength := if p.code = 0 then cx.innerSize else p.tagsSize }
  | .sll s => .sll { s with protocol := Sll.tagFor cx s }
  | .loopback l => .loopback ⟨Loopback.familyFor cx l⟩
  | o => o

theorem etherInner_none {t : Nat} (h : Tags.classOfEther t = none) (b : Bytes) : etherInner t b = .raw b := by
  simp [etherInner, h]
theorem etherInner_some {t : Nat} {c : String} (h : Tags.classOfEther t = some c) (b : Bytes) :
    etherInner t b = .cls c b false := by
  simp [etherInner, h]

theorem classOfEther_zero : Tags.classOfEther 0 = none := by decide

theorem etherTier_cls (y : Obj) (h : EtherTier y) : (info y).1 = "Dot1Q" ∨ (info y).1 = "MPLS" ∨ (info y).1 = "PPPoE" := by
  cases y <;> simp [EtherTier] at h <;> simp [info]

theorem cxOf_inners_nil (ps : List LayerInfo) : (cxOf ps []).inners = [] := rfl
theorem cxOf_inners_raw (ps : List LayerInfo) (p : Bytes) :
    (cxOf ps [.raw p]).inners = [⟨"RawPDU", [("payload", toHexStr p)], p.length, 0⟩] := rfl
theorem cxOf_inners_l2 (ps : List LayerInfo) (y : Obj) (r : List AnyObj) :
    (cxOf ps (.l2 y :: r)).inners =
      ⟨(info y).1, (info y).2, hdr y, trl y ((infos r).map (fun l => l.hdr + l.trl)).sum⟩ :: infos r := rfl

theorem etherTagOf_raw (f : Fields) (h t : Nat) : etherTagOf ⟨"RawPDU", f, h, t⟩ = 0 := by
  have hp : Tags.pduTypeOf "RawPDU" = "RAW" := by decide
  have hn : ("RAW" == "PPPOE") = false := by decide
  simp only [etherTagOf, hp, hn, Bool.false_eq_true, if_false]
  decide

/-- the tag derived from a Dot1Q / MPLS / PPPoE payload is non-zero and dispatches back to that class -/
theorem etherTagOf_tier (c : String) (hc : c = "Dot1Q" ∨ c = "MPLS" ∨ c = "PPPoE") (f : Fields) (h t : Nat) :
    etherTagOf ⟨c, f, h, t⟩ ≠ 0 ∧ Tags.classOfEther (etherTagOf ⟨c, f, h, t⟩) = some c := by
  have hr := l2_ether_tag_roundtrip c (by rcases hc with rfl | rfl | rfl <;> simp) f h t
  refine ⟨fun h0 => ?_, hr⟩
  rw [h0, classOfEther_zero] at hr
  cases hr

/-- EthernetII's own choice of tag for a Dot1Q / MPLS / PPPoE payload dispatches back to that class -/
theorem eth_tagFor_dispatch (cx : Ctx) (e : Eth) (i : LayerInfo) (rest : List LayerInfo) (hc : cx.inners = i :: rest)
    (h : i.cls = "Dot1Q" ∨ i.cls = "MPLS" ∨ i.cls = "PPPoE") : Tags.classOfEther (Eth.tagFor cx e) = some i.cls := by
  unfold Eth.tagFor
  rw [hc]
  obtain ⟨c, f, hd, tr⟩ := i
  dsimp only at h ⊢
  have hq : Tags.pduTypeOf "Dot1Q" = "DOT1Q" := by decide
  have hm : Tags.pduTypeOf "MPLS" = "MPLS" := by decide
  have hp : Tags.pduTypeOf "PPPoE" = "PPPOE" := by decide
  have d1 : Tags.etherOfPduType "DOT1Q" = 33024 := by decide
  have d2 : Tags.etherOfPduType "MPLS" = 34887 := by decide
  have c1 : Tags.classOfEther 33024 = some "Dot1Q" := by decide
  have c2 : Tags.classOfEther 34984 = some "Dot1Q" := by decide
  have c3 : Tags.classOfEther 34887 = some "MPLS" := by decide
  have c4 : Tags.classOfEther 34916 = some "PPPoE" := by decide
  have c5 : Tags.classOfEther 34915 = some "PPPoE" := by decide
  rcases h with h | h | h <;> subst h
  · have h1 : ("DOT1Q" == "PPPOE") = false := by decide
    simp only [hq, h1, Bool.false_eq_true, if_false, beq_self_eq_true, if_true, d1]
    cases rest.head? with
    | none => simp [c1]
    | some j => dsimp only; split <;> simp [c1, c2]
  · have h1 : ("MPLS" == "PPPOE") = false := by decide
    have h2 : ("MPLS" == "DOT1Q") = false := by decide
    simp [hm, h1, h2, d2, c3]
  · simp only [hp, beq_self_eq_true, if_true]
    split <;> simp [c4, c5]

theorem eth_view_false (e : Eth) (t : Nat) :
    layerView false (.l2 (.eth { e with ptype := t })) = layerView false (.l2 (.eth e)) := by
  simp [layerView, AnyObj.info, info, Eth.fields, Fields.view]

/-- **EthernetII step** -/
theorem eth_step (ps : List LayerInfo) (e : Eth) (os : List AnyObj) (hwf : e.WF) (hlink : Link (.eth e) (next os))
    (region io : Bytes) (hlen : region.length = 14 + (cxOf ps os).innerSize + Eth.trl (cxOf ps os).innerSize)
    (hio : (region.drop 14).take (cxOf ps os).innerSize = io) (hnil : os = [] → io = [])
    (hraw : ∀ p, os = [.raw p] → io = p) :
    ∃ out e' inner, e.write (cxOf ps os) region = .ok out ∧ out.length = region.length ∧
      Eth.parse out = .ok (e', inner) ∧ layerView false (.l2 (.eth e')) = layerView false (.l2 (.eth e)) ∧
      Obj.eth e' = wr (cxOf ps os) (.eth e) ∧
      StepInner (.eth e) (.eth e') os io (Eth.trl (cxOf ps os).innerSize) inner := by
  rcases eth_reparse (cxOf ps os) e hwf region hlen with ⟨out, hw, hl, hp⟩
  rw [hio] at hp
  refine ⟨out, _, _, hw, hl, hp, eth_view_false e _, rfl, ?_⟩
  unfold StepInner
  cases hn : next os with
  | none =>
    have hos := next_none hn; subst hos
    have ht : Eth.tagFor (cxOf ps []) e = 0 := by simp [Eth.tagFor, cxOf_inners_nil]
    rw [ht, etherInner_none classOfEther_zero, hnil rfl]
    exact .inr (by simp [padTo, isPppoe])
  | raw p =>
    have hos := next_raw hn; subst hos
    rw [hn] at hlink
    have hd : Tags.classOfEther e.ptype = none := by simpa [Link, etherLink] using hlink
    have ht : Eth.tagFor (cxOf ps [.raw p]) e = e.ptype :=
      eth_tag_kept _ e _ _ (cxOf_inners_raw ps p) (by show Tags.pduTypeOf "RawPDU" ≠ "PPPOE"; decide)
        (by show Tags.pduTypeOf "RawPDU" ≠ "DOT1Q"; decide)
        (by show Tags.etherOfPduType (Tags.pduTypeOf "RawPDU") = 0; decide)
    rw [ht, etherInner_none hd, hraw p rfl]
    exact ⟨rfl, .inr rfl⟩
  | l2 y r =>
    have hos := next_l2 hn; subst hos
    rw [hn] at hlink
    have hy : EtherTier y := by simpa [Link, etherLink] using hlink
    have hd := eth_tagFor_dispatch (cxOf ps (.l2 y :: r)) e _ _ (cxOf_inners_l2 ps y r) (etherTier_cls y hy)
    rw [etherInner_some hd]
    exact ⟨rfl, .inr hy⟩
  | bad => rw [hn] at hlink; simp [Link, etherLink] at hlink

/-! ### the classes that carry an EtherType and derive it through `pdu_to_ether_type`: Dot1Q, SNAP, SLL -/

/-- the common shape of `Dot1Q::write_serialization` / `SNAP::…` / `SLL::…`: `dflt` without an inner PDU, the inner
    PDU's EtherType when it has one, else the stored value -/
def headTag (cx : Ctx) (dflt stored : Nat) : Nat :=
  match cx.inners.head? with
  | none => dflt
  | some i => if etherTagOf i != 0 then etherTagOf i else stored

theorem dot1q_tagFor_eq (cx : Ctx) (q : Dot1Q) : Dot1Q.tagFor cx q = headTag cx 0 q.ptype := rfl
theorem snap_tagFor_eq (cx : Ctx) (s : Snap) : Snap.tagFor cx s = headTag cx s.ethType s.ethType := rfl
theorem sll_tagFor_eq (cx : Ctx) (s : Sll) : Sll.tagFor cx s = headTag cx s.protocol s.protocol := rfl

theorem headTag_nil (ps : List LayerInfo) (d s : Nat) : headTag (cxOf ps []) d s = d := rfl
theorem headTag_raw (ps : List LayerInfo) (p : Bytes) (d s : Nat) : headTag (cxOf ps [.raw p]) d s = s := by
  simp [headTag, cxOf_inners_raw, etherTagOf_raw]
theorem headTag_tier (ps : List LayerInfo) (y : Obj) (r : List AnyObj) (d s : Nat) (hy : EtherTier y) :
    Tags.classOfEther (headTag (cxOf ps (.l2 y :: r)) d s) = some (info y).1 := by
  have := etherTagOf_tier (info y).1 (etherTier_cls y hy) (info y).2 (hdr y)
    (trl y ((infos r).map (fun l => l.hdr + l.trl)).sum)
  simp [headTag, cxOf_inners_l2, this.1, this.2]

/-- the inner-PDU decision of a class that dispatches on an EtherType `tag` (stored value `stored`) -/
theorem ether_stepInner (x x' : Obj) (os : List AnyObj) (io : Bytes) (k' tag stored : Nat) (inner : Inner)
    (hx : isPppoe x = false) (hlink : etherLink stored (next os))
    (hinner : inner = if io.length + k' > 0 then etherInner tag (io ++ List.replicate k' 0) else .none)
    (htnil : os = [] → k' = 0 ∨ Tags.classOfEther tag = none)
    (htraw : ∀ p, os = [.raw p] → tag = stored)
    (htl2 : ∀ y r, os = .l2 y :: r → EtherTier y → Tags.classOfEther tag = some (info y).1)
    (hview : ∀ p, os = [.raw p] → layerView (!p.isEmpty) (.l2 x') = layerView (!p.isEmpty) (.l2 x))
    (hnil : os = [] → io = []) (hraw : ∀ p, os = [.raw p] → io = p)
    (hpos : ∀ y r, os = .l2 y :: r → 0 < io.length) :
    StepInner x x' os io k' inner := by
  unfold StepInner
  have hpad : padTo x k' = k' := by simp [padTo, hx]
  rw [hpad]
  cases hn : next os with
  | none =>
    have hos := next_none hn
    have hio := hnil hos
    subst hio
    rcases htnil hos with h0 | hd
    · subst h0; left; simp [hinner]
    · by_cases hk : k' > 0
      · right; simp [hinner, hk, etherInner_none hd]
      · have : k' = 0 := by omega
        subst this; left; simp [hinner]
  | raw p =>
    have hos := next_raw hn
    have hio := hraw p hos
    subst hio
    rw [hn] at hlink
    have hd : Tags.classOfEther tag = none := by rw [htraw io hos]; exact hlink
    refine ⟨hview io hos, ?_⟩
    by_cases hk : io.length + k' > 0
    · right; simp only [hinner, hk, if_true, etherInner_none hd]
    · left
      have h1 : io.length = 0 := by omega
      have h2 : k' = 0 := by omega
      have h3 : io = [] := List.eq_nil_of_length_eq_zero h1
      subst h2; subst h3
      simp [hinner]
  | l2 y r =>
    have hos := next_l2 hn
    rw [hn] at hlink
    have hy : EtherTier y := hlink
    have := hpos y r hos
    have hk : io.length + k' > 0 := by omega
    simp only [hinner, hk, if_true, etherInner_some (htl2 y r hos hy)]
    exact ⟨trivial, .inr hy⟩
  | bad => rw [hn] at hlink; exact hlink.elim

theorem dot1q_view (q : Dot1Q) (t : Nat) (a b : Bool) (h : b = true → t = q.ptype) :
    layerView b (.l2 (.dot1q { q with ptype := t, appendPadding := a })) = layerView b (.l2 (.dot1q q)) := by
  cases b with
  | false => simp [layerView, AnyObj.info, info, Dot1Q.fields, Fields.view]
  | true => rw [h rfl]; simp [layerView, AnyObj.info, info, Dot1Q.fields, Fields.view]

/-- `dot1q_reparse` with `k` zero bytes of an outer layer's padding behind the Dot1Q's own region -/
theorem dot1q_reparse_junk (cx : Ctx) (q : Dot1Q) (h : q.WF) (region : Bytes)
    (hl : region.length = 4 + cx.innerSize + q.trl cx.innerSize) (k : Nat) :
    ∃ out, q.write cx region = .ok out ∧ out.length = region.length ∧
      Dot1Q.parse (out ++ List.replicate k 0) = .ok ({ q with ptype := Dot1Q.tagFor cx q, appendPadding := false },
        if region.length + k > 4 then
          etherInner (Dot1Q.tagFor cx q) ((region.drop 4).take cx.innerSize ++ List.replicate (q.trl cx.innerSize + k) 0)
        else .none) := by
  have hb := dot1q_headerBytes_length { q with ptype := Dot1Q.tagFor cx q }
  have hwf1 : ({ q with ptype := Dot1Q.tagFor cx q } : Dot1Q).WF := ⟨h.priority, h.cfi, h.id, dot1q_tagFor_lt cx q h⟩
  have hlen : (({ q with ptype := Dot1Q.tagFor cx q } : Dot1Q).headerBytes ++ (region.drop 4).take cx.innerSize ++
      List.replicate (q.trl cx.innerSize) 0).length = region.length := by
    simp only [List.length_append, List.length_take, List.length_drop, List.length_replicate, hb]; omega
  refine ⟨_, dot1q_write_eq cx q region hl, hlen, ?_⟩
  have hlen2 : (({ q with ptype := Dot1Q.tagFor cx q } : Dot1Q).headerBytes ++ (region.drop 4).take cx.innerSize ++
      List.replicate (q.trl cx.innerSize) 0 ++ List.replicate k 0).length = region.length + k := by
    rw [List.length_append, hlen, List.length_replicate]
  rw [dot1q_parse_eq, hlen2]
  simp only [List.append_assoc]
  rw [take_append_len _ _ 4 hb, drop_append_len _ _ 4 hb, dot1q_ofHeader_headerBytes _ hwf1, List.replicate_append_replicate]
  have h1 : ¬ region.length + k < 4 := by omega
  simp only [h1, if_false]

/-- **Dot1Q step** -/
theorem dot1q_step (ps : List LayerInfo) (q : Dot1Q) (os : List AnyObj) (hwf : q.WF) (hlink : Link (.dot1q q) (next os))
    (region io : Bytes) (k : Nat)
    (hlen : region.length = 4 + (cxOf ps os).innerSize + q.trl (cxOf ps os).innerSize)
    (hio : (region.drop 4).take (cxOf ps os).innerSize = io) (hiol : io.length = (cxOf ps os).innerSize)
    (hnil : os = [] → io = []) (hraw : ∀ p, os = [.raw p] → io = p) (hpos : ∀ y r, os = .l2 y :: r → 0 < io.length) :
    ∃ out q' inner, q.write (cxOf ps os) region = .ok out ∧ out.length = region.length ∧
      Dot1Q.parse (out ++ List.replicate k 0) = .ok (q', inner) ∧
      layerView false (.l2 (.dot1q q')) = layerView false (.l2 (.dot1q q)) ∧
      Obj.dot1q q' = wr (cxOf ps os) (.dot1q q) ∧
      StepInner (.dot1q q) (.dot1q q') os io (q.trl (cxOf ps os).innerSize + k) inner := by
  rcases dot1q_reparse_junk (cxOf ps os) q hwf region hlen k with ⟨out, hw, hl, hp⟩
  rw [hio] at hp
  refine ⟨out, _, _, hw, hl, hp, dot1q_view q _ false false (fun h => by cases h), rfl, ?_⟩
  apply ether_stepInner _ _ os io _ (Dot1Q.tagFor (cxOf ps os) q) q.ptype _ rfl hlink
  · congr 1
    apply propext
    constructor <;> intro <;> omega
  · intro hos; subst hos; right; rw [dot1q_tagFor_eq, headTag_nil]; exact classOfEther_zero
  · intro p hos; subst hos; rw [dot1q_tagFor_eq, headTag_raw]
  · intro y r hos hy; subst hos; rw [dot1q_tagFor_eq]; exact headTag_tier ps y r _ _ hy
  · intro p hos; subst hos
    exact dot1q_view q _ false _ (fun _ => by rw [dot1q_tagFor_eq, headTag_raw])
  · exact hnil
  · exact hraw
  · exact hpos

theorem snap_view (s : Snap) (t : Nat) (b : Bool) (h : b = true → t = s.ethType) :
    layerView b (.l2 (.snap { s with ethType := t })) = layerView b (.l2 (.snap s)) := by
  cases b with
  | false => simp [layerView, AnyObj.info, info, Snap.fields, Fields.view]
  | true => rw [h rfl]

/-- **SNAP step** (SNAP is never below a padding layer: no padding behind it) -/
theorem snap_step (ps : List LayerInfo) (s : Snap) (os : List AnyObj) (hwf : s.WF) (hlink : Link (.snap s) (next os))
    (region io : Bytes) (hlen : region.length = 8 + (cxOf ps os).innerSize)
    (hio : region.drop 8 = io) (hiol : io.length = (cxOf ps os).innerSize)
    (hnil : os = [] → io = []) (hraw : ∀ p, os = [.raw p] → io = p) (hpos : ∀ y r, os = .l2 y :: r → 0 < io.length) :
    ∃ out s' inner, s.write (cxOf ps os) region = .ok out ∧ out.length = region.length ∧
      Snap.parse out = .ok (s', inner) ∧
      layerView false (.l2 (.snap s')) = layerView false (.l2 (.snap s)) ∧
      Obj.snap s' = wr (cxOf ps os) (.snap s) ∧
      StepInner (.snap s) (.snap s') os io 0 inner := by
  rcases snap_reparse (cxOf ps os) s hwf region (by omega) with ⟨out, hw, hl, hp⟩
  rw [hio] at hp
  refine ⟨out, _, _, hw, hl, hp, snap_view s _ false (fun h => by cases h), rfl, ?_⟩
  apply ether_stepInner _ _ os io _ (Snap.tagFor (cxOf ps os) s) s.ethType _ rfl hlink
  · simp only [List.replicate_zero, List.append_nil, Nat.add_zero]
    congr 1
    apply propext
    constructor <;> intro <;> omega
  · intro _; left; rfl
  · intro p hos; subst hos; rw [snap_tagFor_eq, headTag_raw]
  · intro y r hos hy; subst hos; rw [snap_tagFor_eq]; exact headTag_tier ps y r _ _ hy
  · intro p hos; subst hos
    exact snap_view s _ _ (fun _ => by rw [snap_tagFor_eq, headTag_raw])
  · exact hnil
  · exact hraw
  · exact hpos

theorem sll_view (s : Sll) (t : Nat) (b : Bool) (h : b = true → t = s.protocol) :
    layerView b (.l2 (.sll { s with protocol := t })) = layerView b (.l2 (.sll s)) := by
  cases b with
  | false => simp [layerView, AnyObj.info, info, Sll.fields, Fields.view]
  | true => rw [h rfl]

/-- **SLL step** -/
theorem sll_step (ps : List LayerInfo) (s : Sll) (os : List AnyObj) (hwf : s.WF) (hlink : Link (.sll s) (next os))
    (region io : Bytes) (hlen : region.length = 16 + (cxOf ps os).innerSize)
    (hio : region.drop 16 = io) (hiol : io.length = (cxOf ps os).innerSize)
    (hnil : os = [] → io = []) (hraw : ∀ p, os = [.raw p] → io = p) (hpos : ∀ y r, os = .l2 y :: r → 0 < io.length) :
    ∃ out s' inner, s.write (cxOf ps os) region = .ok out ∧ out.length = region.length ∧
      Sll.parse out = .ok (s', inner) ∧
      layerView false (.l2 (.sll s')) = layerView false (.l2 (.sll s)) ∧
      Obj.sll s' = wr (cxOf ps os) (.sll s) ∧
      StepInner (.sll s) (.sll s') os io 0 inner := by
  rcases sll_reparse (cxOf ps os) s hwf region (by omega) with ⟨out, hw, hl, hp⟩
  rw [hio] at hp
  refine ⟨out, _, _, hw, hl, hp, sll_view s _ false (fun h => by cases h), rfl, ?_⟩
  apply ether_stepInner _ _ os io _ (Sll.tagFor (cxOf ps os) s) s.protocol _ rfl hlink
  · simp only [List.replicate_zero, List.append_nil, Nat.add_zero]
    congr 1
    apply propext
    constructor <;> intro <;> omega
  · intro _; left; rfl
  · intro p hos; subst hos; rw [sll_tagFor_eq, headTag_raw]
  · intro y r hos hy; subst hos; rw [sll_tagFor_eq]; exact headTag_tier ps y r _ _ hy
  · intro p hos; subst hos
    exact sll_view s _ _ (fun _ => by rw [sll_tagFor_eq, headTag_raw])
  · exact hnil
  · exact hraw
  · exact hpos

/-! ### Dot3, LLC, Loopback (never below a padding layer) -/

theorem dot3_view (d : Dot3) (n : Nat) (b : Bool) :
    layerView b (.l2 (.dot3 { d with len := n })) = layerView b (.l2 (.dot3 d)) := by
  simp [layerView, AnyObj.info, info, Dot3.fields, Fields.view]

/-- **Dot3 step** -/
theorem dot3_step (ps : List LayerInfo) (d : Dot3) (os : List AnyObj) (hwf : d.WF) (hlink : Link (.dot3 d) (next os))
    (region io : Bytes) (hlen : region.length = 14 + (cxOf ps os).innerSize)
    (hio : region.drop 14 = io) (hiol : io.length = (cxOf ps os).innerSize)
    (hpos : ∀ y r, os = .l2 y :: r → 0 < io.length) :
    ∃ out d' inner, d.write (cxOf ps os) region = .ok out ∧ out.length = region.length ∧
      Dot3.parse out = .ok (d', inner) ∧
      layerView false (.l2 (.dot3 d')) = layerView false (.l2 (.dot3 d)) ∧
      Obj.dot3 d' = wr (cxOf ps os) (.dot3 d) ∧
      StepInner (.dot3 d) (.dot3 d') os io 0 inner := by
  rcases dot3_reparse (cxOf ps os) d hwf region (by omega) with ⟨out, hw, hl, hp⟩
  rw [hio] at hp
  refine ⟨out, _, _, hw, hl, hp, dot3_view d _ false, rfl, ?_⟩
  unfold StepInner
  cases hn : next os with
  | none =>
    have hos := next_none hn; subst hos
    have h0 : (cxOf ps []).innerSize = 0 := rfl
    have : ¬ region.length > 14 := by omega
    exact .inl ⟨by simp [this], rfl⟩
  | raw p => rw [hn] at hlink; simp [Link] at hlink
  | l2 y r =>
    have hos := next_l2 hn
    rw [hn] at hlink
    cases y <;> simp [Link] at hlink
    have := hpos _ r hos
    have h1 : region.length > 14 := by omega
    simp [h1, info]
  | bad => rw [hn] at hlink; simp [Link] at hlink

theorem llc_fields_of_view (l l' : Llc) (h : l'.view = l.view) : l'.fields = l.fields := by
  simp only [Llc.view, Prod.mk.injEq] at h
  obtain ⟨h1, h2, h3, h4, h5, h6, h7, h8⟩ := h
  simp only [Llc.fields, h1, h2, h3, h4, h5, h6, h7, h8]

theorem llc_view (l : Llc) (b : Bool) : layerView b (.l2 (.llc l.normal)) = layerView b (.l2 (.llc l)) := by
  simp only [layerView, AnyObj.info, info, llc_fields_of_view l l.normal (Llc.normal_view l)]

theorem cxOf_innerCls_nil (ps : List LayerInfo) : (cxOf ps []).innerCls = none := rfl
theorem cxOf_innerCls_raw (ps : List LayerInfo) (p : Bytes) : (cxOf ps [.raw p]).innerCls = some "RawPDU" := rfl
theorem cxOf_innerCls_l2 (ps : List LayerInfo) (y : Obj) (r : List AnyObj) :
    (cxOf ps (.l2 y :: r)).innerCls = some (info y).1 := rfl

/-- **LLC step** (objects without XID information fields: KF-C04-L2-1) -/
theorem llc_step (ps : List LayerInfo) (l : Llc) (os : List AnyObj) (hinv : l.Inv) (hlink : Link (.llc l) (next os))
    (region io : Bytes) (hlen : region.length = l.hdr + (cxOf ps os).innerSize)
    (hio : region.drop l.hdr = io)
    (hnil : os = [] → io = []) (hraw : ∀ p, os = [.raw p] → io = p) :
    ∃ out l' inner, l.write (cxOf ps os) region = .ok out ∧ out.length = region.length ∧
      Llc.parse out = .ok (l', inner) ∧
      layerView false (.l2 (.llc l')) = layerView false (.l2 (.llc l)) ∧
      Obj.llc l' = wr (cxOf ps os) (.llc l) ∧
      StepInner (.llc l) (.llc l') os io 0 inner := by
  cases hn : next os with
  | none =>
    have hos := next_none hn; subst hos
    rw [hn] at hlink
    have hno : l.infos = [] := by simpa [Link] using hlink
    rcases llc_api_reparse_partial (cxOf ps []) l hinv hno region (by omega) with ⟨out, hw, hl, hp⟩
    rw [hio, llc_written_id _ l (by rw [cxOf_innerCls_nil]; simp), hnil rfl] at hp
    refine ⟨out, _, _, hw, hl, hp, llc_view l false, rfl, ?_⟩
    unfold StepInner
    rw [hn]
    exact .inl ⟨by simp [Llc.innerFor], rfl⟩
  | raw p =>
    have hos := next_raw hn; subst hos
    rw [hn] at hlink
    have hl2 : l.infos = [] ∧ ¬ (l.dsap = 0x42 ∧ l.ssap = 0x42) := by simpa [Link] using hlink
    rcases llc_api_reparse_partial (cxOf ps [.raw p]) l hinv hl2.1 region (by omega) with ⟨out, hw, hl, hp⟩
    rw [hio, llc_written_id _ l (by rw [cxOf_innerCls_raw]; decide), hraw p rfl] at hp
    refine ⟨out, _, _, hw, hl, hp, llc_view l false, rfl, ?_⟩
    unfold StepInner
    rw [hn]
    refine ⟨llc_view l _, ?_⟩
    rw [show padTo (Obj.llc l) 0 = 0 from rfl]
    simp only [List.replicate_zero, List.append_nil, Llc.innerFor]
    by_cases hp0 : p.length > 0
    · right
      have : (l.dsap == 0x42 && l.ssap == 0x42) = false := by
        simp only [Bool.and_eq_false_imp, beq_iff_eq]
        intro h1; simp only [beq_eq_false_iff_ne]; intro h2; exact hl2.2 ⟨h1, h2⟩
      simp [hp0, this]
    · left
      have : p = [] := List.eq_nil_of_length_eq_zero (by omega)
      subst this; simp
  | l2 y r => rw [hn] at hlink; simp [Link] at hlink
  | bad => rw [hn] at hlink; simp [Link] at hlink

theorem loopback_view_false (l l' : Loopback) :
    layerView false (.l2 (.loopback l')) = layerView false (.l2 (.loopback l)) := by
  simp [layerView, AnyObj.info, info, Loopback.fields, Fields.view]

theorem loopback_innerFor_raw (f : Nat) (h : LoopRaw f) (b : Bytes) : Loopback.innerFor f b = .raw b := by
  unfold Loopback.innerFor
  have h1 : (f == PF_INET) = false := by simpa using h.1
  have h2 : (f == PF_INET6) = false := by simpa using h.2.1
  have h3 : (f == PF_LLC) = false := by simpa using h.2.2
  simp [h1, h2, h3]

/-- **Loopback step** -/
theorem loopback_step (ps : List LayerInfo) (l : Loopback) (os : List AnyObj) (hwf : l.WF)
    (hlink : Link (.loopback l) (next os)) (region io : Bytes) (hlen : region.length = 4 + (cxOf ps os).innerSize)
    (hio : region.drop 4 = io) (hnil : os = [] → io = []) (hraw : ∀ p, os = [.raw p] → io = p) :
    ∃ out l' inner, l.write (cxOf ps os) region = .ok out ∧ out.length = region.length ∧
      Loopback.parse out = .ok (l', inner) ∧
      layerView false (.l2 (.loopback l')) = layerView false (.l2 (.loopback l)) ∧
      Obj.loopback l' = wr (cxOf ps os) (.loopback l) ∧
      StepInner (.loopback l) (.loopback l') os io 0 inner := by
  rcases loopback_reparse (cxOf ps os) l hwf region (by omega) with ⟨out, hw, hl, hp⟩
  rw [hio] at hp
  refine ⟨out, _, _, hw, hl, hp, loopback_view_false _ _, rfl, ?_⟩
  unfold StepInner
  cases hn : next os with
  | none =>
    have hos := next_none hn; subst hos
    rw [hn] at hlink
    have hr : LoopRaw l.family := by simpa [Link] using hlink
    rw [loopback_family_kept _ l (by rw [cxOf_innerCls_nil]; simp), loopback_innerFor_raw _ hr, hnil rfl]
    exact .inr rfl
  | raw p =>
    have hos := next_raw hn; subst hos
    rw [hn] at hlink
    have hr : LoopRaw l.family := by simpa [Link] using hlink
    rw [loopback_family_kept _ l (by rw [cxOf_innerCls_raw]; decide), loopback_innerFor_raw _ hr, hraw p rfl]
    exact ⟨rfl, .inr (by simp [padTo, isPppoe])⟩
  | l2 y r =>
    have hos := next_l2 hn; subst hos
    rw [hn] at hlink
    cases y <;> simp [Link] at hlink
    rename_i z
    have hf : Loopback.familyFor (cxOf ps (.l2 (.llc z) :: r)) l = PF_LLC := by
      simp [Loopback.familyFor, cxOf_innerCls_l2, info]
    rw [hf]
    simp [Loopback.innerFor, info, PF_LLC, PF_INET, PF_INET6]
  | bad => rw [hn] at hlink; simp [Link] at hlink

/-! ### MPLS and PPPoE (may sit below EthernetII / Dot1Q: padding can follow) -/

theorem cxOf_innerSize_nil (ps : List LayerInfo) : (cxOf ps []).innerSize = 0 := rfl
theorem cxOf_innerSize_raw (ps : List LayerInfo) (p : Bytes) : (cxOf ps [.raw p]).innerSize = p.length := by
  simp [Ctx.innerSize, cxOf, infos, AnyObj.hdr, AnyObj.trl]

theorem byteAt_append_zeros (p : Bytes) (k : Nat) : byteAt (p ++ List.replicate k 0) 0 = byteAt p 0 := by
  cases p with
  | nil => cases k <;> rfl
  | cons a t => rfl

/-- `mpls_reparse` with the bytes of an outer layer's padding behind the region -/
theorem mpls_reparse_junk (cx : Ctx) (m : Mpls) (h : m.WF) (region : Bytes) (hr : 4 ≤ region.length) (junk : Bytes) :
    ∃ out, m.write cx region = .ok out ∧ out.length = region.length ∧
      Mpls.parse (out ++ junk) = .ok (Mpls.written cx m,
        if region.length + junk.length > 4 then (Mpls.written cx m).innerFor (region.drop 4 ++ junk) else .none) := by
  rcases writeAtStart_ok region _ 4 (mpls_headerBytes_length (Mpls.written cx m)) hr with ⟨hw, hlen, ht, hd⟩
  refine ⟨_, by rw [mpls_write_eq]; exact hw, hlen, ?_⟩
  have hb := mpls_headerBytes_length (Mpls.written cx m)
  rw [mpls_parse_eq, List.length_append, hlen, List.append_assoc, take_append_len _ _ 4 hb, drop_append_len _ _ 4 hb,
    mpls_ofHeader_headerBytes _ (mpls_written_wf cx m h)]
  have h1 : ¬ region.length + junk.length < 4 := by omega
  simp only [h1, if_false]

theorem mpls_view_false (cx : Ctx) (m : Mpls) (h : m.WF) :
    layerView false (.l2 (.mpls (Mpls.written cx m))) = layerView false (.l2 (.mpls m)) := by
  have hv := mpls_written_view cx m h
  simp only [Mpls.view, Prod.mk.injEq] at hv
  simp [layerView, AnyObj.info, info, Mpls.fields, Fields.view, hv.1, hv.2.1, hv.2.2]

theorem mpls_written_of_bottom (cx : Ctx) (m : Mpls) (h : m.bottomOfStack = 1) : Mpls.written cx m = m := by
  unfold Mpls.written
  split
  · cases m with
    | mk lh b2 ttl =>
      simp only [Mpls.bottomOfStack] at h
      simp only [Mpls.mk.injEq, true_and, and_true]
      omega
  · rfl

/-- **MPLS step**: `k` zero bytes may follow, provided the label is not the outermost layer (`write_serialization` then
    sets the bottom-of-stack bit of the last label, so the padding is not taken for another label) -/
theorem mpls_step (ps : List LayerInfo) (m : Mpls) (os : List AnyObj) (hwf : m.WF) (hlink : Link (.mpls m) (next os))
    (region io : Bytes) (k : Nat) (hk : k = 0 ∨ ps ≠ []) (hlen : region.length = 4 + (cxOf ps os).innerSize)
    (hio : region.drop 4 = io) (hiol : io.length = (cxOf ps os).innerSize)
    (hnil : os = [] → io = []) (hraw : ∀ p, os = [.raw p] → io = p) (hpos : ∀ y r, os = .l2 y :: r → 0 < io.length) :
    ∃ out m' inner, m.write (cxOf ps os) region = .ok out ∧ out.length = region.length ∧
      Mpls.parse (out ++ List.replicate k 0) = .ok (m', inner) ∧
      layerView false (.l2 (.mpls m')) = layerView false (.l2 (.mpls m)) ∧
      Obj.mpls m' = wr (cxOf ps os) (.mpls m) ∧
      StepInner (.mpls m) (.mpls m') os io k inner := by
  rcases mpls_reparse_junk (cxOf ps os) m hwf region (by omega) (List.replicate k 0) with ⟨out, hw, hl, hp⟩
  rw [hio, List.length_replicate] at hp
  refine ⟨out, _, _, hw, hl, hp, mpls_view_false _ m hwf, rfl, ?_⟩
  unfold StepInner
  rw [show padTo (Obj.mpls m) k = k from rfl]
  cases hn : next os with
  | none =>
    have hos := next_none hn; subst hos
    have hio0 := hnil rfl; subst hio0
    have h0 := cxOf_innerSize_nil ps
    by_cases hk0 : k = 0
    · subst hk0
      have : ¬ region.length + 0 > 4 := by omega
      left; exact ⟨if_neg this, rfl⟩
    · have hps : ps ≠ [] := by rcases hk with h | h; exact absurd h hk0; exact h
      have hgt : region.length + k > 4 := by omega
      have hwr : Mpls.written (cxOf ps []) m = { m with b2 := m.b2 / 2 * 2 + 1 } := by
        have : ps.isEmpty = false := by cases ps with | nil => exact absurd rfl hps | cons a t => rfl
        simp [Mpls.written, cxOf, this, Ctx.innerCls, infos]
      right
      rw [if_pos hgt, hwr]
      have hb : ({ m with b2 := m.b2 / 2 * 2 + 1 } : Mpls).bottomOfStack = 1 := by
        simp only [Mpls.bottomOfStack]; omega
      have hz : byteAt (List.replicate k (0 : UInt8)) 0 = 0 := by cases k <;> rfl
      simp only [List.nil_append, Mpls.innerFor, hb, beq_self_eq_true, if_true, hz]
      rfl
  | raw p =>
    have hos := next_raw hn; subst hos
    have hio0 := hraw p rfl; subst hio0
    rw [hn] at hlink
    have hl3 : m.bottomOfStack = 1 ∧ byteAt io 0 / 16 ≠ 4 ∧ byteAt io 0 / 16 ≠ 6 := by simpa [Link] using hlink
    rw [mpls_written_of_bottom _ m hl3.1] at hp ⊢
    refine ⟨rfl, ?_⟩
    have hsz := cxOf_innerSize_raw ps io
    by_cases hgt : region.length + k > 4
    · right
      simp only [hgt, if_true, Mpls.innerFor, hl3.1, beq_self_eq_true, byteAt_append_zeros]
      have h4 : (byteAt io 0 / 16 == 4) = false := by simpa using hl3.2.1
      have h6 : (byteAt io 0 / 16 == 6) = false := by simpa using hl3.2.2
      simp [h4, h6]
    · left
      have h1 : io.length = 0 := by omega
      have h2 : k = 0 := by omega
      have h3 : io = [] := List.eq_nil_of_length_eq_zero h1
      subst h2; subst h3
      exact ⟨if_neg hgt, rfl⟩
  | l2 y r =>
    have hos := next_l2 hn
    rw [hn] at hlink
    cases y <;> simp [Link] at hlink
    rename_i m2
    subst hos
    have := hpos _ r rfl
    have hgt : region.length + k > 4 := by omega
    have hwr : Mpls.written (cxOf ps (.l2 (.mpls m2) :: r)) m = m := by
      simp [Mpls.written, cxOf_innerCls_l2, info]
    rw [hwr]
    simp [hgt, Mpls.innerFor, hlink, info, EtherTier]
  | bad => rw [hn] at hlink; simp [Link] at hlink

theorem pppoe_view (p : PPPoE) (n : Nat) (b : Bool) :
    layerView b (.l2 (.pppoe { p with payloadLength := n })) = layerView b (.l2 (.pppoe p)) := by
  simp [layerView, AnyObj.info, info, PPPoE.fields, Fields.view, PPPoE.typedGetter, PPPoE.searchTag, PPPoE.vendorGetter]

/-- **PPPoE step**: whatever padding follows the frame is cut off by the payload length `write_serialization` stores -/
theorem pppoe_step (ps : List LayerInfo) (p : PPPoE) (os : List AnyObj) (hinv : p.Inv) (hlink : Link (.pppoe p) (next os))
    (region io : Bytes) (k : Nat) (hlen : region.length = p.hdr + (cxOf ps os).innerSize)
    (hio : region.drop p.hdr = io) (hraw : ∀ b, os = [.raw b] → io = b) :
    ∃ out p' inner, p.write (cxOf ps os) region = .ok out ∧ out.length = region.length ∧
      PPPoE.parse (out ++ List.replicate k 0) = .ok (p', inner) ∧
      layerView false (.l2 (.pppoe p')) = layerView false (.l2 (.pppoe p)) ∧
      Obj.pppoe p' = wr (cxOf ps os) (.pppoe p) ∧
      StepInner (.pppoe p) (.pppoe p') os io k inner := by
  have hsession : p.tags = [] → p.hdr = 6 := by
    intro ht; simp [PPPoE.hdr, hinv.size, ht, PPPoE.tagsLen]
  cases hn : next os with
  | none =>
    have hos := next_none hn; subst hos
    rw [hn] at hlink
    have hl2 : (p.code = 0 → p.tags = []) ∧ p.tagsSize < 65536 := by simpa [Link] using hlink
    have h0 := cxOf_innerSize_nil ps
    unfold StepInner
    rw [hn]
    by_cases hc : p.code = 0
    · have h6 := hsession (hl2.1 hc)
      rcases pppoe_reparse_session (cxOf ps []) p hinv hc (hl2.1 hc) (by omega) region (by omega) (List.replicate k 0) with
        ⟨out, hw, hl, hp⟩
      rw [h0] at hp
      exact ⟨out, _, _, hw, hl, hp, pppoe_view p _ false, by simp [wr, hc, h0], .inl ⟨by simp, rfl⟩⟩
    · rcases pppoe_reparse_discovery (cxOf ps []) p hinv hc hl2.2 rfl region (by omega) (List.replicate k 0) with
        ⟨out, hw, hl, hp⟩
      exact ⟨out, _, _, hw, hl, hp, pppoe_view p _ false, by simp [wr, hc], .inl ⟨rfl, rfl⟩⟩
  | raw b =>
    have hos := next_raw hn; subst hos
    rw [hn] at hlink
    have hl3 : p.code = 0 ∧ p.tags = [] ∧ b.length < 65536 := by simpa [Link] using hlink
    have hsz := cxOf_innerSize_raw ps b
    have h6 := hsession hl3.2.1
    unfold StepInner
    rw [hn]
    rcases pppoe_reparse_session (cxOf ps [.raw b]) p hinv hl3.1 hl3.2.1 (by omega) region (by omega) (List.replicate k 0) with
      ⟨out, hw, hl, hp⟩
    rw [← h6, hio] at hp
    refine ⟨out, _, _, hw, hl, hp, pppoe_view p _ false, by simp [wr, hl3.1], pppoe_view p _ _, ?_⟩
    rw [show padTo (Obj.pppoe p) k = 0 from rfl]
    have hb := hraw b rfl
    subst hb
    rw [hsz]
    by_cases hpos : io.length > 0
    · right; simp [hpos]
    · left
      have : io = [] := List.eq_nil_of_length_eq_zero (by omega)
      subst this; simp
  | l2 y r => rw [hn] at hlink; simp [Link] at hlink
  | bad => rw [hn] at hlink; simp [Link] at hlink

/-! ### all classes: the step over the family interface the registry uses -/

private theorem parseOne_of {α} (cls : String) (b : Bytes) (pr : Bytes → Out (α × Inner)) (mk : α → Obj) (a : α) (i : Inner)
    (hc : L2.parse cls b = (pr b >>= fun (e, i) => pure (mk e, i))) (hr : (cls == "RawPDU") = false)
    (hm : L2.classes.contains cls = true) (h : pr b = .ok (a, i)) :
    parseOne cls b = .ok (.l2 (mk a), i) := by
  unfold parseOne
  rw [if_neg (by rw [hr]; exact Bool.false_ne_true), if_pos hm, hc, h]
  rfl

theorem parseOne_eth (b : Bytes) (e : Eth) (i : Inner) (h : Eth.parse b = .ok (e, i)) :
    parseOne "EthernetII" b = .ok (.l2 (.eth e), i) := parseOne_of _ b Eth.parse .eth e i rfl (by decide) (by decide) h
theorem parseOne_dot3 (b : Bytes) (e : Dot3) (i : Inner) (h : Dot3.parse b = .ok (e, i)) :
    parseOne "Dot3" b = .ok (.l2 (.dot3 e), i) := parseOne_of _ b Dot3.parse .dot3 e i rfl (by decide) (by decide) h
theorem parseOne_llc (b : Bytes) (e : Llc) (i : Inner) (h : Llc.parse b = .ok (e, i)) :
    parseOne "LLC" b = .ok (.l2 (.llc e), i) := parseOne_of _ b Llc.parse .llc e i rfl (by decide) (by decide) h
theorem parseOne_snap (b : Bytes) (e : Snap) (i : Inner) (h : Snap.parse b = .ok (e, i)) :
    parseOne "SNAP" b = .ok (.l2 (.snap e), i) := parseOne_of _ b Snap.parse .snap e i rfl (by decide) (by decide) h
theorem parseOne_dot1q (b : Bytes) (e : Dot1Q) (i : Inner) (h : Dot1Q.parse b = .ok (e, i)) :
    parseOne "Dot1Q" b = .ok (.l2 (.dot1q e), i) := parseOne_of _ b Dot1Q.parse .dot1q e i rfl (by decide) (by decide) h
theorem parseOne_mpls (b : Bytes) (e : Mpls) (i : Inner) (h : Mpls.parse b = .ok (e, i)) :
    parseOne "MPLS" b = .ok (.l2 (.mpls e), i) := parseOne_of _ b Mpls.parse .mpls e i rfl (by decide) (by decide) h
theorem parseOne_pppoe (b : Bytes) (e : PPPoE) (i : Inner) (h : PPPoE.parse b = .ok (e, i)) :
    parseOne "PPPoE" b = .ok (.l2 (.pppoe e), i) := parseOne_of _ b PPPoE.parse .pppoe e i rfl (by decide) (by decide) h
theorem parseOne_sll (b : Bytes) (e : Sll) (i : Inner) (h : Sll.parse b = .ok (e, i)) :
    parseOne "SLL" b = .ok (.l2 (.sll e), i) := parseOne_of _ b Sll.parse .sll e i rfl (by decide) (by decide) h
theorem parseOne_loopback (b : Bytes) (e : Loopback) (i : Inner) (h : Loopback.parse b = .ok (e, i)) :
    parseOne "Loopback" b = .ok (.l2 (.loopback e), i) :=
  parseOne_of _ b Loopback.parse .loopback e i rfl (by decide) (by decide) h

theorem take_drop_full (region : Bytes) (h n : Nat) (hl : region.length = h + n) : (region.drop h).take n = region.drop h :=
  List.take_of_length_le (by simp only [List.length_drop]; omega)

/-- **the one-layer step of whole-packet C03, every class of the family**: layer `x` (invariant, linked to what follows
    it in the stack `os`) is written around the bytes `io` of its inner chain into the region `PDU::serialize` hands it;
    parsing the result followed by `k` zero bytes (padding of an outer layer; only below EthernetII / Dot1Q, i.e. for
    Dot1Q / MPLS / PPPoE with a parent) gives a layer `x'` of the same class with the same view, and the decision about
    the inner PDU described by `StepInner`: the class that follows in `os` on `io` plus padding, or the end of the stack -/
theorem l2_step (ps : List LayerInfo) (x : Obj) (os : List AnyObj) (hinv : ObjInv x) (hlink : Link x (next os))
    (k : Nat) (hk : k = 0 ∨ (ps ≠ [] ∧ EtherTier x)) (region io : Bytes)
    (hlen : region.length = hdr x + (cxOf ps os).innerSize + trl x (cxOf ps os).innerSize)
    (hio : (region.drop (hdr x)).take (cxOf ps os).innerSize = io) (hiol : io.length = (cxOf ps os).innerSize)
    (hnil : os = [] → io = []) (hraw : ∀ p, os = [.raw p] → io = p) (hpos : ∀ y r, os = .l2 y :: r → 0 < io.length) :
    ∃ out x' inner, write (cxOf ps os) x region = .ok out ∧ out.length = region.length ∧
      parseOne (info x).1 (out ++ List.replicate k 0) = .ok (.l2 x', inner) ∧
      layerView false (.l2 x') = layerView false (.l2 x) ∧ x' = wr (cxOf ps os) x ∧
      StepInner x x' os io (trl x (cxOf ps os).innerSize + k) inner := by
  have hk0 : ¬ EtherTier x → k = 0 := fun hn => by rcases hk with h | h; exact h; exact absurd h.2 hn
  cases x with
  | eth e =>
    have := hk0 (by simp [EtherTier]); subst this
    rcases eth_step ps e os hinv hlink region io hlen hio hnil hraw with ⟨out, e', inner, hw, hl, hp, hv, he, hs⟩
    exact ⟨out, .eth e', inner, hw, hl, by rw [List.replicate_zero, List.append_nil]; exact parseOne_eth _ _ _ hp, hv, he, hs⟩
  | dot3 d =>
    have := hk0 (by simp [EtherTier]); subst this
    simp only [hdr, trl, Nat.add_zero] at hlen hio
    rw [take_drop_full region 14 _ hlen] at hio
    rcases dot3_step ps d os hinv hlink region io hlen hio hiol hpos with ⟨out, e', inner, hw, hl, hp, hv, he, hs⟩
    exact ⟨out, .dot3 e', inner, hw, hl, by rw [List.replicate_zero, List.append_nil]; exact parseOne_dot3 _ _ _ hp, hv, he, hs⟩
  | llc l =>
    have := hk0 (by simp [EtherTier]); subst this
    simp only [hdr, trl, Nat.add_zero] at hlen hio
    rw [take_drop_full region l.hdr _ hlen] at hio
    rcases llc_step ps l os hinv hlink region io hlen hio hnil hraw with ⟨out, e', inner, hw, hl, hp, hv, he, hs⟩
    exact ⟨out, .llc e', inner, hw, hl, by rw [List.replicate_zero, List.append_nil]; exact parseOne_llc _ _ _ hp, hv, he, hs⟩
  | snap s =>
    have := hk0 (by simp [EtherTier]); subst this
    simp only [hdr, trl, Nat.add_zero] at hlen hio
    rw [take_drop_full region 8 _ hlen] at hio
    rcases snap_step ps s os hinv hlink region io hlen hio hiol hnil hraw hpos with ⟨out, e', inner, hw, hl, hp, hv, he, hs⟩
    exact ⟨out, .snap e', inner, hw, hl, by rw [List.replicate_zero, List.append_nil]; exact parseOne_snap _ _ _ hp, hv, he, hs⟩
  | dot1q q =>
    rcases dot1q_step ps q os hinv hlink region io k hlen hio hiol hnil hraw hpos with ⟨out, e', inner, hw, hl, hp, hv, he, hs⟩
    exact ⟨out, .dot1q e', inner, hw, hl, parseOne_dot1q _ _ _ hp, hv, he, hs⟩
  | mpls m =>
    simp only [hdr, trl, Nat.add_zero] at hlen hio
    rw [take_drop_full region 4 _ hlen] at hio
    rcases mpls_step ps m os hinv hlink region io k (by rcases hk with h | h; exact .inl h; exact .inr h.1) hlen hio hiol
      hnil hraw hpos with ⟨out, e', inner, hw, hl, hp, hv, he, hs⟩
    exact ⟨out, .mpls e', inner, hw, hl, parseOne_mpls _ _ _ hp, hv, he, by simpa [trl] using hs⟩
  | pppoe p =>
    simp only [hdr, trl, Nat.add_zero] at hlen hio
    rw [take_drop_full region p.hdr _ hlen] at hio
    rcases pppoe_step ps p os hinv hlink region io k hlen hio hraw with ⟨out, e', inner, hw, hl, hp, hv, he, hs⟩
    exact ⟨out, .pppoe e', inner, hw, hl, parseOne_pppoe _ _ _ hp, hv, he, by simpa [trl] using hs⟩
  | sll s =>
    have := hk0 (by simp [EtherTier]); subst this
    simp only [hdr, trl, Nat.add_zero] at hlen hio
    rw [take_drop_full region 16 _ hlen] at hio
    rcases sll_step ps s os hinv hlink region io hlen hio hiol hnil hraw hpos with ⟨out, e', inner, hw, hl, hp, hv, he, hs⟩
    exact ⟨out, .sll e', inner, hw, hl, by rw [List.replicate_zero, List.append_nil]; exact parseOne_sll _ _ _ hp, hv, he, hs⟩
  | loopback l =>
    have := hk0 (by simp [EtherTier]); subst this
    simp only [hdr, trl, Nat.add_zero] at hlen hio
    rw [take_drop_full region 4 _ hlen] at hio
    rcases loopback_step ps l os hinv hlink region io hlen hio hnil hraw with ⟨out, e', inner, hw, hl, hp, hv, he, hs⟩
    exact ⟨out, .loopback e', inner, hw, hl, by rw [List.replicate_zero, List.append_nil]; exact parseOne_loopback _ _ _ hp, hv, he, hs⟩
  | ppi p => cases hn : next os <;> rw [hn] at hlink <;> simp [Link] at hlink
  | pktap p => cases hn : next os <;> rw [hn] at hlink <;> simp [Link] at hlink

end Tins.Wire.L2
