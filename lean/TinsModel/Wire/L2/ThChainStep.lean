import TinsModel.Wire.L2.ThChainView
/-
  Whole-packet C03, part 2: what the protocols can express (`Stackable`) and the one-layer step of the whole-packet
  theorem — for every class of the family: writing the layer around the bytes `io` its inner chain produced and parsing
  the result (followed by `k` zero bytes of an outer layer's minimum-frame padding) gives the same layer back, with the
  tag libtins derives, and hands `io` (plus the padding) to the constructor of the class that follows in the stack, or
  to RawPDU / to nobody at the end of the stack (`l2_step`).
-/
namespace Tins.Wire.L2
open Tins Tins.Wire

/-- what follows a layer in a stack -/
inductive Next
  | none                                   -- the stack ends here
  | raw (p : Bytes)                        -- a final RawPDU
  | l2 (y : Obj) (r : List AnyObj)         -- another layer of the family
  | bad                                    -- anything else

def next : List AnyObj → Next
  | [] => .none
  | [.raw p] => .raw p
  | .l2 y :: r => .l2 y r
  | _ => .bad

theorem next_none {os : List AnyObj} (h : next os = .none) : os = [] := by
  unfold next at h; split at h <;> cases h <;> rfl
theorem next_raw {os : List AnyObj} {p : Bytes} (h : next os = .raw p) : os = [.raw p] := by
  unfold next at h; split at h <;> cases h <;> rfl
theorem next_l2 {os : List AnyObj} {y : Obj} {r : List AnyObj} (h : next os = .l2 y r) : os = .l2 y :: r := by
  unfold next at h; split at h <;> cases h <;> rfl

/-- classes an EtherType can name and that can carry minimum-frame padding behind them -/
def EtherTier : Obj → Prop
  | .dot1q _ => True
  | .mpls _ => True
  | .pppoe _ => True
  | _ => False

def etherLink (tag : Nat) : Next → Prop
  | .none => True
  | .raw _ => Tags.classOfEther tag = none
  | .l2 y _ => EtherTier y
  | .bad => False

/-- Loopback families the parser does not dispatch on -/
def LoopRaw (f : Nat) : Prop := f ≠ PF_INET ∧ f ≠ PF_INET6 ∧ f ≠ PF_LLC

def Link : Obj → Next → Prop
  | .eth e, n => etherLink e.ptype n
  | .dot1q q, n => etherLink q.ptype n
  | .snap s, n => etherLink s.ethType n
  | .sll s, n => etherLink s.protocol n
  | .dot3 _, .none => True
  | .dot3 _, .l2 (.llc _) _ => True
  | .llc l, .none => l.infos = []
  | .llc l, .raw _ => l.infos = [] ∧ ¬ (l.dsap = 0x42 ∧ l.ssap = 0x42)
  | .loopback l, .none => LoopRaw l.family
  | .loopback l, .raw _ => LoopRaw l.family
  | .loopback _, .l2 (.llc _) _ => True
  | .mpls _, .none => True
  | .mpls m, .raw p => m.bottomOfStack = 1 ∧ byteAt p 0 / 16 ≠ 4 ∧ byteAt p 0 / 16 ≠ 6
  | .mpls m, .l2 (.mpls _) _ => m.bottomOfStack = 0
  | .pppoe p, .none => (p.code = 0 → p.tags = []) ∧ p.tagsSize < 65536
  | .pppoe p, .raw b => p.code = 0 ∧ p.tags = [] ∧ b.length < 65536
  | _, _ => False

def Stackable : List AnyObj → Prop
  | [] => True
  | .raw _ :: r => r = []
  | .l2 x :: r => ObjInv x ∧ Link x (next r) ∧ Stackable r
  | _ :: _ => False


/-- the context `write_serialization` sees for a layer with ancestors `parents` above the stack `os` -/
def cxOf (parents : List LayerInfo) (os : List AnyObj) : Ctx := { parents := parents, inners := infos os }

/-- what a parsing constructor did with the bytes `q` at the end of a stack: no inner PDU when there are none, a RawPDU
    otherwise (Loopback: a RawPDU also on no bytes) -/
def TailInner (inner : Inner) (q : Bytes) : Prop := (inner = .none ∧ q = []) ∨ inner = .raw q

/-- the inner-PDU decision of the re-parse of layer `x` (re-parsed as `x'`) above the stack `os`, whose serialization is
    `io`, when `k'` zero bytes (padding) follow `io` in the buffer -/
def StepInner (x x' : Obj) (os : List AnyObj) (io : Bytes) (k' : Nat) (inner : Inner) : Prop :=
  match next os with
  | .none => ∃ j, j ≤ k' ∧ TailInner inner (List.replicate j 0)
  | .raw p => layerView (!p.isEmpty) (.l2 x') = layerView (!p.isEmpty) (.l2 x) ∧
      ∃ j, j ≤ k' ∧ TailInner inner (p ++ List.replicate j 0)
  | .l2 y _ => inner = .cls (info y).1 (io ++ List.replicate k' 0) false ∧ (k' = 0 ∨ EtherTier y)
  | .bad => False

theorem etherInner_none {t : Nat} (h : Tags.classOfEther t = none) (b : Bytes) : etherInner t b = .raw b := by
  simp [etherInner, h]
theorem etherInner_some {t : Nat} {c : String} (h : Tags.classOfEther t = some c) (b : Bytes) :
    etherInner t b = .cls c b false := by
  simp [etherInner, h]

theorem classOfEther_zero : Tags.classOfEther 0 = none := by decide

theorem etherTier_cls (y : Obj) (h : EtherTier y) : (info y).1 = "Dot1Q" ∨ (info y).1 = "MPLS" ∨ (info y).1 = "PPPoE" := by
  cases y <;> simp [EtherTier] at h <;> simp [info]

theorem cxOf_inners_nil (ps : List LayerInfo) : (cxOf ps []).inners = [] := rfl
theorem cxOf_inners_raw (ps : List LayerInfo) (p : Bytes) :
    (cxOf ps [.raw p]).inners = [⟨"RawPDU", [("payload", toHexStr p)], p.length, 0⟩] := rfl
theorem cxOf_inners_l2 (ps : List LayerInfo) (y : Obj) (r : List AnyObj) :
    (cxOf ps (.l2 y :: r)).inners =
      ⟨(info y).1, (info y).2, hdr y, trl y ((infos r).map (fun l => l.hdr + l.trl)).sum⟩ :: infos r := rfl

theorem etherTagOf_raw (f : Fields) (h t : Nat) : etherTagOf ⟨"RawPDU", f, h, t⟩ = 0 := by
  have hp : Tags.pduTypeOf "RawPDU" = "RAW" := by decide
  have hn : ("RAW" == "PPPOE") = false := by decide
  simp only [etherTagOf, hp, hn, Bool.false_eq_true, if_false]
  decide

/-- the tag derived from a Dot1Q / MPLS / PPPoE payload is non-zero and dispatches back to that class -/
theorem etherTagOf_tier (c : String) (hc : c = "Dot1Q" ∨ c = "MPLS" ∨ c = "PPPoE") (f : Fields) (h t : Nat) :
    etherTagOf ⟨c, f, h, t⟩ ≠ 0 ∧ Tags.classOfEther (etherTagOf ⟨c, f, h, t⟩) = some c := by
  have hr := l2_ether_tag_roundtrip c (by rcases hc with rfl | rfl | rfl <;> simp) f h t
  refine ⟨fun h0 => ?_, hr⟩
  rw [h0, classOfEther_zero] at hr
  cases hr

/-- EthernetII's own choice of tag for a Dot1Q / MPLS / PPPoE payload dispatches back to that class -/
theorem eth_tagFor_dispatch (cx : Ctx) (e : Eth) (i : LayerInfo) (rest : List LayerInfo) (hc : cx.inners = i :: rest)
    (h : i.cls = "Dot1Q" ∨ i.cls = "MPLS" ∨ i.cls = "PPPoE") : Tags.classOfEther (Eth.tagFor cx e) = some i.cls := by
  unfold Eth.tagFor
  rw [hc]
  obtain ⟨c, f, hd, tr⟩ := i
  dsimp only at h ⊢
  have hq : Tags.pduTypeOf "Dot1Q" = "DOT1Q" := by decide
  have hm : Tags.pduTypeOf "MPLS" = "MPLS" := by decide
  have hp : Tags.pduTypeOf "PPPoE" = "PPPOE" := by decide
  have d1 : Tags.etherOfPduType "DOT1Q" = 33024 := by decide
  have d2 : Tags.etherOfPduType "MPLS" = 34887 := by decide
  have c1 : Tags.classOfEther 33024 = some "Dot1Q" := by decide
  have c2 : Tags.classOfEther 34984 = some "Dot1Q" := by decide
  have c3 : Tags.classOfEther 34887 = some "MPLS" := by decide
  have c4 : Tags.classOfEther 34916 = some "PPPoE" := by decide
  have c5 : Tags.classOfEther 34915 = some "PPPoE" := by decide
  rcases h with h | h | h <;> subst h
  · have h1 : ("DOT1Q" == "PPPOE") = false := by decide
    simp only [hq, h1, Bool.false_eq_true, if_false, beq_self_eq_true, if_true, d1]
    cases rest.head? with
    | none => simp [c1]
    | some j => dsimp only; split <;> simp [c1, c2]
  · have h1 : ("MPLS" == "PPPOE") = false := by decide
    have h2 : ("MPLS" == "DOT1Q") = false := by decide
    simp [hm, h1, h2, d2, c3]
  · simp only [hp, beq_self_eq_true, if_true]
    split <;> simp [c4, c5]

theorem eth_view_false (e : Eth) (t : Nat) :
    layerView false (.l2 (.eth { e with ptype := t })) = layerView false (.l2 (.eth e)) := by
  simp [layerView, AnyObj.info, info, Eth.fields, Fields.view, List.filter_cons]

/-- **EthernetII step** -/
theorem eth_step (ps : List LayerInfo) (e : Eth) (os : List AnyObj) (hwf : e.WF) (hlink : Link (.eth e) (next os))
    (region io : Bytes) (hlen : region.length = 14 + (cxOf ps os).innerSize + Eth.trl (cxOf ps os).innerSize)
    (hio : (region.drop 14).take (cxOf ps os).innerSize = io) (hnil : os = [] → io = [])
    (hraw : ∀ p, os = [.raw p] → io = p) :
    ∃ out e' inner, e.write (cxOf ps os) region = .ok out ∧ out.length = region.length ∧
      Eth.parse out = .ok (e', inner) ∧ layerView false (.l2 (.eth e')) = layerView false (.l2 (.eth e)) ∧
      StepInner (.eth e) (.eth e') os io (Eth.trl (cxOf ps os).innerSize) inner := by
  rcases eth_reparse (cxOf ps os) e hwf region hlen with ⟨out, hw, hl, hp⟩
  rw [hio] at hp
  refine ⟨out, _, _, hw, hl, hp, eth_view_false e _, ?_⟩
  unfold StepInner
  cases hn : next os with
  | none =>
    have hos := next_none hn; subst hos
    have ht : Eth.tagFor (cxOf ps []) e = 0 := by simp [Eth.tagFor, cxOf_inners_nil]
    rw [ht, etherInner_none classOfEther_zero, hnil rfl]
    exact ⟨_, Nat.le_refl _, .inr (by simp)⟩
  | raw p =>
    have hos := next_raw hn; subst hos
    rw [hn] at hlink
    have hd : Tags.classOfEther e.ptype = none := by simpa [Link, etherLink] using hlink
    have ht : Eth.tagFor (cxOf ps [.raw p]) e = e.ptype :=
      eth_tag_kept _ e _ _ (cxOf_inners_raw ps p) (by show Tags.pduTypeOf "RawPDU" ≠ "PPPOE"; decide)
        (by show Tags.pduTypeOf "RawPDU" ≠ "DOT1Q"; decide)
        (by show Tags.etherOfPduType (Tags.pduTypeOf "RawPDU") = 0; decide)
    rw [ht, etherInner_none hd, hraw p rfl]
    exact ⟨rfl, _, Nat.le_refl _, .inr rfl⟩
  | l2 y r =>
    have hos := next_l2 hn; subst hos
    rw [hn] at hlink
    have hy : EtherTier y := by simpa [Link, etherLink] using hlink
    have hd := eth_tagFor_dispatch (cxOf ps (.l2 y :: r)) e _ _ (cxOf_inners_l2 ps y r) (etherTier_cls y hy)
    rw [etherInner_some hd]
    exact ⟨rfl, .inr hy⟩
  | bad => rw [hn] at hlink; simp [Link, etherLink] at hlink

end Tins.Wire.L2
