import TinsModel.Wire.L2.Lemmas
/- MPLS: C01 parse safety, C02 write region, C03 reparse, C04 setters/getters on the packed header -/
namespace Tins.Wire.L2
open Tins Tins.Wire

namespace Mpls

structure WF (m : Mpls) : Prop where
  labelHigh : m.labelHigh < 65536
  b2 : m.b2 < 256
  ttl : m.ttl < 256

def ofHeader (h : Bytes) : Mpls := ⟨Cursor.beNat (h.take 2), byteAt h 2, byteAt h 3⟩

/-- what the parsing constructor builds on the bytes after the header -/
def innerFor (m : Mpls) (rest : Bytes) : Inner :=
  if m.bottomOfStack == 1 then
    (if byteAt rest 0 / 16 == 4 then .cls "IP" rest false
     else if byteAt rest 0 / 16 == 6 then .cls "IPv6" rest false
     else .raw rest)
  else .cls "MPLS" rest false

/-- the getters other than the bottom-of-stack bit -/
def view (m : Mpls) : Nat × Nat × Nat := (m.label, m.experimental, m.ttl)

end Mpls

theorem mpls_parse_eq (b : Bytes) :
    Mpls.parse b =
      if b.length < 4 then .throw .malformedPacket
      else .ok (Mpls.ofHeader (b.take 4),
                if b.length > 4 then (Mpls.ofHeader (b.take 4)).innerFor (b.drop 4) else .none) := by
  simp only [Mpls.parse, read_ofBytes]
  by_cases h : b.length < 4
  · simp [h, bind, Out.bind]
  · by_cases h2 : b.length > 4
    · have h3 : b.length - 4 > 0 := by omega
      have h4 : 0 < (b.drop 4).length := by simp only [List.length_drop]; omega
      simp only [h, h2, h3, if_false, if_true, bind, Out.bind, toBool_mk, decide_true, peek_first _ _ _ h4,
        rest_after_read, byteAt_take_one, Mpls.innerFor, Mpls.ofHeader]
      split <;> (try split) <;> (try split) <;> simp_all [pure]
    · have : ¬ b.length - 4 > 0 := by omega
      simp [h, h2, this, bind, Out.bind, toBool_mk, pure, Mpls.ofHeader]

/-- **C01 / MPLS** -/
theorem mpls_parse_safe (b : Bytes) : ParseSafe (Mpls.parse b) := by
  rw [mpls_parse_eq]; split
  · exact .malformed
  · exact .ok _

theorem mpls_innerFor_cls (m : Mpls) (rest : Bytes) (name : String) (pb : Bytes) (fb : Bool)
    (h : m.innerFor rest = .cls name pb fb) : pb = rest := by
  unfold Mpls.innerFor at h
  split at h
  · split at h
    · injection h with _ h _; exact h.symm
    · split at h
      · injection h with _ h _; exact h.symm
      · cases h
  · injection h with _ h _; exact h.symm

theorem mpls_parse_consumes (b : Bytes) (m : Mpls) (name : String) (pb : Bytes) (fb : Bool)
    (h : Mpls.parse b = .ok (m, .cls name pb fb)) : pb.length < b.length := by
  rw [mpls_parse_eq] at h
  split at h
  · cases h
  · split at h
    · injection h with h; injection h with _ h
      have := mpls_innerFor_cls _ _ _ _ _ h
      subst this; simp only [List.length_drop]; omega
    · injection h with h; injection h with _ h; cases h

theorem mpls_ofHeader_wf (h : Bytes) (hl : h.length = 4) : (Mpls.ofHeader h).WF := by
  refine ⟨?_, byteAt_lt _ _, byteAt_lt _ _⟩
  have := beNat_lt (h.take 2); simp only [List.length_take, hl] at this; exact this

theorem mpls_parse_wf (b : Bytes) (m : Mpls) (i : Inner) (h : Mpls.parse b = .ok (m, i)) : m.WF := by
  rw [mpls_parse_eq] at h
  split at h
  · cases h
  · injection h with h; injection h with hs _
    subst hs
    exact mpls_ofHeader_wf _ (by simp only [List.length_take]; omega)

theorem mpls_create_wf : Mpls.create.WF := ⟨by decide, by decide, by decide⟩

theorem mpls_headerBytes_length (m : Mpls) : m.headerBytes.length = 4 := by simp [Mpls.headerBytes]

theorem mpls_ofHeader_headerBytes (m : Mpls) (h : m.WF) : Mpls.ofHeader m.headerBytes = m := by
  cases m with
  | mk lh b2 ttl =>
    have h1 := h.labelHigh; have h2 := h.b2; have h3 := h.ttl
    simp only at h1 h2 h3
    simp only [Mpls.ofHeader, Mpls.headerBytes, Mpls.mk.injEq]
    refine ⟨?_, ?_, ?_⟩
    · rw [take_append_len _ _ 2 (by simp), beNat_beBytes]; exact Nat.mod_eq_of_lt (by omega)
    · have : OutCursor.beBytes 2 lh ++ [UInt8.ofNat b2, UInt8.ofNat ttl] =
          [UInt8.ofNat (lh / 256 % 256), UInt8.ofNat (lh % 256), UInt8.ofNat b2, UInt8.ofNat ttl] := by
        simp [OutCursor.beBytes]
      rw [this]; exact ofNat_toNat_lt _ h2
    · have : OutCursor.beBytes 2 lh ++ [UInt8.ofNat b2, UInt8.ofNat ttl] =
          [UInt8.ofNat (lh / 256 % 256), UInt8.ofNat (lh % 256), UInt8.ofNat b2, UInt8.ofNat ttl] := by
        simp [OutCursor.beBytes]
      rw [this]; exact ofNat_toNat_lt _ h3

/-- the header `write_serialization` stores: with a parent and no MPLS below, the bottom-of-stack bit is forced -/
def Mpls.written (cx : Ctx) (m : Mpls) : Mpls :=
  if !cx.parents.isEmpty && cx.innerCls != some "MPLS" then { m with b2 := m.b2 / 2 * 2 + 1 } else m

theorem mpls_written_wf (cx : Ctx) (m : Mpls) (h : m.WF) : (Mpls.written cx m).WF := by
  unfold Mpls.written
  split
  · exact ⟨h.labelHigh, by have := h.b2; simp only; omega, h.ttl⟩
  · exact h

theorem mpls_write_eq (cx : Ctx) (m : Mpls) (region : Bytes) :
    m.write cx region = writeAtStart region (Mpls.written cx m).headerBytes := by
  unfold Mpls.write Mpls.written; rfl

def mplsSem (cx : Ctx) (m : Mpls) : LayerSem := { name := "MPLS", hdr := 4, trl := 0, write := m.write cx }

/-- **C02 / MPLS** -/
theorem mpls_writesOnly (cx : Ctx) (m : Mpls) : WritesOnly (mplsSem cx m) :=
  writesOnly_of_writeAtStart _ 4 _ (Mpls.written cx m).headerBytes (mpls_headerBytes_length _) (mpls_write_eq cx m)

/-- **C03 / MPLS**: label, experimental bits and TTL are read back unchanged; the bottom-of-stack bit is the one libtins
    derives, and it selects the constructor for the inner bytes -/
theorem mpls_reparse (cx : Ctx) (m : Mpls) (h : m.WF) (region : Bytes) (hr : 4 ≤ region.length) :
    ∃ out, m.write cx region = .ok out ∧ out.length = region.length ∧
      Mpls.parse out = .ok (Mpls.written cx m,
        if region.length > 4 then (Mpls.written cx m).innerFor (region.drop 4) else .none) := by
  rcases writeAtStart_ok region _ 4 (mpls_headerBytes_length (Mpls.written cx m)) hr with ⟨hw, hlen, ht, hd⟩
  refine ⟨_, by rw [mpls_write_eq]; exact hw, hlen, ?_⟩
  rw [mpls_parse_eq, hlen, ht, hd, mpls_ofHeader_headerBytes _ (mpls_written_wf cx m h)]
  have h1 : ¬ region.length < 4 := by omega
  simp only [h1, if_false]

theorem mpls_written_view (cx : Ctx) (m : Mpls) (h : m.WF) : (Mpls.written cx m).view = m.view := by
  unfold Mpls.written
  split
  · have := h.b2
    simp only [Mpls.view, Mpls.label, Mpls.experimental, Prod.mk.injEq, and_true]
    constructor <;> omega
  · rfl

theorem mpls_reparse_view (cx : Ctx) (m : Mpls) (h : m.WF) (region : Bytes) (hr : 4 ≤ region.length) :
    ∃ out m' i, m.write cx region = .ok out ∧ Mpls.parse out = .ok (m', i) ∧ m'.view = m.view := by
  rcases mpls_reparse cx m h region hr with ⟨out, hw, _, hp⟩
  exact ⟨out, _, _, hw, hp, mpls_written_view cx m h⟩

/-! **C04 / MPLS**: each setter stores its (truncated) argument where the getter reads it and disturbs no other getter -/

theorem mpls_setLabel (m : Mpls) (n : Nat) (h : m.WF) :
    (m.setLabel n).label = n % 1048576 ∧ (m.setLabel n).experimental = m.experimental ∧
    (m.setLabel n).bottomOfStack = m.bottomOfStack ∧ (m.setLabel n).ttl = m.ttl ∧ (m.setLabel n).WF := by
  have := h.b2
  refine ⟨?_, ?_, ?_, rfl, ⟨?_, ?_, h.ttl⟩⟩ <;>
    simp only [Mpls.setLabel, Mpls.label, Mpls.experimental, Mpls.bottomOfStack] <;> omega

theorem mpls_setExperimental (m : Mpls) (n : Nat) (h : m.WF) :
    (m.setExperimental n).experimental = n % 8 ∧ (m.setExperimental n).label = m.label ∧
    (m.setExperimental n).bottomOfStack = m.bottomOfStack ∧ (m.setExperimental n).ttl = m.ttl ∧ (m.setExperimental n).WF := by
  have := h.b2
  refine ⟨?_, ?_, ?_, rfl, ⟨h.labelHigh, ?_, h.ttl⟩⟩ <;>
    simp only [Mpls.setExperimental, Mpls.label, Mpls.experimental, Mpls.bottomOfStack] <;> omega

theorem mpls_setBottom (m : Mpls) (n : Nat) (h : m.WF) :
    (m.setBottom n).bottomOfStack = n % 2 ∧ (m.setBottom n).label = m.label ∧
    (m.setBottom n).experimental = m.experimental ∧ (m.setBottom n).ttl = m.ttl ∧ (m.setBottom n).WF := by
  have := h.b2
  refine ⟨?_, ?_, ?_, rfl, ⟨h.labelHigh, ?_, h.ttl⟩⟩ <;>
    simp only [Mpls.setBottom, Mpls.label, Mpls.experimental, Mpls.bottomOfStack] <;> omega

theorem mpls_setTtl (m : Mpls) (n : Nat) (h : m.WF) :
    (m.setTtl n).ttl = n % 256 ∧ (m.setTtl n).label = m.label ∧ (m.setTtl n).experimental = m.experimental ∧
    (m.setTtl n).bottomOfStack = m.bottomOfStack ∧ (m.setTtl n).WF :=
  ⟨rfl, rfl, rfl, rfl, ⟨h.labelHigh, h.b2, Nat.mod_lt _ (by decide)⟩⟩

theorem mpls_apply_wf (m m' : Mpls) (op : List String) (h : m.WF) (ha : m.apply op = .ok m') : m'.WF := by
  unfold Mpls.apply at ha
  split at ha
  · split at ha
    · injection ha with ha; subst ha; exact (mpls_setLabel m _ h).2.2.2.2
    · cases ha
  · split at ha
    · injection ha with ha; subst ha; exact (mpls_setExperimental m _ h).2.2.2.2
    · cases ha
  · split at ha
    · injection ha with ha; subst ha; exact (mpls_setBottom m _ h).2.2.2.2
    · cases ha
  · split at ha
    · injection ha with ha; subst ha; exact (mpls_setTtl m _ h).2.2.2.2
    · cases ha
  · cases ha

example : ∃ m i, Mpls.parse [0x12, 0x34, 0x5b, 0x40, 0x45, 0] = .ok (m, i) ∧ m.label = 0x12345 ∧ m.experimental = 5 ∧
    m.bottomOfStack = 1 ∧ i = .cls "IP" [0x45, 0] false := ⟨_, _, rfl, rfl, rfl, rfl, rfl⟩

end Tins.Wire.L2
