import TinsModel.Wire.RegistryAll
import TinsModel.Wire.L2.Theorems
import TinsModel.Wire.Ip.Theorems
import TinsModel.Wire.Ip6.Theorems
import TinsModel.Wire.Icmp.Theorems
import TinsModel.Wire.Transport.Theorems
import TinsModel.Wire.App.Theorems
import TinsModel.Wire.Wifi.Theorems
/-
  Whole-registry theorems: the seven families' facts plugged into `Wire/RegistryAll.lean`.

    * `registry_classesSafe`          the hypothesis of `parseChain_safe` holds for EVERY modelled class
    * `parse_any_safe`                C01 for whole packets, unconditionally: parsing any byte string with any modelled
                                      entry point never faults, never runs out of fuel, throws only malformed_packet
    * `parsed_layers_good`            every layer of every parsed packet satisfies its class invariant
    * `parsed_packet_serializes`      C02 for parsed packets, unconditionally (the two capture pseudo-headers excluded, as
                                      the property does): serialize() succeeds and returns exactly size() bytes
    * `parsed_packet_layers_never_overwrite`   … and no layer overwrites another
    * `built_packet_serializes`       the same for any stack of objects satisfying their invariants (what `mk`/`apply`
                                      histories produce, see `<fam>_mk_inv` / `<fam>_apply_inv`)
-/
namespace Tins.Wire

/-- the seven families' invariants and serializability predicates -/
def registryPreds : Preds where
  l2Inv := L2.ObjInv
  l2Ser := L2.Serializable
  ipInv := Ip.ObjInv
  ipSer := Ip.Serializable
  ip6Inv := Ip6.ObjInv
  ip6Ser := Ip6.Serializable
  icmpInv := Icmp.ObjInv
  icmpSer := Icmp.Serializable
  trInv := Transport.ObjInv
  trSer := Transport.Serializable
  appInv := App.ObjInv
  appSer := App.Serializable
  wifiInv := Wifi.ObjInv
  wifiSer := Wifi.Serializable

theorem l2_ser_of_not_pseudo (o : L2.Obj) (h1 : (L2.info o).1 ≠ "PPI") (h2 : (L2.info o).1 ≠ "PKTAP") : L2.Serializable o := by
  cases o <;> simp only [L2.Serializable] <;> first | trivial | exact absurd rfl h1 | exact absurd rfl h2

theorem registryParseFacts : ParseFacts registryPreds where
  l2 := ⟨L2.l2_parse_safe, L2.l2_parse_consumes, L2.l2_parse_inv,
         fun _ _ o _ _ _ _ h1 h2 => l2_ser_of_not_pseudo o h1 h2⟩
  ip := ⟨Ip.ip_parse_safe, Ip.ip_parse_consumes, Ip.ip_parse_inv,
         fun cls b o i hc _ h _ _ => Ip.ip_parse_serializable cls b o i hc h⟩
  ip6 := ⟨Ip6.ip6_parse_safe, Ip6.ip6_parse_consumes, Ip6.ip6_parse_inv,
          fun _ _ o _ _ _ _ _ _ => by cases o; trivial⟩
  icmp := ⟨Icmp.icmp_family_parse_safe, Icmp.icmp_family_parse_consumes, Icmp.icmp_family_parse_inv,
           fun cls b o i hc hb h _ _ => Icmp.icmp_family_parse_serializable cls b o i hc hb h⟩
  tr := ⟨Transport.transport_parse_safe, Transport.transport_parse_consumes, Transport.transport_parse_inv,
         fun cls b o i hc _ h _ _ => Transport.transport_parse_serializable cls b o i hc h⟩
  app := ⟨App.app_parse_safe, App.app_parse_consumes, App.app_parse_inv,
          fun cls b o i hc hb h _ _ => App.app_parse_serializable cls b o i hc hb h⟩
  wifi := ⟨Wifi.wifi_parse_safe, Wifi.wifi_parse_consumes, Wifi.wifi_parse_inv,
           fun cls b o i hc hb h _ _ => Wifi.wifi_parse_serializable cls b o i hc hb h⟩

theorem registryWriteFacts : WriteFacts registryPreds where
  l2 := L2.l2_writesOnlyAt
  ip := Ip.ip_writesOnlyAt
  ip6 := Ip6.ip6_writesOnlyAt
  icmp := Icmp.icmp_family_writesOnlyAt
  tr := Transport.transport_writesOnlyAt
  app := App.app_writesOnlyAt
  wifi := Wifi.wifi_writesOnlyAt

/-- every modelled parsing constructor is safe and hands its inner constructor a strictly shorter buffer -/
theorem registry_classesSafe : ClassesSafe := classesSafe_of registryParseFacts

/-- **C01, whole packets, unconditional.**  For every modelled entry point `cls` and every byte string `b`, the nested
    parsing constructors (any depth, any mix of the seven families) never access a byte outside the buffer, terminate
    within the fuel the drivers use, and throw nothing but `malformed_packet`. -/
theorem parse_any_safe (cls : String) (b : Bytes) : (parseChain (b.length + 2) cls b).Safe :=
  parseChain_entry_safe registry_classesSafe cls b

/-- every layer of every parsed packet satisfies its class invariant, and is serializable unless it is PPI / PKTAP -/
theorem parsed_layers_good (cls : String) (b : Bytes) (os : List AnyObj) (hb : b.length < 4294967296)
    (h : parseChain (b.length + 2) cls b = .ok os) : ∀ o ∈ os, registryPreds.Good o :=
  parseChain_good registryParseFacts registry_classesSafe _ cls b os hb h

theorem good_to_invSer (os : List AnyObj) (hg : ∀ o ∈ os, registryPreds.Good o) (hn : ∀ o ∈ os, NotPseudo o) :
    ∀ o ∈ os, registryPreds.Inv o ∧ registryPreds.Ser o :=
  fun o ho => ⟨(hg o ho).1, (hg o ho).2 (hn o ho)⟩

/-- **C02, parsed packets, unconditional.**  If libtins accepts a byte string (of a length a `uint32_t` can hold) and the
    packet contains neither of the two capture pseudo-headers documented as not serializable, then `serialize()`
    succeeds and returns exactly `size()` bytes, `size()` being the sum of the layers' header and trailer sizes. -/
theorem parsed_packet_serializes (cls : String) (b : Bytes) (os : List AnyObj) (hb : b.length < 4294967296)
    (h : parseChain (b.length + 2) cls b = .ok os) (hn : ∀ o ∈ os, NotPseudo o) :
    ∃ out, serializeObjs os = .ok out ∧ out.length = Wire.sizeOf (sems os) :=
  serializeObjs_total registryWriteFacts os (good_to_invSer os (parsed_layers_good cls b os hb h) hn)

/-- … and while serializing, no layer overwrites another: the bytes of every sub-chain appear unmodified at the offset
    given by the header sizes of the layers above it. -/
theorem parsed_packet_layers_never_overwrite (cls : String) (b : Bytes) (os : List AnyObj) (hb : b.length < 4294967296)
    (h : parseChain (b.length + 2) cls b = .ok os) (hn : ∀ o ∈ os, NotPseudo o) (n : Nat) (hlen : n ≤ (sems os).length) :
    ∃ out sub, serializeObjs os = .ok out ∧ serialize ((sems os).drop n) = .ok sub ∧
      (out.drop (offsetOf (sems os) n)).take (Wire.sizeOf ((sems os).drop n)) = sub :=
  serializeObjs_frame registryWriteFacts os (good_to_invSer os (parsed_layers_good cls b os hb h) hn) n hlen

/-- **C02, built packets.**  Any stack of layers of any families, each satisfying its class invariant and serializability
    predicate (established by every public constructor and preserved by every modelled API call: `<fam>_mk_inv`,
    `<fam>_apply_inv`), serializes totally and size-exactly, without any layer overwriting another. -/
theorem built_packet_serializes (os : List AnyObj) (h : ∀ o ∈ os, registryPreds.Inv o ∧ registryPreds.Ser o) :
    ∃ out, serializeObjs os = .ok out ∧ out.length = Wire.sizeOf (sems os) :=
  serializeObjs_total registryWriteFacts os h

theorem built_packet_layers_never_overwrite (os : List AnyObj) (h : ∀ o ∈ os, registryPreds.Inv o ∧ registryPreds.Ser o)
    (n : Nat) (hlen : n ≤ (sems os).length) :
    ∃ out sub, serializeObjs os = .ok out ∧ serialize ((sems os).drop n) = .ok sub ∧
      (out.drop (offsetOf (sems os) n)).take (Wire.sizeOf ((sems os).drop n)) = sub :=
  serializeObjs_frame registryWriteFacts os h n hlen

end Tins.Wire
