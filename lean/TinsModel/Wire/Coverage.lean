import Lean.Elab.Term
import TinsModel.Gen.EntryPoints
import TinsModel.Wire.Registry
/-
  Property C01 — entry-point coverage.

  `TinsModel/Gen/EntryPoints.lean` is regenerated on every run from the clang AST of every header below include/tins:
  one row per *construct-from-buffer form* (public constructor / static member / member function, or free function of
  namespace Tins, with a `const uint8_t*` parameter directly followed by an integer size).  This file is the
  HAND-MAINTAINED disposition of every such row:

    * `modelled model thm harness`  a code-shaped, fault-explicit Lean model of the function exists (`model`), theorem `thm`
                                    shows for ALL byte strings that it never faults and throws only what C01 allows, and
                                    `harness` says which C++ harness ties the model to the real function;
    * `harnessOnly harness`         no Lean model (yet): the function is driven on the real code under ASan / UBSan / LSan
                                    as described, and the C01 oracle demands "yields a value or raises malformed_packet
                                    (another libtins exception for typed accessors)";
    * `notAParser why`              the function takes bytes but is no parser of untrusted input in the sense of C01
                                    (who covers it instead).

  `entryPoints_covered` (by `decide` over the generated table) fails as soon as libtins gains a construct-from-buffer form
  that has no row here; the check then names it (see the `#eval` at the end) and reports the violation.

  "harness" texts name what was found by searching harness/*.cpp|*.h for the call.  Every row that is not `notAParser`
  is, in addition, called by harness/c01_entry.cpp; checks/C01.py compares that harness's own `list` of keys with this
  table on every run (`Audit/C01Entry.lean` prints the table for it), so the coverage claimed here is executed, not
  only written down.
-/
namespace Tins.Wire.Coverage
open Tins.Gen.EntryPoints

inductive Disposition
  | modelled (model thm harness : String)
  | harnessOnly (harness : String)
  | notAParser (why : String)
deriving Repr, DecidableEq

def Disposition.tag : Disposition → String
  | .modelled .. => "modelled"
  | .harnessOnly .. => "harnessOnly"
  | .notAParser .. => "notAParser"

def Disposition.text : Disposition → String
  | .modelled m t h => s!"model {m}; theorem {t}; tie: {h}"
  | .harnessOnly h => h
  | .notAParser w => w

/-- must the entry point be called by harness/c01_entry.cpp? -/
def Disposition.driven : Disposition → Bool
  | .notAParser _ => false
  | _ => true

/-! ### keys

  The kernel evaluates string equality slowly (about 3 ms per character), numbers instantly.  A row is therefore looked up
  by the number `EntryPoint.keyNat` = the UTF-8 bytes of the key read as one base-256 number (an injective encoding, no
  hash).  `k% "…"` computes the same number from the literal when this file is elaborated, so rows are still written as
  the key text. -/

structure Key where
  n : Nat
  s : String
deriving Repr

def natOfString (s : String) : Nat := s.toUTF8.foldl (fun acc b => acc * 256 + b.toNat) 0

open Lean Elab Term in
elab "k%" s:str : term => do
  let str := s.getString
  return mkApp2 (mkConst ``Key.mk) (mkNatLit (natOfString str)) (mkStrLit str)

/-! ### how the rows are driven -/

/-- a row of `C01_ENTRY_CTORS` / `C01_ENTRY_FUNCS` in the generated harness/c01_entry_gen.h -/
def hAuto : String :=
  "harness/c01_entry.cpp: call generated from the AST (harness/c01_entry_gen.h) on an exact-size heap block, every length " ++
  "0..40 of zeros / ones / random bytes, structured seeds and mutants of them; outcome ok | null | throw <exception> | FAULT"

/-- rows with extra arguments or templates -/
def hGlue : String :=
  "harness/c01_entry.cpp: hand-written glue under the row's key (extra arguments swept by checks/C01.py), exact-size heap " ++
  "block, every length 0..40 of zeros / ones / random bytes and structured seeds"

def hNew : String := "; no harness called it directly before harness/c01_entry.cpp"

/-- `parse <cls>` of the shared wire harness -/
def hWire (cls : String) : String :=
  "harness/wire_main.cpp parse_class(\"" ++ cls ++ "\"): field dump, size, serialize, re-parse, clone, accessor sweep, " ++
  "differential against the Lean chain model (checks/wire_common.py ENTRY_CLASSES); " ++ hAuto

def hMeta : String :=
  "length test only (reads at most the fixed header through a cast / InputMemoryStream); " ++ hAuto ++ hNew

/-- rows with a raw-pointer model in TinsModel/Wire/Raw/Misc.lean whose value the C01 oracle compares with the call's result -/
def hRaw : String :=
  "the value (header size / text / checksum) is compared with the raw-pointer model on the same bytes by the `entry-raw-model` " ++
  "clause of the C01 oracle (lean/Driver/C01.lean) on every line; " ++ hAuto

def hConv : String :=
  "reached through PDUOption::to<T>() in the option sweeps of harness/wire_app.h, wire_ip.h, wire_transport.h, wire_wifi.h " ++
  "(C01 accessor sweep); called directly, both endiannesses, by " ++ hGlue ++ hNew

/-- classes of the seven families whose `<fam>_parse_safe` theorem covers `Wire.parseOne cls` for every byte string
    (`Props.C01.wire_modelled_safe`): exactly the classes the registry dispatches on -/
def safeModelled (cls : String) : Bool := Wire.modelled cls

/-- row of a parsing constructor (or `from_bytes`) that the wire registry dispatches to as class `cls` of family `fam`:
    `modelled` exactly when the family models the class -/
def wire (key : Key) (cls fam thm : String) : Key × Disposition :=
  (key, if safeModelled cls then
          .modelled ("Tins.Wire.parseOne \"" ++ cls ++ "\" (Tins.Wire." ++ fam ++ ".parse)")
            (thm ++ " (whole chains: Tins.Props.C01.chain_parse_safe)") (hWire cls)
        else .harnessOnly (hWire cls ++ "; family " ++ fam ++ " has no Lean model of this class yet"))

/-! ### the table -/

def table : List (Key × Disposition) := [
  wire (k% "ARP::ARP(const uint8_t *, uint32_t)") "ARP" "App" "Tins.Wire.App.app_parse_safe",
  (k% "ARP::extract_metadata(const uint8_t *, uint32_t)", .harnessOnly hMeta),
  wire (k% "BootP::BootP(const uint8_t *, uint32_t, uint32_t)") "BootP" "App" "Tins.Wire.App.app_parse_safe",
  wire (k% "DHCP::DHCP(const uint8_t *, uint32_t)") "DHCP" "App" "Tins.Wire.App.app_parse_safe",
  (k% "DHCP::extract_metadata(const uint8_t *, uint32_t)", .harnessOnly hMeta),
  wire (k% "DHCPv6::DHCPv6(const uint8_t *, uint32_t)") "DHCPv6" "App" "Tins.Wire.App.app_parse_safe",
  (k% "DHCPv6::duid_en::from_bytes(const uint8_t *, uint32_t)",
    .harnessOnly ("harness/wire_app.h app_sweep `v6.duid_en` on the data of every option of a parsed DHCPv6 (C01 accessor sweep); " ++ hAuto)),
  (k% "DHCPv6::duid_ll::from_bytes(const uint8_t *, uint32_t)",
    .harnessOnly ("harness/wire_app.h app_sweep `v6.duid_ll` on the data of every option of a parsed DHCPv6 (C01 accessor sweep); " ++ hAuto)),
  (k% "DHCPv6::duid_llt::from_bytes(const uint8_t *, uint32_t)",
    .harnessOnly ("harness/wire_app.h app_sweep `v6.duid_llt` on the data of every option of a parsed DHCPv6 (C01 accessor sweep); " ++ hAuto)),
  (k% "DHCPv6::extract_metadata(const uint8_t *, uint32_t)", .harnessOnly hMeta),
  (k% "DNS::DNS(const uint8_t *, uint32_t)",
    .modelled "Tins.Dns.parse" "Tins.Props.C10.parse_noFault"
      ("harness/c10_dns.cpp `parse` (private state and the four getters, differential against the model, C10); " ++
       "harness/wire_main.cpp parse_class(\"DNS\"); " ++ hAuto)),
  (k% "DNS::extract_metadata(const uint8_t *, uint32_t)", .harnessOnly hMeta),
  (k% "DNS::soa_record::soa_record(const uint8_t *, uint32_t)",
    .modelled "Tins.Dns.soaInit" "Tins.Props.C10.soa_init_safe"
      ("harness/c10_dns.cpp `soa` (the seven fields or the exception, differential against the model, C10); " ++ hAuto ++
       "; no harness called it before (DESIGN §7 #34, fixed: KF-C10-11)")),
  wire (k% "Dot11::Dot11(const uint8_t *, uint32_t)") "Dot11" "Wifi" "Tins.Wire.Wifi.wifi_parse_safe",
  wire (k% "Dot11::from_bytes(const uint8_t *, uint32_t)") "Dot11*" "Wifi" "Tins.Wire.Wifi.wifi_parse_safe",
  wire (k% "Dot11Ack::Dot11Ack(const uint8_t *, uint32_t)") "Dot11Ack" "Wifi" "Tins.Wire.Wifi.wifi_parse_safe",
  wire (k% "Dot11AssocRequest::Dot11AssocRequest(const uint8_t *, uint32_t)") "Dot11AssocRequest" "Wifi" "Tins.Wire.Wifi.wifi_parse_safe",
  wire (k% "Dot11AssocResponse::Dot11AssocResponse(const uint8_t *, uint32_t)") "Dot11AssocResponse" "Wifi" "Tins.Wire.Wifi.wifi_parse_safe",
  wire (k% "Dot11Authentication::Dot11Authentication(const uint8_t *, uint32_t)") "Dot11Authentication" "Wifi" "Tins.Wire.Wifi.wifi_parse_safe",
  wire (k% "Dot11Beacon::Dot11Beacon(const uint8_t *, uint32_t)") "Dot11Beacon" "Wifi" "Tins.Wire.Wifi.wifi_parse_safe",
  wire (k% "Dot11BlockAck::Dot11BlockAck(const uint8_t *, uint32_t)") "Dot11BlockAck" "Wifi" "Tins.Wire.Wifi.wifi_parse_safe",
  wire (k% "Dot11BlockAckRequest::Dot11BlockAckRequest(const uint8_t *, uint32_t)") "Dot11BlockAckRequest" "Wifi" "Tins.Wire.Wifi.wifi_parse_safe",
  wire (k% "Dot11CFEnd::Dot11CFEnd(const uint8_t *, uint32_t)") "Dot11CFEnd" "Wifi" "Tins.Wire.Wifi.wifi_parse_safe",
  wire (k% "Dot11Control::Dot11Control(const uint8_t *, uint32_t)") "Dot11Control" "Wifi" "Tins.Wire.Wifi.wifi_parse_safe",
  wire (k% "Dot11Data::Dot11Data(const uint8_t *, uint32_t)") "Dot11Data" "Wifi" "Tins.Wire.Wifi.wifi_parse_safe",
  wire (k% "Dot11Deauthentication::Dot11Deauthentication(const uint8_t *, uint32_t)") "Dot11Deauthentication" "Wifi" "Tins.Wire.Wifi.wifi_parse_safe",
  wire (k% "Dot11Disassoc::Dot11Disassoc(const uint8_t *, uint32_t)") "Dot11Disassoc" "Wifi" "Tins.Wire.Wifi.wifi_parse_safe",
  wire (k% "Dot11EndCFAck::Dot11EndCFAck(const uint8_t *, uint32_t)") "Dot11EndCFAck" "Wifi" "Tins.Wire.Wifi.wifi_parse_safe",
  (k% "Dot11ManagementFrame::vendor_specific_type::from_bytes(const uint8_t *, uint32_t)",
    .modelled "Tins.Wire.Raw.Wifi.vendorFromBytes" "Tins.Wire.Raw.Wifi.vendorFromBytes_noFault (vendorSpecific_eq: = Tagged.decodeVendor, compared with vendor_specific() by harness/wire_wifi.h)" hAuto),
  wire (k% "Dot11PSPoll::Dot11PSPoll(const uint8_t *, uint32_t)") "Dot11PSPoll" "Wifi" "Tins.Wire.Wifi.wifi_parse_safe",
  wire (k% "Dot11ProbeRequest::Dot11ProbeRequest(const uint8_t *, uint32_t)") "Dot11ProbeRequest" "Wifi" "Tins.Wire.Wifi.wifi_parse_safe",
  wire (k% "Dot11ProbeResponse::Dot11ProbeResponse(const uint8_t *, uint32_t)") "Dot11ProbeResponse" "Wifi" "Tins.Wire.Wifi.wifi_parse_safe",
  wire (k% "Dot11QoSData::Dot11QoSData(const uint8_t *, uint32_t)") "Dot11QoSData" "Wifi" "Tins.Wire.Wifi.wifi_parse_safe",
  wire (k% "Dot11RTS::Dot11RTS(const uint8_t *, uint32_t)") "Dot11RTS" "Wifi" "Tins.Wire.Wifi.wifi_parse_safe",
  wire (k% "Dot11ReAssocRequest::Dot11ReAssocRequest(const uint8_t *, uint32_t)") "Dot11ReAssocRequest" "Wifi" "Tins.Wire.Wifi.wifi_parse_safe",
  wire (k% "Dot11ReAssocResponse::Dot11ReAssocResponse(const uint8_t *, uint32_t)") "Dot11ReAssocResponse" "Wifi" "Tins.Wire.Wifi.wifi_parse_safe",
  wire (k% "Dot1Q::Dot1Q(const uint8_t *, uint32_t)") "Dot1Q" "L2" "Tins.Wire.L2.l2_parse_safe",
  (k% "Dot1Q::extract_metadata(const uint8_t *, uint32_t)", .harnessOnly hMeta),
  wire (k% "Dot3::Dot3(const uint8_t *, uint32_t)") "Dot3" "L2" "Tins.Wire.L2.l2_parse_safe",
  (k% "Dot3::extract_metadata(const uint8_t *, uint32_t)", .harnessOnly hMeta),
  (k% "EAPOL::extract_metadata(const uint8_t *, uint32_t)",
    .modelled "Tins.Wire.Raw.Misc.eapolMetadata" "Tins.Wire.Raw.Misc.eapolMetadata_safe (Props.C01.raw_decoders_safe_misc)" hRaw),
  wire (k% "EAPOL::from_bytes(const uint8_t *, uint32_t)") "EAPOL*" "Wifi" "Tins.Wire.Wifi.wifi_parse_safe",
  wire (k% "EthernetII::EthernetII(const uint8_t *, uint32_t)") "EthernetII" "L2" "Tins.Wire.L2.l2_parse_safe",
  (k% "EthernetII::extract_metadata(const uint8_t *, uint32_t)",
    .modelled "Tins.Wire.Raw.Misc.ethMetadata" "Tins.Wire.Raw.Misc.ethMetadata_safe (Props.C01.raw_decoders_safe_misc)" hRaw),
  wire (k% "ICMP::ICMP(const uint8_t *, uint32_t)") "ICMP" "Icmp" "Tins.Wire.Icmp.icmp_parse_safe",
  (k% "ICMP::extract_metadata(const uint8_t *, uint32_t)", .harnessOnly hMeta),
  (k% "ICMPExtension::ICMPExtension(const uint8_t *, uint32_t)",
    .harnessOnly ("one RFC 4884 extension object; reached through ICMPExtensionsStructure from the ICMP / ICMPv6 constructors " ++
                  "(harness/wire_main.cpp parse_class(\"ICMP\"|\"ICMPv6\")); called directly by " ++ hAuto ++ hNew)),
  (k% "ICMPExtensionsStructure::ICMPExtensionsStructure(const uint8_t *, uint32_t)",
    .harnessOnly ("RFC 4884 extension structure; reached through Internals::try_parse_icmp_extensions from the ICMP / ICMPv6 " ++
                  "constructors (harness/wire_main.cpp parse_class(\"ICMP\"|\"ICMPv6\")); called directly by " ++ hAuto ++ hNew)),
  (k% "ICMPExtensionsStructure::validate_extensions(const uint8_t *, uint32_t)",
    .harnessOnly ("version + checksum test over the whole buffer; reached through Internals::try_parse_icmp_extensions " ++
                  "(harness/wire_main.cpp parse_class(\"ICMP\"|\"ICMPv6\")); called directly by " ++ hAuto ++ hNew)),
  wire (k% "ICMPv6::ICMPv6(const uint8_t *, uint32_t)") "ICMPv6" "Icmp" "Tins.Wire.Icmp.icmp_parse_safe",
  (k% "ICMPv6::multicast_address_record::multicast_address_record(const uint8_t *, uint32_t)",
    .harnessOnly ("MLDv2 multicast address record; reached through the ICMPv6 constructor for type 143 " ++
                  "(harness/wire_main.cpp parse_class(\"ICMPv6\")); called directly by " ++ hAuto ++ hNew)),
  wire (k% "IP::IP(const uint8_t *, uint32_t)") "IP" "Ip" "Tins.Wire.Ip.ip_parse_safe",
  (k% "IP::extract_metadata(const uint8_t *, uint32_t)",
    .modelled "Tins.Wire.Raw.Misc.ipMetadata" "Tins.Wire.Raw.Misc.ipMetadata_safe (Props.C01.raw_decoders_safe_misc)" hRaw),
  wire (k% "IPSecAH::IPSecAH(const uint8_t *, uint32_t)") "IPSecAH" "Ip" "Tins.Wire.Ip.ip_parse_safe",
  wire (k% "IPSecESP::IPSecESP(const uint8_t *, uint32_t)") "IPSecESP" "Ip" "Tins.Wire.Ip.ip_parse_safe",
  wire (k% "IPv6::IPv6(const uint8_t *, uint32_t)") "IPv6" "Ip6" "Tins.Wire.Ip6.ip6_parse_safe",
  (k% "IPv6::extract_metadata(const uint8_t *, uint32_t)",
    .harnessOnly ("walks the extension headers with raw reads; harness/wire_ip6.h ip6_sweep `extract_metadata` on every prefix of " ++
                  "the serialization of a parsed IPv6 (C01 accessor sweep); " ++ hAuto)),
  (k% "Internals::Converters::convert(const uint8_t *, uint32_t, PDU::endian_type, type_to_type<HWAddress<6>>)", .harnessOnly hConv),
  (k% "Internals::Converters::convert(const uint8_t *, uint32_t, PDU::endian_type, type_to_type<Tins::IPv4Address>)", .harnessOnly hConv),
  (k% "Internals::Converters::convert(const uint8_t *, uint32_t, PDU::endian_type, type_to_type<Tins::IPv6Address>)", .harnessOnly hConv),
  (k% "Internals::Converters::convert(const uint8_t *, uint32_t, PDU::endian_type, type_to_type<int8_t>)", .harnessOnly hConv),
  (k% "Internals::Converters::convert(const uint8_t *, uint32_t, PDU::endian_type, type_to_type<std::pair<uint16_t, uint32_t>>)", .harnessOnly hConv),
  (k% "Internals::Converters::convert(const uint8_t *, uint32_t, PDU::endian_type, type_to_type<std::pair<uint32_t, uint32_t>>)", .harnessOnly hConv),
  (k% "Internals::Converters::convert(const uint8_t *, uint32_t, PDU::endian_type, type_to_type<std::pair<uint8_t, uint8_t>>)", .harnessOnly hConv),
  (k% "Internals::Converters::convert(const uint8_t *, uint32_t, PDU::endian_type, type_to_type<std::string>)", .harnessOnly hConv),
  (k% "Internals::Converters::convert(const uint8_t *, uint32_t, PDU::endian_type, type_to_type<std::vector<IPv4Address>>)", .harnessOnly hConv),
  (k% "Internals::Converters::convert(const uint8_t *, uint32_t, PDU::endian_type, type_to_type<std::vector<IPv6Address>>)", .harnessOnly hConv),
  (k% "Internals::Converters::convert(const uint8_t *, uint32_t, PDU::endian_type, type_to_type<std::vector<float>>)", .harnessOnly hConv),
  (k% "Internals::Converters::convert(const uint8_t *, uint32_t, PDU::endian_type, type_to_type<std::vector<std::pair<uint8_t, uint8_t>>>)", .harnessOnly hConv),
  (k% "Internals::Converters::convert(const uint8_t *, uint32_t, PDU::endian_type, type_to_type<std::vector<uint16_t>>)", .harnessOnly hConv),
  (k% "Internals::Converters::convert(const uint8_t *, uint32_t, PDU::endian_type, type_to_type<std::vector<uint32_t>>)", .harnessOnly hConv),
  (k% "Internals::Converters::convert(const uint8_t *, uint32_t, PDU::endian_type, type_to_type<std::vector<uint8_t>>)", .harnessOnly hConv),
  (k% "Internals::Converters::convert(const uint8_t *, uint32_t, PDU::endian_type, type_to_type<uint16_t>)", .harnessOnly hConv),
  (k% "Internals::Converters::convert(const uint8_t *, uint32_t, PDU::endian_type, type_to_type<uint32_t>)", .harnessOnly hConv),
  (k% "Internals::Converters::convert(const uint8_t *, uint32_t, PDU::endian_type, type_to_type<uint64_t>)", .harnessOnly hConv),
  (k% "Internals::Converters::convert(const uint8_t *, uint32_t, PDU::endian_type, type_to_type<uint8_t>)", .harnessOnly hConv),
  (k% "Internals::PDUAllocator::allocate(Tins::Internals::PDUAllocator::id_type, const uint8_t *, uint32_t)",
    .harnessOnly ("look-up of a user-registered protocol and call of its parsing constructor (both tag widths, registered and " ++
                  "unregistered identifiers); " ++ hGlue ++ hNew)),
  (k% "Internals::allocate(typename pdu_tag_mapper<PDUType>::type::identifier_type, const uint8_t *, uint32_t)",
    .harnessOnly ("forwards to PDUAllocator<tag of PDUType>::allocate (instantiated for the link-layer group and the IP group); " ++
                  hGlue ++ hNew)),
  (k% "Internals::default_allocator(const uint8_t *, uint32_t)",
    .harnessOnly ("`new PDUType(buffer, size)` (instantiated for IP and for a user-defined class deriving from DNS); " ++ hGlue ++ hNew)),
  (k% "Internals::hw_address_to_string(const uint8_t *, size_t)",
    .modelled "Tins.Wire.Raw.Misc.hwToString" "Tins.Wire.Raw.Misc.hwToString_noFault (Props.C01.raw_decoders_safe_misc)" hRaw),
  (k% "Internals::is_dot3(const uint8_t *, size_t)",
    .harnessOnly ("`sz >= 13 && ptr[12] < 8` (sniffer handlers, harness/c17_capture.cpp through the capture loop); " ++ hAuto ++ hNew)),
  (k% "Internals::pdu_from_dlt_flag(int, const uint8_t *, uint32_t, bool)",
    .harnessOnly ("dispatch on the pcap link type to a parsing constructor (every DLT of Gen/Tags plus unknown ones, both values of " ++
                  "rawpdu_on_no_match); used by the capture-file readers (harness/c17_capture.cpp); " ++ hGlue ++ hNew)),
  (k% "Internals::pdu_from_flag(Constants::Ethernet::e, const uint8_t *, uint32_t, bool)",
    .harnessOnly ("dispatch on the EtherType to a parsing constructor; reached from every link-layer constructor " ++
                  "(harness/wire_main.cpp chains, Lean side Tins.Wire.Tags.classOfEther regenerated from pdu_helpers.cpp); called " ++
                  "directly, every recognised tag plus unknown ones, by " ++ hGlue ++ hNew)),
  (k% "Internals::pdu_from_flag(Constants::IP::e, const uint8_t *, uint32_t, bool)",
    .harnessOnly ("dispatch on the IP protocol number to a parsing constructor; reached from the IP / IPv6 constructors " ++
                  "(harness/wire_main.cpp chains, Lean side Tins.Wire.Tags.classOfIpProto); called directly by " ++ hGlue ++ hNew)),
  (k% "Internals::pdu_from_flag(PDU::PDUType, const uint8_t *, uint32_t)",
    .harnessOnly ("dispatch on a PDUType to a parsing constructor (every enumerator 0..63 and USER_DEFINED_PDU); " ++ hGlue ++ hNew)),
  wire (k% "LLC::LLC(const uint8_t *, uint32_t)") "LLC" "L2" "Tins.Wire.L2.l2_parse_safe",
  wire (k% "Loopback::Loopback(const uint8_t *, uint32_t)") "Loopback" "L2" "Tins.Wire.L2.l2_parse_safe",
  wire (k% "MPLS::MPLS(const uint8_t *, uint32_t)") "MPLS" "L2" "Tins.Wire.L2.l2_parse_safe",
  (k% "Memory::InputMemoryStream::InputMemoryStream(const uint8_t *, size_t)",
    .modelled "Tins.Cursor.ofBytes" "Tins.Props.C01.cursor_safe"
      ("harness/c01_cursor.cpp `cinit` followed by read / skip / size(m) / pointer programs, differential against the Cursor " ++
       "model; " ++ hAuto)),
  (k% "Memory::OutputMemoryStream::write(const uint8_t *, size_t)",
    .notAParser ("copies the caller's bytes into the stream after checking the room left in the stream; the source bytes are " ++
                 "not interpreted.  The destination side is the stream tie of C01 / C02 (harness/c01_cursor.cpp `owrite`)")),
  (k% "Memory::write_data(uint8_t *, const uint8_t *, size_t)",
    .notAParser "memcpy wrapper of the serializers (destination first, non-const); the source bytes are not interpreted"),
  (k% "OfflinePacketFilter::matches_filter(const uint8_t *, uint32_t)",
    .harnessOnly ("forwards pointer and length to libpcap's pcap_offline_filter (external: C17 trusted base); " ++
                  "harness/c17_capture.cpp `filter raw`; " ++ hGlue)),
  wire (k% "PKTAP::PKTAP(const uint8_t *, uint32_t)") "PKTAP" "L2" "Tins.Wire.L2.l2_parse_safe",
  wire (k% "PPI::PPI(const uint8_t *, uint32_t)") "PPI" "L2" "Tins.Wire.L2.l2_parse_safe",
  wire (k% "PPPoE::PPPoE(const uint8_t *, uint32_t)") "PPPoE" "L2" "Tins.Wire.L2.l2_parse_safe",
  wire (k% "RC4EAPOL::RC4EAPOL(const uint8_t *, uint32_t)") "RC4EAPOL" "Wifi" "Tins.Wire.Wifi.wifi_parse_safe",
  wire (k% "RSNEAPOL::RSNEAPOL(const uint8_t *, uint32_t)") "RSNEAPOL" "Wifi" "Tins.Wire.Wifi.wifi_parse_safe",
  (k% "RSNInformation::RSNInformation(const uint8_t *, uint32_t)",
    .harnessOnly ("RSN information element decoder; reached through Dot11ManagementFrame::rsn_information() in harness/wire_wifi.h " ++
                  "(dump and accessor sweep of every management frame carrying the element); called directly by " ++ hAuto)),
  wire (k% "RTP::RTP(const uint8_t *, uint32_t)") "RTP" "App" "Tins.Wire.App.app_parse_safe",
  wire (k% "RadioTap::RadioTap(const uint8_t *, uint32_t)") "RadioTap" "Wifi" "Tins.Wire.Wifi.wifi_parse_safe",
  wire (k% "RawPDU::RawPDU(const uint8_t *, uint32_t)") "RawPDU" "Registry" "Tins.Props.C01.wire_modelled_safe",
  wire (k% "SLL::SLL(const uint8_t *, uint32_t)") "SLL" "L2" "Tins.Wire.L2.l2_parse_safe",
  wire (k% "SNAP::SNAP(const uint8_t *, uint32_t)") "SNAP" "L2" "Tins.Wire.L2.l2_parse_safe",
  wire (k% "STP::STP(const uint8_t *, uint32_t)") "STP" "App" "Tins.Wire.App.app_parse_safe",
  wire (k% "TCP::TCP(const uint8_t *, uint32_t)") "TCP" "Transport" "Tins.Wire.Transport.transport_parse_safe",
  (k% "TCP::extract_metadata(const uint8_t *, uint32_t)",
    .modelled "Tins.Wire.Raw.Misc.tcpMetadata" "Tins.Wire.Raw.Misc.tcpMetadata_safe (Props.C01.raw_decoders_safe_misc)" hRaw),
  wire (k% "UDP::UDP(const uint8_t *, uint32_t)") "UDP" "Transport" "Tins.Wire.Transport.transport_parse_safe",
  (k% "UDP::extract_metadata(const uint8_t *, uint32_t)", .harnessOnly hMeta),
  (k% "Utils::crc32(const uint8_t *, uint32_t)",
    .modelled "Tins.Wire.Raw.Misc.crc32Raw" "Tins.Wire.Raw.Misc.crc32Raw_eq (= Wifi.crc32 over exactly the caller's bytes; the value itself is property C05's)" hRaw),
  wire (k% "VXLAN::VXLAN(const uint8_t *, uint32_t)") "VXLAN" "App" "Tins.Wire.App.app_parse_safe"
]

/-- rule rows: every public member `matches_response(const uint8_t*, uint32_t)` of a PDU class -/
def ruleFor (e : EntryPoint) : Option Disposition :=
  if e.kind == .method && e.name == "matches_response" then
    some (.notAParser ("response matching is property C14's: harness/c14_match.cpp drives every class's matches_response on exact-size " ++
                       "heap blocks under ASan / UBSan; Lean models and theorems in TinsModel/Match, Props/C14"))
  else none

def lookup (n : Nat) : Option Disposition := (table.find? (fun r => r.1.n == n)).map (·.2)

def disposition (e : EntryPoint) : Option Disposition :=
  match lookup e.keyNat with
  | some d => some d
  | none => ruleFor e

/-- entry points without a disposition -/
def uncovered : List String := (all.filter (fun e => (disposition e).isNone)).map (·.key)

/-- rows of the table that name no entry point of the current headers (stale rows: reported, not an error) -/
def stale : List String := (table.filter (fun r => !(all.any (fun e => e.keyNat == r.1.n)))).map (·.1.s)

/-- rows of the generated table whose number is not the encoding of their key (a translator defect; must be empty) -/
def misencoded : List String := (all.filter (fun e => natOfString e.key != e.keyNat)).map (·.key)

/-- one line per entry point for checks/C01.py (printed by Audit/C01Entry.lean): key without spaces, tag, kind, text -/
def report : List String :=
  all.map (fun e =>
    let d := disposition e
    String.intercalate "\t" ["ENTRY", e.key.replace " " "", (d.map (·.tag)).getD "NONE",
      (if e.auto then "auto" else "glue"), e.key, (d.map (·.text)).getD "-"])

/-! ### the theorems -/

/-- the AST scan classified every declaration that matches the pattern -/
theorem scan_complete : Gen.EntryPoints.unparsed = [] := by decide

/-- **entryPoints_covered** — every construct-from-buffer form libtins declares today has a disposition.
    A form added to the headers has none, and this stops checking. -/
theorem entryPoints_covered : ∀ e ∈ Gen.EntryPoints.all, (disposition e).isSome := by decide +kernel

/-- the table is not vacuous: the three kinds of rows all occur, and a made-up entry point has no disposition -/
example : (disposition ⟨"Foo::from_buffer(const uint8_t *, uint32_t)", (k% "Foo::from_buffer(const uint8_t *, uint32_t)").n, "Foo",
    "from_buffer", .staticMember, "const uint8_t *, uint32_t", 0, true, true, false, false, false, "include/tins/foo.h"⟩).isNone := by
  decide +kernel
example : (lookup (k% "IP::IP(const uint8_t *, uint32_t)").n).isSome ∧ (lookup (k% "ICMP::ICMP(const uint8_t *, uint32_t)").n).isSome ∧
    (lookup (k% "Memory::write_data(uint8_t *, const uint8_t *, size_t)").n).isSome := by decide +kernel

/- Named by the check when `entryPoints_covered` fails: elaborating this file then prints the entry points that have no
   disposition (nothing is printed when there are none). -/
#eval show IO Unit from
  if !misencoded.isEmpty then
    throw (IO.userError ("translator defect, keyNat is not the encoding of key: " ++ String.intercalate " ; " misencoded))
  else if uncovered.isEmpty then pure ()
  else throw (IO.userError ("ENTRY POINTS WITHOUT A DISPOSITION in lean/TinsModel/Wire/Coverage.lean: " ++ String.intercalate " ; " uncovered))

end Tins.Wire.Coverage
