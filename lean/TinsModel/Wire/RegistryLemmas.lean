import TinsModel.Wire.Registry
/-
  Chain-level safety from per-class safety (property C01): if every modelled parsing constructor is safe
  (never faults, throws only malformed_packet) and hands its inner constructor a strictly shorter byte string,
  then parsing a whole chain with fuel `|b| + 2` never faults, never runs out of fuel, and throws only
  malformed_packet.
-/
namespace Tins.Wire

/-- outcome classes of a parsing constructor -/
def ParseSafe {α} (r : Out α) : Prop := (∃ a, r = .ok a) ∨ r = .throw .malformedPacket

def ChainResult.Safe : ChainResult → Prop
  | .ok _ => True
  | .unmodelled _ => True
  | .throw e => e = .malformedPacket
  | .fault _ => False

/-- the two per-class obligations, stated over the registry's dispatch function -/
structure ClassesSafe : Prop where
  safe : ∀ cls b, modelled cls = true → ParseSafe (parseOne cls b)
  consumes : ∀ cls b o name pb fb, parseOne cls b = .ok (o, .cls name pb fb) → pb.length < b.length

theorem parseChain_safe (h : ClassesSafe) :
    ∀ (fuel : Nat) (cls : String) (b : Bytes), b.length < fuel → (parseChain fuel cls b).Safe := by
  intro fuel
  induction fuel with
  | zero => intro cls b hb; omega
  | succ fuel ih =>
    intro cls b hb
    unfold parseChain
    by_cases hm : modelled cls = true
    · simp only [hm, Bool.not_true, Bool.false_eq_true, ↓reduceIte]
      rcases h.safe cls b hm with ⟨⟨o, inner⟩, he⟩ | he
      · rw [he]
        cases inner with
        | none => simp [ChainResult.Safe]
        | raw pb => simp [ChainResult.Safe]
        | cls name pb fb =>
          have hlt := h.consumes cls b o name pb fb he
          have hrec := ih name pb (by omega)
          simp only
          generalize parseChain fuel name pb = r at hrec
          cases r with
          | ok ls => simp [ChainResult.Safe]
          | unmodelled c => simp [ChainResult.Safe]
          | fault s => simp [ChainResult.Safe] at hrec
          | throw e =>
            simp only [ChainResult.Safe] at hrec
            subst hrec
            by_cases hfb : fb = true <;> simp [hfb, ChainResult.Safe, Exc.isMalformed]
      · rw [he]; simp [ChainResult.Safe]
    · simp only [Bool.not_eq_true] at hm
      simp [hm, ChainResult.Safe]

/-- the entry point as the drivers call it: fuel `|b| + 2` -/
theorem parseChain_entry_safe (h : ClassesSafe) (cls : String) (b : Bytes) :
    (parseChain (b.length + 2) cls b).Safe :=
  parseChain_safe h _ cls b (by omega)

end Tins.Wire
