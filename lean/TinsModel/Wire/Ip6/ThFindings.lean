import TinsModel.Wire.Ip6.ThReparse
/-
  Known findings of the Ip6 family (C04): the full statements, machine-checked refutations on concrete witnesses (replayed
  on the real code by the generator on every run), and the partial theorems with the excluded region as an explicit
  decidable predicate.

  KF-C04-Ip6-1  an extension header with more than 2046 data bytes does not fit the 8-bit Hdr Ext Len field;
                `write_header` stores the length truncated to 8 bits and still writes all the bytes.
  KF-C04-Ip6-2  the payload behind a fragment header is never parsed (not even of an atomic fragment).
-/
namespace Tins.Wire.Ip6
open Tins Tins.Wire Ipv6

/-! ### KF-C04-Ip6-1 -/

/-- does the parser give the extension headers of `p` back (in the dump's canonical, padded form) from what
    `write_serialization` emits? -/
def reparseHeadersOK (cx : Ctx) (p : Ipv6) (region junk : Bytes) : Bool :=
  match p.write cx region with
  | .ok out =>
    (match Ipv6.parse (out ++ junk) with
     | .ok (q, _) => q.headers == p.headers.map padded
     | _ => false)
  | _ => false

/-- everything `HdrCanon` demands except the size bound -/
structure HdrPlain (h : ExtHdr) : Prop where
  wf : HdrWF h
  len : h.lenField = h.data.length
  ext : (isExtensionHeader h.option && h.option != NO_NEXT_HEADER) = true

/-- the size bound as a decidable predicate: type + length + data + padding fit 256 units of 8 octets -/
def fitsLenOctet (h : ExtHdr) : Bool := hdrSize h ≤ 2048

/-- **full statement**: every extension header added through the API (length field not spoofed, a type the parser treats
    as an extension header) comes back from the wire -/
def AllHeadersReparse : Prop :=
  ∀ (cx : Ctx) (p : Ipv6) (region junk : Bytes), p.Inv → (∀ x ∈ p.headers, HdrPlain x) →
    (isExtensionHeader (lastNext cx p) && lastNext cx p != NO_NEXT_HEADER) = false →
    region.length = p.hdr + cx.innerSize → region.length - 40 < 65536 → reparseHeadersOK cx p region junk = true

/-- the witness: one destination-options header with 2047 data bytes (2056 octets on the wire, length octet 256 -> 0) -/
def bigHeaderWitness : Ipv6 :=
  { Ipv6.create (List.replicate 16 0) (List.replicate 16 0) with headers := [⟨60, 2047, List.replicate 2047 0⟩] }

set_option maxRecDepth 100000 in
theorem bigHeaderWitness_not_reparsed : reparseHeadersOK ⟨[], []⟩ bigHeaderWitness (List.replicate 2096 0) [] = false := by
  decide

set_option maxRecDepth 100000 in
/-- **machine-checked refutation** of the full statement on the witness -/
theorem allHeadersReparse_fails : ¬ AllHeadersReparse := by
  intro H
  have hinv : bigHeaderWitness.Inv := by
    refine ⟨by decide, by decide, by decide, by decide, by decide, by decide, by decide, by decide, by decide, ?_⟩
    intro x hx
    simp only [bigHeaderWitness, List.mem_singleton] at hx
    subst hx
    exact ⟨by decide, by decide, by show (List.replicate 2047 (0 : UInt8)).length < 65536; rw [List.length_replicate]; omega⟩
  have hplain : ∀ x ∈ bigHeaderWitness.headers, HdrPlain x := by
    intro x hx
    simp only [bigHeaderWitness, List.mem_singleton] at hx
    subst hx
    exact ⟨⟨by decide, by decide, by show (List.replicate 2047 (0 : UInt8)).length < 65536; rw [List.length_replicate]; omega⟩,
      by show 2047 = (List.replicate 2047 (0 : UInt8)).length; rw [List.length_replicate], by decide⟩
  have := H ⟨[], []⟩ bigHeaderWitness (List.replicate 2096 0) [] hinv hplain (by decide) (by decide) (by decide)
  rw [bigHeaderWitness_not_reparsed] at this
  cases this

/-- **partial theorem**: with the excluded region `¬ fitsLenOctet` removed the statement holds for all contexts, objects,
    regions and paddings (this is `ipv6_reparse`) -/
theorem allHeadersReparse_partial (cx : Ctx) (p : Ipv6) (region junk : Bytes) (hi : p.Inv) (hp : ∀ x ∈ p.headers, HdrPlain x)
    (hfit : ∀ x ∈ p.headers, fitsLenOctet x = true)
    (hnl : (isExtensionHeader (lastNext cx p) && lastNext cx p != NO_NEXT_HEADER) = false)
    (hr : region.length = p.hdr + cx.innerSize) (hsz : region.length - 40 < 65536) :
    reparseHeadersOK cx p region junk = true := by
  have hc : ∀ x ∈ p.headers, HdrCanon x := fun x hx =>
    ⟨(hp x hx).wf, (hp x hx).len, by simpa [fitsLenOctet] using hfit x hx, (hp x hx).ext⟩
  rcases ipv6_reparse cx p hi hc hnl region hr hsz junk with ⟨out, hw, _, hpz⟩
  simp [reparseHeadersOK, hw, hpz, Ipv6.reparsed]

/-! ### KF-C04-Ip6-2 -/

/-- **full statement**: a non-empty payload whose class the final next-header value names is handed to that class's
    parser when the serialization is parsed -/
def InnerClassPreserved : Prop :=
  ∀ (cx : Ctx) (p : Ipv6) (region junk : Bytes) (cls : String), p.Inv → (∀ x ∈ p.headers, HdrCanon x) →
    Tags.classOfIpProto (lastNext cx p) = some cls → region.length = p.hdr + cx.innerSize → region.length - 40 < 65536 →
    region.drop p.hdr ≠ [] →
    ∃ out q, p.write cx region = .ok out ∧ Ipv6.parse (out ++ junk) = .ok (q, .cls cls (region.drop p.hdr) false)

/-- the witness: an atomic fragment (offset 0, M = 0) in front of a complete UDP datagram -/
def atomicFragmentWitness : Ipv6 :=
  { Ipv6.create (List.replicate 16 0) (List.replicate 16 0) with headers := [⟨44, 6, [0, 0, 0, 0, 0, 7]⟩] }

def udpCtx : Ctx := ⟨[], [⟨"UDP", [], 8, 0⟩]⟩

theorem atomicFragmentWitness_raw :
    ∃ out q, atomicFragmentWitness.write udpCtx (List.replicate 56 0) = .ok out ∧
      Ipv6.parse out = .ok (q, .raw (List.replicate 8 0)) := ⟨_, _, rfl, rfl⟩

/-- **machine-checked refutation** of the full statement on the witness -/
theorem innerClassPreserved_fails : ¬ InnerClassPreserved := by
  intro H
  have hinv : atomicFragmentWitness.Inv := by
    refine ⟨by decide, by decide, by decide, by decide, by decide, by decide, by decide, by decide, by decide, ?_⟩
    intro x hx
    simp only [atomicFragmentWitness, List.mem_singleton] at hx
    subst hx
    exact ⟨by decide, by decide, by decide⟩
  have hcanon : ∀ x ∈ atomicFragmentWitness.headers, HdrCanon x := by
    intro x hx
    simp only [atomicFragmentWitness, List.mem_singleton] at hx
    subst hx
    exact ⟨⟨by decide, by decide, by decide⟩, by decide, by decide, by decide⟩
  rcases H udpCtx atomicFragmentWitness (List.replicate 56 0) [] "UDP" hinv hcanon (by decide) (by decide) (by decide)
    (by decide) with ⟨out, q, hw, hp⟩
  rcases atomicFragmentWitness_raw with ⟨out', q', hw', hp'⟩
  rw [hw'] at hw
  injection hw with hw; subst hw
  rw [List.append_nil, hp'] at hp
  injection hp with hp
  injection hp with _ hp
  cases hp

/-- **partial theorem**: without a fragment header in the chain the statement holds for all contexts, objects, regions
    and paddings -/
theorem innerClassPreserved_partial (cx : Ctx) (p : Ipv6) (region junk : Bytes) (cls : String) (hi : p.Inv)
    (hc : ∀ x ∈ p.headers, HdrCanon x) (hnofrag : hasFragment p.headers = false)
    (hcls : Tags.classOfIpProto (lastNext cx p) = some cls)
    (hnl : (isExtensionHeader (lastNext cx p) && lastNext cx p != NO_NEXT_HEADER) = false)
    (hr : region.length = p.hdr + cx.innerSize) (hsz : region.length - 40 < 65536) (hne : region.drop p.hdr ≠ []) :
    ∃ out q, p.write cx region = .ok out ∧ Ipv6.parse (out ++ junk) = .ok (q, .cls cls (region.drop p.hdr) false) := by
  rcases ipv6_reparse cx p hi hc hnl region hr hsz junk with ⟨out, hw, _, hpz⟩
  refine ⟨out, Ipv6.reparsed cx p region.length, hw, ?_⟩
  rw [hpz]
  have hemp : (region.drop p.hdr ++ junk).isEmpty = false := by
    cases hx : region.drop p.hdr with
    | nil => exact absurd hx hne
    | cons a as => rfl
  simp only [Ipv6.innerFor, hemp, hnofrag, hcls, Bool.false_eq_true, if_false]

/-- every protocol number the IPv6 serializer derives from an inner class satisfies the side conditions of the partial
    theorems: it names a class and is not an extension header type (decided over the generated tables) -/
theorem derived_tags_ok : ∀ q ∈ Gen.Tags.pduTypeToIpProto,
    (Tags.classOfIpProto q.2).isSome = true ∧ (isExtensionHeader q.2 && q.2 != NO_NEXT_HEADER) = false := by decide

end Tins.Wire.Ip6
