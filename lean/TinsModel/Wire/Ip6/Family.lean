import TinsModel.Wire.Ip6.Ipv6
/-
  Family interface of `Ip6`: IPv6 with its extension headers (see TinsModel/Wire/Iface.lean).
-/
namespace Tins.Wire.Ip6

inductive Obj
  | ip6 (p : Ipv6)
deriving Repr

/-- C++ class names whose parsing constructor this family models -/
def classes : List String := ["IPv6"]

/-- the parsing constructor `cls(buffer, total_sz)` -/
def parse (cls : String) (b : Bytes) : Out (Obj × Inner) :=
  if cls == "IPv6" then (Ipv6.parse b) >>= fun (p, i) => pure (.ip6 p, i)
  else .throw .stdOther

/-- (actual class name, getter dump) -/
def info : Obj → String × Fields
  | .ip6 p => ("IPv6", p.fields)

def hdr : Obj → Nat
  | .ip6 p => p.hdr

def trl (_o : Obj) (_innerSize : Nat) : Nat := 0

/-- `write_serialization(buffer, total_sz)` on the layer's region -/
def write (cx : Ctx) : Obj → Bytes → Out Bytes
  | .ip6 p, region => p.write cx region

/-- public (non-parsing) constructors: `push IPv6 [dst src]` -/
def mk (cls : String) (args : List String) : Out Obj :=
  match cls, args with
  | "IPv6", [] => .ok (.ip6 (Ipv6.create (List.replicate 16 0) (List.replicate 16 0)))
  | "IPv6", [d, s] => match parseHexN 16 d, parseHexN 16 s with
    | some d, some s => .ok (.ip6 (Ipv6.create d s))
    | _, _ => .throw .stdOther
  | _, _ => .throw .stdOther

/-- one API call on the object: setters, add_header … -/
def apply : Obj → List String → Out Obj
  | .ip6 p, op => (p.apply op) >>= fun x => pure (.ip6 x)

end Tins.Wire.Ip6
