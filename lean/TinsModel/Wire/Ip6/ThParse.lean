import TinsModel.Wire.Ip6.Lemmas
/-
  IPv6, C01: the parsing constructor is safe on every byte string.
  * the jumbo option walk and the extension-header loop are proved by induction over the fuel with the stream
    invariant; the fuel the constructor hands out is never exhausted (every round consumes at least one / eight bytes);
  * every raw copy out of `stream.pointer()` (extension header data, payload) is covered by the `can_read` in front of it;
  * the object invariant `Inv` (field widths, header shapes) holds for everything the parser returns;
  * the inner constructor gets strictly fewer bytes than the buffer (termination of the nested constructors).
-/
namespace Tins.Wire.Ip6
open Tins Tins.Wire

namespace Ipv6

/-- what every `PDUOption<uint8_t, IPv6>` satisfies -/
structure HdrWF (h : ExtHdr) : Prop where
  option : h.option < 256
  lenField : h.lenField < 65536
  size : h.data.length < 65536

/-- what the parser stores: the length field is the data size, the data fills whole 8-octet units -/
structure HdrParsed (h : ExtHdr) : Prop where
  wf : HdrWF h
  len : h.lenField = h.data.length
  aligned : (h.data.length + 2) % 8 = 0
  fits : h.data.length + 2 ≤ 2048
  ext : (isExtensionHeader h.option && h.option != NO_NEXT_HEADER) = true

/-- invariant of every IPv6 object reachable by parsing or through the API -/
structure Inv (p : Ipv6) : Prop where
  version : p.version < 16
  trafficClass : p.trafficClass < 256
  flowLabel : p.flowLabel < 1048576
  payloadLength : p.payloadLength < 65536
  nextHeader : p.nextHeader < 256
  hopLimit : p.hopLimit < 256
  src : p.src.length = 16
  dst : p.dst.length = 16
  finalNext : p.finalNext < 256
  headers : ∀ h ∈ p.headers, HdrWF h

/-- the bytes handed to the inner constructor are at most `n` -/
def InnerBound (n : Nat) : Inner → Prop
  | .cls _ pb _ => pb.length ≤ n
  | .raw pb => pb.length ≤ n
  | .none => True

end Ipv6

open Ipv6

/-- **the jumbo option walk is safe for every stream state**: with the stream invariant and more fuel than bytes left it
    returns (a 32-bit value or "not present") or throws `malformed_packet` -/
theorem jumboWalk_spec (fuel : Nat) (o : Cursor) (hi : o.Inv) (hf : o.size < fuel) :
    (∃ r, jumboWalk fuel o = .ok r ∧ ∀ v, r = some v → v < 4294967296) ∨ jumboWalk fuel o = .throw .malformedPacket := by
  induction fuel generalizing o with
  | zero => omega
  | succ fuel ih =>
    unfold jumboWalk
    by_cases hb : o.toBool = true
    · simp only [hb, Bool.not_true, Bool.false_eq_true, if_false]
      rcases readU8_spec o hi with ⟨t, o1, e1, i1, s1, n1, _, _, _⟩ | ⟨e1, _⟩
      · simp only [e1, bind, Out.bind]
        by_cases hp : (t == PAD_1) = true
        · simp only [hp, if_true]
          exact ih o1 i1 (by omega)
        · simp only [hp, Bool.false_eq_true, if_false]
          rcases readU8_spec o1 i1 with ⟨sz, o2, e2, i2, s2, n2, _, _, _⟩ | ⟨e2, _⟩
          · simp only [e2]
            by_cases hj : (t == JUMBO_PAYLOAD) = true
            · simp only [hj, if_true]
              by_cases h4 : (sz != 4) = true
              · right; simp [h4]
              · simp only [h4, Bool.false_eq_true, if_false]
                rcases readBE_spec o2 4 i2 with ⟨v, o3, e3, _, _, _, _, _, hv⟩ | ⟨e3, _⟩
                · left; refine ⟨some v, by simp [e3, pure], ?_⟩
                  intro w hw; injection hw with hw; subst hw; simpa using hv
                · right; simp [e3]
            · simp only [hj, Bool.false_eq_true, if_false]
              rcases Cursor.skip_spec o2 sz i2 with ⟨o3, e3, i3, s3, _⟩ | ⟨e3, _⟩
              · simp only [e3]
                exact ih o3 i3 (by omega)
              · right; simp [e3]
          · right; simp [e2]
      · right; simp [e1, bind, Out.bind]
    · left
      simp only [hb, Bool.not_false, if_true]
      exact ⟨none, rfl, by intro v hv; cases hv⟩

/-- the jumbogram adjustment keeps `actual_payload_length` a 32-bit value or throws `malformed_packet` -/
theorem jumboAdjust_spec (apl cur : Nat) (c : Cursor) (n : Nat) (hi : c.Inv) (hn : n ≤ c.size) (ha : apl < 4294967296) :
    (∃ a, jumboAdjust apl cur c n = .ok a ∧ a < 4294967296) ∨ jumboAdjust apl cur c n = .throw .malformedPacket := by
  unfold jumboAdjust
  split
  · have hi' : (⟨c.mem, n⟩ : Cursor).Inv := by simp only [Cursor.Inv] at *; omega
    rcases jumboWalk_spec (n + 1) ⟨c.mem, n⟩ hi' (by simp) with ⟨r, er, hr⟩ | er
    · left
      simp only [er, bind, Out.bind, pure]
      cases r with
      | none => exact ⟨apl, rfl, ha⟩
      | some v => exact ⟨v, rfl, hr v rfl⟩
    · right; simp [er, bind, Out.bind]
  · left; exact ⟨apl, rfl, ha⟩

/-- **one extension header**: the stream advances by the header's size (at least 8 bytes), the invariant survives, the
    stored header has the parser's shape, the state stays in range — or `malformed_packet` -/
theorem extStep_spec (c : Cursor) (st : LoopSt) (hi : c.Inv) (hcur : st.cur < 256) (ha : st.apl < 4294967296)
    (hext : (isExtensionHeader st.cur && st.cur != NO_NEXT_HEADER) = true) :
    (∃ c' st', extStep c st = .ok (c', st') ∧ c'.Inv ∧ c'.size + 8 ≤ c.size ∧ st'.cur < 256 ∧ st'.apl < 4294967296 ∧
        ∃ h, st'.hs = st.hs ++ [h] ∧ HdrParsed h ∧ h.option = st.cur)
    ∨ extStep c st = .throw .malformedPacket := by
  unfold extStep
  rcases readU8_spec c hi with ⟨t, c1, e1, i1, s1, n1, _, _, ht⟩ | ⟨e1, _⟩
  · rcases readU8_spec c1 i1 with ⟨l, c2, e2, i2, s2, n2, _, _, hl⟩ | ⟨e2, _⟩
    · simp only [e1, e2, bind, Out.bind]
      by_cases hcr : c2.canRead ((l + 1) * 8 - 2) = true
      · have hle : (l + 1) * 8 - 2 ≤ c2.size := by simpa [Cursor.canRead] using hcr
        simp only [hcr, Bool.not_true, Bool.false_eq_true, if_false]
        rcases Cursor.peek_noFault "IPv6::IPv6 ext_header(current_header, payload_size, stream.pointer())" c2 0
          ((l + 1) * 8 - 2) i2 (by omega) with ⟨d, ed, hdl⟩
        simp only [ed]
        rcases jumboAdjust_spec st.apl st.cur c2 ((l + 1) * 8 - 2) i2 hle ha with ⟨a, ea, ha'⟩ | ea
        · simp only [ea]
          rcases Cursor.skip_spec c2 ((l + 1) * 8 - 2) i2 with ⟨c3, e3, i3, s3, _⟩ | ⟨e3, hlt⟩
          · left
            simp only [e3, pure]
            refine ⟨c3, _, rfl, i3, by omega, ht, by simp only [sub32]; omega, ⟨st.cur, (l + 1) * 8 - 2, d⟩, rfl, ?_, rfl⟩
            refine ⟨⟨hcur, ?_, ?_⟩, ?_, ?_, ?_, hext⟩ <;> simp only [hdl] <;> omega
          · omega
        · right; simp [ea]
      · right; simp [hcr]
    · right; simp [e1, e2, bind, Out.bind]
  · right; simp [e1, bind, Out.bind]

/-- the payload branch: the raw copy of `actual_payload_length` bytes is covered by `can_read` -/
theorem payloadStep_spec (c : Cursor) (st : LoopSt) (hi : c.Inv) :
    (∃ inner, payloadStep c st = .ok (st.hs, st.cur, inner) ∧ InnerBound c.size inner) ∨
      payloadStep c st = .throw .malformedPacket := by
  unfold payloadStep
  by_cases hcr : c.canRead st.apl = true
  · have hle : st.apl ≤ c.size := by simpa [Cursor.canRead] using hcr
    simp only [hcr, Bool.not_true, Bool.false_eq_true, if_false]
    rcases Cursor.peek_noFault "IPv6::IPv6 inner(stream.pointer(), actual_payload_length)" c 0 st.apl hi (by omega) with
      ⟨pb, ep, hpl⟩
    left
    simp only [ep, bind, Out.bind]
    split
    · exact ⟨_, rfl, by simp only [InnerBound]; omega⟩
    · split
      · exact ⟨_, rfl, by simp only [InnerBound]; omega⟩
      · exact ⟨_, rfl, by simp only [InnerBound]; omega⟩
  · right; simp [hcr]

/-- **the extension-header loop is safe for every stream state** -/
theorem parseLoop_spec (fuel : Nat) (c : Cursor) (st : LoopSt) (hi : c.Inv) (hf : c.size < fuel) (hcur : st.cur < 256)
    (ha : st.apl < 4294967296) (hhs : ∀ h ∈ st.hs, HdrParsed h) :
    (∃ hs cur inner, parseLoop fuel c st = .ok (hs, cur, inner) ∧ cur < 256 ∧ (∀ h ∈ hs, HdrParsed h) ∧ InnerBound c.size inner)
    ∨ parseLoop fuel c st = .throw .malformedPacket := by
  induction fuel generalizing c st with
  | zero => omega
  | succ fuel ih =>
    unfold parseLoop
    by_cases hb : c.toBool = true
    · simp only [hb, Bool.not_true, Bool.false_eq_true, if_false]
      split
      · rename_i hext
        rcases extStep_spec c st hi hcur ha hext with ⟨c', st', e, i', hs', hc', ha', h, hh, hp, _⟩ | e
        · simp only [e, bind, Out.bind]
          have hhs' : ∀ x ∈ st'.hs, HdrParsed x := by
            intro x hx
            rw [hh, List.mem_append, List.mem_singleton] at hx
            rcases hx with hx | hx
            · exact hhs x hx
            · subst hx; exact hp
          rcases ih c' st' i' (by omega) hc' ha' hhs' with ⟨hs, cur, inner, er, h1, h2, h3⟩ | er
          · left
            refine ⟨hs, cur, inner, er, h1, h2, ?_⟩
            cases inner <;> simp only [InnerBound] at * <;> omega
          · right; exact er
        · right; simp [e, bind, Out.bind]
      · rcases payloadStep_spec c st hi with ⟨inner, e, hb'⟩ | e
        · left; exact ⟨st.hs, st.cur, inner, e, hcur, hhs, hb'⟩
        · right; exact e
    · left
      simp only [hb, Bool.not_false, if_true]
      exact ⟨st.hs, st.cur, .none, rfl, hcur, hhs, trivial⟩

theorem ofHeader_inv (h : Bytes) (hl : h.length = 40) : (ofHeader h).Inv := by
  have b0 := byteAt_lt h 0; have b1 := byteAt_lt h 1; have b2 := byteAt_lt h 2; have b3 := byteAt_lt h 3
  have b4 := byteAt_lt h 4; have b5 := byteAt_lt h 5
  refine ⟨?_, ?_, ?_, ?_, byteAt_lt _ _, byteAt_lt _ _, ?_, ?_, ?_, ?_⟩ <;> simp only [ofHeader]
  · omega
  · omega
  · omega
  · omega
  · simp only [List.length_take, List.length_drop, hl]; omega
  · simp only [List.length_take, List.length_drop, hl]; omega
  · omega
  · intro x hx; cases hx

/-- shape of the parsing constructor after the fixed header has been read -/
theorem parse_unfold (b : Bytes) :
    Ipv6.parse b =
      if b.length < 40 then .throw .malformedPacket
      else
        let p := ofHeader (b.take 40)
        (parseLoop (b.length - 40 + 1) ⟨b.drop 40, b.length - 40⟩ ⟨p.nextHeader, p.payloadLength, false, []⟩) >>=
          fun (r : List ExtHdr × Nat × Inner) => pure ({ p with headers := r.1, finalNext := r.2.1 }, r.2.2) := by
  simp only [Ipv6.parse, read_ofBytes]
  by_cases h : b.length < 40
  · simp [h, bind, Out.bind]
  · simp only [h, if_false, bind, Out.bind]

/-- everything the parser can do, in one statement -/
theorem parse_spec (b : Bytes) :
    (∃ p inner, Ipv6.parse b = .ok (p, inner) ∧ p.Inv ∧ (∀ h ∈ p.headers, HdrParsed h) ∧ 40 ≤ b.length ∧
        InnerBound (b.length - 40) inner)
    ∨ Ipv6.parse b = .throw .malformedPacket := by
  rw [parse_unfold]
  split
  · right; rfl
  · rename_i h40
    have hpi := ofHeader_inv (b.take 40) (by simp only [List.length_take]; omega)
    have hci : (⟨b.drop 40, b.length - 40⟩ : Cursor).Inv := by simp [Cursor.Inv]
    rcases parseLoop_spec (b.length - 40 + 1) ⟨b.drop 40, b.length - 40⟩
        ⟨(ofHeader (b.take 40)).nextHeader, (ofHeader (b.take 40)).payloadLength, false, []⟩ hci (by simp) hpi.nextHeader
        (by have := hpi.payloadLength; simp only at this ⊢; omega) (by intro x hx; cases hx) with
      ⟨hs, cur, inner, e, hc, hh, hb⟩ | e
    · left
      simp only [e, bind, Out.bind, pure]
      refine ⟨_, inner, rfl, ?_, hh, by omega, hb⟩
      exact ⟨hpi.version, hpi.trafficClass, hpi.flowLabel, hpi.payloadLength, hpi.nextHeader, hpi.hopLimit, hpi.src, hpi.dst,
        hc, fun x hx => (hh x hx).wf⟩
    · right; simp [e, bind, Out.bind]

end Tins.Wire.Ip6

namespace Tins.Wire.Ip6
open Tins Tins.Wire Ipv6

/-- **C01 / IPv6**: on every byte string the parsing constructor returns a packet or throws `malformed_packet`; it never
    touches a byte outside the buffer (extension headers whose length octet exceeds the bytes present, payload lengths
    smaller than the headers — the `uint32_t` underflow —, jumbo options of any shape included) -/
theorem ipv6_parse_safe (b : Bytes) : ParseSafe (Ipv6.parse b) := by
  rcases parse_spec b with ⟨p, inner, e, _⟩ | e
  · exact .inl ⟨_, e⟩
  · exact .inr e

/-- the inner constructor is handed strictly fewer bytes than the buffer -/
theorem ipv6_parse_consumes (b : Bytes) (p : Ipv6) (name : String) (pb : Bytes) (fb : Bool)
    (h : Ipv6.parse b = .ok (p, .cls name pb fb)) : pb.length < b.length := by
  rcases parse_spec b with ⟨p', inner, e, _, _, h40, hb⟩ | e
  · rw [e] at h; injection h with h; injection h with _ hi; subst hi
    simp only [InnerBound] at hb; omega
  · rw [e] at h; cases h

/-- parsing establishes the invariant; every stored extension header has its length field equal to its data size, fills
    whole 8-octet units and is at most 2048 octets long -/
theorem ipv6_parse_inv (b : Bytes) (p : Ipv6) (i : Inner) (h : Ipv6.parse b = .ok (p, i)) :
    p.Inv ∧ ∀ x ∈ p.headers, HdrParsed x := by
  rcases parse_spec b with ⟨p', inner, e, hi, hh, _, _⟩ | e
  · rw [e] at h; injection h with h; injection h with hp _; subst hp; exact ⟨hi, hh⟩
  · rw [e] at h; cases h

/-- the fuel the constructor hands to the loop is never exhausted (`fuel_suffices`): the result does not depend on it -/
theorem ipv6_parse_never_out_of_fuel (b : Bytes) : ∀ s, Ipv6.parse b ≠ .fault s := by
  intro s h
  rcases ipv6_parse_safe b with ⟨a, e⟩ | e <;> rw [e] at h <;> cases h

-- non-vacuity: a hop-by-hop header in front of UDP; a length octet that exceeds the bytes present; the underflow case
example : ∃ p pb, Ipv6.parse ([0x60, 0, 0, 0, 0, 16, 0, 64] ++ List.replicate 32 0 ++ [17, 0, 1, 4, 0, 0, 0, 0] ++
    [0, 53, 0, 53, 0, 8, 0, 0]) = .ok (p, .cls "UDP" pb false) ∧ p.headers = [⟨0, 6, [1, 4, 0, 0, 0, 0]⟩] ∧ pb.length = 8 :=
  ⟨_, _, rfl, rfl, rfl⟩
example : Ipv6.parse ([0x60, 0, 0, 0, 0, 16, 0, 64] ++ List.replicate 32 0 ++ [17, 1, 1, 4, 0, 0, 0, 0]) =
    .throw .malformedPacket := rfl
example : Ipv6.parse ([0x60, 0, 0, 0, 0, 4, 0, 64] ++ List.replicate 32 0 ++ [17, 0, 1, 4, 0, 0, 0, 0] ++ [1, 2, 3, 4]) =
    .throw .malformedPacket := rfl

end Tins.Wire.Ip6
