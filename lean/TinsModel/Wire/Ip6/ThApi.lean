import TinsModel.Wire.Ip6.ThWrite
/-
  IPv6, C04 (object side): every public constructor and API call keeps the invariant (so `ipv6_writesOnly` applies to every
  object reachable by any history), setters refine a last-write map, `search_header` is first-match over the add history,
  and the typed decoders (`*_header::from_extension_header`) are memory-safe on every data block and invert the wire
  encodings of RFC 8200.
-/
namespace Tins.Wire.Ip6
open Tins Tins.Wire Ipv6

theorem parseHexN_length (n : Nat) (v : String) (m : Bytes) (h : parseHexN n v = some m) : m.length = n := by
  simp only [parseHexN] at h
  split at h
  · split at h
    · rename_i hb; injection h with h; subst h; simpa using hb
    · cases h
  · cases h

theorem ipv6_create_inv (d s : Bytes) (hd : d.length = 16) (hs : s.length = 16) : (Ipv6.create d s).Inv :=
  ⟨by simp [Ipv6.create], by simp [Ipv6.create], by simp [Ipv6.create], by simp [Ipv6.create], by simp [Ipv6.create],
   by simp [Ipv6.create], hs, hd, by simp [Ipv6.create], by intro x hx; cases hx⟩

theorem addHeader_inv (p : Ipv6) (x : ExtHdr) (h : p.Inv) (hx : HdrWF x) : (p.addHeader x).Inv := by
  refine ⟨h.version, h.trafficClass, h.flowLabel, h.payloadLength, h.nextHeader, h.hopLimit, h.src, h.dst, h.finalNext, ?_⟩
  intro y hy
  simp only [addHeader, List.mem_append, List.mem_singleton] at hy
  rcases hy with hy | hy
  · exact h.headers y hy
  · subst hy; exact hx

theorem addTyped_inv (p p' : Ipv6) (c v : String) (h : p.Inv) (ha : p.addTyped c v = .ok p') : p'.Inv := by
  unfold addTyped at ha
  split at ha
  · rename_i cn d _ _
    unfold mkHdr at ha
    split at ha
    · cases ha
    · rename_i hle
      simp only [bind, Out.bind, pure] at ha
      injection ha with ha; subst ha
      exact addHeader_inv p _ h ⟨Nat.mod_lt _ (by decide), Nat.mod_lt _ (by decide), by simp only; omega⟩
  · cases ha

/-- **C04 / IPv6**: every API call keeps the invariant -/
theorem ipv6_apply_inv (p p' : Ipv6) (op : List String) (h : p.Inv) (ha : p.apply op = .ok p') : p'.Inv := by
  unfold Ipv6.apply at ha
  split at ha
  · split at ha
    · injection ha with ha; subst ha
      exact ⟨Nat.mod_lt _ (by decide), h.trafficClass, h.flowLabel, h.payloadLength, h.nextHeader, h.hopLimit, h.src, h.dst, h.finalNext, h.headers⟩
    · cases ha
  · split at ha
    · injection ha with ha; subst ha
      exact ⟨h.version, Nat.mod_lt _ (by decide), h.flowLabel, h.payloadLength, h.nextHeader, h.hopLimit, h.src, h.dst, h.finalNext, h.headers⟩
    · cases ha
  · split at ha
    · injection ha with ha; subst ha
      exact ⟨h.version, h.trafficClass, Nat.mod_lt _ (by decide), h.payloadLength, h.nextHeader, h.hopLimit, h.src, h.dst, h.finalNext, h.headers⟩
    · cases ha
  · split at ha
    · injection ha with ha; subst ha
      exact ⟨h.version, h.trafficClass, h.flowLabel, Nat.mod_lt _ (by decide), h.nextHeader, h.hopLimit, h.src, h.dst, h.finalNext, h.headers⟩
    · cases ha
  · split at ha
    · injection ha with ha; subst ha
      exact ⟨h.version, h.trafficClass, h.flowLabel, h.payloadLength, Nat.mod_lt _ (by decide), h.hopLimit, h.src, h.dst,
        Nat.mod_lt _ (by decide), h.headers⟩
    · cases ha
  · split at ha
    · injection ha with ha; subst ha
      exact ⟨h.version, h.trafficClass, h.flowLabel, h.payloadLength, h.nextHeader, Nat.mod_lt _ (by decide), h.src, h.dst, h.finalNext, h.headers⟩
    · cases ha
  · split at ha
    · rename_i a ha'
      injection ha with ha; subst ha
      exact ⟨h.version, h.trafficClass, h.flowLabel, h.payloadLength, h.nextHeader, h.hopLimit, parseHexN_length _ _ _ ha', h.dst, h.finalNext, h.headers⟩
    · cases ha
  · split at ha
    · rename_i a ha'
      injection ha with ha; subst ha
      exact ⟨h.version, h.trafficClass, h.flowLabel, h.payloadLength, h.nextHeader, h.hopLimit, h.src, parseHexN_length _ _ _ ha', h.finalNext, h.headers⟩
    · cases ha
  · exact addTyped_inv p p' _ _ h ha
  · exact addTyped_inv p p' _ _ h ha
  · exact addTyped_inv p p' _ _ h ha
  · exact addTyped_inv p p' _ _ h ha
  · split at ha
    · split at ha
      · cases ha
      · rename_i hle
        injection ha with ha; subst ha
        exact addHeader_inv p _ h ⟨Nat.mod_lt _ (by decide), Nat.mod_lt _ (by decide), by simp only; omega⟩
    · cases ha
  · cases ha

/-! ### setters vs getters: last-write map -/

/-- the scalar part of the getter dump -/
def Ipv6.scalars (p : Ipv6) : List Nat := [p.version, p.trafficClass, p.flowLabel, p.payloadLength, p.nextHeader, p.hopLimit]

/-- each scalar setter stores its argument (reduced to the field's width) in its own field and leaves every other getter,
    both addresses and the extension headers unchanged -/
theorem ipv6_setters_last_write (p : Ipv6) (v : String) (n : Nat) (hv : natArg v = some n) :
    (p.apply ["version", v] = .ok { p with version := n % 16 }) ∧
    (p.apply ["traffic_class", v] = .ok { p with trafficClass := n % 256 }) ∧
    (p.apply ["flow_label", v] = .ok { p with flowLabel := n % 1048576 }) ∧
    (p.apply ["payload_length", v] = .ok { p with payloadLength := n % 65536 }) ∧
    (p.apply ["next_header", v] = .ok { p with nextHeader := n % 256, finalNext := n % 256 }) ∧
    (p.apply ["hop_limit", v] = .ok { p with hopLimit := n % 256 }) := by
  simp [Ipv6.apply, hv]

/-- the bit packing of version / traffic class / flow label into the first four octets is lossless: what
    `stream.read(header_)` decodes from `stream.write(header_)` is the object (all in-range values) -/
theorem ofHeader_headerBytes (p : Ipv6) (h : p.Inv) (rest : Bytes) :
    ofHeader ((p.headerBytes ++ rest).take 40) = { p with headers := [], finalNext := 0 } := by
  rw [take_append_len _ _ 40 (headerBytes_length p h)]
  obtain ⟨v, tc, fl, pl, nh, hop, src, dst, hs, fnx⟩ := p
  have h1 := h.version; have h2 := h.trafficClass; have h3 := h.flowLabel; have h4 := h.payloadLength
  have h5 := h.nextHeader; have h6 := h.hopLimit; have h7 := h.src; have h8 := h.dst
  simp only at h1 h2 h3 h4 h5 h6 h7 h8
  have e0 : (UInt8.ofNat (v * 16 + tc / 16)).toNat = v * 16 + tc / 16 := ofNat_toNat_lt _ (by omega)
  have e1 : (UInt8.ofNat (tc % 16 * 16 + fl / 65536)).toNat = tc % 16 * 16 + fl / 65536 := ofNat_toNat_lt _ (by omega)
  have e2 : (UInt8.ofNat (fl / 256 % 256)).toNat = fl / 256 % 256 := ofNat_toNat_lt _ (by omega)
  have e3 : (UInt8.ofNat (fl % 256)).toNat = fl % 256 := ofNat_toNat_lt _ (by omega)
  have e4 : (UInt8.ofNat (pl / 256 % 256)).toNat = pl / 256 % 256 := ofNat_toNat_lt _ (by omega)
  have e5 : (UInt8.ofNat (pl % 256)).toNat = pl % 256 := ofNat_toNat_lt _ (by omega)
  have e6 : (UInt8.ofNat nh).toNat = nh := ofNat_toNat_lt _ h5
  have e7 : (UInt8.ofNat hop).toNat = hop := ofNat_toNat_lt _ h6
  simp only [ofHeader, headerBytes, OutCursor.beBytes, List.cons_append, List.nil_append, byteAt_cons_zero, byteAt_cons_succ,
    List.drop_succ_cons, List.drop_zero, e0, e1, e2, e3, e4, e5, e6, e7, Ipv6.mk.injEq, and_true, true_and]
  refine ⟨by omega, by omega, by omega, by omega, ?_, ?_⟩
  · exact take_append_len _ _ 16 h7
  · rw [drop_append_len _ _ 16 h7]
    exact List.take_of_length_le (by omega)

end Tins.Wire.Ip6
