import TinsModel.Wire.Iface
import TinsModel.Wire.Tags
/-
  `Tins::IPv6` (src/ipv6.cpp, include/tins/ipv6.h), little-endian host.

  Wire layout of the fixed header (40 bytes): byte0 = version(4) << 4 | traffic_class >> 4,
  byte1 = (traffic_class & 15) << 4 | flow_label >> 16, byte2/3 = flow_label low 16 bits, payload_length (big-endian),
  next_header, hop_limit, src_addr[16], dst_addr[16].  The getters / setters of version, traffic_class and flow_label are
  shift-and-mask accessors on those bytes; the model keeps the three values and packs them in `headerBytes`.

  Extension headers are `PDUOption<uint8_t, IPv6>`: `option` is the header's *own* type (the parser stores the value it
  saw as "next header" in the previous header), `lenField` is `size_` (`length_field()`), `data` the stored bytes
  (`data_size()` = `real_size_`).  The chain of next-header octets on the wire is rebuilt by `write_serialization`.
-/
namespace Tins.Wire.Ip6

/-- decimal argument of a setter -/
def natArg (s : String) : Option Nat := s.toNat?

def byteAt (bs : Bytes) (i : Nat) : Nat := (bs.getD i 0).toNat

def parseHexN (n : Nat) (s : String) : Option Bytes :=
  match parseHexStr s with
  | some b => if b.length == n then some b else none
  | none => none

/-- `uint32_t` subtraction `a - b` (wraps).  The literal is the *first* summand on purpose: `Nat.add` recurses on its
    second argument, so `a + 4294967296` with a variable `a` sends the kernel's reduction into 2^32 unfoldings. -/
def sub32 (a b : Nat) : Nat := (4294967296 + a - b) % 4294967296

/-- `IPv6::ext_header` = `PDUOption<uint8_t, IPv6>` -/
structure ExtHdr where
  option : Nat          -- option_ (uint8_t)
  lenField : Nat        -- size_ (uint16_t)
  data : Bytes          -- real_size_ bytes
deriving Repr, DecidableEq

structure Ipv6 where
  version : Nat
  trafficClass : Nat
  flowLabel : Nat
  payloadLength : Nat
  nextHeader : Nat        -- header_.next_header
  hopLimit : Nat
  src : Bytes
  dst : Bytes
  headers : List ExtHdr   -- ext_headers_
  finalNext : Nat         -- next_header_ (private): what the last header / the fixed header names when nothing better is known
deriving Repr, DecidableEq

namespace Ipv6

def HOP_BY_HOP : Nat := 0
def ROUTING : Nat := 43
def FRAGMENT : Nat := 44
def AUTHENTICATION : Nat := 51
def NO_NEXT_HEADER : Nat := 59
def DESTINATION_OPTIONS : Nat := 60
def MOBILITY : Nat := 135
def PAD_1 : Nat := 0
def PAD_N : Nat := 1
def JUMBO_PAYLOAD : Nat := 194

/-- `IPv6::is_extension_header` (the authentication header, 51, is parsed by `IPSecAH` like under IPv4: its length
    field counts 4-octet units) -/
def isExtensionHeader (h : Nat) : Bool :=
  h == HOP_BY_HOP || h == DESTINATION_OPTIONS || h == ROUTING || h == FRAGMENT
    || h == DESTINATION_OPTIONS || h == MOBILITY || h == NO_NEXT_HEADER

/-- `IPv6::get_padding_size` -/
def paddingSize (h : ExtHdr) : Nat :=
  let padding := (h.data.length + 2) % 8
  if padding == 0 then 0 else 8 - padding

/-- one term of `IPv6::calculate_headers_size` -/
def hdrSize (h : ExtHdr) : Nat := h.data.length + 2 + paddingSize h

/-- `IPv6::calculate_headers_size` -/
def headersSize (hs : List ExtHdr) : Nat := (hs.map hdrSize).sum

/-- `IPv6::header_size()` -/
def hdr (p : Ipv6) : Nat := 40 + headersSize p.headers

/-- the fixed header as `stream.read(header_)` decodes it -/
def ofHeader (h : Bytes) : Ipv6 :=
  { version := byteAt h 0 / 16
    trafficClass := byteAt h 0 % 16 * 16 + byteAt h 1 / 16
    flowLabel := byteAt h 1 % 16 * 65536 + byteAt h 2 * 256 + byteAt h 3
    payloadLength := byteAt h 4 * 256 + byteAt h 5
    nextHeader := byteAt h 6
    hopLimit := byteAt h 7
    src := (h.drop 8).take 16
    dst := (h.drop 24).take 16
    headers := []
    finalNext := 0 }

/-- the `while (options)` walk over the data of a hop-by-hop header looking for the Jumbo Payload option
    (`some v` = found, value `v`; `none` = not present).  Every read goes through the `options` stream (fix of
    DESIGN §7 #27: the value used to be read with the outer stream).  Each round consumes at least one byte. -/
def jumboWalk : Nat → Cursor → Out (Option Nat)
  | 0, _ => .fault "IPv6::IPv6 jumbo option walk: out of fuel"
  | fuel + 1, o =>
    if !o.toBool then .ok none else do
      let (optType, o) ← o.readU8                       -- options.read<uint8_t>()
      if optType == PAD_1 then jumboWalk fuel o         -- continue
      else do
        let (optSize, o) ← o.readU8                     -- options.read<uint8_t>()
        if optType == JUMBO_PAYLOAD then
          if optSize != 4 then .throw .malformedPacket
          else do
            let (v, _) ← o.readBE 4                     -- options.read_be<uint32_t>()
            pure (some v)
        else do
          let o ← o.skip optSize                        -- options.skip(opt_size)
          jumboWalk fuel o

/-- state of the `while (stream)` loop of the parsing constructor -/
structure LoopSt where
  cur : Nat               -- current_header
  apl : Nat               -- actual_payload_length (uint32_t)
  frag : Bool             -- is_payload_fragmented
  hs : List ExtHdr        -- ext_headers_ so far
deriving Repr

/-- the jumbogram test inside the extension-header branch: with `actual_payload_length == 0` and a hop-by-hop header the
    option area (`InputMemoryStream options(stream.pointer(), payload_size)`) is searched for the Jumbo Payload option -/
def jumboAdjust (apl cur : Nat) (c : Cursor) (payloadSize : Nat) : Out Nat :=
  if apl == 0 && cur == HOP_BY_HOP then
    (jumboWalk (payloadSize + 1) ⟨c.mem, payloadSize⟩) >>= fun r => pure (match r with | some v => v | none => apl)
  else pure apl

/-- one round of the extension-header branch: the stream behind the header and the new loop state -/
def extStep (c : Cursor) (st : LoopSt) : Out (Cursor × LoopSt) := do
  let (extType, c) ← c.readU8                                     -- stream.read<uint8_t>()
  let (l, c) ← c.readU8                                           -- stream.read<uint8_t>()
  let extSize := (l + 1) * 8
  let payloadSize := extSize - 2
  if !c.canRead payloadSize then .throw .malformedPacket else do
  -- ext_header(current_header, payload_size, stream.pointer()): memcpy of payload_size bytes from the raw pointer
  let d ← c.peek "IPv6::IPv6 ext_header(current_header, payload_size, stream.pointer())" 0 payloadSize
  let apl ← jumboAdjust st.apl st.cur c payloadSize
  let c' ← c.skip payloadSize                                     -- stream.skip(payload_size)
  pure (c', ⟨extType, sub32 apl extSize,  -- actual_payload_length -= ext_size (uint32_t)
             st.frag || st.cur == FRAGMENT, st.hs ++ [⟨st.cur, payloadSize, d⟩]⟩)

/-- the payload branch: `RawPDU(stream.pointer(), actual_payload_length)` behind a fragment header, else
    `pdu_from_flag(current_header, stream.pointer(), actual_payload_length, false)`, RawPDU when that knows no class -/
def payloadStep (c : Cursor) (st : LoopSt) : Out (List ExtHdr × Nat × Inner) :=
  if !c.canRead st.apl then .throw .malformedPacket else do
  let pb ← c.peek "IPv6::IPv6 inner(stream.pointer(), actual_payload_length)" 0 st.apl
  if st.frag then .ok (st.hs, st.cur, .raw pb)
  else match Tags.classOfIpProto st.cur with
    | some cls => .ok (st.hs, st.cur, .cls cls pb false)
    | none => .ok (st.hs, st.cur, .raw pb)

/-- the `while (stream)` loop: extension headers (each round consumes at least 8 bytes), then the payload.
    Result: headers, final `current_header`, inner PDU. -/
def parseLoop : Nat → Cursor → LoopSt → Out (List ExtHdr × Nat × Inner)
  | 0, _, _ => .fault "IPv6::IPv6 header loop: out of fuel"
  | fuel + 1, c, st =>
    if !c.toBool then .ok (st.hs, st.cur, .none)
    else if isExtensionHeader st.cur && st.cur != NO_NEXT_HEADER then
      (extStep c st) >>= fun (c', st') => parseLoop fuel c' st'
    else payloadStep c st

/-- `IPv6::IPv6(const uint8_t* buffer, uint32_t total_sz)` -/
def parse (b : Bytes) : Out (Ipv6 × Inner) := do
  let c := Cursor.ofBytes b
  let (h, c) ← c.read 40                                            -- stream.read(header_)
  let p := ofHeader h
  let (hs, cur, inner) ← parseLoop (c.size + 1) c ⟨p.nextHeader, p.payloadLength, false, []⟩
  pure ({ p with headers := hs, finalNext := cur }, inner)

/-- the `while (is_extension_header(current_header))` loop of `IPv6::extract_metadata` (here `NO_NEXT_HEADER` counts as a
    header too): every access is a checked stream read, each round consumes at least 8 bytes -/
def metadataLoop : Nat → Cursor → Nat → Nat → Out Nat
  | 0, _, _, _ => .fault "IPv6::extract_metadata: out of fuel"
  | fuel + 1, c, cur, headerSize =>
    if !isExtensionHeader cur then .ok headerSize else do
      let (nxt, c) ← c.readU8                                   -- current_header = stream.read<uint8_t>()
      let (l, c) ← c.readU8
      let extSize := (l + 1) * 8
      let c ← c.skip (extSize - 2)                              -- stream.skip(payload_size)
      metadataLoop fuel c nxt ((headerSize + extSize) % 4294967296)

/-- `IPv6::extract_metadata(buffer, total_sz)`: the header size (40 + extension headers) or `malformed_packet`; the raw
    cast `(const ipv6_header*)buffer` reads byte 6 after `total_sz >= 40` has been checked -/
def extractMetadata (b : Bytes) : Out Nat :=
  if b.length < 40 then .throw .malformedPacket else do
    let nh ← rd "IPv6::extract_metadata header->next_header" b 6
    let c ← (Cursor.ofBytes b).skip 40
    metadataLoop (c.size + 1) c nh.toNat 40

/-- `IPv6::search_header`: first header of that type -/
def searchHeader (p : Ipv6) (id : Nat) : Option ExtHdr := p.headers.find? (·.option == id)

/-! ### typed decoders (`*_header::from_extension_header`) -/

/-- `IPv6::parse_header_options(data, size)`: `none` = `invalid_ipv6_extension_header`.
    PAD_1 and PAD_N are skipped; every other option is kept as (type, bytes). -/
def parseHeaderOptions : Nat → Cursor → List (Nat × Bytes) → Out (Option (List (Nat × Bytes)))
  | 0, _, _ => .fault "IPv6::parse_header_options: out of fuel"
  | fuel + 1, c, acc =>
    if c.size == 0 then .ok (some acc) else
    match c.readU8 with                                  -- try { stream.read<uint8_t>() } catch (malformed_packet&)
    | .throw _ => .ok none
    | .fault s => .fault s
    | .ok (opt, c) =>
      if opt == PAD_1 then parseHeaderOptions fuel c acc else
      match c.readU8 with
      | .throw _ => .ok none
      | .fault s => .fault s
      | .ok (size, c) =>
        if size > c.size then .ok none else
        -- vector<uint8_t>(stream.pointer(), stream.pointer() + size)
        match c.peek "IPv6::parse_header_options vector(stream.pointer(), stream.pointer() + size)" 0 size with
        | .throw _ => .ok none
        | .fault s => .fault s
        | .ok d =>
          let acc := if opt != PAD_N then acc ++ [(opt, d)] else acc
          match c.skip size with
          | .throw _ => .ok none
          | .fault s => .fault s
          | .ok c => parseHeaderOptions fuel c acc

/-- `hop_by_hop_header::from_extension_header` / `destination_routing_header::from_extension_header` on a header of the
    right type -/
def decodeOptions (h : ExtHdr) : Out (Option (List (Nat × Bytes))) :=
  parseHeaderOptions (h.data.length + 1) (Cursor.ofBytes h.data) []

/-- `routing_header::from_extension_header` on a ROUTING header: (routing_type, segments_left, data);
    fewer than 2 bytes: `malformed_packet` -/
def decodeRouting (h : ExtHdr) : Out (Nat × Nat × Bytes) := do
  let c := Cursor.ofBytes h.data
  let (t, c) ← c.readU8
  let (s, c) ← c.readU8
  let d ← Cursor.rest "IPv6::routing_header data.assign(stream.pointer(), stream.pointer() + stream.size())" c
  pure (t, s, d)

/-- `fragment_header::from_extension_header` on a FRAGMENT header: (fragment_offset, more_fragments, identification) -/
def decodeFragment (h : ExtHdr) : Out (Nat × Bool × Nat) := do
  let c := Cursor.ofBytes h.data
  let (field, c) ← c.readBE 2
  let (ident, _) ← c.readBE 4
  pure (field / 8, field % 2 == 1, ident)

def optsStr (os : List (Nat × Bytes)) : String :=
  if os.isEmpty then "none" else "+".intercalate (os.map (fun (t, d) => s!"{t}.{hexStr d}"))

def optionsGetter (p : Ipv6) (id : Nat) : String :=
  match p.searchHeader id with
  | none => "nf"
  | some h => match decodeOptions h with
    | .ok (some os) => optsStr os
    | .ok none => "invalid"
    | .throw _ => "invalid"
    | .fault s => s!"fault:{s}"

def routingGetter (p : Ipv6) : String :=
  match p.searchHeader ROUTING with
  | none => "nf"
  | some h => match decodeRouting h with
    | .ok (t, s, d) => s!"{t}.{s}.{hexStr d}"
    | .throw _ => "malformed"
    | .fault s => s!"fault:{s}"

def fragmentGetter (p : Ipv6) : String :=
  match p.searchHeader FRAGMENT with
  | none => "nf"
  | some h => match decodeFragment h with
    | .ok (off, more, ident) => s!"{off}.{if more then 1 else 0}.{ident}"
    | .throw _ => "malformed"
    | .fault s => s!"fault:{s}"

/-! ### dump -/

/-- the data of a header as it is on the wire: zero padded to the 8-octet boundary (alignment padding is derived) -/
def paddedData (h : ExtHdr) : Bytes := h.data ++ List.replicate (paddingSize h) 0

def hdrStr (h : ExtHdr) : String := s!"{h.option}:{hexStr (paddedData h)}"
def hdrRawStr (h : ExtHdr) : String := s!"{h.lenField}.{h.data.length}"

def headersStr (hs : List ExtHdr) : String := if hs.isEmpty then "-" else ",".intercalate (hs.map hdrStr)
def headersRawStr (hs : List ExtHdr) : String := if hs.isEmpty then "-" else ",".intercalate (hs.map hdrRawStr)

/-- getter dump.  `next_header()` returns the fixed header's field: the tag of the payload when there are no extension
    headers (`^`), but a value `write_serialization` overwrites with the first extension header's type when there are
    (`~`: derived). -/
def fields (p : Ipv6) : Fields :=
  [("version", toString p.version), ("traffic_class", toString p.trafficClass), ("flow_label", toString p.flowLabel),
   ("~payload_length", toString p.payloadLength),
   (if p.headers.isEmpty then "^next_header" else "~next_header", toString p.nextHeader),
   ("hop_limit", toString p.hopLimit), ("src_addr", hexStr p.src), ("dst_addr", hexStr p.dst),
   ("headers", headersStr p.headers), ("~hdr_raw", headersRawStr p.headers),
   ("hop_by_hop", p.optionsGetter HOP_BY_HOP), ("dest_opts", p.optionsGetter DESTINATION_OPTIONS),
   ("routing", p.routingGetter), ("fragment", p.fragmentGetter)]

/-! ### serialization -/

/-- the 40 bytes `stream.write(header_)` emits -/
def headerBytes (p : Ipv6) : Bytes :=
  [UInt8.ofNat (p.version * 16 + p.trafficClass / 16), UInt8.ofNat (p.trafficClass % 16 * 16 + p.flowLabel / 65536),
   UInt8.ofNat (p.flowLabel / 256 % 256), UInt8.ofNat (p.flowLabel % 256)] ++
  OutCursor.beBytes 2 p.payloadLength ++ [UInt8.ofNat p.nextHeader, UInt8.ofNat p.hopLimit] ++ p.src ++ p.dst

/-- the length octet `write_header` stores (as `uint8_t`) -/
def lengthOctet (h : ExtHdr) : Nat :=
  if h.lenField == h.data.length then (hdrSize h / 8 - 1) % 256      -- derived from what is written
  else h.lenField / 8 % 256                                          -- spoofed length field

/-- `IPv6::write_header(header, stream)`; `opt` is the header's `option()` at that moment = the type of the header after it -/
def writeHeader (o : OutCursor) (h : ExtHdr) (opt : Nat) : Out OutCursor := do
  let o ← o.write [UInt8.ofNat opt]                          -- stream.write(header.option())
  let o ← o.write [UInt8.ofNat (lengthOctet h)]              -- stream.write(length)
  let o ← o.write h.data                                     -- stream.write(header.data_ptr(), header.data_size())
  o.fill (paddingSize h) 0                                   -- stream.fill(get_padding_size(header), 0)

/-- the loop over `ext_headers_`, each paired with the next-header octet it carries during serialization -/
def writeHeaders (o : OutCursor) : List (ExtHdr × Nat) → Out OutCursor
  | [] => .ok o
  | (h, opt) :: rest => do
    let o ← writeHeader o h opt
    writeHeaders o rest

/-- the value `set_last_next_header` receives: the inner PDU's protocol number when `pdu_flag_to_ip_type` knows it,
    else the stored `next_header_`; NO_NEXT_HEADER (59) without inner PDU -/
def lastNext (cx : Ctx) (p : Ipv6) : Nat :=
  match cx.innerCls with
  | some cls =>
    let f := Tags.ipProtoOfPduType (Tags.pduTypeOf cls)
    if f != 255 then f else p.finalNext
  | none => NO_NEXT_HEADER

/-- the next-header octets on the wire: (the fixed header's, one per extension header).  Header `i` carries the type of
    header `i + 1`, the last one (or the fixed header when there is none) carries `last`. -/
def wireChain (p : Ipv6) (last : Nat) : Nat × List Nat :=
  match p.headers.map (·.option) with
  | [] => (last, [])
  | t :: ts => (t, ts ++ [last])

/-- `IPv6::write_serialization` -/
def write (cx : Ctx) (p : Ipv6) (region : Bytes) : Out Bytes := do
  let (nh, nexts) := wireChain p (lastNext cx p)
  -- payload_length(static_cast<uint16_t>(total_sz - sizeof(header_)))
  let p1 := { p with nextHeader := nh, payloadLength := sub32 region.length 40 % 65536 }
  let o ← (OutCursor.ofRegion region).write p1.headerBytes
  let o ← writeHeaders o (p.headers.zip nexts)
  pure o.buffer

/-! ### API -/

/-- `IPv6::IPv6(address_type ip_dst, address_type ip_src)` -/
def create (dst src : Bytes) : Ipv6 :=
  { version := 6, trafficClass := 0, flowLabel := 0, payloadLength := 0, nextHeader := 0, hopLimit := 0,
    src := src, dst := dst, headers := [], finalNext := 0 }

/-- `ext_header(type, begin, end)`: more than 65535 bytes: `option_payload_too_large` -/
def mkHdr (code : Nat) (d : Bytes) : Out ExtHdr :=
  if d.length > 65535 then .throw .optionPayloadTooLarge else .ok ⟨code, d.length % 65536, d⟩

/-- `IPv6::add_header` -/
def addHeader (p : Ipv6) (h : ExtHdr) : Ipv6 := { p with headers := p.headers ++ [h] }

def addTyped (p : Ipv6) (code : String) (v : String) : Out Ipv6 :=
  match natArg code, parseHexStr v with
  | some c, some d => do let h ← mkHdr (c % 256) d; pure (p.addHeader h)
  | _, _ => .throw .stdOther

def apply (p : Ipv6) : List String → Out Ipv6
  | ["version", v] => match natArg v with | some n => .ok { p with version := n % 16 } | none => .throw .stdOther
  | ["traffic_class", v] => match natArg v with | some n => .ok { p with trafficClass := n % 256 } | none => .throw .stdOther
  | ["flow_label", v] => match natArg v with | some n => .ok { p with flowLabel := n % 1048576 } | none => .throw .stdOther
  | ["payload_length", v] => match natArg v with | some n => .ok { p with payloadLength := n % 65536 } | none => .throw .stdOther
  | ["next_header", v] => match natArg v with
    | some n => .ok { p with nextHeader := n % 256, finalNext := n % 256 }     -- next_header_ = header_.next_header = v
    | none => .throw .stdOther
  | ["hop_limit", v] => match natArg v with | some n => .ok { p with hopLimit := n % 256 } | none => .throw .stdOther
  | ["src_addr", v] => match parseHexN 16 v with | some a => .ok { p with src := a } | none => .throw .stdOther
  | ["dst_addr", v] => match parseHexN 16 v with | some a => .ok { p with dst := a } | none => .throw .stdOther
  | ["add_header", c, v] => p.addTyped c v
  | ["add_header_copy", c, v] => p.addTyped c v
  | ["add_ext_header", c, v] => p.addTyped c v
  | ["add_header_ptr", c, v] => p.addTyped c v
  | ["add_header_len", c, l, v] => match natArg c, natArg l, parseHexStr v with
    | some c, some l, some d =>
      if d.length > 65535 then .throw .optionPayloadTooLarge
      else .ok (p.addHeader ⟨c % 256, l % 65536, d⟩)
    | _, _, _ => .throw .stdOther
  | _ => .throw .stdOther

end Ipv6
end Tins.Wire.Ip6
