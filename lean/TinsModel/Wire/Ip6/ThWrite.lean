import TinsModel.Wire.Ip6.ThParse
/-
  IPv6, C02: `header_size()` (= 40 + `calculate_headers_size`) equals the number of bytes `write_serialization` emits for
  every list of extension headers and every data size (DESIGN §7 #18: also for data sizes 7 modulo 8), the writer
  succeeds on every region that is large enough and rewrites exactly those bytes.
-/
namespace Tins.Wire.Ip6
open Tins Tins.Wire Ipv6

namespace Ipv6

/-- the bytes `write_header` emits for one header carrying next-header octet `opt` -/
def hdrBytes (h : ExtHdr) (opt : Nat) : Bytes :=
  [UInt8.ofNat opt, UInt8.ofNat (lengthOctet h)] ++ h.data ++ List.replicate (paddingSize h) 0

def flatHeaders (hs : List (ExtHdr × Nat)) : Bytes := hs.flatMap (fun x => hdrBytes x.1 x.2)

/-- the size function counts what the writer emits, header by header -/
theorem hdrBytes_length (h : ExtHdr) (opt : Nat) : (hdrBytes h opt).length = hdrSize h := by
  simp [hdrBytes, hdrSize]; omega

/-- **size exactness of one header, all data sizes**: type + length + data + padding is a positive multiple of 8 -/
theorem hdrSize_mod8 (h : ExtHdr) : hdrSize h % 8 = 0 ∧ 8 ≤ hdrSize h ∧ hdrSize h < h.data.length + 10 := by
  unfold hdrSize paddingSize
  simp only
  split
  · rename_i h0; simp only [beq_iff_eq] at h0; omega
  · rename_i h0; simp only [beq_iff_eq] at h0; omega

/-- **DESIGN §7 #18, all data sizes**: unless the length field is spoofed, the length octet times 8 plus 8 is exactly the
    number of bytes written for the header (including the residue class 7 modulo 8, where `data_size / 8` was one short),
    as long as the header fits the 8-bit field -/
theorem lengthOctet_exact (h : ExtHdr) (hl : h.lenField = h.data.length) (hf : hdrSize h ≤ 2048) :
    (lengthOctet h + 1) * 8 = hdrSize h := by
  have ⟨hm, h8, _⟩ := hdrSize_mod8 h
  unfold lengthOctet
  simp only [hl, beq_self_eq_true, if_true]
  have : hdrSize h / 8 - 1 < 256 := by omega
  rw [Nat.mod_eq_of_lt this]
  omega

theorem flatHeaders_length (hs : List (ExtHdr × Nat)) : (flatHeaders hs).length = headersSize (hs.map (·.1)) := by
  induction hs with
  | nil => rfl
  | cons x xs ih =>
    simp only [flatHeaders, List.flatMap_cons, List.length_append, hdrBytes_length, headersSize, List.map_cons,
      List.sum_cons] at *
    omega

theorem headerBytes_length (p : Ipv6) (h : p.Inv) : p.headerBytes.length = 40 := by
  simp [headerBytes, h.src, h.dst]

end Ipv6

/-- one `write_header` call that fits: four stream operations, closed form -/
theorem writeHeader_ok (o : OutCursor) (h : ExtHdr) (opt : Nat) (hi : o.Inv) (hs : hdrSize h ≤ o.size) :
    writeHeader o h opt = .ok ⟨o.done ++ hdrBytes h opt, o.rest.drop (hdrSize h), o.size - hdrSize h⟩ ∧
      (⟨o.done ++ hdrBytes h opt, o.rest.drop (hdrSize h), o.size - hdrSize h⟩ : OutCursor).Inv := by
  have hsz : hdrSize h = h.data.length + 2 + paddingSize h := rfl
  rcases owrite_ok o [UInt8.ofNat opt] hi (by simp; omega) with ⟨w1, i1⟩
  rcases owrite_ok _ [UInt8.ofNat (lengthOctet h)] i1 (by simp; omega) with ⟨w2, i2⟩
  rcases owrite_ok _ h.data i2 (by simp; omega) with ⟨w3, i3⟩
  rcases ofill_ok _ (paddingSize h) 0 i3 (by simp; omega) with ⟨w4, i4⟩
  simp only [List.length_cons, List.length_nil] at w1 w2 w3 w4 i4
  have heq : (⟨o.done ++ [UInt8.ofNat opt] ++ [UInt8.ofNat (lengthOctet h)] ++ h.data ++ List.replicate (paddingSize h) 0,
      List.drop (paddingSize h) (List.drop h.data.length (List.drop (0 + 1) (List.drop (0 + 1) o.rest))),
      o.size - (0 + 1) - (0 + 1) - h.data.length - paddingSize h⟩ : OutCursor) =
      ⟨o.done ++ hdrBytes h opt, o.rest.drop (hdrSize h), o.size - hdrSize h⟩ := by
    simp only [hdrBytes, List.append_assoc, List.drop_drop, OutCursor.mk.injEq, List.cons_append, List.nil_append, true_and]
    constructor
    · congr 1; omega
    · omega
  rw [heq] at w4 i4
  refine ⟨?_, i4⟩
  rw [writeHeader, w1, Out.bind_ok, w2, Out.bind_ok, w3, Out.bind_ok, w4]

/-- the loop over the extension headers writes their concatenated encodings (any number of headers, induction) -/
theorem writeHeaders_ok (hs : List (ExtHdr × Nat)) (o : OutCursor) (hi : o.Inv) (hsz : headersSize (hs.map (·.1)) ≤ o.size) :
    writeHeaders o hs = .ok ⟨o.done ++ flatHeaders hs, o.rest.drop (headersSize (hs.map (·.1))),
      o.size - headersSize (hs.map (·.1))⟩ := by
  induction hs generalizing o with
  | nil => simp [writeHeaders, flatHeaders, headersSize]
  | cons x xs ih =>
    have hl : headersSize ((x :: xs).map (·.1)) = hdrSize x.1 + headersSize (xs.map (·.1)) := by simp [headersSize]
    rw [hl] at hsz ⊢
    rcases writeHeader_ok o x.1 x.2 hi (by omega) with ⟨w1, i1⟩
    have := ih _ i1 (by simp only; omega)
    obtain ⟨h, opt⟩ := x
    simp only at w1 this hsz ⊢
    rw [writeHeaders, w1, Out.bind_ok, this]
    simp only [flatHeaders, List.flatMap_cons, List.append_assoc, List.drop_drop, OutCursor.mk.injEq, Out.ok.injEq, true_and]
    first
      | omega
      | (constructor
         · congr 1
         · omega)

/-- the next-header octets paired with the headers cover all of them -/
theorem wireChain_length (p : Ipv6) (last : Nat) : (wireChain p last).2.length = p.headers.length := by
  unfold wireChain
  cases hm : p.headers.map (·.option) with
  | nil =>
    have : p.headers = [] := by simpa using hm
    simp [this]
  | cons t ts =>
    have := congrArg List.length hm
    simp only [List.length_map, List.length_cons] at this
    simp only [List.length_append, List.length_cons, List.length_nil]; omega

theorem zip_map_fst {α β} (a : List α) (b : List β) (h : b.length = a.length) : (a.zip b).map (·.1) = a := by
  induction a generalizing b with
  | nil => simp
  | cons x xs ih =>
    cases b with
    | nil => simp at h
    | cons y ys => simp only [List.zip_cons_cons, List.map_cons, List.cons.injEq, true_and]; exact ih ys (by simpa using h)

/-- the object whose fixed header `write_serialization` stores -/
def Ipv6.written (cx : Ctx) (p : Ipv6) (total : Nat) : Ipv6 :=
  { p with nextHeader := (wireChain p (lastNext cx p)).1, payloadLength := sub32 total 40 % 65536 }

/-- the extension headers with the next-header octets they carry on the wire -/
def Ipv6.wireHeaders (cx : Ctx) (p : Ipv6) : List (ExtHdr × Nat) := p.headers.zip (wireChain p (lastNext cx p)).2

theorem lastNext_lt (cx : Ctx) (p : Ipv6) (h : p.Inv) : lastNext cx p < 256 := by
  unfold lastNext
  split
  · simp only
    split
    · exact ipProtoOfPduType_lt _
    · exact h.finalNext
  · simp only [NO_NEXT_HEADER]; omega

theorem written_nextHeader_lt (cx : Ctx) (p : Ipv6) (h : p.Inv) : (wireChain p (lastNext cx p)).1 < 256 := by
  simp only [wireChain]
  cases hm : p.headers.map (·.option) with
  | nil => exact lastNext_lt cx p h
  | cons t ts =>
    simp only
    have : t ∈ p.headers.map (·.option) := by rw [hm]; exact List.mem_cons_self
    rcases List.mem_map.mp this with ⟨x, hx, rfl⟩
    exact (h.headers x hx).option

theorem written_inv (cx : Ctx) (p : Ipv6) (h : p.Inv) (total : Nat) : (Ipv6.written cx p total).Inv := by
  constructor
  · exact h.version
  · exact h.trafficClass
  · exact h.flowLabel
  · show sub32 total 40 % 65536 < 65536
    omega
  · exact written_nextHeader_lt cx p h
  · exact h.hopLimit
  · exact h.src
  · exact h.dst
  · exact h.finalNext
  · exact h.headers

/-- closed form of `IPv6::write_serialization` -/
theorem ipv6_write_eq (cx : Ctx) (p : Ipv6) (h : p.Inv) (region : Bytes) (hr : p.hdr ≤ region.length) :
    p.write cx region =
      .ok ((Ipv6.written cx p region.length).headerBytes ++ flatHeaders (Ipv6.wireHeaders cx p) ++ region.drop p.hdr) := by
  simp only [Ipv6.hdr] at hr
  have o0 : (OutCursor.ofRegion region).Inv := by simp [OutCursor.ofRegion, OutCursor.Inv]
  have hb := headerBytes_length _ (written_inv cx p h region.length)
  rcases owrite_ok (OutCursor.ofRegion region) (Ipv6.written cx p region.length).headerBytes o0
    (by simp [OutCursor.ofRegion, hb]; omega) with ⟨w1, i1⟩
  have hmap : (Ipv6.wireHeaders cx p).map (·.1) = p.headers := zip_map_fst _ _ (wireChain_length p _)
  have w2 := writeHeaders_ok (Ipv6.wireHeaders cx p) _ i1 (by rw [hmap]; simp [OutCursor.ofRegion, hb]; omega)
  have hdef : p.write cx region = ((OutCursor.ofRegion region).write (Ipv6.written cx p region.length).headerBytes >>= fun o =>
      writeHeaders o (Ipv6.wireHeaders cx p) >>= fun o => pure o.buffer) := rfl
  rw [hdef, w1, Out.bind_ok, w2, Out.bind_ok, hmap]
  simp only [Out.pure_eq, OutCursor.buffer, OutCursor.ofRegion, List.nil_append, List.drop_drop, hb, Ipv6.hdr, List.append_assoc]

def ipv6Sem (cx : Ctx) (p : Ipv6) : LayerSem := { name := "IPv6", hdr := p.hdr, trl := 0, write := p.write cx }

/-- **C02 / IPv6**: for every object satisfying the invariant (any list of extension headers, any data sizes, spoofed
    length fields included) `write_serialization` succeeds on every region of at least `header_size()` bytes and rewrites
    exactly those bytes: size function and writer agree -/
theorem ipv6_writesOnly (cx : Ctx) (p : Ipv6) (h : p.Inv) : WritesOnly (ipv6Sem cx p) := by
  apply writesOnly_of_header_only _ rfl
  intro region hr
  simp only [ipv6Sem] at hr
  have hmap : (Ipv6.wireHeaders cx p).map (·.1) = p.headers := zip_map_fst _ _ (wireChain_length p _)
  have hlen : ((Ipv6.written cx p region.length).headerBytes ++ flatHeaders (Ipv6.wireHeaders cx p)).length = p.hdr := by
    simp only [List.length_append, headerBytes_length _ (written_inv cx p h region.length), flatHeaders_length, hmap, Ipv6.hdr]
  refine ⟨_, ipv6_write_eq cx p h region hr, ?_, ?_⟩
  · simp only [List.length_append, List.length_drop] at hlen ⊢; omega
  · simp only [ipv6Sem]
    exact drop_append_len _ _ p.hdr hlen

/-- a region shorter than `header_size()` makes the stream throw `serialization_error` or succeed in part — it never
    writes outside the region: the writer is fault-free on every region -/
theorem writeHeaders_noFault (hs : List (ExtHdr × Nat)) (o : OutCursor) (hi : o.Inv) : (writeHeaders o hs).isFault = false := by
  induction hs generalizing o with
  | nil => rfl
  | cons x xs ih =>
    obtain ⟨h, opt⟩ := x
    by_cases hfit : hdrSize h ≤ o.size
    · rcases writeHeader_ok o h opt hi hfit with ⟨w, i⟩
      rw [writeHeaders, w, Out.bind_ok]; exact ih _ i
    · -- some write of the four throws serialization_error
      have hsz : hdrSize h = h.data.length + 2 + paddingSize h := rfl
      rw [writeHeaders, writeHeader]
      by_cases h1 : 1 ≤ o.size
      · rcases owrite_ok o [UInt8.ofNat opt] hi (by simpa using h1) with ⟨w1, i1⟩
        rw [w1, Out.bind_ok]
        by_cases h2 : 2 ≤ o.size
        · rcases owrite_ok _ [UInt8.ofNat (lengthOctet h)] i1 (by simp; omega) with ⟨w2, i2⟩
          rw [w2, Out.bind_ok]
          by_cases h3 : h.data.length + 2 ≤ o.size
          · rcases owrite_ok _ h.data i2 (by simp; omega) with ⟨w3, i3⟩
            rw [w3, Out.bind_ok]
            have : (OutCursor.fill ⟨o.done ++ [UInt8.ofNat opt] ++ [UInt8.ofNat (lengthOctet h)] ++ h.data,
                List.drop h.data.length (List.drop [UInt8.ofNat (lengthOctet h)].length (List.drop [UInt8.ofNat opt].length o.rest)),
                o.size - [UInt8.ofNat opt].length - [UInt8.ofNat (lengthOctet h)].length - h.data.length⟩ (paddingSize h) 0) =
                .throw .serializationError := by
              simp only [OutCursor.fill, List.length_cons, List.length_nil]
              have : o.size - (0 + 1) - (0 + 1) - h.data.length < paddingSize h := by omega
              simp [this]
            rw [this]; rfl
          · have : (OutCursor.write ⟨o.done ++ [UInt8.ofNat opt] ++ [UInt8.ofNat (lengthOctet h)],
                List.drop [UInt8.ofNat (lengthOctet h)].length (List.drop [UInt8.ofNat opt].length o.rest),
                o.size - [UInt8.ofNat opt].length - [UInt8.ofNat (lengthOctet h)].length⟩ h.data) = .throw .serializationError := by
              simp only [OutCursor.write, List.length_cons, List.length_nil]
              have : o.size - (0 + 1) - (0 + 1) < h.data.length := by omega
              simp [this]
            rw [this]; rfl
        · have : (OutCursor.write ⟨o.done ++ [UInt8.ofNat opt], List.drop [UInt8.ofNat opt].length o.rest,
              o.size - [UInt8.ofNat opt].length⟩ [UInt8.ofNat (lengthOctet h)]) = .throw .serializationError := by
            simp only [OutCursor.write, List.length_cons, List.length_nil]
            have : o.size - (0 + 1) < 0 + 1 := by omega
            simp [this]
          rw [this]; rfl
      · have : o.write [UInt8.ofNat opt] = .throw .serializationError := by
          simp only [OutCursor.write, List.length_cons, List.length_nil]
          have : o.size < 0 + 1 := by omega
          simp [this]
        rw [this]; rfl

-- non-vacuity: 5 data bytes (5 + 2 = 7 modulo 8) -> one padding byte, length octet 0, 8 bytes written
example : hdrBytes ⟨0, 5, [1, 3, 0, 0, 0]⟩ 17 = [17, 0, 1, 3, 0, 0, 0, 0] := rfl
example : hdrSize ⟨0, 13, List.replicate 13 0⟩ = 16 ∧ lengthOctet ⟨0, 13, List.replicate 13 0⟩ = 1 := ⟨rfl, rfl⟩

end Tins.Wire.Ip6
