import TinsModel.Wire.Ip6.ThCodec
/-
  IPv6, C03 / C04 (wire side): the parser run over what `write_serialization` emitted gives the object back.
  * `extStep_written`: one extension header as written by `write_header` is read back as the same type with the data
    zero-padded to the 8-octet boundary;
  * `parseLoop_written`: the whole chain, any number of headers (induction), next-header octets consistent;
  * `ipv6_reparse`: the parsing constructor on the serialization — fixed header fields, extension headers in order, the
    inner bytes handed to the class the last next-header octet names, whatever link-layer padding follows the datagram;
  * `ipv6_reparse_parsed` (C03): for headers as a parser stores them (aligned) the headers come back identical.
-/
namespace Tins.Wire.Ip6
open Tins Tins.Wire Ipv6

namespace Ipv6

/-- a header `write_header` can express faithfully: length field not spoofed, at most 2048 octets on the wire, of a type
    the parser treats as an extension header -/
structure HdrCanon (h : ExtHdr) : Prop where
  wf : HdrWF h
  len : h.lenField = h.data.length
  fits : hdrSize h ≤ 2048
  ext : (isExtensionHeader h.option && h.option != NO_NEXT_HEADER) = true

/-- the header a parser stores for what `write_header` emits for `h` -/
def padded (h : ExtHdr) : ExtHdr := ⟨h.option, (paddedData h).length, paddedData h⟩

/-- the type the octet in front of a header list must name -/
def firstType : List ExtHdr → Nat → Nat
  | [], last => last
  | h :: _, _ => h.option

/-- the next-header octet each header carries on the wire -/
def nextsOf : List ExtHdr → Nat → List Nat
  | [], _ => []
  | _ :: t, last => firstType t last :: nextsOf t last

/-- does the chain contain a fragment header -/
def hasFragment (hs : List ExtHdr) : Bool := hs.any (·.option == FRAGMENT)

theorem paddedData_length (h : ExtHdr) : (paddedData h).length = hdrSize h - 2 := by
  simp only [paddedData, hdrSize, List.length_append, List.length_replicate]; omega

theorem paddingSize_of_aligned (h : ExtHdr) (ha : (h.data.length + 2) % 8 = 0) : paddingSize h = 0 := by
  simp only [paddingSize]
  split
  · rfl
  · rename_i hne; simp only [beq_iff_eq] at hne; omega

theorem HdrParsed.canon {h : ExtHdr} (hp : HdrParsed h) : HdrCanon h := by
  refine ⟨hp.wf, hp.len, ?_, hp.ext⟩
  have := hp.fits
  simp only [hdrSize, paddingSize_of_aligned h hp.aligned]
  omega

/-- an aligned header comes back as it is -/
theorem padded_of_parsed {h : ExtHdr} (hp : HdrParsed h) : padded h = h := by
  have hz : paddingSize h = 0 := paddingSize_of_aligned h hp.aligned
  obtain ⟨o, l, d⟩ := h
  have := hp.len
  simp only at this
  simp only [padded, paddedData, hz, List.replicate_zero, List.append_nil, ExtHdr.mk.injEq, true_and, and_true]
  omega

theorem paddingSize_padded (h : ExtHdr) : paddingSize (padded h) = 0 := by
  apply paddingSize_of_aligned
  have ⟨hm, h8, _⟩ := hdrSize_mod8 h
  have hl : (paddedData h).length = hdrSize h - 2 := paddedData_length h
  show ((paddedData h).length + 2) % 8 = 0
  omega

theorem paddedData_padded (h : ExtHdr) : paddedData (padded h) = paddedData h := by
  show (paddedData h) ++ List.replicate (paddingSize (padded h)) 0 = paddedData h
  rw [paddingSize_padded]; simp

/-- the dump's canonical form of a header does not change under a round trip -/
theorem hdrStr_padded (h : ExtHdr) : hdrStr (padded h) = hdrStr h := by
  simp only [hdrStr, paddedData_padded]
  rfl

end Ipv6

theorem wireChain_eq (p : Ipv6) (last : Nat) : wireChain p last = (firstType p.headers last, nextsOf p.headers last) := by
  have hn : ∀ (hs : List ExtHdr), nextsOf hs last = ((hs.map (·.option)) ++ [last]).drop 1 := by
    intro hs
    induction hs with
    | nil => rfl
    | cons h t ih =>
      cases t with
      | nil => rfl
      | cons h' t' =>
        show h'.option :: nextsOf (h' :: t') last = _
        rw [ih]; rfl
  unfold wireChain
  cases hh : p.headers with
  | nil => rfl
  | cons h t => simp [firstType, hn]

/-- the bytes of a chain, header by header -/
theorem flatHeaders_zip_cons (h : ExtHdr) (t : List ExtHdr) (last : Nat) :
    flatHeaders ((h :: t).zip (nextsOf (h :: t) last)) = hdrBytes h (firstType t last) ++ flatHeaders (t.zip (nextsOf t last)) := by
  simp [flatHeaders, nextsOf]

theorem firstType_lt (hs : List ExtHdr) (last : Nat) (hl : last < 256) (hh : ∀ x ∈ hs, HdrCanon x) : firstType hs last < 256 := by
  cases hs with
  | nil => exact hl
  | cons h t => exact (hh h List.mem_cons_self).wf.option

/-- **one header, written then read**: on the bytes `write_header` emits for a canonical header `h` carrying next-header
    octet `nxt`, with the loop in a state that expects `h`'s type and has at least the header's size left to account for,
    the extension-header branch stores `padded h`, moves on to `nxt` and to the bytes behind the header -/
theorem extStep_written (h : ExtHdr) (hc : HdrCanon h) (nxt : Nat) (hn : nxt < 256) (rest : Bytes) (r : Nat) (st : LoopSt)
    (hcur : st.cur = h.option) (ha : hdrSize h ≤ st.apl) (ha2 : st.apl < 4294967296) :
    extStep ⟨hdrBytes h nxt ++ rest, hdrSize h + r⟩ st =
      .ok (⟨rest, r⟩, ⟨nxt, st.apl - hdrSize h, st.frag || h.option == FRAGMENT, st.hs ++ [padded h]⟩) := by
  have ⟨hm, h8, _⟩ := hdrSize_mod8 h
  have hlo := lengthOctet_exact h hc.len hc.fits
  have hfits := hc.fits
  have hlo256 : lengthOctet h < 256 := by omega
  have hpl : (paddedData h).length = hdrSize h - 2 := paddedData_length h
  have hmem : hdrBytes h nxt ++ rest = UInt8.ofNat nxt :: UInt8.ofNat (lengthOctet h) :: (paddedData h ++ rest) := by
    simp [hdrBytes, paddedData, List.append_assoc]
  rw [hmem]
  have r1 := readU8_cons (UInt8.ofNat nxt) (UInt8.ofNat (lengthOctet h) :: (paddedData h ++ rest)) (hdrSize h + r) (by omega)
  have r2 := readU8_cons (UInt8.ofNat (lengthOctet h)) (paddedData h ++ rest) (hdrSize h + r - 1) (by omega)
  have e1 : (UInt8.ofNat nxt).toNat = nxt := ofNat_toNat_lt _ hn
  have e2 : (UInt8.ofNat (lengthOctet h)).toNat = lengthOctet h := ofNat_toNat_lt _ hlo256
  have hps : (lengthOctet h + 1) * 8 - 2 = (paddedData h).length := by omega
  have hcr : (⟨paddedData h ++ rest, hdrSize h + r - 1 - 1⟩ : Cursor).canRead (paddedData h).length = true := by
    simp only [Cursor.canRead, decide_eq_true_eq]; omega
  have hpk : Cursor.peek "IPv6::IPv6 ext_header(current_header, payload_size, stream.pointer())"
      ⟨paddedData h ++ rest, hdrSize h + r - 1 - 1⟩ 0 (paddedData h).length = .ok (paddedData h) := by
    simp [Cursor.peek, rdN]
  have hja : jumboAdjust st.apl h.option ⟨paddedData h ++ rest, hdrSize h + r - 1 - 1⟩ (paddedData h).length = .ok st.apl := by
    unfold jumboAdjust
    have : (st.apl == 0) = false := by simp; omega
    simp [this, pure]
  have hsk : (⟨paddedData h ++ rest, hdrSize h + r - 1 - 1⟩ : Cursor).skip (paddedData h).length = .ok ⟨rest, r⟩ := by
    have : ¬ (paddedData h).length > hdrSize h + r - 1 - 1 := by omega
    simp only [Cursor.skip, this, if_false, List.drop_left, Out.ok.injEq, Cursor.mk.injEq, true_and]
    omega
  have hsub : sub32 st.apl ((lengthOctet h + 1) * 8) = st.apl - hdrSize h := by
    simp only [sub32, hlo]; omega
  simp only [extStep, r1, r2, e1, e2, bind, Out.bind, hps, hcr, Bool.not_true, Bool.false_eq_true, if_false, hpk, hja, hsk,
    pure, hsub, hcur, padded]

theorem parseLoop_succ (fuel : Nat) (c : Cursor) (st : LoopSt) :
    parseLoop (fuel + 1) c st =
      if !c.toBool then .ok (st.hs, st.cur, .none)
      else if isExtensionHeader st.cur && st.cur != NO_NEXT_HEADER then
        (extStep c st) >>= fun (c', st') => parseLoop fuel c' st'
      else payloadStep c st := by
  rw [parseLoop]

/-- **the whole chain, written then read** (any number of headers, induction): the loop consumes the headers, collects
    them in order and arrives at the bytes behind them expecting `last` -/
theorem parseLoop_written (hs : List ExtHdr) (hc : ∀ x ∈ hs, HdrCanon x) (last : Nat) (hl : last < 256) (rest : Bytes)
    (r fuel : Nat) (st : LoopSt) (hcur : st.cur = firstType hs last) (ha : headersSize hs ≤ st.apl)
    (ha2 : st.apl < 4294967296) :
    parseLoop (fuel + hs.length) ⟨flatHeaders (hs.zip (nextsOf hs last)) ++ rest, headersSize hs + r⟩ st =
      parseLoop fuel ⟨rest, r⟩ ⟨last, st.apl - headersSize hs, st.frag || hasFragment hs, st.hs ++ hs.map padded⟩ := by
  induction hs generalizing st with
  | nil =>
    simp only [firstType] at hcur
    obtain ⟨cur, apl, frag, shs⟩ := st
    simp only at hcur; subst hcur
    simp [flatHeaders, headersSize, hasFragment, nextsOf]
  | cons h t ih =>
    have hch := hc h List.mem_cons_self
    have ⟨hm, h8, _⟩ := hdrSize_mod8 h
    have hsz : headersSize (h :: t) = hdrSize h + headersSize t := by simp [headersSize]
    simp only [firstType] at hcur
    rw [flatHeaders_zip_cons, hsz, List.append_assoc, List.length_cons, ← Nat.add_assoc, Nat.add_assoc (hdrSize h)]
    rw [hsz] at ha
    rw [parseLoop_succ]
    have hb : (⟨hdrBytes h (firstType t last) ++ (flatHeaders (t.zip (nextsOf t last)) ++ rest),
        hdrSize h + (headersSize t + r)⟩ : Cursor).toBool = true := by simp [Cursor.toBool]; omega
    have hext : (isExtensionHeader st.cur && st.cur != NO_NEXT_HEADER) = true := by rw [hcur]; exact hch.ext
    have hft := firstType_lt t last hl (fun x hx => hc x (List.mem_cons_of_mem _ hx))
    have hstep := extStep_written h hch (firstType t last) hft (flatHeaders (t.zip (nextsOf t last)) ++ rest)
      (headersSize t + r) st hcur (by omega) ha2
    simp only [hb, Bool.not_true, Bool.false_eq_true, if_false, hext, if_true, hstep, bind, Out.bind]
    have := ih (fun x hx => hc x (List.mem_cons_of_mem _ hx))
      ⟨firstType t last, st.apl - hdrSize h, st.frag || h.option == FRAGMENT, st.hs ++ [padded h]⟩ rfl (by simp only; omega)
      (by simp only; omega)
    rw [this]
    simp only [hasFragment, List.any_cons, List.map_cons, List.append_assoc, List.singleton_append, Bool.or_assoc,
      Nat.sub_sub]

/-- what the parser makes of the bytes behind the extension headers -/
def Ipv6.innerFor (frag : Bool) (last : Nat) (ib junk : Bytes) : Inner :=
  if (ib ++ junk).isEmpty then .none
  else if frag then .raw ib
  else match Tags.classOfIpProto last with
    | some cls => .cls cls ib false
    | none => .raw ib

/-- the loop on the inner bytes (and whatever follows the datagram) once the headers are consumed -/
theorem parseLoop_payload (fuel : Nat) (last : Nat) (hnl : (isExtensionHeader last && last != NO_NEXT_HEADER) = false)
    (ib junk : Bytes) (frag : Bool) (hs : List ExtHdr) :
    parseLoop (fuel + 1) ⟨ib ++ junk, ib.length + junk.length⟩ ⟨last, ib.length, frag, hs⟩ =
      .ok (hs, last, Ipv6.innerFor frag last ib junk) := by
  rw [parseLoop_succ]
  by_cases he : ib.length + junk.length = 0
  · have h1 : ib = [] := List.eq_nil_of_length_eq_zero (by omega)
    have h2 : junk = [] := List.eq_nil_of_length_eq_zero (by omega)
    subst h1; subst h2
    simp [Cursor.toBool, Ipv6.innerFor]
  · have hb : (⟨ib ++ junk, ib.length + junk.length⟩ : Cursor).toBool = true := by
      show decide (ib.length + junk.length > 0) = true
      exact decide_eq_true (by omega)
    have hne : (ib ++ junk).isEmpty = false := by
      cases hx : ib ++ junk with
      | nil => have := congrArg List.length hx; simp only [List.length_append, List.length_nil] at this; omega
      | cons a as => rfl
    have hcr : (⟨ib ++ junk, ib.length + junk.length⟩ : Cursor).canRead ib.length = true := by simp [Cursor.canRead]
    have hpk : Cursor.peek "IPv6::IPv6 inner(stream.pointer(), actual_payload_length)"
        ⟨ib ++ junk, ib.length + junk.length⟩ 0 ib.length = .ok ib := by simp [Cursor.peek, rdN]
    simp only [hb, Bool.not_true, Bool.false_eq_true, if_false, hnl, payloadStep, hcr, hpk, bind, Out.bind, Ipv6.innerFor, hne]
    cases frag <;> simp only [Bool.false_eq_true, if_false, if_true]
    cases Tags.classOfIpProto last <;> rfl

/-- the parsing constructor on a 40-byte fixed header followed by `rest` -/
theorem parse_hdr (hb rest : Bytes) (hl : hb.length = 40) :
    Ipv6.parse (hb ++ rest) =
      (let p := ofHeader hb
       (parseLoop (rest.length + 1) ⟨rest, rest.length⟩ ⟨p.nextHeader, p.payloadLength, false, []⟩) >>=
          fun (r : List ExtHdr × Nat × Inner) => pure ({ p with headers := r.1, finalNext := r.2.1 }, r.2.2)) := by
  rw [parse_unfold]
  have h40 : ¬ (hb ++ rest).length < 40 := by simp [hl]
  have hsub : (hb ++ rest).length - 40 = rest.length := by simp [hl]
  simp only [h40, if_false, take_append_len _ _ 40 hl, drop_append_len _ _ 40 hl, hsub]

/-- the object a parser gives back for the serialization of `p` in context `cx` on a region of `total` bytes -/
def Ipv6.reparsed (cx : Ctx) (p : Ipv6) (total : Nat) : Ipv6 :=
  { p with nextHeader := firstType p.headers (lastNext cx p), payloadLength := total - 40,
           headers := p.headers.map padded, finalNext := lastNext cx p }

/-- **C03 / C04, IPv6**: for every object satisfying the invariant whose extension headers are canonical, in every context
    whose final next-header value is not itself an extension header type, on the region `PDU::serialize` hands out (datagram
    of at most 65535 + 40 octets): `write_serialization` succeeds and the parsing constructor, run on its output followed
    by any link-layer padding, returns the same fixed header fields, the same extension headers in the same order (data
    zero-padded to the 8-octet boundary), and hands exactly the inner bytes to the class the last next-header octet names
    (raw behind a fragment header) -/
theorem ipv6_reparse (cx : Ctx) (p : Ipv6) (h : p.Inv) (hc : ∀ x ∈ p.headers, HdrCanon x)
    (hnl : (isExtensionHeader (lastNext cx p) && lastNext cx p != NO_NEXT_HEADER) = false)
    (region : Bytes) (hr : region.length = p.hdr + cx.innerSize) (hsz : region.length - 40 < 65536) (junk : Bytes) :
    ∃ out, p.write cx region = .ok out ∧ out.length = region.length ∧
      Ipv6.parse (out ++ junk) = .ok (Ipv6.reparsed cx p region.length,
        Ipv6.innerFor (hasFragment p.headers) (lastNext cx p) (region.drop p.hdr) junk) := by
  have hw := ipv6_write_eq cx p h region (by omega)
  have hll := lastNext_lt cx p h
  have hwi := written_inv cx p h region.length
  have hbl := headerBytes_length _ hwi
  have hwh : Ipv6.wireHeaders cx p = p.headers.zip (nextsOf p.headers (lastNext cx p)) := by
    simp only [Ipv6.wireHeaders, wireChain_eq]
  have hfl : (flatHeaders (Ipv6.wireHeaders cx p)).length = headersSize p.headers := by
    simp only [Ipv6.wireHeaders]
    rw [flatHeaders_length, zip_map_fst _ _ (wireChain_length p _)]
  have hhdr : p.hdr = 40 + headersSize p.headers := rfl
  have hib : (region.drop p.hdr).length = cx.innerSize := by simp only [List.length_drop]; omega
  refine ⟨_, hw, ?_, ?_⟩
  · simp only [List.length_append, hbl, hfl, List.length_drop]; omega
  · rw [List.append_assoc, List.append_assoc, parse_hdr _ _ hbl]
    have hoh := ofHeader_headerBytes _ hwi []
    rw [List.append_nil, List.take_of_length_le (by omega)] at hoh
    rw [hoh]
    have hpl : sub32 region.length 40 % 65536 = region.length - 40 := by simp only [sub32]; omega
    simp only [Ipv6.written, wireChain_eq, hpl]
    have hrest : (flatHeaders (Ipv6.wireHeaders cx p) ++ (region.drop p.hdr ++ junk)).length =
        headersSize p.headers + ((region.drop p.hdr).length + junk.length) := by
      simp only [List.length_append, hfl]
    rw [hrest, hwh]
    have hfuel : headersSize p.headers + ((region.drop p.hdr).length + junk.length) + 1 =
        (headersSize p.headers + ((region.drop p.hdr).length + junk.length) + 1 - p.headers.length) + p.headers.length := by
      have : p.headers.length ≤ headersSize p.headers := by
        clear hc hw hwh hfl hrest
        induction p.headers with
        | nil => simp
        | cons x xs ih =>
          have := (hdrSize_mod8 x).2.1
          simp only [headersSize, List.map_cons, List.sum_cons, List.length_cons] at *
          omega
      omega
    rw [hfuel]
    have hloop := parseLoop_written p.headers hc (lastNext cx p) hll (region.drop p.hdr ++ junk)
      ((region.drop p.hdr).length + junk.length)
      (headersSize p.headers + ((region.drop p.hdr).length + junk.length) + 1 - p.headers.length)
      ⟨firstType p.headers (lastNext cx p), region.length - 40, false, []⟩ rfl (by simp only; omega) (by simp only; omega)
    rw [hloop]
    have hapl : region.length - 40 - headersSize p.headers = (region.drop p.hdr).length := by omega
    simp only [hapl, Bool.false_or, List.nil_append]
    have hf1 : headersSize p.headers + ((region.drop p.hdr).length + junk.length) + 1 - p.headers.length =
        (headersSize p.headers + ((region.drop p.hdr).length + junk.length) - p.headers.length) + 1 := by
      have : p.headers.length ≤ headersSize p.headers := by
        clear hc hw hwh hfl hrest hloop hfuel
        induction p.headers with
        | nil => simp
        | cons x xs ih =>
          have := (hdrSize_mod8 x).2.1
          simp only [headersSize, List.map_cons, List.sum_cons, List.length_cons] at *
          omega
      omega
    rw [hf1, parseLoop_payload _ _ hnl]
    simp [bind, Out.bind, pure, Ipv6.reparsed]

/-- `p` with the fields libtins derives on serialization set to what the wire carries -/
def Ipv6.rederived (cx : Ctx) (p : Ipv6) (total : Nat) : Ipv6 :=
  { p with nextHeader := firstType p.headers (lastNext cx p), payloadLength := total - 40, finalNext := lastNext cx p }

/-- **C03 / IPv6**: when the extension headers are as a parser stores them (`ipv6_parse_inv`), they come back identical:
    the re-parsed object differs from the parsed one only in the fields libtins derives (payload length, next-header
    octets) -/
theorem ipv6_reparse_parsed (cx : Ctx) (p : Ipv6) (h : p.Inv) (hp : ∀ x ∈ p.headers, HdrParsed x)
    (hnl : (isExtensionHeader (lastNext cx p) && lastNext cx p != NO_NEXT_HEADER) = false)
    (region : Bytes) (hr : region.length = p.hdr + cx.innerSize) (hsz : region.length - 40 < 65536) (junk : Bytes) :
    ∃ out, p.write cx region = .ok out ∧ out.length = region.length ∧
      Ipv6.parse (out ++ junk) = .ok (Ipv6.rederived cx p region.length,
        Ipv6.innerFor (hasFragment p.headers) (lastNext cx p) (region.drop p.hdr) junk) := by
  rcases ipv6_reparse cx p h (fun x hx => (hp x hx).canon) hnl region hr hsz junk with ⟨out, hw, hl, hpz⟩
  refine ⟨out, hw, hl, ?_⟩
  rw [hpz]
  have : p.headers.map padded = p.headers := by
    have : ∀ (l : List ExtHdr), (∀ x ∈ l, HdrParsed x) → l.map padded = l := by
      intro l hl
      induction l with
      | nil => rfl
      | cons a as ih =>
        simp only [List.map_cons, padded_of_parsed (hl a List.mem_cons_self), ih (fun x hx => hl x (List.mem_cons_of_mem _ hx))]
    exact this _ hp
  simp only [Ipv6.reparsed, Ipv6.rederived, this]

/-- the `headers` field of the dump (canonical, padded form) survives the round trip for *every* canonical header list,
    aligned or not: alignment padding is the only difference -/
theorem headersStr_reparsed (hs : List ExtHdr) : headersStr (hs.map padded) = headersStr hs := by
  unfold headersStr
  cases hs with
  | nil => rfl
  | cons a as =>
    simp only [List.map_cons, List.isEmpty_cons, Bool.false_eq_true, if_false, List.map_map]
    congr 1
    simp only [hdrStr_padded, List.cons.injEq, true_and]
    apply List.map_congr_left
    intro x _
    simp [hdrStr_padded]

/-- **reserialize fixpoint**: the re-parsed object serializes to the same bytes as the original whenever its context
    derives the same final next-header value (same inner class, or the stored tag) -/
theorem ipv6_write_rederived (cx cx' : Ctx) (p : Ipv6) (total : Nat) (region : Bytes)
    (hl : lastNext cx' (Ipv6.rederived cx p total) = lastNext cx p) :
    (Ipv6.rederived cx p total).write cx' region = p.write cx region := by
  unfold Ipv6.write
  rw [hl]
  rfl

-- non-vacuity: a hop-by-hop header with 5 data bytes (one padding byte) and a routing header in front of UDP
example : ∃ out, (Ipv6.write ⟨[], [⟨"UDP", [], 8, 0⟩]⟩
      { Ipv6.create (List.replicate 16 1) (List.replicate 16 2) with
          headers := [⟨0, 5, [1, 3, 0, 0, 0]⟩, ⟨43, 6, [0, 0, 0, 0, 0, 0]⟩] } (List.replicate 64 7)) = .ok out ∧
    ∃ q pb, Ipv6.parse out = .ok (q, .cls "UDP" pb false) ∧ pb = List.replicate 8 7 ∧
      q.headers = [⟨0, 6, [1, 3, 0, 0, 0, 0]⟩, ⟨43, 6, [0, 0, 0, 0, 0, 0]⟩] ∧ q.payloadLength = 24 ∧ q.nextHeader = 0 :=
  ⟨_, rfl, _, _, rfl, rfl, rfl, rfl, rfl⟩

end Tins.Wire.Ip6
