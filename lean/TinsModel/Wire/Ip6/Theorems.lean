import TinsModel.Wire.Ip6.ThFamily
/-
  Per-layer theorems of the Ip6 family for the four wire properties:
    ThParse    C01  jumboWalk_spec, extStep_spec, parseLoop_spec, ipv6_parse_safe / _consumes / _inv
    ThWrite    C02  hdrSize_mod8, lengthOctet_exact (DESIGN §7 #18, all data sizes), writeHeaders_ok, ipv6_write_eq, ipv6_writesOnly
    ThApi      C04  ipv6_apply_inv, setters as a last-write map, header bit packing
    ThCodec    C01/C04  search_header, typed decoders: safety and codec inverses
    ThReparse  C03/C04  extStep_written, parseLoop_written, ipv6_reparse, ipv6_reparse_parsed, ipv6_write_rederived
    ThFindings C04  known findings KF-C04-Ip6-1 / -2: full statements, refutations on witnesses, partial theorems
    ThFamily   the family-level statements the coordinator assembles
-/
