import TinsModel.Wire.Ip6.Family
import TinsModel.Basic.CursorLemmas
import TinsModel.Basic.CodecLemmas
import TinsModel.Wire.ChainLemmas
import TinsModel.Wire.IfaceLemmas
/-
  Per-layer theorems of the Ip6 family for the four wire properties (C01 parse_safe, C02 writesOnly,
  C03 reparse, C04 codec inverses).  See TinsModel/Wire/Transport/Theorems.lean for the worked example (UDP).
-/
namespace Tins.Wire.Ip6
open Tins Tins.Wire

end Tins.Wire.Ip6
