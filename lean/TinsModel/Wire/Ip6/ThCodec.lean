import TinsModel.Wire.Ip6.ThApi
/-
  IPv6, C01 (accessors) and C04 (typed decoders): `search_header` over the add history, and the four
  `*_header::from_extension_header` decoders — memory-safe on every data block, inverse to the RFC 8200 encodings.
-/
namespace Tins.Wire.Ip6
open Tins Tins.Wire Ipv6

/-- `search_header` after `add_header`: first match wins — an earlier header of that type shadows the new one -/
theorem searchHeader_addHeader (p : Ipv6) (x : ExtHdr) (id : Nat) :
    (p.addHeader x).searchHeader id = (p.searchHeader id).or (if x.option == id then some x else none) := by
  simp only [searchHeader, addHeader, List.find?_append, List.find?_cons, List.find?_nil]
  cases h : (x.option == id) <;> simp

/-- a header type that is not present is found right after it has been added, with exactly the bytes given -/
theorem addHeader_roundtrip (p : Ipv6) (code : Nat) (d : Bytes) (hd : d.length ≤ 65535) (hnew : p.searchHeader code = none) :
    ∃ x, mkHdr code d = .ok x ∧ (p.addHeader x).searchHeader code = some x ∧ x.data = d ∧ x.lenField = d.length := by
  have : ¬ d.length > 65535 := by omega
  refine ⟨⟨code, d.length % 65536, d⟩, by simp [mkHdr, this], ?_, rfl, Nat.mod_eq_of_lt (by omega)⟩
  rw [searchHeader_addHeader, hnew]; simp

/-- more than 65535 bytes cannot be put into one header: rejected with `option_payload_too_large` -/
theorem mkHdr_too_large (code : Nat) (d : Bytes) (hd : d.length > 65535) : mkHdr code d = .throw .optionPayloadTooLarge := by
  simp [mkHdr, hd]

/-- headers keep their order: `headers()` after a sequence of `add_header` calls is the sequence -/
theorem foldl_addHeader (xs : List ExtHdr) (p : Ipv6) : (xs.foldl addHeader p) = { p with headers := p.headers ++ xs } := by
  induction xs generalizing p with
  | nil => simp
  | cons x xs ih => simp [List.foldl_cons, ih, addHeader, List.append_assoc]

/-! ### `extract_metadata` -/

theorem metadataLoop_safe (fuel : Nat) (c : Cursor) (cur hs : Nat) (hi : c.Inv) (hf : c.size < fuel) :
    ParseSafe (metadataLoop fuel c cur hs) := by
  induction fuel generalizing c cur hs with
  | zero => omega
  | succ fuel ih =>
    unfold metadataLoop
    split
    · exact .ok _
    · rcases readU8_spec c hi with ⟨t, c1, e1, i1, s1, n1, _, _, _⟩ | ⟨e1, _⟩
      · rcases readU8_spec c1 i1 with ⟨l, c2, e2, i2, s2, n2, _, _, _⟩ | ⟨e2, _⟩
        · simp only [e1, e2, bind, Out.bind]
          rcases Cursor.skip_spec c2 ((l + 1) * 8 - 2) i2 with ⟨c3, e3, i3, s3, _⟩ | ⟨e3, _⟩
          · simp only [e3]; exact ih c3 _ _ i3 (by omega)
          · simp only [e3]; exact .malformed
        · simp only [e1, e2, bind, Out.bind]; exact .malformed
      · simp only [e1, bind, Out.bind]; exact .malformed

/-- **C01 / `IPv6::extract_metadata`**: on every byte string a size or `malformed_packet`; the raw cast of the buffer is
    covered by the length test, the loop never runs out of fuel -/
theorem extractMetadata_safe (b : Bytes) : ParseSafe (extractMetadata b) := by
  unfold extractMetadata
  split
  · exact .malformed
  · rename_i h40
    have h6 : (rd "IPv6::extract_metadata header->next_header" b 6) = .ok (b[6]'(by omega)) := by
      simp only [rd]
      rw [List.getElem?_eq_getElem (by omega)]
    rcases Cursor.skip_spec (Cursor.ofBytes b) 40 (Cursor.ofBytes_inv b) with ⟨c, e, i, _, _⟩ | ⟨e, hlt⟩
    · simp only [h6, e, bind, Out.bind]
      exact metadataLoop_safe _ c _ _ i (by omega)
    · simp only [Cursor.ofBytes] at hlt; omega

/-! ### the option walk of hop-by-hop / destination headers -/

/-- **`parse_header_options` is safe on every data block**: it returns a list or reports `invalid_ipv6_extension_header`;
    the raw copy of each option's bytes is covered by the `size > stream.size()` test -/
theorem parseHeaderOptions_safe (fuel : Nat) (c : Cursor) (acc : List (Nat × Bytes)) (hi : c.Inv) (hf : c.size < fuel) :
    ∃ r, parseHeaderOptions fuel c acc = .ok r := by
  induction fuel generalizing c acc with
  | zero => omega
  | succ fuel ih =>
    unfold parseHeaderOptions
    by_cases h0 : (c.size == 0) = true
    · simp only [h0, if_true]; exact ⟨_, rfl⟩
    · simp only [h0, Bool.false_eq_true, if_false]
      rcases readU8_spec c hi with ⟨t, c1, e1, i1, s1, n1, _, _, _⟩ | ⟨e1, _⟩
      · simp only [e1]
        split
        · exact ih c1 _ i1 (by omega)
        · rcases readU8_spec c1 i1 with ⟨sz, c2, e2, i2, s2, n2, _, _, _⟩ | ⟨e2, _⟩
          · simp only [e2]
            split
            · exact ⟨_, rfl⟩
            · rename_i hgt
              have hle : sz ≤ c2.size := by omega
              rcases Cursor.peek_noFault "IPv6::parse_header_options vector(stream.pointer(), stream.pointer() + size)" c2 0 sz
                i2 (by omega) with ⟨d, ed, _⟩
              simp only [ed]
              rcases Cursor.skip_spec c2 sz i2 with ⟨c3, e3, i3, s3, _⟩ | ⟨e3, hlt⟩
              · simp only [e3]; exact ih c3 _ i3 (by omega)
              · omega
          · simp only [e2]; exact ⟨_, rfl⟩
      · simp only [e1]; exact ⟨_, rfl⟩

/-- **C01 accessors**: the hop-by-hop / destination decoder never faults and never throws anything but
    `invalid_ipv6_extension_header` (`none`), whatever the header contains -/
theorem decodeOptions_safe (h : ExtHdr) : ∃ r, decodeOptions h = .ok r :=
  parseHeaderOptions_safe _ _ _ (Cursor.ofBytes_inv _) (by simp [Cursor.ofBytes])

/-- the routing decoder: a value or `malformed_packet` (fewer than two data bytes), never a fault -/
theorem decodeRouting_safe (h : ExtHdr) : ParseSafe (decodeRouting h) := by
  unfold decodeRouting
  rcases readU8_spec (Cursor.ofBytes h.data) (Cursor.ofBytes_inv _) with ⟨t, c1, e1, i1, _, _, _, _, _⟩ | ⟨e1, _⟩
  · rcases readU8_spec c1 i1 with ⟨s, c2, e2, i2, _, _, _, _, _⟩ | ⟨e2, _⟩
    · simp only [e1, e2, bind, Out.bind]
      have : c2.size ≤ c2.mem.length := i2
      rw [show c2 = ⟨c2.mem, c2.size⟩ from rfl, rest_mk _ _ _ this]
      exact .ok _
    · simp only [e1, e2, bind, Out.bind]; exact .malformed
  · simp only [e1, bind, Out.bind]; exact .malformed

/-- the fragment decoder: a value or `malformed_packet` (fewer than six data bytes), never a fault -/
theorem decodeFragment_safe (h : ExtHdr) : ParseSafe (decodeFragment h) := by
  unfold decodeFragment
  rcases readBE_spec (Cursor.ofBytes h.data) 2 (Cursor.ofBytes_inv _) with ⟨f, c1, e1, i1, _, _, _, _, _⟩ | ⟨e1, _⟩
  · rcases readBE_spec c1 4 i1 with ⟨s, c2, e2, i2, _, _, _, _, _⟩ | ⟨e2, _⟩
    · simp only [e1, e2, bind, Out.bind]; exact .ok _
    · simp only [e1, e2, bind, Out.bind]; exact .malformed
  · simp only [e1, bind, Out.bind]; exact .malformed

/-! ### codec inverses against the RFC 8200 encodings -/

/-- RFC 8200 §4.2 TLV encoding of an option list -/
def encodeOpts (os : List (Nat × Bytes)) : Bytes := os.flatMap (fun o => [UInt8.ofNat o.1, UInt8.ofNat o.2.length] ++ o.2)

/-- an option a hop-by-hop / destination header can carry besides padding -/
def OptOK (o : Nat × Bytes) : Prop := o.1 ≠ 0 ∧ o.1 ≠ 1 ∧ o.1 < 256 ∧ o.2.length < 256

theorem encodeOpts_cons (o : Nat × Bytes) (os : List (Nat × Bytes)) :
    encodeOpts (o :: os) = UInt8.ofNat o.1 :: UInt8.ofNat o.2.length :: (o.2 ++ encodeOpts os) := by
  simp [encodeOpts]

/-- trailing Pad1 octets (the alignment padding `write_header` appends) are skipped -/
theorem parseHeaderOptions_pad1 (k fuel : Nat) (hf : k < fuel) (acc : List (Nat × Bytes)) :
    parseHeaderOptions fuel ⟨List.replicate k 0, k⟩ acc = .ok (some acc) := by
  induction k generalizing fuel with
  | zero =>
    cases fuel with
    | zero => omega
    | succ f => simp [parseHeaderOptions]
  | succ k ih =>
    cases fuel with
    | zero => omega
    | succ f =>
      unfold parseHeaderOptions
      have h0 : ((⟨List.replicate (k + 1) 0, k + 1⟩ : Cursor).size == 0) = false := by simp
      have hr := readU8_cons 0 (List.replicate k 0) (k + 1) (by omega)
      rw [show (0 : UInt8) :: List.replicate k 0 = List.replicate (k + 1) 0 from rfl] at hr
      simp only [h0, Bool.false_eq_true, if_false, hr]
      have : ((0 : UInt8).toNat == PAD_1) = true := by decide
      simp only [this, if_true, Nat.add_sub_cancel]
      exact ih f (by omega)

/-- **codec inverse, option headers**: the decoder run over the TLV encoding of any option list followed by any number of
    zero (Pad1) octets gives the list back, in order (induction over the list) -/
theorem parseHeaderOptions_roundtrip (os : List (Nat × Bytes)) (hos : ∀ o ∈ os, OptOK o) (k fuel : Nat)
    (hf : (encodeOpts os).length + k < fuel) (acc : List (Nat × Bytes)) :
    parseHeaderOptions fuel ⟨encodeOpts os ++ List.replicate k 0, (encodeOpts os).length + k⟩ acc = .ok (some (acc ++ os)) := by
  induction os generalizing fuel acc with
  | nil =>
    simp only [encodeOpts, List.flatMap_nil, List.nil_append, List.length_nil, Nat.zero_add, List.append_nil] at hf ⊢
    exact parseHeaderOptions_pad1 k fuel hf acc
  | cons o os ih =>
    cases fuel with
    | zero => omega
    | succ f =>
      have ⟨h0, h1, h2, h3⟩ := hos o List.mem_cons_self
      rw [encodeOpts_cons] at hf ⊢
      simp only [List.length_cons, List.length_append] at hf
      simp only [List.cons_append, List.length_cons, List.length_append, List.append_assoc]
      unfold parseHeaderOptions
      have hz : ((⟨UInt8.ofNat o.1 :: UInt8.ofNat o.2.length :: (o.2 ++ (encodeOpts os ++ List.replicate k 0)),
          o.2.length + (encodeOpts os).length + 1 + 1 + k⟩ : Cursor).size == 0) = false := by simp
      have r1 := readU8_cons (UInt8.ofNat o.1) (UInt8.ofNat o.2.length :: (o.2 ++ (encodeOpts os ++ List.replicate k 0)))
        (o.2.length + (encodeOpts os).length + 1 + 1 + k) (by omega)
      have r2 := readU8_cons (UInt8.ofNat o.2.length) (o.2 ++ (encodeOpts os ++ List.replicate k 0))
        (o.2.length + (encodeOpts os).length + 1 + 1 + k - 1) (by omega)
      have e1 : (UInt8.ofNat o.1).toNat = o.1 := ofNat_toNat_lt _ h2
      have e2 : (UInt8.ofNat o.2.length).toNat = o.2.length := ofNat_toNat_lt _ h3
      have hp1 : (o.1 == PAD_1) = false := by simp [PAD_1, h0]
      have hpn : (o.1 != PAD_N) = true := by simp [PAD_N, h1]
      have hgt : ¬ o.2.length > o.2.length + (encodeOpts os).length + 1 + 1 + k - 1 - 1 := by omega
      have hpk : Cursor.peek "IPv6::parse_header_options vector(stream.pointer(), stream.pointer() + size)"
          ⟨o.2 ++ (encodeOpts os ++ List.replicate k 0), o.2.length + (encodeOpts os).length + 1 + 1 + k - 1 - 1⟩ 0 o.2.length =
          .ok o.2 := by
        simp [Cursor.peek, rdN]
      have hsk : (⟨o.2 ++ (encodeOpts os ++ List.replicate k 0), o.2.length + (encodeOpts os).length + 1 + 1 + k - 1 - 1⟩ : Cursor).skip
          o.2.length = .ok ⟨encodeOpts os ++ List.replicate k 0, (encodeOpts os).length + k⟩ := by
        simp only [Cursor.skip, hgt, if_false, List.drop_left, Out.ok.injEq, Cursor.mk.injEq, true_and]
        omega
      have ih' := ih (fun x hx => hos x (List.mem_cons_of_mem _ hx)) f (by omega) (acc ++ [o])
      simp only [hz, Bool.false_eq_true, if_false, r1, r2, e1, e2, hp1, hgt, hpk, hpn, if_true, hsk, ih',
        List.append_assoc, List.singleton_append]

/-- `hop_by_hop_header::from_extension_header` / `destination_routing_header::from_extension_header` invert the RFC 8200
    encoding of every option list (padding skipped), whatever the header type field and length field say -/
theorem decodeOptions_roundtrip (c l : Nat) (os : List (Nat × Bytes)) (hos : ∀ o ∈ os, OptOK o) (k : Nat) :
    decodeOptions ⟨c, l, encodeOpts os ++ List.replicate k 0⟩ = .ok (some os) := by
  have := parseHeaderOptions_roundtrip os hos k ((encodeOpts os ++ List.replicate k 0).length + 1) (by simp) []
  simpa [decodeOptions, Cursor.ofBytes] using this

/-- **codec inverse, routing header**: type, segments left and type-specific data come back exactly -/
theorem decodeRouting_roundtrip (c l t s : Nat) (d : Bytes) (ht : t < 256) (hs : s < 256) :
    decodeRouting ⟨c, l, UInt8.ofNat t :: UInt8.ofNat s :: d⟩ = .ok (t, s, d) := by
  have r1 := readU8_cons (UInt8.ofNat t) (UInt8.ofNat s :: d) (d.length + 1 + 1) (by omega)
  have r2 := readU8_cons (UInt8.ofNat s) d (d.length + 1 + 1 - 1) (by omega)
  simp only [decodeRouting, Cursor.ofBytes, List.length_cons, r1, r2, bind, Out.bind, ofNat_toNat_lt _ ht, ofNat_toNat_lt _ hs]
  rw [rest_mk _ _ _ (by omega)]
  simp [pure, List.take_of_length_le]

/-- **codec inverse, fragment header**: offset (13 bits), M flag and identification come back exactly; the two reserved
    bits and anything behind the six bytes are ignored -/
theorem decodeFragment_roundtrip (c l off res m ident : Nat) (extra : Bytes) (ho : off < 8192) (hr : res < 4) (hm : m < 2)
    (hi : ident < 4294967296) :
    decodeFragment ⟨c, l, OutCursor.beBytes 2 (off * 8 + res * 2 + m) ++ (OutCursor.beBytes 4 ident ++ extra)⟩ =
      .ok (off, m == 1, ident) := by
  have r1 := read_prefix_n (OutCursor.beBytes 2 (off * 8 + res * 2 + m)) (OutCursor.beBytes 4 ident ++ extra)
    (2 + (4 + extra.length)) 2 (by simp) (by omega)
  have r2 := read_prefix_n (OutCursor.beBytes 4 ident) extra (2 + (4 + extra.length) - 2) 4 (by simp) (by omega)
  have e1 : Cursor.beNat (OutCursor.beBytes 2 (off * 8 + res * 2 + m)) = off * 8 + res * 2 + m := by
    rw [beNat_beBytes]; exact Nat.mod_eq_of_lt (by omega)
  have e2 : Cursor.beNat (OutCursor.beBytes 4 ident) = ident := by
    rw [beNat_beBytes]; exact Nat.mod_eq_of_lt (by omega)
  simp only [decodeFragment, Cursor.ofBytes, Cursor.readBE, List.length_append, OutCursor.beBytes_length, r1, r2, e1, e2,
    bind, Out.bind, pure, Out.ok.injEq, Prod.mk.injEq, and_true]
  refine ⟨by omega, ?_⟩
  have : (off * 8 + res * 2 + m) % 2 = m := by omega
  rw [this]

example : extractMetadata ([0x60, 0, 0, 0, 0, 16, 0, 64] ++ List.replicate 32 0 ++ [17, 0, 1, 4, 0, 0, 0, 0] ++ [0, 53, 0, 53, 0, 8, 0, 0]) =
    .ok 48 := rfl
example : extractMetadata ([0x60, 0, 0, 0, 0, 16, 59, 64] ++ List.replicate 32 0) = .throw .malformedPacket := rfl

-- non-vacuity: a PadN + router alert option area, a type 0 routing header, a last fragment at offset 185
example : decodeOptions ⟨0, 6, [5, 2, 0, 0, 1, 0]⟩ = .ok (some [(5, [0, 0])]) := rfl
example : decodeOptions ⟨0, 2, [5, 9]⟩ = .ok none := rfl
example : decodeRouting ⟨43, 6, [0, 1, 0, 0, 0, 0]⟩ = .ok (0, 1, [0, 0, 0, 0]) := rfl
example : decodeFragment ⟨44, 6, [0x05, 0xc9, 0, 0, 0, 7]⟩ = .ok (185, true, 7) := rfl
example : decodeFragment ⟨44, 3, [1, 2, 3]⟩ = .throw .malformedPacket := rfl

end Tins.Wire.Ip6
