import TinsModel.Wire.Ip6.ThFindings
/-
  Family-level theorems of Ip6 for the four wire properties, over the interface the registry uses
  (`Ip6.parse`, `Ip6.hdr`, `Ip6.trl`, `Ip6.write`, `Ip6.mk`, `Ip6.apply`) — same shapes as `L2/ThFamily.lean`.
-/
namespace Tins.Wire.Ip6
open Tins Tins.Wire Ipv6

/-- the invariant of a family object: what parsing establishes and every API call preserves -/
def ObjInv : Obj → Prop
  | .ip6 p => p.Inv

/-- every IPv6 object is serializable -/
def Serializable : Obj → Prop
  | .ip6 _ => True

/-- the `LayerSem` the registry builds for a family object in context `cx` -/
def ip6Sem (cx : Ctx) (o : Obj) : LayerSem :=
  { name := (info o).1, hdr := hdr o, trl := trl o cx.innerSize, write := write cx o }

private theorem map_ok {α β} {x : Out α} {f : α → β} {r : β} (h : (x >>= fun a => pure (f a)) = .ok r) :
    ∃ a, x = .ok a ∧ f a = r := by
  cases x with
  | ok a => exact ⟨a, rfl, by simpa [bind, Out.bind, pure] using h⟩
  | throw e => cases h
  | fault s => cases h

/-- **C01 / Ip6**: the parsing constructor of the family, on every byte string, returns a packet or throws
    `malformed_packet`; it never touches a byte outside the buffer -/
theorem ip6_parse_safe (cls : String) (b : Bytes) (h : cls ∈ classes) : ParseSafe (parse cls b) := by
  simp only [classes, List.mem_cons, List.mem_nil_iff, or_false] at h
  subst h
  simp only [parse]
  exact ParseSafe.bind (ipv6_parse_safe b) (fun a _ => .ok _)

/-- **C01 / Ip6, termination of the nested constructors**: the parsing constructor hands strictly fewer bytes to the next
    constructor -/
theorem ip6_parse_consumes (cls : String) (b : Bytes) (o : Obj) (name : String) (pb : Bytes) (fb : Bool)
    (hc : cls ∈ classes) (h : parse cls b = .ok (o, .cls name pb fb)) : pb.length < b.length := by
  simp only [classes, List.mem_cons, List.mem_nil_iff, or_false] at hc
  subst hc
  simp only [parse] at h
  rcases map_ok h with ⟨⟨x, i⟩, hx, hr⟩
  injection hr with _ hi; subst hi
  exact ipv6_parse_consumes b x name pb fb hx

/-- parsing establishes the invariant -/
theorem ip6_parse_inv (cls : String) (b : Bytes) (o : Obj) (i : Inner) (hc : cls ∈ classes)
    (h : parse cls b = .ok (o, i)) : ObjInv o := by
  simp only [classes, List.mem_cons, List.mem_nil_iff, or_false] at hc
  subst hc
  simp only [parse] at h
  rcases map_ok h with ⟨⟨x, j⟩, hx, hr⟩
  injection hr with ho _; subst ho
  exact (ipv6_parse_inv b x j hx).1

/-- **C02 / Ip6**: for every family object satisfying the invariant, in every context, `write_serialization` succeeds on
    every region that is large enough, keeps its length and leaves the inner layers' bytes untouched -/
theorem ip6_writesOnlyAt (cx : Ctx) (o : Obj) (hi : ObjInv o) (_hs : Serializable o) : WritesOnlyAt (ip6Sem cx o) cx.innerSize := by
  cases o with
  | ip6 p => exact writesOnlyAt_of_writesOnly (ipv6_writesOnly cx p hi) _

/-- the public constructors establish the invariant -/
theorem ip6_mk_inv (cls : String) (args : List String) (o : Obj) (h : mk cls args = .ok o) : ObjInv o := by
  unfold mk at h
  split at h
  · injection h with h; subst h; exact ipv6_create_inv _ _ (by simp) (by simp)
  · split at h
    · rename_i d s hd hs; injection h with h; subst h
      exact ipv6_create_inv _ _ (parseHexN_length _ _ _ hd) (parseHexN_length _ _ _ hs)
    · cases h
  · cases h

/-- **C04 / Ip6**: every API call keeps the invariant — with `ip6_mk_inv` and `ip6_parse_inv`: every object reachable by
    parsing or by any finite sequence of constructor / setter / add_header calls satisfies it, so `ip6_writesOnlyAt`
    applies to all of them -/
theorem ip6_apply_inv (o o' : Obj) (op : List String) (hi : ObjInv o) (h : apply o op = .ok o') : ObjInv o' := by
  cases o with
  | ip6 p =>
    simp only [apply] at h
    rcases map_ok h with ⟨x, hx, hr⟩; subst hr; exact ipv6_apply_inv p x op hi hx

/-! ### next-protocol tags survive the round trip (decided over the generated tables) -/

/-- every protocol number libtins derives from an inner class is one the IPv6 parser dispatches on — and none of them is
    read as an extension header: a derived tag is never re-parsed as something else -/
theorem derived_ip_tag_dispatches :
    ∀ q ∈ Gen.Tags.pduTypeToIpProto, (Tags.classOfIpProto q.2).isSome = true ∧
      (isExtensionHeader q.2 && q.2 != NO_NEXT_HEADER) = false := by decide

/-- for IPv6 in IPv6 the dispatch leads back to the class the tag was derived from -/
theorem ip6_tag_roundtrip : Tags.classOfIpProto (Tags.ipProtoOfPduType (Tags.pduTypeOf "IPv6")) = some "IPv6" := by decide

example : ObjInv (.ip6 (Ipv6.create (List.replicate 16 0) (List.replicate 16 1))) := ipv6_create_inv _ _ (by simp) (by simp)

end Tins.Wire.Ip6
