import TinsModel.Wire.Ip6.Family
import TinsModel.Basic.CursorLemmas
import TinsModel.Basic.CodecLemmas
import TinsModel.Wire.ChainLemmas
import TinsModel.Wire.IfaceLemmas
/-
  Helper lemmas of the Ip6 family: the outcome predicate `ParseSafe`, outcomes of the stream operations on a stream
  satisfying the invariant, closed forms of reads off a known prefix, list slicing and byte-range facts.
-/
namespace Tins.Wire.Ip6
open Tins Tins.Wire

/-- outcome classes of a parsing constructor: a packet, or `malformed_packet` — never a fault, never another exception -/
def ParseSafe {α} (r : Out α) : Prop := (∃ a, r = .ok a) ∨ r = .throw .malformedPacket

theorem ParseSafe.ok {α} (a : α) : ParseSafe (Out.ok a) := .inl ⟨a, rfl⟩
theorem ParseSafe.malformed {α} : ParseSafe (Out.throw .malformedPacket : Out α) := .inr rfl

theorem ParseSafe.bind {α β} {x : Out α} {f : α → Out β} (hx : ParseSafe x)
    (hf : ∀ a, x = .ok a → ParseSafe (f a)) : ParseSafe (x >>= f) := by
  rcases hx with ⟨a, rfl⟩ | rfl
  · exact hf a rfl
  · exact .inr rfl

theorem ParseSafe.not_fault {α} {r : Out α} (h : ParseSafe r) : r.isFault = false := by
  rcases h with ⟨a, rfl⟩ | rfl <;> rfl

theorem byteAt_lt (bs : Bytes) (i : Nat) : byteAt bs i < 256 := by
  unfold byteAt; exact UInt8.toNat_lt _

theorem byteAt_cons_zero (x : UInt8) (xs : Bytes) : byteAt (x :: xs) 0 = x.toNat := rfl
theorem byteAt_cons_succ (x : UInt8) (xs : Bytes) (i : Nat) : byteAt (x :: xs) (i + 1) = byteAt xs i := rfl
theorem ofNat_toNat_lt (v : Nat) (h : v < 256) : (UInt8.ofNat v).toNat = v := by
  simp [UInt8.toNat_ofNat', Nat.mod_eq_of_lt h]

theorem beNat_foldl_lt (bs : Bytes) (acc k : Nat) (h : acc < 256 ^ k) :
    bs.foldl (fun a b => a * 256 + b.toNat) acc < 256 ^ (k + bs.length) := by
  induction bs generalizing acc k with
  | nil => simpa using h
  | cons b bs ih =>
    simp only [List.foldl_cons, List.length_cons]
    have hb := UInt8.toNat_lt b
    have := ih (acc * 256 + b.toNat) (k + 1) (by rw [Nat.pow_succ]; omega)
    rw [show k + (bs.length + 1) = k + 1 + bs.length by omega]
    exact this

theorem beNat_lt (bs : Bytes) : Cursor.beNat bs < 256 ^ bs.length := by
  have := beNat_foldl_lt bs 0 0 (by simp)
  simpa [Cursor.beNat] using this

/-- outcome of `read_be<T>` / `read<T>` on a stream satisfying the invariant -/
theorem readBE_spec (c : Cursor) (n : Nat) (h : c.Inv) :
    (∃ v c', c.readBE n = .ok (v, c') ∧ c'.Inv ∧ c'.size = c.size - n ∧ n ≤ c.size ∧ c'.mem = c.mem.drop n
        ∧ v = Cursor.beNat (c.mem.take n) ∧ v < 256 ^ n)
    ∨ (c.readBE n = .throw .malformedPacket ∧ c.size < n) := by
  rcases Cursor.read_spec c n h with ⟨bs, c', he, hi, hl, hs, hn, hb, hm⟩ | ⟨he, hlt⟩
  · left
    refine ⟨Cursor.beNat bs, c', by simp [Cursor.readBE, he, bind, Out.bind], hi, hs, hn, hm, by rw [hb], ?_⟩
    have := beNat_lt bs
    rwa [hl] at this
  · right; exact ⟨by simp [Cursor.readBE, he, bind, Out.bind], hlt⟩

theorem readU8_spec (c : Cursor) (h : c.Inv) :
    (∃ v c', c.readU8 = .ok (v, c') ∧ c'.Inv ∧ c'.size = c.size - 1 ∧ 1 ≤ c.size ∧ c'.mem = c.mem.drop 1
        ∧ v = Cursor.beNat (c.mem.take 1) ∧ v < 256)
    ∨ (c.readU8 = .throw .malformedPacket ∧ c.size < 1) := by
  have := readBE_spec c 1 h
  simpa [Cursor.readU8] using this

/-- closed form of `read(n)` on a fresh stream over `b` -/
theorem read_ofBytes (b : Bytes) (n : Nat) :
    (Cursor.ofBytes b).read n =
      if b.length < n then .throw .malformedPacket else .ok (b.take n, ⟨b.drop n, b.length - n⟩) := by
  unfold Cursor.read Cursor.canRead Cursor.ofBytes
  by_cases h : b.length < n
  · have : ¬ n ≤ b.length := by omega
    simp [h, this]
  · have : n ≤ b.length := by omega
    simp [h, this]

/-- reading a known prefix off a stream -/
theorem read_prefix_n (a m : Bytes) (k n : Nat) (hn : a.length = n) (h : n ≤ k) :
    (⟨a ++ m, k⟩ : Cursor).read n = .ok (a, ⟨m, k - n⟩) := by
  subst hn; simp [Cursor.read, Cursor.canRead, h]

theorem readU8_cons (x : UInt8) (m : Bytes) (k : Nat) (h : 1 ≤ k) :
    (⟨x :: m, k⟩ : Cursor).readU8 = .ok (x.toNat, ⟨m, k - 1⟩) := by
  have := read_prefix_n [x] m k 1 rfl h
  simp only [List.singleton_append] at this
  simp [Cursor.readU8, Cursor.readBE, this, bind, Out.bind, Cursor.beNat]

theorem take_append_len {α} (a r : List α) (n : Nat) (h : a.length = n) : (a ++ r).take n = a := by
  subst h; exact List.take_left' rfl
theorem drop_append_len {α} (a r : List α) (n : Nat) (h : a.length = n) : (a ++ r).drop n = r := by
  subst h; exact List.drop_left' rfl

/-- a stream write that fits: the closed form of the new stream state -/
theorem owrite_ok (o : OutCursor) (bs : Bytes) (hi : o.Inv) (hs : bs.length ≤ o.size) :
    o.write bs = .ok ⟨o.done ++ bs, o.rest.drop bs.length, o.size - bs.length⟩ ∧
      (⟨o.done ++ bs, o.rest.drop bs.length, o.size - bs.length⟩ : OutCursor).Inv := by
  have h1 : ¬ o.size < bs.length := by omega
  have h2 : ¬ o.rest.length < bs.length := by simp only [OutCursor.Inv] at hi; omega
  refine ⟨by simp [OutCursor.write, h1, h2], ?_⟩
  simp only [OutCursor.Inv, List.length_drop] at *; omega

theorem ofill_ok (o : OutCursor) (n : Nat) (v : UInt8) (hi : o.Inv) (hs : n ≤ o.size) :
    o.fill n v = .ok ⟨o.done ++ List.replicate n v, o.rest.drop n, o.size - n⟩ ∧
      (⟨o.done ++ List.replicate n v, o.rest.drop n, o.size - n⟩ : OutCursor).Inv := by
  have h1 : ¬ o.size < n := by omega
  have h2 : ¬ o.rest.length < n := by simp only [OutCursor.Inv] at hi; omega
  refine ⟨by simp [OutCursor.fill, h1, h2], ?_⟩
  simp only [OutCursor.Inv, List.length_drop] at *; omega

theorem rest_mk (site : String) (m : Bytes) (k : Nat) (h : k ≤ m.length) : Cursor.rest site ⟨m, k⟩ = .ok (m.take k) := by
  simp [Cursor.rest, rdN, h]

/-- every entry of the generated `pdu_flag_to_ip_type` table (and its default) is an 8-bit value -/
theorem ipProtoOfPduType_lt (t : String) : Tags.ipProtoOfPduType t < 256 := by
  unfold Tags.ipProtoOfPduType Tags.assocStr
  cases hf : List.find? (fun x => x.1 == t) Gen.Tags.pduTypeToIpProto with
  | none => simp; decide
  | some p =>
    have hm := List.mem_of_find?_eq_some hf
    simp only [Option.map_some, Option.getD_some]
    have hall : ∀ q ∈ Gen.Tags.pduTypeToIpProto, q.2 < 256 := by decide
    exact hall p hm

end Tins.Wire.Ip6
