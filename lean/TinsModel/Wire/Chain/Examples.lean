import TinsModel.Wire.Chain.ParseAll
/-
  Whole-packet C03 over all covered families: **non-vacuity** — concrete stacks, their serialization (byte for byte, checksums
  included), the re-parse, and the theorems applied to them.
-/
namespace Tins.Wire.ChainAll
open Tins Tins.Wire
open Tins.Wire.L2 (layerView splitRaw stripView padOf ViewEq IsTail TailInner cxOf)

section Examples

def exEth : AnyObj := .l2 (.eth ⟨[1,2,3,4,5,6], [7,8,9,10,11,12], 0⟩)
theorem exEth_inv : registryPreds.Inv exEth := ⟨rfl, rfl, by decide⟩

def exIp : Ip.Ip4 := { Ip.Ip4.create [10,0,0,2] [10,0,0,1] with ttl := 64, id := 0x1234 }
theorem exIp_inv : exIp.Inv :=
  ⟨by decide, by decide, by decide, by decide, by decide, by decide, by decide, by decide, by decide, rfl, rfl,
   fun p hp => by cases hp⟩
theorem exIp_normal : exIp.Normal := fun p hp => by cases hp

def exUdp : Transport.Udp := ⟨1234, 53, 0, 0⟩
theorem exUdp_wf : exUdp.WF := ⟨by decide, by decide, by decide, by decide⟩

/-! #### 1. EthernetII / IP / UDP / RawPDU — padding in play: the 45-byte frame is padded to 60, the IP total length (31)
    cuts the 15 padding bytes off again; IP protocol, total length, both checksums, UDP length, EtherType are derived -/
def ex1 : List AnyObj := [exEth, .ip (.ip exIp), .tr (.udp exUdp), .raw [0xde, 0xad, 0xbe]]
def ex1_bytes : Bytes :=
  [1,2,3,4,5,6, 7,8,9,10,11,12, 8,0, 0x45,0,0,31, 0x12,0x34,0,0, 64,17,84,152, 10,0,0,1, 10,0,0,2,
   4,210, 0,53, 0,11, 74,32, 0xde,0xad,0xbe] ++ List.replicate 15 0
def ex1_re : List AnyObj :=
  [.l2 (.eth ⟨[1,2,3,4,5,6], [7,8,9,10,11,12], 0x800⟩),
   .ip (.ip { exIp with ihl := 5, totLen := 31, protocol := 17, check := 21656 }),
   .tr (.udp ⟨1234, 53, 11, 18976⟩), .raw [0xde, 0xad, 0xbe]]

theorem ex1_stackable : StackableAll ex1 :=
  ⟨⟨exEth_inv, trivial, trivial, trivial⟩,
   ⟨exIp_inv, (by decide : exIp.hdr ≤ 60), ⟨exIp_normal, by decide⟩, ⟨rfl, trivial⟩⟩,
   ⟨exUdp_wf, trivial, trivial, trivial⟩, rfl⟩

example : serializeObjs ex1 = .ok ex1_bytes := rfl
example : padOf ex1 = 15 ∧ padAll ex1 = 0 := ⟨rfl, rfl⟩
example : parseChain (ex1_bytes.length + 2) "EthernetII" ex1_bytes = .ok ex1_re := rfl
example : ViewEqAll 0 ex1 ex1_re := chain_reparse_all_view _ _ ex1_stackable ex1_bytes rfl _ rfl
example : ∃ os', parseChain (ex1_bytes.length + 2) "EthernetII" ex1_bytes = .ok os' ∧ ViewEqAll 0 ex1 os' ∧
    (splitRaw os').2 = [0xde, 0xad, 0xbe] :=
  chain_reparse_all_net _ _ ex1_stackable ⟨.ip (.ip exIp), by simp, rfl⟩ ex1_bytes rfl

/-! #### 2. EthernetII / IP (NOOP + stream identifier; don't-fragment) / TCP (MSS, NOP, window scale) / RawPDU -/
def exIp2 : Ip.Ip4 :=
  { Ip.Ip4.create [192,168,0,2] [192,168,0,1] with
    ttl := 64, id := 7, tos := 16, fragOff := 0x4000, opts := [⟨1, 0, []⟩, ⟨136, 2, [0x12, 0x34]⟩] }
def exTcp : Transport.Tcp :=
  (((Transport.Tcp.create 80 40000).addOption (Transport.Tcp.encodeMss 1460)).addOption ⟨1, 0, []⟩).addOption
    (Transport.Tcp.encodeWinscale 7)
def ex2 : List AnyObj := [exEth, .ip (.ip exIp2), .tr (.tcp exTcp), .raw [0x47, 0x45, 0x54]]
def ex2_bytes : Bytes :=
  [1,2,3,4,5,6, 7,8,9,10,11,12, 8,0, 0x47,16,0,59, 0,7,0x40,0, 64,6,125,184, 192,168,0,1, 192,168,0,2, 1,136,4,0x12,0x34,0,0,0,
   156,64, 0,80, 0,0,0,0, 0,0,0,0, 0x70,0, 127,166, 75,71, 0,0, 2,4,5,180, 1, 3,3,7, 0x47,0x45,0x54]

theorem exIp2_inv : exIp2.Inv :=
  ⟨by decide, by decide, by decide, by decide, by decide, by decide, by decide, by decide, by decide, rfl, rfl,
   fun p hp => by
     simp only [exIp2, List.mem_cons, List.mem_nil_iff, or_false] at hp
     rcases hp with rfl | rfl <;> exact ⟨by decide, by decide, by decide⟩⟩
theorem exIp2_normal : exIp2.Normal := fun p hp => by
  simp only [exIp2, List.mem_cons, List.mem_nil_iff, or_false] at hp
  rcases hp with rfl | rfl
  · exact ⟨by decide, by decide, fun _ => ⟨rfl, rfl⟩, fun h => absurd h (by decide)⟩
  · exact ⟨by decide, by decide, fun h => absurd h (by decide), fun _ => ⟨rfl, by decide⟩⟩
theorem exTcp_inv : exTcp.Inv :=
  ⟨by decide, by decide, by decide, by decide, by decide, by decide, by decide, by decide, by decide, by decide,
   fun o ho => by
     simp only [exTcp, Transport.Tcp.addOption, Transport.Tcp.create, List.nil_append, List.cons_append, List.mem_cons,
       List.mem_nil_iff, or_false] at ho
     rcases ho with rfl | rfl | rfl <;> exact ⟨by decide, by decide, by decide⟩⟩
theorem exTcp_canon : ∀ o ∈ exTcp.opts, Transport.Tcp.Canon o := fun o ho => by
  simp only [exTcp, Transport.Tcp.addOption, Transport.Tcp.create, List.nil_append, List.cons_append, List.mem_cons,
    List.mem_nil_iff, or_false] at ho
  rcases ho with rfl | rfl | rfl
  · exact ⟨by decide, rfl, fun h => absurd h (by decide), by decide⟩
  · exact ⟨by decide, rfl, fun _ => rfl, by decide⟩
  · exact ⟨by decide, rfl, fun h => absurd h (by decide), by decide⟩

theorem ex2_stackable : StackableAll ex2 :=
  ⟨⟨exEth_inv, trivial, trivial, trivial⟩,
   ⟨exIp2_inv, (by decide : exIp2.hdr ≤ 60), ⟨exIp2_normal, by decide⟩, ⟨rfl, trivial⟩⟩,
   ⟨exTcp_inv, (by decide : Transport.Tcp.optsSum exTcp.opts ≤ 40), exTcp_canon, trivial⟩, rfl⟩

example : serializeObjs ex2 = .ok ex2_bytes := rfl
example : ∃ os', parseChain (ex2_bytes.length + 2) "EthernetII" ex2_bytes = .ok os' ∧ ViewEqAll 0 ex2 os' ∧
    (splitRaw os').2 = [0x47, 0x45, 0x54] :=
  chain_reparse_all_net _ _ ex2_stackable ⟨.ip (.ip exIp2), by simp, rfl⟩ ex2_bytes rfl
/-- the re-parsed IP and TCP layers carry the same options in the same order -/
example : ∃ e i t, parseChain (ex2_bytes.length + 2) "EthernetII" ex2_bytes = .ok [e, .ip (.ip i), .tr (.tcp t), .raw [0x47, 0x45, 0x54]] ∧
    i.opts = exIp2.opts ∧ t.opts = exTcp.opts ∧ i.ihl = 7 ∧ t.doff = 7 := ⟨_, _, _, rfl, rfl, rfl, rfl, rfl⟩

/-! #### 3. EthernetII / Dot1Q / IPv6 / hop-by-hop header / ICMPv6 echo request / RawPDU -/
def exIp6 : Ip6.Ipv6 :=
  { Ip6.Ipv6.create (List.replicate 15 0 ++ [2]) (List.replicate 15 0 ++ [1]) with
    hopLimit := 64, headers := [⟨0, 6, [1, 4, 0, 0, 0, 0]⟩] }
def exIcmp6 : Icmp.Icmp6 := { Icmp.Icmp6.create 128 with un := [0x12, 0x34, 0, 1] }
def ex3 : List AnyObj :=
  [exEth, .l2 (.dot1q ⟨3, 0, 100, 0, false⟩), .ip6 (.ip6 exIp6), .icmp (.icmp6 exIcmp6), .raw [1, 2, 3, 4]]
def ex3_bytes : Bytes :=
  [1,2,3,4,5,6, 7,8,9,10,11,12, 0x81,0, 0x60,100, 0x86,0xdd, 0x60,0,0,0, 0,20, 0, 64] ++ List.replicate 15 0 ++ [1] ++
  List.replicate 15 0 ++ [2] ++ [58, 0, 1, 4, 0, 0, 0, 0, 128, 0, 105, 123, 0x12, 0x34, 0, 1, 1, 2, 3, 4]

theorem exIp6_inv : exIp6.Inv :=
  ⟨by decide, by decide, by decide, by decide, by decide, by decide, rfl, rfl, by decide,
   fun h hh => by
     simp only [exIp6, List.mem_singleton] at hh
     subst hh
     exact ⟨by decide, by decide, by decide⟩⟩
theorem exIp6_parsed : ∀ h ∈ exIp6.headers, Ip6.Ipv6.HdrParsed h := fun h hh => by
  simp only [exIp6, List.mem_singleton] at hh
  subst hh
  exact ⟨⟨by decide, by decide, by decide⟩, rfl, by decide, by decide, by decide⟩
theorem exIcmp6_inv : exIcmp6.Inv :=
  ⟨rfl, rfl, rfl, rfl, rfl, rfl, rfl, (fun s hs => by cases hs), (fun r hr => by cases hr), (fun o ho => by cases ho), rfl⟩

theorem ex3_stackable : StackableAll ex3 :=
  ⟨⟨exEth_inv, trivial, trivial, trivial⟩,
   ⟨⟨by decide, by decide, by decide, by decide⟩, trivial, trivial, trivial⟩,
   ⟨exIp6_inv, trivial, ⟨exIp6_parsed, by decide⟩, ⟨rfl, trivial⟩⟩,
   ⟨exIcmp6_inv, ⟨by decide, by decide⟩,
    ⟨⟨by decide, by decide⟩, rfl, fun h => absurd h (by decide),
     ⟨fun h => absurd h (by decide), fun h => absurd h (by decide)⟩,
     ⟨fun h => absurd h (by decide), fun _ => rfl⟩, fun h => absurd h (by decide)⟩, trivial⟩, rfl⟩

set_option maxRecDepth 8192 in
example : serializeObjs ex3 = .ok ex3_bytes := rfl
set_option maxRecDepth 8192 in
example : ∃ os', parseChain (ex3_bytes.length + 2) "EthernetII" ex3_bytes = .ok os' ∧ ViewEqAll 0 ex3 os' ∧
    (splitRaw os').2 = [1, 2, 3, 4] :=
  chain_reparse_all_net _ _ ex3_stackable ⟨.ip6 (.ip6 exIp6), by simp, rfl⟩ ex3_bytes rfl

/-! #### 4. IP / ICMP echo request / RawPDU (entry point IP) -/
def exIcmp : Icmp.Icmp4 := { Icmp.Icmp4.create 8 with un := [0xab, 0xcd, 0, 5] }
def ex4 : List AnyObj := [.ip (.ip exIp), .icmp (.icmp exIcmp), .raw [0x61, 0x62, 0x63, 0x64]]
def ex4_bytes : Bytes :=
  [0x45,0,0,32, 0x12,0x34,0,0, 64,1,84,167, 10,0,0,1, 10,0,0,2, 8,0,135,102, 0xab,0xcd,0,5, 0x61,0x62,0x63,0x64]

theorem ex4_stackable : StackableAll ex4 :=
  ⟨⟨exIp_inv, (by decide : exIp.hdr ≤ 60), ⟨exIp_normal, by decide⟩, ⟨rfl, trivial⟩⟩,
   ⟨⟨rfl, rfl, rfl, rfl⟩, (by decide : exIcmp.ext.plainSize < 4294967296),
    ⟨⟨by decide, by decide⟩, rfl, fun h => absurd h (by decide)⟩, trivial⟩, rfl⟩

example : serializeObjs ex4 = .ok ex4_bytes := rfl
example : ∃ os', parseChain (ex4_bytes.length + 2) "IP" ex4_bytes = .ok os' ∧ ViewEqAll 0 ex4 os' ∧
    (splitRaw os').2 = [0x61, 0x62, 0x63, 0x64] :=
  chain_reparse_all_net _ _ ex4_stackable ⟨.ip (.ip exIp), by simp, rfl⟩ ex4_bytes rfl

/-! #### 5. Loopback / IP / UDP (no payload): the protocol family is derived from the inner class -/
def ex5 : List AnyObj := [.l2 (.loopback ⟨0⟩), .ip (.ip exIp), .tr (.udp exUdp)]
def ex5_bytes : Bytes := [2,0,0,0, 0x45,0,0,28, 0x12,0x34,0,0, 64,17,84,155, 10,0,0,1, 10,0,0,2, 4,210, 0,53, 0,8, 230,212]

theorem ex5_stackable : StackableAll ex5 :=
  ⟨⟨(by decide : (0 : Nat) < 4294967296), trivial, trivial, trivial⟩,
   ⟨exIp_inv, (by decide : exIp.hdr ≤ 60), ⟨exIp_normal, by decide⟩, ⟨rfl, trivial⟩⟩,
   ⟨exUdp_wf, trivial, trivial, trivial⟩, trivial⟩

example : serializeObjs ex5 = .ok ex5_bytes := rfl
example : parseChain (ex5_bytes.length + 2) "Loopback" ex5_bytes =
    .ok [.l2 (.loopback ⟨2⟩), .ip (.ip { exIp with ihl := 5, totLen := 28, protocol := 17, check := 21659 }),
         .tr (.udp ⟨1234, 53, 8, 59092⟩)] := rfl
example : ∃ os', parseChain (ex5_bytes.length + 2) "Loopback" ex5_bytes = .ok os' ∧ ViewEqAll 0 ex5 os' := by
  rcases chain_reparse_all_net _ _ ex5_stackable ⟨.ip (.ip exIp), by simp, rfl⟩ ex5_bytes rfl with ⟨os', h1, h2, _⟩
  exact ⟨os', h1, h2⟩

/-! #### `c03_all` on accepted byte strings -/

/-- the 60-byte frame of example 1 (15 bytes of Ethernet padding behind the IP datagram) is accepted, and C03 holds for it
    with the payload byte for byte -/
example : ∃ out, serializeObjs ex1_re = .ok out ∧
    ∃ os', parseChain (out.length + 2) "EthernetII" out = .ok os' ∧ ViewEqAll 0 ex1_re os' ∧
      (splitRaw os').2 = [0xde, 0xad, 0xbe] :=
  c03_all_net "EthernetII" ex1_bytes ex1_re (by decide) rfl
    ⟨trivial, (by show (_ : Nat) < 65536; decide), trivial, trivial, trivial⟩
    (fun o t h => by cases h) ⟨_, List.mem_cons_of_mem _ List.mem_cons_self, rfl⟩

/-- an IP fragment (more-fragments set) in front of bytes that would otherwise be handed to the UDP constructor: parsed
    with a RawPDU, representable, re-parsed with a RawPDU — `^protocol` is compared and survives -/
def exFrag : Bytes := [0x45,0,0,24, 0,1,0x20,0, 64,17,0,0, 10,0,0,1, 10,0,0,2, 1,2,3,4]
def exFrag_os : List AnyObj :=
  [.ip (.ip ⟨4, 5, 0, 24, 1, 0x2000, 64, 17, 0, [10,0,0,1], [10,0,0,2], []⟩), .raw [1, 2, 3, 4]]
example : parseChain (exFrag.length + 2) "IP" exFrag = .ok exFrag_os := rfl
example : ∃ out, serializeObjs exFrag_os = .ok out ∧
    ∃ os', parseChain (out.length + 2) "IP" out = .ok os' ∧ ViewEqAll 0 exFrag_os os' ∧ (splitRaw os').2 = [1, 2, 3, 4] :=
  c03_all_net "IP" exFrag exFrag_os (by decide) rfl ⟨(by show (_ : Nat) < 65536; decide), trivial, trivial⟩
    (fun o t h => by injection h with h1 _; injection h1 with h1; subst h1; rfl) ⟨_, List.mem_cons_self, rfl⟩

/-- example 4 parsed from its bytes: IP / ICMP echo request -/
def ex4_re : List AnyObj :=
  [.ip (.ip { exIp with ihl := 5, totLen := 32, protocol := 1, check := 21671 }),
   .icmp (.icmp { exIcmp with check := 34662 }), .raw [0x61, 0x62, 0x63, 0x64]]
example : parseChain (ex4_bytes.length + 2) "IP" ex4_bytes = .ok ex4_re := rfl
example : ∃ out, serializeObjs ex4_re = .ok out ∧
    ∃ os', parseChain (out.length + 2) "IP" out = .ok os' ∧ ViewEqAll (padAll ex4_re) ex4_re os' :=
  c03_all "IP" ex4_bytes ex4_re (by decide) rfl
    ⟨(by show (_ : Nat) < 65536; decide), ⟨rfl, fun h => absurd h (by decide)⟩, trivial, trivial⟩
    (fun o t h => by injection h with h1 _; injection h1 with h1; subst h1; rfl)

/-! #### more accepted byte strings through `c03_all_net` (the parsed stacks are what `parseChain` returns: `rfl`) -/

/-- EthernetII / MPLS (bottom of stack) / IP / UDP / RawPDU: the label dispatches on the version nibble; 11 bytes of
    Ethernet padding cut off by the IP total length -/
def exA_bytes : Bytes :=
  [1, 2, 3, 4, 5, 6, 7, 8, 9, 10, 11, 12, 136, 71, 18, 52, 81, 64, 69, 0, 0, 31, 18, 52, 0, 0, 64, 17, 84, 152, 10,
   0, 0, 1, 10, 0, 0, 2, 4, 210, 0, 53, 0, 11, 214, 198, 9, 8, 7, 0, 0, 0, 0, 0, 0, 0, 0, 0, 0, 0]
def exA_os : List AnyObj :=
  [AnyObj.l2 (L2.Obj.eth { dst := [1, 2, 3, 4, 5, 6], src := [7, 8, 9, 10, 11, 12], ptype := 34887 }),
   AnyObj.l2 (L2.Obj.mpls { labelHigh := 4660, b2 := 81, ttl := 64 }),
   AnyObj.ip (Ip.Obj.ip { version := 4, ihl := 5, tos := 0, totLen := 31, id := 4660, fragOff := 0, ttl := 64, protocol := 17, check := 21656, src := [10, 0, 0, 1], dst := [10, 0, 0, 2], opts := [] }),
   AnyObj.tr (Transport.Obj.udp { sport := 1234, dport := 53, len := 11, check := 54982 }),
   AnyObj.raw [9, 8, 7]]
example : parseChain (exA_bytes.length + 2) "EthernetII" exA_bytes = .ok exA_os := rfl
example : ∃ out, serializeObjs exA_os = .ok out ∧
    ∃ os', parseChain (out.length + 2) "EthernetII" out = .ok os' ∧ ViewEqAll 0 exA_os os' ∧
      (splitRaw os').2 = (splitRaw exA_os).2 :=
  c03_all_net "EthernetII" exA_bytes exA_os (by decide) rfl
    ⟨trivial, trivial, (by show (_ : Nat) < 65536; decide), trivial, trivial, trivial⟩
    (fun o t h => by cases h) ⟨_, List.mem_cons_of_mem _ (List.mem_cons_of_mem _ List.mem_cons_self), rfl⟩

/-- IP / IPSecAH / UDP / RawPDU: next-header derived from the inner class (the UDP checksum is only computed directly
    inside IP / IPv6) -/
def exB_bytes : Bytes :=
  [69, 0, 0, 50, 18, 52, 0, 0, 64, 51, 84, 99, 10, 0, 0, 1, 10, 0, 0, 2, 17, 3, 0, 0, 0, 0, 1, 0, 0, 0, 0, 5, 1, 2,
   3, 4, 5, 6, 7, 8, 4, 210, 0, 53, 0, 10, 0, 0, 1, 2]
def exB_os : List AnyObj :=
  [AnyObj.ip (Ip.Obj.ip { version := 4, ihl := 5, tos := 0, totLen := 50, id := 4660, fragOff := 0, ttl := 64, protocol := 51, check := 21603, src := [10, 0, 0, 1], dst := [10, 0, 0, 2], opts := [] }),
   AnyObj.ip (Ip.Obj.ah { nextHeader := 17, length := 3, reserved := [0, 0], spi := 256, seq := 5, icv := [1, 2, 3, 4, 5, 6, 7, 8] }),
   AnyObj.tr (Transport.Obj.udp { sport := 1234, dport := 53, len := 10, check := 0 }),
   AnyObj.raw [1, 2]]
example : parseChain (exB_bytes.length + 2) "IP" exB_bytes = .ok exB_os := rfl
example : ∃ out, serializeObjs exB_os = .ok out ∧
    ∃ os', parseChain (out.length + 2) "IP" out = .ok os' ∧ ViewEqAll 0 exB_os os' ∧
      (splitRaw os').2 = (splitRaw exB_os).2 :=
  c03_all_net "IP" exB_bytes exB_os (by decide) rfl
    ⟨(by show (_ : Nat) < 65536; decide), trivial, trivial, trivial, trivial⟩
    (fun o t h => by injection h with h1 _; injection h1 with h1; subst h1; rfl) ⟨_, List.mem_cons_self, rfl⟩

/-- IP / IPSecESP / RawPDU -/
def exC_bytes : Bytes :=
  [69, 0, 0, 32, 18, 52, 0, 0, 64, 50, 84, 118, 10, 0, 0, 1, 10, 0, 0, 2, 0, 0, 2, 0, 0, 0, 0, 9, 170, 187, 204,
   221]
def exC_os : List AnyObj :=
  [AnyObj.ip (Ip.Obj.ip { version := 4, ihl := 5, tos := 0, totLen := 32, id := 4660, fragOff := 0, ttl := 64, protocol := 50, check := 21622, src := [10, 0, 0, 1], dst := [10, 0, 0, 2], opts := [] }),
   AnyObj.ip (Ip.Obj.esp { spi := 512, seq := 9 }),
   AnyObj.raw [170, 187, 204, 221]]
example : parseChain (exC_bytes.length + 2) "IP" exC_bytes = .ok exC_os := rfl
example : ∃ out, serializeObjs exC_os = .ok out ∧
    ∃ os', parseChain (out.length + 2) "IP" out = .ok os' ∧ ViewEqAll 0 exC_os os' ∧
      (splitRaw os').2 = (splitRaw exC_os).2 :=
  c03_all_net "IP" exC_bytes exC_os (by decide) rfl
    ⟨(by show (_ : Nat) < 65536; decide), trivial, trivial, trivial⟩
    (fun o t h => by injection h with h1 _; injection h1 with h1; subst h1; rfl) ⟨_, List.mem_cons_self, rfl⟩

/-- EthernetII / IPv6 (no extension headers) / TCP with options (pseudo-header checksum over the IPv6 addresses) -/
def exD_bytes : Bytes :=
  [1, 2, 3, 4, 5, 6, 7, 8, 9, 10, 11, 12, 134, 221, 96, 0, 0, 0, 0, 28, 6, 64, 0, 0, 0, 0, 0, 0, 0, 0, 0, 0, 0, 0,
   0, 0, 0, 1, 0, 0, 0, 0, 0, 0, 0, 0, 0, 0, 0, 0, 0, 0, 0, 2, 156, 64, 0, 80, 0, 0, 0, 0, 0, 0, 0, 0, 112, 0, 127,
   166, 103, 225, 0, 0, 2, 4, 5, 180, 1, 3, 3, 7]
def exD_os : List AnyObj :=
  [AnyObj.l2 (L2.Obj.eth { dst := [1, 2, 3, 4, 5, 6], src := [7, 8, 9, 10, 11, 12], ptype := 34525 }),
   AnyObj.ip6 (Ip6.Obj.ip6 { version := 6, trafficClass := 0, flowLabel := 0, payloadLength := 28, nextHeader := 6, hopLimit := 64, src := [0, 0, 0, 0, 0, 0, 0, 0, 0, 0, 0, 0, 0, 0, 0, 1], dst := [0, 0, 0, 0, 0, 0, 0, 0, 0, 0, 0, 0, 0, 0, 0, 2], headers := [], finalNext := 6 }),
   AnyObj.tr (Transport.Obj.tcp { sport := 40000, dport := 80, seq := 0, ackSeq := 0, doff := 7, res1 := 0, flags8 := 0, window := 32678, check := 26593, urgPtr := 0, opts := [{ code := 2, lenField := 2, data := [5, 180] }, { code := 1, lenField := 0, data := [] }, { code := 3, lenField := 1, data := [7] }] })]
example : parseChain (exD_bytes.length + 2) "EthernetII" exD_bytes = .ok exD_os := rfl
example : ∃ out, serializeObjs exD_os = .ok out ∧
    ∃ os', parseChain (out.length + 2) "EthernetII" out = .ok os' ∧ ViewEqAll 0 exD_os os' ∧
      (splitRaw os').2 = (splitRaw exD_os).2 :=
  c03_all_net "EthernetII" exD_bytes exD_os (by decide) rfl
    ⟨trivial, (by show (_ : Nat) < 65536; decide), trivial, trivial⟩
    (fun o t h => by cases h) ⟨_, List.mem_cons_of_mem _ List.mem_cons_self, rfl⟩

/-- SLL / Dot1Q / IP / IP (IP-in-IP) / ICMP echo request / RawPDU -/
def exE_bytes : Bytes :=
  [0, 0, 0, 1, 0, 6, 1, 2, 3, 4, 5, 6, 0, 0, 129, 0, 32, 9, 8, 0, 69, 0, 0, 49, 18, 52, 0, 0, 64, 4, 84, 147, 10, 0,
   0, 1, 10, 0, 0, 2, 69, 0, 0, 29, 18, 52, 0, 0, 64, 1, 84, 170, 10, 0, 0, 1, 10, 0, 0, 2, 8, 0, 75, 45, 171, 205,
   0, 5, 1]
def exE_os : List AnyObj :=
  [AnyObj.l2 (L2.Obj.sll { packetType := 0, lladdrType := 1, lladdrLen := 6, address := [1, 2, 3, 4, 5, 6, 0, 0], protocol := 33024 }),
   AnyObj.l2 (L2.Obj.dot1q { priority := 1, cfi := 0, id := 9, ptype := 2048, appendPadding := false }),
   AnyObj.ip (Ip.Obj.ip { version := 4, ihl := 5, tos := 0, totLen := 49, id := 4660, fragOff := 0, ttl := 64, protocol := 4, check := 21651, src := [10, 0, 0, 1], dst := [10, 0, 0, 2], opts := [] }),
   AnyObj.ip (Ip.Obj.ip { version := 4, ihl := 5, tos := 0, totLen := 29, id := 4660, fragOff := 0, ttl := 64, protocol := 1, check := 21674, src := [10, 0, 0, 1], dst := [10, 0, 0, 2], opts := [] }),
   AnyObj.icmp (Icmp.Obj.icmp { type := 8, code := 0, check := 19245, un := [171, 205, 0, 5], orig := [0, 0, 0, 0], recv := [0, 0, 0, 0], trans := [0, 0, 0, 0], ext := { vr := 8192, ck := 0, exts := [] } }),
   AnyObj.raw [1]]
example : parseChain (exE_bytes.length + 2) "SLL" exE_bytes = .ok exE_os := rfl
example : ∃ out, serializeObjs exE_os = .ok out ∧
    ∃ os', parseChain (out.length + 2) "SLL" out = .ok os' ∧ ViewEqAll 0 exE_os os' ∧
      (splitRaw os').2 = (splitRaw exE_os).2 :=
  c03_all_net "SLL" exE_bytes exE_os (by decide) rfl
    ⟨trivial, trivial, (by show (_ : Nat) < 65536; decide), (by show (_ : Nat) < 65536; decide),
     ⟨rfl, fun h => absurd h (by decide)⟩, trivial, trivial⟩
    (fun o t h => by cases h) ⟨_, List.mem_cons_of_mem _ (List.mem_cons_of_mem _ List.mem_cons_self), rfl⟩

/-! #### the App and Wifi families: accepted byte strings through `c03_all` (the parsed stacks are what `parseChain` returns: `rfl`) -/

/-- EthernetII / ARP request / RawPDU (the 18 bytes of minimum-frame padding of the 60-byte frame become ARP's payload) -/
def exArp_bytes : Bytes :=
  [1, 2, 3, 4, 5, 6, 7, 8, 9, 10, 11, 12, 8, 6, 0, 1, 8, 0, 6, 4, 0, 1, 7, 8, 9, 10, 11, 12, 10, 0, 0, 1, 0, 0, 0, 0,
   0, 0, 10, 0, 0, 2, 0, 0, 0, 0, 0, 0, 0, 0, 0, 0, 0, 0, 0, 0, 0, 0, 0, 0]
def exArp_os : List AnyObj :=
  [AnyObj.l2 (L2.Obj.eth { dst := [1, 2, 3, 4, 5, 6], src := [7, 8, 9, 10, 11, 12], ptype := 2054 }),
   AnyObj.app
     (App.Obj.arp
       { h := [0, 1, 8, 0, 6, 4, 0, 1, 7, 8, 9, 10, 11, 12, 10, 0, 0, 1, 0, 0, 0, 0, 0, 0, 10, 0, 0, 2] }),
   AnyObj.raw [0, 0, 0, 0, 0, 0, 0, 0, 0, 0, 0, 0, 0, 0, 0, 0, 0, 0]]
set_option maxRecDepth 16384 in
example : parseChain (exArp_bytes.length + 2) "EthernetII" exArp_bytes = .ok exArp_os := rfl
set_option maxRecDepth 16384 in
example : serializeObjs exArp_os = .ok exArp_bytes := rfl
set_option maxRecDepth 16384 in
example : ∃ out, serializeObjs exArp_os = .ok out ∧
    ∃ os', parseChain (out.length + 2) "EthernetII" out = .ok os' ∧ ViewEqAll (padAll exArp_os) exArp_os os' :=
  c03_all "EthernetII" exArp_bytes exArp_os (by decide) rfl
    ⟨trivial, trivial, trivial, trivial⟩
    (fun o t h => by cases h)

/-- Dot3 / LLC (DSAP = SSAP = 0x42, UI) / STP configuration BPDU -/
def exStp_bytes : Bytes :=
  [1, 128, 194, 0, 0, 0, 7, 8, 9, 10, 11, 12, 0, 38, 66, 66, 3, 0, 0, 0, 0, 1, 128, 0, 1, 2, 3, 4, 5, 6, 0, 0, 0, 4,
   128, 1, 1, 2, 3, 4, 5, 7, 128, 2, 1, 0, 20, 0, 2, 0, 15, 0]
def exStp_os : List AnyObj :=
  [AnyObj.l2 (L2.Obj.dot3 { dst := [1, 128, 194, 0, 0, 0], src := [7, 8, 9, 10, 11, 12], len := 38 }),
   AnyObj.l2
     (L2.Obj.llc
       { dsap := 66,
         ssap := 66,
         typ := L2.LlcFormat.unnumbered,
         ctlLen := 1,
         c0 := 3,
         c1 := 0,
         infoLen := 0,
         infos := [] }),
   AnyObj.app
     (App.Obj.stp
       { h := [0, 0, 0, 0, 1, 128, 0, 1, 2, 3, 4, 5, 6, 0, 0, 0, 4, 128, 1, 1, 2, 3, 4, 5, 7, 128, 2, 1, 0, 20, 0, 2, 0,
               15, 0] })]
set_option maxRecDepth 16384 in
example : parseChain (exStp_bytes.length + 2) "Dot3" exStp_bytes = .ok exStp_os := rfl
set_option maxRecDepth 16384 in
example : serializeObjs exStp_os = .ok exStp_bytes := rfl
set_option maxRecDepth 16384 in
example : ∃ out, serializeObjs exStp_os = .ok out ∧
    ∃ os', parseChain (out.length + 2) "Dot3" out = .ok os' ∧ ViewEqAll (padAll exStp_os) exStp_os os' :=
  c03_all "Dot3" exStp_bytes exStp_os (by decide) rfl
    ⟨trivial, trivial, trivial, trivial⟩
    (fun o t h => by cases h)

/-- RadioTap (no fields, no FCS) / Dot11Beacon with SSID "test" and supported rates — the Dot11 class is selected by
    `Dot11::from_bytes` (entry `Dot11*`) from the frame-control octet 0x80 -/
def exBeacon_bytes : Bytes :=
  [0, 0, 8, 0, 0, 0, 0, 0, 128, 0, 0, 0, 255, 255, 255, 255, 255, 255, 1, 2, 3, 4, 5, 6, 1, 2, 3, 4, 5, 6, 16, 0, 1, 2,
   3, 4, 5, 6, 7, 8, 100, 0, 1, 4, 0, 4, 116, 101, 115, 116, 1, 4, 130, 132, 139, 150]
def exBeacon_os : List AnyObj :=
  [AnyObj.wifi (Wifi.Obj.radiotap { hdr := [0, 0, 8, 0], payload := [0, 0, 0, 0] }),
   AnyObj.wifi
     (Wifi.Obj.dot11
       { cls := "Dot11Beacon",
         lay := { fam := Wifi.Fam.mgmt, body := [12], tagged := true, payload := false },
         hdr := [128, 0, 0, 0, 255, 255, 255, 255, 255, 255],
         ext := [1, 2, 3, 4, 5, 6, 1, 2, 3, 4, 5, 6, 16, 0],
         addr4 := [0, 0, 0, 0, 0, 0],
         body := [1, 2, 3, 4, 5, 6, 7, 8, 100, 0, 1, 4],
         opts := [{ code := 0, lenField := 4, data := [116, 101, 115, 116] },
                  { code := 1, lenField := 4, data := [130, 132, 139, 150] }],
         optSize := 12 })]
set_option maxRecDepth 16384 in
example : parseChain (exBeacon_bytes.length + 2) "RadioTap" exBeacon_bytes = .ok exBeacon_os := rfl
set_option maxRecDepth 16384 in
example : serializeObjs exBeacon_os = .ok exBeacon_bytes := rfl
set_option maxRecDepth 16384 in
example : ∃ out, serializeObjs exBeacon_os = .ok out ∧
    ∃ os', parseChain (out.length + 2) "RadioTap" out = .ok os' ∧ ViewEqAll (padAll exBeacon_os) exBeacon_os os' :=
  c03_all "RadioTap" exBeacon_bytes exBeacon_os (by decide) rfl
    ⟨trivial, trivial, trivial⟩
    (fun o t h => by cases h)

/-- RadioTap (FLAGS = FCS at end) / Dot11QoSData / SNAP / IP / UDP / RawPDU: the 4 FCS bytes are stripped by the RadioTap
    constructor and recomputed (CRC-32 of the Dot11 frame) on serialization -/
def exQos_bytes : Bytes :=
  [0, 0, 9, 0, 2, 0, 0, 0, 16, 136, 0, 44, 0, 1, 2, 3, 4, 5, 6, 7, 8, 9, 10, 11, 12, 1, 2, 3, 4, 5, 6, 32, 0, 5, 0,
   170, 170, 3, 0, 0, 0, 8, 0, 69, 0, 0, 31, 18, 52, 0, 0, 64, 17, 84, 152, 10, 0, 0, 1, 10, 0, 0, 2, 4, 210, 0, 53,
   0, 11, 74, 32, 222, 173, 190, 170, 187, 204, 221]
def exQos_os : List AnyObj :=
  [AnyObj.wifi (Wifi.Obj.radiotap { hdr := [0, 0, 9, 0], payload := [2, 0, 0, 0, 16] }),
   AnyObj.wifi
     (Wifi.Obj.dot11
       { cls := "Dot11QoSData",
         lay := { fam := Wifi.Fam.data, body := [2], tagged := false, payload := true },
         hdr := [136, 0, 44, 0, 1, 2, 3, 4, 5, 6],
         ext := [7, 8, 9, 10, 11, 12, 1, 2, 3, 4, 5, 6, 32, 0],
         addr4 := [0, 0, 0, 0, 0, 0],
         body := [5, 0],
         opts := [],
         optSize := 0 }),
   AnyObj.l2 (L2.Obj.snap { dsap := 170, ssap := 170, control := 3, org := 0, ethType := 2048 }),
   AnyObj.ip
     (Ip.Obj.ip
       { version := 4,
         ihl := 5,
         tos := 0,
         totLen := 31,
         id := 4660,
         fragOff := 0,
         ttl := 64,
         protocol := 17,
         check := 21656,
         src := [10, 0, 0, 1],
         dst := [10, 0, 0, 2],
         opts := [] }),
   AnyObj.tr (Transport.Obj.udp { sport := 1234, dport := 53, len := 11, check := 18976 }),
   AnyObj.raw [222, 173, 190]]
set_option maxRecDepth 16384 in
example : parseChain (exQos_bytes.length + 2) "RadioTap" exQos_bytes = .ok exQos_os := rfl
def exQos_ser : Bytes :=
  [0, 0, 9, 0, 2, 0, 0, 0, 16, 136, 0, 44, 0, 1, 2, 3, 4, 5, 6, 7, 8, 9, 10, 11, 12, 1, 2, 3, 4, 5, 6, 32, 0, 5, 0,
   170, 170, 3, 0, 0, 0, 8, 0, 69, 0, 0, 31, 18, 52, 0, 0, 64, 17, 84, 152, 10, 0, 0, 1, 10, 0, 0, 2, 4, 210, 0, 53,
   0, 11, 74, 32, 222, 173, 190, 173, 97, 132, 189]
set_option maxRecDepth 16384 in
example : serializeObjs exQos_os = .ok exQos_ser := rfl
set_option maxRecDepth 16384 in
example : ∃ out, serializeObjs exQos_os = .ok out ∧
    ∃ os', parseChain (out.length + 2) "RadioTap" out = .ok os' ∧ ViewEqAll 0 exQos_os os' ∧
      (splitRaw os').2 = (splitRaw exQos_os).2 :=
  c03_all_net "RadioTap" exQos_bytes exQos_os (by decide) rfl
    ⟨trivial, trivial, trivial, (by show (_ : Nat) < 65536; decide), trivial, trivial, trivial⟩
    (fun o t h => by cases h) ⟨_, List.getElem_mem (by decide : 3 < exQos_os.length), rfl⟩

/-- EthernetII / RSNEAPOL (EtherType 0x888e → `EAPOL::from_bytes` → key-descriptor type 2) with a 2-byte key -/
def exEapol_bytes : Bytes :=
  [1, 2, 3, 4, 5, 6, 7, 8, 9, 10, 11, 12, 136, 142, 1, 3, 0, 97, 2, 1, 10, 0, 16, 0, 0, 0, 0, 0, 0, 0, 1, 0, 0, 0, 0,
   0, 0, 0, 0, 0, 0, 0, 0, 0, 0, 0, 0, 0, 0, 0, 0, 0, 0, 0, 0, 0, 0, 0, 0, 0, 0, 0, 0, 0, 0, 0, 0, 0, 0, 0, 0, 0, 0,
   0, 0, 0, 0, 0, 0, 0, 0, 0, 0, 0, 0, 0, 0, 0, 0, 0, 0, 0, 0, 0, 0, 0, 0, 0, 0, 0, 0, 0, 0, 0, 0, 0, 0, 0, 0, 0, 0,
   0, 2, 170, 187]
def exEapol_os : List AnyObj :=
  [AnyObj.l2 (L2.Obj.eth { dst := [1, 2, 3, 4, 5, 6], src := [7, 8, 9, 10, 11, 12], ptype := 34958 }),
   AnyObj.wifi
     (Wifi.Obj.eapol
       { rsn := true,
         hdr := [1, 3, 0, 97, 2],
         sub := [1, 10, 0, 16, 0, 0, 0, 0, 0, 0, 0, 1, 0, 0, 0, 0, 0, 0, 0, 0, 0, 0, 0, 0, 0, 0, 0, 0, 0, 0, 0, 0, 0, 0,
                 0, 0, 0, 0, 0, 0, 0, 0, 0, 0, 0, 0, 0, 0, 0, 0, 0, 0, 0, 0, 0, 0, 0, 0, 0, 0, 0, 0, 0, 0, 0, 0, 0, 0, 0,
                 0, 0, 0, 0, 0, 0, 0, 0, 0, 0, 0, 0, 0, 0, 0, 0, 0, 0, 0, 0, 0, 0, 0, 0, 2],
         key := [170, 187] })]
set_option maxRecDepth 16384 in
example : parseChain (exEapol_bytes.length + 2) "EthernetII" exEapol_bytes = .ok exEapol_os := rfl
set_option maxRecDepth 16384 in
example : serializeObjs exEapol_os = .ok exEapol_bytes := rfl
set_option maxRecDepth 16384 in
example : ∃ out, serializeObjs exEapol_os = .ok out ∧
    ∃ os', parseChain (out.length + 2) "EthernetII" out = .ok os' ∧ ViewEqAll (padAll exEapol_os) exEapol_os os' :=
  c03_all "EthernetII" exEapol_bytes exEapol_os (by decide) rfl
    ⟨trivial, (by show (_ : Nat) < 65540; decide), trivial⟩
    (fun o t h => by cases h)

/-- DHCP (entry class) with options: message type DISCOVER, host name "host", END -/
def exDhcp_bytes : Bytes :=
  [1, 1, 6, 0, 18, 52, 86, 120, 0, 0, 128, 0, 0, 0, 0, 0, 0, 0, 0, 0, 0, 0, 0, 0, 0, 0, 0, 0, 1, 2, 3, 4, 5, 6, 0, 0,
   0, 0, 0, 0, 0, 0, 0, 0, 0, 0, 0, 0, 0, 0, 0, 0, 0, 0, 0, 0, 0, 0, 0, 0, 0, 0, 0, 0, 0, 0, 0, 0, 0, 0, 0, 0, 0, 0,
   0, 0, 0, 0, 0, 0, 0, 0, 0, 0, 0, 0, 0, 0, 0, 0, 0, 0, 0, 0, 0, 0, 0, 0, 0, 0, 0, 0, 0, 0, 0, 0, 0, 0, 0, 0, 0, 0,
   0, 0, 0, 0, 0, 0, 0, 0, 0, 0, 0, 0, 0, 0, 0, 0, 0, 0, 0, 0, 0, 0, 0, 0, 0, 0, 0, 0, 0, 0, 0, 0, 0, 0, 0, 0, 0, 0,
   0, 0, 0, 0, 0, 0, 0, 0, 0, 0, 0, 0, 0, 0, 0, 0, 0, 0, 0, 0, 0, 0, 0, 0, 0, 0, 0, 0, 0, 0, 0, 0, 0, 0, 0, 0, 0, 0,
   0, 0, 0, 0, 0, 0, 0, 0, 0, 0, 0, 0, 0, 0, 0, 0, 0, 0, 0, 0, 0, 0, 0, 0, 0, 0, 0, 0, 0, 0, 0, 0, 0, 0, 0, 0, 0, 0,
   0, 0, 0, 0, 0, 0, 0, 0, 0, 0, 99, 130, 83, 99, 53, 1, 1, 12, 4, 104, 111, 115, 116, 255]
def exDhcp_os : List AnyObj :=
  [AnyObj.app
     (App.Obj.dhcp
       { h := [1, 1, 6, 0, 18, 52, 86, 120, 0, 0, 128, 0, 0, 0, 0, 0, 0, 0, 0, 0, 0, 0, 0, 0, 0, 0, 0, 0, 1, 2, 3, 4, 5,
               6, 0, 0, 0, 0, 0, 0, 0, 0, 0, 0, 0, 0, 0, 0, 0, 0, 0, 0, 0, 0, 0, 0, 0, 0, 0, 0, 0, 0, 0, 0, 0, 0, 0, 0, 0,
               0, 0, 0, 0, 0, 0, 0, 0, 0, 0, 0, 0, 0, 0, 0, 0, 0, 0, 0, 0, 0, 0, 0, 0, 0, 0, 0, 0, 0, 0, 0, 0, 0, 0, 0, 0,
               0, 0, 0, 0, 0, 0, 0, 0, 0, 0, 0, 0, 0, 0, 0, 0, 0, 0, 0, 0, 0, 0, 0, 0, 0, 0, 0, 0, 0, 0, 0, 0, 0, 0, 0, 0,
               0, 0, 0, 0, 0, 0, 0, 0, 0, 0, 0, 0, 0, 0, 0, 0, 0, 0, 0, 0, 0, 0, 0, 0, 0, 0, 0, 0, 0, 0, 0, 0, 0, 0, 0, 0,
               0, 0, 0, 0, 0, 0, 0, 0, 0, 0, 0, 0, 0, 0, 0, 0, 0, 0, 0, 0, 0, 0, 0, 0, 0, 0, 0, 0, 0, 0, 0, 0, 0, 0, 0, 0,
               0, 0, 0, 0, 0, 0, 0, 0, 0, 0, 0, 0, 0, 0, 0, 0, 0, 0, 0, 0, 0, 0, 0],
         vend := [],
         opts := [{ code := 53, lenField := 1, data := [1] },
                  { code := 12, lenField := 4, data := [104, 111, 115, 116] },
                  { code := 255, lenField := 0, data := [] }],
         size := 14 })]
set_option maxRecDepth 16384 in
example : parseChain (exDhcp_bytes.length + 2) "DHCP" exDhcp_bytes = .ok exDhcp_os := rfl
set_option maxRecDepth 16384 in
example : serializeObjs exDhcp_os = .ok exDhcp_bytes := rfl
set_option maxRecDepth 16384 in
example : ∃ out, serializeObjs exDhcp_os = .ok out ∧
    ∃ os', parseChain (out.length + 2) "DHCP" out = .ok os' ∧ ViewEqAll (padAll exDhcp_os) exDhcp_os os' :=
  c03_all "DHCP" exDhcp_bytes exDhcp_os (by decide) rfl
    ⟨trivial, trivial⟩
    (fun o t h => by cases h)

/-- VXLAN (entry class) / EthernetII / IP / UDP: the inner frame's minimum-frame padding (18 bytes) is cut off by the IP total length -/
def exVxlan_bytes : Bytes :=
  [8, 0, 0, 0, 0, 0, 42, 0, 1, 2, 3, 4, 5, 6, 7, 8, 9, 10, 11, 12, 8, 0, 69, 0, 0, 28, 18, 52, 0, 0, 64, 17, 84, 155,
   10, 0, 0, 1, 10, 0, 0, 2, 4, 210, 0, 53, 0, 8, 230, 212, 0, 0, 0, 0, 0, 0, 0, 0, 0, 0, 0, 0, 0, 0, 0, 0, 0, 0]
def exVxlan_os : List AnyObj :=
  [AnyObj.app (App.Obj.vxlan { h := [8, 0, 0, 0, 0, 0, 42, 0] }),
   AnyObj.l2 (L2.Obj.eth { dst := [1, 2, 3, 4, 5, 6], src := [7, 8, 9, 10, 11, 12], ptype := 2048 }),
   AnyObj.ip
     (Ip.Obj.ip
       { version := 4,
         ihl := 5,
         tos := 0,
         totLen := 28,
         id := 4660,
         fragOff := 0,
         ttl := 64,
         protocol := 17,
         check := 21659,
         src := [10, 0, 0, 1],
         dst := [10, 0, 0, 2],
         opts := [] }),
   AnyObj.tr (Transport.Obj.udp { sport := 1234, dport := 53, len := 8, check := 59092 })]
set_option maxRecDepth 16384 in
example : parseChain (exVxlan_bytes.length + 2) "VXLAN" exVxlan_bytes = .ok exVxlan_os := rfl
set_option maxRecDepth 16384 in
example : serializeObjs exVxlan_os = .ok exVxlan_bytes := rfl
set_option maxRecDepth 16384 in
example : ∃ out, serializeObjs exVxlan_os = .ok out ∧
    ∃ os', parseChain (out.length + 2) "VXLAN" out = .ok os' ∧ ViewEqAll 0 exVxlan_os os' ∧
      (splitRaw os').2 = (splitRaw exVxlan_os).2 :=
  c03_all_net "VXLAN" exVxlan_bytes exVxlan_os (by decide) rfl
    ⟨trivial, trivial, (by show (_ : Nat) < 65536; decide), trivial, trivial⟩
    (fun o t h => by cases h) ⟨_, List.getElem_mem (by decide : 2 < exVxlan_os.length), rfl⟩

/-- the same beacon handed to `Dot11::from_bytes` directly (entry `Dot11*`): C03 holds with the re-parse through the factory -/
def exBeaconE_bytes : Bytes :=
  [128, 0, 0, 0, 255, 255, 255, 255, 255, 255, 1, 2, 3, 4, 5, 6, 1, 2, 3, 4, 5, 6, 16, 0, 1, 2, 3, 4, 5, 6, 7, 8, 100, 0, 1, 4, 0, 4, 116, 101, 115, 116, 1, 4, 130, 132, 139, 150]
set_option maxRecDepth 16384 in
example : parseChain (exBeaconE_bytes.length + 2) "Dot11*" exBeaconE_bytes = .ok exBeacon_os.tail := rfl
set_option maxRecDepth 16384 in
example : ∃ out, serializeObjs exBeacon_os.tail = .ok out ∧
    ∃ os', parseChain (out.length + 2) "Dot11*" out = .ok os' ∧ ViewEqAll (padAll exBeacon_os.tail) exBeacon_os.tail os' :=
  c03_all "Dot11*" exBeaconE_bytes exBeacon_os.tail (by decide) rfl ⟨trivial, trivial⟩ (fun o t h => by cases h)

/-! #### built stacks (API objects) through `chain_reparse_all` -/

/-- EthernetII / ARP built through the API: `serialize()` pads the 42-byte frame to 60, the re-parse hands the 18 zero bytes to
    ARP's RawPDU — the comparison allows exactly `padAll = 18` zero bytes behind the (empty) payload -/
def exArpB : List AnyObj := [exEth, .app (.arp (App.Arp.create [10,0,0,2] [10,0,0,1] [0,0,0,0,0,0] [7,8,9,10,11,12]))]
theorem exArpB_stackable : StackableAll exArpB :=
  ⟨⟨exEth_inv, trivial, trivial, trivial⟩, ⟨(by decide : (App.Arp.create _ _ _ _).h.length = 28), trivial, trivial, trivial⟩, trivial⟩
example : padAll exArpB = 18 := rfl
example : ∃ out, serializeObjs exArpB = .ok out ∧ out.length = 60 ∧
    ∃ os', parseChain (out.length + 2) "EthernetII" out = .ok os' ∧ ViewEqAll 18 exArpB os' := by
  rcases stackableAll_serializes _ exArpB_stackable with ⟨out, hser, hl⟩
  rcases chain_reparse_all _ _ exArpB_stackable out hser with ⟨os', hp, hv⟩
  exact ⟨out, hser, by rw [hl]; rfl, os', hp, hv⟩

/-- EthernetII / RSNEAPOL() built through the API (empty key): the EAPOL length and the EtherType are derived; the re-parse goes
    through `EAPOL::from_bytes` -/
def exEapolB : List AnyObj := [exEth, .wifi (.eapol (Wifi.Eapol.create true))]
theorem exEapolB_stackable : StackableAll exEapolB :=
  ⟨⟨exEth_inv, trivial, trivial, ⟨trivial, .inr ⟨rfl, .inl (by decide)⟩⟩⟩,
   ⟨⟨by decide, by decide⟩, trivial, ⟨by decide, fun _ => .inl (by decide), by decide⟩, trivial⟩, trivial⟩
example : ∃ out, serializeObjs exEapolB = .ok out ∧
    ∃ os', parseChain (out.length + 2) "EthernetII" out = .ok os' ∧ ViewEqAll 0 exEapolB os' := by
  rcases stackableAll_serializes _ exEapolB_stackable with ⟨out, hser, _⟩
  rcases chain_reparse_all _ _ exEapolB_stackable out hser with ⟨os', hp, hv⟩
  exact ⟨out, hser, os', hp, hv⟩

/-! #### the hypotheses matter (App / Wifi) -/

/-- a RadioTap header that announces no FCS, with nothing behind it, is not a packet libtins can give back: the parsing
    constructor wants 4 bytes behind the options (`RadioTap::RadioTap`: `radiotap_size + sizeof(uint32_t) > input.size()`) -/
example : ¬ StackableAll [.wifi (.radiotap ⟨[0, 0, 8, 0], [0, 0, 0, 0]⟩)] := by
  intro h
  have h2 : Wifi.RadioTap.trl ⟨[0, 0, 8, 0], [0, 0, 0, 0]⟩ = 4 := h.1.2.2.2
  revert h2
  decide
example : serializeObjs [.wifi (.radiotap ⟨[0, 0, 8, 0], [0, 0, 0, 0]⟩)] = .ok [0, 0, 8, 0, 0, 0, 0, 0] := rfl
example : parseChain 10 "RadioTap" [0, 0, 8, 0, 0, 0, 0, 0] = .throw .malformedPacket := rfl

/-- a Dot11Data frame with the protected bit clear in front of opaque bytes is not representable: the re-parse hands the body
    to the SNAP constructor -/
example : ¬ StackableAll [.wifi (.dot11 (Wifi.Dot11.create "Dot11Data" ⟨.data, [], false, true⟩ (Wifi.zeros 6) (Wifi.zeros 6))),
    .raw [1, 2, 3]] := by
  intro h
  have h2 : ([1, 2, 3] : Bytes) = [] ∨ _ := h.1.2.2.2
  rcases h2 with h2 | ⟨_, h2⟩
  · cases h2
  · revert h2; decide

/-! #### the hypotheses matter -/

/-- an IP object that claims to carry TCP in front of opaque bytes is not a packet a parser can give back: the re-parse
    hands the bytes to the TCP constructor -/
example : ¬ StackableAll [.ip (.ip { exIp with protocol := 6 }), .raw [1, 2, 3]] := by
  intro h
  have h2 : ({ exIp with protocol := 6 } : Ip.Ip4).isFragmented = true ∨ Tags.classOfIpProto 6 = none := h.1.2.2.2
  revert h2
  decide

end Examples

end Tins.Wire.ChainAll
