import TinsModel.Wire.Chain.ParseAll
/-
  Whole-packet C03 over all covered families: **non-vacuity** — concrete stacks, their serialization (byte for byte, checksums
  included), the re-parse, and the theorems applied to them.
-/
namespace Tins.Wire.ChainAll
open Tins Tins.Wire
open Tins.Wire.L2 (layerView splitRaw stripView padOf ViewEq IsTail TailInner cxOf)

section Examples

def exEth : AnyObj := .l2 (.eth ⟨[1,2,3,4,5,6], [7,8,9,10,11,12], 0⟩)
theorem exEth_inv : registryPreds.Inv exEth := ⟨rfl, rfl, by decide⟩

def exIp : Ip.Ip4 := { Ip.Ip4.create [10,0,0,2] [10,0,0,1] with ttl := 64, id := 0x1234 }
theorem exIp_inv : exIp.Inv :=
  ⟨by decide, by decide, by decide, by decide, by decide, by decide, by decide, by decide, by decide, rfl, rfl,
   fun p hp => by cases hp⟩
theorem exIp_normal : exIp.Normal := fun p hp => by cases hp

def exUdp : Transport.Udp := ⟨1234, 53, 0, 0⟩
theorem exUdp_wf : exUdp.WF := ⟨by decide, by decide, by decide, by decide⟩

/-! #### 1. EthernetII / IP / UDP / RawPDU — padding in play: the 45-byte frame is padded to 60, the IP total length (31)
    cuts the 15 padding bytes off again; IP protocol, total length, both checksums, UDP length, EtherType are derived -/
def ex1 : List AnyObj := [exEth, .ip (.ip exIp), .tr (.udp exUdp), .raw [0xde, 0xad, 0xbe]]
def ex1_bytes : Bytes :=
  [1,2,3,4,5,6, 7,8,9,10,11,12, 8,0, 0x45,0,0,31, 0x12,0x34,0,0, 64,17,84,152, 10,0,0,1, 10,0,0,2,
   4,210, 0,53, 0,11, 74,32, 0xde,0xad,0xbe] ++ List.replicate 15 0
def ex1_re : List AnyObj :=
  [.l2 (.eth ⟨[1,2,3,4,5,6], [7,8,9,10,11,12], 0x800⟩),
   .ip (.ip { exIp with ihl := 5, totLen := 31, protocol := 17, check := 21656 }),
   .tr (.udp ⟨1234, 53, 11, 18976⟩), .raw [0xde, 0xad, 0xbe]]

theorem ex1_stackable : StackableAll ex1 :=
  ⟨⟨exEth_inv, trivial, trivial, trivial⟩,
   ⟨exIp_inv, (by decide : exIp.hdr ≤ 60), ⟨exIp_normal, by decide⟩, ⟨rfl, trivial⟩⟩,
   ⟨exUdp_wf, trivial, trivial, trivial⟩, rfl⟩

example : serializeObjs ex1 = .ok ex1_bytes := rfl
example : padOf ex1 = 15 ∧ padAll ex1 = 0 := ⟨rfl, rfl⟩
example : parseChain (ex1_bytes.length + 2) "EthernetII" ex1_bytes = .ok ex1_re := rfl
example : ViewEqAll 0 ex1 ex1_re := chain_reparse_all_view _ _ ex1_stackable ex1_bytes rfl _ rfl
example : ∃ os', parseChain (ex1_bytes.length + 2) "EthernetII" ex1_bytes = .ok os' ∧ ViewEqAll 0 ex1 os' ∧
    (splitRaw os').2 = [0xde, 0xad, 0xbe] :=
  chain_reparse_all_net _ _ ex1_stackable ⟨.ip (.ip exIp), by simp, rfl⟩ ex1_bytes rfl

/-! #### 2. EthernetII / IP (NOOP + stream identifier; don't-fragment) / TCP (MSS, NOP, window scale) / RawPDU -/
def exIp2 : Ip.Ip4 :=
  { Ip.Ip4.create [192,168,0,2] [192,168,0,1] with
    ttl := 64, id := 7, tos := 16, fragOff := 0x4000, opts := [⟨1, 0, []⟩, ⟨136, 2, [0x12, 0x34]⟩] }
def exTcp : Transport.Tcp :=
  (((Transport.Tcp.create 80 40000).addOption (Transport.Tcp.encodeMss 1460)).addOption ⟨1, 0, []⟩).addOption
    (Transport.Tcp.encodeWinscale 7)
def ex2 : List AnyObj := [exEth, .ip (.ip exIp2), .tr (.tcp exTcp), .raw [0x47, 0x45, 0x54]]
def ex2_bytes : Bytes :=
  [1,2,3,4,5,6, 7,8,9,10,11,12, 8,0, 0x47,16,0,59, 0,7,0x40,0, 64,6,125,184, 192,168,0,1, 192,168,0,2, 1,136,4,0x12,0x34,0,0,0,
   156,64, 0,80, 0,0,0,0, 0,0,0,0, 0x70,0, 127,166, 75,71, 0,0, 2,4,5,180, 1, 3,3,7, 0x47,0x45,0x54]

theorem exIp2_inv : exIp2.Inv :=
  ⟨by decide, by decide, by decide, by decide, by decide, by decide, by decide, by decide, by decide, rfl, rfl,
   fun p hp => by
     simp only [exIp2, List.mem_cons, List.mem_nil_iff, or_false] at hp
     rcases hp with rfl | rfl <;> exact ⟨by decide, by decide, by decide⟩⟩
theorem exIp2_normal : exIp2.Normal := fun p hp => by
  simp only [exIp2, List.mem_cons, List.mem_nil_iff, or_false] at hp
  rcases hp with rfl | rfl
  · exact ⟨by decide, by decide, fun _ => ⟨rfl, rfl⟩, fun h => absurd h (by decide)⟩
  · exact ⟨by decide, by decide, fun h => absurd h (by decide), fun _ => ⟨rfl, by decide⟩⟩
theorem exTcp_inv : exTcp.Inv :=
  ⟨by decide, by decide, by decide, by decide, by decide, by decide, by decide, by decide, by decide, by decide,
   fun o ho => by
     simp only [exTcp, Transport.Tcp.addOption, Transport.Tcp.create, List.nil_append, List.cons_append, List.mem_cons,
       List.mem_nil_iff, or_false] at ho
     rcases ho with rfl | rfl | rfl <;> exact ⟨by decide, by decide, by decide⟩⟩
theorem exTcp_canon : ∀ o ∈ exTcp.opts, Transport.Tcp.Canon o := fun o ho => by
  simp only [exTcp, Transport.Tcp.addOption, Transport.Tcp.create, List.nil_append, List.cons_append, List.mem_cons,
    List.mem_nil_iff, or_false] at ho
  rcases ho with rfl | rfl | rfl
  · exact ⟨by decide, rfl, fun h => absurd h (by decide), by decide⟩
  · exact ⟨by decide, rfl, fun _ => rfl, by decide⟩
  · exact ⟨by decide, rfl, fun h => absurd h (by decide), by decide⟩

theorem ex2_stackable : StackableAll ex2 :=
  ⟨⟨exEth_inv, trivial, trivial, trivial⟩,
   ⟨exIp2_inv, (by decide : exIp2.hdr ≤ 60), ⟨exIp2_normal, by decide⟩, ⟨rfl, trivial⟩⟩,
   ⟨exTcp_inv, (by decide : Transport.Tcp.optsSum exTcp.opts ≤ 40), exTcp_canon, trivial⟩, rfl⟩

example : serializeObjs ex2 = .ok ex2_bytes := rfl
example : ∃ os', parseChain (ex2_bytes.length + 2) "EthernetII" ex2_bytes = .ok os' ∧ ViewEqAll 0 ex2 os' ∧
    (splitRaw os').2 = [0x47, 0x45, 0x54] :=
  chain_reparse_all_net _ _ ex2_stackable ⟨.ip (.ip exIp2), by simp, rfl⟩ ex2_bytes rfl
/-- the re-parsed IP and TCP layers carry the same options in the same order -/
example : ∃ e i t, parseChain (ex2_bytes.length + 2) "EthernetII" ex2_bytes = .ok [e, .ip (.ip i), .tr (.tcp t), .raw [0x47, 0x45, 0x54]] ∧
    i.opts = exIp2.opts ∧ t.opts = exTcp.opts ∧ i.ihl = 7 ∧ t.doff = 7 := ⟨_, _, _, rfl, rfl, rfl, rfl, rfl⟩

/-! #### 3. EthernetII / Dot1Q / IPv6 / hop-by-hop header / ICMPv6 echo request / RawPDU -/
def exIp6 : Ip6.Ipv6 :=
  { Ip6.Ipv6.create (List.replicate 15 0 ++ [2]) (List.replicate 15 0 ++ [1]) with
    hopLimit := 64, headers := [⟨0, 6, [1, 4, 0, 0, 0, 0]⟩] }
def exIcmp6 : Icmp.Icmp6 := { Icmp.Icmp6.create 128 with un := [0x12, 0x34, 0, 1] }
def ex3 : List AnyObj :=
  [exEth, .l2 (.dot1q ⟨3, 0, 100, 0, false⟩), .ip6 (.ip6 exIp6), .icmp (.icmp6 exIcmp6), .raw [1, 2, 3, 4]]
def ex3_bytes : Bytes :=
  [1,2,3,4,5,6, 7,8,9,10,11,12, 0x81,0, 0x60,100, 0x86,0xdd, 0x60,0,0,0, 0,20, 0, 64] ++ List.replicate 15 0 ++ [1] ++
  List.replicate 15 0 ++ [2] ++ [58, 0, 1, 4, 0, 0, 0, 0, 128, 0, 105, 123, 0x12, 0x34, 0, 1, 1, 2, 3, 4]

theorem exIp6_inv : exIp6.Inv :=
  ⟨by decide, by decide, by decide, by decide, by decide, by decide, rfl, rfl, by decide,
   fun h hh => by
     simp only [exIp6, List.mem_singleton] at hh
     subst hh
     exact ⟨by decide, by decide, by decide⟩⟩
theorem exIp6_parsed : ∀ h ∈ exIp6.headers, Ip6.Ipv6.HdrParsed h := fun h hh => by
  simp only [exIp6, List.mem_singleton] at hh
  subst hh
  exact ⟨⟨by decide, by decide, by decide⟩, rfl, by decide, by decide, by decide⟩
theorem exIcmp6_inv : exIcmp6.Inv :=
  ⟨rfl, rfl, rfl, rfl, rfl, rfl, rfl, (fun s hs => by cases hs), (fun r hr => by cases hr), (fun o ho => by cases ho), rfl⟩

theorem ex3_stackable : StackableAll ex3 :=
  ⟨⟨exEth_inv, trivial, trivial, trivial⟩,
   ⟨⟨by decide, by decide, by decide, by decide⟩, trivial, trivial, trivial⟩,
   ⟨exIp6_inv, trivial, ⟨exIp6_parsed, by decide⟩, ⟨rfl, trivial⟩⟩,
   ⟨exIcmp6_inv, ⟨by decide, by decide⟩,
    ⟨⟨by decide, by decide⟩, rfl, fun h => absurd h (by decide),
     ⟨fun h => absurd h (by decide), fun h => absurd h (by decide)⟩,
     ⟨fun h => absurd h (by decide), fun _ => rfl⟩, fun h => absurd h (by decide)⟩, trivial⟩, rfl⟩

set_option maxRecDepth 8192 in
example : serializeObjs ex3 = .ok ex3_bytes := rfl
set_option maxRecDepth 8192 in
example : ∃ os', parseChain (ex3_bytes.length + 2) "EthernetII" ex3_bytes = .ok os' ∧ ViewEqAll 0 ex3 os' ∧
    (splitRaw os').2 = [1, 2, 3, 4] :=
  chain_reparse_all_net _ _ ex3_stackable ⟨.ip6 (.ip6 exIp6), by simp, rfl⟩ ex3_bytes rfl

/-! #### 4. IP / ICMP echo request / RawPDU (entry point IP) -/
def exIcmp : Icmp.Icmp4 := { Icmp.Icmp4.create 8 with un := [0xab, 0xcd, 0, 5] }
def ex4 : List AnyObj := [.ip (.ip exIp), .icmp (.icmp exIcmp), .raw [0x61, 0x62, 0x63, 0x64]]
def ex4_bytes : Bytes :=
  [0x45,0,0,32, 0x12,0x34,0,0, 64,1,84,167, 10,0,0,1, 10,0,0,2, 8,0,135,102, 0xab,0xcd,0,5, 0x61,0x62,0x63,0x64]

theorem ex4_stackable : StackableAll ex4 :=
  ⟨⟨exIp_inv, (by decide : exIp.hdr ≤ 60), ⟨exIp_normal, by decide⟩, ⟨rfl, trivial⟩⟩,
   ⟨⟨rfl, rfl, rfl, rfl⟩, (by decide : exIcmp.ext.plainSize < 4294967296),
    ⟨⟨by decide, by decide⟩, rfl, fun h => absurd h (by decide)⟩, trivial⟩, rfl⟩

example : serializeObjs ex4 = .ok ex4_bytes := rfl
example : ∃ os', parseChain (ex4_bytes.length + 2) "IP" ex4_bytes = .ok os' ∧ ViewEqAll 0 ex4 os' ∧
    (splitRaw os').2 = [0x61, 0x62, 0x63, 0x64] :=
  chain_reparse_all_net _ _ ex4_stackable ⟨.ip (.ip exIp), by simp, rfl⟩ ex4_bytes rfl

/-! #### 5. Loopback / IP / UDP (no payload): the protocol family is derived from the inner class -/
def ex5 : List AnyObj := [.l2 (.loopback ⟨0⟩), .ip (.ip exIp), .tr (.udp exUdp)]
def ex5_bytes : Bytes := [2,0,0,0, 0x45,0,0,28, 0x12,0x34,0,0, 64,17,84,155, 10,0,0,1, 10,0,0,2, 4,210, 0,53, 0,8, 230,212]

theorem ex5_stackable : StackableAll ex5 :=
  ⟨⟨(by decide : (0 : Nat) < 4294967296), trivial, trivial, trivial⟩,
   ⟨exIp_inv, (by decide : exIp.hdr ≤ 60), ⟨exIp_normal, by decide⟩, ⟨rfl, trivial⟩⟩,
   ⟨exUdp_wf, trivial, trivial, trivial⟩, trivial⟩

example : serializeObjs ex5 = .ok ex5_bytes := rfl
example : parseChain (ex5_bytes.length + 2) "Loopback" ex5_bytes =
    .ok [.l2 (.loopback ⟨2⟩), .ip (.ip { exIp with ihl := 5, totLen := 28, protocol := 17, check := 21659 }),
         .tr (.udp ⟨1234, 53, 8, 59092⟩)] := rfl
example : ∃ os', parseChain (ex5_bytes.length + 2) "Loopback" ex5_bytes = .ok os' ∧ ViewEqAll 0 ex5 os' := by
  rcases chain_reparse_all_net _ _ ex5_stackable ⟨.ip (.ip exIp), by simp, rfl⟩ ex5_bytes rfl with ⟨os', h1, h2, _⟩
  exact ⟨os', h1, h2⟩

/-! #### `c03_all` on accepted byte strings -/

/-- the 60-byte frame of example 1 (15 bytes of Ethernet padding behind the IP datagram) is accepted, and C03 holds for it
    with the payload byte for byte -/
example : ∃ out, serializeObjs ex1_re = .ok out ∧
    ∃ os', parseChain (out.length + 2) "EthernetII" out = .ok os' ∧ ViewEqAll 0 ex1_re os' ∧
      (splitRaw os').2 = [0xde, 0xad, 0xbe] :=
  c03_all_net "EthernetII" ex1_bytes ex1_re (by decide) rfl
    ⟨trivial, (by show (_ : Nat) < 65536; decide), trivial, trivial, trivial⟩
    (fun o t h => by cases h) ⟨_, List.mem_cons_of_mem _ List.mem_cons_self, rfl⟩

/-- an IP fragment (more-fragments set) in front of bytes that would otherwise be handed to the UDP constructor: parsed
    with a RawPDU, representable, re-parsed with a RawPDU — `^protocol` is compared and survives -/
def exFrag : Bytes := [0x45,0,0,24, 0,1,0x20,0, 64,17,0,0, 10,0,0,1, 10,0,0,2, 1,2,3,4]
def exFrag_os : List AnyObj :=
  [.ip (.ip ⟨4, 5, 0, 24, 1, 0x2000, 64, 17, 0, [10,0,0,1], [10,0,0,2], []⟩), .raw [1, 2, 3, 4]]
example : parseChain (exFrag.length + 2) "IP" exFrag = .ok exFrag_os := rfl
example : ∃ out, serializeObjs exFrag_os = .ok out ∧
    ∃ os', parseChain (out.length + 2) "IP" out = .ok os' ∧ ViewEqAll 0 exFrag_os os' ∧ (splitRaw os').2 = [1, 2, 3, 4] :=
  c03_all_net "IP" exFrag exFrag_os (by decide) rfl ⟨(by show (_ : Nat) < 65536; decide), trivial, trivial⟩
    (fun o t h => by injection h with h1 _; injection h1 with h1; subst h1; rfl) ⟨_, List.mem_cons_self, rfl⟩

/-- example 4 parsed from its bytes: IP / ICMP echo request -/
def ex4_re : List AnyObj :=
  [.ip (.ip { exIp with ihl := 5, totLen := 32, protocol := 1, check := 21671 }),
   .icmp (.icmp { exIcmp with check := 34662 }), .raw [0x61, 0x62, 0x63, 0x64]]
example : parseChain (ex4_bytes.length + 2) "IP" ex4_bytes = .ok ex4_re := rfl
example : ∃ out, serializeObjs ex4_re = .ok out ∧
    ∃ os', parseChain (out.length + 2) "IP" out = .ok os' ∧ ViewEqAll (padAll ex4_re) ex4_re os' :=
  c03_all "IP" ex4_bytes ex4_re (by decide) rfl
    ⟨(by show (_ : Nat) < 65536; decide), ⟨rfl, fun h => absurd h (by decide)⟩, trivial, trivial⟩
    (fun o t h => by injection h with h1 _; injection h1 with h1; subst h1; rfl)

/-! #### more accepted byte strings through `c03_all_net` (the parsed stacks are what `parseChain` returns: `rfl`) -/

/-- EthernetII / MPLS (bottom of stack) / IP / UDP / RawPDU: the label dispatches on the version nibble; 11 bytes of
    Ethernet padding cut off by the IP total length -/
def exA_bytes : Bytes :=
  [1, 2, 3, 4, 5, 6, 7, 8, 9, 10, 11, 12, 136, 71, 18, 52, 81, 64, 69, 0, 0, 31, 18, 52, 0, 0, 64, 17, 84, 152, 10,
   0, 0, 1, 10, 0, 0, 2, 4, 210, 0, 53, 0, 11, 214, 198, 9, 8, 7, 0, 0, 0, 0, 0, 0, 0, 0, 0, 0, 0]
def exA_os : List AnyObj :=
  [AnyObj.l2 (L2.Obj.eth { dst := [1, 2, 3, 4, 5, 6], src := [7, 8, 9, 10, 11, 12], ptype := 34887 }),
   AnyObj.l2 (L2.Obj.mpls { labelHigh := 4660, b2 := 81, ttl := 64 }),
   AnyObj.ip (Ip.Obj.ip { version := 4, ihl := 5, tos := 0, totLen := 31, id := 4660, fragOff := 0, ttl := 64, protocol := 17, check := 21656, src := [10, 0, 0, 1], dst := [10, 0, 0, 2], opts := [] }),
   AnyObj.tr (Transport.Obj.udp { sport := 1234, dport := 53, len := 11, check := 54982 }),
   AnyObj.raw [9, 8, 7]]
example : parseChain (exA_bytes.length + 2) "EthernetII" exA_bytes = .ok exA_os := rfl
example : ∃ out, serializeObjs exA_os = .ok out ∧
    ∃ os', parseChain (out.length + 2) "EthernetII" out = .ok os' ∧ ViewEqAll 0 exA_os os' ∧
      (splitRaw os').2 = (splitRaw exA_os).2 :=
  c03_all_net "EthernetII" exA_bytes exA_os (by decide) rfl
    ⟨trivial, trivial, (by show (_ : Nat) < 65536; decide), trivial, trivial, trivial⟩
    (fun o t h => by cases h) ⟨_, List.mem_cons_of_mem _ (List.mem_cons_of_mem _ List.mem_cons_self), rfl⟩

/-- IP / IPSecAH / UDP / RawPDU: next-header derived from the inner class (the UDP checksum is only computed directly
    inside IP / IPv6) -/
def exB_bytes : Bytes :=
  [69, 0, 0, 50, 18, 52, 0, 0, 64, 51, 84, 99, 10, 0, 0, 1, 10, 0, 0, 2, 17, 3, 0, 0, 0, 0, 1, 0, 0, 0, 0, 5, 1, 2,
   3, 4, 5, 6, 7, 8, 4, 210, 0, 53, 0, 10, 0, 0, 1, 2]
def exB_os : List AnyObj :=
  [AnyObj.ip (Ip.Obj.ip { version := 4, ihl := 5, tos := 0, totLen := 50, id := 4660, fragOff := 0, ttl := 64, protocol := 51, check := 21603, src := [10, 0, 0, 1], dst := [10, 0, 0, 2], opts := [] }),
   AnyObj.ip (Ip.Obj.ah { nextHeader := 17, length := 3, reserved := [0, 0], spi := 256, seq := 5, icv := [1, 2, 3, 4, 5, 6, 7, 8] }),
   AnyObj.tr (Transport.Obj.udp { sport := 1234, dport := 53, len := 10, check := 0 }),
   AnyObj.raw [1, 2]]
example : parseChain (exB_bytes.length + 2) "IP" exB_bytes = .ok exB_os := rfl
example : ∃ out, serializeObjs exB_os = .ok out ∧
    ∃ os', parseChain (out.length + 2) "IP" out = .ok os' ∧ ViewEqAll 0 exB_os os' ∧
      (splitRaw os').2 = (splitRaw exB_os).2 :=
  c03_all_net "IP" exB_bytes exB_os (by decide) rfl
    ⟨(by show (_ : Nat) < 65536; decide), trivial, trivial, trivial, trivial⟩
    (fun o t h => by injection h with h1 _; injection h1 with h1; subst h1; rfl) ⟨_, List.mem_cons_self, rfl⟩

/-- IP / IPSecESP / RawPDU -/
def exC_bytes : Bytes :=
  [69, 0, 0, 32, 18, 52, 0, 0, 64, 50, 84, 118, 10, 0, 0, 1, 10, 0, 0, 2, 0, 0, 2, 0, 0, 0, 0, 9, 170, 187, 204,
   221]
def exC_os : List AnyObj :=
  [AnyObj.ip (Ip.Obj.ip { version := 4, ihl := 5, tos := 0, totLen := 32, id := 4660, fragOff := 0, ttl := 64, protocol := 50, check := 21622, src := [10, 0, 0, 1], dst := [10, 0, 0, 2], opts := [] }),
   AnyObj.ip (Ip.Obj.esp { spi := 512, seq := 9 }),
   AnyObj.raw [170, 187, 204, 221]]
example : parseChain (exC_bytes.length + 2) "IP" exC_bytes = .ok exC_os := rfl
example : ∃ out, serializeObjs exC_os = .ok out ∧
    ∃ os', parseChain (out.length + 2) "IP" out = .ok os' ∧ ViewEqAll 0 exC_os os' ∧
      (splitRaw os').2 = (splitRaw exC_os).2 :=
  c03_all_net "IP" exC_bytes exC_os (by decide) rfl
    ⟨(by show (_ : Nat) < 65536; decide), trivial, trivial, trivial⟩
    (fun o t h => by injection h with h1 _; injection h1 with h1; subst h1; rfl) ⟨_, List.mem_cons_self, rfl⟩

/-- EthernetII / IPv6 (no extension headers) / TCP with options (pseudo-header checksum over the IPv6 addresses) -/
def exD_bytes : Bytes :=
  [1, 2, 3, 4, 5, 6, 7, 8, 9, 10, 11, 12, 134, 221, 96, 0, 0, 0, 0, 28, 6, 64, 0, 0, 0, 0, 0, 0, 0, 0, 0, 0, 0, 0,
   0, 0, 0, 1, 0, 0, 0, 0, 0, 0, 0, 0, 0, 0, 0, 0, 0, 0, 0, 2, 156, 64, 0, 80, 0, 0, 0, 0, 0, 0, 0, 0, 112, 0, 127,
   166, 103, 225, 0, 0, 2, 4, 5, 180, 1, 3, 3, 7]
def exD_os : List AnyObj :=
  [AnyObj.l2 (L2.Obj.eth { dst := [1, 2, 3, 4, 5, 6], src := [7, 8, 9, 10, 11, 12], ptype := 34525 }),
   AnyObj.ip6 (Ip6.Obj.ip6 { version := 6, trafficClass := 0, flowLabel := 0, payloadLength := 28, nextHeader := 6, hopLimit := 64, src := [0, 0, 0, 0, 0, 0, 0, 0, 0, 0, 0, 0, 0, 0, 0, 1], dst := [0, 0, 0, 0, 0, 0, 0, 0, 0, 0, 0, 0, 0, 0, 0, 2], headers := [], finalNext := 6 }),
   AnyObj.tr (Transport.Obj.tcp { sport := 40000, dport := 80, seq := 0, ackSeq := 0, doff := 7, res1 := 0, flags8 := 0, window := 32678, check := 26593, urgPtr := 0, opts := [{ code := 2, lenField := 2, data := [5, 180] }, { code := 1, lenField := 0, data := [] }, { code := 3, lenField := 1, data := [7] }] })]
example : parseChain (exD_bytes.length + 2) "EthernetII" exD_bytes = .ok exD_os := rfl
example : ∃ out, serializeObjs exD_os = .ok out ∧
    ∃ os', parseChain (out.length + 2) "EthernetII" out = .ok os' ∧ ViewEqAll 0 exD_os os' ∧
      (splitRaw os').2 = (splitRaw exD_os).2 :=
  c03_all_net "EthernetII" exD_bytes exD_os (by decide) rfl
    ⟨trivial, (by show (_ : Nat) < 65536; decide), trivial, trivial⟩
    (fun o t h => by cases h) ⟨_, List.mem_cons_of_mem _ List.mem_cons_self, rfl⟩

/-- SLL / Dot1Q / IP / IP (IP-in-IP) / ICMP echo request / RawPDU -/
def exE_bytes : Bytes :=
  [0, 0, 0, 1, 0, 6, 1, 2, 3, 4, 5, 6, 0, 0, 129, 0, 32, 9, 8, 0, 69, 0, 0, 49, 18, 52, 0, 0, 64, 4, 84, 147, 10, 0,
   0, 1, 10, 0, 0, 2, 69, 0, 0, 29, 18, 52, 0, 0, 64, 1, 84, 170, 10, 0, 0, 1, 10, 0, 0, 2, 8, 0, 75, 45, 171, 205,
   0, 5, 1]
def exE_os : List AnyObj :=
  [AnyObj.l2 (L2.Obj.sll { packetType := 0, lladdrType := 1, lladdrLen := 6, address := [1, 2, 3, 4, 5, 6, 0, 0], protocol := 33024 }),
   AnyObj.l2 (L2.Obj.dot1q { priority := 1, cfi := 0, id := 9, ptype := 2048, appendPadding := false }),
   AnyObj.ip (Ip.Obj.ip { version := 4, ihl := 5, tos := 0, totLen := 49, id := 4660, fragOff := 0, ttl := 64, protocol := 4, check := 21651, src := [10, 0, 0, 1], dst := [10, 0, 0, 2], opts := [] }),
   AnyObj.ip (Ip.Obj.ip { version := 4, ihl := 5, tos := 0, totLen := 29, id := 4660, fragOff := 0, ttl := 64, protocol := 1, check := 21674, src := [10, 0, 0, 1], dst := [10, 0, 0, 2], opts := [] }),
   AnyObj.icmp (Icmp.Obj.icmp { type := 8, code := 0, check := 19245, un := [171, 205, 0, 5], orig := [0, 0, 0, 0], recv := [0, 0, 0, 0], trans := [0, 0, 0, 0], ext := { vr := 8192, ck := 0, exts := [] } }),
   AnyObj.raw [1]]
example : parseChain (exE_bytes.length + 2) "SLL" exE_bytes = .ok exE_os := rfl
example : ∃ out, serializeObjs exE_os = .ok out ∧
    ∃ os', parseChain (out.length + 2) "SLL" out = .ok os' ∧ ViewEqAll 0 exE_os os' ∧
      (splitRaw os').2 = (splitRaw exE_os).2 :=
  c03_all_net "SLL" exE_bytes exE_os (by decide) rfl
    ⟨trivial, trivial, (by show (_ : Nat) < 65536; decide), (by show (_ : Nat) < 65536; decide),
     ⟨rfl, fun h => absurd h (by decide)⟩, trivial, trivial⟩
    (fun o t h => by cases h) ⟨_, List.mem_cons_of_mem _ (List.mem_cons_of_mem _ List.mem_cons_self), rfl⟩

/-! #### the hypotheses matter -/

/-- an IP object that claims to carry TCP in front of opaque bytes is not a packet a parser can give back: the re-parse
    hands the bytes to the TCP constructor -/
example : ¬ StackableAll [.ip (.ip { exIp with protocol := 6 }), .raw [1, 2, 3]] := by
  intro h
  have h2 : ({ exIp with protocol := 6 } : Ip.Ip4).isFragmented = true ∨ Tags.classOfIpProto 6 = none := h.1.2.2.2
  revert h2
  decide

end Examples

end Tins.Wire.ChainAll
