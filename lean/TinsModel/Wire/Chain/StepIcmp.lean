import TinsModel.Wire.Chain.StepIp6
/-
  Whole-packet C03 over all covered families, part 3e: the one-layer steps of ICMP and ICMPv6 **without an RFC 4884 extension
  structure** (echo, timestamp, address mask, redirect, router / neighbour discovery with options, MLD queries and reports,
  and the error messages with a quote under `ghostFree`: `icmp_reparse_plain`, `icmp_reparse_quote`, `icmp6_reparse_plain`).

  The per-class theorems return the object the parser builds from the wire image (`onWire`: members that are not on the wire
  for the message type are zero-initialised); `icmp_view_of` / `icmp6_view_of` show its getter dump equals the original's
  outside the derived fields (checksum, RFC 4884 length, MLDv2 record count).
  Not covered: objects with an extension structure (`icmp_reparse_ext` / `icmp6_reparse_ext` exist per class; the quote is
  padded to 128 bytes on the wire, which relocates it — known findings KF-C03-Icmp-3/4).
-/
namespace Tins.Wire.ChainAll
open Tins Tins.Wire Tins.Wire.Icmp
open Tins.Wire.L2 (layerView splitRaw stripView padOf ViewEq IsTail TailInner cxOf)

theorem parseOne_icmp (b : Bytes) (o : Icmp4) (i : Inner) (h : Icmp4.parse b = .ok (o, i)) :
    parseOne "ICMP" b = .ok (.icmp (.icmp o), i) := by
  have h1 : ("ICMP" == "RawPDU") = false := by decide
  have h2 : L2.classes.contains "ICMP" = false := by decide
  have h3 : Ip.classes.contains "ICMP" = false := by decide
  have h4 : Ip6.classes.contains "ICMP" = false := by decide
  have h5 : Icmp.classes.contains "ICMP" = true := by decide
  simp only [parseOne, h1, h2, h3, h4, h5, Bool.false_eq_true, if_false, if_true, Icmp.parse, beq_self_eq_true, h, bind, Out.bind,
    pure]

theorem parseOne_icmp6 (b : Bytes) (o : Icmp6) (i : Inner) (h : Icmp6.parse b = .ok (o, i)) :
    parseOne "ICMPv6" b = .ok (.icmp (.icmp6 o), i) := by
  have h1 : ("ICMPv6" == "RawPDU") = false := by decide
  have h2 : L2.classes.contains "ICMPv6" = false := by decide
  have h3 : Ip.classes.contains "ICMPv6" = false := by decide
  have h4 : Ip6.classes.contains "ICMPv6" = false := by decide
  have h5 : Icmp.classes.contains "ICMPv6" = true := by decide
  have h6 : ("ICMPv6" == "ICMP") = false := by decide
  simp only [parseOne, h1, h2, h3, h4, h5, h6, Bool.false_eq_true, if_false, if_true, Icmp.parse, beq_self_eq_true, h, bind,
    Out.bind, pure]

/-- the part of a getter dump the comparison looks at -/
def filt (b : Bool) (f : Fields) : Fields := f.view.filter (fun x => b || !x.1.startsWith "^")

theorem filt_append (b : Bool) (f g : Fields) : filt b (f ++ g) = filt b f ++ filt b g := by
  simp [filt, Fields.view]

theorem layerView_eq_of_filt (b : Bool) (x x' : AnyObj) (hc : x'.info.1 = x.info.1) (hf : filt b x'.info.2 = filt b x.info.2) :
    layerView b x' = layerView b x := by
  simp only [layerView, Prod.mk.injEq]
  exact ⟨hc, hf⟩

theorem un_quad (un : Bytes) (h : un.length = 4) : ∃ a b c d, un = [a, b, c, d] := by
  match un, h with
  | [a, b, c, d], _ => exact ⟨a, b, c, d, rfl⟩

/-! ### ICMP -/

/-- the view of the object the ICMP parser builds from the wire image of `p` (no extension structure) -/
theorem icmp_view_of (b : Bool) (p : Icmp4) (ck : Nat) (un : Bytes) (hext : p.ext = ExtS.default)
    (h0 : Icmp4.extAllowed p.type = true → Icmp.byteAt un 0 = Icmp.byteAt p.un 0 ∧ be16At un 2 = be16At p.un 2)
    (h1 : Icmp4.extAllowed p.type = false → un = p.un) :
    layerView b (.icmp (.icmp (p.onWire ck un ExtS.default))) = layerView b (.icmp (.icmp p)) := by
  refine layerView_eq_of_filt b (.icmp (.icmp p)) (.icmp (.icmp (p.onWire ck un ExtS.default))) rfl ?_
  simp only [AnyObj.info, Icmp.info, Icmp4.fields, Icmp4.onWire, filt_append, hext]
  congr 1
  · congr 1
    · congr 1
      · simp [filt, Fields.view]
      · by_cases ha : Icmp4.extAllowed p.type = true
        · have := h0 ha
          simp [filt, Fields.view, Icmp4.length, this.1, this.2, ha]
        · have ha' : Icmp4.extAllowed p.type = false := by simpa using ha
          rw [h1 ha']
          simp [ha']
    · by_cases ht : Icmp4.isTimestamp p.type = true
      · simp [ht]
      · by_cases hm : Icmp4.isMask p.type = true
        · simp [ht, hm]
        · simp [ht, hm]

theorem icmp_trl_zero (p : Icmp4) (hext : p.ext = ExtS.default) (n : Nat) : p.trl n = 0 := by
  simp [Icmp4.trl, extTrailer, hext, ExtS.default]

/-- **ICMP step** (no extension structure; error messages: the quote must be ghost-free) -/
theorem icmp_step (ps : List LayerInfo) (p : Icmp4) (os : List AnyObj) (hi : p.Inv)
    (hside : Side (.icmp (.icmp p)) os) (hlink : LinkAll (.icmp (.icmp p)) os) (region io : Bytes)
    (hlen : region.length = p.hdr + sizeOfStack os) (hio : region.drop p.hdr = io)
    (hnil : os = [] → io = []) (hraw : ∀ q, os = [.raw q] → io = q) :
    ∃ out x' inner, p.write (cxOf ps os) region = .ok out ∧ out.length = region.length ∧
      parseOne "ICMP" out = .ok (x', inner) ∧
      layerView false x' = layerView false (.icmp (.icmp p)) ∧
      StepInnerA (.icmp (.icmp p)) os io 0 x' inner := by
  obtain ⟨hsm, hext, hg⟩ := hside
  have he : p.hasExt = false := by simp [Icmp4.hasExt, hext, ExtS.default]
  have hll := leaf_link hlink
  have htail : tailBytes os = io := by
    rcases hll with h | ⟨q, h⟩
    · rw [nextA_none h, hnil (nextA_none h)]; rfl
    · rw [nextA_raw h, hraw q (nextA_raw h)]; rfl
  have hiol : io.length = region.length - p.hdr := by rw [← hio]; simp
  have hinner : (if region.length > p.hdr then Inner.raw io else Inner.none) = if io.length > 0 then .raw io else .none := by
    rw [hiol]; congr 1; apply propext; constructor <;> intro <;> omega
  cases ha : Icmp4.extAllowed p.type with
  | false =>
    rcases icmp_reparse_plain (cxOf ps os) p hi hsm he ha region (by omega) with ⟨out, ck, hw, hl, hp⟩
    rw [hio] at hp
    have hview : ∀ b, layerView b (.icmp (.icmp (p.onWire ck p.un ExtS.default))) = layerView b (.icmp (.icmp p)) :=
      fun b => icmp_view_of b p ck p.un hext (fun _ => ⟨rfl, rfl⟩) (fun _ => rfl)
    exact ⟨out, _, _, hw, hl, parseOne_icmp _ _ _ hp, hview false,
      leaf_stepInner _ _ os io _ rfl hll hinner hview hnil hraw⟩
  | true =>
    have hg' := hg ha
    rw [htail, ← cxOf_innerSizeA ps os, ← hio] at hg'
    rcases icmp_reparse_quote (cxOf ps os) p hi hsm he ha region (by omega) hg' with ⟨out, ck, hw, hl, hp⟩
    rw [hio] at hp
    have hview : ∀ b, layerView b (.icmp (.icmp (p.onWire ck (p.unFor (Icmp4.innerOf (cxOf ps os).innerSize)) ExtS.default))) =
        layerView b (.icmp (.icmp p)) := by
      intro b
      apply icmp_view_of b p ck _ hext
      · intro _
        rcases un_quad p.un hi.un with ⟨a, b', c, d, hu⟩
        simp [Icmp4.unFor, hu, patch, Icmp.byteAt, be16At, slice]
      · intro h; rw [ha] at h; cases h
    exact ⟨out, _, _, hw, hl, parseOne_icmp _ _ _ hp, hview false,
      leaf_stepInner _ _ os io _ rfl hll hinner hview hnil hraw⟩

/-! ### ICMPv6 -/

/-- outside the RFC 4884 types and the MLDv2 report the union is written as stored -/
theorem unBytes_plain (p : Icmp6) (hi : p.Inv) (inner : Option Nat) (ha : Icmp6.extAllowed p.type = false)
    (h143 : (p.type == 143) = false) : p.unBytes inner = p.un := by
  rcases un_quad p.un hi.un with ⟨a, b, c, d, hu⟩
  simp [Icmp6.unBytes, h143, Icmp6.lengthFor, ha, Icmp6.length, hu, patch, Icmp.byteAt]

/-- the view of the object the ICMPv6 parser builds from the wire image of `p` (no extension structure) -/
theorem icmp6_view_of (b : Bool) (p : Icmp6) (hi : p.Inv) (ck : Nat) (inner : Option Nat) (hext : p.ext = ExtS.default)
    (hmld : p.type = 130 → p.useMldv2 = false → p.mlqm = Icmp6.zeros 2 ∧ p.sources = []) :
    layerView b (.icmp (.icmp6 (p.onWire ck (p.unBytes inner) ExtS.default))) = layerView b (.icmp (.icmp6 p)) := by
  refine layerView_eq_of_filt b (.icmp (.icmp6 p)) (.icmp (.icmp6 (p.onWire ck (p.unBytes inner) ExtS.default))) rfl ?_
  rcases un_quad p.un hi.un with ⟨a, b', c, d, hu⟩
  by_cases ha : Icmp6.extAllowed p.type = true
  · -- DEST_UNREACHABLE / TIME_EXCEEDED: only the length octet is derived
    have hty : p.type = 1 ∨ p.type = 3 := by simpa [Icmp6.extAllowed] using ha
    rcases hty with hty | hty <;>
      simp [AnyObj.info, Icmp.info, Icmp6.fields, Icmp6.onWire, Icmp6.bodyOnWire, hext, hty, Icmp6.extAllowed,
        Icmp6.hasTarget, Icmp6.hasDest, Icmp6.unBytes, hu, patch, Icmp.byteAt, be16At, slice, filt, Fields.view, Icmp6.length]
  · have ha' : Icmp6.extAllowed p.type = false := by simpa using ha
    by_cases h143 : (p.type == 143) = true
    · -- MLDv2 report: the record count is derived
      have hty : p.type = 143 := by simpa using h143
      simp [AnyObj.info, Icmp.info, Icmp6.fields, Icmp6.onWire, Icmp6.bodyOnWire, hext, hty, Icmp6.extAllowed,
        Icmp6.hasTarget, Icmp6.hasDest, Icmp6.unBytes, hu, patch, Icmp.byteAt, be16At, slice, filt, Fields.view, Icmp6.length,
        Icmp6.lengthFor]
    · have h143' : (p.type == 143) = false := by simpa using h143
      rw [unBytes_plain p hi inner ha' h143']
      simp only [AnyObj.info, Icmp.info, Icmp6.fields, Icmp6.onWire, Icmp6.bodyOnWire, hext, ha', h143', filt_append,
        Bool.false_eq_true, if_false]
      by_cases h134 : (p.type == 134) = true
      · have hty : p.type = 134 := by simpa using h134
        simp [hty, Icmp6.hasTarget, Icmp6.hasDest, filt, Fields.view]
      · have h134' : (p.type == 134) = false := by simpa using h134
        by_cases h130 : (p.type == 130) = true
        · have hty : p.type = 130 := by simpa using h130
          by_cases hm : p.useMldv2 = true
          · simp [hty, hm, Icmp6.hasTarget, Icmp6.hasDest, filt, Fields.view]
          · have hm' : p.useMldv2 = false := by simpa using hm
            have := hmld hty hm'
            simp [hty, hm', Icmp6.hasTarget, Icmp6.hasDest, this.1, this.2, filt, Fields.view]
        · have h130' : (p.type == 130) = false := by simpa using h130
          by_cases ht : Icmp6.hasTarget p.type = true
          · by_cases hd : Icmp6.hasDest p.type = true
            · simp [h134', h130', ht, hd, filt, Fields.view]
            · simp [h134', h130', ht, hd, filt, Fields.view]
          · have hd : Icmp6.hasDest p.type = false := by
              simp only [Icmp6.hasTarget, Icmp6.hasDest, Bool.or_eq_true, beq_iff_eq] at ht ⊢
              simp only [beq_eq_false_iff_ne]; intro h; exact ht (.inr h)
            simp [h134', h130', ht, hd, filt, Fields.view]

theorem icmp6_trl_zero (p : Icmp6) (hext : p.ext = ExtS.default) (n : Nat) : p.trl n = 0 := by
  simp [Icmp6.trl, extTrailer, hext, ExtS.default]

/-- **ICMPv6 step** (no extension structure; what the wire format can express of the body and the options) -/
theorem icmp6_step (ps : List LayerInfo) (p : Icmp6) (os : List AnyObj) (hi : p.Inv) (hs : p.Ser)
    (hside : Side (.icmp (.icmp6 p)) os) (hlink : LinkAll (.icmp (.icmp6 p)) os) (region io : Bytes)
    (hlen : region.length = p.hdr + sizeOfStack os) (hio : region.drop p.hdr = io)
    (hnil : os = [] → io = []) (hraw : ∀ q, os = [.raw q] → io = q) :
    ∃ out x' inner, p.write (cxOf ps os) region = .ok out ∧ out.length = region.length ∧
      parseOne "ICMPv6" out = .ok (x', inner) ∧
      layerView false x' = layerView false (.icmp (.icmp6 p)) ∧
      StepInnerA (.icmp (.icmp6 p)) os io 0 x' inner := by
  obtain ⟨hsm, hext, hmld, hbw, how, hg⟩ := hside
  have he : p.hasExt = false := by simp [Icmp6.hasExt, hext, ExtS.default]
  have hll := leaf_link hlink
  have htail : tailBytes os = io := by
    rcases hll with h | ⟨q, h⟩
    · rw [nextA_none h, hnil (nextA_none h)]; rfl
    · rw [nextA_raw h, hraw q (nextA_raw h)]; rfl
  have hiol : io.length = region.length - p.hdr := by rw [← hio]; simp
  rw [htail, ← cxOf_innerSizeA ps os] at hbw hg
  rw [htail] at how
  rcases icmp6_reparse_plain (cxOf ps os) p hi hs hsm he region (by omega) (by rw [hio]; exact hbw) (by rw [hio]; exact how)
    (by rw [hio]; exact hg) with ⟨out, ck, hw, hp⟩
  have hol : out.length = region.length := by
    have hwo := Icmp.icmp_family_writesOnlyAt (cxOf ps os) (.icmp6 p) hi hs region
      (by show region.length = p.hdr + (cxOf ps os).innerSize + p.trl (cxOf ps os).innerSize
          rw [icmp6_trl_zero p hext, cxOf_innerSizeA]; omega)
    rcases hwo with ⟨out', hw', hl', _⟩
    have hw'' : p.write (cxOf ps os) region = .ok out' := hw'
    rw [hw] at hw''
    injection hw'' with e
    rw [e]; exact hl'
  rw [hio] at hp
  have hview : ∀ b, layerView b (.icmp (.icmp6 (p.onWire ck (p.unBytes (Icmp4.innerOf (cxOf ps os).innerSize)) ExtS.default))) =
      layerView b (.icmp (.icmp6 p)) := fun b => icmp6_view_of b p hi ck _ hext hmld
  refine ⟨out, _, _, hw, hol, parseOne_icmp6 _ _ _ hp, hview false, ?_⟩
  apply leaf_stepInner _ _ os io _ rfl hll _ hview hnil hraw
  by_cases ho : Icmp6.hasOptions p.type = true
  · have hio0 : io = [] := (how.1 ho).1
    rw [if_pos ho, hio0]; rfl
  · rw [if_neg ho, hiol]
    congr 1
    apply propext
    constructor <;> intro <;> omega

end Tins.Wire.ChainAll
