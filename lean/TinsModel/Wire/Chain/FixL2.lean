import TinsModel.Wire.Chain.FixCtx
import TinsModel.Wire.Chain.StepAll
/-
  Second-serialization fixed point, part 2c: the link-layer family (EthernetII, 802.3, LLC, SNAP, 802.1Q, MPLS, PPPoE, SLL,
  Loopback) in front of any covered class.

  The closed form of the writers (`L2.l2_write_eq`: derived header `hb`, inner bytes, `trailer_size()` zero bytes), the
  object the re-parse gives back (`L2.wr`) and the fixed point of the derived header (`L2.hb_wr`: tags / lengths derived
  from the same inner classes / EtherTypes and the same inner size) are those of the link-layer theorem
  (`Wire/L2/ThChainFixpoint.lean`); what is new here is that the layer below may be of any family (`l2_wr_of_parse`: the
  re-parsed object is `wr` in *every* context) and the bookkeeping of the minimum-frame padding in `FixStep`:
    * the padding did not reach the payload (`e2 = 0`: cut off by an IP / IPv6 / PPPoE / EAPOL length below) — the re-parsed
      layer has the same inner size and pads again (`trl_wr_same`; a Dot1Q only if it padded on behalf of nobody:
      `append_padding_` is not on the wire, KF-C04-L2-4 — parsed objects never have it set);
    * the padding became payload (`e2 = trl + k`) — the re-parsed layer has nothing left to pad (`trl_wr_absorb`).
-/
namespace Tins.Wire.ChainAll
open Tins Tins.Wire
open Tins.Wire.L2 (layerView splitRaw stripView padOf ViewEq IsTail TailInner cxOf)

theorem l2_obj_of_parse {cls : String} {buf : Bytes} {x' : AnyObj} {inner i2 : Inner} {y : L2.Obj}
    (h2 : parseOne cls buf = .ok (.l2 y, i2)) (hp : parseOne cls buf = .ok (x', inner)) : x' = .l2 y := by
  have := h2.symm.trans hp
  injection this with this
  injection this with h _
  exact h.symm

/-- classes that can sit in front of a class of another family (IP / IPv6 / ARP / EAPOL) -/
def L2Front : L2.Obj → Prop
  | .eth _ | .dot1q _ | .snap _ | .sll _ | .loopback _ | .mpls _ => True
  | _ => False

theorem l2Front_of_net (x : L2.Obj) (ver v : Nat) (h : l2ToNet x ver v) : L2Front x := by
  cases x <;> first | trivial | exact h.elim

theorem l2Front_of_netP (x : L2.Obj) (y : AnyObj) (h : l2ToNetP x y) : L2Front x := by
  cases y with
  | ip o => cases o <;> first | exact l2Front_of_net x _ _ h | exact h.elim
  | ip6 o => cases o; exact l2Front_of_net x _ _ h
  | _ => exact h.elim

theorem l2Front_of_ether (x : L2.Obj) (h : l2Ether x) : L2Front x := by
  cases x <;> first | trivial | exact h.elim

/-- **the re-parsed link layer is `wr`, in every context**: what the parsing constructor returns for the bytes the writer
    produced (followed by `k` zero bytes of an enclosing layer's padding) -/
theorem l2_wr_of_parse (cx : Ctx) (x : L2.Obj) (hinv : L2.ObjInv x) (hx : L2Front x)
    (region : Bytes) (hlen : region.length = L2.hdr x + cx.innerSize + L2.trl x cx.innerSize) (k : Nat)
    (hk0 : ¬ L2.EtherTier x → k = 0)
    (out : Bytes) (hw : L2.write cx x region = .ok out) (x' : AnyObj) (inner : Inner)
    (hp : parseOne (L2.info x).1 (out ++ List.replicate k 0) = .ok (x', inner)) : x' = .l2 (L2.wr cx x) := by
  cases x with
  | eth e =>
    have := hk0 (by simp [L2.EtherTier]); subst this
    rw [List.replicate_zero, List.append_nil] at hp
    rcases L2.eth_reparse cx e hinv region hlen with ⟨o2, hw2, _, hp2⟩
    have := out_unique hw2 hw; subst this
    exact l2_obj_of_parse (L2.parseOne_eth _ _ _ hp2) hp
  | dot1q q =>
    rcases L2.dot1q_reparse_junk cx q hinv region hlen k with ⟨o2, hw2, _, hp2⟩
    have := out_unique hw2 hw; subst this
    exact l2_obj_of_parse (L2.parseOne_dot1q _ _ _ hp2) hp
  | snap s =>
    have := hk0 (by simp [L2.EtherTier]); subst this
    rw [List.replicate_zero, List.append_nil] at hp
    simp only [L2.hdr, L2.trl, Nat.add_zero] at hlen
    rcases L2.snap_reparse cx s hinv region (by omega) with ⟨o2, hw2, _, hp2⟩
    have := out_unique hw2 hw; subst this
    exact l2_obj_of_parse (L2.parseOne_snap _ _ _ hp2) hp
  | sll s =>
    have := hk0 (by simp [L2.EtherTier]); subst this
    rw [List.replicate_zero, List.append_nil] at hp
    simp only [L2.hdr, L2.trl, Nat.add_zero] at hlen
    rcases L2.sll_reparse cx s hinv region (by omega) with ⟨o2, hw2, _, hp2⟩
    have := out_unique hw2 hw; subst this
    exact l2_obj_of_parse (L2.parseOne_sll _ _ _ hp2) hp
  | loopback l =>
    have := hk0 (by simp [L2.EtherTier]); subst this
    rw [List.replicate_zero, List.append_nil] at hp
    simp only [L2.hdr, L2.trl, Nat.add_zero] at hlen
    rcases L2.loopback_reparse cx l hinv region (by omega) with ⟨o2, hw2, _, hp2⟩
    have := out_unique hw2 hw; subst this
    exact l2_obj_of_parse (L2.parseOne_loopback _ _ _ hp2) hp
  | mpls m =>
    simp only [L2.hdr, L2.trl, Nat.add_zero] at hlen
    rcases L2.mpls_reparse_junk cx m hinv region (by omega) (List.replicate k 0) with ⟨o2, hw2, _, hp2⟩
    have := out_unique hw2 hw; subst this
    exact l2_obj_of_parse (L2.parseOne_mpls _ _ _ hp2) hp
  | dot3 d => exact hx.elim
  | llc l => exact hx.elim
  | pppoe p => exact hx.elim
  | ppi p => exact hx.elim
  | pktap p => exact hx.elim

/-- the re-parsed object satisfies the invariant again (every class but PPPoE, whose length field needs the link) -/
theorem wr_inv_front (cx : Ctx) (x : L2.Obj) (hi : L2.ObjInv x) (hx : L2Front x) :
    L2.ObjInv (L2.wr cx x) ∧ L2.Serializable (L2.wr cx x) := by
  cases x with
  | eth e => exact ⟨⟨hi.dst, hi.src, L2.eth_tagFor_lt _ e hi⟩, trivial⟩
  | snap s => exact ⟨⟨hi.dsap, hi.ssap, hi.control, hi.org, L2.snap_tagFor_lt _ s hi⟩, trivial⟩
  | dot1q q => exact ⟨⟨hi.priority, hi.cfi, hi.id, L2.dot1q_tagFor_lt _ q hi⟩, trivial⟩
  | mpls m => exact ⟨L2.mpls_written_wf _ m hi, trivial⟩
  | sll s => exact ⟨⟨hi.packetType, hi.lladdrType, hi.lladdrLen, hi.address, L2.sll_tagFor_lt _ s hi⟩, trivial⟩
  | loopback l => exact ⟨L2.loopback_familyFor_lt _ l hi, trivial⟩
  | dot3 d => exact hx.elim
  | llc l => exact hx.elim
  | pppoe p => exact hx.elim
  | ppi p => exact hx.elim
  | pktap p => exact hx.elim

/-- the re-parsed layer has the trailer of the original one when the inner size is the same — unless the original was a Dot1Q
    that actually padded on behalf of `append_padding_` -/
theorem trl_wr_keep (cx : Ctx) (x : L2.Obj) (n : Nat)
    (h : ∀ q, x = .dot1q q → q.appendPadding = true → L2.trl x n = 0) : L2.trl (L2.wr cx x) n = L2.trl x n := by
  cases x with
  | dot1q q =>
    cases hq : q.appendPadding with
    | false => simp [L2.wr, L2.trl, L2.Dot1Q.trl, hq]
    | true => rw [h q rfl hq]; simp [L2.wr, L2.trl, L2.Dot1Q.trl]
  | _ => rfl

/-- **link layer: the step, once the re-parsed object is identified** -/
theorem l2_fix (cx cx' : Ctx) (x : L2.Obj) (os os' : List AnyObj) (k e2 : Nat) (hinv : L2.ObjInv x) (hser : L2.Serializable x)
    (hwi : L2.ObjInv (L2.wr cx x) ∧ L2.Serializable (L2.wr cx x))
    (hna : ∀ q, x = .dot1q q → q.appendPadding = true → e2 = L2.trl x (sizeOfStack os) + k)
    (hstp : ∀ l, x = .llc l → cx.innerCls ≠ some "STP")
    (hcx : cx.innerSize = sizeOfStack os) (hcx' : cx'.innerSize = sizeOfStack os')
    (region io : Bytes) (hlen : region.length = L2.hdr x + sizeOfStack os + L2.trl x (sizeOfStack os))
    (hio : (region.drop (L2.hdr x)).take (sizeOfStack os) = io)
    (out : Bytes) (hw : L2.write cx x region = .ok out) (hk0 : ¬ L2.EtherTier x → k = 0)
    (hsim : CtxSimA cx cx')
    (he2 : e2 = 0 ∨ (e2 = L2.trl x (sizeOfStack os) + k ∧ cut (.l2 x) e2 = e2))
    (hsz : sizeOfStack os' = sizeOfStack os + e2) :
    FixStep (.l2 x) (.l2 (L2.wr cx x)) os os' cx' io out k e2 := by
  -- the first serialization in closed form
  have hout : out = L2.hb cx x ++ io ++ List.replicate (L2.trl x (sizeOfStack os)) 0 := by
    have h1 := L2.l2_write_eq cx x hinv hser region (by rw [hcx]; exact hlen)
    rw [hcx, hio] at h1
    exact out_unique hw h1
  -- Dot3 and PPPoE store a length: their inner size does not change
  have hsame : (∀ d, x = .dot3 d → e2 = 0) ∧ (∀ p, x = .pppoe p → e2 = 0) := by
    constructor
    · intro d hd
      subst hd
      have hk := hk0 (by simp [L2.EtherTier])
      rcases he2 with h | ⟨h, _⟩
      · exact h
      · rw [h, hk]; rfl
    · intro p hp'
      subst hp'
      rcases he2 with h | ⟨_, h⟩
      · exact h
      · rw [← h]; simp [cut, L2.padTo, L2.isPppoe]
  have hhb : L2.hb cx' (L2.wr cx x) = L2.hb cx x :=
    L2.hb_wr cx cx' x hsim.l2 hinv
      ⟨fun d hd => by rw [hcx, hcx', hsz, hsame.1 d hd]; rfl, fun p hp' => by rw [hcx, hcx', hsz, hsame.2 p hp']; rfl⟩ hstp
  have hhdr : L2.hdr (L2.wr cx x) = L2.hdr x := L2.wr_hdr cx x
  -- the trailer of the re-parsed layer
  have hsame0 : e2 = 0 → L2.trl (L2.wr cx x) (sizeOfStack os) = L2.trl x (sizeOfStack os) := by
    intro h0
    apply trl_wr_keep
    intro q hq hqa
    have := hna q hq hqa
    omega
  have htr : L2.trl (L2.wr cx x) (sizeOfStack os') + e2 = L2.trl x (sizeOfStack os) + (if e2 = 0 then 0 else k) := by
    rcases he2 with h | ⟨h, _⟩
    · rw [hsz, h, Nat.add_zero, Nat.add_zero, hsame0 h]
      simp
    · by_cases h0 : e2 = 0
      · rw [hsz, h0, Nat.add_zero, Nat.add_zero, hsame0 h0]
        simp
      · rw [hsz, h, L2.trl_wr_absorb cx x (sizeOfStack os) k]
        rw [h] at h0
        simp only [h0, if_false]
        omega
  refine ⟨?_, ?_⟩
  · show L2.hdr (L2.wr cx x) + L2.trl (L2.wr cx x) (sizeOfStack os') + e2 = L2.hdr x + L2.trl x (sizeOfStack os) + _
    rw [hhdr]; omega
  · intro region' hlen' hio'
    have hlen'' : region'.length = L2.hdr (L2.wr cx x) + cx'.innerSize + L2.trl (L2.wr cx x) cx'.innerSize := by
      rw [hcx']; exact hlen'
    have h2 := L2.l2_write_eq cx' (L2.wr cx x) hwi.1 hwi.2 region' hlen''
    have hio'' : (region'.drop (L2.hdr (L2.wr cx x))).take cx'.innerSize = io ++ List.replicate e2 0 := by
      rw [hcx']; exact hio'
    rw [hio'', hhb, hcx'] at h2
    show L2.write cx' (L2.wr cx x) region' = _
    rw [h2, hout]
    congr 1
    simp only [List.append_assoc]
    congr 2
    rw [List.replicate_append_replicate, List.replicate_append_replicate, Nat.add_comm e2, htr]

end Tins.Wire.ChainAll
