import TinsModel.Wire.Chain.ReparseAll
import TinsModel.Wire.L2.ThChainFixpoint
/-
  Whole-packet C03 over all covered families, second half — **the second-serialization fixed point**
  (`serialize (parse (serialize p)) = serialize p` whenever the innermost payload is non-empty), part 1: what a
  `write_serialization` can tell apart.

  The second serialization runs on the *re-parsed* stack: every layer sees other ancestors and other descendants than the
  first time (the re-parsed objects, with their derived fields filled in).  The writers read only three things from their
  context (`Ctx`):
    * whether there is a parent at all (MPLS, PPPoE) and, for the transport checksums (TCP, UDP, ICMPv6), the class and the
      two addresses of the immediate parent (`pkey`) — non-derived fields, so they survive the round trip (`pkey_of_layerView`);
    * the classes of the descendants and the EtherType they stand for (`L2.key`: next-protocol tags; EthernetII looks two
      levels down for QinQ) — survives because the class and PPPoE's `code` are part of the view (`key_of_layerView`);
    * the size of the inner chain (length fields, minimum-frame padding) — tracked by the induction.
  `ParentSim` / `CtxSimA` are the corresponding relations between the contexts of the two serializations.
-/
namespace Tins.Wire.ChainAll
open Tins Tins.Wire
open Tins.Wire.L2 (layerView splitRaw stripView padOf ViewEq IsTail TailInner cxOf)

/-- what `write_serialization` of a transport class reads of its parent: the class and the addresses of the pseudo header -/
def pkey (i : LayerInfo) : String × Option String × Option String :=
  (i.cls, i.fields.get "src_addr", i.fields.get "dst_addr")

/-- two ancestor lists no `write_serialization` can tell apart -/
structure ParentSim (ps ps' : List LayerInfo) : Prop where
  empty : ps'.isEmpty = ps.isEmpty
  head : ps'.head?.map pkey = ps.head?.map pkey

theorem ParentSim.refl (ps : List LayerInfo) : ParentSim ps ps := ⟨rfl, rfl⟩

/-- two contexts no `write_serialization` can tell apart (sizes aside) -/
structure CtxSimA (cx cx' : Ctx) : Prop where
  parents : ParentSim cx.parents cx'.parents
  inners : cx'.inners.map L2.key = cx.inners.map L2.key

theorem CtxSimA.l2 {cx cx' : Ctx} (h : CtxSimA cx cx') : L2.CtxSim cx cx' := ⟨h.parents.empty, h.inners⟩

theorem ctxSimA_cxOf {ps ps' : List LayerInfo} {os os' : List AnyObj} (hp : ParentSim ps ps')
    (hk : (infos os').map L2.key = (infos os).map L2.key) : CtxSimA (cxOf ps os) (cxOf ps' os') := ⟨hp, hk⟩

theorem CtxSimA.innerCls {cx cx' : Ctx} (h : CtxSimA cx cx') : cx'.innerCls = cx.innerCls := h.l2.innerCls

theorem CtxSimA.isEmpty {cx cx' : Ctx} (h : CtxSimA cx cx') : cx'.inners.isEmpty = cx.inners.isEmpty := h.l2.isEmpty

/-- the class of the nearest descendant -/
theorem CtxSimA.headCls {cx cx' : Ctx} (h : CtxSimA cx cx') :
    cx'.inners.head?.map (·.cls) = cx.inners.head?.map (·.cls) := h.innerCls

/-! ### what survives in the view -/

/-- looking a key up in a filtered dump: the filter does not matter when it keeps the key -/
theorem find_filter_keep (f : Fields) (k : String) (q : String × String → Bool) (hq : ∀ a, a.1 = k → q a = true) :
    (f.filter q).find? (·.1 == k) = f.find? (·.1 == k) := by
  induction f with
  | nil => rfl
  | cons a t ih =>
    by_cases ha : a.1 = k
    · have h1 := hq a ha
      simp [h1, ha]
    · by_cases hqa : q a = true
      · simp [hqa, ha, ih]
      · simp [hqa, ha, ih]

/-- a getter that is neither derived (`~`) nor a next-protocol tag (`^`) is part of the view of a layer -/
theorem get_of_layerView {x x' : AnyObj} (h : layerView false x' = layerView false x) (k : String)
    (h1 : k.startsWith "~" = false) (h2 : k.startsWith "^" = false) : x'.info.2.get k = x.info.2.get k := by
  have hv : ∀ y : AnyObj, (layerView false y).2.find? (·.1 == k) = y.info.2.find? (·.1 == k) := by
    intro y
    show ((y.info.2.filter (fun p => !p.1.startsWith "~")).filter (fun f => false || !f.1.startsWith "^")).find? (·.1 == k) = _
    rw [find_filter_keep _ k _ (fun a ha => by rw [ha, h2]; rfl), find_filter_keep _ k _ (fun a ha => by rw [ha, h1]; rfl)]
  unfold Fields.get
  rw [← hv x', ← hv x, h]

theorem pkey_of_layerView {x x' : AnyObj} (h : layerView false x' = layerView false x) (a b c d : Nat) :
    pkey ⟨x'.info.1, x'.info.2, a, b⟩ = pkey ⟨x.info.1, x.info.2, c, d⟩ := by
  have hc := info_of_layerView h
  have hs := get_of_layerView h "src_addr" (by simp) (by simp)
  have hd := get_of_layerView h "dst_addr" (by simp) (by simp)
  simp only [pkey, hc, hs, hd]

theorem key_of_layerView {x x' : AnyObj} (h : layerView false x' = layerView false x) (a b c d : Nat) :
    L2.key ⟨x'.info.1, x'.info.2, a, b⟩ = L2.key ⟨x.info.1, x.info.2, c, d⟩ := by
  have hc := info_of_layerView h
  have hcode := get_of_layerView h "code" (by simp) (by simp)
  simp only [L2.key, L2.etherTagOf, hc, hcode]

/-- the ancestors a layer hands to its inner chain in the two serializations -/
theorem parentSim_cons {x x' : AnyObj} (h : layerView false x' = layerView false x) (os os' : List AnyObj)
    (ps ps' : List LayerInfo) : ParentSim (liOfA x os :: ps) (liOfA x' os' :: ps') :=
  ⟨rfl, by simp only [List.head?_cons, Option.map_some, liOfA]; rw [pkey_of_layerView h]⟩

theorem infos_consA (x : AnyObj) (os : List AnyObj) : infos (x :: os) = liOfA x os :: infos os := rfl

theorem keys_cons {x x' : AnyObj} (h : layerView false x' = layerView false x) (os os' : List AnyObj)
    (hk : (infos os').map L2.key = (infos os).map L2.key) :
    (infos (x' :: os')).map L2.key = (infos (x :: os)).map L2.key := by
  rw [infos_consA, infos_consA, List.map_cons, List.map_cons, hk]
  simp only [liOfA]
  rw [key_of_layerView h]

/-! ### minimum-frame padding: all or nothing -/

/-- a layer hands all of the zero bytes behind its region to the layers below it, or none -/
theorem cut_all_or_none (x : AnyObj) (m : Nat) : cut x m = 0 ∨ cut x m = m := by
  unfold cut
  split <;> first | exact .inl rfl | exact .inr rfl | (unfold L2.padTo; split <;> first | exact .inl rfl | exact .inr rfl)

theorem serializeInto_consA (ps : List LayerInfo) (x : AnyObj) (os : List AnyObj) (region : Bytes) :
    serializeInto (semsAux ps (x :: os) (infos (x :: os))) region =
      (serializeInto (semsAux (liOfA x os :: ps) os (infos os)) (innerOf (semOfA ps x os) region) >>= fun io =>
        x.write (cxOf ps os) (splice region x.hdr io)) := by
  rw [semsAux_consA]
  rfl

theorem out_unique {w : Out Bytes} {a b : Bytes} (h1 : w = .ok a) (h2 : w = .ok b) : a = b := by
  have := h1.symm.trans h2
  injection this

/-! ### the shape of the one-layer step -/

theorem splitRaw_single (x : AnyObj) (hx : isRaw x = false) : (splitRaw [x]).2 = [] := by
  cases x <;> first | rfl | cases hx


/-- `append_padding_` of a Dot1Q is object state that is not on the wire (KF-C04-L2-4); parsed objects never have it -/
def NoApp (o : AnyObj) : Prop := ∀ q, o = .l2 (.dot1q q) → q.appendPadding = false

/-- the layer hands the zero bytes behind its region on to the layers below it (`cut` is the identity): no length field of
    its own delimits its payload -/
def keeps : AnyObj → Bool
  | .l2 x => !L2.isPppoe x
  | .ip (.ip _) => false
  | .ip6 _ => false
  | .app (.arp _) => true
  | .app (.vxlan _) => true
  | .app _ => false
  | .wifi (.dot11 _) => true
  | .wifi _ => false
  | _ => true

theorem cut_of_keeps {x : AnyObj} (h : keeps x = true) (m : Nat) : cut x m = m := by
  cases x with
  | l2 o =>
    have hp : L2.isPppoe o = false := by simpa [keeps] using h
    simp [cut, L2.padTo, hp]
  | ip o => cases o <;> first | rfl | cases h
  | ip6 o => cases h
  | app o => cases o <;> first | rfl | cases h
  | wifi o => cases o <;> first | rfl | cases h
  | raw p => rfl
  | icmp o => rfl
  | tr o => rfl

/-- minimum-frame padding behind the stack reaches its innermost payload: no layer on the way cuts it off -/
def passes : List AnyObj → Bool
  | [] => true
  | .raw _ :: _ => true
  | x :: r => keeps x && passes r

theorem passes_cons {x : AnyObj} {r : List AnyObj} (hx : isRaw x = false) : passes (x :: r) = (keeps x && passes r) := by
  cases x <;> first | rfl | cases hx

/-- the conclusion of `fix_all` -/
def FixStep (x x' : AnyObj) (os os' : List AnyObj) (cx' : Ctx) (io out : Bytes) (k e2 : Nat) : Prop :=
  x'.hdr + x'.trl (sizeOfStack os') + e2 = x.hdr + x.trl (sizeOfStack os) + (if e2 = 0 then 0 else k) ∧
  ∀ region' : Bytes, region'.length = x'.hdr + sizeOfStack os' + x'.trl (sizeOfStack os') →
    (region'.drop x'.hdr).take (sizeOfStack os') = io ++ List.replicate e2 0 →
    x'.write cx' region' = .ok (out ++ List.replicate (if e2 = 0 then 0 else k) 0)

/-- classes without a trailer below which no padding arrives: the class lemma gives the step -/
theorem fix_of_simple (x x' : AnyObj) (os os' : List AnyObj) (cx' : Ctx) (region io out : Bytes) (k : Nat)
    (ht : x.trl (sizeOfStack os) = 0)
    (hlen : region.length = x.hdr + sizeOfStack os + x.trl (sizeOfStack os))
    (hio : (region.drop x.hdr).take (sizeOfStack os) = io)
    (hsz : sizeOfStack os' = sizeOfStack os + 0)
    (hcls : x'.hdr = x.hdr ∧ (∀ n, x'.trl n = 0) ∧
      ∀ region' : Bytes, region'.length = region.length → region'.drop x.hdr = region.drop x.hdr →
        x'.write cx' region' = .ok out) :
    FixStep x x' os os' cx' io out k 0 := by
  obtain ⟨hh, ht', hwr⟩ := hcls
  refine ⟨by rw [hh, ht', ht]; simp, ?_⟩
  intro region' hlen' hio'
  rw [hh, ht', hsz, Nat.add_zero] at hlen'
  rw [hh, hsz, Nat.add_zero, List.replicate_zero, List.append_nil] at hio'
  rw [ht] at hlen
  simp only [if_pos, List.replicate_zero, List.append_nil]
  apply hwr region' (by omega)
  have h1 : (region'.drop x.hdr).take (sizeOfStack os) = region'.drop x.hdr :=
    List.take_of_length_le (by simp only [List.length_drop]; omega)
  have h2 : (region.drop x.hdr).take (sizeOfStack os) = region.drop x.hdr :=
    List.take_of_length_le (by simp only [List.length_drop]; omega)
  rw [← h1, ← h2, hio, hio']

/-- under the name of a class that tolerates no padding nothing follows the region -/
theorem k_zero_of_not_padOK {ps : List LayerInfo} {n : String} {x : AnyObj} {k : Nat} (hk : PadCondN ps n x k)
    (h1 : ¬ PadOK x) (h2 : isEapol x = false) : k = 0 := by
  rcases hk with h | ⟨_, h | ⟨he, _⟩⟩
  · exact h
  · exact absurd h h1
  · rw [h2] at he; cases he

end Tins.Wire.ChainAll
