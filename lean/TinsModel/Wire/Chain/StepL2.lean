import TinsModel.Wire.Chain.StepIp
/-
  Whole-packet C03 over all covered families, part 3c: the one-layer step of the link-layer classes inside mixed stacks.

    * `l2_step_l2`   a link-layer class followed by nothing, a RawPDU or another link-layer class: `L2.l2_step` restated
                     with the family-independent `StepInnerA`;
    * `l2_step_net`  EthernetII / Dot1Q / SNAP / SLL / Loopback / MPLS followed by IP or IPv6: the EtherType (protocol family,
                     first nibble for MPLS) the writer derives names the class back (`eth_tagFor_net`, `headTag_net`), and
                     the minimum-frame padding of EthernetII / Dot1Q is handed on to the IP / IPv6 constructor (which cuts it off).
-/
namespace Tins.Wire.ChainAll
open Tins Tins.Wire
open Tins.Wire.L2 (layerView splitRaw stripView padOf ViewEq IsTail TailInner cxOf)

/-- IP and IPv6: the classes an EtherType / protocol family / MPLS first nibble names outside the link-layer family -/
def NetTier : AnyObj → Prop
  | .ip (.ip _) => True
  | .ip6 _ => True
  | _ => False

/-- the first nibble of the serialization of an IP / IPv6 datagram is its version field (MPLS dispatches on it) -/
def FirstNib (x : AnyObj) (out : Bytes) : Prop :=
  match x with
  | .ip (.ip i) => L2.byteAt out 0 / 16 = i.version
  | .ip6 (.ip6 p) => L2.byteAt out 0 / 16 = p.version
  | _ => True

theorem netTier_cls {y : AnyObj} (h : NetTier y) : y.info.1 = "IP" ∨ y.info.1 = "IPv6" := by
  cases y with
  | ip o => cases o <;> first | exact .inl rfl | exact h.elim
  | ip6 o => cases o; exact .inr rfl
  | _ => exact h.elim

theorem netTier_padOK {y : AnyObj} (h : NetTier y) : PadOK y := by
  cases y with
  | ip o => cases o <;> first | trivial | exact h.elim
  | ip6 o => trivial
  | _ => exact h.elim

theorem netTier_not_raw {y : AnyObj} (h : NetTier y) : isRaw y = false := by
  cases y <;> first | rfl | exact h.elim

theorem stepInnerA_obj (x x' y : AnyObj) (r : List AnyObj) (io : Bytes) (k' c : Nat) (inner : Inner) (fb : Bool)
    (hy : isRaw y = false) (hc : cut x k' = c) (hin : inner = .cls y.info.1 (io ++ List.replicate c 0) fb)
    (hp : c = 0 ∨ PadOK y) : StepInnerA x (y :: r) io k' x' inner := by
  unfold StepInnerA
  rw [nextA_cons_of_not_raw y r hy]
  exact ⟨y.info.1, fb, by rw [hc]; exact hin, .inl rfl, by rw [hc]; exact hp.imp id .inl⟩

/-! ### a link-layer class followed by nothing, a RawPDU or another link-layer class -/

theorem l2_not_pppoe_of_link (x y : L2.Obj) (r : List AnyObj) (h : L2.Link x (.l2 y r)) : L2.isPppoe x = false := by
  cases x <;> first | rfl | (simp [L2.Link] at h)

/-- `L2.StepInner` is `StepInnerA` on the stacks the link-layer theorem covers -/
theorem stepInnerA_of_l2 (x x' : L2.Obj) (os : List AnyObj) (io : Bytes) (k' : Nat) (inner : Inner)
    (hlink : L2.Link x (L2.next os)) (h : L2.StepInner x x' os io k' inner) :
    StepInnerA (.l2 x) os io k' (.l2 x') inner := by
  unfold L2.StepInner at h
  unfold StepInnerA
  cases hn : L2.next os with
  | none =>
    rw [hn] at h
    have hos := L2.next_none hn; subst hos
    exact h
  | raw p =>
    rw [hn] at h
    have hos := L2.next_raw hn; subst hos
    exact h
  | l2 y r =>
    rw [hn] at h hlink
    have hos := L2.next_l2 hn; subst hos
    have hnp := l2_not_pppoe_of_link x y r hlink
    have hc : cut (.l2 x) k' = k' := by simp [cut, L2.padTo, hnp]
    show ∃ n fb, inner = .cls n (io ++ List.replicate (cut (.l2 x) k') 0) fb ∧ EntryName n (.l2 y) ∧
      (cut (.l2 x) k' = 0 ∨ PadOKN n (.l2 y))
    rw [hc]
    exact ⟨_, false, h.1, .inl rfl, h.2.imp id .inl⟩
  | bad => rw [hn] at h; exact h.elim

/-- **link-layer step inside the family** (`L2.l2_step`) -/
theorem l2_step_l2 (ps : List LayerInfo) (x : L2.Obj) (os : List AnyObj) (hinv : L2.ObjInv x)
    (hlink : L2.Link x (L2.next os)) (k : Nat) (hk : PadCond ps (.l2 x) k) (region io : Bytes)
    (hlen : region.length = L2.hdr x + sizeOfStack os + L2.trl x (sizeOfStack os))
    (hio : (region.drop (L2.hdr x)).take (sizeOfStack os) = io) (hiol : io.length = sizeOfStack os)
    (hnil : os = [] → io = []) (hraw : ∀ p, os = [.raw p] → io = p) (hpos : ∀ y r, nextA os = .obj y r → 0 < io.length) :
    ∃ out x' inner, L2.write (cxOf ps os) x region = .ok out ∧ out.length = region.length ∧
      parseOne (L2.info x).1 (out ++ List.replicate k 0) = .ok (x', inner) ∧
      layerView false x' = layerView false (.l2 x) ∧
      StepInnerA (.l2 x) os io (L2.trl x (sizeOfStack os) + k) x' inner := by
  rcases L2.l2_step ps x os hinv hlink k hk region io hlen hio hiol hnil hraw
    (fun y r h => hpos (.l2 y) r (by rw [h]; rfl)) with ⟨out, x', inner, hw, hl, hp, hv, _, hs⟩
  exact ⟨out, .l2 x', inner, hw, hl, hp, hv, stepInnerA_of_l2 x x' os io _ inner hlink hs⟩

/-! ### a link-layer class followed by IP / IPv6 -/

theorem etherTagOf_net (c : String) (hc : c = "IP" ∨ c = "IPv6") (f : Fields) (h t : Nat) :
    L2.etherTagOf ⟨c, f, h, t⟩ ≠ 0 ∧ Tags.classOfEther (L2.etherTagOf ⟨c, f, h, t⟩) = some c := by
  rcases hc with rfl | rfl
  · have hp : Tags.pduTypeOf "IP" = "IP" := by decide
    have hn : ("IP" == "PPPOE") = false := by decide
    simp only [L2.etherTagOf, hp, hn, Bool.false_eq_true, if_false]
    decide
  · have hp : Tags.pduTypeOf "IPv6" = "IPv6" := by decide
    have hn : ("IPv6" == "PPPOE") = false := by decide
    simp only [L2.etherTagOf, hp, hn, Bool.false_eq_true, if_false]
    decide

theorem headTag_net (ps : List LayerInfo) (y : AnyObj) (r : List AnyObj) (d s : Nat) (hy : NetTier y) :
    Tags.classOfEther (L2.headTag (cxOf ps (y :: r)) d s) = some y.info.1 := by
  have := etherTagOf_net y.info.1 (netTier_cls hy) y.info.2 y.hdr (y.trl (sizeOfStack r))
  simp [L2.headTag, cxOf_head_obj, this.1, this.2]

theorem eth_tagFor_net (cx : Ctx) (e : L2.Eth) (i : LayerInfo) (rest : List LayerInfo) (hc : cx.inners = i :: rest)
    (h : i.cls = "IP" ∨ i.cls = "IPv6") : Tags.classOfEther (L2.Eth.tagFor cx e) = some i.cls := by
  unfold L2.Eth.tagFor
  rw [hc]
  obtain ⟨c, f, hd, tr⟩ := i
  dsimp only at h ⊢
  rcases h with h | h <;> subst h
  · have hp : Tags.pduTypeOf "IP" = "IP" := by decide
    have h1 : ("IP" == "PPPOE") = false := by decide
    have h2 : ("IP" == "DOT1Q") = false := by decide
    have d1 : Tags.etherOfPduType "IP" = 2048 := by decide
    have c1 : Tags.classOfEther 2048 = some "IP" := by decide
    simp [hp, h1, h2, d1, c1]
  · have hp : Tags.pduTypeOf "IPv6" = "IPv6" := by decide
    have h1 : ("IPv6" == "PPPOE") = false := by decide
    have h2 : ("IPv6" == "DOT1Q") = false := by decide
    have d1 : Tags.etherOfPduType "IPv6" = 34525 := by decide
    have c1 : Tags.classOfEther 34525 = some "IPv6" := by decide
    simp [hp, h1, h2, d1, c1]

theorem cxOf_inners_obj (ps : List LayerInfo) (y : AnyObj) (r : List AnyObj) :
    (cxOf ps (y :: r)).inners = ⟨y.info.1, y.info.2, y.hdr, y.trl (sizeOfStack r)⟩ :: infos r := rfl

/-- **EthernetII in front of IP / IPv6** -/
theorem eth_step_net (ps : List LayerInfo) (e : L2.Eth) (y : AnyObj) (r : List AnyObj) (hwf : e.WF) (hy : NetTier y)
    (region io : Bytes)
    (hlen : region.length = 14 + sizeOfStack (y :: r) + L2.Eth.trl (sizeOfStack (y :: r)))
    (hio : (region.drop 14).take (sizeOfStack (y :: r)) = io) :
    ∃ out x' inner, e.write (cxOf ps (y :: r)) region = .ok out ∧ out.length = region.length ∧
      parseOne "EthernetII" out = .ok (x', inner) ∧
      layerView false x' = layerView false (.l2 (.eth e)) ∧
      StepInnerA (.l2 (.eth e)) (y :: r) io (L2.Eth.trl (sizeOfStack (y :: r))) x' inner := by
  rcases L2.eth_reparse (cxOf ps (y :: r)) e hwf region hlen with ⟨out, hw, hl, hp⟩
  rw [cxOf_innerSizeA, hio] at hp
  have hd := eth_tagFor_net (cxOf ps (y :: r)) e _ _ (cxOf_inners_obj ps y r) (netTier_cls hy)
  rw [L2.etherInner_some hd] at hp
  exact ⟨out, _, _, hw, hl, L2.parseOne_eth _ _ _ hp, L2.eth_view_false e _,
    stepInnerA_obj _ _ y r io _ _ _ false (netTier_not_raw hy) rfl rfl (.inr (netTier_padOK hy))⟩

/-- **Dot1Q in front of IP / IPv6**, `k` zero bytes of an enclosing layer's padding behind it -/
theorem dot1q_step_net (ps : List LayerInfo) (q : L2.Dot1Q) (y : AnyObj) (r : List AnyObj) (hwf : q.WF) (hy : NetTier y)
    (region io : Bytes) (k : Nat)
    (hlen : region.length = 4 + sizeOfStack (y :: r) + q.trl (sizeOfStack (y :: r)))
    (hio : (region.drop 4).take (sizeOfStack (y :: r)) = io) (hpos : 0 < io.length) :
    ∃ out x' inner, q.write (cxOf ps (y :: r)) region = .ok out ∧ out.length = region.length ∧
      parseOne "Dot1Q" (out ++ List.replicate k 0) = .ok (x', inner) ∧
      layerView false x' = layerView false (.l2 (.dot1q q)) ∧
      StepInnerA (.l2 (.dot1q q)) (y :: r) io (q.trl (sizeOfStack (y :: r)) + k) x' inner := by
  rcases L2.dot1q_reparse_junk (cxOf ps (y :: r)) q hwf region hlen k with ⟨out, hw, hl, hp⟩
  rw [cxOf_innerSizeA, hio] at hp
  have hiol : io.length ≤ sizeOfStack (y :: r) := by rw [← hio]; simp only [List.length_take]; omega
  have hgt : region.length + k > 4 := by omega
  rw [if_pos hgt] at hp
  have hd : Tags.classOfEther (L2.Dot1Q.tagFor (cxOf ps (y :: r)) q) = some y.info.1 := by
    rw [L2.dot1q_tagFor_eq]; exact headTag_net ps y r _ _ hy
  rw [L2.etherInner_some hd] at hp
  exact ⟨out, _, _, hw, hl, L2.parseOne_dot1q _ _ _ hp, L2.dot1q_view q _ false false (fun h => by cases h),
    stepInnerA_obj _ _ y r io _ _ _ false (netTier_not_raw hy) rfl rfl (.inr (netTier_padOK hy))⟩

/-- **SNAP in front of IP / IPv6** -/
theorem snap_step_net (ps : List LayerInfo) (s : L2.Snap) (y : AnyObj) (r : List AnyObj) (hwf : s.WF) (hy : NetTier y)
    (region io : Bytes) (hlen : region.length = 8 + sizeOfStack (y :: r)) (hio : region.drop 8 = io) (hpos : 0 < io.length) :
    ∃ out x' inner, s.write (cxOf ps (y :: r)) region = .ok out ∧ out.length = region.length ∧
      parseOne "SNAP" out = .ok (x', inner) ∧
      layerView false x' = layerView false (.l2 (.snap s)) ∧
      StepInnerA (.l2 (.snap s)) (y :: r) io 0 x' inner := by
  rcases L2.snap_reparse (cxOf ps (y :: r)) s hwf region (by omega) with ⟨out, hw, hl, hp⟩
  rw [hio] at hp
  have hiol : io.length = region.length - 8 := by rw [← hio]; simp
  have hgt : region.length > 8 := by omega
  rw [if_pos hgt] at hp
  have hd : Tags.classOfEther (L2.Snap.tagFor (cxOf ps (y :: r)) s) = some y.info.1 := by
    rw [L2.snap_tagFor_eq]; exact headTag_net ps y r _ _ hy
  rw [L2.etherInner_some hd] at hp
  exact ⟨out, _, _, hw, hl, L2.parseOne_snap _ _ _ hp, L2.snap_view s _ false (fun h => by cases h),
    stepInnerA_obj _ _ y r io 0 0 _ false (netTier_not_raw hy) rfl (by simp) (.inl rfl)⟩

/-- **SLL in front of IP / IPv6** -/
theorem sll_step_net (ps : List LayerInfo) (s : L2.Sll) (y : AnyObj) (r : List AnyObj) (hwf : s.WF) (hy : NetTier y)
    (region io : Bytes) (hlen : region.length = 16 + sizeOfStack (y :: r)) (hio : region.drop 16 = io) (hpos : 0 < io.length) :
    ∃ out x' inner, s.write (cxOf ps (y :: r)) region = .ok out ∧ out.length = region.length ∧
      parseOne "SLL" out = .ok (x', inner) ∧
      layerView false x' = layerView false (.l2 (.sll s)) ∧
      StepInnerA (.l2 (.sll s)) (y :: r) io 0 x' inner := by
  rcases L2.sll_reparse (cxOf ps (y :: r)) s hwf region (by omega) with ⟨out, hw, hl, hp⟩
  rw [hio] at hp
  have hiol : io.length = region.length - 16 := by rw [← hio]; simp
  have hgt : region.length > 16 := by omega
  rw [if_pos hgt] at hp
  have hd : Tags.classOfEther (L2.Sll.tagFor (cxOf ps (y :: r)) s) = some y.info.1 := by
    rw [L2.sll_tagFor_eq]; exact headTag_net ps y r _ _ hy
  rw [L2.etherInner_some hd] at hp
  exact ⟨out, _, _, hw, hl, L2.parseOne_sll _ _ _ hp, L2.sll_view s _ false (fun h => by cases h),
    stepInnerA_obj _ _ y r io 0 0 _ false (netTier_not_raw hy) rfl (by simp) (.inl rfl)⟩

/-- **Loopback in front of IP / IPv6**: the protocol family is derived from the inner class -/
theorem loopback_step_net (ps : List LayerInfo) (l : L2.Loopback) (y : AnyObj) (r : List AnyObj) (hwf : l.WF) (hy : NetTier y)
    (region io : Bytes) (hlen : region.length = 4 + sizeOfStack (y :: r)) (hio : region.drop 4 = io) :
    ∃ out x' inner, l.write (cxOf ps (y :: r)) region = .ok out ∧ out.length = region.length ∧
      parseOne "Loopback" out = .ok (x', inner) ∧
      layerView false x' = layerView false (.l2 (.loopback l)) ∧
      StepInnerA (.l2 (.loopback l)) (y :: r) io 0 x' inner := by
  rcases L2.loopback_reparse (cxOf ps (y :: r)) l hwf region (by omega) with ⟨out, hw, hl, hp⟩
  rw [hio] at hp
  have hin : L2.Loopback.innerFor (L2.Loopback.familyFor (cxOf ps (y :: r)) l) io = .cls y.info.1 io false := by
    rcases netTier_cls hy with h | h
    · have : L2.Loopback.familyFor (cxOf ps (y :: r)) l = L2.PF_INET := by
        simp [L2.Loopback.familyFor, cxOf_innerCls_obj, h]
      rw [this, h]; rfl
    · have : L2.Loopback.familyFor (cxOf ps (y :: r)) l = L2.PF_INET6 := by
        simp [L2.Loopback.familyFor, cxOf_innerCls_obj, h]
      rw [this, h]; rfl
  rw [hin] at hp
  exact ⟨out, _, _, hw, hl, L2.parseOne_loopback _ _ _ hp, L2.loopback_view_false _ _,
    stepInnerA_obj _ _ y r io 0 0 _ false (netTier_not_raw hy) rfl (by simp) (.inl rfl)⟩

/-- **MPLS (bottom of stack) in front of IP / IPv6**: the parser dispatches on the first nibble of the payload, which is
    the version field of the datagram (`FirstNib`) -/
theorem mpls_step_net (ps : List LayerInfo) (m : L2.Mpls) (y : AnyObj) (r : List AnyObj) (hwf : m.WF) (hy : NetTier y)
    (hb : m.bottomOfStack = 1) (io : Bytes)
    (hnib : (y.info.1 = "IP" ∧ L2.byteAt io 0 / 16 = 4) ∨ (y.info.1 = "IPv6" ∧ L2.byteAt io 0 / 16 = 6))
    (region : Bytes) (k : Nat) (hlen : region.length = 4 + sizeOfStack (y :: r)) (hio : region.drop 4 = io)
    (hpos : 0 < io.length) :
    ∃ out x' inner, m.write (cxOf ps (y :: r)) region = .ok out ∧ out.length = region.length ∧
      parseOne "MPLS" (out ++ List.replicate k 0) = .ok (x', inner) ∧
      layerView false x' = layerView false (.l2 (.mpls m)) ∧
      StepInnerA (.l2 (.mpls m)) (y :: r) io k x' inner := by
  rcases L2.mpls_reparse_junk (cxOf ps (y :: r)) m hwf region (by omega) (List.replicate k 0) with ⟨out, hw, hl, hp⟩
  rw [hio, List.length_replicate] at hp
  have hiol : io.length = region.length - 4 := by rw [← hio]; simp
  have hgt : region.length + k > 4 := by omega
  rw [if_pos hgt, L2.mpls_written_of_bottom _ m hb] at hp
  have hin : m.innerFor (io ++ List.replicate k 0) = .cls y.info.1 (io ++ List.replicate k 0) false := by
    have hb1 : (m.bottomOfStack == 1) = true := by simp [hb]
    rcases hnib with ⟨hc, hn⟩ | ⟨hc, hn⟩
    · simp [L2.Mpls.innerFor, hb1, L2.byteAt_append_zeros, hn, hc]
    · simp [L2.Mpls.innerFor, hb1, L2.byteAt_append_zeros, hn, hc]
  rw [hin] at hp
  have hv := L2.mpls_view_false (cxOf ps (y :: r)) m hwf
  rw [L2.mpls_written_of_bottom _ m hb] at hv
  exact ⟨out, _, _, hw, hl, L2.parseOne_mpls _ _ _ hp, rfl,
    stepInnerA_obj _ _ y r io k k _ false (netTier_not_raw hy) rfl rfl (.inr (netTier_padOK hy))⟩

end Tins.Wire.ChainAll
