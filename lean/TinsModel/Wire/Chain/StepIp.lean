import TinsModel.Wire.Chain.Stackable
/-
  Whole-packet C03 over all covered families, part 3a: the one-layer steps of the Ip family (IP, IPSecAH, IPSecESP).

  `ip4_reparse_junk` strengthens `Ip.ip4_reparse` (which is stated for the exact region): the parsing constructor run on the
  serialization **followed by any bytes** (the minimum-frame padding of an enclosing EthernetII / Dot1Q) returns the same
  object and hands exactly the bytes behind the header to the inner constructor — the total length `write_serialization`
  stored cuts the padding off.  With padding but without an inner PDU the constructor builds an empty RawPDU (protocol 0
  is not dispatched on), which the comparison treats as no payload.
-/
namespace Tins.Wire.ChainAll
open Tins Tins.Wire Tins.Wire.Ip
open Tins.Wire.L2 (layerView splitRaw stripView padOf ViewEq IsTail TailInner cxOf)

/-- **C03 / IP with trailing bytes** (cf. `ip4_reparse`): the stored total length cuts off whatever follows the datagram -/
theorem ip4_reparse_junk (cx : Ctx) (o : Ip4) (h : o.Inv) (hn : o.Normal) (hf : o.Fits) (region : Bytes)
    (hr : o.hdr ≤ region.length) (h16 : region.length < 65536) (junk : Bytes) :
    ∃ out, o.write cx region = .ok out ∧ out.length = region.length ∧
      Ip4.parse (out ++ junk) = .ok (Ip4.final cx o region,
        if region.length + junk.length - o.hdr > 0 then (Ip4.final cx o region).dispatch (region.drop o.hdr) else .none) := by
  have hfi := final_inv cx o region h hf
  have hbl := ip4_headerBytes_length (Ip4.final cx o region) hfi.src hfi.dst
  have hob := optsBytes_length o.opts (fun p hp => (h.opts p hp).type)
  have hpad := padOptionsSize_le (Ip4.calcOptionsSize o.opts)
  have hm4 := hdr_mod4 o
  have hhdr : o.hdr = 20 + Ip4.padOptionsSize (Ip4.calcOptionsSize o.opts) := rfl
  have hwl : ((Ip4.final cx o region).headerBytes ++ (Ip4.optsBytes o.opts ++
        (List.replicate (Ip4.padOptionsSize (Ip4.calcOptionsSize o.opts) - Ip4.calcOptionsSize o.opts) 0 ++ region.drop o.hdr))).length
      = region.length := by
    simp only [List.length_append, List.length_replicate, hbl, hob, List.length_drop]; omega
  refine ⟨_, ip4_write_final cx o h hf region hr, hwl, ?_⟩
  generalize hk : Ip4.padOptionsSize (Ip4.calcOptionsSize o.opts) - Ip4.calcOptionsSize o.opts = k at *
  generalize htail : region.drop o.hdr = tail
  have htl : tail.length = region.length - o.hdr := by rw [← htail]; simp
  have hassoc : (Ip4.final cx o region).headerBytes ++ (Ip4.optsBytes o.opts ++ (List.replicate k 0 ++ tail)) ++ junk =
      (Ip4.final cx o region).headerBytes ++ (Ip4.optsBytes o.opts ++ (List.replicate k 0 ++ (tail ++ junk))) := by
    simp only [List.append_assoc]
  rw [hassoc]
  generalize hbuf : (Ip4.final cx o region).headerBytes ++ (Ip4.optsBytes o.opts ++ (List.replicate k 0 ++ (tail ++ junk))) = buf
  have hlen : buf.length = region.length + junk.length := by
    rw [← hbuf]; simp only [List.length_append, List.length_replicate, hbl, hob, htl]; omega
  have htake : buf.take 20 = (Ip4.final cx o region).headerBytes := by rw [← hbuf]; exact take_append_len _ _ _ hbl
  have hdrop : buf.drop 20 = Ip4.optsBytes o.opts ++ (List.replicate k 0 ++ (tail ++ junk)) := by
    rw [← hbuf]; exact drop_append_len _ _ _ hbl
  have hihl : (Ip4.final cx o region).ihl * 4 = o.hdr := by rw [final_ihl]; omega
  simp only [Ip4.parse, read_ofBytes]
  have h20 : ¬ buf.length < 20 := by omega
  simp only [h20, if_false, bind, Out.bind, htake, hdrop, ofHeader_headerBytes _ hfi]
  have hih2 : (Ip4.setOpts (Ip4.final cx o region) []).ihl * 4 = o.hdr := hihl
  have hbad : (decide (o.hdr > buf.length) || decide (o.hdr < 20)) = false := by
    simp; omega
  simp only [hih2, hbad, Bool.false_eq_true, if_false]
  have hpo := parseOpts_written o.opts hn k (tail ++ junk) 20 (o.hdr + 1) (buf.length - 20) (by omega) (by omega)
  have e20 : 20 + ((Ip4.optsBytes o.opts).length + k) = o.hdr := by omega
  rw [e20] at hpo
  rw [hpo]
  simp only [toBool_mk]
  have esz : buf.length - 20 - ((Ip4.optsBytes o.opts).length + k) = region.length + junk.length - o.hdr := by omega
  rw [esz]
  have hobj : ({ Ip4.setOpts (Ip4.final cx o region) [] with opts := o.opts } : Ip4) = Ip4.final cx o region := rfl
  by_cases hpos : region.length + junk.length - o.hdr > 0
  · simp only [hpos, decide_true, if_true, hobj]
    have hin : (Ip4.final cx o region).innerSize (region.length + junk.length - o.hdr) = region.length - o.hdr := by
      unfold Ip4.innerSize
      rw [final_totLen, final_ihl, Nat.mod_eq_of_lt h16]
      have hne : (region.length != 0) = true := bne_iff_ne.mpr (by omega)
      simp only [hne, if_true]
      have : (region.length + 4294967296 - o.hdr / 4 * 4) % 4294967296 = region.length - o.hdr := by omega
      rw [this]
      have : ¬ region.length + junk.length - o.hdr < region.length - o.hdr := by omega
      simp only [this, if_false]
    rw [hin, rdN_zero _ _ _ (by simp only [List.length_append]; omega)]
    have : (tail ++ junk).take (region.length - o.hdr) = tail := by
      rw [← htl]; exact List.take_left' rfl
    rw [this]
    rfl
  · simp only [hpos, decide_false, Bool.false_eq_true, if_false, hobj]
    rfl

/-! ### the registry's dispatch on the classes of the family -/

theorem parseOne_ip (b : Bytes) (o : Ip4) (i : Inner) (h : Ip4.parse b = .ok (o, i)) :
    parseOne "IP" b = .ok (.ip (.ip o), i) := by
  have h1 : ("IP" == "RawPDU") = false := by decide
  have h2 : L2.classes.contains "IP" = false := by decide
  have h3 : Ip.classes.contains "IP" = true := by decide
  simp only [parseOne, h1, h2, h3, Bool.false_eq_true, if_false, if_true, Ip.parse, beq_self_eq_true, h, bind, Out.bind, pure]

theorem parseOne_ah (b : Bytes) (o : Ah) (i : Inner) (h : Ah.parse b = .ok (o, i)) :
    parseOne "IPSecAH" b = .ok (.ip (.ah o), i) := by
  have h1 : ("IPSecAH" == "RawPDU") = false := by decide
  have h2 : L2.classes.contains "IPSecAH" = false := by decide
  have h3 : Ip.classes.contains "IPSecAH" = true := by decide
  have h4 : ("IPSecAH" == "IP") = false := by decide
  simp only [parseOne, h1, h2, h3, h4, Bool.false_eq_true, if_false, if_true, Ip.parse, beq_self_eq_true, h, bind, Out.bind, pure]

theorem parseOne_esp (b : Bytes) (o : Esp) (i : Inner) (h : Esp.parse b = .ok (o, i)) :
    parseOne "IPSecESP" b = .ok (.ip (.esp o), i) := by
  have h1 : ("IPSecESP" == "RawPDU") = false := by decide
  have h2 : L2.classes.contains "IPSecESP" = false := by decide
  have h3 : Ip.classes.contains "IPSecESP" = true := by decide
  have h4 : ("IPSecESP" == "IP") = false := by decide
  have h5 : ("IPSecESP" == "IPSecAH") = false := by decide
  simp only [parseOne, h1, h2, h3, h4, h5, Bool.false_eq_true, if_false, if_true, Ip.parse, beq_self_eq_true, h, bind, Out.bind,
    pure]

/-! ### contexts -/

theorem cxOf_head_nil (ps : List LayerInfo) : (cxOf ps []).inners.head? = none := rfl
theorem cxOf_head_raw (ps : List LayerInfo) (p : Bytes) :
    (cxOf ps [.raw p]).inners.head? = some ⟨"RawPDU", [("payload", toHexStr p)], p.length, 0⟩ := rfl
theorem cxOf_head_obj (ps : List LayerInfo) (y : AnyObj) (r : List AnyObj) :
    (cxOf ps (y :: r)).inners.head? = some ⟨y.info.1, y.info.2, y.hdr, y.trl (sizeOfStack r)⟩ := rfl
theorem cxOf_innerCls_obj (ps : List LayerInfo) (y : AnyObj) (r : List AnyObj) :
    (cxOf ps (y :: r)).innerCls = some y.info.1 := rfl

/-! ### IP -/

/-- the getter dump of an IP object is a function of the non-derived members and the protocol -/
theorem ip4_view_of (b : Bool) (o o' : Ip4) (hv : o'.view = o.view) (hp : b = true → o'.protocol = o.protocol) :
    layerView b (.ip (.ip o')) = layerView b (.ip (.ip o)) := by
  simp only [Ip4.view, Prod.mk.injEq] at hv
  obtain ⟨h1, h2, h3, h4, h5, h6, h7, h8⟩ := hv
  cases b with
  | false =>
    simp [layerView, AnyObj.info, Ip.info, Ip4.fields, Fields.view, Ip4.flags, Ip4.fragmentOffset, Ip4.securityStr,
      Ip4.streamIdStr, Ip4.routeStr, Ip4.searchOption, h1, h2, h3, h4, h5, h6, h7, h8]
  | true =>
    simp [layerView, AnyObj.info, Ip.info, Ip4.fields, Fields.view, Ip4.flags, Ip4.fragmentOffset, Ip4.securityStr,
      Ip4.streamIdStr, Ip4.routeStr, Ip4.searchOption, h1, h2, h3, h4, h5, h6, h7, h8, hp rfl]

theorem ip4_final_fragmented (cx : Ctx) (o : Ip4) (region : Bytes) :
    (Ip4.final cx o region).isFragmented = o.isFragmented := rfl

theorem ip4_protocolFor_nil (ps : List LayerInfo) (o : Ip4) : Ip4.protocolFor (cxOf ps []) o = 0 := rfl

theorem ip4_protocolFor_raw (ps : List LayerInfo) (p : Bytes) (o : Ip4) : Ip4.protocolFor (cxOf ps [.raw p]) o = o.protocol :=
  protocolFor_kept _ o _ (cxOf_head_raw ps p) raw_no_proto

theorem ip4_protocolFor_obj (ps : List LayerInfo) (y : AnyObj) (r : List AnyObj) (o : Ip4) (hy : ProtoTier y) :
    Tags.classOfIpProto (Ip4.protocolFor (cxOf ps (y :: r)) o) = some y.info.1 := by
  have ht := protoTier_roundtrip y hy
  unfold Ip4.protocolFor
  rw [cxOf_head_obj]
  have hne : (Tags.ipProtoOfPduType (Tags.pduTypeOf y.info.1) != 255) = true := bne_iff_ne.mpr ht.1
  simp only [hne, if_true, Nat.mod_eq_of_lt (Nat.lt_of_lt_of_le ht.2.1 (by decide : 256 ≤ 256))]
  exact ht.2.2.1

theorem ip4_dispatch_raw (o : Ip4) (pl : Bytes) (h : o.isFragmented = true ∨ Tags.classOfIpProto o.protocol = none) :
    o.dispatch pl = .raw pl := by
  unfold Ip4.dispatch
  rcases h with h | h
  · simp [h]
  · cases hf : o.isFragmented <;> simp [h]

theorem ip4_dispatch_cls (o : Ip4) (pl : Bytes) (c : String) (hf : o.isFragmented = false)
    (h : Tags.classOfIpProto o.protocol = some c) : o.dispatch pl = .cls c pl false := by
  unfold Ip4.dispatch
  simp [hf, h]

theorem classOfIpProto_zero : Tags.classOfIpProto 0 = none := by decide

/-- **IP step**: `k` zero bytes may follow the datagram (padding of an enclosing link layer): the total length cuts them off -/
theorem ip_step (ps : List LayerInfo) (o : Ip4) (os : List AnyObj) (hi : o.Inv) (hf : o.Fits)
    (hside : Side (.ip (.ip o)) os) (hlink : LinkAll (.ip (.ip o)) os) (k : Nat) (region io : Bytes)
    (hlen : region.length = o.hdr + sizeOfStack os) (hio : region.drop o.hdr = io)
    (hnil : os = [] → io = []) (hraw : ∀ p, os = [.raw p] → io = p) (hpos : ∀ y r, nextA os = .obj y r → 0 < io.length) :
    ∃ out x' inner, o.write (cxOf ps os) region = .ok out ∧ out.length = region.length ∧
      parseOne "IP" (out ++ List.replicate k 0) = .ok (x', inner) ∧
      layerView false x' = layerView false (.ip (.ip o)) ∧
      StepInnerA (.ip (.ip o)) os io k x' inner := by
  obtain ⟨hn, h16⟩ : o.Normal ∧ o.hdr + sizeOfStack os < 65536 := hside
  rcases ip4_reparse_junk (cxOf ps os) o hi hn hf region (by omega) (by omega) (List.replicate k 0) with ⟨out, hw, hl, hp⟩
  rw [hio, List.length_replicate] at hp
  refine ⟨out, _, _, hw, hl, parseOne_ip _ _ _ hp, ip4_view_of false _ _ (final_view _ o region) (fun h => by cases h), ?_⟩
  have hiol : io.length = region.length - o.hdr := by rw [← hio]; simp
  unfold StepInnerA
  have hcut : cut (.ip (.ip o)) k = 0 := rfl
  rw [hcut]
  simp only [List.replicate_zero, List.append_nil]
  cases hnx : nextA os with
  | none =>
    have hos := nextA_none hnx; subst hos
    have hio0 := hnil rfl; subst hio0
    by_cases hk : region.length + k - o.hdr > 0
    · right
      rw [if_pos hk]
      apply ip4_dispatch_raw
      right
      rw [final_protocol, ip4_protocolFor_nil]; exact classOfIpProto_zero
    · left; rw [if_neg hk]; exact ⟨rfl, rfl⟩
  | raw p =>
    have hos := nextA_raw hnx; subst hos
    have hiop := hraw p rfl; subst hiop
    have hl2 : o.isFragmented = true ∨ Tags.classOfIpProto o.protocol = none := by
      simpa only [LinkAll, hnx] using hlink
    have hpr : (Ip4.final (cxOf ps [.raw io]) o region).protocol = o.protocol := by
      rw [final_protocol, ip4_protocolFor_raw]
    refine ⟨ip4_view_of _ _ _ (final_view _ o region) (fun _ => hpr), ?_⟩
    by_cases hk : region.length + k - o.hdr > 0
    · right
      rw [if_pos hk]
      apply ip4_dispatch_raw
      rw [ip4_final_fragmented, hpr]; exact hl2
    · left
      rw [if_neg hk]
      exact ⟨rfl, List.eq_nil_of_length_eq_zero (by omega)⟩
  | obj y r =>
    have hos := (nextA_obj hnx).1; subst hos
    have hl2 : o.isFragmented = false ∧ ProtoTier y := by simpa only [LinkAll, hnx] using hlink
    have := hpos y r hnx
    have hk : region.length + k - o.hdr > 0 := by omega
    rw [if_pos hk]
    refine ⟨y.info.1, false, ?_, .inl rfl, .inl trivial⟩
    apply ip4_dispatch_cls _ _ _ (by rw [ip4_final_fragmented]; exact hl2.1)
    rw [final_protocol]
    exact ip4_protocolFor_obj ps y r o hl2.2
  | bad => simp only [LinkAll, hnx] at hlink

/-! ### IPSecAH -/

theorem ah_view_of (b : Bool) (a a' : Ah) (h1 : a'.spi = a.spi) (h2 : a'.seq = a.seq) (h3 : a'.icv = a.icv)
    (hp : b = true → a'.nextHeader = a.nextHeader) : layerView b (.ip (.ah a')) = layerView b (.ip (.ah a)) := by
  cases b with
  | false => simp [layerView, AnyObj.info, Ip.info, Ah.fields, Fields.view, h1, h2, h3]
  | true => simp [layerView, AnyObj.info, Ip.info, Ah.fields, Fields.view, h1, h2, h3, hp rfl]

theorem ah_nextHeaderFor_obj (ps : List LayerInfo) (y : AnyObj) (r : List AnyObj) (a : Ah) (hy : ProtoTier y) :
    Tags.classOfIpProto (Ah.nextHeaderFor (cxOf ps (y :: r)) a) = some y.info.1 := by
  have ht := protoTier_roundtrip y hy
  unfold Ah.nextHeaderFor
  rw [cxOf_head_obj]
  have hne : (Tags.ipProtoOfPduType (Tags.pduTypeOf y.info.1) != 255) = true := bne_iff_ne.mpr ht.1
  simp only [hne, if_true, Nat.mod_eq_of_lt (Nat.lt_of_lt_of_le ht.2.1 (by decide : 256 ≤ 256))]
  exact ht.2.2.1

/-- **IPSecAH step** (always below IP / IPv6, which cut padding off: nothing follows the region) -/
theorem ah_step (ps : List LayerInfo) (a : Ah) (os : List AnyObj) (hi : a.Inv)
    (hside : Side (.ip (.ah a)) os) (hlink : LinkAll (.ip (.ah a)) os) (region io : Bytes)
    (hlen : region.length = a.hdr + sizeOfStack os) (hio : region.drop a.hdr = io)
    (hnil : os = [] → io = []) (hraw : ∀ p, os = [.raw p] → io = p) (hpos : ∀ y r, nextA os = .obj y r → 0 < io.length) :
    ∃ out x' inner, a.write (cxOf ps os) region = .ok out ∧ out.length = region.length ∧
      parseOne "IPSecAH" out = .ok (x', inner) ∧
      layerView false x' = layerView false (.ip (.ah a)) ∧
      StepInnerA (.ip (.ah a)) os io 0 x' inner := by
  have hrp : a.Repr := hside
  rcases ah_reparse (cxOf ps os) a hi hrp region (by omega) with ⟨out, hw, hp⟩
  have hol : out.length = region.length := by
    have hw2 := ah_write_eq (cxOf ps os) a hi region (by omega)
    rw [hw] at hw2
    injection hw2 with hw2
    rw [hw2]
    have hb := ah_headerBytes_length (Ah.written (cxOf ps os) a) hi.reserved
    have hh : a.hdr = 12 + a.icv.length := rfl
    simp only [List.length_append, hb, List.length_drop]; omega
  rw [hio] at hp
  refine ⟨out, _, _, hw, hol, parseOne_ah _ _ _ hp, ah_view_of false _ _ rfl rfl rfl (fun h => by cases h), ?_⟩
  have hiol : io.length = region.length - a.hdr := by rw [← hio]; simp
  unfold StepInnerA
  have hcut : cut (.ip (.ah a)) 0 = 0 := rfl
  rw [hcut]
  simp only [List.replicate_zero, List.append_nil]
  cases hnx : nextA os with
  | none =>
    have hos := nextA_none hnx; subst hos
    have hio0 := hnil rfl; subst hio0
    have hk : ¬ region.length - a.hdr > 0 := by simp only [List.length_nil] at hiol; omega
    left; rw [if_neg hk]; exact ⟨rfl, rfl⟩
  | raw p =>
    have hos := nextA_raw hnx; subst hos
    have hiop := hraw p rfl; subst hiop
    have hl2 : Tags.classOfIpProto a.nextHeader = none := by simpa only [LinkAll, hnx] using hlink
    have hpr : (Ah.written (cxOf ps [.raw io]) a).nextHeader = a.nextHeader :=
      ah_nextHeader_kept _ a _ (cxOf_head_raw ps io) raw_no_proto
    refine ⟨ah_view_of _ _ _ rfl rfl rfl (fun _ => hpr), ?_⟩
    by_cases hk : region.length - a.hdr > 0
    · right
      rw [if_pos hk]
      simp only [Ah.dispatch, hpr, hl2]
    · left
      rw [if_neg hk]
      exact ⟨rfl, List.eq_nil_of_length_eq_zero (by omega)⟩
  | obj y r =>
    have hos := (nextA_obj hnx).1; subst hos
    have hl2 : ProtoTier y := by simpa only [LinkAll, hnx] using hlink
    have := hpos y r hnx
    have hk : region.length - a.hdr > 0 := by omega
    rw [if_pos hk]
    refine ⟨y.info.1, false, ?_, .inl rfl, .inl trivial⟩
    have hd : Tags.classOfIpProto (Ah.written (cxOf ps (y :: r)) a).nextHeader = some y.info.1 :=
      ah_nextHeaderFor_obj ps y r a hl2
    simp only [Ah.dispatch, hd]
  | bad => simp only [LinkAll, hnx] at hlink

/-! ### IPSecESP -/

/-- a class that hands everything behind its header to RawPDU: the inner-PDU decision at the end of a stack -/
theorem leaf_stepInner (x x' : AnyObj) (os : List AnyObj) (io : Bytes) (inner : Inner) (hc : cut x 0 = 0)
    (hlink : nextA os = .none ∨ ∃ p, nextA os = .raw p)
    (hinner : inner = if io.length > 0 then .raw io else .none)
    (hview : ∀ b, layerView b x' = layerView b x)
    (hnil : os = [] → io = []) (hraw : ∀ p, os = [.raw p] → io = p) : StepInnerA x os io 0 x' inner := by
  unfold StepInnerA
  rw [hc]
  simp only [List.replicate_zero, List.append_nil]
  rcases hlink with hnx | ⟨p, hnx⟩
  · rw [hnx]
    have hio0 := hnil (nextA_none hnx); subst hio0
    left; exact ⟨by rw [hinner]; rfl, rfl⟩
  · rw [hnx]
    have hiop := hraw p (nextA_raw hnx); subst hiop
    refine ⟨hview _, ?_⟩
    by_cases hk : io.length > 0
    · right; rw [hinner, if_pos hk]
    · left; rw [hinner, if_neg hk]; exact ⟨rfl, List.eq_nil_of_length_eq_zero (by omega)⟩

/-- the link of a class that only carries RawPDU -/
theorem leaf_link {os : List AnyObj}
    (h : match nextA os with | .none => True | .raw _ => True | _ => False) :
    nextA os = .none ∨ ∃ p, nextA os = .raw p := by
  cases hnx : nextA os with
  | none => exact .inl rfl
  | raw p => exact .inr ⟨p, rfl⟩
  | obj y r => rw [hnx] at h; exact h.elim
  | bad => rw [hnx] at h; exact h.elim

/-- **IPSecESP step** -/
theorem esp_step (ps : List LayerInfo) (e : Esp) (os : List AnyObj) (hi : e.Inv)
    (hlink : LinkAll (.ip (.esp e)) os) (region io : Bytes)
    (hlen : region.length = 8 + sizeOfStack os) (hio : region.drop 8 = io)
    (hnil : os = [] → io = []) (hraw : ∀ p, os = [.raw p] → io = p) :
    ∃ out x' inner, e.write (cxOf ps os) region = .ok out ∧ out.length = region.length ∧
      parseOne "IPSecESP" out = .ok (x', inner) ∧
      layerView false x' = layerView false (.ip (.esp e)) ∧
      StepInnerA (.ip (.esp e)) os io 0 x' inner := by
  rcases esp_reparse (cxOf ps os) e hi region (by omega) with ⟨out, hw, hp⟩
  have hol : out.length = region.length := by
    have hw2 := writeAtStart_eq region e.headerBytes (by rw [esp_headerBytes_length]; omega)
    have hw3 : e.write (cxOf ps os) region = writeAtStart region e.headerBytes := rfl
    rw [hw3, hw2] at hw
    injection hw with hw
    rw [← hw]
    simp only [List.length_append, esp_headerBytes_length, List.length_drop]; omega
  rw [hio] at hp
  have hiol : io.length = region.length - 8 := by rw [← hio]; simp
  refine ⟨out, _, _, hw, hol, parseOne_esp _ _ _ hp, rfl, ?_⟩
  apply leaf_stepInner _ _ os io _ rfl (leaf_link hlink) _ (fun _ => rfl) hnil hraw
  rw [hiol]

end Tins.Wire.ChainAll
