import TinsModel.Wire.Chain.StepAll
/-
  **Whole-packet C03 over all covered families** — "parsing the serialization of a packet succeeds and yields the same stack
  of layers with the same field values, options and payload; only derived fields may differ".

  `chain_reparse_aux_all` lifts the one-layer step (`step_all`) through `Wire.serializeObjs` (= `PDU::serialize` over the
  registry's chain) and `Wire.parseChain` (= the nested parsing constructors) by induction over the stack, for stacks of any
  depth mixing the link-layer family, IP (+options), IPSecAH, IPSecESP, IPv6 (+extension headers), UDP, TCP (+options),
  ICMP, ICMPv6, the App family (ARP, STP, VXLAN, RTP, BootP, DHCP, DHCPv6), the Wifi family (RadioTap, the Dot11 classes,
  RC4EAPOL / RSNEAPOL) and a final RawPDU — every stack that satisfies `StackableAll` (Stackable.lean).

  **Minimum-frame padding is accounted for exactly**: the zero bytes EthernetII (pad to 60) and Dot1Q (pad to 50) append show
  up behind the innermost payload only when no layer in between carries a length that cuts them off; `padAll os`
  (= `reach os 0`) is that number: `padAll_le_padOf` (never more than Σ trailer sizes, the bound of the link-layer theorem)
  and `padAll_of_cut` (0 as soon as IP / IPv6 / PPPoE sits above the payload: the view is then *equal*, no extra zeros).

  Main statements: `chain_reparse_all`, `chain_reparse_all_named`, `chain_reparse_all_view`, `chain_reparse_all_exact`.
-/
namespace Tins.Wire.ChainAll
open Tins Tins.Wire
open Tins.Wire.L2 (layerView splitRaw stripView padOf ViewEq IsTail TailInner cxOf)

/-! ### facts about representable layers -/

theorem l2ToNet_hdr_pos (x : L2.Obj) (ver v : Nat) (h : l2ToNet x ver v) : 0 < L2.hdr x := by
  cases x <;> first | (simp only [L2.hdr]; omega) | exact h.elim

theorem l2Ether_hdr_pos (x : L2.Obj) (h : l2Ether x) : 0 < L2.hdr x := by
  cases x <;> first | (simp only [L2.hdr]; omega) | exact h.elim

theorem hdrA_pos (x : AnyObj) (r : List AnyObj) (h : LayerOK x r) : 0 < x.hdr := by
  obtain ⟨hinv, hser, hside, hlink⟩ := h
  cases x with
  | raw p => exact hside.elim
  | app o =>
    cases o with
    | arp a => show 0 < 28; omega
    | vxlan v => show 0 < 8; omega
    | stp s => show 0 < 35; omega
    | rtp t => show 0 < t.hdr; unfold App.Rtp.hdr; omega
    | bootp p => show 0 < p.hdr; unfold App.BootP.hdr App.BootP.hdrSize; omega
    | dhcp d => show 0 < d.hdr; unfold App.Dhcp.hdr App.BootP.hdrSize; omega
    | dhcpv6 d => show 0 < d.hdr; unfold App.Dhcpv6.hdr; split <;> omega
  | wifi o =>
    cases o with
    | dot11 d => show 0 < d.hdrSize; unfold Wifi.Dot11.hdrSize; simp only; omega
    | eapol e => show 0 < e.hdrSize; unfold Wifi.Eapol.hdrSize; omega
    | radiotap t => show 0 < t.hdrSize; unfold Wifi.RadioTap.hdrSize; omega
  | l2 x =>
    rcases linkAll_l2_cases x r hlink with ⟨y, r', _, _, hl⟩ | ⟨y, r', n, _, _, hl⟩ | ⟨s, r', _, hl⟩ | hl
    · cases y with
      | ip o => cases o <;> first | exact l2ToNet_hdr_pos x _ _ hl | exact hl.elim
      | ip6 o => cases o; exact l2ToNet_hdr_pos x _ _ hl
      | _ => exact hl.elim
    · exact l2Ether_hdr_pos x hl
    · cases x with
      | llc l => show 0 < l.hdr; unfold L2.Llc.hdr; omega
      | _ => exact hl.elim
    · exact L2.hdr_pos x _ hl
  | ip o =>
    cases o with
    | ip i => have := (Ip.hdr_mod4 i).2; show 0 < i.hdr; omega
    | ah a => show 0 < 12 + a.icv.length; omega
    | esp e => show 0 < 8; omega
  | ip6 o => cases o with | ip6 p => show 0 < 40 + _; omega
  | tr o =>
    cases o with
    | udp u => show 0 < 8; omega
    | tcp t => have := Transport.tcp_hdr_eq t hser; show 0 < t.hdr; omega
  | icmp o =>
    cases o with
    | icmp p => show 0 < Icmp.Icmp4.hdr p; unfold Icmp.Icmp4.hdr; omega
    | icmp6 p =>
      show 0 < Icmp.Icmp6.hdr p
      have h1 : Icmp.Icmp6.Inv p := hinv
      have h2 : Icmp.Icmp6.Ser p := hser
      have := h1.optsSize
      have := h2.1
      unfold Icmp.Icmp6.hdr
      omega

/-- every entry of the Wifi family is a modelled class other than RawPDU -/
theorem wifi_classes_modelled : ∀ c ∈ Wifi.classes, modelled c = true ∧ c ≠ "RawPDU" := by decide

/-- the class name of a representable layer is a modelled class other than RawPDU -/
theorem name_of_layerOK (x : AnyObj) (r : List AnyObj) (h : LayerOK x r) : modelled x.info.1 = true ∧ x.info.1 ≠ "RawPDU" := by
  obtain ⟨_, _, hside, _⟩ := h
  cases x with
  | raw p => exact hside.elim
  | app o => cases o <;> (simp only [AnyObj.info, App.info]; decide)
  | wifi o =>
    cases o with
    | dot11 d =>
      have hl : Wifi.layoutOf d.cls = some d.lay := hside.2
      exact wifi_classes_modelled d.cls (dot11_classes_facts d.cls (layoutOf_mem d.cls d.lay hl)).1
    | eapol e =>
      show modelled (if e.rsn then "RSNEAPOL" else "RC4EAPOL") = true ∧ (if e.rsn then "RSNEAPOL" else "RC4EAPOL") ≠ "RawPDU"
      cases e.rsn <;> decide
    | radiotap t => simp only [AnyObj.info, Wifi.info]; decide
  | l2 x => exact ⟨L2.l2_modelled x, by cases x <;> (simp only [AnyObj.info, L2.info]; decide)⟩
  | ip o => cases o <;> (simp only [AnyObj.info, Ip.info]; decide)
  | ip6 o => cases o; simp only [AnyObj.info, Ip6.info]; decide
  | tr o => cases o <;> (simp only [AnyObj.info, Transport.info]; decide)
  | icmp o => cases o <;> (simp only [AnyObj.info, Icmp.info]; decide)

theorem modelled_of_layerOK (x : AnyObj) (r : List AnyObj) (h : LayerOK x r) : modelled x.info.1 = true :=
  (name_of_layerOK x r h).1

theorem not_rawName_of_layerOK (x : AnyObj) (r : List AnyObj) (h : LayerOK x r) : x.info.1 ≠ "RawPDU" :=
  (name_of_layerOK x r h).2

/-- every entry name of a representable layer is a modelled class other than RawPDU -/
theorem name_of_entry (n : String) (x : AnyObj) (r : List AnyObj) (hn : EntryName n x) (h : LayerOK x r) :
    modelled n = true ∧ n ≠ "RawPDU" := by
  rcases hn with rfl | hps
  · exact name_of_layerOK x r h
  · cases x with
    | wifi o =>
      cases o with
      | dot11 d => obtain ⟨rfl, _⟩ : n = "Dot11*" ∧ _ := hps; decide
      | eapol e =>
        obtain ⟨hn, _⟩ : (n = "EAPOL" ∨ n = "EAPOL*") ∧ _ := hps
        rcases hn with rfl | rfl <;> decide
      | radiotap t => exact hps.elim
    | _ => exact hps.elim

theorem not_raw_of_layerOK (x : AnyObj) (r : List AnyObj) (h : LayerOK x r) : isRaw x = false := by
  cases x with
  | raw p => exact h.2.2.1.elim
  | _ => rfl

/-- the layer the re-parse builds is not a RawPDU -/
theorem parsed_not_raw (cls : String) (b : Bytes) (x' : AnyObj) (inner : Inner) (hc : cls ≠ "RawPDU")
    (hp : parseOne cls b = .ok (x', inner)) : isRaw x' = false := by
  cases x' with
  | raw p => exact absurd (L2.parseOne_raw_inv cls b p inner hp).1 hc
  | _ => rfl

/-! ### one level of `PDU::serialize` + one level of the parsing constructors -/

/-- the registry's `LayerInfo` / `LayerSem` of a layer above the stack `os` -/
def liOfA (x : AnyObj) (os : List AnyObj) : LayerInfo := ⟨x.info.1, x.info.2, x.hdr, x.trl (sizeOfStack os)⟩
def semOfA (ps : List LayerInfo) (x : AnyObj) (os : List AnyObj) : LayerSem :=
  { name := x.info.1, hdr := x.hdr, trl := x.trl (sizeOfStack os), write := x.write (cxOf ps os) }

theorem semsAux_consA (ps : List LayerInfo) (x : AnyObj) (os : List AnyObj) :
    semsAux ps (x :: os) (infos (x :: os)) = semOfA ps x os :: semsAux (liOfA x os :: ps) os (infos os) := rfl

@[simp] theorem semOfA_hdr (ps : List LayerInfo) (x : AnyObj) (os : List AnyObj) : (semOfA ps x os).hdr = x.hdr := rfl
@[simp] theorem semOfA_trl (ps : List LayerInfo) (x : AnyObj) (os : List AnyObj) :
    (semOfA ps x os).trl = x.trl (sizeOfStack os) := rfl

theorem sizeOf_semsAuxA (os : List AnyObj) (parents : List LayerInfo) :
    Wire.sizeOf (semsAux parents os (infos os)) = sizeOfStack os := sizeOf_semsAux' os parents

/-- one level: `PDU::serialize` of the layer around the bytes `io` of its inner chain, and — for every entry name `n` of the
    class and every amount `k` of legitimate padding behind the region — the parsing constructor on the result -/
theorem chain_step_all (x : AnyObj) (os : List AnyObj) (ps : List LayerInfo) (region : Bytes)
    (hok : LayerOK x os) (hlen : region.length = Wire.sizeOf (semsAux ps (x :: os) (infos (x :: os)))) (io : Bytes)
    (hio : serializeInto (semsAux (liOfA x os :: ps) os (infos os)) (innerOf (semOfA ps x os) region) = .ok io)
    (hiol : io.length = sizeOfStack os)
    (hnil : os = [] → io = []) (hraw : ∀ p, os = [.raw p] → io = p)
    (hpos : ∀ y r, nextA os = .obj y r → 0 < io.length) (hnib : ∀ y r, nextA os = .obj y r → FirstNib y io) :
    ∃ out, serializeInto (semsAux ps (x :: os) (infos (x :: os))) region = .ok out ∧
      out.length = region.length ∧ FirstNib x out ∧
      ∀ n k, EntryName n x → PadCondN ps n x k →
        ∃ x' inner, parseOne n (out ++ List.replicate k 0) = .ok (x', inner) ∧
          layerView false x' = layerView false x ∧
          StepInnerA x os io (x.trl (sizeOfStack os) + k) x' inner := by
  rw [semsAux_consA] at hlen ⊢
  simp only [Wire.sizeOf, sizeOf_semsAuxA, semOfA_hdr, semOfA_trl] at hlen
  have hsl : (splice region x.hdr io).length = region.length := splice_length _ _ _ (by omega)
  have hin : innerOf (semOfA ps x os) (splice region (semOfA ps x os).hdr io) = io :=
    innerOf_splice (semOfA ps x os) region io (by simp only [semOfA_hdr, semOfA_trl]; omega)
      (by simp only [semOfA_hdr, semOfA_trl]; omega)
  have hin' : ((splice region x.hdr io).drop x.hdr).take (sizeOfStack os) = io := by
    have h2 := hin
    simp only [innerOf, semOfA_hdr, semOfA_trl, hsl] at h2
    have e : region.length - (x.hdr + x.trl (sizeOfStack os)) = sizeOfStack os := by omega
    rw [e] at h2
    exact h2
  rcases step_all_named ps x os hok (splice region x.hdr io) io (by rw [hsl]; omega) hin' hiol hnil hraw hpos hnib with
    ⟨out, hw, hl, hf, hpar⟩
  refine ⟨out, ?_, by omega, hf, hpar⟩
  have hio' : serializeInto (semsAux (liOfA x os :: ps) os (infos os))
      ((region.drop (semOfA ps x os).hdr).take (region.length - ((semOfA ps x os).hdr + (semOfA ps x os).trl))) = .ok io := hio
  simp only [serializeInto, hio', bind, Out.bind]
  exact hw

theorem sizeOfStack_cons (a : AnyObj) (r : List AnyObj) :
    sizeOfStack (a :: r) = a.hdr + a.trl (sizeOfStack r) + sizeOfStack r := by
  simp [sizeOfStack, infos]

theorem sizeOfStack_raw (p : Bytes) : sizeOfStack [.raw p] = p.length := by
  simp [sizeOfStack, infos, AnyObj.hdr, AnyObj.trl]

/-! ### the induction over the stack -/

/-- **whole-packet C03, generalised for the induction**: any sub-stack (`x :: os`, with the ancestors `ps` above it),
    serialized into a region of its size; re-parsed under any entry name `n` of the class of `x`, followed by `k` zero bytes
    of the ancestors' padding -/
theorem chain_reparse_aux_all (os : List AnyObj) : ∀ (x : AnyObj) (ps : List LayerInfo) (region : Bytes),
    isRaw x = false → StackableAll (x :: os) →
    region.length = Wire.sizeOf (semsAux ps (x :: os) (infos (x :: os))) →
    ∃ out, serializeInto (semsAux ps (x :: os) (infos (x :: os))) region = .ok out ∧ out.length = region.length ∧
      FirstNib x out ∧
      ∀ n k, EntryName n x → PadCondN ps n x k → ∀ fuel, out.length + k < fuel →
        ∃ os', parseChain fuel n (out ++ List.replicate k 0) = .ok os' ∧
          ViewEqAll (reach (x :: os) k) (x :: os) os' := by
  induction os with
  | nil =>
    intro x ps region hx hst hlen
    rw [stackableAll_cons hx] at hst
    obtain ⟨hok, _⟩ := hst
    have hlen0 := hlen
    rw [semsAux_consA] at hlen0
    simp only [Wire.sizeOf, semOfA_hdr, semOfA_trl, semsAux, infos] at hlen0
    have hs0 : sizeOfStack [] = 0 := rfl
    have hil : (innerOf (semOfA ps x []) region).length = 0 := by
      simp only [innerOf, semOfA_hdr, semOfA_trl, List.length_take, List.length_drop]; omega
    have hi0 : innerOf (semOfA ps x []) region = [] := List.eq_nil_of_length_eq_zero hil
    rcases chain_step_all x [] ps region hok hlen [] (by rw [hi0]; rfl) rfl (fun _ => rfl)
      (fun p h => by cases h) (fun y r h => by cases h) (fun y r h => by cases h) with
      ⟨out, hser, hl, hf, hstep⟩
    refine ⟨out, hser, hl, hf, ?_⟩
    intro n k hn hk fuel hfu
    rcases hstep n k hn hk with ⟨x', inner, hp, hv, hs⟩
    obtain ⟨f, rfl⟩ : ∃ f, fuel = f + 1 := ⟨fuel - 1, by omega⟩
    unfold StepInnerA at hs
    have hnx : nextA ([] : List AnyObj) = .none := rfl
    rw [hnx] at hs
    have hname := name_of_entry n x [] hn hok
    rcases L2.parseChain_leaf f _ _ _ _ _ hname.1 hp hs with ⟨t', hpc, htl⟩
    refine ⟨_, hpc, ?_⟩
    have hx' := parsed_not_raw _ _ x' inner hname.2 hp
    rw [reach_cons x [] k hx]
    exact viewEq_leafA _ x x' hx hx' [] t' [] _ (Nat.le_refl _) (.inl ⟨rfl, rfl⟩) htl hv.symm
  | cons a r ih =>
    intro x ps region hx hst hlen
    rw [stackableAll_cons hx] at hst
    obtain ⟨hok, hst'⟩ := hst
    have hlen0 := hlen
    rw [semsAux_consA] at hlen0
    simp only [Wire.sizeOf, sizeOf_semsAuxA, semOfA_hdr, semOfA_trl] at hlen0
    have hil : (innerOf (semOfA ps x (a :: r)) region).length = sizeOfStack (a :: r) := by
      simp only [innerOf, semOfA_hdr, semOfA_trl, List.length_take, List.length_drop]; omega
    cases ha : isRaw a with
    | true =>
      cases a with
      | raw p =>
        have hr : r = [] := hst'
        subst hr
        have hsz := sizeOfStack_raw p
        rcases chain_step_all x [.raw p] ps region hok hlen p
          (L2.serializeInto_raw _ p _ (by rw [hil, hsz])) (by rw [hsz]) (fun h => by cases h)
          (fun q h => by cases h; rfl) (fun y r h => by cases h) (fun y r h => by cases h) with
          ⟨out, hser, hl, hf, hstep⟩
        refine ⟨out, hser, hl, hf, ?_⟩
        intro n k hn hk fuel hfu
        rcases hstep n k hn hk with ⟨x', inner, hp, hv, hs⟩
        obtain ⟨f, rfl⟩ : ∃ f, fuel = f + 1 := ⟨fuel - 1, by omega⟩
        unfold StepInnerA at hs
        have hnx : nextA [AnyObj.raw p] = .raw p := rfl
        rw [hnx] at hs
        obtain ⟨hvt, ht⟩ := hs
        have hname := name_of_entry n x _ hn hok
        rcases L2.parseChain_leaf f _ _ _ _ _ hname.1 hp ht with ⟨t', hpc, htl⟩
        refine ⟨_, hpc, ?_⟩
        have hx' := parsed_not_raw _ _ x' inner hname.2 hp
        rw [reach_cons x [.raw p] k hx]
        exact viewEq_leafA _ x x' hx hx' [.raw p] t' p _ (Nat.le_refl _) (.inr rfl) htl hvt.symm
      | _ => cases ha
    | false =>
      have hst'' := hst'
      rw [stackableAll_cons ha] at hst''
      have hoka := hst''.1
      have hnx : nextA (a :: r) = .obj a r := nextA_cons_of_not_raw a r ha
      rcases ih a (liOfA x (a :: r) :: ps) (innerOf (semOfA ps x (a :: r)) region) ha hst'
        (by rw [hil, sizeOf_semsAuxA]) with ⟨io, hio, hiol, hfn, hpar⟩
      have hapos := hdrA_pos a r hoka
      have hiopos : 0 < io.length := by
        rw [hiol, hil, sizeOfStack_cons]; omega
      rcases chain_step_all x (a :: r) ps region hok hlen io hio (by rw [hiol, hil]) (fun h => by cases h)
        (fun q h => by cases h; cases ha) (fun _ _ _ => hiopos)
        (fun y r' h => by rw [hnx] at h; injection h with h1 h2; subst h1; exact hfn) with
        ⟨out, hser, hl, hf, hstep⟩
      refine ⟨out, hser, hl, hf, ?_⟩
      intro n k hn hk fuel hfu
      rcases hstep n k hn hk with ⟨x', inner, hp, hv, hs⟩
      obtain ⟨f, rfl⟩ : ∃ f, fuel = f + 1 := ⟨fuel - 1, by omega⟩
      unfold StepInnerA at hs
      rw [hnx] at hs
      obtain ⟨n', fb, hinner, hen', hpad'⟩ := hs
      subst hinner
      have hxpos := hdrA_pos x _ hok
      have hcl := cut_le x (x.trl (sizeOfStack (a :: r)) + k)
      have hname := name_of_entry n x _ hn hok
      rcases hpar n' (cut x (x.trl (sizeOfStack (a :: r)) + k)) hen'
        (by rcases hpad' with h | h; exact .inl h; exact .inr ⟨by simp, h⟩) f (by rw [hiol, hil]; omega) with
        ⟨os'', hrec, hview⟩
      refine ⟨_, L2.parseChain_cls f _ _ _ _ _ _ _ hname.1 hp hrec, ?_⟩
      rw [reach_cons x (a :: r) k hx]
      exact L2.viewEq_cons _ x x' _ _ (splitRaw_ne_of_not_raw a ha r) hv.symm hview

/-- **C03, whole packets of all covered families, under any entry name**: for every stack `o :: os` that the protocols can
    express (`StackableAll`) and every name `n` under which the parsing constructors reach the class of `o` (the class name;
    `Dot11*` for a Dot11 object whose frame-control octet selects its class; `EAPOL` / `EAPOL*` for a key frame whose
    descriptor type octet does), if `PDU::serialize()` returns `out` then entry `n` accepts `out` (with the drivers' fuel
    `|out| + 2`) and yields a stack with the same view. -/
theorem chain_reparse_all_named (n : String) (o : AnyObj) (os : List AnyObj) (hn : EntryName n o)
    (hs : StackableAll (o :: os)) (out : Bytes) (hser : serializeObjs (o :: os) = .ok out) :
    ∃ os', parseChain (out.length + 2) n out = .ok os' ∧ ViewEqAll (padAll (o :: os)) (o :: os) os' := by
  cases ho : isRaw o with
  | true =>
    cases o with
    | raw p =>
      have hr : os = [] := hs
      subst hr
      have hnr : n = "RawPDU" := by
        rcases hn with h | h
        · exact h
        · exact h.elim
      subst hnr
      have hser' : serializeInto (semsAux [] [.raw p] (infos [.raw p])) (List.replicate p.length 0) = .ok out := by
        have : Wire.sizeOf (semsAux [] [.raw p] (infos [.raw p])) = p.length := by
          simp [semsAux, infos, Wire.sizeOf, AnyObj.hdr, AnyObj.trl]
        rw [← this]; exact hser
      rw [L2.serializeInto_raw [] p _ (by simp)] at hser'
      injection hser' with hser'
      subst hser'
      refine ⟨[.raw p], by simp [parseChain, modelled, parseOne], ?_⟩
      have : padAll [AnyObj.raw p] = 0 := rfl
      rw [this]
      exact L2.viewEq_raw p
    | _ => cases ho
  | false =>
    rcases chain_reparse_aux_all os o [] (List.replicate (Wire.sizeOf (sems (o :: os))) 0) ho hs (by simp [sems]) with
      ⟨out', hser', hl, _, hpar⟩
    have : out' = out := by
      have := hser'.symm.trans hser
      injection this
    subst this
    rcases hpar n 0 hn (.inl rfl) (out'.length + 2) (by omega) with ⟨os', hp, hv⟩
    rw [List.replicate_zero, List.append_nil] at hp
    exact ⟨os', hp, hv⟩

/-- **C03, whole packets of all covered families (`chain_reparse_all`)**: for every stack `o :: os` that the protocols can
    express (`StackableAll`), if `PDU::serialize()` returns `out` then the parsing constructor of the outermost class
    accepts `out` (with the drivers' fuel `|out| + 2`) and yields a stack `os'` with the same view: the same classes in the
    same order, the same `Fields.view` per layer (`^` tags compared for the layer directly above a non-empty unrecognised
    payload), the same payload bytes followed by exactly-at-most `padAll (o :: os)` zero bytes of minimum-frame padding. -/
theorem chain_reparse_all (o : AnyObj) (os : List AnyObj) (hs : StackableAll (o :: os)) (out : Bytes)
    (hser : serializeObjs (o :: os) = .ok out) :
    ∃ os', parseChain (out.length + 2) o.info.1 out = .ok os' ∧ ViewEqAll (padAll (o :: os)) (o :: os) os' :=
  chain_reparse_all_named o.info.1 o os (entryName_self o) hs out hser

/-- the same as a statement about the result of the re-parse (the parsing constructors are functions) -/
theorem chain_reparse_all_view (o : AnyObj) (os : List AnyObj) (hs : StackableAll (o :: os)) (out : Bytes)
    (hser : serializeObjs (o :: os) = .ok out) (os' : List AnyObj)
    (hp : parseChain (out.length + 2) o.info.1 out = .ok os') : ViewEqAll (padAll (o :: os)) (o :: os) os' := by
  rcases chain_reparse_all o os hs out hser with ⟨os'', hp', hv⟩
  have := hp'.symm.trans hp
  injection this with this
  subst this
  exact hv

/-- when no minimum-frame padding reaches the payload — no EthernetII / Dot1Q trailer in play, or an IP total length / IPv6
    payload length / PPPoE payload length between it and the payload — the payload comes back byte for byte -/
theorem chain_reparse_all_exact (o : AnyObj) (os : List AnyObj) (hs : StackableAll (o :: os)) (hpad : padAll (o :: os) = 0)
    (out : Bytes) (hser : serializeObjs (o :: os) = .ok out) :
    ∃ os', parseChain (out.length + 2) o.info.1 out = .ok os' ∧ ViewEqAll 0 (o :: os) os' ∧
      (splitRaw os').2 = (splitRaw (o :: os)).2 := by
  rcases chain_reparse_all o os hs out hser with ⟨os', hp, hv⟩
  rw [hpad] at hv
  refine ⟨os', hp, hv, ?_⟩
  rcases hv.2 with ⟨j, hj, he⟩
  have : j = 0 := by omega
  subst this
  simpa using he

end Tins.Wire.ChainAll
