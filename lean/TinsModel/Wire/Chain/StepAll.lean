import TinsModel.Wire.Chain.StepIcmp
import TinsModel.Wire.Chain.StepTransport
import TinsModel.Wire.Chain.StepWifi
/-
  Whole-packet C03 over all covered families, part 4: **the one-layer step for every covered class** over the interface the
  registry uses (`AnyObj.write`, `parseOne`): layer `x` (representable above the stack `os`: `LayerOK`) is written around the
  bytes `io` of its inner chain into the region `PDU::serialize` hands it; parsing the result followed by `k` zero bytes
  (minimum-frame padding of an enclosing EthernetII / Dot1Q; only behind Dot1Q / MPLS / PPPoE / IP / IPv6 with a parent) gives
  a layer of the same class with the same view, and the decision about the inner PDU described by `StepInnerA`.
-/
namespace Tins.Wire.ChainAll
open Tins Tins.Wire
open Tins.Wire.L2 (layerView splitRaw stripView padOf ViewEq IsTail TailInner cxOf)

/-- the successor of a link-layer class outside the family -/
def l2ToNetP (x : L2.Obj) (y : AnyObj) : Prop :=
  match y with
  | .ip (.ip i) => l2ToNet x 4 i.version
  | .ip6 (.ip6 p) => l2ToNet x 6 p.version
  | _ => False

theorem l2_link_bad (x : L2.Obj) : ¬ L2.Link x .bad := by
  cases x <;> simp [L2.Link, L2.etherLink]

theorem linkAll_l2_cases (x : L2.Obj) (os : List AnyObj) (h : LinkAll (.l2 x) os) :
    (∃ y r, os = y :: r ∧ NetTier y ∧ l2ToNetP x y) ∨
    (∃ y r n, os = y :: r ∧ ExtTier y n ∧ l2Ether x) ∨
    (∃ s r, os = .app (.stp s) :: r ∧ l2ToStp x) ∨
    L2.Link x (L2.next os) := by
  cases hnx : nextA os with
  | none => right; right; right; simpa only [LinkAll, hnx] using h
  | raw p => right; right; right; simpa only [LinkAll, hnx] using h
  | bad => right; right; right; simpa only [LinkAll, hnx] using h
  | obj y r =>
    have hos := (nextA_obj hnx).1
    cases y with
    | ip o =>
      cases o with
      | ip i =>
        left
        have h2 : l2ToNet x 4 i.version := by simpa only [LinkAll, hnx] using h
        exact ⟨_, r, hos, trivial, h2⟩
      | ah a => right; right; right; simpa only [LinkAll, hnx] using h
      | esp e => right; right; right; simpa only [LinkAll, hnx] using h
    | ip6 o =>
      cases o with
      | ip6 p =>
        left
        have h2 : l2ToNet x 6 p.version := by simpa only [LinkAll, hnx] using h
        exact ⟨_, r, hos, trivial, h2⟩
    | raw p => right; right; right; simpa only [LinkAll, hnx] using h
    | l2 z => right; right; right; simpa only [LinkAll, hnx] using h
    | icmp z => right; right; right; simpa only [LinkAll, hnx] using h
    | tr z => right; right; right; simpa only [LinkAll, hnx] using h
    | app z =>
      cases z with
      | arp a =>
        right; left
        have h2 : l2Ether x := by simpa only [LinkAll, hnx] using h
        exact ⟨_, r, "ARP", hos, rfl, h2⟩
      | stp s =>
        right; right; left
        have h2 : l2ToStp x := by simpa only [LinkAll, hnx] using h
        exact ⟨s, r, hos, h2⟩
      | vxlan v => right; right; right; simpa only [LinkAll, hnx] using h
      | rtp v => right; right; right; simpa only [LinkAll, hnx] using h
      | bootp v => right; right; right; simpa only [LinkAll, hnx] using h
      | dhcp v => right; right; right; simpa only [LinkAll, hnx] using h
      | dhcpv6 v => right; right; right; simpa only [LinkAll, hnx] using h
    | wifi z =>
      cases z with
      | eapol e =>
        right; left
        have h2 : l2Ether x ∧ EapolTyped e := by simpa only [LinkAll, hnx] using h
        exact ⟨_, r, "EAPOL", hos, ⟨rfl, h2.2⟩, h2.1⟩
      | dot11 d => right; right; right; simpa only [LinkAll, hnx] using h
      | radiotap t => right; right; right; simpa only [LinkAll, hnx] using h

theorem take_drop_fullA (region : Bytes) (h n : Nat) (hl : region.length = h + n) : (region.drop h).take n = region.drop h :=
  List.take_of_length_le (by simp only [List.length_drop]; omega)

theorem append_replicate_zero (out : Bytes) : out ++ List.replicate 0 (0 : UInt8) = out := by simp

/-- a link-layer class in front of IP / IPv6, every class -/
theorem l2_step_net (ps : List LayerInfo) (x : L2.Obj) (y : AnyObj) (r : List AnyObj) (hinv : L2.ObjInv x) (hy : NetTier y)
    (hl : l2ToNetP x y) (k : Nat) (hk : PadCond ps (.l2 x) k) (region io : Bytes)
    (hlen : region.length = L2.hdr x + sizeOfStack (y :: r) + L2.trl x (sizeOfStack (y :: r)))
    (hio : (region.drop (L2.hdr x)).take (sizeOfStack (y :: r)) = io) (hpos : 0 < io.length) (hnib : FirstNib y io) :
    ∃ out x' inner, L2.write (cxOf ps (y :: r)) x region = .ok out ∧ out.length = region.length ∧
      parseOne (L2.info x).1 (out ++ List.replicate k 0) = .ok (x', inner) ∧
      layerView false x' = layerView false (.l2 x) ∧
      StepInnerA (.l2 x) (y :: r) io (L2.trl x (sizeOfStack (y :: r)) + k) x' inner := by
  have hk0 : ¬ L2.EtherTier x → k = 0 := fun hn => by rcases hk with h | h; exact h; exact absurd h.2 hn
  have hln : ∃ ver v, l2ToNet x ver v ∧ ((y.info.1 = "IP" ∧ ver = 4) ∨ (y.info.1 = "IPv6" ∧ ver = 6)) ∧
      (L2.byteAt io 0 / 16 = v) := by
    cases y with
    | ip o =>
      cases o with
      | ip i => exact ⟨4, i.version, hl, .inl ⟨rfl, rfl⟩, hnib⟩
      | ah a => exact hl.elim
      | esp e => exact hl.elim
    | ip6 o => cases o with | ip6 p => exact ⟨6, p.version, hl, .inr ⟨rfl, rfl⟩, hnib⟩
    | _ => exact hl.elim
  obtain ⟨ver, v, hl2, hcls, hv⟩ := hln
  cases x with
  | eth e =>
    have := hk0 (by simp [L2.EtherTier]); subst this
    rcases eth_step_net ps e y r hinv hy region io hlen hio with ⟨out, x', inner, hw, hol, hp, hvw, hs⟩
    exact ⟨out, x', inner, hw, hol, by rw [append_replicate_zero]; exact hp, hvw, hs⟩
  | dot1q q =>
    exact dot1q_step_net ps q y r hinv hy region io k hlen hio hpos
  | snap s =>
    have := hk0 (by simp [L2.EtherTier]); subst this
    simp only [L2.hdr, L2.trl, Nat.add_zero] at hlen hio
    rw [take_drop_fullA region 8 _ hlen] at hio
    rcases snap_step_net ps s y r hinv hy region io hlen hio hpos with ⟨out, x', inner, hw, hol, hp, hvw, hs⟩
    exact ⟨out, x', inner, hw, hol, by rw [append_replicate_zero]; exact hp, hvw, hs⟩
  | sll s =>
    have := hk0 (by simp [L2.EtherTier]); subst this
    simp only [L2.hdr, L2.trl, Nat.add_zero] at hlen hio
    rw [take_drop_fullA region 16 _ hlen] at hio
    rcases sll_step_net ps s y r hinv hy region io hlen hio hpos with ⟨out, x', inner, hw, hol, hp, hvw, hs⟩
    exact ⟨out, x', inner, hw, hol, by rw [append_replicate_zero]; exact hp, hvw, hs⟩
  | loopback l =>
    have := hk0 (by simp [L2.EtherTier]); subst this
    simp only [L2.hdr, L2.trl, Nat.add_zero] at hlen hio
    rw [take_drop_fullA region 4 _ hlen] at hio
    rcases loopback_step_net ps l y r hinv hy region io hlen hio with ⟨out, x', inner, hw, hol, hp, hvw, hs⟩
    exact ⟨out, x', inner, hw, hol, by rw [append_replicate_zero]; exact hp, hvw, hs⟩
  | mpls m =>
    simp only [L2.hdr, L2.trl, Nat.add_zero] at hlen hio
    rw [take_drop_fullA region 4 _ hlen] at hio
    have hm : m.bottomOfStack = 1 ∧ v = ver := hl2
    have hn : (y.info.1 = "IP" ∧ L2.byteAt io 0 / 16 = 4) ∨ (y.info.1 = "IPv6" ∧ L2.byteAt io 0 / 16 = 6) := by
      rcases hcls with ⟨hc, h4⟩ | ⟨hc, h6⟩
      · left; exact ⟨hc, by rw [hv, hm.2, h4]⟩
      · right; exact ⟨hc, by rw [hv, hm.2, h6]⟩
    rcases mpls_step_net ps m y r hinv hy hm.1 io hn region k hlen hio hpos with ⟨out, x', inner, hw, hol, hp, hvw, hs⟩
    exact ⟨out, x', inner, hw, hol, hp, hvw, by simpa [L2.trl] using hs⟩
  | dot3 d => exact hl2.elim
  | llc l => exact hl2.elim
  | pppoe p => exact hl2.elim
  | ppi p => exact hl2.elim
  | pktap p => exact hl2.elim

/-- **the one-layer step of whole-packet C03, every covered class** -/
theorem step_all (ps : List LayerInfo) (x : AnyObj) (os : List AnyObj) (hok : LayerOK x os) (k : Nat)
    (hk : PadCond ps x k) (region io : Bytes)
    (hlen : region.length = x.hdr + sizeOfStack os + x.trl (sizeOfStack os))
    (hio : (region.drop x.hdr).take (sizeOfStack os) = io) (hiol : io.length = sizeOfStack os)
    (hnil : os = [] → io = []) (hraw : ∀ p, os = [.raw p] → io = p)
    (hpos : ∀ y r, nextA os = .obj y r → 0 < io.length) (hnib : ∀ y r, nextA os = .obj y r → FirstNib y io) :
    ∃ out x' inner, x.write (cxOf ps os) region = .ok out ∧ out.length = region.length ∧
      parseOne x.info.1 (out ++ List.replicate k 0) = .ok (x', inner) ∧
      layerView false x' = layerView false x ∧
      StepInnerA x os io (x.trl (sizeOfStack os) + k) x' inner ∧ FirstNib x out := by
  obtain ⟨hinv, hser, hside, hlink⟩ := hok
  have hk0 : ¬ PadOK x → k = 0 := fun hn => by rcases hk with h | h; exact h; exact absurd h.2 hn
  cases x with
  | raw p => exact hside.elim
  | app o =>
    cases o with
    | arp a =>
      have hlen' : region.length = 28 + sizeOfStack os := hlen
      have hio' : region.drop 28 = io := by rw [← hio]; exact (take_drop_fullA region 28 _ hlen').symm
      rcases arp_step ps a os hinv hlink k region io hlen' hio' hnil hraw with ⟨out, x', inner, hw, hol, hp, hv, hs⟩
      exact ⟨out, x', inner, hw, hol, hp, hv, by simpa [AnyObj.trl, App.trl] using hs, trivial⟩
    | stp t =>
      have hlen' : region.length = 35 + sizeOfStack os := hlen
      rcases stp_step ps t os hinv hlink k region io hlen' with ⟨out, x', inner, hw, hol, hp, hv, hs⟩
      exact ⟨out, x', inner, hw, hol, hp, hv, by simpa [AnyObj.trl, App.trl] using hs, trivial⟩
    | vxlan v =>
      have := hk0 (fun h => h); subst this
      have hlen' : region.length = 8 + sizeOfStack os := hlen
      have hio' : region.drop 8 = io := by rw [← hio]; exact (take_drop_fullA region 8 _ hlen').symm
      rcases vxlan_step ps v os hinv hlink region io hlen' hio' hnil hpos with ⟨out, x', inner, hw, hol, hp, hv, hs⟩
      exact ⟨out, x', inner, hw, hol, by rw [append_replicate_zero]; exact hp, hv, hs, trivial⟩
    | rtp t =>
      have := hk0 (fun h => h); subst this
      rcases rtp_step ps t os hinv hside hlink region io hlen hio hnil hraw with ⟨out, x', inner, hw, hol, hp, hv, hs⟩
      exact ⟨out, x', inner, hw, hol, by rw [append_replicate_zero]; exact hp, hv, hs, trivial⟩
    | bootp p =>
      have := hk0 (fun h => h); subst this
      have hlen' : region.length = p.hdr + sizeOfStack os := hlen
      rcases bootp_step ps p os hinv hside hlink region io hlen' with ⟨out, x', inner, hw, hol, hp, hv, hs⟩
      exact ⟨out, x', inner, hw, hol, by rw [append_replicate_zero]; exact hp, hv, hs, trivial⟩
    | dhcp d =>
      have := hk0 (fun h => h); subst this
      have hlen' : region.length = d.hdr + sizeOfStack os := hlen
      rcases dhcp_step ps d os hinv hser hside hlink region io hlen' with ⟨out, x', inner, hw, hol, hp, hv, hs⟩
      exact ⟨out, x', inner, hw, hol, by rw [append_replicate_zero]; exact hp, hv, hs, trivial⟩
    | dhcpv6 d =>
      have := hk0 (fun h => h); subst this
      have hlen' : region.length = d.hdr + sizeOfStack os := hlen
      rcases dhcpv6_step ps d os hinv hser hside hlink region io hlen' with ⟨out, x', inner, hw, hol, hp, hv, hs⟩
      exact ⟨out, x', inner, hw, hol, by rw [append_replicate_zero]; exact hp, hv, hs, trivial⟩
  | wifi o =>
    have := hk0 (fun h => h); subst this
    cases o with
    | dot11 d =>
      have hlen' : region.length = d.hdrSize + sizeOfStack os := hlen
      have hio' : region.drop d.hdrSize = io := by rw [← hio]; exact (take_drop_fullA region d.hdrSize _ hlen').symm
      rcases dot11_step ps d os hinv hser hside hlink region io hlen' hio' hnil hraw hpos with
        ⟨out, x', inner, hw, hol, hp, hv, hs⟩
      exact ⟨out, x', inner, hw, hol, by rw [append_replicate_zero]; exact hp, hv, hs, trivial⟩
    | eapol e =>
      have hlen' : region.length = e.hdrSize + sizeOfStack os := hlen
      have hio' : region.drop e.hdrSize = io := by rw [← hio]; exact (take_drop_fullA region e.hdrSize _ hlen').symm
      rcases eapol_step ps e os hinv hside hlink region io hlen' hio' hnil hraw with ⟨out, x', inner, hw, hol, hp, hv, hs⟩
      exact ⟨out, x', inner, hw, hol, by rw [append_replicate_zero]; exact hp, hv, hs, trivial⟩
    | radiotap t =>
      rcases radiotap_step ps t os hinv hside hlink region io hlen hio hiol with ⟨out, x', inner, hw, hol, hp, hv, hs⟩
      exact ⟨out, x', inner, hw, hol, by rw [append_replicate_zero]; exact hp, hv, hs, trivial⟩
  | l2 x =>
    rcases linkAll_l2_cases x os hlink with ⟨y, r, rfl, hy, hl⟩ | ⟨y, r, n, rfl, hy, hl⟩ | ⟨s, r, rfl, hl⟩ | hl
    · have hnx := nextA_cons_of_not_raw y r (netTier_not_raw hy)
      rcases l2_step_net ps x y r hinv hy hl k hk region io hlen hio (hpos y r hnx) (hnib y r hnx) with
        ⟨out, x', inner, hw, hol, hp, hv, hs⟩
      exact ⟨out, x', inner, hw, hol, hp, hv, hs, trivial⟩
    · have hnx := nextA_cons_of_not_raw y r (extTier_not_raw hy)
      rcases l2_step_ext ps x y r n hinv hy hl k hk region io hlen hio (hpos y r hnx) with
        ⟨out, x', inner, hw, hol, hp, hv, hs⟩
      exact ⟨out, x', inner, hw, hol, hp, hv, hs, trivial⟩
    · cases x with
      | llc l =>
        have := hk0 (fun h => h); subst this
        have hlen' : region.length = l.hdr + sizeOfStack (.app (.stp s) :: r) := hlen
        have hio' : region.drop l.hdr = io := by rw [← hio]; exact (take_drop_fullA region l.hdr _ hlen').symm
        rcases llc_step_stp ps l s r hinv hl region io hlen' hio' (hpos _ r rfl) with ⟨out, x', inner, hw, hol, hp, hv, hs⟩
        exact ⟨out, x', inner, hw, hol, by rw [append_replicate_zero]; exact hp, hv, hs, trivial⟩
      | _ => exact hl.elim
    · rcases l2_step_l2 ps x os hinv hl k hk region io hlen hio hiol hnil hraw hpos with ⟨out, x', inner, hw, hol, hp, hv, hs⟩
      exact ⟨out, x', inner, hw, hol, hp, hv, hs, trivial⟩
  | ip o =>
    cases o with
    | ip i =>
      have hlen' : region.length = i.hdr + sizeOfStack os := hlen
      have hio' : region.drop i.hdr = io := by rw [← hio]; exact (take_drop_fullA region i.hdr _ hlen').symm
      rcases ip_step ps i os hinv hser hside hlink k region io hlen' hio' hnil hraw hpos with ⟨out, x', inner, hw, hol, hp, hv, hs⟩
      exact ⟨out, x', inner, hw, hol, hp, hv, by simpa [AnyObj.trl, Ip.trl] using hs,
        ip4_write_firstNib _ i hinv hser region out (by omega) hw⟩
    | ah a =>
      have := hk0 (fun h => h); subst this
      have hlen' : region.length = a.hdr + sizeOfStack os := hlen
      have hio' : region.drop a.hdr = io := by rw [← hio]; exact (take_drop_fullA region a.hdr _ hlen').symm
      rcases ah_step ps a os hinv hside hlink region io hlen' hio' hnil hraw hpos with ⟨out, x', inner, hw, hol, hp, hv, hs⟩
      exact ⟨out, x', inner, hw, hol, by rw [append_replicate_zero]; exact hp, hv, hs, trivial⟩
    | esp e =>
      have := hk0 (fun h => h); subst this
      have hlen' : region.length = 8 + sizeOfStack os := hlen
      have hio' : region.drop 8 = io := by rw [← hio]; exact (take_drop_fullA region 8 _ hlen').symm
      rcases esp_step ps e os hinv hlink region io hlen' hio' hnil hraw with ⟨out, x', inner, hw, hol, hp, hv, hs⟩
      exact ⟨out, x', inner, hw, hol, by rw [append_replicate_zero]; exact hp, hv, hs, trivial⟩
  | ip6 o =>
    cases o with
    | ip6 p =>
      have hlen' : region.length = p.hdr + sizeOfStack os := hlen
      have hio' : region.drop p.hdr = io := by rw [← hio]; exact (take_drop_fullA region p.hdr _ hlen').symm
      rcases ip6_step ps p os hinv hside hlink k region io hlen' hio' hnil hraw hpos with ⟨out, x', inner, hw, hol, hp, hv, hs⟩
      exact ⟨out, x', inner, hw, hol, hp, hv, by simpa [AnyObj.trl, Ip6.trl] using hs,
        ip6_write_firstNib _ p hinv region out (by omega) hw⟩
  | tr o =>
    have := hk0 (fun h => h); subst this
    cases o with
    | udp u =>
      have hlen' : region.length = 8 + sizeOfStack os := hlen
      have hio' : region.drop 8 = io := by rw [← hio]; exact (take_drop_fullA region 8 _ hlen').symm
      rcases udp_step ps u os hinv hlink region io hlen' hio' hnil hraw with ⟨out, x', inner, hw, hol, hp, hv, hs⟩
      exact ⟨out, x', inner, hw, hol, by rw [append_replicate_zero]; exact hp, hv, hs, trivial⟩
    | tcp t =>
      have hlen' : region.length = t.hdr + sizeOfStack os := hlen
      have hio' : region.drop t.hdr = io := by rw [← hio]; exact (take_drop_fullA region t.hdr _ hlen').symm
      rcases tcp_step ps t os hinv hser hside hlink region io hlen' hio' hnil hraw with ⟨out, x', inner, hw, hol, hp, hv, hs⟩
      exact ⟨out, x', inner, hw, hol, by rw [append_replicate_zero]; exact hp, hv, hs, trivial⟩
  | icmp o =>
    have := hk0 (fun h => h); subst this
    cases o with
    | icmp p =>
      have ht : p.trl (sizeOfStack os) = 0 := icmp_trl_zero p hside.2.1 _
      have hlen' : region.length = p.hdr + sizeOfStack os := by
        have : region.length = p.hdr + sizeOfStack os + p.trl (sizeOfStack os) := hlen
        omega
      have hio' : region.drop p.hdr = io := by rw [← hio]; exact (take_drop_fullA region p.hdr _ hlen').symm
      rcases icmp_step ps p os hinv hside hlink region io hlen' hio' hnil hraw with ⟨out, x', inner, hw, hol, hp, hv, hs⟩
      refine ⟨out, x', inner, hw, hol, by rw [append_replicate_zero]; exact hp, hv, ?_, trivial⟩
      have : (AnyObj.icmp (.icmp p)).trl (sizeOfStack os) + 0 = 0 := by
        show p.trl (sizeOfStack os) + 0 = 0
        omega
      rw [this]; exact hs
    | icmp6 p =>
      have ht : p.trl (sizeOfStack os) = 0 := icmp6_trl_zero p hside.2.1 _
      have hlen' : region.length = p.hdr + sizeOfStack os := by
        have : region.length = p.hdr + sizeOfStack os + p.trl (sizeOfStack os) := hlen
        omega
      have hio' : region.drop p.hdr = io := by rw [← hio]; exact (take_drop_fullA region p.hdr _ hlen').symm
      rcases icmp6_step ps p os hinv hser hside hlink region io hlen' hio' hnil hraw with ⟨out, x', inner, hw, hol, hp, hv, hs⟩
      refine ⟨out, x', inner, hw, hol, by rw [append_replicate_zero]; exact hp, hv, ?_, trivial⟩
      have : (AnyObj.icmp (.icmp6 p)).trl (sizeOfStack os) + 0 = 0 := by
        show p.trl (sizeOfStack os) + 0 = 0
        omega
      rw [this]; exact hs

/-! ### the step under any entry name -/

/-- under its own class name an object tolerates padding only if its class does (`PadOK`): the EAPOL classes do not — their
    constructors hand every trailing byte to RawPDU; only `EAPOL::from_bytes` cuts at the length field -/
theorem padCond_of_self {ps : List LayerInfo} {x : AnyObj} {k : Nat} (h : PadCondN ps x.info.1 x k) : PadCond ps x k := by
  rcases h with h | ⟨hps, h | ⟨he, hn⟩⟩
  · exact .inl h
  · exact .inr ⟨hps, h⟩
  · exfalso
    cases x with
    | wifi o =>
      cases o with
      | eapol e =>
        have hname : (AnyObj.wifi (.eapol e)).info.1 = if e.rsn then "RSNEAPOL" else "RC4EAPOL" := rfl
        rw [hname] at hn
        cases hr : e.rsn <;> simp [hr] at hn
      | _ => cases he
    | _ => cases he

/-- **the one-layer step of whole-packet C03, every covered class, under every entry name**: the writer's output does not
    depend on how the re-parse enters the class; under the class's own name this is `step_all`, under `Dot11*` / `EAPOL` /
    `EAPOL*` the factory selects the same class from the bytes the writer produced. -/
theorem step_all_named (ps : List LayerInfo) (x : AnyObj) (os : List AnyObj) (hok : LayerOK x os) (region io : Bytes)
    (hlen : region.length = x.hdr + sizeOfStack os + x.trl (sizeOfStack os))
    (hio : (region.drop x.hdr).take (sizeOfStack os) = io) (hiol : io.length = sizeOfStack os)
    (hnil : os = [] → io = []) (hraw : ∀ p, os = [.raw p] → io = p)
    (hpos : ∀ y r, nextA os = .obj y r → 0 < io.length) (hnib : ∀ y r, nextA os = .obj y r → FirstNib y io) :
    ∃ out, x.write (cxOf ps os) region = .ok out ∧ out.length = region.length ∧ FirstNib x out ∧
      ∀ n k, EntryName n x → PadCondN ps n x k →
        ∃ x' inner, parseOne n (out ++ List.replicate k 0) = .ok (x', inner) ∧
          layerView false x' = layerView false x ∧
          StepInnerA x os io (x.trl (sizeOfStack os) + k) x' inner := by
  rcases step_all ps x os hok 0 (.inl rfl) region io hlen hio hiol hnil hraw hpos hnib with
    ⟨out, _, _, hw, hol, _, _, _, hfn⟩
  refine ⟨out, hw, hol, hfn, ?_⟩
  intro n k hn hk
  have same : ∀ out', x.write (cxOf ps os) region = .ok out' → out' = out := by
    intro out' h'
    have := h'.symm.trans hw
    injection this
  rcases hn with rfl | hps
  · rcases step_all ps x os hok k (padCond_of_self hk) region io hlen hio hiol hnil hraw hpos hnib with
      ⟨out', x', inner, hw', _, hp, hv, hs, _⟩
    rw [same out' hw'] at hp
    exact ⟨x', inner, hp, hv, hs⟩
  · obtain ⟨hinv, hser, hside, hlink⟩ := hok
    cases x with
    | wifi o =>
      cases o with
      | dot11 d =>
        obtain ⟨rfl, hdisp⟩ : n = "Dot11*" ∧ Wifi.Dot11.dispatch (Wifi.byteAt d.hdr 0) = d.cls := hps
        have hk0 : k = 0 := by
          rcases hk with h | ⟨_, h | ⟨he, _⟩⟩
          · exact h
          · exact h.elim
          · cases he
        subst hk0
        have hlen' : region.length = d.hdrSize + sizeOfStack os := hlen
        have hio' : region.drop d.hdrSize = io := by rw [← hio]; exact (take_drop_fullA region d.hdrSize _ hlen').symm
        rcases dot11_step_pseudo ps d os hinv hser hside hlink hdisp region io hlen' hio' hnil hraw hpos with
          ⟨out', x', inner, hw', _, hp, hv, hs⟩
        rw [same out' hw'] at hp
        exact ⟨x', inner, by rw [append_replicate_zero]; exact hp, hv, hs⟩
      | eapol e =>
        obtain ⟨hname, htyped⟩ : (n = "EAPOL" ∨ n = "EAPOL*") ∧ EapolTyped e := hps
        have hlen' : region.length = e.hdrSize + sizeOfStack os := hlen
        have hio' : region.drop e.hdrSize = io := by rw [← hio]; exact (take_drop_fullA region e.hdrSize _ hlen').symm
        rcases eapol_step_pseudo ps e os hinv hside hlink htyped n hname k region io hlen' hio' hnil hraw with
          ⟨out', x', inner, hw', _, hp, hv, hs⟩
        rw [same out' hw'] at hp
        exact ⟨x', inner, hp, hv, by simpa [AnyObj.trl, Wifi.trl] using hs⟩
      | radiotap t => exact hps.elim
    | _ => exact hps.elim

end Tins.Wire.ChainAll
