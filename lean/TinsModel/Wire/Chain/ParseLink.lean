import TinsModel.Wire.Chain.PadAll
/-
  Whole-packet C03 over all covered families, the premise ("if libtins accepts a byte string …"), part 1: **every parsing
  constructor of a covered class establishes the link** to whatever it builds on the rest of the buffer (`LinkInnerA`):
  the decision a constructor takes about its inner PDU — nothing / RawPDU / the constructor of class `name` — is exactly
  what `LinkAll` demands of the parsed layer and its successor.
-/
namespace Tins.Wire.ChainAll
open Tins Tins.Wire
open Tins.Wire.L2 (layerView splitRaw stripView padOf ViewEq IsTail TailInner cxOf)

/-- classes of the covered families (every family; a Dot11 object must be of a class of the family: its name has the layout
    the object carries — what every Dot11 parsing constructor establishes) -/
def Coverable : AnyObj → Prop
  | .raw _ => False
  | .wifi (.dot11 d) => Wifi.layoutOf d.cls = some d.lay
  | _ => True

/-- outside the Wifi family the only entry name of an object is its class name -/
theorem entryName_eq {n : String} {y : AnyObj} (h : EntryName n y) (hnw : ∀ o, y ≠ .wifi o) : y.info.1 = n := by
  rcases h with h | h
  · exact h.symm
  · cases y with
    | wifi o => exact absurd rfl (hnw o)
    | _ => exact h.elim

/-- the entry names of a (covered) Wifi object are entries of the Wifi family -/
theorem wifi_entry_names (n : String) (o : Wifi.Obj) (h : EntryName n (.wifi o)) (hc : Coverable (.wifi o)) :
    n ∈ Wifi.classes := by
  cases o with
  | dot11 d =>
    rcases h with rfl | ⟨rfl, _⟩
    · exact (dot11_classes_facts d.cls (layoutOf_mem d.cls d.lay hc)).1
    · decide
  | eapol e =>
    rcases h with rfl | ⟨h | h, _⟩
    · show (if e.rsn then "RSNEAPOL" else "RC4EAPOL") ∈ Wifi.classes
      cases e.rsn <;> decide
    · subst h; decide
    · subst h; decide
  | radiotap t =>
    rcases h with rfl | h
    · simp only [AnyObj.info, Wifi.info]; decide
    · exact h.elim

/-- the entry name of an App object is its class name, one of the seven of the family -/
theorem app_entry_names (n : String) (o : App.Obj) (h : EntryName n (.app o)) : n ∈ App.classes := by
  have := entryName_eq h (fun _ e => by cases e)
  rw [← this]
  cases o <;> (simp only [AnyObj.info, App.info]; decide)

/-- the version field of a parsed IP / IPv6 header is the first nibble of the buffer it was parsed from -/
def NibOf (y : AnyObj) (pb : Bytes) : Prop :=
  match y with
  | .ip (.ip i) => i.version = L2.byteAt pb 0 / 16
  | .ip6 (.ip6 p) => p.version = L2.byteAt pb 0 / 16
  | _ => True

/-- what a parsing constructor's decision about its inner PDU says about the link to the layer that follows -/
def LinkInnerA (x : AnyObj) : Inner → Prop
  | .none => LinkAll x []
  | .raw pb => LinkAll x [.raw pb]
  | .cls name pb fb => fb = false ∧ name ≠ "RawPDU" ∧
      ∀ y r, EntryName name y → Coverable y → NibOf y pb → LinkAll x (y :: r)

/-! ### the link-layer family -/

def l2ToNetB (x : L2.Obj) (ver : Nat) (pb : Bytes) : Prop :=
  match x with
  | .eth _ => True
  | .dot1q _ => True
  | .snap _ => True
  | .sll _ => True
  | .loopback _ => True
  | .mpls m => m.bottomOfStack = 1 ∧ L2.byteAt pb 0 / 16 = ver
  | _ => False

/-- names a link-layer constructor can hand the rest of the buffer to -/
def l2Names : List String := ["IP", "IPv6", "ARP", "PPPoE", "EAPOL", "Dot1Q", "MPLS", "LLC", "STP"]

theorem etherInner_cls {t : Nat} {rest : Bytes} {name : String} {pb : Bytes} {fb : Bool}
    (h : L2.etherInner t rest = .cls name pb fb) : Tags.classOfEther t = some name ∧ pb = rest := by
  unfold L2.etherInner at h
  split at h
  · rename_i c hc
    injection h with h1 h2 h3
    subst h1; subst h2
    exact ⟨hc, rfl⟩
  · cases h

theorem ether_names {t : Nat} {name : String} (h : Tags.classOfEther t = some name) : name ∈ l2Names := by
  have := L2.classOfEther_mem t name h
  simp only [List.mem_cons, List.mem_nil_iff, or_false] at this
  rcases this with rfl | rfl | rfl | rfl | rfl | rfl | rfl <;> decide

theorem ite_cls {c : Prop} [Decidable c] {i : Inner} {name : String} {pb : Bytes} {fb : Bool}
    (h : (if c then i else Inner.none) = .cls name pb fb) : i = .cls name pb fb := by
  split at h
  · exact h
  · cases h

/-- what a link-layer constructor that hands the rest to another constructor tells about the class it chose -/
theorem l2_parse_cls_facts (cls : String) (b : Bytes) (x : L2.Obj) (name : String) (pb : Bytes) (fb : Bool)
    (hc : cls ∈ L2.classes) (h : L2.parse cls b = .ok (x, .cls name pb fb)) (hs : L2.Serializable x) :
    name ∈ l2Names ∧ (name = "IP" → l2ToNetB x 4 pb) ∧ (name = "IPv6" → l2ToNetB x 6 pb) := by
  simp only [L2.classes, List.mem_cons, List.mem_nil_iff, or_false] at hc
  rcases hc with hc | hc | hc | hc | hc | hc | hc | hc | hc | hc | hc <;> subst hc <;> simp only [L2.parse] at h <;>
    rcases Ip.map_ok h with ⟨⟨y, j⟩, hy, hr⟩ <;> injection hr with hx hi <;> subst hx <;> subst hi
  · -- EthernetII
    rw [L2.eth_parse_eq] at hy
    split at hy
    · cases hy
    · injection hy with hy; injection hy with _ hi
      have := etherInner_cls (ite_cls hi)
      exact ⟨ether_names this.1, fun _ => trivial, fun _ => trivial⟩
  · -- Dot3
    rw [L2.dot3_parse_eq] at hy
    split at hy
    · cases hy
    · injection hy with hy; injection hy with _ hi
      have := ite_cls hi
      injection this with h1 _ _
      subst h1
      exact ⟨by decide, fun h => absurd h (by decide), fun h => absurd h (by decide)⟩
  · -- LLC
    have hk : ∀ d s rest, L2.Llc.innerFor d s rest = .cls name pb fb → name = "STP" := by
      intro d s rest hh
      unfold L2.Llc.innerFor at hh
      split at hh
      · split at hh
        · injection hh with h1 _ _; exact h1.symm
        · cases hh
      · cases hh
    rw [L2.llc_parse_eq] at hy
    have hn : name = "STP" := by
      split at hy
      · cases hy
      · split at hy
        · injection hy with hy; injection hy with _ hi; exact hk _ _ _ hi
        · split at hy
          · cases hy
          · injection hy with hy; injection hy with _ hi; exact hk _ _ _ hi
    subst hn
    exact ⟨by decide, fun h => absurd h (by decide), fun h => absurd h (by decide)⟩
  · -- SNAP
    rw [L2.snap_parse_eq] at hy
    split at hy
    · cases hy
    · injection hy with hy; injection hy with _ hi
      have := etherInner_cls (ite_cls hi)
      exact ⟨ether_names this.1, fun _ => trivial, fun _ => trivial⟩
  · -- Dot1Q
    rw [L2.dot1q_parse_eq] at hy
    split at hy
    · cases hy
    · injection hy with hy; injection hy with _ hi
      have := etherInner_cls (ite_cls hi)
      exact ⟨ether_names this.1, fun _ => trivial, fun _ => trivial⟩
  · -- MPLS
    rw [L2.mpls_parse_eq] at hy
    split at hy
    · cases hy
    · injection hy with hy; injection hy with hm hi
      subst hm
      have hi2 := ite_cls hi
      unfold L2.Mpls.innerFor at hi2
      split at hi2
      · rename_i hb
        have hb1 : (L2.Mpls.ofHeader (b.take 4)).bottomOfStack = 1 := by simpa using hb
        split at hi2
        · rename_i h4
          injection hi2 with h1 h2 _
          subst h1; subst h2
          exact ⟨by decide, fun _ => ⟨hb1, by simpa using h4⟩, fun h => absurd h (by decide)⟩
        · split at hi2
          · rename_i h6
            injection hi2 with h1 h2 _
            subst h1; subst h2
            exact ⟨by decide, fun h => absurd h (by decide), fun _ => ⟨hb1, by simpa using h6⟩⟩
          · cases hi2
      · injection hi2 with h1 _ _
        subst h1
        exact ⟨by decide, fun h => absurd h (by decide), fun h => absurd h (by decide)⟩
  · -- PPPoE
    exact absurd hy (L2.pppoe_parse_no_cls b y name pb fb)
  · -- SLL
    rw [L2.sll_parse_eq] at hy
    split at hy
    · cases hy
    · injection hy with hy; injection hy with _ hi
      have := etherInner_cls (ite_cls hi)
      exact ⟨ether_names this.1, fun _ => trivial, fun _ => trivial⟩
  · -- Loopback
    rw [L2.loopback_parse_eq] at hy
    split at hy
    · cases hy
    · injection hy with hy; injection hy with _ hi
      unfold L2.Loopback.innerFor at hi
      split at hi
      · injection hi with h1 _ _; subst h1
        exact ⟨by decide, fun _ => trivial, fun _ => trivial⟩
      · split at hi
        · injection hi with h1 _ _; subst h1
          exact ⟨by decide, fun _ => trivial, fun _ => trivial⟩
        · split at hi
          · injection hi with h1 _ _; subst h1
            exact ⟨by decide, fun h => absurd h (by decide), fun h => absurd h (by decide)⟩
          · cases hi
  · exact hs.elim
  · exact hs.elim

theorem l2ToNet_of_B (x : L2.Obj) (ver v : Nat) (pb : Bytes) (h : l2ToNetB x ver pb) (hv : v = L2.byteAt pb 0 / 16) :
    l2ToNet x ver v := by
  cases x <;> first | trivial | exact h.elim | skip
  exact ⟨h.1, by rw [hv]; exact h.2⟩

/-- an LLC constructor that hands the rest to another constructor saw both SAPs 0x42 (and never stores information fields) -/
theorem llc_parse_stp (b : Bytes) (l : L2.Llc) (name : String) (pb : Bytes) (fb : Bool)
    (h : L2.Llc.parse b = .ok (l, .cls name pb fb)) : l.dsap = 0x42 ∧ l.ssap = 0x42 ∧ l.infos = [] := by
  have hinf := L2.llc_parse_infos_nil b l _ h
  have hk : ∀ d s rest, L2.Llc.innerFor d s rest = .cls name pb fb → d = 0x42 ∧ s = 0x42 := by
    intro d s rest hh
    unfold L2.Llc.innerFor at hh
    split at hh
    · split at hh
      · rename_i hc
        simpa using hc
      · cases hh
    · cases hh
  rw [L2.llc_parse_eq] at h
  split at h
  · cases h
  · split at h
    · injection h with h; injection h with he hi
      subst he
      exact ⟨(hk _ _ _ hi).1, (hk _ _ _ hi).2, hinf⟩
    · split at h
      · cases h
      · injection h with h; injection h with he hi
        subst he
        exact ⟨(hk _ _ _ hi).1, (hk _ _ _ hi).2, hinf⟩

/-- which link-layer constructors hand the rest of the buffer to ARP / `EAPOL::from_bytes` / STP -/
theorem l2_parse_cls_facts2 (cls : String) (b : Bytes) (x : L2.Obj) (name : String) (pb : Bytes) (fb : Bool)
    (hc : cls ∈ L2.classes) (h : L2.parse cls b = .ok (x, .cls name pb fb)) (hs : L2.Serializable x) :
    (name = "ARP" → l2Ether x) ∧ (name = "EAPOL" → l2Ether x) ∧ (name = "STP" → l2ToStp x) := by
  have hnoStp : ∀ t, Tags.classOfEther t = some name → name ≠ "STP" := by
    intro t ht e
    have := ether_names ht
    rw [e] at ht
    have hm := L2.classOfEther_mem t "STP" ht
    revert hm; decide
  simp only [L2.classes, List.mem_cons, List.mem_nil_iff, or_false] at hc
  rcases hc with hc | hc | hc | hc | hc | hc | hc | hc | hc | hc | hc <;> subst hc <;> simp only [L2.parse] at h <;>
    rcases Ip.map_ok h with ⟨⟨y, j⟩, hy, hr⟩ <;> injection hr with hx hi <;> subst hx <;> subst hi
  · -- EthernetII
    rw [L2.eth_parse_eq] at hy
    split at hy
    · cases hy
    · injection hy with hy; injection hy with _ hi
      have := etherInner_cls (ite_cls hi)
      exact ⟨fun _ => trivial, fun _ => trivial, fun e => absurd e (hnoStp _ this.1)⟩
  · -- Dot3
    rw [L2.dot3_parse_eq] at hy
    split at hy
    · cases hy
    · injection hy with hy; injection hy with _ hi
      have := ite_cls hi
      injection this with h1 _ _
      subst h1
      exact ⟨fun h => absurd h (by decide), fun h => absurd h (by decide), fun h => absurd h (by decide)⟩
  · -- LLC
    have := llc_parse_stp b y name pb fb hy
    have hn : name = "STP" := by
        -- the only name LLC dispatches to
        have hk : ∀ d s rest, L2.Llc.innerFor d s rest = .cls name pb fb → name = "STP" := by
          intro d s rest hh
          unfold L2.Llc.innerFor at hh
          split at hh
          · split at hh
            · injection hh with h1 _ _; exact h1.symm
            · cases hh
          · cases hh
        rw [L2.llc_parse_eq] at hy
        split at hy
        · cases hy
        · split at hy
          · injection hy with hy; injection hy with _ hi; exact hk _ _ _ hi
          · split at hy
            · cases hy
            · injection hy with hy; injection hy with _ hi; exact hk _ _ _ hi
    subst hn
    exact ⟨fun h => absurd h (by decide), fun h => absurd h (by decide), fun _ => this⟩
  · -- SNAP
    rw [L2.snap_parse_eq] at hy
    split at hy
    · cases hy
    · injection hy with hy; injection hy with _ hi
      have := etherInner_cls (ite_cls hi)
      exact ⟨fun _ => trivial, fun _ => trivial, fun e => absurd e (hnoStp _ this.1)⟩
  · -- Dot1Q
    rw [L2.dot1q_parse_eq] at hy
    split at hy
    · cases hy
    · injection hy with hy; injection hy with _ hi
      have := etherInner_cls (ite_cls hi)
      exact ⟨fun _ => trivial, fun _ => trivial, fun e => absurd e (hnoStp _ this.1)⟩
  · -- MPLS
    rw [L2.mpls_parse_eq] at hy
    split at hy
    · cases hy
    · injection hy with hy; injection hy with hm hi
      subst hm
      have hi2 := ite_cls hi
      unfold L2.Mpls.innerFor at hi2
      split at hi2
      · split at hi2
        · injection hi2 with h1 _ _
          subst h1
          exact ⟨fun h => absurd h (by decide), fun h => absurd h (by decide), fun h => absurd h (by decide)⟩
        · split at hi2
          · injection hi2 with h1 _ _
            subst h1
            exact ⟨fun h => absurd h (by decide), fun h => absurd h (by decide), fun h => absurd h (by decide)⟩
          · cases hi2
      · injection hi2 with h1 _ _
        subst h1
        exact ⟨fun h => absurd h (by decide), fun h => absurd h (by decide), fun h => absurd h (by decide)⟩
  · -- PPPoE
    exact absurd hy (L2.pppoe_parse_no_cls b y name pb fb)
  · -- SLL
    rw [L2.sll_parse_eq] at hy
    split at hy
    · cases hy
    · injection hy with hy; injection hy with _ hi
      have := etherInner_cls (ite_cls hi)
      exact ⟨fun _ => trivial, fun _ => trivial, fun e => absurd e (hnoStp _ this.1)⟩
  · -- Loopback
    rw [L2.loopback_parse_eq] at hy
    split at hy
    · cases hy
    · injection hy with hy; injection hy with _ hi
      unfold L2.Loopback.innerFor at hi
      split at hi
      · injection hi with h1 _ _; subst h1
        exact ⟨fun h => absurd h (by decide), fun h => absurd h (by decide), fun h => absurd h (by decide)⟩
      · split at hi
        · injection hi with h1 _ _; subst h1
          exact ⟨fun h => absurd h (by decide), fun h => absurd h (by decide), fun h => absurd h (by decide)⟩
        · split at hi
          · injection hi with h1 _ _; subst h1
            exact ⟨fun h => absurd h (by decide), fun h => absurd h (by decide), fun h => absurd h (by decide)⟩
          · cases hi
  · exact hs.elim
  · exact hs.elim

/-- no entry of the Wifi family other than `EAPOL`, and no class of the App family other than ARP and STP, is a name a
    link-layer constructor dispatches to -/
theorem l2Names_wifi : ∀ c ∈ Wifi.classes, c ∈ l2Names → c = "EAPOL" := by decide
theorem l2Names_app : ∀ c ∈ App.classes, c ∈ l2Names → c = "ARP" ∨ c = "STP" := by decide

/-- **every parsing constructor of the link-layer family establishes the link**, also to IP / IPv6, ARP, STP and the EAPOL classes -/
theorem l2_parse_linkA (cls : String) (b : Bytes) (x : L2.Obj) (i : Inner) (hc : cls ∈ L2.classes)
    (h : L2.parse cls b = .ok (x, i)) (hs : L2.Serializable x) : LinkInnerA (.l2 x) i := by
  have hl := (L2.l2_parse_link cls b x i hc h hs).1
  cases i with
  | none => exact hl
  | raw pb => exact hl
  | cls name pb fb =>
    obtain ⟨hfb, hnr, hlk⟩ := hl
    have hf := l2_parse_cls_facts cls b x name pb fb hc h hs
    have hf2 := l2_parse_cls_facts2 cls b x name pb fb hc h hs
    refine ⟨hfb, hnr, ?_⟩
    intro y r hy hcov hnib
    have hmem := hf.1
    cases y with
    | raw p => exact hcov.elim
    | app o =>
      have hn := entryName_eq hy (fun _ e => by cases e)
      rcases l2Names_app name (app_entry_names name o hy) hmem with rfl | rfl
      · cases o <;> first | exact hf2.1 rfl | (simp only [AnyObj.info, App.info] at hn; exact absurd hn (by decide))
      · cases o <;> first | exact hf2.2.2 rfl | (simp only [AnyObj.info, App.info] at hn; exact absurd hn (by decide))
    | wifi o =>
      have hne := l2Names_wifi name (wifi_entry_names name o hy hcov) hmem
      subst hne
      cases o with
      | eapol e =>
        rcases hy with hy | hy
        · exfalso
          have : (AnyObj.wifi (.eapol e)).info.1 = if e.rsn then "RSNEAPOL" else "RC4EAPOL" := rfl
          rw [this] at hy
          cases hr : e.rsn <;> simp [hr] at hy
        · exact ⟨hf2.2.1 rfl, hy.2⟩
      | dot11 d =>
        exfalso
        rcases hy with hy | hy
        · have hm := layoutOf_mem d.cls d.lay hcov
          have : d.cls = "EAPOL" := hy.symm
          rw [this] at hm
          revert hm; decide
        · exact absurd hy.1 (by decide)
      | radiotap t =>
        exfalso
        rcases hy with hy | hy
        · simp only [AnyObj.info, Wifi.info] at hy; exact absurd hy (by decide)
        · exact hy.elim
    | l2 z => exact hlk z r (entryName_eq hy (fun _ e => by cases e))
    | ip o =>
      have hy := entryName_eq hy (fun _ e => by cases e)
      cases o with
      | ip i4 =>
        have hn : name = "IP" := hy.symm
        exact l2ToNet_of_B x 4 i4.version pb (hf.2.1 hn) hnib
      | ah a => have hn : name = "IPSecAH" := hy.symm; subst hn; exact absurd hmem (by decide)
      | esp e => have hn : name = "IPSecESP" := hy.symm; subst hn; exact absurd hmem (by decide)
    | ip6 o =>
      have hy := entryName_eq hy (fun _ e => by cases e)
      cases o with
      | ip6 p =>
        have hn : name = "IPv6" := hy.symm
        exact l2ToNet_of_B x 6 p.version pb (hf.2.2 hn) hnib
    | tr o =>
      have hy := entryName_eq hy (fun _ e => by cases e)
      cases o with
      | udp u => have hn : name = "UDP" := hy.symm; subst hn; exact absurd hmem (by decide)
      | tcp t => have hn : name = "TCP" := hy.symm; subst hn; exact absurd hmem (by decide)
    | icmp o =>
      have hy := entryName_eq hy (fun _ e => by cases e)
      cases o with
      | icmp p => have hn : name = "ICMP" := hy.symm; subst hn; exact absurd hmem (by decide)
      | icmp6 p => have hn : name = "ICMPv6" := hy.symm; subst hn; exact absurd hmem (by decide)

end Tins.Wire.ChainAll
