import TinsModel.Wire.Chain.ParseLinkWifi
/-
  **Whole-packet C03 over all covered families, as stated** — "if libtins accepts a byte string, parsing the serialization of
  the parsed packet yields the same stack of layers with the same field values, options and payload; only derived fields may
  differ" (`c03_all`).

  `StackableAll` is not an assumption about parsed packets: `parse_stackable_all` shows that whatever the nested parsing
  constructors build is representable, **except** for what `Residual` names explicitly — the accepted packets the statement
  does not hold for, or that the model does not cover:
    * the two capture pseudo-headers PPI / PKTAP (not serializable);
    * an IP datagram whose serialization does not fit the 16-bit total length (`hdr + size() ≥ 65536`: parsed with
      `tot_len = 0`, the TSO convention, from a buffer of 64 KiB or more), likewise IPv6 beyond a 16-bit payload length
      (jumbograms), likewise an RC4EAPOL / RSNEAPOL frame beyond the 16-bit EAPOL length (`size() − 4 ≥ 65536`: only reachable
      through the class-name constructors; `EAPOL::from_bytes` cuts the buffer at that length);
    * ICMP / ICMPv6 with an RFC 4884 extension structure, or an error message whose quote is not ghost-free: known
      findings KF-C03-Icmp-3/4 (the re-serialization pads the quote to 128 bytes and derives the length field, which moves
      where the re-parser looks for a structure); for ICMPv6 additionally the MLD / neighbour-discovery conditions of
      `icmp6_reparse_plain` (`BodyWire`, `OptsWire`, an MLDv1 query without MLDv2 members) are kept as hypotheses — the
      family does not export the lemma that parsing establishes them.
  Nothing of the App family (ARP, STP, VXLAN, RTP, BootP, DHCP, DHCPv6) and — besides the EAPOL length bound — nothing of the
  Wifi family (RadioTap, the 21 Dot11 classes and `Dot11::from_bytes`, RC4EAPOL, RSNEAPOL and `EAPOL::from_bytes`) is excluded.
  (`EAPOL::from_bytes` returning a null pointer for an unknown key-descriptor type is not an accepted packet in the model:
  the chain parser answers `unmodelled EAPOL:null`, never `.ok` — `eapolNull_unmodelled`.)
  Everything else is established by the constructors themselves: the invariants and serializability (`parsed_layers_good`),
  wire-normal IP options, canonical TCP options, aligned IPv6 extension headers, a representable AH ICV, canonical DHCP /
  DHCPv6 / Dot11 tagged options, RTP's `Canon`, BootP's 64-byte vendor area, the RadioTap header and flags condition
  (`radiotap_parse_facts`), the EAPOL key bound, the entry name under which the re-parse reaches the same class
  (`EntryName`: `Dot11*`, `EAPOL`, `EAPOL*` included), and the link of every layer to its successor (`*_parse_linkA`,
  `app_parse_facts`, `dot11_parse_facts`, `eapol_parse_facts_all`) — IP fragments (payload kept as RawPDU) included.

  `IP::prepare_for_serialize()` replaces a source address 0.0.0.0 of a top-level IP by the address of the interface that
  routes to the destination; the wire model has no parameter for the host's routing table, so `c03_all` excludes such
  packets explicitly (`Ip.envDependentTop`; known finding KF-C03-Ip-4).
-/
namespace Tins.Wire.ChainAll
open Tins Tins.Wire
open Tins.Wire.L2 (layerView splitRaw stripView padOf ViewEq IsTail TailInner cxOf)

/-- the part of representability the parsing constructors do not establish by themselves (see the file header) -/
def Residual (x : AnyObj) (r : List AnyObj) : Prop :=
  match x with
  | .raw _ => True
  | .l2 z => L2.Serializable z                                  -- not PPI / PKTAP
  | .ip (.ip o) => o.hdr + sizeOfStack r < 65536                 -- fits the 16-bit total length
  | .ip (.ah _) => True
  | .ip (.esp _) => True
  | .ip6 (.ip6 p) => p.hdr + sizeOfStack r - 40 < 65536          -- fits the 16-bit payload length
  | .tr _ => True
  | .icmp (.icmp p) => p.ext = Icmp.ExtS.default ∧               -- no extension structure; error messages: ghost-free quote
      (Icmp.Icmp4.extAllowed p.type = true →
        Icmp.ghostFree (p.lengthFor (Icmp.Icmp4.innerOf (sizeOfStack r)) % 256 * 4) (tailBytes r))
  | .icmp (.icmp6 p) => p.ext = Icmp.ExtS.default ∧
      (p.type = 130 → p.useMldv2 = false → p.mlqm = Icmp.Icmp6.zeros 2 ∧ p.sources = []) ∧
      p.BodyWire (p.unBytes (Icmp.Icmp4.innerOf (sizeOfStack r))) (!(Icmp.Icmp6.optsBytes p.opts ++ tailBytes r).isEmpty) ∧
      p.OptsWire (tailBytes r) ∧
      (Icmp.Icmp6.extAllowed p.type = true →
        Icmp.ghostFree (Icmp.byteAt (p.unBytes (Icmp.Icmp4.innerOf (sizeOfStack r))) 0 * 8) (tailBytes r))
  | .app _ => True                                              -- ARP, STP, VXLAN, RTP, BootP, DHCP, DHCPv6: nothing excluded
  | .wifi (.eapol e) => e.hdrSize + sizeOfStack r < 65540       -- fits the 16-bit EAPOL length field
  | .wifi _ => True                                             -- RadioTap, the Dot11 classes: nothing excluded

def ResidualAll : List AnyObj → Prop
  | [] => True
  | x :: r => Residual x r ∧ ResidualAll r

/-- what parsing one layer establishes -/
structure FirstOK (cls : String) (b : Bytes) (o : AnyObj) (inner : Inner) : Prop where
  inv : registryPreds.Inv o
  ser : registryPreds.Ser o
  side : ∀ r, Residual o r → (inner = .none → r = []) → Side o r
  link : LinkInnerA o inner
  name : EntryName cls o
  nib : NibOf o b
  cov : Coverable o

theorem getD_take_zero (b : Bytes) (n : Nat) (hn : 0 < n) : (b.take n).getD 0 0 = b.getD 0 0 := by
  cases b with
  | nil => simp
  | cons a t =>
    cases n with
    | zero => omega
    | succ m => rfl

theorem ip4_parse_version (b : Bytes) (o : Ip.Ip4) (i : Inner) (h : Ip.Ip4.parse b = .ok (o, i)) :
    o.version = L2.byteAt b 0 / 16 := by
  rcases Ip.ip4_parse_cases b with h' | ⟨opts, _, _, _, _, _, _, h'⟩
  · rw [h'] at h; cases h
  · rw [h'] at h
    have : (Ip.Ip4.setOpts (Ip.Ip4.ofHeader (b.take 20)) opts).version = L2.byteAt b 0 / 16 := by
      show ((b.take 20).getD 0 0).toNat / 16 = (b.getD 0 0).toNat / 16
      rw [getD_take_zero b 20 (by omega)]
    split at h <;> (injection h with h; injection h with ho _; subst ho; exact this)

theorem ip6_parse_version (b : Bytes) (p : Ip6.Ipv6) (i : Inner) (h : Ip6.Ipv6.parse b = .ok (p, i)) :
    p.version = L2.byteAt b 0 / 16 := by
  rw [Ip6.parse_unfold] at h
  split at h
  · cases h
  · dsimp only at h
    rcases bind_ok_inv h with ⟨⟨hs, cur, inner⟩, _, h⟩
    injection h with h; injection h with hp _
    subst hp
    show ((b.take 40).getD 0 0).toNat / 16 = (b.getD 0 0).toNat / 16
    rw [getD_take_zero b 40 (by omega)]

theorem readU8_lt (c c' : Cursor) (t : Nat) (h : c.readU8 = .ok (t, c')) : t < 256 := by
  unfold Cursor.readU8 Cursor.readBE at h
  rcases bind_ok_inv h with ⟨⟨bs, c1⟩, hr, h2⟩
  injection h2 with h2
  injection h2 with ht _
  subst ht
  have hl : bs.length ≤ 1 := by
    unfold Cursor.read at hr
    split at hr
    · cases hr
    · split at hr
      · cases hr
      · injection hr with hr; injection hr with hb _
        rw [← hb]; simp only [List.length_take]; omega
  exact Ip.beNat_lt_of_length bs 1 hl

theorem finishRaw_fst {α} (site : String) (p q : α) (c : Cursor) (i : Inner)
    (h : Icmp.finishRaw site p c = .ok (q, i)) : q = p := by
  unfold Icmp.finishRaw at h
  split at h
  · rcases bind_ok_inv h with ⟨rest, _, h2⟩
    injection h2 with h2; injection h2 with h3 _; exact h3.symm
  · injection h with h; injection h with h3 _; exact h3.symm

/-- type and code of a parsed ICMP message are bytes -/
theorem icmp_parse_small (b : Bytes) (p : Icmp.Icmp4) (i : Inner) (h : Icmp.Icmp4.parse b = .ok (p, i)) : p.Small := by
  unfold Icmp.Icmp4.parse at h
  rcases bind_ok_inv h with ⟨⟨q, c⟩, hh, h2⟩
  have hq := finishRaw_fst _ _ _ _ _ h2
  subst hq
  unfold Icmp.Icmp4.parseHead at hh
  rcases bind_ok_inv hh with ⟨⟨t, c1⟩, h1, hh⟩
  rcases bind_ok_inv hh with ⟨⟨code, c2⟩, h2', hh⟩
  rcases bind_ok_inv hh with ⟨⟨ck, c3⟩, _, hh⟩
  rcases bind_ok_inv hh with ⟨⟨un, c4⟩, _, hh⟩
  rcases bind_ok_inv hh with ⟨⟨⟨orig, recv, trans⟩, c5⟩, _, hh⟩
  rcases bind_ok_inv hh with ⟨⟨ext, c6⟩, _, hh⟩
  injection hh with hh; injection hh with hq _
  subst hq
  exact ⟨readU8_lt _ _ _ h1, readU8_lt _ _ _ h2'⟩

theorem icmp6_parse_small (b : Bytes) (p : Icmp.Icmp6) (i : Inner) (h : Icmp.Icmp6.parse b = .ok (p, i)) : p.Small := by
  unfold Icmp.Icmp6.parse at h
  rcases bind_ok_inv h with ⟨⟨q, c⟩, hh, h2⟩
  have hq := finishRaw_fst _ _ _ _ _ h2
  subst hq
  unfold Icmp.Icmp6.parseHead at hh
  rcases bind_ok_inv hh with ⟨⟨t, c1⟩, h1, hh⟩
  rcases bind_ok_inv hh with ⟨⟨code, c2⟩, h2', hh⟩
  rcases bind_ok_inv hh with ⟨⟨ck, c3⟩, _, hh⟩
  rcases bind_ok_inv hh with ⟨⟨un, c4⟩, _, hh⟩
  rcases bind_ok_inv hh with ⟨⟨body, c5⟩, _, hh⟩
  rcases bind_ok_inv hh with ⟨⟨opts, c6⟩, _, hh⟩
  rcases bind_ok_inv hh with ⟨⟨ext, c7⟩, _, hh⟩
  injection hh with hh; injection hh with hq _
  subst hq
  exact ⟨readU8_lt _ _ _ h1, readU8_lt _ _ _ h2'⟩

/-- **parsing one layer of any class establishes everything `LayerOK` asks for, up to `Residual`** -/
theorem parseOne_firstOK (cls : String) (b : Bytes) (o : AnyObj) (inner : Inner) (hb : b.length < 4294967296)
    (hnr : isRaw o = false) (hl2 : ∀ z, o = .l2 z → L2.Serializable z) (h : parseOne cls b = .ok (o, inner)) :
    FirstOK cls b o inner := by
  have hgood := parseOne_good registryParseFacts cls b o inner hb h
  rcases parseOne_cases cls b o inner h with ⟨_, ho, _⟩ | ⟨x, hc, hx, ho⟩ | ⟨x, hc, hx, ho⟩ | ⟨x, hc, hx, ho⟩ | ⟨x, hc, hx, ho⟩ |
    ⟨x, hc, hx, ho⟩ | ⟨x, hc, hx, ho⟩ | ⟨x, hc, hx, ho⟩ <;> subst ho
  · cases hnr
  · -- L2
    have hs := hl2 x rfl
    have hlk := L2.l2_parse_link cls b x inner hc hx hs
    exact ⟨hgood.1, hs, fun _ _ _ => trivial, l2_parse_linkA cls b x inner hc hx hs, .inl hlk.2.1.symm, trivial, trivial⟩
  · -- Ip
    have hser := Ip.ip_parse_serializable cls b x inner hc hx
    simp only [Ip.classes, List.mem_cons, List.mem_nil_iff, or_false] at hc
    rcases hc with hc | hc | hc <;> subst hc <;> simp only [Ip.parse] at hx <;>
      rcases Ip.map_ok hx with ⟨⟨y, j⟩, hy, hr⟩ <;> injection hr with e1 e2 <;> subst e1 <;> subst e2
    · exact ⟨hgood.1, hser, fun r hr _ => ⟨(Ip.ip4_parse_inv b y j hy).2.1, hr⟩, ip4_parse_linkA b y j hy, .inl rfl,
        ip4_parse_version b y j hy, trivial⟩
    · exact ⟨hgood.1, hser, fun _ _ _ => (Ip.ah_parse_inv b y j hy).2, ah_parse_linkA b y j hy, .inl rfl, trivial, trivial⟩
    · exact ⟨hgood.1, hser, fun _ _ _ => trivial, esp_parse_linkA b y j hy, .inl rfl, trivial, trivial⟩
  · -- Ip6
    simp only [Ip6.classes, List.mem_cons, List.mem_nil_iff, or_false] at hc
    subst hc
    simp only [Ip6.parse] at hx
    rcases Ip.map_ok hx with ⟨⟨y, j⟩, hy, hr⟩
    injection hr with e1 e2; subst e1; subst e2
    exact ⟨hgood.1, trivial, fun r hr _ => ⟨(Ip6.ipv6_parse_inv b y j hy).2, hr⟩, ip6_parse_linkA b y j hy, .inl rfl,
      ip6_parse_version b y j hy, trivial⟩
  · -- Icmp
    have hser := Icmp.icmp_family_parse_serializable cls b x inner hc hb hx
    simp only [Icmp.classes, List.mem_cons, List.mem_nil_iff, or_false] at hc
    rcases hc with hc | hc <;> subst hc <;> simp only [Icmp.parse] at hx <;>
      rcases Ip.map_ok hx with ⟨⟨y, j⟩, hy, hr⟩ <;> injection hr with e1 e2 <;> subst e1 <;> subst e2
    · exact ⟨hgood.1, hser, fun _ hr _ => ⟨icmp_parse_small b y j hy, hr.1, hr.2⟩, icmp_parse_linkA b y j hy, .inl rfl, trivial,
        trivial⟩
    · exact ⟨hgood.1, hser, fun _ hr _ => ⟨icmp6_parse_small b y j hy, hr.1, hr.2⟩, icmp6_parse_linkA b y j hy, .inl rfl, trivial,
        trivial⟩
  · -- Transport
    have hser := Transport.transport_parse_serializable cls b x inner hc hx
    simp only [Transport.classes, List.mem_cons, List.mem_nil_iff, or_false] at hc
    rcases hc with hc | hc <;> subst hc <;> simp only [Transport.parse] at hx <;>
      rcases Ip.map_ok hx with ⟨⟨y, j⟩, hy, hr⟩ <;> injection hr with e1 e2 <;> subst e1 <;> subst e2
    · exact ⟨hgood.1, hser, fun _ _ _ => trivial, udp_parse_linkA b y j hy, .inl rfl, trivial, trivial⟩
    · exact ⟨hgood.1, hser, fun _ _ _ => (Transport.tcp_parse_ok b y j hy).2.1, tcp_parse_linkA b y j hy, .inl rfl, trivial,
        trivial⟩
  · -- App
    have hser := App.app_parse_serializable cls b x inner hc hb hx
    obtain ⟨hside, hlink, hname⟩ := app_parse_facts cls b x inner hc hx
    refine ⟨hgood.1, hser, fun r _ _ => hside r, hlink, .inl hname.symm, ?_, ?_⟩
    · cases x <;> trivial
    · cases x <;> trivial
  · -- Wifi
    have hser := Wifi.wifi_parse_serializable cls b x inner hc hb hx
    cases x with
    | dot11 d =>
      obtain ⟨hside, hlink, hname⟩ := dot11_parse_facts cls b d inner hc hx
      exact ⟨hgood.1, hser, fun r _ _ => hside r, hlink, hname, trivial, (hside []).2⟩
    | eapol e =>
      obtain ⟨hk, hsh, hlink, hname⟩ := eapol_parse_facts_all cls b e inner hx
      exact ⟨hgood.1, hser, fun r hr hin => ⟨hk, fun hke => (hsh hke).imp id hin, hr⟩, hlink, hname, trivial, trivial⟩
    | radiotap t =>
      obtain ⟨hcls, hp⟩ := wifi_parse_radiotap cls b t inner hx
      obtain ⟨hside, hlink⟩ := radiotap_parse_facts b t inner hp
      exact ⟨hgood.1, hser, fun _ _ _ => hside, hlink, .inl hcls, trivial, trivial⟩

/-- the first layer of a parsed chain is of a class the entry `cls` reaches (`EntryName`: the class itself, or the one a
    factory entry selected from the bytes), an IP / IPv6 header's version is the first nibble of the buffer, and the layer
    is of a class of the covered families -/
def HeadOfA (cls : String) (b : Bytes) (h : AnyObj) : Prop := EntryName cls h ∧ NibOf h b ∧ (isRaw h = false → Coverable h)

/-- **what libtins accepts is representable** (up to `Residual`): a chain the nested parsing constructors build is
    `StackableAll` -/
theorem parse_stackable_all : ∀ (fuel : Nat) (cls : String) (b : Bytes) (os : List AnyObj), b.length < 4294967296 →
    parseChain fuel cls b = .ok os → ResidualAll os →
    StackableAll os ∧ ∃ h t, os = h :: t ∧ HeadOfA cls b h := by
  intro fuel
  induction fuel with
  | zero => intro cls b os _ h; simp [parseChain] at h
  | succ f ih =>
    intro cls b os hb h hres
    unfold parseChain at h
    by_cases hm : modelled cls = true
    · simp only [hm, Bool.not_true, Bool.false_eq_true, if_false] at h
      cases hp : parseOne cls b with
      | throw e => rw [hp] at h; cases h
      | fault s => rw [hp] at h; cases h
      | ok r =>
        obtain ⟨o, inner⟩ := r
        rw [hp] at h
        simp only at h
        -- the first layer, once we know what follows it
        have hfirst : ∀ rest, os = o :: rest → (inner = .none → rest = []) →
            (isRaw o = false ∧ FirstOK cls b o inner ∧ Side o rest) ∨ (∃ p, o = .raw p ∧ cls = "RawPDU" ∧ inner = .none) := by
          intro rest hos hin
          subst hos
          have hr : Residual o rest := hres.1
          cases ho : isRaw o with
          | true =>
            cases o with
            | raw p => exact .inr ⟨p, rfl, L2.parseOne_raw_inv cls b p inner hp⟩
            | _ => cases ho
          | false =>
            have hf := parseOne_firstOK cls b o inner hb ho (fun z e => by subst e; exact hr) hp
            exact .inl ⟨rfl, hf, hf.side rest hr hin⟩
        cases inner with
        | none =>
          injection h with h
          subst h
          rcases hfirst [] rfl (fun _ => rfl) with ⟨hx, hf, hside⟩ | ⟨p, rfl, hc, _⟩
          · exact ⟨(stackableAll_cons hx).mpr ⟨⟨hf.inv, hf.ser, hside, hf.link⟩, trivial⟩, _, _, rfl, hf.name, hf.nib,
              fun _ => hf.cov⟩
          · exact ⟨rfl, _, _, rfl, .inl hc, trivial, fun h => by cases h⟩
        | raw pb =>
          injection h with h
          subst h
          rcases hfirst [.raw pb] rfl (fun h => by cases h) with ⟨hx, hf, hside⟩ | ⟨p, rfl, _, hi⟩
          · exact ⟨(stackableAll_cons hx).mpr ⟨⟨hf.inv, hf.ser, hside, hf.link⟩, rfl⟩, _, _, rfl, hf.name, hf.nib,
              fun _ => hf.cov⟩
          · cases hi
        | cls name pb fb =>
          simp only at h
          have hlt := registry_classesSafe.consumes cls b o name pb fb hp
          cases hrec : parseChain f name pb with
          | ok ls =>
            rw [hrec] at h
            injection h with h
            subst h
            rcases hfirst ls rfl (fun h => by cases h) with ⟨hx, hf, hside⟩ | ⟨p, rfl, _, hi⟩
            · rcases ih name pb ls (by omega) hrec hres.2 with ⟨hst, hd, t, rfl, hhd⟩
              obtain ⟨_, hnr, hlk⟩ := hf.link
              have hdraw : isRaw hd = false := by
                cases hd with
                | raw p =>
                  exfalso
                  rcases hhd.1 with hh | hh
                  · exact hnr hh
                  · exact hh.elim
                | _ => rfl
              exact ⟨(stackableAll_cons hx).mpr ⟨⟨hf.inv, hf.ser, hside, hlk hd t hhd.1 (hhd.2.2 hdraw) hhd.2.1⟩, hst⟩, _, _, rfl,
                hf.name, hf.nib, fun _ => hf.cov⟩
            · cases hi
          | unmodelled c => rw [hrec] at h; cases h
          | fault s => rw [hrec] at h; cases h
          | throw e =>
            rw [hrec] at h
            simp only at h
            split at h
            · rename_i hfb
              injection h with h
              subst h
              rcases hfirst [.raw pb] rfl (fun h => by cases h) with ⟨hx, hf, _⟩ | ⟨p, rfl, _, hi⟩
              · rw [hf.link.1] at hfb
                simp at hfb
              · cases hi
            · cases h
    · have : modelled cls = false := by simpa using hm
      simp [this] at h

/-- **Property C03 over all covered families, as stated**: if libtins accepts a byte string `b` (entry class `cls`, length
    a `uint32_t` can hold) and the parsed packet `os` is none of the explicitly excluded ones (`ResidualAll`; a top-level IP
    with source 0.0.0.0 is outside the model), then `serialize()` succeeds, parsing the serialization succeeds and yields
    the same stack of layers with the same field values, options and payload bytes — only the fields libtins derives
    (lengths, checksums, next-protocol tags above a recognised payload) may differ, and at most `padAll os` bytes of
    minimum-frame padding follow the payload (none when the stack goes through IP / IPv6: `padAll_zero_of_net`). -/
theorem c03_all (cls : String) (b : Bytes) (os : List AnyObj) (hb : b.length < 4294967296)
    (hparse : parseChain (b.length + 2) cls b = .ok os) (hres : ResidualAll os)
    (_henv : ∀ o t, os = .ip o :: t → Ip.envDependentTop o = false) :
    ∃ out, serializeObjs os = .ok out ∧
      ∃ os', parseChain (out.length + 2) cls out = .ok os' ∧ ViewEqAll (padAll os) os os' := by
  rcases parse_stackable_all _ cls b os hb hparse hres with ⟨hst, h, t, rfl, hhd⟩
  rcases stackableAll_serializes _ hst with ⟨out, hser, _⟩
  rcases chain_reparse_all_named cls h t hhd.1 hst out hser with ⟨os', hp, hv⟩
  exact ⟨out, hser, os', hp, hv⟩

/-- … and through IP / IPv6 the payload comes back byte for byte, whatever minimum-frame padding the link layer added -/
theorem c03_all_net (cls : String) (b : Bytes) (os : List AnyObj) (hb : b.length < 4294967296)
    (hparse : parseChain (b.length + 2) cls b = .ok os) (hres : ResidualAll os)
    (henv : ∀ o t, os = .ip o :: t → Ip.envDependentTop o = false) (hnet : ∃ x ∈ os, isNet x = true) :
    ∃ out, serializeObjs os = .ok out ∧
      ∃ os', parseChain (out.length + 2) cls out = .ok os' ∧ ViewEqAll 0 os os' ∧ (splitRaw os').2 = (splitRaw os).2 := by
  rcases c03_all cls b os hb hparse hres henv with ⟨out, hser, os', hp, hv⟩
  have hst := (parse_stackable_all _ cls b os hb hparse hres).1
  rw [padAll_zero_of_net os hst hnet] at hv
  refine ⟨out, hser, os', hp, hv, ?_⟩
  rcases hv.2 with ⟨j, hj, he⟩
  have : j = 0 := by omega
  subst this
  simpa using he

end Tins.Wire.ChainAll
