import TinsModel.Wire.Chain.StepApp
/-
  Whole-packet C03 over all covered families, part 3e: the one-layer steps of the Wifi family.

    * `eapol_step` / `eapol_step_pseudo`   RC4EAPOL / RSNEAPOL under their own name, and through `EAPOL::from_bytes` (entries
                                           `EAPOL` — what EtherType 0x888e dispatches to — and `EAPOL*`): the factory reads the
                                           length the writer derived (`size() − 4`) and cuts the buffer there, so the minimum-frame
                                           padding of an enclosing EthernetII never reaches the key frame;
    * `dot11_step` / `dot11_step_pseudo`   every Dot11 class under its own name and through `Dot11::from_bytes` (entry `Dot11*`):
                                           management / control frames end the stack, Dot11Data / Dot11QoSData hand their body to
                                           SNAP (or keep it as a RawPDU when the protected bit is set);
    * `radiotap_reparse`, `radiotap_step`  RadioTap: `it_len` derived, the present-word walk repeated on the same options, the FCS
                                           trailer (CRC-32 of the inner bytes) written behind the frame and stripped again by the
                                           parsing constructor.
-/
namespace Tins.Wire.ChainAll
open Tins Tins.Wire Tins.Wire.Wifi
open Tins.Wire.L2 (layerView splitRaw stripView padOf ViewEq IsTail TailInner cxOf)

/-! ### the registry's dispatch on the entries of the family -/

/-- no entry of the Wifi family is an entry of another family -/
theorem wifi_classes_disjoint : ∀ c ∈ Wifi.classes, (c == "RawPDU") = false ∧ L2.classes.contains c = false ∧
    Ip.classes.contains c = false ∧ Ip6.classes.contains c = false ∧ Icmp.classes.contains c = false ∧
    Transport.classes.contains c = false ∧ App.classes.contains c = false ∧ Wifi.classes.contains c = true := by decide

theorem parseOne_wifi (cls : String) (b : Bytes) (o : Wifi.Obj) (i : Inner) (hc : cls ∈ Wifi.classes)
    (h : Wifi.parse cls b = .ok (o, i)) : parseOne cls b = .ok (.wifi o, i) := by
  obtain ⟨h0, h1, h2, h3, h4, h5, h6, h7⟩ := wifi_classes_disjoint cls hc
  simp only [parseOne, h0, h1, h2, h3, h4, h5, h6, h7, Bool.false_eq_true, if_false, if_true, h, bind, Out.bind, pure]

/-! ### struct members outside an assigned member keep their value -/

theorem patch_read_lo (bs v : Bytes) (i j n : Nat) (h : j + n ≤ i) :
    ((Dot11.patch bs i v).drop j).take n = (bs.drop j).take n := by
  unfold Dot11.patch
  split
  · rename_i hl
    have hA : (bs.take i).length = i := by simp only [List.length_take]; omega
    rw [List.append_assoc, List.drop_append_of_le_length (by omega),
      List.take_append_of_le_length (by simp only [List.length_drop, hA]; omega), List.drop_take, List.take_take]
    congr 1; omega
  · rfl

theorem patch_read_hi (bs v : Bytes) (i j n : Nat) (h : i + v.length ≤ j) :
    ((Dot11.patch bs i v).drop j).take n = (bs.drop j).take n := by
  unfold Dot11.patch
  split
  · rename_i hl
    have hA : (bs.take i ++ v).length = i + v.length := by simp only [List.length_append, List.length_take]; omega
    rw [List.drop_append, List.drop_eq_nil_of_le (by omega), List.nil_append, hA, List.drop_drop]
    congr 2; omega
  · rfl

theorem byteAt_eq_read (bs : Bytes) (j : Nat) : Wifi.byteAt bs j = Wifi.byteAt ((bs.drop j).take 1) 0 := by
  simp [Wifi.byteAt, List.getD_eq_getElem?_getD, List.getElem?_take, List.getElem?_drop]

theorem patch_byteAt (bs v : Bytes) (i j : Nat) (h : j < i ∨ i + v.length ≤ j) :
    Wifi.byteAt (Dot11.patch bs i v) j = Wifi.byteAt bs j := by
  rw [byteAt_eq_read, byteAt_eq_read bs]
  rcases h with h | h
  · rw [patch_read_lo bs v i j 1 (by omega)]
  · rw [patch_read_hi bs v i j 1 h]

/-! ### RC4EAPOL / RSNEAPOL -/

/-- what `EAPOL::write_serialization` leaves in its region: the header with the length it derives (`total_sz − 4`), the
    sub-header with the key length `write_body` derives, the key; the bytes behind untouched -/
theorem eapol_write_eq (e : Eapol) (hw : e.WF) (region : Bytes) (hr : e.hdrSize ≤ region.length) :
    e.write region = .ok (Eapol.hdrFor e region.length ++ (Eapol.subForWrite e ++ (e.key ++ region.drop e.hdrSize))) := by
  simp only [Eapol.hdrSize] at hr
  unfold Eapol.hdrFor
  generalize hh : Dot11.patch e.hdr 2 (OutCursor.beBytes 2 ((region.length + 4294967296 - 4) % 4294967296)) = hdr
  have hhl : hdr.length = 5 := by
    rw [← hh, Dot11.patch_length]; exact hw.hdr
  have hsl := Eapol.subForWrite_length e hw
  have hi : (OutCursor.ofRegion region).Inv := by simp [OutCursor.ofRegion, OutCursor.Inv]
  have hall := Dot11.writeAll_spec [hdr, Eapol.subForWrite e, e.key] (OutCursor.ofRegion region) hi
    (by simp only [List.flatten_cons, List.flatten_nil, List.length_append, List.length_nil, hhl, hsl, OutCursor.ofRegion]; omega)
  simp only [Eapol.write, hh, hall, bind, Out.bind]
  simp only [OutCursor.buffer, OutCursor.ofRegion, List.nil_append, List.flatten_cons,
    List.flatten_nil, List.append_nil, List.length_append, hhl, hsl]
  have hlen : ((hdr ++ (Eapol.subForWrite e ++ e.key)) ++ List.drop (5 + (Eapol.subLen e.rsn + e.key.length)) region).length
      = region.length := by
    simp only [List.length_append, List.length_drop, hhl, hsl]; omega
  rw [poke_eq "EAPOL::write_serialization memcpy"
    ((hdr ++ (Eapol.subForWrite e ++ e.key)) ++ List.drop (5 + (Eapol.subLen e.rsn + e.key.length)) region) hdr 0
    (by rw [hlen, hhl]; omega)]
  congr 1
  simp only [List.take_zero, List.nil_append, Nat.zero_add, hhl, List.append_assoc]
  rw [← hhl, List.drop_left]
  simp only [Eapol.hdrSize, hhl]
  congr 4
  omega

/-- the members `write_body` does not touch -/
theorem subForWrite_read (e : Eapol) (j n : Nat) (h : if e.rsn then j + n ≤ 92 else 2 ≤ j) :
    ((Eapol.subForWrite e).drop j).take n = (e.sub.drop j).take n := by
  unfold Eapol.subForWrite
  split
  · rfl
  · cases hr : e.rsn with
    | false =>
      rw [hr] at h
      simp only [Bool.not_false, if_true]
      exact patch_read_hi _ _ 0 j n (by simp only [OutCursor.beBytes_length]; simpa using h)
    | true =>
      rw [hr] at h
      simp only [Bool.not_true, Bool.false_eq_true, if_false]
      exact patch_read_lo _ _ 92 j n (by simpa using h)

theorem subForWrite_byteAt (e : Eapol) (j : Nat) (h : if e.rsn then j + 1 ≤ 92 else 2 ≤ j) :
    Wifi.byteAt (Eapol.subForWrite e) j = Wifi.byteAt e.sub j := by
  rw [byteAt_eq_read, byteAt_eq_read e.sub, subForWrite_read e j 1 h]

/-- the getter dump of a re-parsed key frame: only the derived lengths (`~length`, `~key_length` / `~wpa_length`) differ -/
theorem eapol_view_of (b : Bool) (e : Eapol) (n : Nat) :
    layerView b (.wifi (.eapol ⟨e.rsn, Eapol.hdrFor e n, Eapol.subForWrite e, e.key⟩)) = layerView b (.wifi (.eapol e)) := by
  have h0 : Wifi.byteAt (Eapol.hdrFor e n) 0 = Wifi.byteAt e.hdr 0 := patch_byteAt _ _ 2 0 (.inl (by omega))
  have h1 : Wifi.byteAt (Eapol.hdrFor e n) 1 = Wifi.byteAt e.hdr 1 := patch_byteAt _ _ 2 1 (.inl (by omega))
  have h4 : Wifi.byteAt (Eapol.hdrFor e n) 4 = Wifi.byteAt e.hdr 4 :=
    patch_byteAt _ _ 2 4 (.inr (by simp only [OutCursor.beBytes_length]; omega))
  cases hr : e.rsn with
  | false =>
    have r (j n : Nat) (h : 2 ≤ j) : ((Eapol.subForWrite e).drop j).take n = (e.sub.drop j).take n :=
      subForWrite_read e j n (by rw [hr]; simpa using h)
    have b26 : Wifi.byteAt (Eapol.subForWrite e) 26 = Wifi.byteAt e.sub 26 := subForWrite_byteAt e 26 (by rw [hr]; simp)
    simp [layerView, AnyObj.info, Wifi.info, Eapol.fields, Eapol.commonFields, Fields.view, hr, h0, h1, h4, b26,
      Eapol.beAt, Dot11.hexAt, r 2 8 (by omega), r 10 16 (by omega), r 27 16 (by omega)]
  | true =>
    have r (j n : Nat) (h : j + n ≤ 92) : ((Eapol.subForWrite e).drop j).take n = (e.sub.drop j).take n :=
      subForWrite_read e j n (by rw [hr]; simpa using h)
    have b0 : Wifi.byteAt (Eapol.subForWrite e) 0 = Wifi.byteAt e.sub 0 := subForWrite_byteAt e 0 (by rw [hr]; simp)
    have b1 : Wifi.byteAt (Eapol.subForWrite e) 1 = Wifi.byteAt e.sub 1 := subForWrite_byteAt e 1 (by rw [hr]; simp)
    simp [layerView, AnyObj.info, Wifi.info, Eapol.fields, Eapol.commonFields, Fields.view, hr, h0, h1, h4, b0, b1,
      Eapol.beAt, Dot11.hexAt, r 2 2 (by omega), r 4 8 (by omega), r 12 32 (by omega), r 44 16 (by omega), r 60 8 (by omega),
      r 68 8 (by omega), r 76 16 (by omega)]

theorem tailInner_ite_nil (q : Bytes) : TailInner (if q = [] then Inner.none else Inner.raw q) q := by
  cases q with
  | nil => exact .inl ⟨rfl, rfl⟩
  | cons a t => exact .inr (by simp)

theorem eapol_info_name (e : Eapol) : (AnyObj.wifi (.eapol e)).info.1 = if e.rsn then "RSNEAPOL" else "RC4EAPOL" := rfl

theorem parseOne_eapol (rsn : Bool) (b : Bytes) (e : Eapol) (i : Inner) (h : Eapol.parse rsn b = .ok (e, i)) :
    parseOne (if rsn then "RSNEAPOL" else "RC4EAPOL") b = .ok (.wifi (.eapol e), i) := by
  cases rsn with
  | false =>
    apply parseOne_wifi _ b _ i (by decide)
    show (Eapol.parse false b >>= fun (e, i) => pure (Wifi.Obj.eapol e, i)) = _
    rw [h]; rfl
  | true =>
    apply parseOne_wifi _ b _ i (by decide)
    show (Eapol.parse true b >>= fun (e, i) => pure (Wifi.Obj.eapol e, i)) = _
    rw [h]; rfl

/-- `EAPOL::from_bytes` on the serialization of a key frame followed by `k` bytes: the length field the writer derived cuts
    the buffer at the end of the frame, the key-descriptor type octet selects the class -/
theorem eapol_fromBytes_written (e : Eapol) (hw : e.WF) (ht : EapolTyped e) (W junk : Bytes) (N : Nat)
    (hW : ∃ rest, W = Eapol.hdrFor e N ++ rest) (hN : W.length = N) (hfit : 4 ≤ N ∧ N < 65540) :
    Eapol.fromBytes (W ++ junk) = (Eapol.parse e.rsn W >>= fun r => pure (some r)) := by
  obtain ⟨rest, hWe⟩ := hW
  have hhl : (Eapol.hdrFor e N).length = 5 := by unfold Eapol.hdrFor; rw [Dot11.patch_length]; exact hw.hdr
  have hNl : 5 ≤ N := by rw [← hN, hWe, List.length_append, hhl]; omega
  unfold Eapol.fromBytes
  have h5 : ¬ (W ++ junk).length < 5 := by rw [List.length_append]; omega
  rw [if_neg h5]
  have hrd : rdN "EAPOL::from_bytes ptr->length/type" (W ++ junk) 0 5 = .ok (Eapol.hdrFor e N) := by
    unfold rdN
    rw [if_pos (by rw [List.length_append]; omega)]
    rw [List.drop_zero, hWe, List.append_assoc, List.take_left' hhl]
  simp only [hrd, bind, Out.bind]
  have hlenf : Eapol.beAt (Eapol.hdrFor e N) 2 2 = N - 4 := by
    unfold Eapol.beAt Eapol.hdrFor
    have := Eapol.patch_read e.hdr (OutCursor.beBytes 2 ((N + 4294967296 - 4) % 4294967296)) 2
      (by rw [OutCursor.beBytes_length, hw.hdr]; omega)
    rw [OutCursor.beBytes_length] at this
    rw [this, beNat_beBytes]
    omega
  have hty : Wifi.byteAt (Eapol.hdrFor e N) 4 = Wifi.byteAt e.hdr 4 :=
    patch_byteAt _ _ 2 4 (.inr (by simp only [OutCursor.beBytes_length]; omega))
  rw [hlenf, hty]
  have htot : (if (W ++ junk).length < N - 4 + 4 then (W ++ junk).length else N - 4 + 4) = N := by
    rw [if_neg (by rw [List.length_append]; omega)]; omega
  rw [htot, ← hN, List.take_left' rfl]
  rcases ht with ⟨hr, h1⟩ | ⟨hr, h2⟩
  · rw [hr, h1]; rfl
  · rw [hr]
    rcases h2 with h2 | h2 <;> rw [h2] <;> rfl

theorem parseOne_eapol_pseudo (n : String) (hn : n = "EAPOL" ∨ n = "EAPOL*") (b : Bytes) (e : Eapol) (i : Inner)
    (h : Eapol.fromBytes b = .ok (some (e, i))) : parseOne n b = .ok (.wifi (.eapol e), i) := by
  rcases hn with rfl | rfl
  · apply parseOne_wifi _ b _ i (by decide)
    show (Eapol.fromBytes b >>= fun r => match r with
      | some (e, i) => pure (Wifi.Obj.eapol e, i)
      | none => pure (Wifi.Obj.eapol (Eapol.create false), Inner.cls Wifi.eapolNull [] false)) = _
    rw [h]; rfl
  · apply parseOne_wifi _ b _ i (by decide)
    show (Eapol.fromBytes b >>= fun r => match r with
      | some (e, i) => pure (Wifi.Obj.eapol e, i)
      | none => pure (Wifi.Obj.eapol (Eapol.create false), Inner.cls Wifi.eapolNull [] false)) = _
    rw [h]; rfl

/-- **C03 / RC4EAPOL, RSNEAPOL, the short frame**: a key frame whose key-length field announces more bytes than the buffer
    holds is parsed with an empty key and without payload; written back it is header ++ sub-header, and parses the same way -/
theorem eapol_reparse_short (e : Eapol) (hw : e.WF) (n : Nat)
    (hpos : Eapol.beAt e.sub (Eapol.keyLenOff e.rsn) 2 ≠ 0) :
    Eapol.parse e.rsn (Eapol.hdrFor e n ++ e.sub) = .ok (⟨e.rsn, Eapol.hdrFor e n, e.sub, []⟩, .none) := by
  have hhl : (Eapol.hdrFor e n).length = 5 := by unfold Eapol.hdrFor; rw [Dot11.patch_length]; exact hw.hdr
  have hsl := hw.sub
  generalize hB : Eapol.hdrFor e n ++ e.sub = B
  have hBl : B.length = 5 + Eapol.subLen e.rsn := by rw [← hB]; simp only [List.length_append, hhl, hsl]
  unfold Eapol.parse
  have hinv := Cursor.ofBytes_inv B
  have hsz : (Cursor.ofBytes B).size = B.length := rfl
  have hmem : (Cursor.ofBytes B).mem = B := rfl
  rcases Cursor.read_spec _ 5 hinv with ⟨hdr, c0, e0, _, _, _, _, hhdr, _⟩ | ⟨_, hlt⟩
  · have hhdr' : hdr = Eapol.hdrFor e n := by rw [hhdr, hmem, ← hB]; exact List.take_left' hhl
    rcases Cursor.skip_spec _ 5 hinv with ⟨c1, e1, i1, s1, _⟩ | ⟨_, hlt⟩
    · have hm1 : c1.mem = e.sub := by
        rw [Wifi.skip_mem _ _ _ e1, hmem, ← hB]; exact List.drop_left' hhl
      rcases Cursor.read_spec c1 (Eapol.subLen e.rsn) i1 with ⟨sub, c2, e2, i2, _, s2, _, hsub, hm2⟩ | ⟨_, hlt⟩
      · have hsub' : sub = e.sub := by rw [hsub, hm1]; exact List.take_of_length_le (by omega)
        subst hhdr'; subst hsub'
        simp only [e0, e1, e2, bind, Out.bind]
        have hlt : ¬ c2.size ≥ Eapol.beAt e.sub (Eapol.keyLenOff e.rsn) 2 := by omega
        simp only [hlt, ↓reduceIte]
        rfl
      · omega
    · omega
  · omega

/-- what both EAPOL steps share: the writer's output and the constructor's result on it -/
theorem eapol_written (e : Eapol) (os : List AnyObj) (hw : e.WF) (hside : Side (.wifi (.eapol e)) os) (region io : Bytes)
    (hlen : region.length = e.hdrSize + sizeOfStack os) (hio : region.drop e.hdrSize = io) (hnil : os = [] → io = []) :
    ∃ out, e.write region = .ok out ∧ out.length = region.length ∧
      (∃ rest, out = Eapol.hdrFor e region.length ++ rest) ∧
      Eapol.parse e.rsn out = .ok (⟨e.rsn, Eapol.hdrFor e region.length, Eapol.subForWrite e, e.key⟩,
        if io = [] then .none else .raw io) := by
  obtain ⟨hkl, hk0, _⟩ := hside
  have hweq := eapol_write_eq e hw region (by omega)
  rw [hio] at hweq
  have hhl : (Eapol.hdrFor e region.length).length = 5 := by unfold Eapol.hdrFor; rw [Dot11.patch_length]; exact hw.hdr
  have hiol : io.length = region.length - e.hdrSize := by rw [← hio]; simp
  refine ⟨_, hweq, ?_, ⟨_, rfl⟩, ?_⟩
  · simp only [List.length_append, hhl, Eapol.subForWrite_length e hw, hiol]
    simp only [Eapol.hdrSize] at hlen ⊢
    omega
  · by_cases hshort : e.key = [] ∧ Eapol.beAt e.sub (Eapol.keyLenOff e.rsn) 2 ≠ 0
    · obtain ⟨hk, hne⟩ := hshort
      have hos : os = [] := (hk0 hk).resolve_left hne
      have hio0 := hnil hos
      have hsub : Eapol.subForWrite e = e.sub := by simp [Eapol.subForWrite, hk]
      rw [hio0, hk, hsub]
      simp only [List.append_nil, if_true]
      exact eapol_reparse_short e hw region.length hne
    · refine Eapol.eapol_reparse e hw io region.length hkl ?_
      intro hk
      by_cases h0 : Eapol.beAt e.sub (Eapol.keyLenOff e.rsn) 2 = 0
      · exact h0
      · exact absurd ⟨hk, h0⟩ hshort

/-- **RC4EAPOL / RSNEAPOL step, entered under the class name** (entry class: nothing follows the region) -/
theorem eapol_step (ps : List LayerInfo) (e : Eapol) (os : List AnyObj) (hw : e.WF) (hside : Side (.wifi (.eapol e)) os)
    (hlink : LinkAll (.wifi (.eapol e)) os) (region io : Bytes)
    (hlen : region.length = e.hdrSize + sizeOfStack os) (hio : region.drop e.hdrSize = io)
    (hnil : os = [] → io = []) (hraw : ∀ p, os = [.raw p] → io = p) :
    ∃ out x' inner, e.write region = .ok out ∧ out.length = region.length ∧
      parseOne (AnyObj.wifi (.eapol e)).info.1 out = .ok (x', inner) ∧
      layerView false x' = layerView false (.wifi (.eapol e)) ∧
      StepInnerA (.wifi (.eapol e)) os io 0 x' inner := by
  rcases eapol_written e os hw hside region io hlen hio hnil with ⟨out, hwr, hol, _, hp⟩
  refine ⟨out, .wifi (.eapol ⟨e.rsn, Eapol.hdrFor e region.length, Eapol.subForWrite e, e.key⟩),
    (if io = [] then .none else .raw io), hwr, hol, ?_,
    eapol_view_of false e region.length, ?_⟩
  · rw [eapol_info_name]; exact parseOne_eapol _ _ _ _ hp
  · apply leaf_stepInner_pad _ _ os io 0 0 _ rfl (leaf_link hlink) _ (fun b => eapol_view_of b e region.length) hnil hraw
    simp only [List.replicate_zero, List.append_nil]
    exact tailInner_ite_nil io

/-- **RC4EAPOL / RSNEAPOL step, entered through `EAPOL::from_bytes`** (`EAPOL`: below EthernetII / Dot1Q / SNAP / SLL; `EAPOL*`):
    `k` zero bytes of minimum-frame padding may follow, the length field cuts them off -/
theorem eapol_step_pseudo (ps : List LayerInfo) (e : Eapol) (os : List AnyObj) (hw : e.WF) (hside : Side (.wifi (.eapol e)) os)
    (hlink : LinkAll (.wifi (.eapol e)) os) (ht : EapolTyped e) (n : String) (hn : n = "EAPOL" ∨ n = "EAPOL*") (k : Nat)
    (region io : Bytes) (hlen : region.length = e.hdrSize + sizeOfStack os) (hio : region.drop e.hdrSize = io)
    (hnil : os = [] → io = []) (hraw : ∀ p, os = [.raw p] → io = p) :
    ∃ out x' inner, e.write region = .ok out ∧ out.length = region.length ∧
      parseOne n (out ++ List.replicate k 0) = .ok (x', inner) ∧
      layerView false x' = layerView false (.wifi (.eapol e)) ∧
      StepInnerA (.wifi (.eapol e)) os io k x' inner := by
  rcases eapol_written e os hw hside region io hlen hio hnil with ⟨out, hwr, hol, hrest, hp⟩
  have hsz : e.hdrSize + sizeOfStack os < 65540 := hside.2.2
  have h48 : 48 ≤ e.hdrSize := by simp only [Eapol.hdrSize, Eapol.subLen]; split <;> omega
  have hfb := eapol_fromBytes_written e hw ht out (List.replicate k 0) region.length hrest hol ⟨by omega, by omega⟩
  rw [hp] at hfb
  refine ⟨out, .wifi (.eapol ⟨e.rsn, Eapol.hdrFor e region.length, Eapol.subForWrite e, e.key⟩),
    (if io = [] then .none else .raw io), hwr, hol,
    parseOne_eapol_pseudo n hn _ _ _ hfb, eapol_view_of false e region.length, ?_⟩
  apply leaf_stepInner_pad _ _ os io k 0 _ rfl (leaf_link hlink) _ (fun b => eapol_view_of b e region.length) hnil hraw
  simp only [List.replicate_zero, List.append_nil]
  exact tailInner_ite_nil io

/-! ### the Dot11 classes -/

/-- a class name with a layout is one of the 21 classes of the family -/
theorem layoutOf_mem (c : String) (l : Layout) (h : Wifi.layoutOf c = some l) : c ∈ Wifi.dot11Classes := by
  by_cases hm : c ∈ Wifi.dot11Classes
  · exact hm
  · exfalso
    simp only [Wifi.dot11Classes, List.mem_cons, List.mem_nil_iff, or_false, not_or] at hm
    obtain ⟨h1, h2, h3, h4, h5, h6, h7, h8, h9, h10, h11, h12, h13, h14, h15, h16, h17, h18, h19, h20, h21⟩ := hm
    simp [Wifi.layoutOf, h1, h2, h3, h4, h5, h6, h7, h8, h9, h10, h11, h12, h13, h14, h15, h16, h17, h18, h19, h20, h21] at h

theorem dot11_classes_facts : ∀ c ∈ Wifi.dot11Classes, c ∈ Wifi.classes ∧ (c == "Dot11*") = false ∧ (c == "RadioTap") = false ∧
    (c == "RC4EAPOL") = false ∧ (c == "RSNEAPOL") = false ∧ (c == "EAPOL*" || c == "EAPOL") = false := by decide

/-- the class layouts with tagged parameters carry no payload -/
theorem layout_tagged_no_payload (c : String) (l : Layout) (h : Wifi.layoutOf c = some l) :
    l.tagged = true → l.payload = false := by
  obtain ⟨l', hl', hx⟩ := Dot11.layouts_ok c (layoutOf_mem c l h)
  rw [h] at hl'
  injection hl' with hl'
  subst hl'
  exact hx

theorem parseOne_dot11 (c : String) (l : Layout) (b : Bytes) (d : Dot11) (i : Inner) (hl : Wifi.layoutOf c = some l)
    (h : Dot11.parseWith c l b = .ok (d, i)) : parseOne c b = .ok (.wifi (.dot11 d), i) := by
  obtain ⟨hc, f1, f2, f3, f4, f5⟩ := dot11_classes_facts c (layoutOf_mem c l hl)
  apply parseOne_wifi c b _ i hc
  simp only [Wifi.parse, f1, f2, f3, f4, f5, Bool.false_eq_true, if_false, Dot11.parse, hl, h, bind, Out.bind, pure]

/-- `Dot11::from_bytes` on a buffer whose frame-control octet selects class `c` is the parsing constructor of `c` -/
theorem parseOne_dot11_pseudo (c : String) (l : Layout) (b : Bytes) (d : Dot11) (i : Inner) (hl : Wifi.layoutOf c = some l)
    (hb : 2 ≤ b.length) (hd : Dot11.dispatch (Wifi.byteAt b 0) = c)
    (h : Dot11.parseWith c l b = .ok (d, i)) : parseOne "Dot11*" b = .ok (.wifi (.dot11 d), i) := by
  apply parseOne_wifi "Dot11*" b _ i (by decide)
  show (Dot11.fromBytes b >>= fun (d, i) => pure (Wifi.Obj.dot11 d, i)) = _
  unfold Dot11.fromBytes
  rw [if_neg (by omega)]
  have hrd : rdN "Dot11::from_bytes hdr->control" b 0 2 = .ok (b.take 2) := by
    unfold rdN
    rw [if_pos (by omega), List.drop_zero]
  have hb0 : Wifi.byteAt (b.take 2) 0 = Wifi.byteAt b 0 := by
    cases b with
    | nil => simp at hb
    | cons a t => rfl
  simp only [hrd, bind, Out.bind, hb0, hd, Dot11.parse, hl, h, pure]

/-- what can follow a Dot11 object -/
theorem dot11_link_cases (d : Dot11) (os : List AnyObj) (h : LinkAll (.wifi (.dot11 d)) os) :
    os = [] ∨ (∃ p, os = [.raw p] ∧ (p = [] ∨ (d.lay.payload = true ∧ dot11Wep d = true))) ∨
    (∃ s r, os = .l2 (.snap s) :: r ∧ d.lay.payload = true ∧ dot11Wep d = false) := by
  cases hnx : nextA os with
  | none => exact .inl (nextA_none hnx)
  | raw p =>
    have h2 : p = [] ∨ (d.lay.payload = true ∧ dot11Wep d = true) := by simpa only [LinkAll, hnx] using h
    exact .inr (.inl ⟨p, nextA_raw hnx, h2⟩)
  | bad => simp only [LinkAll, hnx] at h
  | obj y r =>
    have hos := (nextA_obj hnx).1
    cases y with
    | l2 z =>
      cases z with
      | snap s =>
        have h2 : d.lay.payload = true ∧ dot11Wep d = false := by simpa only [LinkAll, hnx] using h
        exact .inr (.inr ⟨s, r, hos, h2⟩)
      | _ => simp only [LinkAll, hnx] at h
    | _ => simp only [LinkAll, hnx] at h

/-- what both Dot11 steps share: the writer's output, the constructor's result on it, and the inner-PDU decision -/
theorem dot11_written (d : Dot11) (os : List AnyObj) (hw : d.WF) (hf : d.Fits) (hside : Side (.wifi (.dot11 d)) os)
    (hlink : LinkAll (.wifi (.dot11 d)) os) (region io : Bytes)
    (hlen : region.length = d.hdrSize + sizeOfStack os) (hio : region.drop d.hdrSize = io)
    (hnil : os = [] → io = []) (hraw : ∀ p, os = [.raw p] → io = p) (hpos : ∀ y r, nextA os = .obj y r → 0 < io.length) :
    ∃ out, d.write region = .ok out ∧ out.length = region.length ∧ (∃ rest, out = d.hdr ++ rest) ∧
      Dot11.parseWith d.cls d.lay out = .ok (d, Dot11.innerFor d io) ∧
      StepInnerA (.wifi (.dot11 d)) os io 0 (.wifi (.dot11 d)) (Dot11.innerFor d io) := by
  obtain ⟨hcanon, hlay⟩ := hside
  have hx := layout_tagged_no_payload d.cls d.lay hlay
  have hweq := Dot11.write_eq d hw hf region (by omega)
  rw [hio] at hweq
  have hcl := Dot11.chunks_length d hw hf
  have hiol : io.length = region.length - d.hdrSize := by rw [← hio]; simp
  have hcases := dot11_link_cases d os hlink
  have hp0 : d.lay.payload = false → io = [] := by
    intro hpl
    rcases hcases with rfl | ⟨p, rfl, hp⟩ | ⟨s, r, rfl, hp, _⟩
    · exact hnil rfl
    · rw [hraw p rfl]
      rcases hp with hp | ⟨hp, _⟩
      · exact hp
      · rw [hpl] at hp; cases hp
    · rw [hpl] at hp; cases hp
  have hre := Dot11.dot11_reparse d hw hcanon hf io hp0 hx
  refine ⟨_, hweq, by simp only [List.length_append, hcl, hiol]; omega,
    ⟨_, by rw [Dot11.chunks_flatten d hw, List.append_assoc]⟩, hre, ?_⟩
  rcases hcases with rfl | ⟨p, rfl, hp⟩ | ⟨s, r, rfl, hpl, hwep⟩
  · have := hnil rfl; subst this
    have : Dot11.innerFor d [] = .none := by simp [Dot11.innerFor]
    rw [this]
    exact none_stepInner _ _ [] [] 0 rfl rfl
  · have := hraw p rfl; subst this
    apply leaf_stepInner_pad _ _ [.raw io] io 0 0 _ rfl (.inr ⟨io, rfl⟩) _ (fun _ => rfl) hnil hraw
    simp only [List.replicate_zero, List.append_nil]
    rcases hp with rfl | ⟨hpl, hwep⟩
    · have : Dot11.innerFor d [] = .none := by simp [Dot11.innerFor]
      rw [this]; exact .inl ⟨rfl, rfl⟩
    · by_cases hne : io = []
      · subst hne
        have : Dot11.innerFor d [] = .none := by simp [Dot11.innerFor]
        rw [this]; exact .inl ⟨rfl, rfl⟩
      · have hwep' : (Wifi.byteAt d.hdr 1 / 64 % 2 == 1) = true := hwep
        have : Dot11.innerFor d io = .raw io := by simp [Dot11.innerFor, hpl, hne, hwep']
        rw [this]; exact .inr rfl
  · have hpos' := hpos (.l2 (.snap s)) r rfl
    have hne : io ≠ [] := by intro e; rw [e] at hpos'; simp at hpos'
    have hwep' : (Wifi.byteAt d.hdr 1 / 64 % 2 == 1) = false := hwep
    apply stepInnerA_obj _ _ (.l2 (.snap s)) r io 0 0 _ false rfl rfl _ (.inl rfl)
    simp [Dot11.innerFor, hpl, hne, hwep', AnyObj.info, L2.info]

/-- **Dot11 step, every class, entered under the class name** -/
theorem dot11_step (ps : List LayerInfo) (d : Dot11) (os : List AnyObj) (hw : d.WF) (hf : d.Fits)
    (hside : Side (.wifi (.dot11 d)) os) (hlink : LinkAll (.wifi (.dot11 d)) os) (region io : Bytes)
    (hlen : region.length = d.hdrSize + sizeOfStack os) (hio : region.drop d.hdrSize = io)
    (hnil : os = [] → io = []) (hraw : ∀ p, os = [.raw p] → io = p) (hpos : ∀ y r, nextA os = .obj y r → 0 < io.length) :
    ∃ out x' inner, d.write region = .ok out ∧ out.length = region.length ∧
      parseOne d.cls out = .ok (x', inner) ∧
      layerView false x' = layerView false (.wifi (.dot11 d)) ∧
      StepInnerA (.wifi (.dot11 d)) os io 0 x' inner := by
  rcases dot11_written d os hw hf hside hlink region io hlen hio hnil hraw hpos with ⟨out, hwr, hol, _, hp, hs⟩
  exact ⟨out, _, _, hwr, hol, parseOne_dot11 d.cls d.lay out d _ hside.2 hp, rfl, hs⟩

/-- **Dot11 step, entered through `Dot11::from_bytes`** (what RadioTap calls): the frame-control octet selects the class -/
theorem dot11_step_pseudo (ps : List LayerInfo) (d : Dot11) (os : List AnyObj) (hw : d.WF) (hf : d.Fits)
    (hside : Side (.wifi (.dot11 d)) os) (hlink : LinkAll (.wifi (.dot11 d)) os)
    (hdisp : Dot11.dispatch (Wifi.byteAt d.hdr 0) = d.cls) (region io : Bytes)
    (hlen : region.length = d.hdrSize + sizeOfStack os) (hio : region.drop d.hdrSize = io)
    (hnil : os = [] → io = []) (hraw : ∀ p, os = [.raw p] → io = p) (hpos : ∀ y r, nextA os = .obj y r → 0 < io.length) :
    ∃ out x' inner, d.write region = .ok out ∧ out.length = region.length ∧
      parseOne "Dot11*" out = .ok (x', inner) ∧
      layerView false x' = layerView false (.wifi (.dot11 d)) ∧
      StepInnerA (.wifi (.dot11 d)) os io 0 x' inner := by
  rcases dot11_written d os hw hf hside hlink region io hlen hio hnil hraw hpos with ⟨out, hwr, hol, ⟨rest, hrest⟩, hp, hs⟩
  have h10 := hw.hdr
  have hb0 : Wifi.byteAt out 0 = Wifi.byteAt d.hdr 0 := by
    rw [hrest]
    cases hh : d.hdr with
    | nil => rw [hh] at h10; simp at h10
    | cons a t => rfl
  have hl2 : 2 ≤ out.length := by rw [hrest, List.length_append]; omega
  exact ⟨out, _, _, hwr, hol, parseOne_dot11_pseudo d.cls d.lay out d _ hside.2 hl2 (by rw [hb0]; exact hdisp) hp, rfl, hs⟩

/-! ### RadioTap -/

/-- what `RadioTap::write_serialization` leaves in its region: the header with the derived `it_len`, the options, the inner
    chain's bytes untouched, and `trailer_size()` bytes behind them (the CRC-32 when there is an inner PDU) -/
theorem radiotap_write_eq (cx : Ctx) (r : RadioTap) (hw : r.WF) (region : Bytes)
    (hr : region.length = r.hdrSize + cx.innerSize + r.trl) :
    ∃ tail, r.write cx region = .ok (Dot11.patch r.hdr 2 (OutCursor.leBytes 2 r.hdrSize) ++
      (r.payload ++ ((region.drop r.hdrSize).take cx.innerSize ++ tail))) ∧ tail.length = r.trl := by
  obtain ⟨t, ht, ht04⟩ := hw.trl
  have htrl : r.trl = t := by simp only [RadioTap.trl, ht]
  rw [htrl] at hr ⊢
  generalize hh : Dot11.patch r.hdr 2 (OutCursor.leBytes 2 r.hdrSize) = hdr
  have hhl : hdr.length = 4 := by rw [← hh, Dot11.patch_length]; exact hw.hdr
  have hi : (OutCursor.ofRegion region).Inv := by simp [OutCursor.ofRegion, OutCursor.Inv]
  have hall := Dot11.writeAll_spec [hdr, r.payload] (OutCursor.ofRegion region) hi
    (by simp only [List.flatten_cons, List.flatten_nil, List.length_append, List.length_nil, hhl, OutCursor.ofRegion, RadioTap.hdrSize] at *; omega)
  simp only [RadioTap.write, hh, hall, ht, bind, Out.bind]
  simp only [OutCursor.ofRegion, List.nil_append, List.flatten_cons, List.flatten_nil, List.append_nil, List.length_append, hhl]
  have hhs : r.hdrSize = 4 + r.payload.length := rfl
  by_cases hcond : (decide (t > 0) && !cx.inners.isEmpty) = true
  · simp only [hcond, ↓reduceIte]
    have ht4 : t = 4 := by
      rcases ht04 with h | h
      · simp [h] at hcond
      · exact h
    have hrest : (List.drop (4 + r.payload.length) region).length = cx.innerSize + 4 := by
      simp only [List.length_drop]; omega
    have h1 : 0 + cx.innerSize ≤ (List.drop (4 + r.payload.length) region).length := by omega
    simp only [rdN, h1, ↓reduceIte]
    have hskip : ¬ cx.innerSize > region.length - (4 + r.payload.length) := by omega
    simp only [OutCursor.skip, hskip, ↓reduceIte]
    have hw1 : ¬ region.length - (4 + r.payload.length) - cx.innerSize < (OutCursor.leBytes 4
        (crc32 (List.take cx.innerSize (List.drop 0 (List.drop (4 + r.payload.length) region))))).length := by
      simp only [OutCursor.leBytes_length]; omega
    have hw2 : ¬ (List.drop cx.innerSize (List.drop (4 + r.payload.length) region)).length < (OutCursor.leBytes 4
        (crc32 (List.take cx.innerSize (List.drop 0 (List.drop (4 + r.payload.length) region))))).length := by
      simp only [OutCursor.leBytes_length, List.length_drop]; omega
    simp only [OutCursor.write, hw1, hw2, ↓reduceIte, Out.pure_eq, OutCursor.buffer]
    simp only [List.append_assoc, hhs]
    refine ⟨_, rfl, ?_⟩
    simp only [List.length_append, OutCursor.leBytes_length, List.length_drop]; omega
  · simp only [hcond, Bool.false_eq_true, ↓reduceIte, Out.pure_eq, OutCursor.buffer]
    refine ⟨(region.drop (4 + r.payload.length)).drop cx.innerSize, ?_, ?_⟩
    · rw [hhs, List.take_append_drop, List.append_assoc]
    · simp only [List.length_drop]; omega

/-- what `trailer_size()` having a value says about the present-word walk: both loops succeed, and when the walk stands on
    a field it is the one-byte FLAGS field inside the options, whose FCS bit decides between 4 and 0 -/
theorem trlOut_inv (r : RadioTap) (t : Nat) (h : r.trlOut = .ok t) :
    ∃ p0 p, RtParser.init r.payload = .ok p0 ∧ RtParser.skipToField RtParser.skipFuel p0 1 = .ok p ∧
      (p.hasFields = false → t = 0) ∧
      (p.hasFields = true → ∃ fv, r.payload[p.ptr]? = some fv ∧ t = if fv.toNat / 16 % 2 == 1 then 4 else 0) := by
  unfold RadioTap.trlOut at h
  rcases bind_ok_inv h with ⟨p0, h0, h⟩
  rcases bind_ok_inv h with ⟨p, h1, h⟩
  refine ⟨p0, p, h0, h1, ?_, ?_⟩
  · intro hf
    rw [hf] at h
    simp only [Bool.false_eq_true, if_false] at h
    injection h with h; exact h.symm
  · intro hf
    rw [hf] at h
    simp only [if_true] at h
    split at h
    · cases h
    · rename_i hle
      rcases bind_ok_inv h with ⟨v, hv, h⟩
      unfold rdN at hv
      split at hv
      · rename_i hle2
        injection hv with hv
        split at h
        · cases h
        · rename_i hl1
          have hl : v.length = 1 := by simpa using hl1
          have hvl := hl
          rw [← hv, List.length_take, List.length_drop] at hvl
          have hptr : p.ptr < r.payload.length := by omega
          refine ⟨r.payload[p.ptr], by simp [hptr], ?_⟩
          have hb : Wifi.byteAt v 0 = (r.payload[p.ptr]).toNat := by
            rw [← hv]
            have : (List.take (rtSize p.bit) (List.drop p.ptr r.payload)).getD 0 0 = r.payload[p.ptr] := by
              rw [List.getD_eq_getElem?_getD, List.getElem?_take]
              have : 0 < rtSize p.bit := by omega
              simp [this, hptr]
            simp only [Wifi.byteAt, this]
          rw [hb] at h
          split at h <;> (injection h with h; rw [← h])
          · rename_i hc; rw [if_pos hc]
          · rename_i hc; rw [if_neg hc]
      · cases hv


/-- the header `RadioTap::write_serialization` stores: `it_len` = `header_size()` -/
def rtHdrFor (r : RadioTap) : Bytes := Dot11.patch r.hdr 2 (OutCursor.leBytes 2 r.hdrSize)

theorem rtHdrFor_len (r : RadioTap) (hw : r.WF) (h16 : r.hdrSize < 65536) : Dot11.leAt (rtHdrFor r) 2 2 = r.hdrSize := by
  unfold Dot11.leAt rtHdrFor
  have := Eapol.patch_read r.hdr (OutCursor.leBytes 2 r.hdrSize) 2 (by rw [OutCursor.leBytes_length, hw.hdr]; omega)
  rw [OutCursor.leBytes_length] at this
  rw [this, leNat_leBytes]
  omega

/-- **C03 / RadioTap**: the parsing constructor on what `write_serialization` laid out — header with the derived `it_len`,
    the options, the inner frame, and `trailer_size()` bytes of FCS — gives back the options and hands exactly the inner frame
    to `Dot11::from_bytes`: the FLAGS field found by the same present-word walk announces the FCS the writer appended. -/
theorem radiotap_reparse (r : RadioTap) (hw : r.WF) (hs : RtSide r) (inner tail : Bytes) (htl : tail.length = r.trl)
    (h4 : 4 ≤ inner.length + tail.length) :
    RadioTap.parse (rtHdrFor r ++ (r.payload ++ (inner ++ tail))) =
      .ok (⟨rtHdrFor r, r.payload⟩, if inner.length != 0 then .cls "Dot11*" inner false else .none) := by
  obtain ⟨hpl4, hpl16⟩ := hs.len
  obtain ⟨t, ht, _⟩ := hw.trl
  have htrl : r.trl = t := by simp only [RadioTap.trl, ht]
  rw [htrl] at htl
  obtain ⟨p0, p, hi0, hsk, hnof, hf⟩ := trlOut_inv r t ht
  have hhl : (rtHdrFor r).length = 4 := by unfold rtHdrFor; rw [Dot11.patch_length]; exact hw.hdr
  have hlen := rtHdrFor_len r hw (by simp only [RadioTap.hdrSize]; omega)
  have hhs : r.hdrSize = 4 + r.payload.length := rfl
  unfold RadioTap.parse
  have r1 := App.ofBytes_read_append (rtHdrFor r) (r.payload ++ (inner ++ tail))
  rw [hhl] at r1
  simp only [r1, Out.bind_ok, hlen, hhs]
  have hc8 : ¬ 4 + r.payload.length < 8 := by omega
  have hsz : (Cursor.ofBytes (r.payload ++ (inner ++ tail))).size = r.payload.length + (inner.length + tail.length) := by
    simp [Cursor.ofBytes]
  have hfit : ¬ 4 + r.payload.length - 4 + 4 > (Cursor.ofBytes (r.payload ++ (inner ++ tail))).size := by rw [hsz]; omega
  rw [if_neg hc8, if_neg hfit]
  have e4 : 4 + r.payload.length - 4 = r.payload.length := by omega
  rw [e4, App.ofBytes_peek_append, App.ofBytes_skip_append]
  simp only [hi0, hsk, Out.bind_ok]
  have hsz2 : (Cursor.ofBytes (inner ++ tail)).size = inner.length + tail.length := by simp [Cursor.ofBytes]
  -- the hand-over to Dot11::from_bytes, once the number of bytes is known
  have hfin : ∀ total, total = inner.length →
      (if (total != 0) = true then
        (Cursor.peek "RadioTap::RadioTap Dot11::from_bytes" (Cursor.ofBytes (inner ++ tail)) 0 total >>= fun i =>
          (pure ((⟨rtHdrFor r, r.payload⟩ : RadioTap), Inner.cls "Dot11*" i false) : Out (RadioTap × Inner)))
      else pure (⟨rtHdrFor r, r.payload⟩, Inner.none)) =
      .ok (⟨rtHdrFor r, r.payload⟩, if inner.length != 0 then .cls "Dot11*" inner false else .none) := by
    intro total htot
    subst htot
    by_cases hz : inner.length = 0
    · have : (inner.length != 0) = false := by simp [hz]
      simp [this]
    · have : (inner.length != 0) = true := by simp [hz]
      simp only [this, if_true, App.ofBytes_peek_append, Out.bind_ok, pure]
  cases hpf : p.hasFields with
  | false =>
    have := hnof hpf
    simp only [Bool.false_eq_true, if_false, Out.pure_eq, Out.bind_ok, hsz2]
    exact hfin _ (by omega)
  | true =>
    obtain ⟨fv, hfv, htv⟩ := hf hpf
    have hbad := hs.flags p0 p fv hi0 hsk hpf hfv
    simp only [if_true, rd, hfv, Out.bind_ok, hsz2]
    by_cases hfcs : (fv.toNat / 16 % 2 == 1) = true
    · rw [if_pos hfcs] at htv
      have hb6 : ¬ (fv.toNat / 64 % 2 == 1) = true := by
        intro h6
        exact hbad ⟨by simpa using hfcs, by simpa using h6⟩
      rw [if_pos hfcs, if_neg (by omega), if_neg hb6]
      simp only [Out.pure_eq, Out.bind_ok]
      exact hfin _ (by omega)
    · rw [if_neg hfcs] at htv
      rw [if_neg hfcs]
      simp only [Out.pure_eq, Out.bind_ok]
      exact hfin _ (by omega)


theorem parseOne_radiotap (b : Bytes) (t : RadioTap) (i : Inner) (h : RadioTap.parse b = .ok (t, i)) :
    parseOne "RadioTap" b = .ok (.wifi (.radiotap t), i) := by
  apply parseOne_wifi _ b _ i (by decide)
  show (RadioTap.parse b >>= fun (r, i) => pure (Wifi.Obj.radiotap r, i)) = _
  rw [h]; rfl

theorem radiotap_view_of (b : Bool) (t : RadioTap) :
    layerView b (.wifi (.radiotap ⟨rtHdrFor t, t.payload⟩)) = layerView b (.wifi (.radiotap t)) := by
  have h0 : Wifi.byteAt (rtHdrFor t) 0 = Wifi.byteAt t.hdr 0 := patch_byteAt _ _ 2 0 (.inl (by omega))
  have h1 : Wifi.byteAt (rtHdrFor t) 1 = Wifi.byteAt t.hdr 1 := patch_byteAt _ _ 2 1 (.inl (by omega))
  simp [layerView, AnyObj.info, Wifi.info, RadioTap.fields, Fields.view, h0, h1]

/-- what can follow RadioTap -/
theorem radiotap_link_cases (t : RadioTap) (os : List AnyObj) (h : LinkAll (.wifi (.radiotap t)) os) :
    (os = [] ∧ t.trl = 4) ∨ ∃ d r, os = .wifi (.dot11 d) :: r ∧ Dot11.dispatch (Wifi.byteAt d.hdr 0) = d.cls := by
  cases hnx : nextA os with
  | none => exact .inl ⟨nextA_none hnx, by simpa only [LinkAll, hnx] using h⟩
  | raw p => simp only [LinkAll, hnx] at h
  | bad => simp only [LinkAll, hnx] at h
  | obj y r =>
    have hos := (nextA_obj hnx).1
    cases y with
    | wifi z =>
      cases z with
      | dot11 d => exact .inr ⟨d, r, hos, by simpa only [LinkAll, hnx] using h⟩
      | _ => simp only [LinkAll, hnx] at h
    | _ => simp only [LinkAll, hnx] at h

theorem dot11_size_ge (d : Dot11) (r : List AnyObj) : 10 ≤ sizeOfStack (.wifi (.dot11 d) :: r) := by
  have : sizeOfStack (.wifi (.dot11 d) :: r) = d.hdrSize + 0 + sizeOfStack r := by
    simp [sizeOfStack, infos, AnyObj.hdr, AnyObj.trl, Wifi.hdr, Wifi.trl]
  rw [this]
  unfold Dot11.hdrSize
  simp only
  omega

/-- **RadioTap step** (entry class): header with the derived length, the same present-word walk on the same options, the FCS
    trailer written behind the Dot11 frame and stripped again -/
theorem radiotap_step (ps : List LayerInfo) (t : RadioTap) (os : List AnyObj) (hw : t.WF) (hside : RtSide t)
    (hlink : LinkAll (.wifi (.radiotap t)) os) (region io : Bytes)
    (hlen : region.length = t.hdrSize + sizeOfStack os + t.trl)
    (hio : (region.drop t.hdrSize).take (sizeOfStack os) = io) (hiol : io.length = sizeOfStack os) :
    ∃ out x' inner, t.write (cxOf ps os) region = .ok out ∧ out.length = region.length ∧
      parseOne "RadioTap" out = .ok (x', inner) ∧
      layerView false x' = layerView false (.wifi (.radiotap t)) ∧
      StepInnerA (.wifi (.radiotap t)) os io t.trl x' inner := by
  rcases radiotap_write_eq (cxOf ps os) t hw region (by rw [cxOf_innerSizeA]; exact hlen) with ⟨tail, hwr, htl⟩
  rw [cxOf_innerSizeA, hio] at hwr
  have hhl : (rtHdrFor t).length = 4 := by unfold rtHdrFor; rw [Dot11.patch_length]; exact hw.hdr
  have hcases := radiotap_link_cases t os hlink
  have h4 : 4 ≤ io.length + tail.length := by
    rcases hcases with ⟨_, h⟩ | ⟨d, r, rfl, _⟩
    · omega
    · have := dot11_size_ge d r; omega
  have hp := radiotap_reparse t hw hside io tail htl h4
  refine ⟨_, .wifi (.radiotap ⟨rtHdrFor t, t.payload⟩), _, hwr, ?_, parseOne_radiotap _ _ _ hp, radiotap_view_of false t, ?_⟩
  · have hhl' : (Dot11.patch t.hdr 2 (OutCursor.leBytes 2 t.hdrSize)).length = 4 := hhl
    simp only [List.length_append, hhl', hiol, htl]
    have : t.hdrSize = 4 + t.payload.length := rfl
    omega
  · rcases hcases with ⟨rfl, _⟩ | ⟨d, r, rfl, hdisp⟩
    · have : io = [] := List.eq_nil_of_length_eq_zero (by rw [hiol]; rfl)
      subst this
      exact none_stepInner _ _ [] [] _ rfl rfl
    · have hne : (io.length != 0) = true := by
        have := dot11_size_ge d r
        simp only [bne_iff_ne, ne_eq]; omega
      rw [hne]
      exact stepInnerA_objN _ _ (.wifi (.dot11 d)) r io _ 0 _ "Dot11*" false rfl rfl (by simp) (.inr ⟨rfl, hdisp⟩) (.inl rfl)

end Tins.Wire.ChainAll
