import TinsModel.Wire.Chain.ViewAll
/-
  Whole-packet C03 over all covered families, part 2: **what the protocols can express** — `StackableAll`.

  A stack is representable when every layer
    * satisfies its family's invariant and serializability predicate (`registryPreds.Inv`, `registryPreds.Ser`: what every
      parsing constructor establishes and every API call keeps),
    * satisfies the side conditions its per-class `*_reparse` theorem needs (`Side`), and
    * is followed by something its next-protocol tag can name under the dispatch the parser uses (`LinkAll`).

  The links (`LinkAll`), class by class:
    * link-layer classes among themselves: `L2.Link` (Wire/L2/ThChainStep.lean), unchanged;
    * EthernetII / Dot1Q / SNAP / SLL (EtherType derived from the inner class: 0x0800 / 0x86dd, `eth_tagFor_net`,
      `headTag_net`) and Loopback (protocol family derived) in front of IP / IPv6; MPLS in front of IP / IPv6 when its
      bottom-of-stack bit is set and the datagram's version field is 4 / 6 (the parser dispatches on the first nibble);
    * IP: followed by nothing, by a class the protocol dispatch names (`ProtoTier`: IP-in-IP, IPv6, TCP, UDP, ICMP, ICMPv6,
      IPSecAH, IPSecESP — the protocol number is derived from the class and maps back: `protoTier_roundtrip`) when it is
      not a fragment, or by a RawPDU when it is a fragment or its stored protocol is one libtins does not dispatch on;
    * IPSecAH: like IP on its next-header octet;  IPv6: like IP on the last next-header octet (derived for a class, stored
      `next_header_` for a RawPDU — which must not be an extension-header type — and a RawPDU behind a fragment header);
    * IPSecESP, UDP, TCP, ICMP, ICMPv6: followed by a RawPDU or nothing.

    * EthernetII / Dot1Q / SNAP / SLL in front of ARP (0x0806) and of RC4EAPOL / RSNEAPOL (0x888e, through
      `EAPOL::from_bytes`: the key-descriptor type octet must name the class, `EapolTyped`); LLC (DSAP = SSAP = 0x42) in front of STP;
    * ARP, RTP, RC4EAPOL, RSNEAPOL: followed by a RawPDU or nothing;  STP, BootP, DHCP, DHCPv6: by nothing;
      VXLAN: by EthernetII or nothing;
    * RadioTap: by the Dot11 class `Dot11::from_bytes` selects from the frame-control octet, or — only when it announces an FCS
      (the parsing constructor rejects a buffer with fewer than 4 bytes behind the options) — by nothing;
      Dot11Data / Dot11QoSData: by SNAP (not protected), by a RawPDU (protected) or by nothing; every other Dot11 class: by nothing.

  Covered classes: the link-layer family (EthernetII, Dot3, LLC, SNAP, Dot1Q, MPLS, PPPoE, SLL, Loopback), IP, IPSecAH,
  IPSecESP, IPv6 (with extension headers), UDP, TCP (with options), ICMP, ICMPv6 (both without an RFC 4884 extension
  structure), the App family (ARP, STP, VXLAN, RTP, BootP, DHCP, DHCPv6), the Wifi family (RadioTap, the 21 Dot11 classes,
  RC4EAPOL, RSNEAPOL), RawPDU.  Not covered (the predicate is `False` for them): PPI / PKTAP (not serializable).
-/
namespace Tins.Wire.ChainAll
open Tins Tins.Wire
open Tins.Wire.L2 (layerView splitRaw stripView padOf ViewEq IsTail TailInner cxOf)

/-- the payload of the final RawPDU when the rest of the stack is just that -/
def tailBytes : List AnyObj → Bytes
  | [.raw p] => p
  | _ => []

/-- classes `Internals::pdu_from_flag(Constants::IP::e, …)` constructs and `pdu_flag_to_ip_type` names: IP (IP-in-IP),
    IPv6, TCP, UDP, ICMP, ICMPv6, IPSecAH, IPSecESP -/
def ProtoTier : AnyObj → Prop
  | .ip _ => True
  | .ip6 _ => True
  | .tr _ => True
  | .icmp _ => True
  | _ => False

/-- a link-layer class in front of IP (`ver` = 4) / IPv6 (`ver` = 6); `v` is the version field of that header.  The
    EtherType classes and Loopback derive their tag from the inner class; MPLS dispatches on the first nibble of the payload -/
def l2ToNet (x : L2.Obj) (ver v : Nat) : Prop :=
  match x with
  | .eth _ => True
  | .dot1q _ => True
  | .snap _ => True
  | .sll _ => True
  | .loopback _ => True
  | .mpls m => m.bottomOfStack = 1 ∧ v = ver
  | _ => False

/-- the next-header value an IPv6 object keeps for an unrecognised payload must not itself be an extension header type -/
def Ip6TailOK (p : Ip6.Ipv6) : Prop :=
  (Ip6.Ipv6.isExtensionHeader p.finalNext && p.finalNext != Ip6.Ipv6.NO_NEXT_HEADER) = false ∧
  (Ip6.Ipv6.hasFragment p.headers = true ∨ Tags.classOfIpProto p.finalNext = none) ∧
  (p.headers = [] → p.nextHeader = p.finalNext)

/-- EthernetII, Dot1Q, SNAP, SLL: the classes that dispatch on an EtherType and derive it from the inner class
    (`pdu_flag_to_ether_type`: ARP → 0x0806, RC4EAPOL / RSNEAPOL → 0x888e) -/
def l2Ether : L2.Obj → Prop
  | .eth _ => True
  | .dot1q _ => True
  | .snap _ => True
  | .sll _ => True
  | _ => False

/-- LLC in front of STP: both SAPs are 0x42 (the writer stores them when an STP follows, the parser dispatches on them) and
    there are no XID information fields (never parsed back: KF-C04-L2-1) -/
def l2ToStp : L2.Obj → Prop
  | .llc l => l.dsap = 0x42 ∧ l.ssap = 0x42 ∧ l.infos = []
  | _ => False

/-- the protected-frame bit of the frame control field (`Dot11::wep()`): the data-frame constructors keep the body of a
    protected frame as a RawPDU and hand every other body to SNAP -/
def dot11Wep (d : Wifi.Dot11) : Bool := Wifi.byteAt d.hdr 1 / 64 % 2 == 1

/-- each layer's successor is a class its next-protocol tag names under the dispatch the parser uses, or a RawPDU under a
    tag libtins does not dispatch on, or nothing -/
def LinkAll (x : AnyObj) (r : List AnyObj) : Prop :=
  match x with
  | .l2 x =>
    (match nextA r with
     | .obj (.ip (.ip i)) _ => l2ToNet x 4 i.version
     | .obj (.ip6 (.ip6 p)) _ => l2ToNet x 6 p.version
     | .obj (.app (.arp _)) _ => l2Ether x
     | .obj (.app (.stp _)) _ => l2ToStp x
     | .obj (.wifi (.eapol e)) _ => l2Ether x ∧ EapolTyped e
     | _ => L2.Link x (L2.next r))
  | .ip (.ip o) =>
    (match nextA r with
     | .none => True
     | .raw _ => o.isFragmented = true ∨ Tags.classOfIpProto o.protocol = none   -- IP fragments carry a RawPDU
     | .obj y _ => o.isFragmented = false ∧ ProtoTier y
     | .bad => False)
  | .ip (.ah a) =>
    (match nextA r with
     | .none => True
     | .raw _ => Tags.classOfIpProto a.nextHeader = none
     | .obj y _ => ProtoTier y
     | .bad => False)
  | .ip6 (.ip6 p) =>
    (match nextA r with
     | .none => True
     | .raw _ => Ip6TailOK p
     | .obj y _ => Ip6.Ipv6.hasFragment p.headers = false ∧ ProtoTier y
     | .bad => False)
  | .ip (.esp _) | .tr _ | .icmp _ | .app (.arp _) | .app (.rtp _) | .wifi (.eapol _) =>
    (match nextA r with
     | .none => True
     | .raw _ => True
     | _ => False)
  | .app (.stp _) | .app (.bootp _) | .app (.dhcp _) | .app (.dhcpv6 _) =>       -- never build an inner PDU
    (match nextA r with
     | .none => True
     | _ => False)
  | .app (.vxlan _) =>                                                            -- `new EthernetII`, no fallback
    (match nextA r with
     | .none => True
     | .obj (.l2 (.eth _)) _ => True
     | _ => False)
  | .wifi (.radiotap t) =>            -- `Dot11::from_bytes`, no fallback; the constructor wants 4 bytes behind the options
    (match nextA r with
     | .none => t.trl = 4
     | .obj (.wifi (.dot11 d)) _ => Wifi.Dot11.dispatch (Wifi.byteAt d.hdr 0) = d.cls
     | _ => False)
  | .wifi (.dot11 d) =>                              -- management / control: nothing; data: RawPDU (protected) or SNAP
    (match nextA r with
     | .none => True
     | .raw p => p = [] ∨ (d.lay.payload = true ∧ dot11Wep d = true)
     | .obj (.l2 (.snap _)) _ => d.lay.payload = true ∧ dot11Wep d = false
     | _ => False)
  | _ => False

/-- RadioTap: at least one present word, `it_len` = 4 + |options| fits its 16 bits, and the FLAGS field (when present) does
    not carry "FCS at end" together with "bad FCS" (`RadioTap::RadioTap` throws `malformed_packet` on such frames) -/
structure RtSide (t : Wifi.RadioTap) : Prop where
  len : 4 ≤ t.payload.length ∧ 4 + t.payload.length < 65536
  flags : ∀ p0 p fv, Wifi.RtParser.init t.payload = .ok p0 →
    Wifi.RtParser.skipToField Wifi.RtParser.skipFuel p0 1 = .ok p → p.hasFields = true → t.payload[p.ptr]? = some fv →
    ¬ (fv.toNat / 16 % 2 = 1 ∧ fv.toNat / 64 % 2 = 1)

/-- the side conditions of the per-class `*_reparse` theorems:
    * IP: wire-normal options (what the parser produces: no END among them, advertised = real length); the datagram fits
      the 16-bit total length;  IPSecAH: an ICV of whole 32-bit words the length octet can announce;
    * IPv6: extension headers as a parser stores them (length field = data size, aligned to 8 octets, at most 2048
      octets: `fitsLenOctet`); the payload fits the 16-bit payload length;
    * TCP: canonical options (`Tcp.Canon`);
    * ICMP / ICMPv6: type and code are bytes; **no RFC 4884 extension structure** (`ext = ExtS.default`: the structure's
      version / reserved fields are not on the wire without objects); for the error-message types the quote is
      `ghostFree` (the re-parser finds no structure where the derived length points);  ICMPv6 additionally: an MLDv1 query
      has no MLDv2 members, and the body / option list are what the wire format can express (`BodyWire`, `OptsWire`);
    * RTP: `Rtp.Canon` (32-bit CSRC / extension words, CSRC count = stored identifiers);  BootP: the 64-byte vendor area;
      DHCP / DHCPv6: canonical options (`Dhcp.Canon`: 8-bit code, length byte = data length < 256, PAD / END bare —
      KF-WApp-6 is the excluded part; `Dhcpv6.Canon`: 16-bit code and length);
    * Dot11 classes: `Dot11.Canon` (tagged options the 8-bit length can express, none on classes without tagged parameters,
      `addr4` zero when not on the wire) and the layout of the class the object claims to be;
    * RC4EAPOL / RSNEAPOL: the key fits its 16-bit length field, an empty key goes with a zero length field (or the frame
      ends behind the sub-header: what the constructors make of a frame whose key-length field exceeds the bytes present),
      and the frame fits the 16-bit EAPOL length (`size() − 4 < 65536`);  RadioTap: `RtSide`. -/
def Side (x : AnyObj) (r : List AnyObj) : Prop :=
  match x with
  | .app (.arp _) => True
  | .app (.vxlan _) => True
  | .app (.stp _) => True
  | .app (.rtp t) => t.Canon
  | .app (.bootp p) => p.vend.length = 64
  | .app (.dhcp d) => ∀ o ∈ d.opts, App.Dhcp.Canon o
  | .app (.dhcpv6 d) => ∀ o ∈ d.opts, App.Dhcpv6.Canon o
  | .wifi (.dot11 d) => d.Canon ∧ Wifi.layoutOf d.cls = some d.lay
  | .wifi (.eapol e) => e.key.length < 65536 ∧
      (e.key = [] → Wifi.Eapol.beAt e.sub (Wifi.Eapol.keyLenOff e.rsn) 2 = 0 ∨ r = []) ∧
      e.hdrSize + sizeOfStack r < 65540
  | .wifi (.radiotap t) => RtSide t
  | .l2 _ => True
  | .ip (.ip o) => o.Normal ∧ o.hdr + sizeOfStack r < 65536
  | .ip (.ah a) => a.Repr
  | .ip (.esp _) => True
  | .ip6 (.ip6 p) => (∀ h ∈ p.headers, Ip6.Ipv6.HdrParsed h) ∧ p.hdr + sizeOfStack r - 40 < 65536
  | .tr (.udp _) => True
  | .tr (.tcp t) => ∀ o ∈ t.opts, Transport.Tcp.Canon o
  | .icmp (.icmp p) => p.Small ∧ p.ext = Icmp.ExtS.default ∧
      (Icmp.Icmp4.extAllowed p.type = true →
        Icmp.ghostFree (p.lengthFor (Icmp.Icmp4.innerOf (sizeOfStack r)) % 256 * 4) (tailBytes r))
  | .icmp (.icmp6 p) => p.Small ∧ p.ext = Icmp.ExtS.default ∧
      (p.type = 130 → p.useMldv2 = false → p.mlqm = Icmp.Icmp6.zeros 2 ∧ p.sources = []) ∧
      p.BodyWire (p.unBytes (Icmp.Icmp4.innerOf (sizeOfStack r))) (!(Icmp.Icmp6.optsBytes p.opts ++ tailBytes r).isEmpty) ∧
      p.OptsWire (tailBytes r) ∧
      (Icmp.Icmp6.extAllowed p.type = true →
        Icmp.ghostFree (Icmp.byteAt (p.unBytes (Icmp.Icmp4.innerOf (sizeOfStack r))) 0 * 8) (tailBytes r))
  | _ => False

/-- one layer above the stack `r` is representable -/
def LayerOK (x : AnyObj) (r : List AnyObj) : Prop :=
  registryPreds.Inv x ∧ registryPreds.Ser x ∧ Side x r ∧ LinkAll x r

/-- **the representability predicate over all covered families** -/
def StackableAll : List AnyObj → Prop
  | [] => True
  | .raw _ :: r => r = []
  | x :: r => LayerOK x r ∧ StackableAll r

theorem stackableAll_cons {x : AnyObj} {r : List AnyObj} (hx : isRaw x = false) :
    StackableAll (x :: r) ↔ (LayerOK x r ∧ StackableAll r) := by
  cases x <;> first | exact Iff.rfl | cases hx

theorem stackableAll_raw {p : Bytes} {r : List AnyObj} : StackableAll (.raw p :: r) ↔ r = [] := Iff.rfl

/-- every layer of a representable stack satisfies its invariant and is serializable: `serialize()` is total on it -/
theorem stackableAll_good : ∀ (os : List AnyObj), StackableAll os → ∀ o ∈ os, registryPreds.Inv o ∧ registryPreds.Ser o := by
  intro os
  induction os with
  | nil => intro _ o ho; cases ho
  | cons x r ih =>
    intro hs o ho
    cases hx : isRaw x with
    | true =>
      cases x with
      | raw p =>
        have hr : r = [] := hs
        subst hr
        simp only [List.mem_singleton] at ho
        subst ho
        exact ⟨trivial, trivial⟩
      | _ => cases hx
    | false =>
      rw [stackableAll_cons hx] at hs
      simp only [List.mem_cons] at ho
      rcases ho with rfl | ho
      · exact ⟨hs.1.1, hs.1.2.1⟩
      · exact ih hs.2 o ho

/-- `PDU::serialize()` succeeds on every representable stack -/
theorem stackableAll_serializes (os : List AnyObj) (h : StackableAll os) :
    ∃ out, serializeObjs os = .ok out ∧ out.length = Wire.sizeOf (sems os) :=
  built_packet_serializes os (stackableAll_good os h)

/-! ### the next-protocol tables on the covered classes (decided over the generated tables) -/

/-- every class the IP protocol dispatch can name gets a protocol number on serialization, and the dispatch on that number
    leads back to the class -/
theorem protoTier_roundtrip (y : AnyObj) (h : ProtoTier y) :
    Tags.ipProtoOfPduType (Tags.pduTypeOf y.info.1) ≠ 255 ∧
    Tags.ipProtoOfPduType (Tags.pduTypeOf y.info.1) < 256 ∧
    Tags.classOfIpProto (Tags.ipProtoOfPduType (Tags.pduTypeOf y.info.1)) = some y.info.1 ∧
    (Ip6.Ipv6.isExtensionHeader (Tags.ipProtoOfPduType (Tags.pduTypeOf y.info.1)) &&
      Tags.ipProtoOfPduType (Tags.pduTypeOf y.info.1) != Ip6.Ipv6.NO_NEXT_HEADER) = false := by
  cases y with
  | ip o => cases o <;> simp only [AnyObj.info, Ip.info] <;> decide
  | ip6 o => cases o; simp only [AnyObj.info, Ip6.info]; decide
  | tr o => cases o <;> simp only [AnyObj.info, Transport.info] <;> decide
  | icmp o => cases o <;> simp only [AnyObj.info, Icmp.info] <;> decide
  | raw _ => exact h.elim
  | l2 _ => exact h.elim
  | app _ => exact h.elim
  | wifi _ => exact h.elim

theorem raw_no_proto : Tags.ipProtoOfPduType (Tags.pduTypeOf "RawPDU") = 255 := by decide

end Tins.Wire.ChainAll
