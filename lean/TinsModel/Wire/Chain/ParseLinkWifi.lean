import TinsModel.Wire.Chain.ParseLinkApp
/-
  Whole-packet C03 over all covered families, the premise, part 5: the parsing constructors and factories of the Wifi family
  (the 21 Dot11 classes, `Dot11::from_bytes`, RC4EAPOL, RSNEAPOL, `EAPOL::from_bytes`, RadioTap) establish the side conditions of
  their step theorems, the link to whatever they build on the rest of the buffer, and the entry name under which the
  re-parse reaches the same class (`Dot11*`: the frame-control octet is the buffer's first byte; `EAPOL` / `EAPOL*`: the
  key-descriptor type octet selected the constructor).
-/
namespace Tins.Wire.ChainAll
open Tins Tins.Wire Tins.Wire.Wifi
open Tins.Wire.L2 (layerView splitRaw stripView padOf ViewEq IsTail TailInner cxOf)

/-! ### the Dot11 classes -/

/-- what a Dot11 parsing constructor does with the rest of the buffer, and where its frame-control octet comes from -/
theorem parseWith_facts (c : String) (l : Layout) (b : Bytes) (d : Dot11) (i : Inner)
    (h : Dot11.parseWith c l b = .ok (d, i)) :
    d.hdr = b.take 10 ∧ 10 ≤ b.length ∧
    (i = .none ∨ (l.payload = true ∧ ∃ rest, (i = .raw rest ∧ dot11Wep d = true) ∨
      (i = .cls "SNAP" rest false ∧ dot11Wep d = false))) := by
  unfold Dot11.parseWith at h
  rcases bind_ok_inv h with ⟨hdr, hb, h⟩
  rcases Dot11.parseBase_spec b with ⟨h', eh, _, hh, hb10⟩ | ⟨eh, _⟩
  · rw [eh] at hb; injection hb with hb; subst hb
    rcases bind_ok_inv h with ⟨⟨ext, a4, off⟩, _, h⟩
    dsimp only at h
    rcases bind_ok_inv h with ⟨c1, _, h⟩
    rcases bind_ok_inv h with ⟨⟨body, c2⟩, _, h⟩
    dsimp only at h
    rcases bind_ok_inv h with ⟨⟨opts, osz⟩, _, h⟩
    dsimp only at h
    split at h
    · rename_i hpl
      split at h
      · rcases bind_ok_inv h with ⟨rest, _, h⟩
        split at h
        · rename_i hw
          injection h with h; injection h with h1 h2
          subst h1; subst h2
          exact ⟨hh, hb10, .inr ⟨hpl, rest, .inl ⟨rfl, hw⟩⟩⟩
        · rename_i hw
          injection h with h; injection h with h1 h2
          subst h1; subst h2
          exact ⟨hh, hb10, .inr ⟨hpl, rest, .inr ⟨rfl, by simpa [dot11Wep] using hw⟩⟩⟩
      · injection h with h; injection h with h1 h2
        subst h1; subst h2
        exact ⟨hh, hb10, .inl rfl⟩
    · injection h with h; injection h with h1 h2
      subst h1; subst h2
      exact ⟨hh, hb10, .inl rfl⟩
  · rw [eh] at hb; cases hb

/-- where a Dot11 object returned by the family's `parse` comes from: the parsing constructor of a class with a layout — the
    class named, or (entry `Dot11*`) the one `Dot11::from_bytes` selects from the first byte -/
theorem wifi_parse_dot11 (cls : String) (b : Bytes) (d : Dot11) (i : Inner) (hc : cls ∈ Wifi.classes)
    (h : Wifi.parse cls b = .ok (.dot11 d, i)) :
    ∃ c l, Wifi.layoutOf c = some l ∧ Dot11.parseWith c l b = .ok (d, i) ∧
      (cls = c ∨ (cls = "Dot11*" ∧ c = Dot11.dispatch (Wifi.byteAt b 0))) := by
  unfold Wifi.parse at h
  split at h
  · rename_i hcls
    have hcls' : cls = "Dot11*" := by simpa using hcls
    rcases bind_ok_inv h with ⟨⟨d', j⟩, hx, hf⟩
    injection hf with hf; injection hf with h1 h2
    injection h1 with h1
    subst h1; subst h2
    unfold Dot11.fromBytes at hx
    split at hx
    · cases hx
    · rename_i hl2
      rcases bind_ok_inv hx with ⟨ctl, hctl, hx⟩
      unfold rdN at hctl
      split at hctl
      · injection hctl with hctl
        have hb0 : Wifi.byteAt ctl 0 = Wifi.byteAt b 0 := by
          rw [← hctl, List.drop_zero]
          cases b with
          | nil => simp at hl2
          | cons a t => rfl
        rw [hb0] at hx
        unfold Dot11.parse at hx
        split at hx
        · rename_i lay hlay
          exact ⟨_, lay, hlay, hx, .inr ⟨hcls', rfl⟩⟩
        · cases hx
      · cases hctl
  split at h
  · rcases bind_ok_inv h with ⟨⟨r, j⟩, _, hf⟩
    injection hf with hf; injection hf with h1 _; cases h1
  split at h
  · rcases bind_ok_inv h with ⟨⟨e, j⟩, _, hf⟩
    injection hf with hf; injection hf with h1 _; cases h1
  split at h
  · rcases bind_ok_inv h with ⟨⟨e, j⟩, _, hf⟩
    injection hf with hf; injection hf with h1 _; cases h1
  split at h
  · rcases bind_ok_inv h with ⟨r, _, hf⟩
    cases r with
    | none => injection hf with hf; injection hf with h1 _; cases h1
    | some p => injection hf with hf; injection hf with h1 _; cases h1
  · rcases bind_ok_inv h with ⟨⟨d', j⟩, hx, hf⟩
    injection hf with hf; injection hf with h1 h2
    injection h1 with h1
    subst h1; subst h2
    unfold Dot11.parse at hx
    split at hx
    · rename_i lay hlay
      exact ⟨cls, lay, hlay, hx, .inl rfl⟩
    · cases hx

/-- **every Dot11 parsing constructor (and `Dot11::from_bytes`) establishes the side conditions, the link and the entry name** -/
theorem dot11_parse_facts (cls : String) (b : Bytes) (d : Dot11) (i : Inner) (hc : cls ∈ Wifi.classes)
    (h : Wifi.parse cls b = .ok (.dot11 d, i)) :
    (∀ r, Side (.wifi (.dot11 d)) r) ∧ LinkInnerA (.wifi (.dot11 d)) i ∧ EntryName cls (.wifi (.dot11 d)) := by
  rcases wifi_parse_dot11 cls b d i hc h with ⟨c, l, hlay, hp, hname⟩
  obtain ⟨hcanon, hcls, hl⟩ := Dot11.dot11_parse_canon c l b d i hp
  obtain ⟨hhdr, hb10, hinner⟩ := parseWith_facts c l b d i hp
  have hlay' : Wifi.layoutOf d.cls = some d.lay := by rw [hcls, hl]; exact hlay
  refine ⟨fun _ => ⟨hcanon, hlay'⟩, ?_, ?_⟩
  · rcases hinner with rfl | ⟨hpl, rest, ⟨rfl, hw⟩ | ⟨rfl, hw⟩⟩
    · trivial
    · exact .inr ⟨by rw [hl]; exact hpl, hw⟩
    · refine ⟨rfl, by decide, ?_⟩
      intro y r hy hcov _
      rcases entry_is_l2 "SNAP" y (by decide) hy hcov with ⟨z, rfl, hz⟩
      cases z <;> first | exact ⟨by rw [hl]; exact hpl, hw⟩ | (simp only [L2.info] at hz; exact absurd hz (by decide))
  · rcases hname with rfl | ⟨rfl, hd⟩
    · exact .inl hcls.symm
    · refine .inr ⟨rfl, ?_⟩
      have hb0 : Wifi.byteAt d.hdr 0 = Wifi.byteAt b 0 := by
        rw [hhdr]
        cases b with
        | nil => simp at hb10
        | cons a t => rfl
      rw [hb0, hcls, hd]

/-! ### RC4EAPOL / RSNEAPOL / `EAPOL::from_bytes` -/

/-- the common header of a parsed key frame is the first 5 bytes of the buffer; the key is as long as its 16-bit length field said -/
theorem eapol_parse_facts (rsn : Bool) (b : Bytes) (e : Eapol) (i : Inner) (h : Eapol.parse rsn b = .ok (e, i)) :
    e.hdr = b.take 5 ∧ 5 ≤ b.length ∧ e.key.length < 65536 ∧ e.rsn = rsn ∧
    (e.key = [] → Eapol.beAt e.sub (Eapol.keyLenOff e.rsn) 2 = 0 ∨ i = .none) := by
  unfold Eapol.parse at h
  have i0 := Cursor.ofBytes_inv b
  rcases Cursor.read_spec (Cursor.ofBytes b) 5 i0 with ⟨hdr, c0, e0, _, _, _, hn0, hhdr, _⟩ | ⟨e0, _⟩
  · simp only [e0, bind, Out.bind] at h
    rcases Cursor.skip_spec (Cursor.ofBytes b) 5 i0 with ⟨c1, e1, i1, _, _⟩ | ⟨e1, _⟩
    · simp only [e1] at h
      rcases Cursor.read_spec c1 (Eapol.subLen rsn) i1 with ⟨sub, c2, e2, i2, _, _, _, _, _⟩ | ⟨e2, _⟩
      · simp only [e2] at h
        have hk16 : Eapol.beAt sub (Eapol.keyLenOff rsn) 2 < 65536 := by
          unfold Eapol.beAt
          exact Ip.beNat_lt_of_length _ 2 (by simp only [List.length_take]; omega)
        split at h
        · rcases Cursor.read_spec c2 (Eapol.beAt sub (Eapol.keyLenOff rsn) 2) i2 with ⟨key, c3, e3, _, hkl, _, _, _, _⟩ | ⟨e3, _⟩
          · simp only [e3] at h
            have hfin : ∀ j, (Out.ok ((⟨rsn, hdr, sub, key⟩ : Eapol), j) : Out (Eapol × Inner)) = .ok (e, i) →
                e.hdr = b.take 5 ∧ 5 ≤ b.length ∧ e.key.length < 65536 ∧ e.rsn = rsn ∧
                (e.key = [] → Eapol.beAt e.sub (Eapol.keyLenOff e.rsn) 2 = 0 ∨ i = .none) := by
              intro j hj
              injection hj with hj; injection hj with h1 _
              subst h1
              refine ⟨by simpa [Cursor.ofBytes] using hhdr, by simpa [Cursor.ofBytes] using hn0, by rw [hkl]; exact hk16, rfl, ?_⟩
              intro hk
              left
              show Eapol.beAt sub (Eapol.keyLenOff rsn) 2 = 0
              rw [← hkl]
              have : key = [] := hk
              rw [this]; rfl
            split at h
            · rcases bind_ok_inv h with ⟨rest, _, h⟩
              exact hfin _ h
            · exact hfin _ h
          · simp only [e3] at h; cases h
        · injection h with h; injection h with h1 h2
          subst h1
          exact ⟨by simpa [Cursor.ofBytes] using hhdr, by simpa [Cursor.ofBytes] using hn0, by simp, rfl, fun _ => .inr h2.symm⟩
      · simp only [e2] at h; cases h
    · simp only [e1] at h; cases h
  · simp only [e0, bind, Out.bind] at h; cases h

/-- what `EAPOL::from_bytes` returned was built by the constructor the key-descriptor type octet names -/
theorem eapol_fromBytes_typed (b : Bytes) (e : Eapol) (i : Inner) (h : Eapol.fromBytes b = .ok (some (e, i))) :
    EapolTyped e ∧ e.key.length < 65536 ∧ (∀ name pb fb, i ≠ .cls name pb fb) ∧
    (e.key = [] → Eapol.beAt e.sub (Eapol.keyLenOff e.rsn) 2 = 0 ∨ i = .none) := by
  unfold Eapol.fromBytes at h
  split at h
  · cases h
  · rename_i hl5
    rcases bind_ok_inv h with ⟨hd, hrd, h⟩
    unfold rdN at hrd
    split at hrd
    · injection hrd with hrd
      rw [List.drop_zero] at hrd
      dsimp only at h
      generalize htot : (if b.length < Eapol.beAt hd 2 2 + 4 then b.length else Eapol.beAt hd 2 2 + 4) = total at h
      have key : ∀ rsn, Eapol.parse rsn (b.take total) = .ok (e, i) → Wifi.byteAt e.hdr 4 = Wifi.byteAt hd 4 ∧
          e.key.length < 65536 ∧ e.rsn = rsn ∧ (∀ name pb fb, i ≠ .cls name pb fb) ∧
          (e.key = [] → Eapol.beAt e.sub (Eapol.keyLenOff e.rsn) 2 = 0 ∨ i = .none) := by
        intro rsn hp
        obtain ⟨hh, h5, hk, hr, hsh⟩ := eapol_parse_facts rsn _ e i hp
        refine ⟨?_, hk, hr, fun name pb fb hi => Eapol.parse_no_cls rsn _ e name pb fb (hi ▸ hp), hsh⟩
        rw [hh, ← hrd, List.take_take]
        have : 5 ≤ total := by rw [List.length_take] at h5; omega
        rw [Nat.min_eq_left this]
      split at h
      · rename_i hty
        rcases bind_ok_inv h with ⟨r, hp, h⟩
        injection h with h; injection h with h; subst h
        obtain ⟨h4, hk, hr, hnc, hsh⟩ := key false hp
        exact ⟨.inl ⟨hr, by rw [h4]; simpa using hty⟩, hk, hnc, hsh⟩
      · split at h
        · rename_i hty
          rcases bind_ok_inv h with ⟨r, hp, h⟩
          injection h with h; injection h with h; subst h
          obtain ⟨h4, hk, hr, hnc, hsh⟩ := key true hp
          exact ⟨.inr ⟨hr, by rw [h4]; simpa using hty⟩, hk, hnc, hsh⟩
        · injection h with h; cases h
    · cases hrd

/-- where an EAPOL object returned by the family's `parse` comes from -/
theorem wifi_parse_eapol (cls : String) (b : Bytes) (e : Eapol) (i : Inner) (h : Wifi.parse cls b = .ok (.eapol e, i)) :
    (cls = "RC4EAPOL" ∧ Eapol.parse false b = .ok (e, i)) ∨ (cls = "RSNEAPOL" ∧ Eapol.parse true b = .ok (e, i)) ∨
    ((cls = "EAPOL*" ∨ cls = "EAPOL") ∧ (Eapol.fromBytes b = .ok (some (e, i)) ∨
      (e = Eapol.create false ∧ i = .cls Wifi.eapolNull [] false))) := by
  unfold Wifi.parse at h
  split at h
  · rcases bind_ok_inv h with ⟨⟨d, j⟩, _, hf⟩
    injection hf with hf; injection hf with h1 _; cases h1
  split at h
  · rcases bind_ok_inv h with ⟨⟨r, j⟩, _, hf⟩
    injection hf with hf; injection hf with h1 _; cases h1
  split at h
  · rename_i hc
    rcases bind_ok_inv h with ⟨⟨e', j⟩, hx, hf⟩
    injection hf with hf; injection hf with h1 h2
    injection h1 with h1; subst h1; subst h2
    exact .inl ⟨by simpa using hc, hx⟩
  split at h
  · rename_i hc
    rcases bind_ok_inv h with ⟨⟨e', j⟩, hx, hf⟩
    injection hf with hf; injection hf with h1 h2
    injection h1 with h1; subst h1; subst h2
    exact .inr (.inl ⟨by simpa using hc, hx⟩)
  split at h
  · rename_i hc
    have hc' : cls = "EAPOL*" ∨ cls = "EAPOL" := by simpa using hc
    rcases bind_ok_inv h with ⟨r, hx, hf⟩
    cases r with
    | none =>
      injection hf with hf; injection hf with h1 h2
      injection h1 with h1
      exact .inr (.inr ⟨hc', .inr ⟨h1.symm, h2.symm⟩⟩)
    | some p =>
      obtain ⟨e', j⟩ := p
      injection hf with hf; injection hf with h1 h2
      injection h1 with h1; subst h1; subst h2
      exact .inr (.inr ⟨hc', .inl hx⟩)
  · rcases bind_ok_inv h with ⟨⟨d, j⟩, _, hf⟩
    injection hf with hf; injection hf with h1 _; cases h1

theorem eapolNull_unmodelled : modelled Wifi.eapolNull = false := by decide

/-- **the EAPOL constructors and `EAPOL::from_bytes` establish the key bound, the link and the entry name** -/
theorem eapol_parse_facts_all (cls : String) (b : Bytes) (e : Eapol) (i : Inner)
    (h : Wifi.parse cls b = .ok (.eapol e, i)) :
    e.key.length < 65536 ∧ (e.key = [] → Eapol.beAt e.sub (Eapol.keyLenOff e.rsn) 2 = 0 ∨ i = .none) ∧
    LinkInnerA (.wifi (.eapol e)) i ∧ EntryName cls (.wifi (.eapol e)) := by
  have hleaf : ∀ j : Inner, (∀ name pb fb, j ≠ .cls name pb fb) → LinkInnerA (.wifi (.eapol e)) j := by
    intro j hj
    cases j with
    | none => trivial
    | raw pb => trivial
    | cls name pb fb => exact absurd rfl (hj name pb fb)
  have hname : ∀ rsn, e.rsn = rsn → (AnyObj.wifi (.eapol e)).info.1 = if rsn then "RSNEAPOL" else "RC4EAPOL" := by
    intro rsn hr; rw [← hr]; rfl
  rcases wifi_parse_eapol cls b e i h with ⟨rfl, hp⟩ | ⟨rfl, hp⟩ | ⟨hc, hfb | ⟨rfl, rfl⟩⟩
  · obtain ⟨_, _, hk, hr, hsh⟩ := eapol_parse_facts false b e i hp
    exact ⟨hk, hsh, hleaf i (fun n pb fb hi => Eapol.parse_no_cls false b e n pb fb (hi ▸ hp)), .inl (hname false hr).symm⟩
  · obtain ⟨_, _, hk, hr, hsh⟩ := eapol_parse_facts true b e i hp
    exact ⟨hk, hsh, hleaf i (fun n pb fb hi => Eapol.parse_no_cls true b e n pb fb (hi ▸ hp)), .inl (hname true hr).symm⟩
  · obtain ⟨ht, hk, hnc, hsh⟩ := eapol_fromBytes_typed b e i hfb
    exact ⟨hk, hsh, hleaf i hnc, .inr ⟨hc.symm, ht⟩⟩
  · refine ⟨by decide, fun _ => .inl (by decide), ⟨rfl, by decide, ?_⟩, .inr ⟨hc.symm, .inl ⟨rfl, by decide⟩⟩⟩
    intro y r hy hcov _
    have := entry_modelled _ y hy hcov
    rw [eapolNull_unmodelled] at this
    cases this

/-! ### RadioTap -/

/-- **the RadioTap parsing constructor establishes `RtSide` and the link**: the options are `it_len − 4 ≥ 4` bytes, the FLAGS
    field it found does not carry FCS together with bad-FCS, nothing follows only when exactly the 4 bytes of an announced
    FCS did, and everything else went to `Dot11::from_bytes` -/
theorem radiotap_parse_facts (b : Bytes) (r : RadioTap) (i : Inner) (h : RadioTap.parse b = .ok (r, i)) :
    RtSide r ∧ LinkInnerA (.wifi (.radiotap r)) i := by
  have hwf := RadioTap.radiotap_parse_WF b r i h
  unfold RadioTap.parse at h
  have h0 := Cursor.ofBytes_inv b
  rcases Cursor.read_spec _ 4 h0 with ⟨hdr, c1, e1, i1, l1, s1, n1, _, _⟩ | ⟨e1, _⟩
  · simp only [e1, Out.bind_ok] at h
    split at h
    · cases h
    · rename_i hlen8
      split at h
      · cases h
      · rename_i hfit
        have hl16 : Dot11.leAt hdr 2 2 < 65536 := by
          unfold Dot11.leAt
          have := L2.leNat_lt ((hdr.drop 2).take 2)
          have hl : ((hdr.drop 2).take 2).length ≤ 2 := by simp only [List.length_take]; omega
          calc Cursor.leNat ((hdr.drop 2).take 2) < 256 ^ ((hdr.drop 2).take 2).length := this
            _ ≤ 256 ^ 2 := Nat.pow_le_pow_right (by omega) hl
        rcases Cursor.peek_noFault "RadioTap::RadioTap options_payload_.assign" c1 0 (Dot11.leAt hdr 2 2 - 4) i1 (by omega) with
          ⟨payload, ep, lp⟩
        rcases Cursor.skip_spec c1 (Dot11.leAt hdr 2 2 - 4) i1 with ⟨c2, e2, i2, s2, _⟩ | ⟨e2, _⟩
        · simp only [ep, e2, Out.bind_ok] at h
          rcases bind_ok_inv h with ⟨p0, hi0, h⟩
          rcases bind_ok_inv h with ⟨p, hsk, h⟩
          have hc2 : 4 ≤ c2.size := by omega
          -- the hand-over, once the number of bytes is known
          have hfin : ∀ total, (if (total != 0) = true then
                (Cursor.peek "RadioTap::RadioTap Dot11::from_bytes" c2 0 total >>= fun inner =>
                  (pure ((⟨hdr, payload⟩ : RadioTap), Inner.cls "Dot11*" inner false) : Out (RadioTap × Inner)))
              else pure (⟨hdr, payload⟩, Inner.none)) = .ok (r, i) →
              r = ⟨hdr, payload⟩ ∧ ((total = 0 ∧ i = .none) ∨ ∃ inner, i = .cls "Dot11*" inner false) := by
            intro total ht
            split at ht
            · rcases bind_ok_inv ht with ⟨inner, _, ht⟩
              injection ht with ht; injection ht with h1 h2
              exact ⟨h1.symm, .inr ⟨inner, h2.symm⟩⟩
            · rename_i hz
              injection ht with ht; injection ht with h1 h2
              exact ⟨h1.symm, .inl ⟨by simpa using hz, h2.symm⟩⟩
          -- the link, from what `hfin` says
          have hlink : ∀ total, (total = 0 → r.trl = 4) →
              ((total = 0 ∧ i = .none) ∨ ∃ inner, i = .cls "Dot11*" inner false) → LinkInnerA (.wifi (.radiotap r)) i := by
            intro total htrl hcase
            rcases hcase with ⟨h0', rfl⟩ | ⟨inner, rfl⟩
            · exact htrl h0'
            · refine ⟨rfl, by decide, ?_⟩
              intro y r' hy hcov _
              cases y with
              | raw q => exact hcov.elim
              | wifi o =>
                cases o with
                | dot11 d =>
                  rcases hy with hy | hy
                  · exfalso
                    have hcov' : Wifi.layoutOf d.cls = some d.lay := hcov
                    have : d.cls = "Dot11*" := hy.symm
                    rw [this] at hcov'
                    have hn : Wifi.layoutOf "Dot11*" = none := by decide
                    rw [hn] at hcov'
                    cases hcov'
                  · exact hy.2
                | eapol e =>
                  exfalso
                  rcases hy with hy | hy
                  · have hn : (AnyObj.wifi (.eapol e)).info.1 = if e.rsn then "RSNEAPOL" else "RC4EAPOL" := rfl
                    rw [hn] at hy
                    cases hr : e.rsn <;> simp [hr] at hy
                  · rcases hy.1 with h1 | h1 <;> exact absurd h1 (by decide)
                | radiotap t =>
                  exfalso
                  rcases hy with hy | hy
                  · simp only [AnyObj.info, Wifi.info] at hy; exact absurd hy (by decide)
                  · exact hy.elim
              | app o =>
                exfalso
                have := app_entry_names _ o hy
                revert this; decide
              | l2 z => exact (L2.no_l2_named "Dot11*" (by decide) z (entryName_eq hy (fun _ e => by cases e))).elim
              | ip o =>
                exfalso
                have := entryName_eq hy (fun _ e => by cases e)
                cases o <;> (simp only [AnyObj.info, Ip.info] at this; exact absurd this (by decide))
              | ip6 o =>
                exfalso
                have := entryName_eq hy (fun _ e => by cases e)
                cases o; simp only [AnyObj.info, Ip6.info] at this; exact absurd this (by decide)
              | tr o =>
                exfalso
                have := entryName_eq hy (fun _ e => by cases e)
                cases o <;> (simp only [AnyObj.info, Transport.info] at this; exact absurd this (by decide))
              | icmp o =>
                exfalso
                have := entryName_eq hy (fun _ e => by cases e)
                cases o <;> (simp only [AnyObj.info, Icmp.info] at this; exact absurd this (by decide))
          -- `trailer_size()` of the parsed object, through the same walk
          obtain ⟨t, ht, _⟩ := hwf.trl
          have htrl : r.trl = t := by simp only [RadioTap.trl, ht]
          have hside : ∀ (hr : r = ⟨hdr, payload⟩), (∀ fv, payload[p.ptr]? = some fv → p.hasFields = true →
              ¬ (fv.toNat / 16 % 2 = 1 ∧ fv.toNat / 64 % 2 = 1)) → RtSide r := by
            intro hr hfl
            subst hr
            refine ⟨⟨by simp only []; omega, by simp only []; omega⟩, ?_⟩
            intro p0' p' fv hi0' hsk' hpf hfv
            have e0 : p0' = p0 := by
              have := hi0'.symm.trans hi0
              injection this
            subst e0
            have e1' : p' = p := by
              have := hsk'.symm.trans hsk
              injection this
            subst e1'
            exact hfl fv hfv hpf
          split at h
          · rename_i hpf
            rcases bind_ok_inv h with ⟨fv, hfv, h⟩
            have hfv' : payload[p.ptr]? = some fv := by
              unfold rd at hfv
              split at hfv
              · rename_i b' hb'; injection hfv with hfv; rw [← hfv]; exact hb'
              · cases hfv
            split at h
            · rename_i hfcs
              split at h
              · simp only [Out.bind_throw] at h; cases h
              · split at h
                · simp only [Out.bind_throw] at h; cases h
                · rename_i hbad
                  simp only [Out.pure_eq, Out.bind_ok] at h
                  obtain ⟨hr, hcase⟩ := hfin _ h
                  have hs := hside hr (fun fv' hfv'' _ => by
                    rw [hfv'] at hfv''; injection hfv'' with e; subst e
                    intro hb; exact hbad (by simpa using hb.2))
                  refine ⟨hs, hlink _ ?_ hcase⟩
                  intro _
                  -- FCS announced: trailer_size() = 4
                  obtain ⟨p0', p', hi0', hsk', _, hf'⟩ := trlOut_inv r t ht
                  subst hr
                  have e0 : p0' = p0 := by
                    have := hi0'.symm.trans hi0
                    injection this
                  subst e0
                  have e1' : p' = p := by
                    have := hsk'.symm.trans hsk
                    injection this
                  subst e1'
                  obtain ⟨fv', hfv'', htv⟩ := hf' hpf
                  have hfv3 : payload[p'.ptr]? = some fv' := hfv''
                  rw [hfv'] at hfv3; injection hfv3 with e; subst e
                  rw [htrl, htv, if_pos hfcs]
            · rename_i hfcs
              simp only [Out.pure_eq, Out.bind_ok] at h
              obtain ⟨hr, hcase⟩ := hfin _ h
              have hs := hside hr (fun fv' hfv'' _ => by
                rw [hfv'] at hfv''; injection hfv'' with e; subst e
                intro hb; exact hfcs (by simpa using hb.1))
              exact ⟨hs, hlink _ (fun h0' => by omega) hcase⟩
          · rename_i hpf
            simp only [Out.pure_eq, Out.bind_ok] at h
            obtain ⟨hr, hcase⟩ := hfin _ h
            have hs := hside hr (fun fv' _ hpf' => absurd hpf' hpf)
            exact ⟨hs, hlink _ (fun h0' => by omega) hcase⟩
        · omega
  · simp only [e1, Out.bind_throw] at h; cases h

/-- where a RadioTap object returned by the family's `parse` comes from -/
theorem wifi_parse_radiotap (cls : String) (b : Bytes) (t : RadioTap) (i : Inner)
    (h : Wifi.parse cls b = .ok (.radiotap t, i)) : cls = "RadioTap" ∧ RadioTap.parse b = .ok (t, i) := by
  unfold Wifi.parse at h
  split at h
  · rcases bind_ok_inv h with ⟨⟨d, j⟩, _, hf⟩
    injection hf with hf; injection hf with h1 _; cases h1
  split at h
  · rename_i hc
    rcases bind_ok_inv h with ⟨⟨r, j⟩, hx, hf⟩
    injection hf with hf; injection hf with h1 h2
    injection h1 with h1; subst h1; subst h2
    exact ⟨by simpa using hc, hx⟩
  split at h
  · rcases bind_ok_inv h with ⟨⟨e, j⟩, _, hf⟩
    injection hf with hf; injection hf with h1 _; cases h1
  split at h
  · rcases bind_ok_inv h with ⟨⟨e, j⟩, _, hf⟩
    injection hf with hf; injection hf with h1 _; cases h1
  split at h
  · rcases bind_ok_inv h with ⟨r, _, hf⟩
    cases r with
    | none => injection hf with hf; injection hf with h1 _; cases h1
    | some p => injection hf with hf; injection hf with h1 _; cases h1
  · rcases bind_ok_inv h with ⟨⟨d, j⟩, _, hf⟩
    injection hf with hf; injection hf with h1 _; cases h1

end Tins.Wire.ChainAll
