import TinsModel.Wire.Chain.ParseLink
/-
  Whole-packet C03 over all covered families, the premise, part 2: the parsing constructors of IP, IPSecAH, IPSecESP, IPv6,
  UDP, TCP, ICMP and ICMPv6 establish the link to whatever they build on the rest of the buffer.  For IPv6 this is an
  invariant of the extension-header loop (`parseLoop_link`): the fragment flag is "some stored header is a fragment header",
  the payload is dispatched on a value that is not an extension-header type, and without extension headers that value is
  the fixed header's next-header octet.
-/
namespace Tins.Wire.ChainAll
open Tins Tins.Wire
open Tins.Wire.L2 (layerView splitRaw stripView padOf ViewEq IsTail TailInner cxOf)

/-- names `Internals::pdu_from_flag(Constants::IP::e, …)` can construct -/
def protoNames : List String := ["IP", "TCP", "UDP", "ICMP", "ICMPv6", "IPv6", "IPSecAH", "IPSecESP"]

theorem classOfIpProto_mem (t : Nat) (c : String) (h : Tags.classOfIpProto t = some c) : c ∈ protoNames := by
  unfold Tags.classOfIpProto Tags.assocNat at h
  cases hf : List.find? (fun x => x.1 == t) Gen.Tags.ipProtoToClass with
  | none => rw [hf] at h; cases h
  | some p =>
    rw [hf] at h
    simp only [Option.map_some, Option.some.injEq] at h
    have hm := List.mem_of_find?_eq_some hf
    have hall : ∀ q ∈ Gen.Tags.ipProtoToClass, q.2 ∈ protoNames := by decide
    rw [← h]; exact hall p hm

/-- no entry of the Wifi family and no class of the App family is a name the IP protocol dispatch constructs -/
theorem protoNames_wifi : ∀ c ∈ Wifi.classes, c ∉ protoNames := by decide
theorem protoNames_app : ∀ c ∈ App.classes, c ∉ protoNames := by decide

theorem protoTier_of_name (y : AnyObj) (c : String) (hy : EntryName c y) (h : c ∈ protoNames) (hc : Coverable y) :
    ProtoTier y := by
  cases y with
  | raw p => exact hc.elim
  | app o => exact absurd h (protoNames_app c (app_entry_names c o hy))
  | wifi o => exact absurd h (protoNames_wifi c (wifi_entry_names c o hy hc))
  | ip o => trivial
  | ip6 o => trivial
  | tr o => trivial
  | icmp o => trivial
  | l2 z =>
    exfalso
    have hn := entryName_eq hy (fun _ e => by cases e)
    rw [← hn] at h
    simp only [protoNames, List.mem_cons, List.mem_nil_iff, or_false] at h
    rcases h with h | h | h | h | h | h | h | h <;> exact L2.no_l2_named _ (by decide) z h

theorem coverable_not_raw (y : AnyObj) (h : Coverable y) : isRaw y = false := by
  cases y <;> first | rfl | exact h.elim

theorem protoNames_not_raw {c : String} (h : c ∈ protoNames) : c ≠ "RawPDU" := by
  intro e; subst e; revert h; decide

/-! ### IP, IPSecAH, IPSecESP -/

theorem ip4_dispatch_link (o : Ip.Ip4) (pl : Bytes) : LinkInnerA (.ip (.ip o)) (o.dispatch pl) := by
  unfold Ip.Ip4.dispatch
  by_cases hf : o.isFragmented = true
  · simp only [hf, Bool.not_true, Bool.false_eq_true, if_false]
    show o.isFragmented = true ∨ _
    exact .inl hf
  · have hf' : o.isFragmented = false := by simpa using hf
    simp only [hf', Bool.not_false, if_true]
    cases hc : Tags.classOfIpProto o.protocol with
    | none =>
      show o.isFragmented = true ∨ _
      exact .inr hc
    | some c =>
      have hm := classOfIpProto_mem _ _ hc
      refine ⟨rfl, protoNames_not_raw hm, ?_⟩
      intro y r hy hcov _
      simp only [LinkAll, nextA_cons_of_not_raw y r (coverable_not_raw y hcov)]
      exact ⟨hf', protoTier_of_name y c hy hm hcov⟩

theorem ip4_parse_linkA (b : Bytes) (o : Ip.Ip4) (i : Inner) (h : Ip.Ip4.parse b = .ok (o, i)) :
    LinkInnerA (.ip (.ip o)) i := by
  rcases Ip.ip4_parse_cases b with h' | ⟨opts, _, _, _, _, _, _, h'⟩
  · rw [h'] at h; cases h
  · rw [h'] at h
    split at h
    · injection h with h; injection h with ho hi
      subst ho; subst hi
      exact ip4_dispatch_link _ _
    · injection h with h; injection h with ho hi
      subst ho; subst hi
      trivial

theorem ah_parse_linkA (b : Bytes) (a : Ip.Ah) (i : Inner) (h : Ip.Ah.parse b = .ok (a, i)) :
    LinkInnerA (.ip (.ah a)) i := by
  rcases Ip.ah_parse_cases b with h' | ⟨_, _, _, h'⟩
  · rw [h'] at h; cases h
  · rw [h'] at h
    split at h
    · injection h with h; injection h with ho hi
      subst ho; subst hi
      unfold Ip.Ah.dispatch
      generalize ha : ({ Ip.Ah.ofHeader (b.take 12) with
        icv := (b.drop 12).take (4 * ((Ip.Ah.ofHeader (b.take 12)).length + 2) - 12) } : Ip.Ah) = a
      cases hc : Tags.classOfIpProto a.nextHeader with
      | none => exact hc
      | some c =>
        have hm := classOfIpProto_mem _ _ hc
        refine ⟨rfl, protoNames_not_raw hm, ?_⟩
        intro y r hy hcov _
        simp only [LinkAll, nextA_cons_of_not_raw y r (coverable_not_raw y hcov)]
        exact protoTier_of_name y c hy hm hcov
    · injection h with h; injection h with ho hi
      subst ho; subst hi
      trivial

theorem esp_parse_linkA (b : Bytes) (e : Ip.Esp) (i : Inner) (h : Ip.Esp.parse b = .ok (e, i)) :
    LinkInnerA (.ip (.esp e)) i := by
  cases i with
  | none => trivial
  | raw pb => trivial
  | cls name pb fb => exact absurd h (Ip.esp_parse_no_cls b e name pb fb)

/-! ### UDP, TCP, ICMP, ICMPv6: RawPDU or nothing -/

theorem udp_parse_linkA (b : Bytes) (u : Transport.Udp) (i : Inner) (h : Transport.Udp.parse b = .ok (u, i)) :
    LinkInnerA (.tr (.udp u)) i := by
  cases i with
  | none => trivial
  | raw pb => trivial
  | cls name pb fb => exact absurd h (Transport.udp_parse_no_cls b u name pb fb)

theorem tcp_parse_linkA (b : Bytes) (t : Transport.Tcp) (i : Inner) (h : Transport.Tcp.parse b = .ok (t, i)) :
    LinkInnerA (.tr (.tcp t)) i := by
  cases i with
  | none => trivial
  | raw pb => trivial
  | cls name pb fb => exact absurd h (Transport.tcp_parse_no_cls b t name pb fb)

theorem icmp_parse_linkA (b : Bytes) (p : Icmp.Icmp4) (i : Inner) (h : Icmp.Icmp4.parse b = .ok (p, i)) :
    LinkInnerA (.icmp (.icmp p)) i := by
  cases i with
  | none => trivial
  | raw pb => trivial
  | cls name pb fb => exact absurd h (Icmp.icmp_parse_no_cls b p name pb fb)

theorem icmp6_parse_linkA (b : Bytes) (p : Icmp.Icmp6) (i : Inner) (h : Icmp.Icmp6.parse b = .ok (p, i)) :
    LinkInnerA (.icmp (.icmp6 p)) i := by
  cases i with
  | none => trivial
  | raw pb => trivial
  | cls name pb fb => exact absurd h (Icmp.icmp6_parse_no_cls b p name pb fb)

end Tins.Wire.ChainAll
