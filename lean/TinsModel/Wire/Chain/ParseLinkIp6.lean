import TinsModel.Wire.Chain.ParseLinkNet
/-
  Whole-packet C03 over all covered families, the premise, part 3: the IPv6 parsing constructor establishes the link —
  an invariant of the extension-header loop (`parseLoop_link`).
-/
namespace Tins.Wire.ChainAll
open Tins Tins.Wire Tins.Wire.Ip6 Tins.Wire.Ip6.Ipv6
open Tins.Wire.L2 (layerView splitRaw stripView padOf ViewEq IsTail TailInner cxOf)

theorem bind_ok_inv {α β} {x : Out α} {f : α → Out β} {r : β} (h : (x >>= f) = .ok r) : ∃ a, x = .ok a ∧ f a = .ok r := by
  cases x with
  | ok a => exact ⟨a, rfl, h⟩
  | throw e => cases h
  | fault s => cases h

/-- one round of the extension-header branch: the fragment flag and the header list as the loop updates them -/
theorem extStep_shape (c : Cursor) (st : LoopSt) (c' : Cursor) (st' : LoopSt) (h : extStep c st = .ok (c', st')) :
    st'.frag = (st.frag || st.cur == FRAGMENT) ∧ ∃ hd, st'.hs = st.hs ++ [hd] ∧ hd.option = st.cur := by
  unfold extStep at h
  rcases bind_ok_inv h with ⟨⟨extType, c1⟩, _, h⟩
  rcases bind_ok_inv h with ⟨⟨l, c2⟩, _, h⟩
  dsimp only at h
  split at h
  · cases h
  · rcases bind_ok_inv h with ⟨d, _, h⟩
    rcases bind_ok_inv h with ⟨apl, _, h⟩
    rcases bind_ok_inv h with ⟨c3, _, h⟩
    injection h with h
    injection h with h1 h2
    subst h2
    exact ⟨rfl, _, rfl, rfl⟩

/-- what the loop's final decision says about the link, in terms of the stored headers `hs`, the final `current_header`
    and the fixed header's next-header octet `nh0` -/
def Ip6LinkInner (hs : List ExtHdr) (cur nh0 : Nat) (inner : Inner) : Prop :=
  match inner with
  | .none => True
  | .raw _ => (isExtensionHeader cur && cur != NO_NEXT_HEADER) = false ∧
      (hasFragment hs = true ∨ Tags.classOfIpProto cur = none) ∧ (hs = [] → nh0 = cur)
  | .cls name _ fb => fb = false ∧ hasFragment hs = false ∧ Tags.classOfIpProto cur = some name

theorem hasFragment_append (hs : List ExtHdr) (hd : ExtHdr) :
    hasFragment (hs ++ [hd]) = (hasFragment hs || hd.option == FRAGMENT) := by
  simp [hasFragment]

/-- **the extension-header loop establishes the link** (invariant: the fragment flag is "some stored header is a fragment
    header"; while no header is stored, `current_header` is the fixed header's next-header octet) -/
theorem parseLoop_link (nh0 : Nat) : ∀ (fuel : Nat) (c : Cursor) (st : LoopSt), st.frag = hasFragment st.hs →
    (st.hs = [] → nh0 = st.cur) → ∀ hs cur inner, parseLoop fuel c st = .ok (hs, cur, inner) →
    Ip6LinkInner hs cur nh0 inner := by
  intro fuel
  induction fuel with
  | zero => intro c st _ _ hs cur inner h; simp [parseLoop] at h
  | succ fuel ih =>
    intro c st hfr h0 hs cur inner h
    rw [parseLoop_succ] at h
    split at h
    · injection h with h; injection h with _ h2; injection h2 with _ h3
      subst h3; trivial
    · split at h
      · rcases bind_ok_inv h with ⟨⟨c', st'⟩, he, h⟩
        rcases extStep_shape c st c' st' he with ⟨hf', hd, hhs, hopt⟩
        apply ih c' st' _ _ hs cur inner h
        · rw [hf', hhs, hasFragment_append, hfr, hopt]
        · intro hnil; rw [hhs] at hnil; simp at hnil
      · rename_i hnext
        have hnl : (isExtensionHeader st.cur && st.cur != NO_NEXT_HEADER) = false := by simpa using hnext
        unfold payloadStep at h
        split at h
        · cases h
        · rcases bind_ok_inv h with ⟨pb, _, h⟩
          split at h
          · rename_i hfrag
            injection h with h; injection h with h1 h2; injection h2 with h2 h3
            subst h1; subst h2; subst h3
            exact ⟨hnl, .inl (by rw [← hfr]; exact hfrag), h0⟩
          · rename_i hfrag
            have hfrag' : hasFragment st.hs = false := by rw [← hfr]; simpa using hfrag
            split at h
            · rename_i cls hc
              injection h with h; injection h with h1 h2; injection h2 with h2 h3
              subst h1; subst h2; subst h3
              exact ⟨rfl, hfrag', hc⟩
            · rename_i hc
              injection h with h; injection h with h1 h2; injection h2 with h2 h3
              subst h1; subst h2; subst h3
              exact ⟨hnl, .inr hc, h0⟩

/-- **the IPv6 parsing constructor establishes the link** -/
theorem ip6_parse_linkA (b : Bytes) (p : Ipv6) (i : Inner) (h : Ipv6.parse b = .ok (p, i)) :
    LinkInnerA (.ip6 (.ip6 p)) i := by
  rw [parse_unfold] at h
  split at h
  · cases h
  · dsimp only at h
    rcases bind_ok_inv h with ⟨⟨hs, cur, inner⟩, hl, h⟩
    injection h with h; injection h with hp hi
    subst hp; subst hi
    have hk := parseLoop_link (ofHeader (b.take 40)).nextHeader _ _ _ rfl (fun _ => rfl) hs cur inner hl
    cases inner with
    | none => trivial
    | raw pb =>
      show Ip6TailOK _
      exact ⟨hk.1, hk.2.1, hk.2.2⟩
    | cls name pb fb =>
      obtain ⟨hfb, hfr, hc⟩ := hk
      have hm := classOfIpProto_mem _ _ hc
      refine ⟨hfb, protoNames_not_raw hm, ?_⟩
      intro y r hy hcov _
      simp only [LinkAll, nextA_cons_of_not_raw y r (coverable_not_raw y hcov)]
      exact ⟨hfr, protoTier_of_name y name hy hm hcov⟩

end Tins.Wire.ChainAll
