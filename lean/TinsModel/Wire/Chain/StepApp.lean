import TinsModel.Wire.Chain.StepL2
/-
  Whole-packet C03 over all covered families, part 3d: the one-layer steps of the App family (ARP, STP, VXLAN, RTP, BootP,
  DHCP, DHCPv6) and the link-layer steps that lead into it and into EAPOL.

    * `arp_step`, `stp_step`          ARP hands whatever follows its 28 bytes to RawPDU (minimum-frame padding of an enclosing
                                      EthernetII included: it becomes ARP's payload, `cut` = identity); STP ignores it;
    * `vxlan_step`                    VXLAN (entry class) in front of EthernetII;
    * `bootp_step`, `dhcp_step`, `dhcpv6_step`, `rtp_step`   the entry classes that end a stack (RTP: over an optional RawPDU,
                                      with its padding trailer: `rtp_write_eq` is the explicit form of `rtp_writesOnlyExact`);
    * `l2_step_ext`                   EthernetII / Dot1Q / SNAP / SLL in front of ARP (EtherType 0x0806) and of RC4EAPOL /
                                      RSNEAPOL (0x888e: the dispatch names `EAPOL`, i.e. `EAPOL::from_bytes`);
    * `llc_step_stp`                  LLC (DSAP = SSAP = 0x42) in front of STP.
-/
namespace Tins.Wire.ChainAll
open Tins Tins.Wire Tins.Wire.App
open Tins.Wire.L2 (layerView splitRaw stripView padOf ViewEq IsTail TailInner cxOf)

/-! ### generic pieces -/

theorem tailInner_ite (q : Bytes) : TailInner (if q.isEmpty then Inner.none else Inner.raw q) q := by
  cases q with
  | nil => exact .inl ⟨rfl, rfl⟩
  | cons a t => exact .inr rfl

/-- a class that hands everything behind its header — `c` zero bytes of an enclosing layer's padding included — to RawPDU -/
theorem leaf_stepInner_pad (x x' : AnyObj) (os : List AnyObj) (io : Bytes) (k' c : Nat) (inner : Inner) (hc : cut x k' = c)
    (hlink : nextA os = .none ∨ ∃ p, nextA os = .raw p)
    (hinner : TailInner inner (io ++ List.replicate c 0))
    (hview : ∀ b, layerView b x' = layerView b x)
    (hnil : os = [] → io = []) (hraw : ∀ p, os = [.raw p] → io = p) : StepInnerA x os io k' x' inner := by
  unfold StepInnerA
  rw [hc]
  rcases hlink with hnx | ⟨p, hnx⟩
  · rw [hnx]
    have hio0 := hnil (nextA_none hnx); subst hio0
    simpa using hinner
  · rw [hnx]
    have hiop := hraw p (nextA_raw hnx); subst hiop
    exact ⟨hview _, hinner⟩

/-- a class that never builds an inner PDU, at the end of a stack -/
theorem none_stepInner (x x' : AnyObj) (os : List AnyObj) (io : Bytes) (k' : Nat) (hc : cut x k' = 0)
    (hlink : nextA os = .none) : StepInnerA x os io k' x' .none := by
  unfold StepInnerA
  rw [hlink, hc]
  exact .inl ⟨rfl, rfl⟩

/-- the link of a class that carries nothing -/
theorem none_link {os : List AnyObj} (h : match nextA os with | .none => True | _ => False) : nextA os = .none := by
  cases hnx : nextA os with
  | none => rfl
  | raw p => rw [hnx] at h; exact h.elim
  | obj y r => rw [hnx] at h; exact h.elim
  | bad => rw [hnx] at h; exact h.elim

/-- `stepInnerA_obj` for a dispatch under any entry name of the successor -/
theorem stepInnerA_objN (x x' y : AnyObj) (r : List AnyObj) (io : Bytes) (k' c : Nat) (inner : Inner) (n : String) (fb : Bool)
    (hy : isRaw y = false) (hc : cut x k' = c) (hin : inner = .cls n (io ++ List.replicate c 0) fb)
    (hen : EntryName n y) (hp : c = 0 ∨ PadOKN n y) : StepInnerA x (y :: r) io k' x' inner := by
  unfold StepInnerA
  rw [nextA_cons_of_not_raw y r hy]
  exact ⟨n, fb, by rw [hc]; exact hin, hen, by rw [hc]; exact hp⟩

/-- `write_serialization` of an App object on its exact region keeps the length (from the family's C02 theorem) -/
theorem app_write_length (ps : List LayerInfo) (o : App.Obj) (os : List AnyObj) (hi : App.ObjInv o) (hs : App.Serializable o)
    (region : Bytes) (hlen : region.length = App.hdr o + sizeOfStack os + App.trl o (sizeOfStack os)) :
    ∃ out, App.write (cxOf ps os) o region = .ok out ∧ out.length = region.length := by
  rcases App.app_writesOnlyAt (cxOf ps os) o hi hs region (by simp only [App.appSem, cxOf_innerSizeA]; exact hlen) with
    ⟨out, hw, hl, _⟩
  exact ⟨out, hw, hl⟩

/-! ### the registry's dispatch on the classes of the family -/

theorem parseOne_app (cls : String) (b : Bytes) (o : App.Obj) (i : Inner) (h0 : (cls == "RawPDU") = false)
    (h1 : L2.classes.contains cls = false) (h2 : Ip.classes.contains cls = false) (h3 : Ip6.classes.contains cls = false)
    (h4 : Icmp.classes.contains cls = false) (h5 : Transport.classes.contains cls = false)
    (h6 : App.classes.contains cls = true) (h : App.parse cls b = .ok (o, i)) : parseOne cls b = .ok (.app o, i) := by
  simp only [parseOne, h0, h1, h2, h3, h4, h5, h6, Bool.false_eq_true, if_false, if_true, h, bind, Out.bind, pure]

theorem app_parse_of {α} (p : Out (α × Inner)) (mk : α → App.Obj) (a : α) (i : Inner) (h : p = .ok (a, i)) :
    (p >>= fun (o, i) => pure (mk o, i)) = .ok (mk a, i) := by
  rw [h]; rfl

theorem parseOne_arp (b : Bytes) (a : Arp) (i : Inner) (h : Arp.parse b = .ok (a, i)) :
    parseOne "ARP" b = .ok (.app (.arp a), i) :=
  parseOne_app _ b _ i (by decide) (by decide) (by decide) (by decide) (by decide) (by decide) (by decide)
    (app_parse_of _ .arp a i h)

theorem parseOne_vxlan (b : Bytes) (a : Vxlan) (i : Inner) (h : Vxlan.parse b = .ok (a, i)) :
    parseOne "VXLAN" b = .ok (.app (.vxlan a), i) :=
  parseOne_app _ b _ i (by decide) (by decide) (by decide) (by decide) (by decide) (by decide) (by decide)
    (app_parse_of _ .vxlan a i h)

theorem parseOne_stp (b : Bytes) (a : Stp) (i : Inner) (h : Stp.parse b = .ok (a, i)) :
    parseOne "STP" b = .ok (.app (.stp a), i) :=
  parseOne_app _ b _ i (by decide) (by decide) (by decide) (by decide) (by decide) (by decide) (by decide)
    (app_parse_of _ .stp a i h)

theorem parseOne_rtp (b : Bytes) (a : Rtp) (i : Inner) (h : Rtp.parse b = .ok (a, i)) :
    parseOne "RTP" b = .ok (.app (.rtp a), i) :=
  parseOne_app _ b _ i (by decide) (by decide) (by decide) (by decide) (by decide) (by decide) (by decide)
    (app_parse_of _ .rtp a i h)

theorem parseOne_bootp (b : Bytes) (a : BootP) (i : Inner) (h : BootP.parse b = .ok (a, i)) :
    parseOne "BootP" b = .ok (.app (.bootp a), i) :=
  parseOne_app _ b _ i (by decide) (by decide) (by decide) (by decide) (by decide) (by decide) (by decide)
    (app_parse_of _ .bootp a i h)

theorem parseOne_dhcp (b : Bytes) (a : Dhcp) (i : Inner) (h : Dhcp.parse b = .ok (a, i)) :
    parseOne "DHCP" b = .ok (.app (.dhcp a), i) :=
  parseOne_app _ b _ i (by decide) (by decide) (by decide) (by decide) (by decide) (by decide) (by decide)
    (app_parse_of _ .dhcp a i h)

theorem parseOne_dhcpv6 (b : Bytes) (a : Dhcpv6) (i : Inner) (h : Dhcpv6.parse b = .ok (a, i)) :
    parseOne "DHCPv6" b = .ok (.app (.dhcpv6 a), i) :=
  parseOne_app _ b _ i (by decide) (by decide) (by decide) (by decide) (by decide) (by decide) (by decide)
    (app_parse_of _ .dhcpv6 a i h)

/-! ### ARP, STP -/

/-- **ARP step**: whatever follows the 28 bytes — payload and `k` zero bytes of an enclosing EthernetII / Dot1Q's minimum-frame
    padding — becomes the RawPDU -/
theorem arp_step (ps : List LayerInfo) (a : Arp) (os : List AnyObj) (hi : a.Inv) (hlink : LinkAll (.app (.arp a)) os)
    (k : Nat) (region io : Bytes) (hlen : region.length = 28 + sizeOfStack os) (hio : region.drop 28 = io)
    (hnil : os = [] → io = []) (hraw : ∀ p, os = [.raw p] → io = p) :
    ∃ out x' inner, a.write (cxOf ps os) region = .ok out ∧ out.length = region.length ∧
      parseOne "ARP" (out ++ List.replicate k 0) = .ok (x', inner) ∧
      layerView false x' = layerView false (.app (.arp a)) ∧
      StepInnerA (.app (.arp a)) os io k x' inner := by
  rcases header_write a.h region 28 hi (by omega) with ⟨out, hw, hl, _, he⟩
  rw [hio] at he
  have hp := arp_reparse a hi (io ++ List.replicate k 0)
  rw [← List.append_assoc, ← he] at hp
  refine ⟨out, _, _, hw, hl, parseOne_arp _ _ _ hp, rfl, ?_⟩
  exact leaf_stepInner_pad _ _ os io k k _ rfl (leaf_link hlink) (tailInner_ite _) (fun _ => rfl) hnil hraw

/-- **STP step**: the constructor reads its 35 bytes and ignores the rest -/
theorem stp_step (ps : List LayerInfo) (s : Stp) (os : List AnyObj) (hi : s.Inv) (hlink : LinkAll (.app (.stp s)) os)
    (k : Nat) (region io : Bytes) (hlen : region.length = 35 + sizeOfStack os) :
    ∃ out x' inner, s.write (cxOf ps os) region = .ok out ∧ out.length = region.length ∧
      parseOne "STP" (out ++ List.replicate k 0) = .ok (x', inner) ∧
      layerView false x' = layerView false (.app (.stp s)) ∧
      StepInnerA (.app (.stp s)) os io k x' inner := by
  rcases header_write s.h region 35 hi (by omega) with ⟨out, hw, hl, _, he⟩
  have hp := stp_reparse s hi (region.drop 35 ++ List.replicate k 0)
  rw [← List.append_assoc, ← he] at hp
  exact ⟨out, _, _, hw, hl, parseOne_stp _ _ _ hp, rfl, none_stepInner _ _ os io k rfl (none_link hlink)⟩

/-! ### VXLAN -/

/-- what can follow VXLAN -/
theorem vxlan_link_cases (v : Vxlan) (os : List AnyObj) (h : LinkAll (.app (.vxlan v)) os) :
    os = [] ∨ ∃ e r, os = .l2 (.eth e) :: r := by
  cases hnx : nextA os with
  | none => exact .inl (nextA_none hnx)
  | raw p => simp only [LinkAll, hnx] at h
  | bad => simp only [LinkAll, hnx] at h
  | obj y r =>
    have hos := (nextA_obj hnx).1
    cases y with
    | l2 z =>
      cases z with
      | eth e => exact .inr ⟨e, r, hos⟩
      | _ => simp only [LinkAll, hnx] at h
    | _ => simp only [LinkAll, hnx] at h

/-- **VXLAN step** (entry class: nothing follows its region) -/
theorem vxlan_step (ps : List LayerInfo) (v : Vxlan) (os : List AnyObj) (hi : v.Inv) (hlink : LinkAll (.app (.vxlan v)) os)
    (region io : Bytes) (hlen : region.length = 8 + sizeOfStack os) (hio : region.drop 8 = io)
    (hnil : os = [] → io = []) (hpos : ∀ y r, nextA os = .obj y r → 0 < io.length) :
    ∃ out x' inner, v.write (cxOf ps os) region = .ok out ∧ out.length = region.length ∧
      parseOne "VXLAN" out = .ok (x', inner) ∧
      layerView false x' = layerView false (.app (.vxlan v)) ∧
      StepInnerA (.app (.vxlan v)) os io 0 x' inner := by
  rcases header_write v.h region 8 hi (by omega) with ⟨out, hw, hl, _, he⟩
  rw [hio] at he
  have hp := vxlan_reparse v hi io
  rw [← he] at hp
  refine ⟨out, _, _, hw, hl, parseOne_vxlan _ _ _ hp, rfl, ?_⟩
  rcases vxlan_link_cases v os hlink with rfl | ⟨e, r, rfl⟩
  · have := hnil rfl; subst this
    exact none_stepInner _ _ [] [] 0 rfl rfl
  · have hpos' := hpos (.l2 (.eth e)) r rfl
    have hne : io.isEmpty = false := by
      cases io with
      | nil => simp at hpos'
      | cons a t => rfl
    rw [hne]
    exact stepInnerA_obj _ _ (.l2 (.eth e)) r io 0 0 _ false rfl rfl (by simp [AnyObj.info, L2.info]) (.inl rfl)

/-! ### BootP, DHCP, DHCPv6: entry classes that end a stack -/

/-- **BootP step** (the 64-byte vendor area the wire format fixes) -/
theorem bootp_step (ps : List LayerInfo) (p : BootP) (os : List AnyObj) (hi : p.Inv) (hv : p.vend.length = 64)
    (hlink : LinkAll (.app (.bootp p)) os) (region io : Bytes) (hlen : region.length = p.hdr + sizeOfStack os) :
    ∃ out x' inner, p.write (cxOf ps os) region = .ok out ∧ out.length = region.length ∧
      parseOne "BootP" out = .ok (x', inner) ∧
      layerView false x' = layerView false (.app (.bootp p)) ∧
      StepInnerA (.app (.bootp p)) os io 0 x' inner := by
  have hh : p.hdr = 236 + p.vend.length := rfl
  have hl236 : p.h.length = 236 := hi
  have hw := bootp_write_eq (cxOf ps os) p region (by omega)
  have hp := bootp_reparse p hi hv (region.drop (p.h.length + p.vend.length))
  refine ⟨_, _, _, hw, ?_, parseOne_bootp _ _ _ hp, rfl, none_stepInner _ _ os io 0 rfl (none_link hlink)⟩
  simp only [List.length_append, List.length_drop]; omega

theorem dhcp_view_of (b : Bool) (d : Dhcp) (v : Bytes) :
    layerView b (.app (.dhcp ⟨d.h, v, d.opts, d.size⟩)) = layerView b (.app (.dhcp d)) := rfl

/-- **DHCP step** (canonical options: what a parser produces; KF-WApp-6 is the excluded part) -/
theorem dhcp_step (ps : List LayerInfo) (d : Dhcp) (os : List AnyObj) (hi : d.InvM) (hf : d.Fits)
    (hc : ∀ o ∈ d.opts, Dhcp.Canon o) (hlink : LinkAll (.app (.dhcp d)) os) (region io : Bytes)
    (hlen : region.length = d.hdr + sizeOfStack os) :
    ∃ out x' inner, d.write (cxOf ps os) region = .ok out ∧ out.length = region.length ∧
      parseOne "DHCP" out = .ok (x', inner) ∧
      layerView false x' = layerView false (.app (.dhcp d)) ∧
      StepInnerA (.app (.dhcp d)) os io 0 x' inner := by
  have hnx := none_link hlink
  have hos := nextA_none hnx; subst hos
  have hinv := dhcp_inv_of_invM d hi hf
  have hsz := hinv.size
  have hfits : 4 + Dhcp.wireSum d.opts < 4294967296 := hf
  rcases dhcp_write_reparse (cxOf ps []) d hinv hc (by omega) region hlen with ⟨out, hw, hp⟩
  rcases app_write_length ps (.dhcp d) [] hi hf region hlen with ⟨out', hw', hl'⟩
  have : out' = out := by
    have := hw'.symm.trans hw
    injection this
  subst this
  exact ⟨out', _, _, hw, hl', parseOne_dhcp _ _ _ hp, dhcp_view_of false d [], none_stepInner _ _ [] io 0 rfl rfl⟩

theorem dhcpv6_view_plain (b : Bool) (d : Dhcpv6) (hrel : d.isRelay = false) (l p : Bytes) (n : Nat) :
    layerView b (.app (.dhcpv6 ⟨d.h, l, p, d.opts, n⟩)) = layerView b (.app (.dhcpv6 d)) := by
  have h1 : Dhcpv6.isRelay ⟨d.h, l, p, d.opts, n⟩ = false := hrel
  simp only [layerView, AnyObj.info, App.info, Dhcpv6.fields, h1, hrel]
  rfl

theorem dhcpv6_view_relay (b : Bool) (d : Dhcpv6) (hl : d.h.length = 4) (hrel : d.isRelay = true) (n : Nat) :
    layerView b (.app (.dhcpv6 ⟨d.h.take 2 ++ [0, 0], d.link, d.peer, d.opts, n⟩)) = layerView b (.app (.dhcpv6 d)) := by
  obtain ⟨b0, b1, b2, b3, hd⟩ : ∃ b0 b1 b2 b3, d.h = [b0, b1, b2, b3] := by
    match hdh : d.h, hl with
    | [a, b, c, e], _ => exact ⟨a, b, c, e, rfl⟩
  have hm : Dhcpv6.msgType ⟨d.h.take 2 ++ [0, 0], d.link, d.peer, d.opts, n⟩ = d.msgType := by
    simp [Dhcpv6.msgType, getU8, getBE, slice, hd]
  have hr : Dhcpv6.isRelay ⟨d.h.take 2 ++ [0, 0], d.link, d.peer, d.opts, n⟩ = true := by
    simp only [Dhcpv6.isRelay, hm]; exact hrel
  have hh : getU8 (d.h.take 2 ++ [0, 0]) 1 = getU8 d.h 1 := by simp [getU8, getBE, slice, hd]
  simp only [layerView, AnyObj.info, App.info, Dhcpv6.fields, hr, hrel, hm, hh, if_true]

/-- **DHCPv6 step** (client / server and relay messages; canonical options) -/
theorem dhcpv6_step (ps : List LayerInfo) (d : Dhcpv6) (os : List AnyObj) (hi : d.InvM) (hf : d.Fits)
    (hc : ∀ o ∈ d.opts, Dhcpv6.Canon o) (hlink : LinkAll (.app (.dhcpv6 d)) os) (region io : Bytes)
    (hlen : region.length = d.hdr + sizeOfStack os) :
    ∃ out x' inner, d.write (cxOf ps os) region = .ok out ∧ out.length = region.length ∧
      parseOne "DHCPv6" out = .ok (x', inner) ∧
      layerView false x' = layerView false (.app (.dhcpv6 d)) ∧
      StepInnerA (.app (.dhcpv6 d)) os io 0 x' inner := by
  have hnx := none_link hlink
  have hos := nextA_none hnx; subst hos
  have hinv := dhcpv6_inv_of_invM d hi hf
  have hfits : Dhcpv6.wireSum d.opts < 4294967296 := hf
  have hlen' : region.length = d.hdr := hlen
  have hw := dhcpv6_write_eq (cxOf ps []) d hinv region (by omega)
  have hdrop : region.drop d.hdr = [] := List.drop_eq_nil_of_le (by omega)
  rw [hdrop, List.append_nil] at hw
  rcases app_write_length ps (.dhcpv6 d) [] hi hf region hlen with ⟨out', hw', hl'⟩
  have : out' = d.fixedBytes ++ Dhcpv6.optsBytes d.opts := by
    have := hw'.symm.trans hw
    injection this
  subst this
  cases hrel : d.isRelay with
  | false =>
    exact ⟨_, _, _, hw, hl', parseOne_dhcpv6 _ _ _ (dhcpv6_reparse_plain d hinv hrel hc hfits),
      dhcpv6_view_plain false d hrel _ _ _, none_stepInner _ _ [] io 0 rfl rfl⟩
  | true =>
    exact ⟨_, _, _, hw, hl', parseOne_dhcpv6 _ _ _ (dhcpv6_reparse_relay d hinv hrel hc hfits),
      dhcpv6_view_relay false d hinv.hlen hrel _, none_stepInner _ _ [] io 0 rfl rfl⟩

/-! ### RTP -/

/-- what `RTP::write_serialization` leaves in its region: header, CSRC list and extension in front, the inner chain's bytes
    untouched, the padding trailer (`padding − 1` zeros and the count) behind — the explicit form of `rtp_writesOnlyExact` -/
theorem rtp_write_eq (cx : Ctx) (r : Rtp) (hi : r.Inv) (region : Bytes)
    (hr : region.length = r.hdr + cx.innerSize + r.padding) :
    r.write cx region = .ok (r.headerBytes ++ ((region.drop r.hdr).take cx.innerSize ++ r.padBytes)) := by
  have hH := rtp_headerBytes_length r hi
  have hHsplit : r.headerBytes = r.h ++ Rtp.wordsBytes r.csrc ++ r.extBytes := rfl
  have hcs := wordsBytes_length r.csrc
  have hlen12 := hi.hlen
  have e1 : (OutCursor.ofRegion region).write r.h = .ok (emit (OutCursor.ofRegion region) r.h) :=
    write_ok _ _ (ofRegion_inv region) (by
      simp only [OutCursor.ofRegion, hlen12]
      have : 12 ≤ r.hdr := by unfold Rtp.hdr; omega
      omega)
  have i1 : (emit (OutCursor.ofRegion region) r.h).Inv := emit_inv _ _ (ofRegion_inv region) (by
      simp only [OutCursor.ofRegion, hlen12]
      have : 12 ≤ r.hdr := by unfold Rtp.hdr; omega
      omega)
  have hsz : r.h.length + (Rtp.wordsBytes r.csrc).length + r.extBytes.length = r.hdr := by
    rw [← hH, hHsplit]; simp only [List.length_append]
  have e2 := writeWords_ok (emit (OutCursor.ofRegion region) r.h) r.csrc i1 (by
      simp only [emit_ofRegion_size]; omega)
  have i2 := emit_inv _ (Rtp.wordsBytes r.csrc) i1 (by simp only [emit_ofRegion_size]; omega)
  have e3 : r.writeExt (emit (emit (OutCursor.ofRegion region) r.h) (Rtp.wordsBytes r.csrc))
      = .ok (emit (OutCursor.ofRegion region) r.headerBytes) := by
    rw [writeExt_ok r _ i2 hi (by simp only [emit_emit, emit_ofRegion_size, List.length_append] <;> omega)]
    simp only [emit_emit, hHsplit, List.append_assoc]
  have i3 : (emit (OutCursor.ofRegion region) r.headerBytes).Inv := by
    have := emit_inv _ r.extBytes i2 (by simp only [emit_emit, emit_ofRegion_size, List.length_append] <;> omega)
    simpa only [emit_emit, hHsplit, List.append_assoc] using this
  unfold Rtp.write
  simp only [e1, e2, e3, bind, Out.bind]
  unfold Rtp.writePadding
  by_cases hp : r.paddingBit = 1
  · have hpos : r.padding > 0 := hi.padBit.mp hp
    simp only [hp, beq_self_eq_true, if_true, hpos]
    have hskip : Rtp.skipInner cx (emit (OutCursor.ofRegion region) r.headerBytes)
        = Out.ok (emit (OutCursor.ofRegion region) (r.headerBytes ++ (region.drop r.hdr).take cx.innerSize)) := by
      unfold Rtp.skipInner
      split
      · rename_i he
        have : cx.innerSize = 0 := by
          unfold Ctx.innerSize
          have : cx.inners = [] := by simpa using he
          simp [this]
        simp [this]
      · rw [skip_ok _ _ i3 (by simp only [emit_ofRegion_size]; omega), emit_emit, emit_ofRegion_rest, hH]
    rw [hskip]
    simp only [bind, Out.bind]
    have hmid : ((region.drop r.hdr).take cx.innerSize).length = cx.innerSize := by
      simp only [List.length_take, List.length_drop]; omega
    have i4 := emit_inv _ ((region.drop r.hdr).take cx.innerSize) i3 (by simp only [emit_ofRegion_size, hmid]; omega)
    simp only [emit_emit] at i4
    rw [fill_ok _ _ _ i4 (by simp only [emit_ofRegion_size, List.length_append, hmid, hH]; omega)]
    simp only []
    have i5 := emit_inv _ (List.replicate (r.padding - 1) (0 : UInt8)) i4
      (by simp only [emit_ofRegion_size, List.length_append, hmid, hH, List.length_replicate]; omega)
    simp only [emit_emit] at i5 ⊢
    rw [write_ok _ _ i5 (by
      simp only [emit_ofRegion_size, List.length_append, hmid, hH, List.length_replicate, List.length_cons, List.length_nil]; omega)]
    simp only [emit_emit, emit_ofRegion_buffer]
    have hd : List.drop (r.headerBytes ++ List.take cx.innerSize (List.drop r.hdr region) ++
        List.replicate (r.padding - 1) (0 : UInt8) ++ [UInt8.ofNat r.padding]).length region = [] :=
      List.drop_eq_nil_of_le (by
        simp only [List.length_append, hmid, hH, List.length_replicate, List.length_cons, List.length_nil]; omega)
    have hpb : r.padBytes = List.replicate (r.padding - 1) (0 : UInt8) ++ [UInt8.ofNat r.padding] := by
      unfold Rtp.padBytes; rw [if_pos hpos]
    rw [hd, hpb]
    simp only [List.append_assoc, List.append_nil]
    rfl
  · have hz : r.padding = 0 := by
      have := hi.padBit
      by_cases h0 : r.padding > 0
      · exact absurd (this.mpr h0) hp
      · omega
    have hp' : (r.paddingBit == 1) = false := by simpa using hp
    simp only [hp', Bool.false_eq_true, if_false, pure, emit_ofRegion_buffer]
    have hpb : r.padBytes = [] := by unfold Rtp.padBytes; rw [if_neg (by omega)]
    rw [hpb, List.append_nil, hH]
    have : (region.drop r.hdr).take cx.innerSize = region.drop r.hdr :=
      List.take_of_length_le (by simp only [List.length_drop]; omega)
    rw [this]

/-- **RTP step** (entry class; payload RawPDU or nothing; padding trailer stripped by the constructor itself) -/
theorem rtp_step (ps : List LayerInfo) (t : Rtp) (os : List AnyObj) (hi : t.Inv) (hc : t.Canon)
    (hlink : LinkAll (.app (.rtp t)) os) (region io : Bytes)
    (hlen : region.length = t.hdr + sizeOfStack os + t.trl)
    (hio : (region.drop t.hdr).take (sizeOfStack os) = io)
    (hnil : os = [] → io = []) (hraw : ∀ p, os = [.raw p] → io = p) :
    ∃ out x' inner, t.write (cxOf ps os) region = .ok out ∧ out.length = region.length ∧
      parseOne "RTP" out = .ok (x', inner) ∧
      layerView false x' = layerView false (.app (.rtp t)) ∧
      StepInnerA (.app (.rtp t)) os io t.trl x' inner := by
  have hw := rtp_write_eq (cxOf ps os) t hi region (by rw [cxOf_innerSizeA]; exact hlen)
  rw [cxOf_innerSizeA, hio] at hw
  have hp := rtp_reparse t hi hc io
  have hiol : io.length = sizeOfStack os := by
    rw [← hio]; simp only [List.length_take, List.length_drop]; omega
  refine ⟨_, _, _, hw, ?_, parseOne_rtp _ _ _ hp, rfl, ?_⟩
  · simp only [List.length_append, rtp_headerBytes_length t hi, padBytes_length, hiol]
    have : t.trl = t.padding := rfl
    omega
  · apply leaf_stepInner_pad _ _ os io t.trl 0 _ rfl (leaf_link hlink) _ (fun _ => rfl) hnil hraw
    simp only [List.replicate_zero, List.append_nil]
    exact tailInner_ite io

/-! ### a link-layer class followed by ARP / RC4EAPOL / RSNEAPOL -/

/-- ARP and RC4EAPOL / RSNEAPOL: the classes outside the link-layer family (besides IP / IPv6) an EtherType names; `n` is the
    name the dispatch uses (`EAPOL` = `EAPOL::from_bytes`, which needs the key-descriptor type octet to name the class) -/
def ExtTier (y : AnyObj) (n : String) : Prop :=
  match y with
  | .app (.arp _) => n = "ARP"
  | .wifi (.eapol e) => n = "EAPOL" ∧ EapolTyped e
  | _ => False

theorem extTier_cls {y : AnyObj} {n : String} (h : ExtTier y n) :
    (y.info.1 = "ARP" ∧ n = "ARP") ∨ (y.info.1 = "RC4EAPOL" ∧ n = "EAPOL") ∨ (y.info.1 = "RSNEAPOL" ∧ n = "EAPOL") := by
  cases y with
  | app o => cases o <;> first | exact .inl ⟨rfl, h⟩ | exact h.elim
  | wifi o =>
    cases o with
    | eapol e =>
      have hn : n = "EAPOL" := h.1
      cases hr : e.rsn with
      | false => exact .inr (.inl ⟨by simp [AnyObj.info, Wifi.info, hr], hn⟩)
      | true => exact .inr (.inr ⟨by simp [AnyObj.info, Wifi.info, hr], hn⟩)
    | _ => exact h.elim
  | _ => exact h.elim

theorem extTier_not_raw {y : AnyObj} {n : String} (h : ExtTier y n) : isRaw y = false := by
  cases y <;> first | rfl | exact h.elim

theorem extTier_entry {y : AnyObj} {n : String} (h : ExtTier y n) : EntryName n y := by
  cases y with
  | app o => cases o <;> first | exact .inl h | exact h.elim
  | wifi o =>
    cases o with
    | eapol e => exact .inr ⟨.inl h.1, h.2⟩
    | _ => exact h.elim
  | _ => exact h.elim

theorem extTier_pad {y : AnyObj} {n : String} (h : ExtTier y n) : PadOKN n y := by
  cases y with
  | app o => cases o <;> first | exact .inl trivial | exact h.elim
  | wifi o =>
    cases o with
    | eapol e => exact .inr ⟨rfl, .inl h.1⟩
    | _ => exact h.elim
  | _ => exact h.elim

theorem etherTagOf_ext (c n : String)
    (hc : (c = "ARP" ∧ n = "ARP") ∨ (c = "RC4EAPOL" ∧ n = "EAPOL") ∨ (c = "RSNEAPOL" ∧ n = "EAPOL")) (f : Fields) (h t : Nat) :
    L2.etherTagOf ⟨c, f, h, t⟩ ≠ 0 ∧ Tags.classOfEther (L2.etherTagOf ⟨c, f, h, t⟩) = some n := by
  rcases hc with ⟨rfl, rfl⟩ | ⟨rfl, rfl⟩ | ⟨rfl, rfl⟩
  · have hp : Tags.pduTypeOf "ARP" = "ARP" := by decide
    have hn : ("ARP" == "PPPOE") = false := by decide
    simp only [L2.etherTagOf, hp, hn, Bool.false_eq_true, if_false]
    decide
  · have hp : Tags.pduTypeOf "RC4EAPOL" = "RC4EAPOL" := by decide
    have hn : ("RC4EAPOL" == "PPPOE") = false := by decide
    simp only [L2.etherTagOf, hp, hn, Bool.false_eq_true, if_false]
    decide
  · have hp : Tags.pduTypeOf "RSNEAPOL" = "RSNEAPOL" := by decide
    have hn : ("RSNEAPOL" == "PPPOE") = false := by decide
    simp only [L2.etherTagOf, hp, hn, Bool.false_eq_true, if_false]
    decide

theorem headTag_ext (ps : List LayerInfo) (y : AnyObj) (r : List AnyObj) (d s : Nat) (n : String) (hy : ExtTier y n) :
    Tags.classOfEther (L2.headTag (cxOf ps (y :: r)) d s) = some n := by
  have := etherTagOf_ext y.info.1 n (extTier_cls hy) y.info.2 y.hdr (y.trl (sizeOfStack r))
  simp [L2.headTag, cxOf_head_obj, this.1, this.2]

theorem eth_tagFor_ext (cx : Ctx) (e : L2.Eth) (i : LayerInfo) (rest : List LayerInfo) (n : String) (hc : cx.inners = i :: rest)
    (h : (i.cls = "ARP" ∧ n = "ARP") ∨ (i.cls = "RC4EAPOL" ∧ n = "EAPOL") ∨ (i.cls = "RSNEAPOL" ∧ n = "EAPOL")) :
    Tags.classOfEther (L2.Eth.tagFor cx e) = some n := by
  unfold L2.Eth.tagFor
  rw [hc]
  obtain ⟨c, f, hd, tr⟩ := i
  dsimp only at h ⊢
  rcases h with ⟨h, rfl⟩ | ⟨h, rfl⟩ | ⟨h, rfl⟩ <;> subst h
  · have hp : Tags.pduTypeOf "ARP" = "ARP" := by decide
    have h1 : ("ARP" == "PPPOE") = false := by decide
    have h2 : ("ARP" == "DOT1Q") = false := by decide
    have d1 : Tags.etherOfPduType "ARP" = 2054 := by decide
    have c1 : Tags.classOfEther 2054 = some "ARP" := by decide
    simp [hp, h1, h2, d1, c1]
  · have hp : Tags.pduTypeOf "RC4EAPOL" = "RC4EAPOL" := by decide
    have h1 : ("RC4EAPOL" == "PPPOE") = false := by decide
    have h2 : ("RC4EAPOL" == "DOT1Q") = false := by decide
    have d1 : Tags.etherOfPduType "RC4EAPOL" = 34958 := by decide
    have c1 : Tags.classOfEther 34958 = some "EAPOL" := by decide
    simp [hp, h1, h2, d1, c1]
  · have hp : Tags.pduTypeOf "RSNEAPOL" = "RSNEAPOL" := by decide
    have h1 : ("RSNEAPOL" == "PPPOE") = false := by decide
    have h2 : ("RSNEAPOL" == "DOT1Q") = false := by decide
    have d1 : Tags.etherOfPduType "RSNEAPOL" = 34958 := by decide
    have c1 : Tags.classOfEther 34958 = some "EAPOL" := by decide
    simp [hp, h1, h2, d1, c1]

/-- **EthernetII in front of ARP / EAPOL** -/
theorem eth_step_ext (ps : List LayerInfo) (e : L2.Eth) (y : AnyObj) (r : List AnyObj) (n : String) (hwf : e.WF)
    (hy : ExtTier y n) (region io : Bytes)
    (hlen : region.length = 14 + sizeOfStack (y :: r) + L2.Eth.trl (sizeOfStack (y :: r)))
    (hio : (region.drop 14).take (sizeOfStack (y :: r)) = io) :
    ∃ out x' inner, e.write (cxOf ps (y :: r)) region = .ok out ∧ out.length = region.length ∧
      parseOne "EthernetII" out = .ok (x', inner) ∧
      layerView false x' = layerView false (.l2 (.eth e)) ∧
      StepInnerA (.l2 (.eth e)) (y :: r) io (L2.Eth.trl (sizeOfStack (y :: r))) x' inner := by
  rcases L2.eth_reparse (cxOf ps (y :: r)) e hwf region hlen with ⟨out, hw, hl, hp⟩
  rw [cxOf_innerSizeA, hio] at hp
  have hd := eth_tagFor_ext (cxOf ps (y :: r)) e _ _ n (cxOf_inners_obj ps y r) (extTier_cls hy)
  rw [L2.etherInner_some hd] at hp
  exact ⟨out, _, _, hw, hl, L2.parseOne_eth _ _ _ hp, L2.eth_view_false e _,
    stepInnerA_objN _ _ y r io _ _ _ n false (extTier_not_raw hy) rfl rfl (extTier_entry hy) (.inr (extTier_pad hy))⟩

/-- **Dot1Q in front of ARP / EAPOL**, `k` zero bytes of an enclosing layer's padding behind it -/
theorem dot1q_step_ext (ps : List LayerInfo) (q : L2.Dot1Q) (y : AnyObj) (r : List AnyObj) (n : String) (hwf : q.WF)
    (hy : ExtTier y n) (region io : Bytes) (k : Nat)
    (hlen : region.length = 4 + sizeOfStack (y :: r) + q.trl (sizeOfStack (y :: r)))
    (hio : (region.drop 4).take (sizeOfStack (y :: r)) = io) (hpos : 0 < io.length) :
    ∃ out x' inner, q.write (cxOf ps (y :: r)) region = .ok out ∧ out.length = region.length ∧
      parseOne "Dot1Q" (out ++ List.replicate k 0) = .ok (x', inner) ∧
      layerView false x' = layerView false (.l2 (.dot1q q)) ∧
      StepInnerA (.l2 (.dot1q q)) (y :: r) io (q.trl (sizeOfStack (y :: r)) + k) x' inner := by
  rcases L2.dot1q_reparse_junk (cxOf ps (y :: r)) q hwf region hlen k with ⟨out, hw, hl, hp⟩
  rw [cxOf_innerSizeA, hio] at hp
  have hiol : io.length ≤ sizeOfStack (y :: r) := by rw [← hio]; simp only [List.length_take]; omega
  have hgt : region.length + k > 4 := by omega
  rw [if_pos hgt] at hp
  have hd : Tags.classOfEther (L2.Dot1Q.tagFor (cxOf ps (y :: r)) q) = some n := by
    rw [L2.dot1q_tagFor_eq]; exact headTag_ext ps y r _ _ n hy
  rw [L2.etherInner_some hd] at hp
  exact ⟨out, _, _, hw, hl, L2.parseOne_dot1q _ _ _ hp, L2.dot1q_view q _ false false (fun h => by cases h),
    stepInnerA_objN _ _ y r io _ _ _ n false (extTier_not_raw hy) rfl rfl (extTier_entry hy) (.inr (extTier_pad hy))⟩

/-- **SNAP in front of ARP / EAPOL** -/
theorem snap_step_ext (ps : List LayerInfo) (s : L2.Snap) (y : AnyObj) (r : List AnyObj) (n : String) (hwf : s.WF)
    (hy : ExtTier y n) (region io : Bytes) (hlen : region.length = 8 + sizeOfStack (y :: r)) (hio : region.drop 8 = io)
    (hpos : 0 < io.length) :
    ∃ out x' inner, s.write (cxOf ps (y :: r)) region = .ok out ∧ out.length = region.length ∧
      parseOne "SNAP" out = .ok (x', inner) ∧
      layerView false x' = layerView false (.l2 (.snap s)) ∧
      StepInnerA (.l2 (.snap s)) (y :: r) io 0 x' inner := by
  rcases L2.snap_reparse (cxOf ps (y :: r)) s hwf region (by omega) with ⟨out, hw, hl, hp⟩
  rw [hio] at hp
  have hiol : io.length = region.length - 8 := by rw [← hio]; simp
  have hgt : region.length > 8 := by omega
  rw [if_pos hgt] at hp
  have hd : Tags.classOfEther (L2.Snap.tagFor (cxOf ps (y :: r)) s) = some n := by
    rw [L2.snap_tagFor_eq]; exact headTag_ext ps y r _ _ n hy
  rw [L2.etherInner_some hd] at hp
  exact ⟨out, _, _, hw, hl, L2.parseOne_snap _ _ _ hp, L2.snap_view s _ false (fun h => by cases h),
    stepInnerA_objN _ _ y r io 0 0 _ n false (extTier_not_raw hy) rfl (by simp) (extTier_entry hy) (.inl rfl)⟩

/-- **SLL in front of ARP / EAPOL** -/
theorem sll_step_ext (ps : List LayerInfo) (s : L2.Sll) (y : AnyObj) (r : List AnyObj) (n : String) (hwf : s.WF)
    (hy : ExtTier y n) (region io : Bytes) (hlen : region.length = 16 + sizeOfStack (y :: r)) (hio : region.drop 16 = io)
    (hpos : 0 < io.length) :
    ∃ out x' inner, s.write (cxOf ps (y :: r)) region = .ok out ∧ out.length = region.length ∧
      parseOne "SLL" out = .ok (x', inner) ∧
      layerView false x' = layerView false (.l2 (.sll s)) ∧
      StepInnerA (.l2 (.sll s)) (y :: r) io 0 x' inner := by
  rcases L2.sll_reparse (cxOf ps (y :: r)) s hwf region (by omega) with ⟨out, hw, hl, hp⟩
  rw [hio] at hp
  have hiol : io.length = region.length - 16 := by rw [← hio]; simp
  have hgt : region.length > 16 := by omega
  rw [if_pos hgt] at hp
  have hd : Tags.classOfEther (L2.Sll.tagFor (cxOf ps (y :: r)) s) = some n := by
    rw [L2.sll_tagFor_eq]; exact headTag_ext ps y r _ _ n hy
  rw [L2.etherInner_some hd] at hp
  exact ⟨out, _, _, hw, hl, L2.parseOne_sll _ _ _ hp, L2.sll_view s _ false (fun h => by cases h),
    stepInnerA_objN _ _ y r io 0 0 _ n false (extTier_not_raw hy) rfl (by simp) (extTier_entry hy) (.inl rfl)⟩

theorem take_drop_fullB (region : Bytes) (h n : Nat) (hl : region.length = h + n) : (region.drop h).take n = region.drop h :=
  List.take_of_length_le (by simp only [List.length_drop]; omega)

/-- a link-layer class (EthernetII, Dot1Q, SNAP, SLL) in front of ARP / RC4EAPOL / RSNEAPOL -/
theorem l2_step_ext (ps : List LayerInfo) (x : L2.Obj) (y : AnyObj) (r : List AnyObj) (n : String) (hinv : L2.ObjInv x)
    (hy : ExtTier y n) (hl : l2Ether x) (k : Nat) (hk : PadCond ps (.l2 x) k) (region io : Bytes)
    (hlen : region.length = L2.hdr x + sizeOfStack (y :: r) + L2.trl x (sizeOfStack (y :: r)))
    (hio : (region.drop (L2.hdr x)).take (sizeOfStack (y :: r)) = io) (hpos : 0 < io.length) :
    ∃ out x' inner, L2.write (cxOf ps (y :: r)) x region = .ok out ∧ out.length = region.length ∧
      parseOne (L2.info x).1 (out ++ List.replicate k 0) = .ok (x', inner) ∧
      layerView false x' = layerView false (.l2 x) ∧
      StepInnerA (.l2 x) (y :: r) io (L2.trl x (sizeOfStack (y :: r)) + k) x' inner := by
  have hk0 : ¬ L2.EtherTier x → k = 0 := fun hn => by rcases hk with h | h; exact h; exact absurd h.2 hn
  cases x with
  | eth e =>
    have := hk0 (by simp [L2.EtherTier]); subst this
    rcases eth_step_ext ps e y r n hinv hy region io hlen hio with ⟨out, x', inner, hw, hol, hp, hvw, hs⟩
    exact ⟨out, x', inner, hw, hol, by rw [List.replicate_zero, List.append_nil]; exact hp, hvw, hs⟩
  | dot1q q => exact dot1q_step_ext ps q y r n hinv hy region io k hlen hio hpos
  | snap s =>
    have := hk0 (by simp [L2.EtherTier]); subst this
    simp only [L2.hdr, L2.trl, Nat.add_zero] at hlen hio
    rw [take_drop_fullB region 8 _ hlen] at hio
    rcases snap_step_ext ps s y r n hinv hy region io hlen hio hpos with ⟨out, x', inner, hw, hol, hp, hvw, hs⟩
    exact ⟨out, x', inner, hw, hol, by rw [List.replicate_zero, List.append_nil]; exact hp, hvw, hs⟩
  | sll s =>
    have := hk0 (by simp [L2.EtherTier]); subst this
    simp only [L2.hdr, L2.trl, Nat.add_zero] at hlen hio
    rw [take_drop_fullB region 16 _ hlen] at hio
    rcases sll_step_ext ps s y r n hinv hy region io hlen hio hpos with ⟨out, x', inner, hw, hol, hp, hvw, hs⟩
    exact ⟨out, x', inner, hw, hol, by rw [List.replicate_zero, List.append_nil]; exact hp, hvw, hs⟩
  | _ => exact hl.elim

/-! ### LLC in front of STP -/

theorem llc_written_stp (ps : List LayerInfo) (l : L2.Llc) (s : Stp) (r : List AnyObj) (hd : l.dsap = 0x42) (hs : l.ssap = 0x42) :
    L2.Llc.written (cxOf ps (.app (.stp s) :: r)) l = l := by
  unfold L2.Llc.written
  rw [cxOf_innerCls_obj]
  have : (AnyObj.app (.stp s)).info.1 = "STP" := rfl
  rw [this]
  simp only [beq_self_eq_true, if_true]
  cases l
  simp only at hd hs
  subst hd; subst hs
  rfl

/-- **LLC (DSAP = SSAP = 0x42, no information fields) in front of STP** -/
theorem llc_step_stp (ps : List LayerInfo) (l : L2.Llc) (s : Stp) (r : List AnyObj) (hinv : l.Inv)
    (hl : l2ToStp (.llc l)) (region io : Bytes) (hlen : region.length = l.hdr + sizeOfStack (.app (.stp s) :: r))
    (hio : region.drop l.hdr = io) (hpos : 0 < io.length) :
    ∃ out x' inner, l.write (cxOf ps (.app (.stp s) :: r)) region = .ok out ∧ out.length = region.length ∧
      parseOne "LLC" out = .ok (x', inner) ∧
      layerView false x' = layerView false (.l2 (.llc l)) ∧
      StepInnerA (.l2 (.llc l)) (.app (.stp s) :: r) io 0 x' inner := by
  obtain ⟨hd, hs, hno⟩ : l.dsap = 0x42 ∧ l.ssap = 0x42 ∧ l.infos = [] := hl
  rcases L2.llc_api_reparse_partial (cxOf ps (.app (.stp s) :: r)) l hinv hno region (by omega) with ⟨out, hw, hol, hp⟩
  rw [hio, llc_written_stp ps l s r hd hs] at hp
  refine ⟨out, _, _, hw, hol, L2.parseOne_llc _ _ _ hp, L2.llc_view l false, ?_⟩
  apply stepInnerA_obj _ _ (.app (.stp s)) r io 0 0 _ false rfl rfl _ (.inl rfl)
  simp only [L2.Llc.innerFor, hpos, if_true, hd, hs, List.replicate_zero, List.append_nil]
  rfl

end Tins.Wire.ChainAll
